(* Cmd/Grammar.v — the IMAP command-line parser of pymap as it is on /repo's
   tree (after the C06 fixes), transcribed method by method with the
   combinators of Cmd/Parser.v:
     pymap/parsing/__init__.py      Space, EndLine, ExpectedParseable
     pymap/parsing/primitives.py    Nil, Number, Atom, QuotedString, LiteralString, String, List
     pymap/parsing/specials/*.py    AString, Mailbox, Tag, DateTime, Flag, StatusAttribute,
                                    ObjectId, ExtensionOption(s), FetchAttribute, SearchKey,
                                    SequenceSet
     pymap/parsing/command/*.py     the 34 built-in commands
     pymap/parsing/commands.py      Commands.parse
   Parsed values are kept only where control flow depends on them.
   Definitions only. *)
From PV Require Import Base.Prelude Base.Decimal Cmd.CLex Cmd.Parser Cmd.Utf7Ok.
Local Open Scope N_scope.

(* byte strings *)
Definition s_NIL := [78;73;76].
Definition s_INBOX := [73;78;66;79;88].
Definition s_UID := [85;73;68].
Definition s_CHARSET := [67;72;65;82;83;69;84].
Definition s_ALL := [65;76;76]. Definition s_FULL := [70;85;76;76]. Definition s_FAST := [70;65;83;84].
Definition s_MIME := [77;73;77;69].
Definition s_HEADER := [72;69;65;68;69;82]. Definition s_TEXT := [84;69;88;84].
Definition s_HEADER_FIELDS := s_HEADER ++ [46;70;73;69;76;68;83].
Definition s_HEADER_FIELDS_NOT := s_HEADER_FIELDS ++ [46;78;79;84].
Definition s_BODY := [66;79;68;89].
Definition s_PEEK := [46;80;69;69;75].
Definition s_BODY_PEEK := s_BODY ++ s_PEEK.
Definition s_BINARY := [66;73;78;65;82;89].
Definition s_BINARY_PEEK := s_BINARY ++ s_PEEK.
Definition s_BINARY_SIZE := s_BINARY ++ [46;83;73;90;69].
Definition s_RFC822 := [82;70;67;56;50;50].
Definition s_FLAGS := [70;76;65;71;83].
Definition s_SILENT := [46;83;73;76;69;78;84].
Definition s_ENVELOPE := [69;78;86;69;76;79;80;69].
Definition s_INTERNALDATE := [73;78;84;69;82;78;65;76;68;65;84;69].
Definition s_BODYSTRUCTURE := s_BODY ++ [83;84;82;85;67;84;85;82;69].
Definition s_EMAILID := [69;77;65;73;76;73;68].
Definition s_THREADID := [84;72;82;69;65;68;73;68].
Definition s_MESSAGES := [77;69;83;83;65;71;69;83].
Definition s_RECENT := [82;69;67;69;78;84].
Definition s_UIDNEXT := s_UID ++ [78;69;88;84].
Definition s_UIDVALIDITY := s_UID ++ [86;65;76;73;68;73;84;89].
Definition s_UNSEEN := [85;78;83;69;69;78].
Definition s_MAILBOXID := [77;65;73;76;66;79;88;73;68].
Definition s_SEEN := [83;69;69;78].
Definition s_ANSWERED := [65;78;83;87;69;82;69;68].
Definition s_DELETED := [68;69;76;69;84;69;68].
Definition s_FLAGGED := [70;76;65;71;71;69;68].
Definition s_NEW := [78;69;87]. Definition s_OLD := [79;76;68].
Definition s_DRAFT := [68;82;65;70;84].
Definition s_UN := [85;78].
Definition s_BCC := [66;67;67]. Definition s_CC := [67;67]. Definition s_FROM := [70;82;79;77].
Definition s_SUBJECT := [83;85;66;74;69;67;84]. Definition s_TO := [84;79].
Definition s_BEFORE := [66;69;70;79;82;69]. Definition s_ON := [79;78].
Definition s_SINCE := [83;73;78;67;69]. Definition s_SENT := [83;69;78;84].
Definition s_KEYWORD := [75;69;89;87;79;82;68].
Definition s_LARGER := [76;65;82;71;69;82]. Definition s_SMALLER := [83;77;65;76;76;69;82].
Definition s_OR := [79;82].

Definition beq (a b : bytes) : bool := bytes_eqb a b.
Definition starts_with (p b : bytes) : bool := bytes_eqb p (firstn (length p) b).
Definition is_empty {A} (b : list A) : bool := match b with [] => true | _ => false end.
Definition head_is (c : N) (b : bytes) : bool :=
  match b with x :: _ => x =? c | [] => false end.
Definition all_zero (ds : bytes) : bool := forallb (fun c => c =? 48) ds.
Definition is_ascii (b : bytes) : bool := forallb (fun c => c <? 128) b.

Record params := {
  pa_append : bool;              (* params.command_name == b'APPEND' *)
  pa_max_append : option N;      (* params.max_append_len *)
  pa_allow_cont : bool;          (* params.allow_continuations *)
  pa_uid : bool;                 (* params.uid *)
  pa_charset : option bytes      (* params.charset *)
}.
Definition with_charset (pr : params) (c : option bytes) : params :=
  {| pa_append := pa_append pr; pa_max_append := pa_max_append pr;
     pa_allow_cont := pa_allow_cont pr; pa_uid := pa_uid pr; pa_charset := c |}.
Definition with_uid (pr : params) : params :=
  {| pa_append := pa_append pr; pa_max_append := pa_max_append pr;
     pa_allow_cont := pa_allow_cont pr; pa_uid := true; pa_charset := pa_charset pr |}.

(* LiteralString._check_too_big ; String._MAX_LEN = 4096 *)
Definition too_big (pr : params) (n : N) : bool :=
  if pa_append pr then match pa_max_append pr with Some m => m <? n | None => false end
  else 4096 <? n.

Section Grammar.
Variable o : oracle.
Variable F : nat.     (* iterations allowed to each while-loop *)

(* ------------------------------------------------------------ primitives *)
Definition p_space : parser unit := lex lex_space.
Definition p_opt_space : parser unit := try_ p_space (fun _ => ret tt).
Definition p_endline : parser unit := lex lex_endline.
Definition p_atom : parser bytes := lex (lex_run atom_char).

(* Number.parse: the atom must consist of digits; int() of it *)
Definition p_number : parser unit :=
  a <- p_atom ;;
  guard (all_digits a) FPlain ;;;
  guard_exc (negb (too_many_digits a)) XValue.

Definition p_nil : parser unit :=
  a <- p_atom ;; guard (beq (upper a) s_NIL) FPlain.

Definition p_quoted : parser bytes := lex lex_quoted.

Definition p_literal (pr : params) : parser bytes :=
  h <- lex lex_literal_hdr ;;
  let '(_, ds, plus) := h in
  guard_exc (negb (too_many_digits ds)) XValue ;;;
  let n := digits_value ds in
  guard (negb (too_big pr n)) FPlain ;;;
  if plus then lex (take_exact n)
  else
    b <- peek ;;
    guard (is_empty b) FPlain ;;;
    if pa_allow_cont pr then take_cont n else fail FPlain.

Definition p_string (pr : params) : parser bytes :=
  try_ p_quoted (fun _ => p_literal pr).

Definition p_astring (pr : params) : parser bytes :=
  try_ (lex (lex_run astring_char)) (fun _ => p_string pr).

(* ExpectedParseable.parse *)
Fixpoint p_expected {A} (ps : list (parser A)) : parser A :=
  match ps with
  | [] => fail FUnexpected
  | p :: r => try_ p (fun _ => p_expected r)
  end.

(* List.parse *)
Definition limit_reached {A} (limit : option N) (acc : list A) : bool :=
  match limit with Some l => N.of_nat (length acc) =? l | None => false end.
Definition list_step {A} (limit : option N) (item : parser A) (acc : list A)
  : parser (list A + list A) :=
  try_ (lex lex_list_end ;;; ret (inr (rev acc)))
       (fun _ =>
          b <- peek ;;
          guard (is_empty acc || head_is SP b) FPlain ;;;
          x <- item ;;
          guard (negb (limit_reached limit acc)) FPlain ;;;
          ret (inl (x :: acc))).
Definition p_list {A} (limit : option N) (item : parser A) : parser (list A) :=
  lex (lex_byte_sp LPAREN) ;;; loop F (list_step limit item) [].

(* ----------------------------------------------------------- sequence set *)
Definition seq_idx : parser unit :=
  b <- peek ;;
  if head_is STAR b then lex (lex_byte STAR)
  else ds <- lex lex_seqnum ;; guard_exc (negb (too_many_digits ds)) XValue.
Definition seq_part : parser unit :=
  seq_idx ;;;
  b <- peek ;;
  if head_is COLON b then lex (lex_byte COLON) ;;; seq_idx else ret tt.
(* SequenceSet.parse:  while buf: item; if buf and buf[0] != ',': break; buf = buf[1:]
   and at least one item.  Written with the first item outside the loop; the
   loop state says nothing, each round starts behind an item. *)
Definition seq_tail_step (_ : unit) : parser (unit + unit) :=
  b' <- peek ;;
  if is_empty b' then ret (inr tt)
  else if head_is COMMA b' then
    lex (lex_byte COMMA) ;;;
    b <- peek ;;
    if is_empty b then ret (inr tt) else seq_part ;;; ret (inl tt)
  else ret (inr tt).
Definition p_seqset : parser unit :=
  p_opt_space ;;;
  b <- peek ;;
  guard (negb (is_empty b)) FPlain ;;;
  seq_part ;;;
  loop F seq_tail_step tt.

(* ------------------------------------------------------------------ specials *)
(* Flag.parse; the value says whether it is a system flag *)
Definition p_flag : parser bool :=
  p_opt_space ;;;
  b <- peek ;;
  if is_empty b then fail FPlain
  else if head_is BSLASH b then lex (lex_byte BSLASH) ;;; p_atom ;;; ret true
  else p_atom ;;; ret false.

Definition p_datetime : parser unit :=
  q <- p_quoted ;;
  r <- ask o ODateTime q ;;
  guard (r =? 1) FInvalid.

Definition status_names : list bytes :=
  [s_MESSAGES; s_RECENT; s_UIDNEXT; s_UIDVALIDITY; s_UNSEEN; s_MAILBOXID].
Definition p_status_attr : parser unit :=
  p_opt_space ;;;
  a <- p_atom ;;
  guard (bytes_in (upper a) status_names) FInvalid.

Definition p_objid : parser bytes := lex lex_objid.

(* Mailbox.parse *)
Definition p_mailbox (pr : params) : parser unit :=
  v <- p_astring pr ;;
  if beq (upper v) s_INBOX then ret tt else guard (modutf7_ok v) FPlain.

(* ExtensionOption: the list argument nests through ExpectedParseable
   ([AString, List]); one unit of depth per nesting level *)
Fixpoint p_optlist (d : nat) (pr : params) : parser unit :=
  match d with
  | O => raise XRecursion
  | S d' =>
    p_list None (p_expected [p_astring pr ;;; ret tt; p_optlist d' pr]) ;;; ret tt
  end.
Definition p_ext_arg (d : nat) (pr : params) : parser unit :=
  try_ p_number (fun _ =>
  try_ p_seqset (fun _ =>
  try_ (p_optlist d pr) (fun _ => ret tt))).
Definition p_ext_option (d : nat) (pr : params) : parser unit :=
  lex lex_optname ;;; p_ext_arg d pr.
(* while True: try: option, buf = ExtensionOption.parse(buf) except: break *)
Definition ext_option_step (d : nat) (pr : params) (n : nat) : parser (nat + nat) :=
  try_ (p_ext_option d pr ;;; ret (inl (S n))) (fun _ => ret (inr n)).
(* ExtensionOptions.parse: never fails; the value is the number of options *)
Definition p_ext_options (d : nat) (pr : params) : parser nat :=
  try_ (lex (lex_byte_sp LPAREN) ;;;
        n <- loop F (ext_option_step d pr) O ;;
        lex (lex_byte_sp RPAREN) ;;;
        ret n)
       (fun _ => ret O).

(* ------------------------------------------------------------ fetch attribute *)
Definition fetch_simple : list bytes :=
  [s_ENVELOPE; s_FLAGS; s_INTERNALDATE; s_UID; s_RFC822 ++ [46;83;73;90;69];
   s_BODYSTRUCTURE; s_EMAILID; s_THREADID].
Definition fetch_rfc822 : list bytes :=
  [s_RFC822; s_RFC822 ++ [46] ++ s_HEADER; s_RFC822 ++ [46] ++ s_TEXT].
Definition fetch_sectioned : list bytes :=
  [s_BODY; s_BODY_PEEK; s_BINARY; s_BINARY_PEEK; s_BINARY_SIZE].

(* FetchAttribute._parse_section; value = the section has a specifier *)
Definition p_section (pr : params) : parser bool :=
  parts <- try_ (ns <- lex lex_sec_parts ;;
                 guard_exc (forallb (fun ds => negb (too_many_digits ds)) ns) XValue ;;;
                 ret true)
                (fun _ => ret false) ;;
  try_else p_atom
    (fun a =>
       let s := upper a in
       if parts && beq s s_MIME then ret true
       else if beq s s_HEADER || beq s s_TEXT then ret true
       else if beq s s_HEADER_FIELDS || beq s s_HEADER_FIELDS_NOT then
         l <- p_list None (p_expected [p_astring pr]) ;;
         guard (negb (is_empty l)) FPlain ;;;
         ret true
       else fail FPlain)
    (fun _ => ret false).

Definition p_fetch_att (pr : params) : parser unit :=
  name <- lex lex_attrname ;;
  let a := upper name in
  if bytes_in a fetch_simple then ret tt
  else if bytes_in a fetch_rfc822 then ret tt
  else if negb (bytes_in a fetch_sectioned) then fail FPlain
  else
    try_else (lex lex_section_start)
      (fun _ =>
         spec <- p_section pr ;;
         guard (negb (spec && starts_with s_BINARY a)) FPlain ;;;
         lex lex_section_end ;;;
         try_else (lex lex_partial)
           (fun pp =>
              let '(d1, d2) := pp in
              guard (negb (beq a s_BINARY_SIZE)) FPlain ;;;
              guard_exc (negb (too_many_digits d1 || too_many_digits d2)) XValue ;;;
              guard (negb (all_zero d2)) FPlain)
           (fun _ => ret tt))
      (fun _ => if beq a s_BODY then ret tt else fail FPlain).

(* ---------------------------------------------------------------- search key *)
Definition search_flag_keys : list bytes :=
  [s_ALL; s_ANSWERED; s_DELETED; s_FLAGGED; s_NEW; s_OLD; s_RECENT; s_SEEN;
   s_UN ++ s_ANSWERED; s_UN ++ s_DELETED; s_UN ++ s_FLAGGED; s_UNSEEN; s_DRAFT;
   s_UN ++ s_DRAFT].
Definition search_str_keys : list bytes :=
  [s_BCC; s_BODY; s_CC; s_FROM; s_SUBJECT; s_TEXT; s_TO].
Definition search_date_keys : list bytes :=
  [s_BEFORE; s_ON; s_SINCE; s_SENT ++ s_BEFORE; s_SENT ++ s_ON; s_SENT ++ s_SINCE].

(* SearchKey._parse_astring_filter: ret.value.decode(params.charset or 'ascii') *)
Definition p_astring_filter (pr : params) : parser unit :=
  v <- p_astring pr ;;
  match pa_charset pr with
  | None => guard_exc (is_ascii v) XValue
  | Some c => r <- ask o (ODecode c) v ;; guard_exc (r =? 1) XValue
  end.

Definition p_date_filter : parser unit :=
  v <- p_expected [p_atom; p_quoted] ;;
  r <- ask o ODate v ;;
  guard (r =? 1) FPlain.

(* while match: inverse = not inverse; buf = buf[match.end(0):]; match = NOT-pattern
   (463764a: NOT may be repeated) *)
Definition not_step (_ : unit) : parser (unit + unit) :=
  try_ (lex lex_not ;;; ret (inl tt)) (fun _ => ret (inr tt)).

Fixpoint p_search_key (d : nat) (pr : params) : parser unit :=
  match d with
  | O => raise XRecursion
  | S d' =>
    p_opt_space ;;;
    loop F not_step tt ;;;
    isseq <- try_ (p_seqset ;;; ret true) (fun _ => ret false) ;;
    if isseq then ret tt else
    (* an empty key list is refused (139a702), outside the try *)
    islist <- try_else (p_list None (p_expected [p_search_key d' pr]))
                   (fun l => guard (negb (is_empty l)) FPlain ;;; ret true)
                   (fun k => match k with
                             | FUnexpected => fail FUnexpected
                             | _ => ret false
                             end) ;;
    if islist then ret tt else
    a <- p_atom ;;
    let key := upper a in
    if bytes_in key search_flag_keys then ret tt
    else if bytes_in key search_str_keys then p_space ;;; p_astring_filter pr
    else if beq key s_EMAILID || beq key s_THREADID then p_space ;;; p_objid ;;; ret tt
    else if bytes_in key search_date_keys then p_space ;;; p_date_filter
    else if beq key s_KEYWORD || beq key (s_UN ++ s_KEYWORD) then
      p_space ;;; sys <- p_flag ;; guard (negb sys) FPlain
    else if beq key s_LARGER || beq key s_SMALLER then p_space ;;; p_number
    else if beq key s_UID then p_space ;;; p_seqset
    else if beq key s_HEADER then
      p_space ;;; p_astring_filter pr ;;; p_space ;;; p_astring_filter pr
    else if beq key s_OR then
      p_space ;;; p_search_key d' pr ;;; p_space ;;; p_search_key d' pr
    else fail FPlain
  end.

(* ------------------------------------------------------------------ commands *)
Inductive ckind :=
| KCapability | KLogout | KNoop | KId | KAppend | KCreate | KDelete | KExamine
| KList | KLsub | KRename | KSelect | KStatus | KSubscribe | KUnsubscribe
| KAuthenticate | KLogin | KStarttls | KCheck | KClose | KExpunge | KCopy | KMove
| KFetch | KStore | KSearch | KUidCopy | KUidMove | KUidExpunge | KUidFetch
| KUidSearch | KUidStore | KIdle.

Definition p_noargs : parser N := p_endline ;;; ret 0.

Definition p_mailbox_arg (pr : params) : parser N :=
  p_space ;;; p_mailbox pr ;;; p_endline ;;; ret 0.

Definition p_id (pr : params) : parser N :=
  p_space ;;;
  try_ p_nil (fun _ =>
    l <- p_list (Some 60) (p_expected [p_string pr]) ;;
    guard (Nat.even (length l)) FPlain) ;;;
  p_endline ;;; ret 0.

Definition p_authenticate : parser N :=
  p_space ;;; p_atom ;;; p_endline ;;; ret 0.

Definition p_login (pr : params) : parser N :=
  p_space ;;; p_astring pr ;;; p_space ;;; p_astring pr ;;; p_endline ;;; ret 0.

Definition p_select (d : nat) (pr : params) : parser N :=
  p_space ;;; p_mailbox pr ;;; p_ext_options d pr ;;; p_endline ;;; ret 0.

Definition p_rename (d : nat) (pr : params) : parser N :=
  p_space ;;; p_mailbox pr ;;; p_space ;;; p_mailbox pr ;;;
  p_ext_options d pr ;;; p_endline ;;; ret 0.

Definition p_list_cmd (pr : params) : parser N :=
  p_space ;;; p_mailbox pr ;;; p_space ;;;
  try_else (lex (lex_run_here listmb_char))
    (fun raw => guard (modutf7_ok raw) FPlain)
    (fun _ => v <- p_string pr ;; guard (modutf7_ok v) FPlain) ;;;
  p_endline ;;; ret 0.

Definition p_status (pr : params) : parser N :=
  p_space ;;; p_mailbox pr ;;; p_space ;;;
  l <- p_list None (p_expected [p_status_attr]) ;;
  guard (negb (is_empty l)) FPlain ;;;
  p_endline ;;; ret 0.

(* AppendCommand._parse_msg: None = an empty literal (cancel) *)
Definition p_append_msg (d : nat) (pr : params) : parser (option unit) :=
  p_space ;;;
  try_else (p_list None (p_expected [p_flag]))
    (fun _ => p_space)
    (fun k => match k with FUnexpected => fail FUnexpected | _ => ret tt end) ;;;
  try_else p_datetime
    (fun _ => p_space)
    (fun k => match k with FInvalid => fail FInvalid | _ => ret tt end) ;;;
  nopt <- loop F (ext_option_step d pr) O ;;
  try_else (p_literal pr)
    (fun lit => if is_empty lit then ret None else ret (Some tt))
    (fun k => match nopt with O => fail k | _ => ret (Some tt) end).

(* state = messages parsed so far; result = (messages, cancelled) *)
Definition append_step (d : nat) (pr : params) (n : nat) : parser (nat + (nat * bool)) :=
  try_else (p_append_msg d pr)
    (fun m => match m with
              | None => ret (inr (n, true))
              | Some _ => ret (inl (S n))
              end)
    (fun k => match n with O => fail k | _ => ret (inr (n, false)) end).
Definition p_append (d : nat) (pr : params) : parser N :=
  p_space ;;; p_mailbox pr ;;;
  r <- loop F (append_step d pr) O ;;
  p_endline ;;;
  ret (2 * N.of_nat (fst r) + (if snd r then 1 else 0)).

Definition p_expunge (pr : params) : parser N :=
  (if pa_uid pr then p_space ;;; p_seqset else ret tt) ;;; p_endline ;;; ret 0.

Definition p_copy (pr : params) : parser N :=
  p_space ;;; p_seqset ;;; p_space ;;; p_mailbox pr ;;; p_endline ;;; ret 0.

Definition macro_names : list bytes := [s_ALL; s_FULL; s_FAST].
Definition p_fetch (d : nat) (pr : params) : parser N :=
  p_space ;;; p_seqset ;;; p_space ;;;
  m <- try_ (a <- p_atom ;; guard (bytes_in (upper a) macro_names) FPlain ;;; ret true)
            (fun _ => ret false) ;;
  s <- try_ (p_fetch_att pr ;;; ret true) (fun _ => ret false) ;;
  (if m || s then ret tt
   else l <- p_list None (p_expected [p_fetch_att pr]) ;;
        guard (negb (is_empty l)) FPlain) ;;;
  p_ext_options d pr ;;; p_endline ;;; ret 0.

(* StoreCommand._info_pattern  ^([+-]?)FLAGS(\.SILENT)?$  case-insensitive *)
Definition store_info_ok (a : bytes) : bool :=
  let u := upper a in
  let u' := match u with c :: r => if (c =? PLUS) || (c =? MINUS) then r else u | [] => u end in
  beq u' s_FLAGS || beq u' (s_FLAGS ++ s_SILENT).
Definition flag_loop_step (_ : unit) : parser (unit + unit) :=
  try_ (p_flag ;;; try_ (p_space ;;; ret (inl tt)) (fun _ => ret (inr tt)))
       (fun _ => ret (inr tt)).
Definition p_store_flags : parser unit :=
  try_ (p_list None (p_expected [p_flag]) ;;; ret tt)
       (fun _ => loop F flag_loop_step tt).
Definition p_store (d : nat) (pr : params) : parser N :=
  p_space ;;; p_seqset ;;; p_ext_options d pr ;;; p_space ;;;
  a <- p_atom ;; guard (store_info_ok a) FPlain ;;;
  p_space ;;; p_store_flags ;;; p_endline ;;; ret 0.

(* SearchCommand._parse_charset *)
Definition p_charset_arg (pr : params) : parser (option bytes) :=
  is <- try_ (p_space ;;; a <- p_atom ;; guard (beq (upper a) s_CHARSET) FPlain ;;; ret true)
             (fun _ => ret false) ;;
  if is then
    p_space ;;;
    v <- p_astring pr ;;
    r <- ask o OCharset v ;;
    if r =? 1 then ret (Some v) else if r =? 0 then fail FPlain else raise XValue
  else ret None.
Definition search_step (d : nat) (pr : params) (any : bool) : parser (bool + unit) :=
  try_ (p_space ;;; p_search_key d pr ;;; ret (inl true))
       (fun k => if any then ret (inr tt) else fail k).
Definition p_search (d : nat) (pr : params) : parser N :=
  try_ (lex lex_return ;;; p_ext_options d pr ;;; ret tt) (fun _ => ret tt) ;;;
  c <- p_charset_arg pr ;;
  loop F (search_step d (with_charset pr c)) false ;;;
  p_endline ;;; ret 0.

Definition p_args (d : nat) (pr : params) (k : ckind) : parser N :=
  match k with
  | KCapability | KLogout | KNoop | KStarttls | KCheck | KClose | KIdle => p_noargs
  | KId => p_id pr
  | KAppend => p_append d pr
  | KCreate | KSelect | KExamine => p_select d pr
  | KDelete | KSubscribe | KUnsubscribe => p_mailbox_arg pr
  | KList | KLsub => p_list_cmd pr
  | KRename => p_rename d pr
  | KStatus => p_status pr
  | KAuthenticate => p_authenticate
  | KLogin => p_login pr
  | KExpunge => p_expunge pr
  | KUidExpunge => p_expunge (with_uid pr)
  | KCopy | KMove => p_copy pr
  | KUidCopy | KUidMove => p_copy (with_uid pr)
  | KFetch => p_fetch d pr
  | KUidFetch => p_fetch d (with_uid pr)
  | KStore => p_store d pr
  | KUidStore => p_store d (with_uid pr)
  | KSearch => p_search d pr
  | KUidSearch => p_search d (with_uid pr)
  end.

End Grammar.
