(* Cmd/ParserProofs.v — the safety judgment [gd] ("good") on parsers and its
   rules for every combinator of Cmd/Parser.v.

   [gd F o str p]: started with fewer than F readable bytes (mu b cs < F),
   p never runs out of fuel, never meets an unanswered oracle question, and
     - on success leaves a state that is no larger (strictly smaller for the
       values a with [str a = true]) and no more continuations than before,
     - on NotParseable leaves no more continuations than before.
   Loops [loop F step] are good as soon as every step that asks to go on has
   strictly consumed input — that is the termination argument of every
   while-loop of the parser. *)
From PV Require Import Base.Prelude Base.Decimal Cmd.CLex Cmd.CLexProofs Cmd.Parser.
From Coq Require Import Lia.
Local Open Scope nat_scope.

Definition oracle_total (o : oracle) : Prop :=
  forall k v, o k v = 0%N \/ o k v = 1%N \/ o k v = 3%N.

Section GD.
Variable F : nat.

Definition gd {A} (str : A -> bool) (p : parser A) : Prop :=
  forall cs b, mu b cs < F ->
    match p cs b with
    | POk a b' cs' =>
      (if str a then mu b' cs' < mu b cs else mu b' cs' <= mu b cs) /\ cmu cs' <= cmu cs
    | PFail _ cs' => cmu cs' <= cmu cs
    | PFuel => False
    | PUnk => False
    | _ => True
    end.

Local Notation sgd p := (gd (fun _ => true) p).
Local Notation wgd p := (gd (fun _ => false) p).

Lemma gd_weaken {A} (str str' : A -> bool) p :
  gd str p -> (forall a, str' a = true -> str a = true) -> gd str' p.
Proof.
  intros H Hs cs b Hb. specialize (H cs b Hb). destruct (p cs b); auto.
  destruct H as [H1 H2]; split; [|exact H2].
  destruct (str' a) eqn:E.
  - rewrite (Hs _ E) in H1. exact H1.
  - destruct (str a); lia.
Qed.

Lemma sgd_gd {A} (str : A -> bool) p : sgd p -> gd str p.
Proof. intro H. eapply gd_weaken; [exact H|reflexivity]. Qed.

Lemma gd_wgd {A} (str : A -> bool) p : gd str p -> wgd p.
Proof. intro H. eapply gd_weaken; [exact H|discriminate]. Qed.

Lemma gd_ret {A} (str : A -> bool) a : str a = false -> gd str (ret a).
Proof. intros E cs b _. unfold ret. rewrite E. lia. Qed.

Lemma gd_fail {A} (str : A -> bool) k : gd str (fail k).
Proof. intros cs b _. unfold fail. lia. Qed.

Lemma gd_raise {A} (str : A -> bool) x : gd str (raise x).
Proof. intros cs b _. exact I. Qed.

(* p strict, q anything: the sequence is strict *)
Lemma gd_bind_l {A B} (str : B -> bool) (p : parser A) (q : A -> parser B) :
  sgd p -> (forall a, wgd (q a)) -> gd str (bind p q).
Proof.
  intros Hp Hq cs b Hb. unfold bind. specialize (Hp cs b Hb).
  destruct (p cs b) as [a b' cs'| | | | |]; auto.
  destruct Hp as [Hp1 Hp2]. cbn beta in Hp1.
  assert (Hb' : mu b' cs' < F) by lia.
  specialize (Hq a cs' b' Hb'). destruct (q a cs' b'); auto; try lia.
  destruct Hq as [Hq1 Hq2]. cbn beta in Hq1. split; [|lia]. destruct (str a0); lia.
Qed.

(* p not growing, q good for str: the sequence is good for str *)
Lemma gd_bind_r {A B} (str : B -> bool) (p : parser A) (q : A -> parser B) :
  wgd p -> (forall a, gd str (q a)) -> gd str (bind p q).
Proof.
  intros Hp Hq cs b Hb. unfold bind. specialize (Hp cs b Hb).
  destruct (p cs b) as [a b' cs'| | | | |]; auto.
  destruct Hp as [Hp1 Hp2]. cbn beta in Hp1.
  assert (Hb' : mu b' cs' < F) by lia.
  specialize (Hq a cs' b' Hb'). destruct (q a cs' b'); auto; try lia.
  destruct Hq as [Hq1 Hq2]. split; [|lia]. destruct (str a0); lia.
Qed.

(* the general rule: where p is strict for its value the rest need only be
   weak, elsewhere the rest must be good for str *)
Lemma gd_bind_dep {A B} (s1 : A -> bool) (str : B -> bool) (p : parser A) (q : A -> parser B) :
  gd s1 p -> (forall a, if s1 a then wgd (q a) else gd str (q a)) -> gd str (bind p q).
Proof.
  intros Hp Hq cs b Hb. unfold bind. specialize (Hp cs b Hb).
  destruct (p cs b) as [a b' cs'| | | | |]; auto.
  destruct Hp as [Hp1 Hp2]. specialize (Hq a).
  destruct (s1 a).
  - assert (Hb' : mu b' cs' < F) by lia.
    specialize (Hq cs' b' Hb'). destruct (q a cs' b'); auto; try lia.
    destruct Hq as [Hq1 Hq2]. cbn beta in Hq1. split; [|lia]. destruct (str a0); lia.
  - assert (Hb' : mu b' cs' < F) by lia.
    specialize (Hq cs' b' Hb'). destruct (q a cs' b'); auto; try lia.
    destruct Hq as [Hq1 Hq2]. split; [|lia]. destruct (str a0); lia.
Qed.

Lemma mu_cs_mono b cs cs' : cmu cs' <= cmu cs -> mu b cs' <= mu b cs.
Proof. unfold mu. lia. Qed.

Lemma gd_try_else_l {A B} (str : B -> bool) (p : parser A) (q : A -> parser B) h :
  sgd p -> (forall a, wgd (q a)) -> (forall k, gd str (h k)) -> gd str (try_else p q h).
Proof.
  intros Hp Hq Hh cs b Hb. unfold try_else. specialize (Hp cs b Hb).
  destruct (p cs b) as [a b' cs'|k cs'| | | |]; auto.
  - destruct Hp as [Hp1 Hp2]. cbn beta in Hp1.
    assert (Hb' : mu b' cs' < F) by lia.
    specialize (Hq a cs' b' Hb'). destruct (q a cs' b'); auto; try lia.
    destruct Hq as [Hq1 Hq2]. cbn beta in Hq1. split; [|lia]. destruct (str a0); lia.
  - exact (Hh k cs b Hb).
Qed.

Lemma gd_try_else_r {A B} (str : B -> bool) (p : parser A) (q : A -> parser B) h :
  wgd p -> (forall a, gd str (q a)) -> (forall k, gd str (h k)) -> gd str (try_else p q h).
Proof.
  intros Hp Hq Hh cs b Hb. unfold try_else. specialize (Hp cs b Hb).
  destruct (p cs b) as [a b' cs'|k cs'| | | |]; auto.
  - destruct Hp as [Hp1 Hp2]. cbn beta in Hp1.
    assert (Hb' : mu b' cs' < F) by lia.
    specialize (Hq a cs' b' Hb'). destruct (q a cs' b'); auto; try lia.
    destruct Hq as [Hq1 Hq2]. split; [|lia]. destruct (str a0); lia.
  - exact (Hh k cs b Hb).
Qed.

Lemma gd_try {A} (str : A -> bool) (p : parser A) h :
  gd str p -> (forall k, gd str (h k)) -> gd str (try_ p h).
Proof.
  intros Hp Hh cs b Hb. unfold try_, try_else. specialize (Hp cs b Hb).
  destruct (p cs b) as [a b' cs'|k cs'| | | |]; auto.
  exact (Hh k cs b Hb).
Qed.

Lemma gd_restore {A} (p : parser A) : wgd p -> wgd (restore p).
Proof.
  intros Hp cs b Hb. unfold restore. specialize (Hp cs b Hb).
  destruct (p cs b) as [a b' cs'| | | | |]; auto; cbn beta; lia.
Qed.

Lemma sgd_lex {A} (f : bytes -> option (A * bytes)) : shortens f -> sgd (lex f).
Proof.
  intros Hf cs b _. unfold lex. destruct (f b) as [[a b']|] eqn:E; [|lia].
  apply Hf in E. unfold mu. cbn beta. lia.
Qed.

Lemma wgd_lex {A} (f : bytes -> option (A * bytes)) : no_longer f -> wgd (lex f).
Proof.
  intros Hf cs b _. unfold lex. destruct (f b) as [[a b']|] eqn:E; [|lia].
  apply Hf in E. unfold mu. cbn beta. lia.
Qed.

Lemma wgd_peek : wgd peek.
Proof. intros cs b _. unfold peek. cbn beta. lia. Qed.

Lemma wgd_guard c k : wgd (guard c k).
Proof. unfold guard. destruct c; [apply gd_ret; reflexivity|apply gd_fail]. Qed.

Lemma wgd_guard_exc c x : wgd (guard_exc c x).
Proof. unfold guard_exc. destruct c; [apply gd_ret; reflexivity|apply gd_raise]. Qed.

Lemma take_exact_len n c lit rest :
  take_exact n c = Some (lit, rest) -> length rest <= length c.
Proof. apply take_exact_no_longer. Qed.

Lemma sgd_take_cont n : sgd (take_cont n).
Proof.
  intros cs b _. unfold take_cont. destruct cs as [|c cs']; [exact I|].
  destruct (take_exact n c) as [[lit rest]|] eqn:E.
  - apply take_exact_len in E. unfold mu. cbn [cmu]. cbn beta. lia.
  - cbn [cmu]. lia.
Qed.

Definition continues {S R} (v : S + R) : bool :=
  match v with inl _ => true | inr _ => false end.

Lemma loop_good {S R} (step : S -> parser (S + R)) :
  (forall s, gd continues (step s)) ->
  forall fuel s cs b, mu b cs < fuel -> fuel <= F ->
    match loop fuel step s cs b with
    | POk a b' cs' => mu b' cs' <= mu b cs /\ cmu cs' <= cmu cs
    | PFail _ cs' => cmu cs' <= cmu cs
    | PFuel => False
    | PUnk => False
    | _ => True
    end.
Proof.
  intros Hs fuel. induction fuel as [|f IH]; intros s cs b Hb Hf; [lia|].
  cbn [loop]. assert (HbF : mu b cs < F) by lia.
  specialize (Hs s cs b HbF).
  destruct (step s cs b) as [[s'|r] b' cs'| | | | |]; try exact Hs.
  destruct Hs as [H1 H2]. cbn [continues] in H1.
  assert (Hb' : mu b' cs' < f) by lia.
  specialize (IH s' cs' b' Hb' ltac:(lia)).
  destruct (loop f step s' cs' b'); auto; lia.
Qed.

Lemma wgd_loop {S R} (step : S -> parser (S + R)) s0 :
  (forall s, gd continues (step s)) -> wgd (loop F step s0).
Proof.
  intros Hs cs b Hb. pose proof (loop_good step Hs F s0 cs b Hb (le_n _)) as H.
  destruct (loop F step s0 cs b); auto.
Qed.

Lemma wgd_ask o k v : oracle_total o -> wgd (ask o k v).
Proof.
  intros Ho cs b _. unfold ask.
  destruct (Ho k v) as [E|[E|E]]; rewrite E; cbn beta; lia.
Qed.

End GD.

Notation sgd F p := (gd F (fun _ => true) p).
Notation wgd F p := (gd F (fun _ => false) p).
