(* Cmd/Framing.v — how the connection cuts the client's byte stream into the
   buffers the parser sees: IMAPConnection.readline (a line, glued with the
   data of every non-synchronizing literal {n+} it ends with and the line
   after it, fix 4a89635: the marker is looked for in the line just read),
   IMAPConnection.read_continuation (n literal bytes, then readline) and
   ManageSieveConnection._read_data (same framing).  Definitions only. *)
From PV Require Import Base.Prelude Base.Decimal Cmd.CLex.
Local Open Scope N_scope.

(* StreamReader.readline: up to and including the first LF; None = the
   stream ends before (EOFError) *)
Fixpoint split_line (s : bytes) : option (bytes * bytes) :=
  match s with
  | [] => None
  | c :: r =>
    if c =? LF then Some ([c], r)
    else match split_line r with
         | Some (l, r') => Some (c :: l, r')
         | None => None
         end
  end.

(* _literal_plus: the line ends with '{' digits '+' '}' CR? LF; the digits *)
Definition lit_plus_marker (line : bytes) : option bytes :=
  match rev line with
  | c0 :: r =>
    if c0 =? LF then
      let r1 := match r with c1 :: r' => if c1 =? CR then r' else r | [] => r end in
      match r1 with
      | c2 :: c3 :: r2 =>
        if (c2 =? RBRACE) && (c3 =? PLUS) then
          let '(ds_rev, r3) := span is_digit r2 in
          match ds_rev, r3 with
          | _ :: _, c4 :: _ => if c4 =? LBRACE then Some (rev ds_rev) else None
          | _, _ => None
          end
        else None
      | _ => None
      end
    else None
  | [] => None
  end.

(* readline: (buffer handed to the parser, rest of the stream); None = the
   stream ends inside the unit (the server waits, or sees EOF) *)
Fixpoint read_line_glued (fuel : nat) (stream : bytes) : option (bytes * bytes) :=
  match fuel with
  | O => None
  | S f =>
    match split_line stream with
    | None => None
    | Some (line, rest) =>
      match lit_plus_marker line with
      | None => Some (line, rest)
      | Some ds =>
        if too_many_digits ds then Some (line, rest)     (* left for the parser to reject *)
        else
          match take_exact (digits_value ds) rest with
          | None => None
          | Some (lit, rest') =>
            match read_line_glued f rest' with
            | Some (u, r) => Some (line ++ lit ++ u, r)
            | None => None
            end
          end
      end
    end
  end.

(* read_continuation(need) (need = 0: readline / _read_data) *)
Definition read_unit (need : N) (stream : bytes) : option (bytes * bytes) :=
  match take_exact need stream with
  | None => None
  | Some (lit, rest) =>
    match read_line_glued (S (length rest)) rest with
    | Some (u, r) => Some (lit ++ u, r)
    | None => None
    end
  end.

(* the whole exchange of one command on a client stream: the line and the
   continuation units the server reads when it asks; used with read_command *)
Definition chk_frame (c : N * bytes * option (bytes * bytes)) : bool :=
  let '(need, stream, e) := c in
  match read_unit need stream, e with
  | Some (u, r), Some (u', r') => bytes_eqb u u' && bytes_eqb r r'
  | None, None => true
  | _, _ => false
  end.
