(* Cmd/Check.v — case checkers of the C06 correspondence run
   (harness/props/C06.py).  The outcome observed on the implementation is part
   of each case; the model recomputes it under vm_compute. *)
From PV Require Import Base.Prelude Base.Decimal Cmd.CLex Cmd.Parser Cmd.Utf7Ok
     Cmd.Grammar Cmd.Commands.
Local Open Scope N_scope.

(* oracle answers measured by the harness with the standard library *)
Record otable := {
  t_dates : list (bytes * N * N);       (* value, ODateTime answer, ODate answer *)
  t_charsets : list (bytes * N);        (* value, OCharset answer *)
  t_decodes : list (bytes * bytes * N)  (* charset, value, ODecode answer *)
}.
Fixpoint lookup_date (t : list (bytes * N * N)) (v : bytes) : option (N * N) :=
  match t with
  | [] => None
  | (v', a, b) :: r => if bytes_eqb v v' then Some (a, b) else lookup_date r v
  end.
Fixpoint lookup_charset (t : list (bytes * N)) (v : bytes) : N :=
  match t with
  | [] => 2
  | (v', a) :: r => if bytes_eqb v v' then a else lookup_charset r v
  end.
Fixpoint lookup_decode (t : list (bytes * bytes * N)) (c v : bytes) : N :=
  match t with
  | [] => 2
  | (c', v', a) :: r =>
    if bytes_eqb c c' && bytes_eqb v v' then a else lookup_decode r c v
  end.
Definition table_oracle (t : otable) : oracle :=
  fun k v =>
    match k with
    | ODateTime => match lookup_date (t_dates t) v with Some (a, _) => a | None => 2 end
    | ODate => match lookup_date (t_dates t) v with Some (_, b) => b | None => 2 end
    | OCharset => lookup_charset (t_charsets t) v
    | ODecode c => lookup_decode (t_decodes t) c v
    end.
Definition mk_table d c e : otable := {| t_dates := d; t_charsets := c; t_decodes := e |}.

Definition kind_index (k : ckind) : N :=
  match k with
  | KCapability => 0 | KLogout => 1 | KNoop => 2 | KId => 3 | KAppend => 4 | KCreate => 5
  | KDelete => 6 | KExamine => 7 | KList => 8 | KLsub => 9 | KRename => 10 | KSelect => 11
  | KStatus => 12 | KSubscribe => 13 | KUnsubscribe => 14 | KAuthenticate => 15
  | KLogin => 16 | KStarttls => 17 | KCheck => 18 | KClose => 19 | KExpunge => 20
  | KCopy => 21 | KMove => 22 | KFetch => 23 | KStore => 24 | KSearch => 25
  | KUidCopy => 26 | KUidMove => 27 | KUidExpunge => 28 | KUidFetch => 29
  | KUidSearch => 30 | KUidStore => 31 | KIdle => 32
  end.
Definition reason_index (r : inv_reason) : N :=
  match r with NotGiven => 0 | UnknownCommand => 1 | BadArgs => 2 end.

(* the implementation's outcome: 0 command (kind, tag, aux) | 1 InvalidCommand
   (reason, tag) | 2 ParsingInterrupt (literal length) | 3 another exception *)
Inductive eout :=
| ECmd (kind : N) (tag : bytes) (aux : N)
| EInvalid (reason : N) (tag : bytes)
| EInterrupt (n : N)
| EEscaped.

Definition outcome_matches (m : outcome) (e : eout) : bool :=
  match m, e with
  | OCmd k tag aux, ECmd k' tag' aux' => (kind_index k =? k') && bytes_eqb tag tag' && (aux =? aux')
  | OInvalid tag r, EInvalid r' tag' => (reason_index r =? r') && bytes_eqb tag tag'
  | OInterrupt n, EInterrupt n' => n =? n'
  | _, _ => false
  end.

Definition mk_config (max_append : option N) (depth : nat) : config :=
  {| c_max_append := max_append; c_depth := depth |}.

(* (oracle table, max_append_len, line, continuations, observed) *)
Definition parse_case := (otable * option N * bytes * list bytes * eout)%type.
Definition CHECK_DEPTH : nat := 200.
Definition chk_parse (c : parse_case) : bool :=
  let '(t, ma, line, cs, e) := c in
  outcome_matches (parse_command (table_oracle t) (mk_config ma CHECK_DEPTH) line cs) e.

(* Inputs nested between the depths at which the model's budget and Python's
   stack certainly agree: the implementation must give the result of the
   unbounded parse or a tagged BAD for the same tag (RecursionError caught by
   the guard) *)
Definition DEEP_DEPTH : nat := 3000.
Definition outcome_tag (m : outcome) : option bytes :=
  match m with
  | OCmd _ tag _ => Some tag
  | OInvalid tag _ => Some tag
  | _ => None
  end.
Definition chk_parse_deep (c : parse_case) : bool :=
  let '(t, ma, line, cs, e) := c in
  let m := parse_command (table_oracle t) (mk_config ma DEEP_DEPTH) line cs in
  outcome_matches m e ||
  match e, outcome_tag m with
  | EInvalid 2 tag, Some tag' => bytes_eqb tag tag'
  | EInvalid 2 _, None => true
  | _, _ => false
  end.

(* every byte value 0..255 between a prefix and a suffix, no oracle needed:
   (prefix, suffix, the 256 observed outcomes in order) *)
Definition empty_table : otable := mk_table [] [] [].
Fixpoint sweep_ok (pre post : bytes) (c : N) (es : list eout) : bool :=
  match es with
  | [] => true
  | e :: r =>
    outcome_matches (parse_command (table_oracle empty_table) (mk_config None CHECK_DEPTH)
                                   (pre ++ c :: post) []) e
    && sweep_ok pre post (c + 1) r
  end.
Definition chk_sweep (c : bytes * bytes * list eout) : bool :=
  let '(pre, post, es) := c in (length es =? 256)%nat && sweep_ok pre post 0 es.

(* modutf7_decode raises or not *)
Definition chk_utf7 (c : bytes * bool) : bool := Bool.eqb (modutf7_ok (fst c)) (snd c).

(* --------------------------------------------------------------- server level *)
Definition state_of (n : N) : cstate :=
  match n with 0 => NotAuth | 1 => Auth | _ => Selected end.
Definition cond_code (c : cond) : N := match c with OK => 0 | NO => 1 | BAD => 2 end.

(* What the model can predict of the server's reaction without knowing the
   backend: the number of continuation requests, then either nothing more
   (the client stopped sending), or a tagged BAD for the tag (parse error or
   state gate, with BYE + close at the limit), or "the command body ran". *)
Inductive spred :=
| SPWaiting (asked : nat)
| SPBad (asked : nat) (tag : bytes) (closes : bool)
| SPRuns (asked : nat) (tag : bytes) (k : N)
| SPBroken.
Definition predict (t : otable) (ma : option N) (st : cstate) (bad : nat)
           (line : bytes) (supplied : list bytes) : spred :=
  let o := table_oracle t in
  let cfg := mk_config ma CHECK_DEPTH in
  match read_command (S (length supplied)) o cfg line supplied O with
  | RCWaiting asked _ => SPWaiting asked
  | RCDone (OInvalid tag _) asked => SPBad asked tag (Nat.leb BAD_LIMIT (S bad))
  | RCDone (OCmd k tag _) asked =>
    if refused st k then SPBad asked tag (Nat.leb BAD_LIMIT (S bad))
    else SPRuns asked tag (kind_index k)
  | _ => SPBroken
  end.

(* observed: (continuation requests, tagged: None | Some (tag, cond code),
   closed, bye) *)
Definition sobs := (nat * option (bytes * N) * bool * bool)%type.
Definition spred_matches (p : spred) (ob : sobs) : bool :=
  let '(conts, tagged, closed, bye) := ob in
  match p with
  | SPWaiting asked =>
    Nat.eqb asked conts && match tagged with None => true | _ => false end && negb closed
  | SPBad asked tag closes =>
    Nat.eqb asked conts &&
    match tagged with Some (tag', c) => bytes_eqb tag tag' && (c =? 2) | None => false end &&
    Bool.eqb closes closed && Bool.eqb closes bye
  | SPRuns asked tag _ =>
    (* the command body decides; it must at least have been entered: the
       continuation requests of the parse phase are a prefix *)
    Nat.leb asked conts
  | SPBroken => false
  end.
(* (table, max_append, state, bad count, line, continuations sent, observed) *)
Definition server_case := (otable * option N * N * nat * bytes * list bytes * sobs)%type.
Definition chk_server (c : server_case) : bool :=
  let '(t, ma, st, bad, line, sup, ob) := c in
  spred_matches (predict t ma (state_of st) bad line sup) ob.

(* ManageSieve: (utf-8 table: values that decode, line, observed: Some kind index | None = refused) *)
Definition skind_index (k : skind) : N :=
  match k with
  | SNoop => 0 | SCapability => 1 | SStarttls => 2 | SAuthenticate => 3
  | SUnauthenticate => 4 | SLogout => 5 | SHaveSpace => 6 | SPutScript => 7
  | SListScripts => 8 | SSetActive => 9 | SGetScript => 10 | SDeleteScript => 11
  | SRenameScript => 12 | SCheckScript => 13
  end.
Definition chk_sieve (c : list bytes * bytes * option N) : bool :=
  let '(bad_utf8, line, e) := c in
  match sieve_parse (fun v => negb (bytes_in v bad_utf8)) line, e with
  | SOk k, Some k' => skind_index k =? k'
  | SBad, None => true
  | _, _ => false
  end.
