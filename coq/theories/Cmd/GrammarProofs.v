(* Cmd/GrammarProofs.v — every parser of Cmd/Grammar.v is good (ParserProofs.gd):
   no while-loop of the command parser can spin, whatever the bytes. *)
From PV Require Import Base.Prelude Base.Decimal Cmd.CLex Cmd.CLexProofs Cmd.Parser
     Cmd.ParserProofs Cmd.Utf7Ok Cmd.Grammar.
From Coq Require Import Lia.
Local Open Scope nat_scope.

Lemma gd_expected F {A} (str : A -> bool) (ps : list (parser A)) :
  Forall (gd F str) ps -> gd F str (p_expected ps).
Proof.
  induction ps as [|p r IH]; intro H; cbn [p_expected].
  - apply gd_fail.
  - inversion H; subst. apply gd_try; [assumption|]. intro k. apply IH. assumption.
Qed.

Create HintDb gdb.

Ltac gd_leaf :=
  first [ solve [eauto 3 with gdb]
        | solve [apply sgd_gd; eauto 3 with gdb]
        | solve [eapply gd_wgd; eauto 3 with gdb] ].

Ltac gd_plist := fail.
Ltac gds :=
  lazymatch goal with
  | |- forall _, _ => intro; gds
  | |- gd _ _ (ret _) => apply gd_ret; reflexivity
  | |- gd _ _ (fail _) => apply gd_fail
  | |- gd _ _ (raise _) => apply gd_raise
  | |- gd _ _ (guard _ _) => eapply gd_weaken; [apply wgd_guard|discriminate]
  | |- gd _ _ (guard_exc _ _) => eapply gd_weaken; [apply wgd_guard_exc|discriminate]
  | |- gd _ _ peek => eapply gd_weaken; [apply wgd_peek|discriminate]
  | |- gd _ _ (bind _ _) =>
    first [ apply gd_bind_l; [ solve [gds] | solve [gds] ]
          | apply gd_bind_r; [ solve [gds] | solve [gds] ] ]
  | |- gd _ _ (try_else _ _ _) =>
    first [ apply gd_try_else_l; [ solve [gds] | solve [gds] | solve [gds] ]
          | apply gd_try_else_r; [ solve [gds] | solve [gds] | solve [gds] ] ]
  | |- gd _ _ (try_ _ _) => apply gd_try; [ solve [gds] | solve [gds] ]
  | |- gd _ _ (p_list _ _ _) => apply sgd_gd; gd_plist; solve [gds]
  | |- gd _ _ (p_expected _) => apply gd_expected; repeat (constructor; [solve [gds]|]); constructor
  | |- gd _ _ (loop _ _ _) =>
    first [ gd_leaf | eapply gd_weaken; [apply wgd_loop; solve [gds]|discriminate] ]
  | |- gd _ _ (let _ := _ in _) => cbv zeta; gds
  | |- gd _ _ (if ?c then _ else _) => destruct c; gds
  | |- gd _ _ (match ?x with _ => _ end) => destruct x; gds
  | |- gd _ _ (let '(_, _) := ?x in _) => destruct x; gds
  | _ => gd_leaf
  end.

Section Proofs.
Variable o : oracle.
Hypothesis Ho : oracle_total o.
Variable F : nat.

Local Notation sgd p := (gd F (fun _ => true) p).
Local Notation wgd p := (gd F (fun _ => false) p).

Lemma wgd_ask' k v : wgd (ask o k v).
Proof. apply wgd_ask. exact Ho. Qed.
Hint Resolve wgd_ask' : gdb.

Lemma p_space_sgd : sgd p_space.
Proof. apply sgd_lex, lex_space_shortens. Qed.
Hint Resolve p_space_sgd : gdb.
Lemma p_opt_space_wgd : wgd p_opt_space.
Proof. unfold p_opt_space. gds. Qed.
Hint Resolve p_opt_space_wgd : gdb.
Lemma p_endline_sgd : sgd p_endline.
Proof. apply sgd_lex, lex_endline_shortens. Qed.
Hint Resolve p_endline_sgd : gdb.
Lemma p_atom_sgd : sgd p_atom.
Proof. apply sgd_lex, lex_run_shortens. Qed.
Hint Resolve p_atom_sgd : gdb.
Lemma p_quoted_sgd : sgd p_quoted.
Proof. apply sgd_lex, lex_quoted_shortens. Qed.
Hint Resolve p_quoted_sgd : gdb.
Lemma p_objid_sgd : sgd p_objid.
Proof. apply sgd_lex, lex_objid_shortens. Qed.
Hint Resolve p_objid_sgd : gdb.

Lemma lex_run_sgd p : sgd (lex (lex_run p)).
Proof. apply sgd_lex, lex_run_shortens. Qed.
Lemma lex_run_here_sgd p : sgd (lex (lex_run_here p)).
Proof. apply sgd_lex, lex_run_here_shortens. Qed.
Lemma lex_byte_sgd c : sgd (lex (lex_byte c)).
Proof. apply sgd_lex, lex_byte_shortens. Qed.
Lemma lex_byte_sp_sgd c : sgd (lex (lex_byte_sp c)).
Proof. apply sgd_lex, lex_byte_sp_shortens. Qed.
Lemma lex_literal_hdr_sgd : sgd (lex lex_literal_hdr).
Proof. apply sgd_lex, lex_literal_hdr_shortens. Qed.
Lemma lex_take_exact_wgd n : wgd (lex (take_exact n)).
Proof. apply wgd_lex, take_exact_no_longer. Qed.
Lemma lex_list_end_sgd : sgd (lex lex_list_end).
Proof. apply sgd_lex, lex_list_end_shortens. Qed.
Lemma lex_seqnum_sgd : sgd (lex lex_seqnum).
Proof. apply sgd_lex, lex_seqnum_shortens. Qed.
Lemma lex_optname_sgd : sgd (lex lex_optname).
Proof. apply sgd_lex, lex_optname_shortens. Qed.
Lemma lex_not_sgd : sgd (lex lex_not).
Proof. apply sgd_lex, lex_not_shortens. Qed.
Lemma lex_return_sgd : sgd (lex lex_return).
Proof. apply sgd_lex, lex_return_shortens. Qed.
Lemma lex_sec_parts_sgd : sgd (lex lex_sec_parts).
Proof. apply sgd_lex, lex_sec_parts_shortens. Qed.
Lemma lex_partial_sgd : sgd (lex lex_partial).
Proof. apply sgd_lex, lex_partial_shortens. Qed.
Lemma lex_attrname_sgd : sgd (lex lex_attrname).
Proof. apply sgd_lex, lex_attrname_shortens. Qed.
Lemma lex_section_start_sgd : sgd (lex lex_section_start).
Proof. apply sgd_lex, lex_section_start_shortens. Qed.
Lemma lex_section_end_sgd : sgd (lex lex_section_end).
Proof. apply sgd_lex, lex_section_end_shortens. Qed.
Lemma take_cont_sgd n : sgd (take_cont n).
Proof. apply sgd_take_cont. Qed.
Hint Resolve lex_run_sgd lex_run_here_sgd lex_byte_sgd lex_byte_sp_sgd lex_literal_hdr_sgd
     lex_take_exact_wgd lex_list_end_sgd lex_seqnum_sgd lex_optname_sgd lex_not_sgd
     lex_return_sgd lex_sec_parts_sgd lex_partial_sgd lex_attrname_sgd
     lex_section_start_sgd lex_section_end_sgd take_cont_sgd : gdb.

Lemma p_number_sgd : sgd p_number.
Proof. unfold p_number. gds. Qed.
Hint Resolve p_number_sgd : gdb.
Lemma p_nil_sgd : sgd p_nil.
Proof. unfold p_nil. gds. Qed.
Hint Resolve p_nil_sgd : gdb.

Lemma p_literal_sgd pr : sgd (p_literal pr).
Proof. unfold p_literal. gds. Qed.
Hint Resolve p_literal_sgd : gdb.
Lemma p_string_sgd pr : sgd (p_string pr).
Proof. unfold p_string. gds. Qed.
Hint Resolve p_string_sgd : gdb.
Lemma p_astring_sgd pr : sgd (p_astring pr).
Proof. unfold p_astring. gds. Qed.
Hint Resolve p_astring_sgd : gdb.

Lemma list_step_gd {A} limit (item : parser A) acc :
  sgd item -> gd F continues (list_step limit item acc).
Proof. intro Hi. unfold list_step. gds. Qed.
Lemma p_list_sgd {A} limit (item : parser A) : sgd item -> sgd (p_list F limit item).
Proof.
  intro Hi. unfold p_list. apply gd_bind_l; [gds|]. intros _.
  apply wgd_loop. intro acc. apply list_step_gd. exact Hi.
Qed.
Hint Resolve p_list_sgd : gdb.
Ltac gd_plist ::= apply p_list_sgd.

Lemma seq_idx_sgd : sgd seq_idx.
Proof. unfold seq_idx. gds. Qed.
Hint Resolve seq_idx_sgd : gdb.
Lemma seq_part_sgd : sgd seq_part.
Proof. unfold seq_part. gds. Qed.
Hint Resolve seq_part_sgd : gdb.
Lemma seq_tail_step_gd u : gd F continues (seq_tail_step u).
Proof. unfold seq_tail_step. gds. Qed.
Lemma p_seqset_sgd : sgd (p_seqset F).
Proof.
  unfold p_seqset. apply gd_bind_r; [gds|]. intros _.
  apply gd_bind_r; [gds|]. intro b. apply gd_bind_r; [gds|]. intros _.
  apply gd_bind_l; [gds|]. intros _. apply wgd_loop. intro. apply seq_tail_step_gd.
Qed.
Hint Resolve p_seqset_sgd : gdb.

Lemma p_flag_sgd : sgd p_flag.
Proof. unfold p_flag. gds. Qed.
Hint Resolve p_flag_sgd : gdb.
Lemma p_datetime_sgd : sgd (p_datetime o).
Proof. unfold p_datetime. gds. Qed.
Hint Resolve p_datetime_sgd : gdb.
Lemma p_status_attr_sgd : sgd p_status_attr.
Proof. unfold p_status_attr. gds. Qed.
Hint Resolve p_status_attr_sgd : gdb.
Lemma p_mailbox_sgd pr : sgd (p_mailbox pr).
Proof. unfold p_mailbox. gds. Qed.
Hint Resolve p_mailbox_sgd : gdb.

Lemma p_optlist_sgd d : forall pr, sgd (p_optlist F d pr).
Proof.
  induction d as [|d IH]; intro pr; cbn [p_optlist]; [apply gd_raise|].
  apply gd_bind_l; [|gds]. apply p_list_sgd. gds.
Qed.
Hint Resolve p_optlist_sgd : gdb.
Lemma p_ext_arg_wgd d pr : wgd (p_ext_arg F d pr).
Proof. unfold p_ext_arg. gds. Qed.
Hint Resolve p_ext_arg_wgd : gdb.
Lemma p_ext_option_sgd d pr : sgd (p_ext_option F d pr).
Proof. unfold p_ext_option. gds. Qed.
Hint Resolve p_ext_option_sgd : gdb.
Lemma ext_option_step_gd d pr n : gd F continues (ext_option_step F d pr n).
Proof. unfold ext_option_step. gds. Qed.
Hint Resolve ext_option_step_gd : gdb.
Lemma ext_option_loop_wgd d pr n : wgd (loop F (ext_option_step F d pr) n).
Proof. apply wgd_loop. intro. apply ext_option_step_gd. Qed.
Hint Resolve ext_option_loop_wgd : gdb.
Lemma p_ext_options_wgd d pr : wgd (p_ext_options F d pr).
Proof. unfold p_ext_options. gds. Qed.
Hint Resolve p_ext_options_wgd : gdb.

Lemma p_section_wgd pr : wgd (p_section F pr).
Proof. unfold p_section. gds. Qed.
Hint Resolve p_section_wgd : gdb.
Lemma p_fetch_att_sgd pr : sgd (p_fetch_att F pr).
Proof. unfold p_fetch_att. gds. Qed.
Hint Resolve p_fetch_att_sgd : gdb.

Lemma p_astring_filter_sgd pr : sgd (p_astring_filter o pr).
Proof. unfold p_astring_filter. gds. Qed.
Hint Resolve p_astring_filter_sgd : gdb.
Lemma p_date_filter_sgd : sgd (p_date_filter o).
Proof. unfold p_date_filter. gds. Qed.
Hint Resolve p_date_filter_sgd : gdb.

Lemma not_step_gd u : gd F continues (not_step u).
Proof. unfold not_step. gds. Qed.
Lemma not_loop_wgd : wgd (loop F not_step tt).
Proof. apply wgd_loop. intro. apply not_step_gd. Qed.
Hint Resolve not_loop_wgd : gdb.

Lemma p_search_key_sgd d : forall pr, sgd (p_search_key o F d pr).
Proof.
  induction d as [|d IH]; intro pr; cbn [p_search_key]; [apply gd_raise|].
  apply gd_bind_r; [gds|]. intros _.
  apply gd_bind_r; [gds|]. intros _.
  apply (gd_bind_dep F (fun a : bool => a)).
  { apply gd_try; [apply gd_bind_l; gds|]. intro. apply gd_ret. reflexivity. }
  intros [|]; [gds|].
  apply (gd_bind_dep F (fun a : bool => a)).
  { apply gd_try_else_l.
    - apply p_list_sgd. gds.
    - intro l. gds.
    - intros [| |]; first [apply gd_fail | apply gd_ret; reflexivity]. }
  intros [|]; [gds|].
  gds.
Qed.
Hint Resolve p_search_key_sgd : gdb.

(* ---------------------------------------------------------------- commands *)
Lemma p_noargs_wgd : wgd p_noargs.
Proof. unfold p_noargs. gds. Qed.
Lemma p_mailbox_arg_wgd pr : wgd (p_mailbox_arg pr).
Proof. unfold p_mailbox_arg. gds. Qed.
Lemma p_id_wgd pr : wgd (p_id F pr).
Proof. unfold p_id. gds. Qed.
Lemma p_authenticate_wgd : wgd p_authenticate.
Proof. unfold p_authenticate. gds. Qed.
Lemma p_login_wgd pr : wgd (p_login pr).
Proof. unfold p_login. gds. Qed.
Lemma p_select_wgd d pr : wgd (p_select F d pr).
Proof. unfold p_select. gds. Qed.
Lemma p_rename_wgd d pr : wgd (p_rename F d pr).
Proof. unfold p_rename. gds. Qed.
Lemma p_list_cmd_wgd pr : wgd (p_list_cmd pr).
Proof. unfold p_list_cmd. gds. Qed.
Lemma p_status_wgd pr : wgd (p_status F pr).
Proof. unfold p_status. gds. Qed.
Lemma p_append_msg_sgd d pr : sgd (p_append_msg o F d pr).
Proof. unfold p_append_msg. gds. Qed.
Hint Resolve p_append_msg_sgd : gdb.
Lemma append_step_gd d pr n : gd F continues (append_step o F d pr n).
Proof. unfold append_step. gds. Qed.
Lemma p_append_wgd d pr : wgd (p_append o F d pr).
Proof.
  unfold p_append. apply gd_bind_r; [gds|]. intros _. apply gd_bind_r; [gds|]. intros _.
  apply gd_bind_r; [apply wgd_loop; intro; apply append_step_gd|]. gds.
Qed.
Lemma p_expunge_wgd pr : wgd (p_expunge F pr).
Proof. unfold p_expunge. gds. Qed.
Lemma p_copy_wgd pr : wgd (p_copy F pr).
Proof. unfold p_copy. gds. Qed.
Lemma p_fetch_wgd d pr : wgd (p_fetch F d pr).
Proof. unfold p_fetch. gds. Qed.
Lemma flag_loop_step_gd u : gd F continues (flag_loop_step u).
Proof. unfold flag_loop_step. gds. Qed.
Lemma p_store_flags_wgd : wgd (p_store_flags F).
Proof.
  unfold p_store_flags. apply gd_try; [gds|]. intro. apply wgd_loop. intro. apply flag_loop_step_gd.
Qed.
Hint Resolve p_store_flags_wgd : gdb.
Lemma p_store_wgd d pr : wgd (p_store F d pr).
Proof. unfold p_store. gds. Qed.
Lemma p_charset_arg_wgd pr : wgd (p_charset_arg o pr).
Proof. unfold p_charset_arg. gds. Qed.
Hint Resolve p_charset_arg_wgd : gdb.
Lemma search_step_gd d pr any : gd F continues (search_step o F d pr any).
Proof. unfold search_step. gds. Qed.
Lemma p_search_wgd d pr : wgd (p_search o F d pr).
Proof.
  unfold p_search. apply gd_bind_r; [gds|]. intros _. apply gd_bind_r; [gds|]. intro c.
  apply gd_bind_r; [apply wgd_loop; intro; apply search_step_gd|]. gds.
Qed.

Theorem p_args_wgd d pr k : wgd (p_args o F d pr k).
Proof.
  destruct k; cbn [p_args];
    first [ apply p_noargs_wgd | apply p_id_wgd | apply p_append_wgd | apply p_select_wgd
          | apply p_mailbox_arg_wgd | apply p_list_cmd_wgd | apply p_rename_wgd
          | apply p_status_wgd | apply p_authenticate_wgd | apply p_login_wgd
          | apply p_expunge_wgd | apply p_copy_wgd | apply p_fetch_wgd | apply p_store_wgd
          | apply p_search_wgd ].
Qed.

End Proofs.
