(* Cmd/FramingLimitCheck.v — case checker for Cmd/FramingLimit.v *)
From PV Require Import Base.Prelude Base.Decimal Cmd.CLex Cmd.Framing Cmd.FramingLimit.
Local Open Scope N_scope.

(* IMAPConnection.read_command of a server configured with max_append_len on a
   whole client stream: (max_append_len, APPEND?, literals (plus?, n) in line
   order, stream, Some (refused?, continuation requests, unread rest) | None = EOF) *)
Definition chk_serve
  (k : option N * bool * list (bool * N) * bytes * option (bool * N * bytes)) : bool :=
  let '(mal, app, lits, s, e) := k in
  let lits' := map (fun x : bool * N => ((if fst x then LPlus else LSync), snd x)) lits in
  match serve_command {| fc_max_append := mal |} app lits' s, e with
  | Some (cl, nreq, r), Some (bad, nreq', r') =>
    Bool.eqb (match cl with LTooBig => true | LAccept => false end) bad
    && (nreq =? nreq') && bytes_eqb r r'
  | None, None => true
  | _, _ => false
  end.
