(* Cmd/SuffixProofs.v — every recogniser of Cmd/CLex.v returns an actual
   suffix of its input (used to show that a continuation request always
   points at a synchronizing literal that closes one of the buffers). *)
From PV Require Import Base.Prelude Base.Decimal Cmd.CLex.
From Coq Require Import Lia.
Local Open Scope N_scope.

Definition sfx (s b : bytes) : Prop := exists pre, b = pre ++ s.

Lemma sfx_refl b : sfx b b.
Proof. exists []. reflexivity. Qed.
Lemma sfx_cons s c r : sfx s r -> sfx s (c :: r).
Proof. intros [p ->]. exists (c :: p). reflexivity. Qed.
Lemma sfx_trans a b c : sfx a b -> sfx b c -> sfx a c.
Proof. intros [p ->] [q ->]. exists (q ++ p). rewrite app_assoc. reflexivity. Qed.
Lemma sfx_nil b : sfx [] b.
Proof. exists b. rewrite app_nil_r. reflexivity. Qed.
Lemma sfx_skipn n b : sfx (skipn n b) b.
Proof. exists (firstn n b). symmetry. apply firstn_skipn. Qed.

Definition suffixing {A} (f : bytes -> option (A * bytes)) : Prop :=
  forall b a b', f b = Some (a, b') -> sfx b' b.

Lemma skip_sp_sfx b : sfx (skip_sp b) b.
Proof.
  induction b as [|c r IH]; cbn [skip_sp]; [apply sfx_refl|].
  destruct (c =? SP); [apply sfx_cons, IH|apply sfx_refl].
Qed.

Lemma span_sfx p b x y : span p b = (x, y) -> sfx y b.
Proof.
  revert x y; induction b as [|c r IH]; intros x y E; cbn [span] in E.
  - inversion E; apply sfx_refl.
  - destruct (p c).
    + destruct (span p r) as [x' y'] eqn:E'. inversion E; subst. apply sfx_cons. eapply IH; eauto.
    + inversion E; subst. apply sfx_refl.
Qed.

Lemma span_max_sfx p k : forall b x y, span_max p k b = (x, y) -> sfx y b.
Proof.
  induction k as [|k IH]; intros b x y E; cbn [span_max] in E.
  - inversion E; apply sfx_refl.
  - destruct b as [|c r]; [inversion E; apply sfx_refl|].
    destruct (p c).
    + destruct (span_max p k r) as [x' y'] eqn:E'. inversion E; subst. apply sfx_cons. eapply IH; eauto.
    + inversion E; subst. apply sfx_refl.
Qed.

Lemma lex_space_sfx : suffixing lex_space.
Proof.
  intros [|c r] a b' E; cbn [lex_space] in E; [discriminate|].
  destruct (c =? SP); [|discriminate]. inversion E; subst. apply sfx_cons, skip_sp_sfx.
Qed.

Lemma lex_byte_sfx c : suffixing (lex_byte c).
Proof.
  intros [|x r] a b' E; cbn [lex_byte] in E; [discriminate|].
  destruct (x =? c); [|discriminate]. inversion E; subst. apply sfx_cons, sfx_refl.
Qed.

Lemma lex_byte_sp_sfx c : suffixing (lex_byte_sp c).
Proof.
  intros b a b' E. unfold lex_byte_sp in E. apply lex_byte_sfx in E.
  eapply sfx_trans; [exact E|apply skip_sp_sfx].
Qed.

Lemma lex_opt_byte_sfx c b f r : lex_opt_byte c b = (f, r) -> sfx r b.
Proof.
  destruct b as [|x t]; cbn [lex_opt_byte]; intro E.
  - inversion E; subst; apply sfx_refl.
  - destruct (x =? c); inversion E; subst; [apply sfx_cons|]; apply sfx_refl.
Qed.

Lemma lex_endline_sfx : suffixing lex_endline.
Proof.
  intros b a b' E. unfold lex_endline in E. pose proof (skip_sp_sfx b) as H.
  destruct (skip_sp b) as [|c r]; [discriminate|].
  destruct (c =? LF).
  - inversion E; subst. eapply sfx_trans; [apply sfx_cons, sfx_refl|exact H].
  - destruct (c =? CR); [|discriminate]. destruct r as [|c2 r2]; [discriminate|].
    destruct (c2 =? LF); [|discriminate]. inversion E; subst.
    eapply sfx_trans; [apply sfx_cons, sfx_cons, sfx_refl|exact H].
Qed.

Lemma lex_run_here_sfx p : suffixing (lex_run_here p).
Proof.
  intros b a b' E. unfold lex_run_here in E.
  destruct (span p b) as [x y] eqn:Es. apply span_sfx in Es.
  destruct x; [discriminate|]. inversion E; subst. exact Es.
Qed.

Lemma lex_run_sfx p : suffixing (lex_run p).
Proof.
  intros b a b' E. unfold lex_run in E.
  destruct (span p (skip_sp b)) as [x y] eqn:Es. apply span_sfx in Es.
  destruct x; [discriminate|]. inversion E; subst.
  eapply sfx_trans; [exact Es|apply skip_sp_sfx].
Qed.

Lemma quoted_body_sfx b : forall acc v r, quoted_body b acc = Some (v, r) -> sfx r b.
Proof.
  remember (length b) as n eqn:Hn. revert b Hn.
  induction n as [n IH] using lt_wf_ind. intros b Hn acc v r E.
  destruct b as [|c t]; cbn [quoted_body] in E; [discriminate|]. cbn [length] in Hn.
  destruct (c =? DQUOTE).
  { inversion E; subst. apply sfx_cons, sfx_refl. }
  destruct ((c =? CR) || (c =? LF)); [discriminate|].
  destruct (c =? BSLASH).
  - destruct t as [|e t']; [discriminate|].
    destruct ((e =? BSLASH) || (e =? DQUOTE)); [|discriminate].
    cbn [length] in Hn. eapply (IH (length t')) in E; [|lia|reflexivity].
    apply sfx_cons, sfx_cons, E.
  - eapply (IH (length t)) in E; [|lia|reflexivity]. apply sfx_cons, E.
Qed.

Lemma lex_quoted_sfx : suffixing lex_quoted.
Proof.
  intros b a b' E. unfold lex_quoted in E. pose proof (skip_sp_sfx b) as H.
  destruct (skip_sp b) as [|c r]; [discriminate|].
  destruct (c =? DQUOTE); [|discriminate]. apply quoted_body_sfx in E.
  eapply sfx_trans; [apply sfx_cons, E|exact H].
Qed.

Lemma lex_literal_hdr_sfx : suffixing lex_literal_hdr.
Proof.
  intros b a b' E. unfold lex_literal_hdr in E. pose proof (skip_sp_sfx b) as H0.
  destruct (lex_opt_byte TILDE (skip_sp b)) as [bin b1] eqn:E1. apply lex_opt_byte_sfx in E1.
  destruct (lex_byte LBRACE b1) as [[u b2]|] eqn:E2; [|discriminate]. apply lex_byte_sfx in E2.
  destruct (span is_digit b2) as [ds b3] eqn:E3. apply span_sfx in E3.
  destruct ds as [|d0 ds']; [discriminate|].
  destruct (lex_opt_byte PLUS b3) as [plus b4] eqn:E4. apply lex_opt_byte_sfx in E4.
  destruct (lex_byte RBRACE b4) as [[u5 b5]|] eqn:E5; [|discriminate]. apply lex_byte_sfx in E5.
  destruct (lex_opt_byte CR b5) as [cr b6] eqn:E6. apply lex_opt_byte_sfx in E6.
  destruct (lex_byte LF b6) as [[u7 b7]|] eqn:E7; [|discriminate]. apply lex_byte_sfx in E7.
  inversion E; subst.
  repeat (eapply sfx_trans; [eassumption|]). apply sfx_refl.
Qed.

Lemma take_exact_sfx n : suffixing (take_exact n).
Proof.
  intros b a b' E. unfold take_exact in E.
  destruct (n <=? N.of_nat (length b)); [|discriminate]. inversion E; subst. apply sfx_skipn.
Qed.

Lemma lex_objid_sfx : suffixing lex_objid.
Proof.
  intros b a b' E. unfold lex_objid in E.
  destruct (span_max objid_char 255 (skip_sp b)) as [x y] eqn:Es. apply span_max_sfx in Es.
  destruct x; [discriminate|]. inversion E; subst.
  eapply sfx_trans; [exact Es|apply skip_sp_sfx].
Qed.

Lemma lex_optname_sfx : suffixing lex_optname.
Proof.
  intros b a b' E. unfold lex_optname in E. pose proof (skip_sp_sfx b) as H.
  destruct (skip_sp b) as [|c r]; [discriminate|].
  destruct (opt_first c); [|discriminate].
  destruct (span opt_char r) as [x y] eqn:Es. apply span_sfx in Es.
  inversion E; subst. eapply sfx_trans; [apply sfx_cons, Es|exact H].
Qed.

Lemma lex_not_sfx : suffixing lex_not.
Proof.
  intros b a b' E. unfold lex_not in E.
  destruct b as [|n [|o [|t [|s r]]]]; try discriminate.
  destruct ((upper_byte n =? 78) && (upper_byte o =? 79) && (upper_byte t =? 84) && (s =? SP));
    [|discriminate].
  inversion E; subst. do 4 apply sfx_cons. apply skip_sp_sfx.
Qed.

Lemma lex_return_sfx : suffixing lex_return.
Proof.
  intros b a b' E. unfold lex_return in E. pose proof (skip_sp_sfx b) as H.
  destruct (skip_sp b) as [|c1 [|c2 [|c3 [|c4 [|c5 [|c6 r]]]]]]; try discriminate;
    repeat match type of E with
    | match ?c with _ => _ end = _ => destruct c; try discriminate
    end.
  inversion E; subst. eapply sfx_trans; [|exact H]. do 6 apply sfx_cons. apply sfx_refl.
Qed.

Lemma lex_list_end_sfx : suffixing lex_list_end.
Proof. apply lex_byte_sp_sfx. Qed.

Lemma lex_seqnum_sfx : suffixing lex_seqnum.
Proof.
  intros b a b' E. unfold lex_seqnum in E. destruct b as [|c r]; [discriminate|].
  destruct (in_range 49 57 c); [|discriminate].
  destruct (span is_digit (c :: r)) as [x y] eqn:Es. inversion E; subst.
  eapply span_sfx; eauto.
Qed.

Lemma sec_more_sfx fuel : forall b acc ns r, sec_more fuel b acc = (ns, r) -> sfx r b.
Proof.
  induction fuel as [|f IH]; intros b acc ns r E; cbn [sec_more] in E.
  - inversion E; subst; apply sfx_refl.
  - destruct b as [|c t]; [inversion E; subst; apply sfx_refl|].
    destruct (c =? DOT).
    + destruct (lex_seqnum (skip_sp t)) as [[ds r']|] eqn:El.
      * apply lex_seqnum_sfx in El. apply IH in E.
        apply sfx_cons. eapply sfx_trans; [exact E|]. eapply sfx_trans; [exact El|apply skip_sp_sfx].
      * inversion E; subst; apply sfx_refl.
    + inversion E; subst; apply sfx_refl.
Qed.

Lemma lex_sec_parts_sfx : suffixing lex_sec_parts.
Proof.
  intros b a b' E. unfold lex_sec_parts in E.
  destruct (lex_seqnum b) as [[d1 r1]|] eqn:E1; [|discriminate]. apply lex_seqnum_sfx in E1.
  destruct (sec_more (length (skip_sp r1)) (skip_sp r1) [d1]) as [nums r2] eqn:E2.
  apply sec_more_sfx in E2.
  destruct (lex_opt_byte DOT (skip_sp r2)) as [f r4] eqn:E4. apply lex_opt_byte_sfx in E4.
  inversion E; subst.
  eapply sfx_trans; [apply skip_sp_sfx|]. eapply sfx_trans; [exact E4|].
  eapply sfx_trans; [apply skip_sp_sfx|]. eapply sfx_trans; [exact E2|].
  eapply sfx_trans; [apply skip_sp_sfx|exact E1].
Qed.

Lemma lex_partial_sfx : suffixing lex_partial.
Proof.
  intros b a b' E. unfold lex_partial in E.
  destruct (lex_byte LT b) as [[u b1]|] eqn:E1; [|discriminate]. apply lex_byte_sfx in E1.
  destruct (span is_digit (skip_sp b1)) as [d1 b2] eqn:E2. apply span_sfx in E2.
  destruct d1; [discriminate|].
  destruct (lex_byte DOT (skip_sp b2)) as [[u3 b3]|] eqn:E3; [|discriminate]. apply lex_byte_sfx in E3.
  destruct (span is_digit (skip_sp b3)) as [d2 b4] eqn:E4. apply span_sfx in E4.
  destruct d2; [discriminate|].
  destruct (lex_byte GT (skip_sp b4)) as [[u5 b5]|] eqn:E5; [|discriminate]. apply lex_byte_sfx in E5.
  inversion E; subst.
  eapply sfx_trans; [exact E5|]. eapply sfx_trans; [apply skip_sp_sfx|].
  eapply sfx_trans; [exact E4|]. eapply sfx_trans; [apply skip_sp_sfx|].
  eapply sfx_trans; [exact E3|]. eapply sfx_trans; [apply skip_sp_sfx|].
  eapply sfx_trans; [exact E2|]. eapply sfx_trans; [apply skip_sp_sfx|exact E1].
Qed.

Lemma lex_attrname_sfx : suffixing lex_attrname.
Proof. apply lex_run_sfx. Qed.

Lemma lex_section_start_sfx : suffixing lex_section_start.
Proof.
  intros b a b' E. unfold lex_section_start in E.
  destruct (lex_byte_sp LBRACK b) as [[u r]|] eqn:E1; [|discriminate].
  apply lex_byte_sp_sfx in E1. inversion E; subst.
  eapply sfx_trans; [apply skip_sp_sfx|exact E1].
Qed.

Lemma lex_section_end_sfx : suffixing lex_section_end.
Proof. apply lex_byte_sp_sfx. Qed.
