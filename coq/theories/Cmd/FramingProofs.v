(* Cmd/FramingProofs.v — a unit read from the stream is a non-empty prefix of
   it: framing never invents, reorders or loses bytes and always advances. *)
From PV Require Import Base.Prelude Base.Decimal Cmd.CLex Cmd.Framing.
From Coq Require Import Lia.
Local Open Scope N_scope.

Lemma split_line_app s l r : split_line s = Some (l, r) -> s = l ++ r /\ l <> [].
Proof.
  revert l r; induction s as [|c t IH]; intros l r E; cbn [split_line] in E; [discriminate|].
  destruct (c =? LF).
  - inversion E; subst. split; [reflexivity|discriminate].
  - destruct (split_line t) as [[l' r']|]; [|discriminate]. inversion E; subst.
    destruct (IH _ _ eq_refl) as [-> _]. split; [reflexivity|discriminate].
Qed.

Lemma take_exact_app n b lit rest : take_exact n b = Some (lit, rest) -> b = lit ++ rest.
Proof.
  unfold take_exact. destruct (n <=? N.of_nat (length b)); [|discriminate].
  intro E. inversion E; subst. symmetry. apply firstn_skipn.
Qed.

Lemma read_line_glued_app fuel : forall s u r,
  read_line_glued fuel s = Some (u, r) -> s = u ++ r /\ u <> [].
Proof.
  induction fuel as [|f IH]; intros s u r E; cbn [read_line_glued] in E; [discriminate|].
  destruct (split_line s) as [[line rest]|] eqn:El; [|discriminate].
  apply split_line_app in El. destruct El as [-> Hne].
  destruct (lit_plus_marker line) as [ds|].
  - destruct (too_many_digits ds).
    + inversion E; subst. split; [reflexivity|exact Hne].
    + destruct (take_exact (digits_value ds) rest) as [[lit rest']|] eqn:Et; [|discriminate].
      apply take_exact_app in Et. subst rest.
      destruct (read_line_glued f rest') as [[u' r']|] eqn:Er; [|discriminate].
      inversion E; subst. destruct (IH _ _ _ Er) as [-> _].
      split; [rewrite <- !app_assoc; reflexivity|].
      destruct line; [congruence|discriminate].
  - inversion E; subst. split; [reflexivity|exact Hne].
Qed.

Theorem read_unit_prefix need s u r :
  read_unit need s = Some (u, r) -> s = u ++ r /\ u <> [].
Proof.
  unfold read_unit. destruct (take_exact need s) as [[lit rest]|] eqn:Et; [|discriminate].
  apply take_exact_app in Et. subst s.
  destruct (read_line_glued (S (length rest)) rest) as [[u' r']|] eqn:Er; [|discriminate].
  intro E. inversion E; subst. destruct (read_line_glued_app _ _ _ _ Er) as [-> Hne].
  split; [rewrite <- app_assoc; reflexivity|].
  destruct lit; [exact Hne|discriminate].
Qed.

(* the fuel given by read_unit is enough: more fuel changes nothing, so None
   always means "the stream ends inside the unit", never "out of fuel" *)
Lemma read_line_glued_fuel f1 : forall f2 s,
  (length s < f1)%nat -> (length s < f2)%nat -> read_line_glued f1 s = read_line_glued f2 s.
Proof.
  induction f1 as [|f1 IH]; intros f2 s H1 H2; [lia|]. destruct f2 as [|f2]; [lia|].
  cbn [read_line_glued]. destruct (split_line s) as [[line rest]|] eqn:El; [|reflexivity].
  apply split_line_app in El. destruct El as [-> Hne].
  destruct (lit_plus_marker line); [|reflexivity].
  destruct (too_many_digits b); [reflexivity|].
  destruct (take_exact (digits_value b) rest) as [[lit rest']|] eqn:Et; [|reflexivity].
  apply take_exact_app in Et. subst rest.
  rewrite !app_length in H1, H2.
  assert (Hl : (0 < length line)%nat) by (destruct line; [congruence|cbn; lia]).
  rewrite (IH f2 rest') by lia. reflexivity.
Qed.

Theorem read_unit_fuel_enough need s lit rest extra :
  take_exact need s = Some (lit, rest) ->
  read_line_glued (S (length rest) + extra) rest = read_line_glued (S (length rest)) rest.
Proof. intros _. apply read_line_glued_fuel; lia. Qed.
