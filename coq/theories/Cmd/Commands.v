(* Cmd/Commands.v — Commands.parse (pymap/parsing/commands.py), the
   continuation re-parse loop IMAPConnection.read_command and the mapping of
   IMAPConnection._run_state from what happened to what is written
   (pymap/imap/__init__.py), and the ManageSieve command parser
   (pymap/sieve/manage/command.py).  Definitions only. *)
From PV Require Import Base.Prelude Base.Decimal Cmd.CLex Cmd.Parser Cmd.Utf7Ok Cmd.Grammar.
Local Open Scope N_scope.

Definition s_STAR_TAG : bytes := [42].

Definition command_table : list (bytes * ckind) :=
  [ ([67;65;80;65;66;73;76;73;84;89], KCapability); ([76;79;71;79;85;84], KLogout);
    ([78;79;79;80], KNoop); ([73;68], KId); ([65;80;80;69;78;68], KAppend);
    ([67;82;69;65;84;69], KCreate); ([68;69;76;69;84;69], KDelete);
    ([69;88;65;77;73;78;69], KExamine); ([76;73;83;84], KList); ([76;83;85;66], KLsub);
    ([82;69;78;65;77;69], KRename); ([83;69;76;69;67;84], KSelect);
    ([83;84;65;84;85;83], KStatus); ([83;85;66;83;67;82;73;66;69], KSubscribe);
    ([85;78;83;85;66;83;67;82;73;66;69], KUnsubscribe);
    ([65;85;84;72;69;78;84;73;67;65;84;69], KAuthenticate); ([76;79;71;73;78], KLogin);
    ([83;84;65;82;84;84;76;83], KStarttls); ([67;72;69;67;75], KCheck);
    ([67;76;79;83;69], KClose); ([69;88;80;85;78;71;69], KExpunge);
    ([67;79;80;89], KCopy); ([77;79;86;69], KMove); ([70;69;84;67;72], KFetch);
    ([83;84;79;82;69], KStore); ([83;69;65;82;67;72], KSearch); ([73;68;76;69], KIdle) ].
Definition uid_table : list (bytes * ckind) :=
  [ ([67;79;80;89], KUidCopy); ([77;79;86;69], KUidMove); ([69;88;80;85;78;71;69], KUidExpunge);
    ([70;69;84;67;72], KUidFetch); ([83;69;65;82;67;72], KUidSearch);
    ([83;84;79;82;69], KUidStore) ].
Fixpoint lookup {A} (k : bytes) (t : list (bytes * A)) : option A :=
  match t with
  | [] => None
  | (k', v) :: r => if bytes_eqb k k' then Some v else lookup k r
  end.

(* InvalidCommand.message *)
Inductive inv_reason := NotGiven | UnknownCommand | BadArgs.

Inductive outcome :=
| OCmd (k : ckind) (tag : bytes) (aux : N)
| OInvalid (tag : bytes) (r : inv_reason)
| OInterrupt (n : N)
| OExc (x : exn)
| OFuel
| OUnk.

(* configuration of a connection's parser *)
Record config := {
  c_max_append : option N;     (* IMAPConfig max_append_len *)
  c_depth : nat                (* nesting levels the Python stack allows *)
}.

Definition base_params (cfg : config) (k : ckind) : params :=
  {| pa_append := match k with KAppend => true | _ => false end;
     pa_max_append := c_max_append cfg;
     pa_allow_cont := true; pa_uid := false; pa_charset := None |}.

(* cmd_type.parse(buf, params) inside the try of Commands.parse *)
Definition run_args (o : oracle) (cfg : config) (k : ckind) (tag : bytes)
           (cs : list bytes) (b : bytes) (fuel : nat) : outcome :=
  match p_args o fuel (c_depth cfg) (base_params cfg k) k cs b with
  | POk aux _ _ => OCmd k tag aux
  | PFail _ _ => OInvalid tag BadArgs
  | PInt n => OInterrupt n
  (* except (ValueError, RecursionError): InvalidCommand *)
  | PExc XValue => OInvalid tag BadArgs
  | PExc XRecursion => OInvalid tag BadArgs
  | PFuel => OFuel
  | PUnk => OUnk
  end.

(* Space.parse then Atom.parse, upper-cased *)
Definition lex_word (b : bytes) : option (bytes * bytes) :=
  match lex_space b with
  | Some (_, b1) => match lex_run atom_char b1 with
                    | Some (a, b2) => Some (upper a, b2)
                    | None => None
                    end
  | None => None
  end.

Definition parse_command (o : oracle) (cfg : config) (line : bytes) (cs : list bytes)
  : outcome :=
  let fuel := S (mu line cs) in
  match lex_run tag_char line with
  | None => OInvalid s_STAR_TAG NotGiven
  | Some (tag, b1) =>
    match lex_word b1 with
    | None => OInvalid tag NotGiven
    | Some (w1, b2) =>
      if bytes_eqb w1 s_UID then
        (* UidCommand is compound: one more word *)
        match lex_word b2 with
        | None => OInvalid tag NotGiven
        | Some (w2, b3) =>
          match lookup w2 uid_table with
          | Some k => run_args o cfg k tag cs b3 fuel
          | None => OInvalid tag UnknownCommand
          end
        end
      else
        match lookup w1 command_table with
        | Some k => run_args o cfg k tag cs b2 fuel
        | None => OInvalid tag UnknownCommand
        end
    end
  end.

(* ---------------------------------------------------------------------------
   IMAPConnection.read_command: parse with the continuations received so far;
   on ParsingInterrupt write "+ Literal string", read the continuation, parse
   the whole line again.  [supplied] = the continuation data the client sends
   when asked, in order.  k = continuations received so far. *)
Inductive rc_result :=
| RCDone (o : outcome) (asked : nat)       (* a command object after [asked] requests *)
| RCWaiting (asked : nat) (n : N)          (* the (asked)-th request is unanswered: the client sent no more *)
| RCFuel.

Fixpoint read_command (fuel : nat) (o : oracle) (cfg : config) (line : bytes)
         (supplied : list bytes) (k : nat) : rc_result :=
  match fuel with
  | O => RCFuel
  | S f =>
    match parse_command o cfg line (firstn k supplied) with
    | OInterrupt n =>
      if Nat.ltb k (length supplied)
      then read_command f o cfg line supplied (S k)
      else RCWaiting (S k) n
    | out => RCDone out k
    end
  end.

(* ---------------------------------------------------------------------------
   _run_state.  Connection state as far as the gate of
   ConnectionState.check_command needs it. *)
Inductive cstate := NotAuth | Auth | Selected.

Inductive cclass := CAny | CNonAuth | CAuth | CSelect.
Definition class_of (k : ckind) : cclass :=
  match k with
  | KCapability | KLogout | KNoop | KId => CAny
  | KAuthenticate | KLogin | KStarttls => CNonAuth
  | KAppend | KCreate | KDelete | KExamine | KList | KLsub | KRename | KSelect
  | KStatus | KSubscribe | KUnsubscribe => CAuth
  | _ => CSelect
  end.
(* check_command refuses the command *)
Definition refused (st : cstate) (k : ckind) : bool :=
  match class_of k, st with
  | CAny, _ => false
  | CNonAuth, NotAuth => false
  | CNonAuth, _ => true
  | CAuth, NotAuth => true
  | CAuth, _ => false
  | CSelect, Selected => false
  | CSelect, _ => true
  end.

Inductive cond := OK | NO | BAD.
(* what a command body does, seen from _run_state *)
Inductive exec_result :=
| EReturn (c : cond)                     (* returns a CommandResponse *)
| ERespError (c : cond) (terminal : bool)(* raises ResponseError (CloseConnection: OK + BYE) *)
| EAuthError                             (* raises AuthenticationError *)
| ETimeout                               (* raises TimeoutError *)
| EWriteRespError (c : cond)             (* returns OK/NO; producing the response raises ResponseError
                                            (UnknownCTE of FETCH BINARY): answered like a raise (f39c4ca) *)
| EWriteOther                            (* returns; producing the response raises anything else *)
| EOther.                                (* raises anything else *)

(* responses as the monitor classifies them *)
Inductive resp :=
| RContinuation
| RTagged (tag : bytes) (c : cond)
| RBye (serverbug : bool)
| RPartial                     (* an incomplete response line *)
| RClose.                      (* the connection is closed *)

Definition BAD_LIMIT : nat := 5.

(* responses to one command object; bad = consecutive BADs counted so far.
   Result: responses, new counter *)
Definition respond_cmd (st : cstate) (bad : nat) (exec : ckind -> exec_result)
           (out : outcome) : list resp * nat :=
  let bad_reply tag :=
    if Nat.leb BAD_LIMIT (S bad)
    then ([RBye false; RTagged tag BAD; RClose], S bad)
    else ([RTagged tag BAD], S bad) in
  match out with
  | OInvalid tag _ => bad_reply tag
  | OCmd k tag _ =>
    if refused st k then bad_reply tag
    else
      match exec k with
      | EReturn BAD => bad_reply tag
      | EReturn c => ([RTagged tag c], O)
      | ERespError c true => ([RBye false; RTagged tag c; RClose], bad)
      | ERespError c false => ([RTagged tag c], bad)
      | EAuthError => ([RTagged tag BAD], bad)
      | ETimeout => ([RTagged tag NO], bad)
      | EWriteRespError c => ([RTagged tag c], O)
      | EWriteOther => ([RBye true; RClose], O)
      | EOther => ([RBye true; RClose], bad)
      end
  | OInterrupt _ => ([RContinuation], bad)       (* not reached through read_command *)
  | OExc _ => ([RBye true; RClose], bad)
  | OFuel => ([], bad)
  | OUnk => ([], bad)
  end.

Definition respond (o : oracle) (cfg : config) (st : cstate) (bad : nat)
           (exec : ckind -> exec_result) (line : bytes) (supplied : list bytes)
  : list resp * nat :=
  match read_command (S (length supplied)) o cfg line supplied O with
  | RCDone out asked =>
    let '(rs, bad') := respond_cmd st bad exec out in
    (repeat RContinuation asked ++ rs, bad')
  | RCWaiting asked _ => (repeat RContinuation asked, bad)
  | RCFuel => ([], bad)
  end.

(* ---------------------------------------------------------------------------
   ManageSieve: Command.parse of pymap/sieve/manage/command.py with
   params.allow_continuations = False *)
Inductive skind :=
| SNoop | SCapability | SStarttls | SAuthenticate | SUnauthenticate | SLogout
| SHaveSpace | SPutScript | SListScripts | SSetActive | SGetScript | SDeleteScript
| SRenameScript | SCheckScript.
Definition sieve_table : list (bytes * skind) :=
  [ ([78;79;79;80], SNoop); ([67;65;80;65;66;73;76;73;84;89], SCapability);
    ([83;84;65;82;84;84;76;83], SStarttls);
    ([65;85;84;72;69;78;84;73;67;65;84;69], SAuthenticate);
    ([85;78;65;85;84;72;69;78;84;73;67;65;84;69], SUnauthenticate);
    ([76;79;71;79;85;84], SLogout); ([72;65;86;69;83;80;65;67;69], SHaveSpace);
    ([80;85;84;83;67;82;73;80;84], SPutScript);
    ([76;73;83;84;83;67;82;73;80;84;83], SListScripts);
    ([83;69;84;65;67;84;73;86;69], SSetActive); ([71;69;84;83;67;82;73;80;84], SGetScript);
    ([68;69;76;69;84;69;83;67;82;73;80;84], SDeleteScript);
    ([82;69;78;65;77;69;83;67;82;73;80;84], SRenameScript);
    ([67;72;69;67;75;83;67;82;73;80;84], SCheckScript) ].

Definition sieve_params : params :=
  {| pa_append := false; pa_max_append := None; pa_allow_cont := false;
     pa_uid := false; pa_charset := None |}.

Section Sieve.
Variable utf8_ok : bytes -> bool.   (* bytes.decode('utf-8') succeeds (stdlib) *)

(* Command._parse_script_name *)
Definition ps_script_name (allow_empty : bool) : parser bytes :=
  v <- p_string sieve_params ;;
  guard (allow_empty || negb (is_empty v)) FPlain ;;;
  guard (utf8_ok v) FPlain ;;;
  ret v.

Definition ps_args (k : skind) : parser unit :=
  match k with
  | SNoop =>
    b <- peek ;;
    (if head_is SP b
     then p_space ;;; try_ (p_string sieve_params ;;; ret tt) (fun _ => ret tt)
     else ret tt) ;;;
    p_endline
  | SCapability | SStarttls | SUnauthenticate | SLogout | SListScripts => p_endline
  | SAuthenticate =>
    p_quoted ;;; try_ (p_string sieve_params ;;; ret tt) (fun _ => ret tt)
  | SHaveSpace => ps_script_name false ;;; p_number ;;; p_endline
  | SPutScript => ps_script_name false ;;; p_string sieve_params ;;; p_endline
  | SSetActive => ps_script_name true ;;; p_endline
  | SGetScript | SDeleteScript => ps_script_name false ;;; p_endline
  | SRenameScript => ps_script_name false ;;; ps_script_name false ;;; p_endline
  | SCheckScript => p_string sieve_params ;;; p_endline
  end.

Inductive soutcome := SOk (k : skind) | SBad | SExc (x : exn) | SFuel | SUnk.

(* what ManageSieveConnection.run makes of _read_command: a command, or the
   BadCommandResponse (NotParseable; ValueError/RecursionError since the fix) *)
Definition sieve_parse (line : bytes) : soutcome :=
  match lex_run atom_char line with
  | None => SBad
  | Some (name, b1) =>
    match lookup (upper name) sieve_table with
    | None => SBad
    | Some k =>
      match ps_args k [] b1 with
      | POk _ _ _ => SOk k
      | PFail _ _ => SBad
      | PInt _ => SBad          (* unreachable: continuations are not allowed *)
      | PExc _ => SBad
      | PFuel => SFuel
      | PUnk => SUnk
      end
    end
  end.
End Sieve.
