(* Cmd/JustProofs.v — a continuation request is always justified: when the
   command parser raises ParsingInterrupt(n), one of the buffers it was given
   (the line or a continuation) ends with a synchronizing literal header
   {n} CRLF.  Same compositional style as GrammarProofs: a judgment [just]
   with one rule per combinator. *)
From PV Require Import Base.Prelude Base.Decimal Cmd.CLex Cmd.SuffixProofs Cmd.Parser
     Cmd.Utf7Ok Cmd.Grammar Cmd.Commands.
From Coq Require Import Lia.
Local Open Scope N_scope.

(* s is exactly (spaces,) an optional '~', '{', digits, '}', CRLF — no '+' —
   announcing n bytes *)
Definition is_sync_hdr (s : bytes) (n : N) : Prop :=
  exists bin ds, lex_literal_hdr s = Some ((bin, ds, false), []) /\ digits_value ds = n.
Definition ends_hdr (B : bytes) (n : N) : Prop := exists s, sfx s B /\ is_sync_hdr s n.
Lemma ends_hdr_sfx B B' n : ends_hdr B n -> sfx B B' -> ends_hdr B' n.
Proof. intros (s & Hs & Hh) H. exists s. split; [eapply sfx_trans; eauto|exact Hh]. Qed.

(* B ends with some synchronizing literal header *)
Definition E (B : bytes) : Prop := exists n, ends_hdr B n.
Lemma E_sfx B B' : E B -> sfx B B' -> E B'.
Proof. intros [n H] Hs. exists n. eapply ends_hdr_sfx; eauto. Qed.

(* from position b with the continuations cs pending one can get to b' with
   cs' pending: inside the buffer, or through its closing synchronizing
   literal into the next continuation, and so on *)
Fixpoint reach (b : bytes) (cs : list bytes) (b' : bytes) (cs' : list bytes) : Prop :=
  (cs' = cs /\ sfx b' b) \/
  match cs with
  | [] => False
  | c :: rest => E b /\ reach c rest b' cs'
  end.
Definition allhdr (b : bytes) (cs : list bytes) : Prop := E b /\ Forall E cs.
Definition int_for (n : N) (b : bytes) (cs : list bytes) : Prop :=
  exists B, (B = b \/ In B cs) /\ ends_hdr B n.

Lemma reach_sfx b cs b' : sfx b' b -> reach b cs b' cs.
Proof. intro H. destruct cs; left; auto. Qed.
Lemma reach_refl b cs : reach b cs b cs.
Proof. apply reach_sfx, sfx_refl. Qed.

Lemma reach_trans cs : forall b b1 cs1 b2 cs2,
  reach b cs b1 cs1 -> reach b1 cs1 b2 cs2 -> reach b cs b2 cs2.
Proof.
  induction cs as [|c rest IH]; intros b b1 cs1 b2 cs2 H1 H2.
  - destruct H1 as [[-> Hs]|[]]. destruct H2 as [[-> Hs2]|[]].
    left. split; [reflexivity|eapply sfx_trans; eauto].
  - destruct H1 as [[-> Hs]|[He H1]].
    + destruct H2 as [[-> Hs2]|[He2 H2]].
      * left. split; [reflexivity|eapply sfx_trans; eauto].
      * right. split; [eapply E_sfx; eauto|exact H2].
    + right. split; [exact He|eapply IH; eauto].
Qed.

Lemma allhdr_back cs : forall b b' cs', reach b cs b' cs' -> allhdr b' cs' -> allhdr b cs.
Proof.
  induction cs as [|c rest IH]; intros b b' cs' H [He Hf].
  - destruct H as [[-> Hs]|[]]. split; [eapply E_sfx; eauto|exact Hf].
  - destruct H as [[-> Hs]|[Heb H]].
    + split; [eapply E_sfx; eauto|exact Hf].
    + destruct (IH _ _ _ H (conj He Hf)) as [Hc Hr]. split; [exact Heb|constructor; assumption].
Qed.

Lemma int_back n cs : forall b b' cs', reach b cs b' cs' -> int_for n b' cs' -> int_for n b cs.
Proof.
  induction cs as [|c rest IH]; intros b b' cs' H (B & HB & Hh).
  - destruct H as [[-> Hs]|[]]. destruct HB as [->|[]].
    exists b. split; [left; reflexivity|eapply ends_hdr_sfx; eauto].
  - destruct H as [[-> Hs]|[Heb H]].
    + destruct HB as [->|Hin].
      * exists b. split; [left; reflexivity|eapply ends_hdr_sfx; eauto].
      * exists B. split; [right; exact Hin|exact Hh].
    + destruct (IH _ _ _ H (ex_intro _ B (conj HB Hh))) as (B' & [->|Hin] & Hh').
      * exists c. split; [right; left; reflexivity|exact Hh'].
      * exists B'. split; [right; right; exact Hin|exact Hh'].
Qed.

(* the judgment: results are reachable positions; an interrupt means every
   buffer from here on ends with a synchronizing literal, the last one with
   the literal that is asked about *)
Definition just {A} (p : parser A) : Prop :=
  forall cs b,
    match p cs b with
    | POk _ b' cs' => reach b cs b' cs'
    | PInt n => allhdr b cs /\ int_for n b cs
    | _ => True
    end.

Lemma just_ret {A} (a : A) : just (ret a).
Proof. intros cs b. apply reach_refl. Qed.
Lemma just_fail {A} k : just (@fail A k).
Proof. intros cs b. exact I. Qed.
Lemma just_raise {A} x : just (@raise A x).
Proof. intros cs b. exact I. Qed.

Lemma just_then {A B} (r : pres A) (q : A -> parser B) cs b :
  match r with
  | POk _ b' cs' => reach b cs b' cs'
  | PInt n => allhdr b cs /\ int_for n b cs
  | _ => True
  end ->
  (forall a, just (q a)) ->
  match (match r with
         | POk a b' cs' => q a cs' b'
         | PFail k cs' => PFail k cs'
         | PInt n => PInt n
         | PExc x => PExc x
         | PFuel => PFuel
         | PUnk => PUnk
         end) with
  | POk _ b' cs' => reach b cs b' cs'
  | PInt n => allhdr b cs /\ int_for n b cs
  | _ => True
  end.
Proof.
  intros Hr Hq. destruct r as [a b' cs'| | | | |]; auto.
  specialize (Hq a cs' b'). destruct (q a cs' b') as [a2 b2 cs2|k cs2|n| | |]; auto.
  - eapply reach_trans; eauto.
  - destruct Hq as [H1 H2]. split; [eapply allhdr_back; eauto|eapply int_back; eauto].
Qed.

Lemma just_bind {A B} (p : parser A) (q : A -> parser B) :
  just p -> (forall a, just (q a)) -> just (bind p q).
Proof. intros Hp Hq cs b. unfold bind. apply just_then; [apply Hp|exact Hq]. Qed.

Lemma just_try_else {A B} (p : parser A) (q : A -> parser B) h :
  just p -> (forall a, just (q a)) -> (forall k, just (h k)) -> just (try_else p q h).
Proof.
  intros Hp Hq Hh cs b. unfold try_else. specialize (Hp cs b).
  destruct (p cs b) as [a b' cs'|k cs'| | | |]; auto.
  - specialize (Hq a cs' b'). destruct (q a cs' b') as [a2 b2 cs2|k2 cs2|n| | |]; auto.
    + eapply reach_trans; eauto.
    + destruct Hq as [H1 H2]. split; [eapply allhdr_back; eauto|eapply int_back; eauto].
  - apply Hh.
Qed.

Lemma just_try {A} (p : parser A) h : just p -> (forall k, just (h k)) -> just (try_ p h).
Proof. intros Hp Hh. unfold try_. apply just_try_else; auto. intro a. apply just_ret. Qed.

Lemma just_lex {A} (f : bytes -> option (A * bytes)) : suffixing f -> just (lex f).
Proof.
  intros Hf cs b. unfold lex. destruct (f b) as [[a b']|] eqn:E0; [|exact I].
  apply reach_sfx. eapply Hf; eauto.
Qed.

Lemma just_peek : just peek.
Proof. intros cs b. apply reach_refl. Qed.
Lemma just_guard c k : just (guard c k).
Proof. unfold guard. destruct c; [apply just_ret|apply just_fail]. Qed.
Lemma just_guard_exc c x : just (guard_exc c x).
Proof. unfold guard_exc. destruct c; [apply just_ret|apply just_raise]. Qed.
Lemma just_ask o k v : just (ask o k v).
Proof.
  intros cs b. unfold ask. destruct (o k v) as [|p]; [apply reach_refl|].
  destruct p as [p|p|]; try exact I; try (destruct p; try exact I; apply reach_refl); apply reach_refl.
Qed.

Lemma just_loop {S R} (step : S -> parser (S + R)) :
  (forall s, just (step s)) -> forall fuel s, just (loop fuel step s).
Proof.
  intros Hs fuel. induction fuel as [|f IH]; intros s cs b; cbn [loop]; [exact I|].
  specialize (Hs s cs b).
  destruct (step s cs b) as [[s'|r] b' cs'| | | | |]; auto.
  specialize (IH s' cs' b').
  destruct (loop f step s' cs' b') as [a2 b2 cs2|k2 cs2|n| | |]; auto.
  - eapply reach_trans; eauto.
  - destruct IH as [H1 H2]. split; [eapply allhdr_back; eauto|eapply int_back; eauto].
Qed.

Lemma just_expected {A} (ps : list (parser A)) : Forall just ps -> just (p_expected ps).
Proof.
  induction ps as [|p r IH]; intro H; cbn [p_expected]; [apply just_fail|].
  inversion H; subst. apply just_try; [assumption|]. intro. apply IH. assumption.
Qed.

(* the one place where a continuation is consumed or an interrupt raised *)
Lemma just_literal pr : just (p_literal pr).
Proof.
  intros cs b. unfold p_literal, bind, lex.
  destruct (lex_literal_hdr b) as [[[[bin ds] plus] b1]|] eqn:E0; [|exact I].
  pose proof (lex_literal_hdr_sfx _ _ _ E0) as Hs1.
  unfold guard_exc. destruct (negb (too_many_digits ds)); [|exact I]. unfold ret.
  unfold guard. destruct (negb (too_big pr (digits_value ds))); [|exact I]. unfold ret.
  destruct plus.
  - destruct (take_exact (digits_value ds) b1) as [[lit rest]|] eqn:Et; [|exact I].
    apply take_exact_sfx in Et. apply reach_sfx. eapply sfx_trans; eauto.
  - unfold peek. destruct b1 as [|c1 r1]; cbn [is_empty]; [|exact I].
    destruct (pa_allow_cont pr); [|exact I].
    assert (Hh : ends_hdr b (digits_value ds)).
    { exists b. split; [apply sfx_refl|]. exists bin, ds. split; [exact E0|reflexivity]. }
    unfold take_cont. destruct cs as [|c cs'].
    + split; [split; [exists (digits_value ds); exact Hh|constructor]|].
      exists b. split; [left; reflexivity|exact Hh].
    + destruct (take_exact (digits_value ds) c) as [[lit rest]|] eqn:Et; [|exact I].
      apply take_exact_sfx in Et. right. split; [exists (digits_value ds); exact Hh|].
      apply reach_sfx. exact Et.
Qed.

Create HintDb jdb.
Ltac jd_plist := fail.
Ltac jds :=
  lazymatch goal with
  | |- forall _, _ => intro; jds
  | |- just (ret _) => apply just_ret
  | |- just (fail _) => apply just_fail
  | |- just (raise _) => apply just_raise
  | |- just (guard _ _) => apply just_guard
  | |- just (guard_exc _ _) => apply just_guard_exc
  | |- just peek => apply just_peek
  | |- just (ask _ _ _) => apply just_ask
  | |- just (bind _ _) => apply just_bind; jds
  | |- just (try_else _ _ _) => apply just_try_else; jds
  | |- just (try_ _ _) => apply just_try; jds
  | |- just (p_list _ _ _) => jd_plist; jds
  | |- just (p_expected _) => apply just_expected; repeat (constructor; [solve [jds]|]); constructor
  | |- just (loop _ _ _) => first [ solve [eauto 3 with jdb] | apply just_loop; jds ]
  | |- just (let _ := _ in _) => cbv zeta; jds
  | |- just (if ?c then _ else _) => destruct c; jds
  | |- just (match ?x with _ => _ end) => destruct x; jds
  | _ => solve [eauto 3 with jdb]
  end.

Section Proofs.
Variable o : oracle.
Variable F : nat.

Lemma j_lex_run p : just (lex (lex_run p)). Proof. apply just_lex, lex_run_sfx. Qed.
Lemma j_lex_run_here p : just (lex (lex_run_here p)). Proof. apply just_lex, lex_run_here_sfx. Qed.
Lemma j_lex_byte c : just (lex (lex_byte c)). Proof. apply just_lex, lex_byte_sfx. Qed.
Lemma j_lex_byte_sp c : just (lex (lex_byte_sp c)). Proof. apply just_lex, lex_byte_sp_sfx. Qed.
Lemma j_take_exact n : just (lex (take_exact n)). Proof. apply just_lex, take_exact_sfx. Qed.
Lemma j_list_end : just (lex lex_list_end). Proof. apply just_lex, lex_list_end_sfx. Qed.
Lemma j_seqnum : just (lex lex_seqnum). Proof. apply just_lex, lex_seqnum_sfx. Qed.
Lemma j_optname : just (lex lex_optname). Proof. apply just_lex, lex_optname_sfx. Qed.
Lemma j_not : just (lex lex_not). Proof. apply just_lex, lex_not_sfx. Qed.
Lemma j_return : just (lex lex_return). Proof. apply just_lex, lex_return_sfx. Qed.
Lemma j_sec_parts : just (lex lex_sec_parts). Proof. apply just_lex, lex_sec_parts_sfx. Qed.
Lemma j_partial : just (lex lex_partial). Proof. apply just_lex, lex_partial_sfx. Qed.
Lemma j_attrname : just (lex lex_attrname). Proof. apply just_lex, lex_attrname_sfx. Qed.
Lemma j_section_start : just (lex lex_section_start). Proof. apply just_lex, lex_section_start_sfx. Qed.
Lemma j_section_end : just (lex lex_section_end). Proof. apply just_lex, lex_section_end_sfx. Qed.
Lemma j_space : just p_space. Proof. apply just_lex, lex_space_sfx. Qed.
Lemma j_endline : just p_endline. Proof. apply just_lex, lex_endline_sfx. Qed.
Lemma j_atom : just p_atom. Proof. apply just_lex, lex_run_sfx. Qed.
Lemma j_quoted : just p_quoted. Proof. apply just_lex, lex_quoted_sfx. Qed.
Lemma j_objid : just p_objid. Proof. apply just_lex, lex_objid_sfx. Qed.
Hint Resolve j_lex_run j_lex_run_here j_lex_byte j_lex_byte_sp j_take_exact j_list_end j_seqnum
     j_optname j_not j_return j_sec_parts j_partial j_attrname j_section_start j_section_end
     j_space j_endline j_atom j_quoted j_objid just_literal : jdb.

Lemma j_opt_space : just p_opt_space. Proof. unfold p_opt_space. jds. Qed.
Lemma j_number : just p_number. Proof. unfold p_number. jds. Qed.
Lemma j_nil : just p_nil. Proof. unfold p_nil. jds. Qed.
Hint Resolve j_opt_space j_number j_nil : jdb.
Lemma j_string pr : just (p_string pr). Proof. unfold p_string. jds. Qed.
Hint Resolve j_string : jdb.
Lemma j_astring pr : just (p_astring pr). Proof. unfold p_astring. jds. Qed.
Hint Resolve j_astring : jdb.

Lemma j_list {A} limit (item : parser A) : just item -> just (p_list F limit item).
Proof.
  intro Hi. unfold p_list. apply just_bind; [jds|]. intros _. apply just_loop.
  intro acc. unfold list_step. jds.
Qed.
Ltac jd_plist ::= apply j_list.

Lemma j_seq_idx : just seq_idx. Proof. unfold seq_idx. jds. Qed.
Hint Resolve j_seq_idx : jdb.
Lemma j_seq_part : just seq_part. Proof. unfold seq_part. jds. Qed.
Hint Resolve j_seq_part : jdb.
Lemma j_seqset : just (p_seqset F).
Proof. unfold p_seqset. repeat (apply just_bind; [jds|intro]). apply just_loop. intro. unfold seq_tail_step. jds. Qed.
Hint Resolve j_seqset : jdb.
Lemma j_flag : just p_flag. Proof. unfold p_flag. jds. Qed.
Lemma j_datetime : just (p_datetime o). Proof. unfold p_datetime. jds. Qed.
Lemma j_status_attr : just p_status_attr. Proof. unfold p_status_attr. jds. Qed.
Lemma j_mailbox pr : just (p_mailbox pr). Proof. unfold p_mailbox. jds. Qed.
Hint Resolve j_flag j_datetime j_status_attr j_mailbox : jdb.

Lemma j_optlist d : forall pr, just (p_optlist F d pr).
Proof.
  induction d as [|d IH]; intro pr; cbn [p_optlist]; [apply just_raise|].
  apply just_bind; [|jds]. apply j_list. apply just_expected.
  constructor; [jds|]. constructor; [apply IH|constructor].
Qed.
Hint Resolve j_optlist : jdb.
Lemma j_ext_arg d pr : just (p_ext_arg F d pr). Proof. unfold p_ext_arg. jds. Qed.
Hint Resolve j_ext_arg : jdb.
Lemma j_ext_option d pr : just (p_ext_option F d pr). Proof. unfold p_ext_option. jds. Qed.
Hint Resolve j_ext_option : jdb.
Lemma j_ext_option_loop d pr n : just (loop F (ext_option_step F d pr) n).
Proof. apply just_loop. intro. unfold ext_option_step. jds. Qed.
Hint Resolve j_ext_option_loop : jdb.
Lemma j_ext_options d pr : just (p_ext_options F d pr). Proof. unfold p_ext_options. jds. Qed.
Hint Resolve j_ext_options : jdb.

Lemma j_section pr : just (p_section F pr).
Proof.
  unfold p_section. jds.
Qed.
Hint Resolve j_section : jdb.
Lemma j_fetch_att pr : just (p_fetch_att F pr). Proof. unfold p_fetch_att. jds. Qed.
Hint Resolve j_fetch_att : jdb.
Lemma j_astring_filter pr : just (p_astring_filter o pr). Proof. unfold p_astring_filter. jds. Qed.
Lemma j_date_filter : just (p_date_filter o). Proof. unfold p_date_filter. jds. Qed.
Hint Resolve j_astring_filter j_date_filter : jdb.

Lemma j_not_loop : just (loop F not_step tt).
Proof. apply just_loop. intro. unfold not_step. jds. Qed.
Hint Resolve j_not_loop : jdb.

Lemma j_search_key d : forall pr, just (p_search_key o F d pr).
Proof.
  induction d as [|d IH]; intro pr; cbn [p_search_key]; [apply just_raise|].
  apply just_bind; [jds|]. intros _. apply just_bind; [jds|]. intros _.
  apply just_bind; [jds|]. intros [|]; [jds|].
  apply just_bind.
  { apply just_try_else; [|jds|jds]. apply j_list. apply just_expected.
    constructor; [apply IH|constructor]. }
  intros [|]; [jds|].
  apply just_bind; [jds|]. intro a. cbv zeta.
  repeat match goal with |- just (if ?c then _ else _) => destruct c end; try jds.
Qed.
Hint Resolve j_search_key : jdb.

Lemma j_append_msg d pr : just (p_append_msg o F d pr).
Proof.
  unfold p_append_msg. apply just_bind; [jds|]. intros _.
  jds.
Qed.
Hint Resolve j_append_msg : jdb.

Lemma j_append_step d pr n : just (append_step o F d pr n).
Proof. unfold append_step. jds. Qed.
Lemma j_search_step d pr any : just (search_step o F d pr any).
Proof. unfold search_step. jds. Qed.
Lemma j_flag_loop_step u : just (flag_loop_step u).
Proof. unfold flag_loop_step. jds. Qed.
Hint Resolve j_append_step j_search_step j_flag_loop_step : jdb.
Lemma j_store_flags : just (p_store_flags F).
Proof. unfold p_store_flags. jds. Qed.
Lemma j_charset_arg pr : just (p_charset_arg o pr).
Proof. unfold p_charset_arg. jds. Qed.
Hint Resolve j_store_flags j_charset_arg : jdb.

Theorem j_args d pr k : just (p_args o F d pr k).
Proof.
  destruct k; cbn [p_args];
    unfold p_noargs, p_id, p_append, p_select, p_mailbox_arg, p_list_cmd, p_rename, p_status,
           p_authenticate, p_login, p_expunge, p_copy, p_fetch, p_store, p_search;
    jds.
Qed.

End Proofs.

(* Commands.parse: an interrupt points at a synchronizing literal that ends
   the line or one of the continuations *)
Lemma lex_word_sfx : suffixing lex_word.
Proof.
  intros b a b' E. unfold lex_word in E.
  destruct (lex_space b) as [[u b1]|] eqn:E1; [|discriminate]. apply lex_space_sfx in E1.
  destruct (lex_run atom_char b1) as [[x b2]|] eqn:E2; [|discriminate].
  apply lex_run_sfx in E2. inversion E; subst. eapply sfx_trans; eauto.
Qed.

Lemma run_args_interrupt o cfg k tag cs b fuel n :
  run_args o cfg k tag cs b fuel = OInterrupt n -> allhdr b cs /\ int_for n b cs.
Proof.
  unfold run_args. pose proof (j_args o fuel (c_depth cfg) (base_params cfg k) k cs b) as H.
  destruct (p_args o fuel (c_depth cfg) (base_params cfg k) k cs b); try discriminate.
  - intro E0. inversion E0; subst. exact H.
  - destruct x; discriminate.
Qed.

Theorem interrupt_chain o cfg line cs n :
  parse_command o cfg line cs = OInterrupt n ->
  Forall E (line :: cs) /\ exists B, In B (line :: cs) /\ ends_hdr B n.
Proof.
  unfold parse_command.
  destruct (lex_run tag_char line) as [[tag b1]|] eqn:E1; [|discriminate].
  apply lex_run_sfx in E1.
  destruct (lex_word b1) as [[w1 b2]|] eqn:E2; [|discriminate].
  apply lex_word_sfx in E2.
  assert (Hfin : forall b k, sfx b line ->
            run_args o cfg k tag cs b (S (mu line cs)) = OInterrupt n ->
            Forall E (line :: cs) /\ exists B, In B (line :: cs) /\ ends_hdr B n).
  { intros b k Hs E0. apply run_args_interrupt in E0. destruct E0 as [[He Hf] (B & [->|Hin] & Hh)].
    - split; [constructor; [eapply E_sfx; eauto|exact Hf]|].
      exists line. split; [left; reflexivity|eapply ends_hdr_sfx; eauto].
    - split; [constructor; [eapply E_sfx; eauto|exact Hf]|].
      exists B. split; [right; exact Hin|exact Hh]. }
  destruct (bytes_eqb w1 s_UID).
  - destruct (lex_word b2) as [[w2 b3]|] eqn:E3; [|discriminate].
    apply lex_word_sfx in E3.
    destruct (lookup w2 uid_table); [|discriminate].
    apply Hfin. eapply sfx_trans; [exact E3|]. eapply sfx_trans; eauto.
  - destruct (lookup w1 command_table); [|discriminate].
    apply Hfin. eapply sfx_trans; eauto.
Qed.

Theorem interrupt_justified o cfg line cs n :
  parse_command o cfg line cs = OInterrupt n ->
  exists B, In B (line :: cs) /\ ends_hdr B n.
Proof. intro H. apply interrupt_chain in H. tauto. Qed.

(* ---------------------------------------------------------------- counting *)
Definition is_sync_hdr_b (s : bytes) : bool :=
  match lex_literal_hdr s with
  | Some ((_, _, false), []) => true
  | _ => false
  end.
Fixpoint any_tail (f : bytes -> bool) (b : bytes) : bool :=
  f b || match b with [] => false | _ :: r => any_tail f r end.
(* the buffer ends with a synchronizing literal header *)
Definition sync_end (B : bytes) : bool := any_tail is_sync_hdr_b B.
(* number of synchronizing literals in the line and its continuations *)
Definition nsync (bufs : list bytes) : nat := length (filter sync_end bufs).

Lemma any_tail_sfx f s : forall B, sfx s B -> f s = true -> any_tail f B = true.
Proof.
  intros B [pre ->]. induction pre as [|c pre IH]; intro Hf.
  - destruct s; cbn [app any_tail]; rewrite Hf; reflexivity.
  - cbn [app any_tail]. rewrite (IH Hf). apply orb_true_r.
Qed.

Lemma E_sync_end B : E B -> sync_end B = true.
Proof.
  intros (n & s & Hs & bin & ds & Hl & _). eapply any_tail_sfx; [exact Hs|].
  unfold is_sync_hdr_b. rewrite Hl. reflexivity.
Qed.

Lemma nsync_all bufs : Forall E bufs -> nsync bufs = length bufs.
Proof.
  unfold nsync. induction 1 as [|B r HB _ IH]; [reflexivity|].
  cbn [filter]. rewrite (E_sync_end _ HB). cbn [length]. rewrite IH. reflexivity.
Qed.

Lemma nsync_firstn k l : (nsync (firstn k l) <= nsync l)%nat.
Proof.
  unfold nsync. revert k. induction l as [|x r IH]; intro k; destruct k; cbn [firstn filter length]; try lia;
    try specialize (IH k); destruct (sync_end x); cbn [length]; lia.
Qed.

(* the requests counted by read_command are bounded by the synchronizing
   literals of the exchange *)
Lemma read_command_asked o cfg line supplied :
  forall fuel k, (k <= length supplied)%nat ->
    (k <= nsync (line :: firstn k supplied))%nat \/ k = O ->
    match read_command fuel o cfg line supplied k with
    | RCDone _ asked => (asked <= nsync (line :: supplied))%nat
    | RCWaiting asked _ => (asked <= nsync (line :: supplied))%nat
    | RCFuel => True
    end.
Proof.
  assert (Hmono : forall k, (nsync (line :: firstn k supplied) <= nsync (line :: supplied))%nat).
  { intro k. unfold nsync. cbn [filter]. pose proof (nsync_firstn k supplied) as H. unfold nsync in H.
    destruct (sync_end line); cbn [length]; lia. }
  induction fuel as [|f IH]; intros k Hk Hinv; cbn [read_command]; [exact I|].
  assert (Hkb : (k <= nsync (line :: supplied))%nat).
  { destruct Hinv as [H| ->]; [|lia]. specialize (Hmono k). lia. }
  destruct (parse_command o cfg line (firstn k supplied)) eqn:Ep; try exact Hkb.
  apply interrupt_chain in Ep. destruct Ep as [Hall _].
  apply nsync_all in Hall. cbn [length] in Hall. rewrite firstn_length_le in Hall by exact Hk.
  destruct (Nat.ltb k (length supplied)) eqn:El.
  - apply PeanoNat.Nat.ltb_lt in El. apply IH; [lia|]. left.
    (* the first k buffers all end with a literal: so do they among the first k+1 *)
    assert (Hpre : (nsync (line :: firstn k supplied) <= nsync (line :: firstn (S k) supplied))%nat).
    { assert (Hf : firstn k supplied = firstn k (firstn (S k) supplied)).
      { rewrite firstn_firstn. f_equal. lia. }
      rewrite Hf at 1. unfold nsync. cbn [filter].
      pose proof (nsync_firstn k (firstn (S k) supplied)) as H. unfold nsync in H.
      destruct (sync_end line); cbn [length]; lia. }
    lia.
  - specialize (Hmono k). lia.
Qed.

Theorem read_command_bound o cfg line supplied :
  match read_command (S (length supplied)) o cfg line supplied 0 with
  | RCDone _ asked => (asked <= nsync (line :: supplied))%nat
  | RCWaiting asked _ => (asked <= nsync (line :: supplied))%nat
  | RCFuel => True
  end.
Proof. apply read_command_asked; [lia|right; reflexivity]. Qed.

From PV Require Import Cmd.ParserProofs Cmd.GrammarProofs Cmd.CommandsProofs.

Theorem read_command_full_bound o cfg line supplied :
  match read_command (S (length supplied)) o cfg line supplied 0 with
  | RCDone out asked =>
    (asked <= nsync (line :: supplied))%nat /\ (asked <= length supplied)%nat /\
    match out with OInterrupt _ => False | _ => True end
  | RCWaiting asked _ =>
    (asked <= nsync (line :: supplied))%nat /\ asked = S (length supplied)
  | RCFuel => False
  end.
Proof.
  pose proof (read_command_bound o cfg line supplied) as Hb.
  pose proof (read_command_terminates o cfg line supplied) as Ht.
  destruct (read_command (S (length supplied)) o cfg line supplied 0); cbn [rc_ok] in Ht.
  - destruct Ht. auto.
  - auto.
  - exact Ht.
Qed.

Theorem interrupt_all_sync_end o cfg line conts n :
  parse_command o cfg line conts = OInterrupt n ->
  Forall (fun B => sync_end B = true) (line :: conts).
Proof.
  intro H. apply interrupt_chain in H. destruct H as [H _].
  eapply Forall_impl; [|exact H]. intros B HB. apply E_sync_end. exact HB.
Qed.
