(* Cmd/JustProofs.v — a continuation request is always justified: when the
   command parser raises ParsingInterrupt(n), one of the buffers it was given
   (the line or a continuation) ends with a synchronizing literal header
   {n} CRLF.  Same compositional style as GrammarProofs: a judgment [just]
   with one rule per combinator. *)
From PV Require Import Base.Prelude Base.Decimal Cmd.CLex Cmd.SuffixProofs Cmd.Parser
     Cmd.Utf7Ok Cmd.Grammar Cmd.Commands.
From Coq Require Import Lia.
Local Open Scope N_scope.

(* s is exactly (spaces,) an optional '~', '{', digits, '}', CRLF — no '+' —
   announcing n bytes *)
Definition is_sync_hdr (s : bytes) (n : N) : Prop :=
  exists bin ds, lex_literal_hdr s = Some ((bin, ds, false), []) /\ digits_value ds = n.
Definition ends_hdr (B : bytes) (n : N) : Prop := exists s, sfx s B /\ is_sync_hdr s n.
Definition lsfx (cs' cs : list bytes) : Prop := exists pre, cs = pre ++ cs'.
Definition within (b' b : bytes) (cs : list bytes) : Prop :=
  sfx b' b \/ exists c, In c cs /\ sfx b' c.

Lemma lsfx_refl cs : lsfx cs cs.
Proof. exists []. reflexivity. Qed.
Lemma lsfx_trans a b c : lsfx a b -> lsfx b c -> lsfx a c.
Proof. intros [p ->] [q ->]. exists (q ++ p). rewrite app_assoc. reflexivity. Qed.
Lemma lsfx_in x cs' cs : lsfx cs' cs -> In x cs' -> In x cs.
Proof. intros [p ->] H. apply in_or_app. right. exact H. Qed.
Lemma ends_hdr_sfx B B' n : ends_hdr B n -> sfx B B' -> ends_hdr B' n.
Proof. intros (s & Hs & Hh) H. exists s. split; [eapply sfx_trans; eauto|exact Hh]. Qed.

Lemma within_trans b'' b' b cs' cs :
  within b'' b' cs' -> within b' b cs -> lsfx cs' cs -> within b'' b cs.
Proof.
  intros [H|(c & Hc & H)] Hw Hl.
  - destruct Hw as [Hw|(c & Hc & Hw)].
    + left. eapply sfx_trans; eauto.
    + right. exists c. split; [exact Hc|eapply sfx_trans; eauto].
  - right. exists c. split; [eapply lsfx_in; eauto|exact H].
Qed.

Definition just {A} (p : parser A) : Prop :=
  forall cs b,
    match p cs b with
    | POk _ b' cs' => within b' b cs /\ lsfx cs' cs
    | PFail _ cs' => lsfx cs' cs
    | PInt n => exists B, (B = b \/ In B cs) /\ ends_hdr B n
    | _ => True
    end.

(* an interrupt raised after moving to (b', cs') is one for (b, cs) *)
Lemma int_lift n b' cs' b cs :
  (exists B, (B = b' \/ In B cs') /\ ends_hdr B n) ->
  within b' b cs -> lsfx cs' cs ->
  exists B, (B = b \/ In B cs) /\ ends_hdr B n.
Proof.
  intros (B & [->|Hin] & He) Hw Hl.
  - destruct Hw as [Hw|(c & Hc & Hw)].
    + exists b. split; [left; reflexivity|eapply ends_hdr_sfx; eauto].
    + exists c. split; [right; exact Hc|eapply ends_hdr_sfx; eauto].
  - exists B. split; [right; eapply lsfx_in; eauto|exact He].
Qed.

Lemma just_ret {A} (a : A) : just (ret a).
Proof. intros cs b. unfold ret. split; [left; apply sfx_refl|apply lsfx_refl]. Qed.
Lemma just_fail {A} k : just (@fail A k).
Proof. intros cs b. apply lsfx_refl. Qed.
Lemma just_raise {A} x : just (@raise A x).
Proof. intros cs b. exact I. Qed.

Lemma just_bind {A B} (p : parser A) (q : A -> parser B) :
  just p -> (forall a, just (q a)) -> just (bind p q).
Proof.
  intros Hp Hq cs b. unfold bind. specialize (Hp cs b).
  destruct (p cs b) as [a b' cs'| | | | |]; auto.
  destruct Hp as [Hw Hl]. specialize (Hq a cs' b').
  destruct (q a cs' b') as [a2 b2 cs2|k cs2|n| | |]; auto.
  - destruct Hq as [Hw2 Hl2]. split; [eapply within_trans; eauto|eapply lsfx_trans; eauto].
  - eapply lsfx_trans; eauto.
  - eapply int_lift; eauto.
Qed.

Lemma just_try_else {A B} (p : parser A) (q : A -> parser B) h :
  just p -> (forall a, just (q a)) -> (forall k, just (h k)) -> just (try_else p q h).
Proof.
  intros Hp Hq Hh cs b. unfold try_else. specialize (Hp cs b).
  destruct (p cs b) as [a b' cs'|k cs'| | | |]; auto.
  - destruct Hp as [Hw Hl]. specialize (Hq a cs' b').
    destruct (q a cs' b') as [a2 b2 cs2|k2 cs2|n| | |]; auto.
    + destruct Hq as [Hw2 Hl2]. split; [eapply within_trans; eauto|eapply lsfx_trans; eauto].
    + eapply lsfx_trans; eauto.
    + eapply int_lift; eauto.
  - specialize (Hh k cs' b).
    destruct (h k cs' b) as [a2 b2 cs2|k2 cs2|n| | |]; auto.
    + destruct Hh as [Hw2 Hl2]. split; [|eapply lsfx_trans; eauto].
      eapply within_trans; [exact Hw2|left; apply sfx_refl|exact Hp].
    + eapply lsfx_trans; eauto.
    + eapply int_lift; [exact Hh|left; apply sfx_refl|exact Hp].
Qed.

Lemma just_try {A} (p : parser A) h : just p -> (forall k, just (h k)) -> just (try_ p h).
Proof. intros Hp Hh. unfold try_. apply just_try_else; auto. intro a. apply just_ret. Qed.

Lemma just_lex {A} (f : bytes -> option (A * bytes)) : suffixing f -> just (lex f).
Proof.
  intros Hf cs b. unfold lex. destruct (f b) as [[a b']|] eqn:E; [|apply lsfx_refl].
  split; [left; eapply Hf; eauto|apply lsfx_refl].
Qed.

Lemma just_peek : just peek.
Proof. intros cs b. unfold peek. split; [left; apply sfx_refl|apply lsfx_refl]. Qed.
Lemma just_guard c k : just (guard c k).
Proof. unfold guard. destruct c; [apply just_ret|apply just_fail]. Qed.
Lemma just_guard_exc c x : just (guard_exc c x).
Proof. unfold guard_exc. destruct c; [apply just_ret|apply just_raise]. Qed.
Lemma just_ask o k v : just (ask o k v).
Proof.
  intros cs b. unfold ask. destruct (o k v) as [|p]; [split; [left; apply sfx_refl|apply lsfx_refl]|].
  destruct p as [p|p|]; try exact I;
    try (destruct p; try exact I; split; [left; apply sfx_refl|apply lsfx_refl]);
    split; [left; apply sfx_refl|apply lsfx_refl].
Qed.

Lemma just_loop {S R} (step : S -> parser (S + R)) :
  (forall s, just (step s)) -> forall fuel s, just (loop fuel step s).
Proof.
  intros Hs fuel. induction fuel as [|f IH]; intros s cs b; cbn [loop]; [exact I|].
  specialize (Hs s cs b).
  destruct (step s cs b) as [[s'|r] b' cs'| | | | |]; auto.
  destruct Hs as [Hw Hl]. specialize (IH s' cs' b').
  destruct (loop f step s' cs' b') as [a2 b2 cs2|k2 cs2|n| | |]; auto.
  - destruct IH as [Hw2 Hl2]. split; [eapply within_trans; eauto|eapply lsfx_trans; eauto].
  - eapply lsfx_trans; eauto.
  - eapply int_lift; eauto.
Qed.

Lemma just_expected {A} (ps : list (parser A)) : Forall just ps -> just (p_expected ps).
Proof.
  induction ps as [|p r IH]; intro H; cbn [p_expected]; [apply just_fail|].
  inversion H; subst. apply just_try; [assumption|]. intro. apply IH. assumption.
Qed.

(* the one place where an interrupt is raised *)
Lemma just_literal pr : just (p_literal pr).
Proof.
  intros cs b. unfold p_literal, bind, lex.
  destruct (lex_literal_hdr b) as [[[[bin ds] plus] b1]|] eqn:E; [|apply lsfx_refl].
  pose proof (lex_literal_hdr_sfx _ _ _ E) as Hs1.
  unfold guard_exc. destruct (negb (too_many_digits ds)); [|exact I]. unfold ret.
  unfold guard. destruct (negb (too_big pr (digits_value ds))); [|apply lsfx_refl]. unfold ret.
  destruct plus.
  - destruct (take_exact (digits_value ds) b1) as [[lit rest]|] eqn:Et; [|apply lsfx_refl].
    apply take_exact_sfx in Et. split; [left; eapply sfx_trans; eauto|apply lsfx_refl].
  - unfold peek. destruct b1 as [|c1 r1]; cbn [is_empty]; [|apply lsfx_refl].
    destruct (pa_allow_cont pr); [|apply lsfx_refl].
    unfold take_cont. destruct cs as [|c cs'].
    + exists b. split; [left; reflexivity|]. exists b. split; [apply sfx_refl|].
      exists bin, ds. split; [exact E|reflexivity].
    + destruct (take_exact (digits_value ds) c) as [[lit rest]|] eqn:Et.
      * apply take_exact_sfx in Et. split.
        -- right. exists c. split; [left; reflexivity|exact Et].
        -- exists [c]. reflexivity.
      * exists [c]. reflexivity.
Qed.

Create HintDb jdb.
Ltac jd_plist := fail.
Ltac jds :=
  lazymatch goal with
  | |- forall _, _ => intro; jds
  | |- just (ret _) => apply just_ret
  | |- just (fail _) => apply just_fail
  | |- just (raise _) => apply just_raise
  | |- just (guard _ _) => apply just_guard
  | |- just (guard_exc _ _) => apply just_guard_exc
  | |- just peek => apply just_peek
  | |- just (ask _ _ _) => apply just_ask
  | |- just (bind _ _) => apply just_bind; jds
  | |- just (try_else _ _ _) => apply just_try_else; jds
  | |- just (try_ _ _) => apply just_try; jds
  | |- just (p_list _ _ _) => jd_plist; jds
  | |- just (p_expected _) => apply just_expected; repeat (constructor; [solve [jds]|]); constructor
  | |- just (loop _ _ _) => first [ solve [eauto 3 with jdb] | apply just_loop; jds ]
  | |- just (let _ := _ in _) => cbv zeta; jds
  | |- just (if ?c then _ else _) => destruct c; jds
  | |- just (match ?x with _ => _ end) => destruct x; jds
  | _ => solve [eauto 3 with jdb]
  end.

Section Proofs.
Variable o : oracle.
Variable F : nat.

Lemma j_lex_run p : just (lex (lex_run p)). Proof. apply just_lex, lex_run_sfx. Qed.
Lemma j_lex_run_here p : just (lex (lex_run_here p)). Proof. apply just_lex, lex_run_here_sfx. Qed.
Lemma j_lex_byte c : just (lex (lex_byte c)). Proof. apply just_lex, lex_byte_sfx. Qed.
Lemma j_lex_byte_sp c : just (lex (lex_byte_sp c)). Proof. apply just_lex, lex_byte_sp_sfx. Qed.
Lemma j_take_exact n : just (lex (take_exact n)). Proof. apply just_lex, take_exact_sfx. Qed.
Lemma j_list_end : just (lex lex_list_end). Proof. apply just_lex, lex_list_end_sfx. Qed.
Lemma j_seqnum : just (lex lex_seqnum). Proof. apply just_lex, lex_seqnum_sfx. Qed.
Lemma j_optname : just (lex lex_optname). Proof. apply just_lex, lex_optname_sfx. Qed.
Lemma j_not : just (lex lex_not). Proof. apply just_lex, lex_not_sfx. Qed.
Lemma j_return : just (lex lex_return). Proof. apply just_lex, lex_return_sfx. Qed.
Lemma j_sec_parts : just (lex lex_sec_parts). Proof. apply just_lex, lex_sec_parts_sfx. Qed.
Lemma j_partial : just (lex lex_partial). Proof. apply just_lex, lex_partial_sfx. Qed.
Lemma j_attrname : just (lex lex_attrname). Proof. apply just_lex, lex_attrname_sfx. Qed.
Lemma j_section_start : just (lex lex_section_start). Proof. apply just_lex, lex_section_start_sfx. Qed.
Lemma j_section_end : just (lex lex_section_end). Proof. apply just_lex, lex_section_end_sfx. Qed.
Lemma j_space : just p_space. Proof. apply just_lex, lex_space_sfx. Qed.
Lemma j_endline : just p_endline. Proof. apply just_lex, lex_endline_sfx. Qed.
Lemma j_atom : just p_atom. Proof. apply just_lex, lex_run_sfx. Qed.
Lemma j_quoted : just p_quoted. Proof. apply just_lex, lex_quoted_sfx. Qed.
Lemma j_objid : just p_objid. Proof. apply just_lex, lex_objid_sfx. Qed.
Hint Resolve j_lex_run j_lex_run_here j_lex_byte j_lex_byte_sp j_take_exact j_list_end j_seqnum
     j_optname j_not j_return j_sec_parts j_partial j_attrname j_section_start j_section_end
     j_space j_endline j_atom j_quoted j_objid just_literal : jdb.

Lemma j_opt_space : just p_opt_space. Proof. unfold p_opt_space. jds. Qed.
Lemma j_number : just p_number. Proof. unfold p_number. jds. Qed.
Lemma j_nil : just p_nil. Proof. unfold p_nil. jds. Qed.
Hint Resolve j_opt_space j_number j_nil : jdb.
Lemma j_string pr : just (p_string pr). Proof. unfold p_string. jds. Qed.
Hint Resolve j_string : jdb.
Lemma j_astring pr : just (p_astring pr). Proof. unfold p_astring. jds. Qed.
Hint Resolve j_astring : jdb.

Lemma j_list {A} limit (item : parser A) : just item -> just (p_list F limit item).
Proof.
  intro Hi. unfold p_list. apply just_bind; [jds|]. intros _. apply just_loop.
  intro acc. unfold list_step. jds.
Qed.
Ltac jd_plist ::= apply j_list.

Lemma j_seq_idx : just seq_idx. Proof. unfold seq_idx. jds. Qed.
Hint Resolve j_seq_idx : jdb.
Lemma j_seq_part : just seq_part. Proof. unfold seq_part. jds. Qed.
Hint Resolve j_seq_part : jdb.
Lemma j_seqset : just (p_seqset F).
Proof. unfold p_seqset. repeat (apply just_bind; [jds|intro]). apply just_loop. intro. unfold seq_tail_step. jds. Qed.
Hint Resolve j_seqset : jdb.
Lemma j_flag : just p_flag. Proof. unfold p_flag. jds. Qed.
Lemma j_datetime : just (p_datetime o). Proof. unfold p_datetime. jds. Qed.
Lemma j_status_attr : just p_status_attr. Proof. unfold p_status_attr. jds. Qed.
Lemma j_mailbox pr : just (p_mailbox pr). Proof. unfold p_mailbox. jds. Qed.
Hint Resolve j_flag j_datetime j_status_attr j_mailbox : jdb.

Lemma j_optlist d : forall pr, just (p_optlist F d pr).
Proof.
  induction d as [|d IH]; intro pr; cbn [p_optlist]; [apply just_raise|].
  apply just_bind; [|jds]. apply j_list. apply just_expected.
  constructor; [jds|]. constructor; [apply IH|constructor].
Qed.
Hint Resolve j_optlist : jdb.
Lemma j_ext_arg d pr : just (p_ext_arg F d pr). Proof. unfold p_ext_arg. jds. Qed.
Hint Resolve j_ext_arg : jdb.
Lemma j_ext_option d pr : just (p_ext_option F d pr). Proof. unfold p_ext_option. jds. Qed.
Hint Resolve j_ext_option : jdb.
Lemma j_ext_option_loop d pr n : just (loop F (ext_option_step F d pr) n).
Proof. apply just_loop. intro. unfold ext_option_step. jds. Qed.
Hint Resolve j_ext_option_loop : jdb.
Lemma j_ext_options d pr : just (p_ext_options F d pr). Proof. unfold p_ext_options. jds. Qed.
Hint Resolve j_ext_options : jdb.

Lemma j_section pr : just (p_section F pr).
Proof.
  unfold p_section. jds.
Qed.
Hint Resolve j_section : jdb.
Lemma j_fetch_att pr : just (p_fetch_att F pr). Proof. unfold p_fetch_att. jds. Qed.
Hint Resolve j_fetch_att : jdb.
Lemma j_astring_filter pr : just (p_astring_filter o pr). Proof. unfold p_astring_filter. jds. Qed.
Lemma j_date_filter : just (p_date_filter o). Proof. unfold p_date_filter. jds. Qed.
Hint Resolve j_astring_filter j_date_filter : jdb.

Lemma j_not_loop : just (loop F not_step tt).
Proof. apply just_loop. intro. unfold not_step. jds. Qed.
Hint Resolve j_not_loop : jdb.

Lemma j_search_key d : forall pr, just (p_search_key o F d pr).
Proof.
  induction d as [|d IH]; intro pr; cbn [p_search_key]; [apply just_raise|].
  apply just_bind; [jds|]. intros _. apply just_bind; [jds|]. intros _.
  apply just_bind; [jds|]. intros [|]; [jds|].
  apply just_bind.
  { apply just_try; [|jds]. apply just_bind; [|jds]. apply j_list. apply just_expected.
    constructor; [apply IH|constructor]. }
  intros [|]; [jds|].
  apply just_bind; [jds|]. intro a. cbv zeta.
  repeat match goal with |- just (if ?c then _ else _) => destruct c end; try jds.
Qed.
Hint Resolve j_search_key : jdb.

Lemma j_append_msg d pr : just (p_append_msg o F d pr).
Proof.
  unfold p_append_msg. apply just_bind; [jds|]. intros _.
  jds.
Qed.
Hint Resolve j_append_msg : jdb.

Lemma j_append_step d pr n : just (append_step o F d pr n).
Proof. unfold append_step. jds. Qed.
Lemma j_search_step d pr any : just (search_step o F d pr any).
Proof. unfold search_step. jds. Qed.
Lemma j_flag_loop_step u : just (flag_loop_step u).
Proof. unfold flag_loop_step. jds. Qed.
Hint Resolve j_append_step j_search_step j_flag_loop_step : jdb.
Lemma j_store_flags : just (p_store_flags F).
Proof. unfold p_store_flags. jds. Qed.
Lemma j_charset_arg pr : just (p_charset_arg o pr).
Proof. unfold p_charset_arg. jds. Qed.
Hint Resolve j_store_flags j_charset_arg : jdb.

Theorem j_args d pr k : just (p_args o F d pr k).
Proof.
  destruct k; cbn [p_args];
    unfold p_noargs, p_id, p_append, p_select, p_mailbox_arg, p_list_cmd, p_rename, p_status,
           p_authenticate, p_login, p_expunge, p_copy, p_fetch, p_store, p_search;
    jds.
Qed.

End Proofs.

(* Commands.parse: an interrupt points at a synchronizing literal that ends
   the line or one of the continuations *)
Lemma lex_word_sfx : suffixing lex_word.
Proof.
  intros b a b' E. unfold lex_word in E.
  destruct (lex_space b) as [[u b1]|] eqn:E1; [|discriminate]. apply lex_space_sfx in E1.
  destruct (lex_run atom_char b1) as [[x b2]|] eqn:E2; [|discriminate].
  apply lex_run_sfx in E2. inversion E; subst. eapply sfx_trans; eauto.
Qed.

Lemma run_args_interrupt o cfg k tag cs b fuel n :
  run_args o cfg k tag cs b fuel = OInterrupt n ->
  exists B, (B = b \/ In B cs) /\ ends_hdr B n.
Proof.
  unfold run_args. pose proof (j_args o fuel (c_depth cfg) (base_params cfg k) k cs b) as H.
  destruct (p_args o fuel (c_depth cfg) (base_params cfg k) k cs b); try discriminate.
  - intro E. inversion E; subst. exact H.
  - destruct x; discriminate.
Qed.

Theorem interrupt_justified o cfg line cs n :
  parse_command o cfg line cs = OInterrupt n ->
  exists B, In B (line :: cs) /\ ends_hdr B n.
Proof.
  unfold parse_command.
  destruct (lex_run tag_char line) as [[tag b1]|] eqn:E1; [|discriminate].
  apply lex_run_sfx in E1.
  destruct (lex_word b1) as [[w1 b2]|] eqn:E2; [|discriminate].
  apply lex_word_sfx in E2.
  assert (Hfin : forall b k, sfx b line ->
            run_args o cfg k tag cs b (S (mu line cs)) = OInterrupt n ->
            exists B, In B (line :: cs) /\ ends_hdr B n).
  { intros b k Hs E. apply run_args_interrupt in E. destruct E as (B & [->|Hin] & He).
    - exists line. split; [left; reflexivity|eapply ends_hdr_sfx; eauto].
    - exists B. split; [right; exact Hin|exact He]. }
  destruct (bytes_eqb w1 s_UID).
  - destruct (lex_word b2) as [[w2 b3]|] eqn:E3; [|discriminate].
    apply lex_word_sfx in E3.
    destruct (lookup w2 uid_table); [|discriminate].
    apply Hfin. eapply sfx_trans; [exact E3|]. eapply sfx_trans; eauto.
  - destruct (lookup w1 command_table); [|discriminate].
    apply Hfin. eapply sfx_trans; eauto.
Qed.
