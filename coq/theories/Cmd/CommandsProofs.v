(* Cmd/CommandsProofs.v — totality of Commands.parse, termination of the
   continuation re-parse loop, and "every line is answered" for the model of
   _run_state. *)
From PV Require Import Base.Prelude Base.Decimal Cmd.CLex Cmd.CLexProofs Cmd.Parser
     Cmd.ParserProofs Cmd.Utf7Ok Cmd.Grammar Cmd.GrammarProofs Cmd.Commands.
From Coq Require Import Lia.
Local Open Scope nat_scope.

Definition is_result (out : outcome) : Prop :=
  match out with
  | OCmd _ _ _ | OInvalid _ _ | OInterrupt _ => True
  | OExc _ | OFuel | OUnk => False
  end.

Lemma lex_word_shortens : shortens lex_word.
Proof.
  intros b a b' E. unfold lex_word in E.
  destruct (lex_space b) as [[u b1]|] eqn:E1; [|discriminate]. apply lex_space_shortens in E1.
  destruct (lex_run atom_char b1) as [[x b2]|] eqn:E2; [|discriminate].
  apply lex_run_shortens in E2. inversion E; subst. lia.
Qed.

Lemma run_args_result o cfg k tag cs b fuel :
  oracle_total o -> mu b cs < fuel -> is_result (run_args o cfg k tag cs b fuel).
Proof.
  intros Ho Hb. unfold run_args.
  pose proof (p_args_wgd o Ho fuel (c_depth cfg) (base_params cfg k) k cs b Hb) as H.
  destruct (p_args o fuel (c_depth cfg) (base_params cfg k) k cs b); try exact I; try contradiction.
  destruct x; exact I.
Qed.

Theorem parse_command_total o cfg line cs :
  oracle_total o -> is_result (parse_command o cfg line cs).
Proof.
  intro Ho. unfold parse_command.
  destruct (lex_run tag_char line) as [[tag b1]|] eqn:E1; [|exact I].
  apply lex_run_shortens in E1.
  destruct (lex_word b1) as [[w1 b2]|] eqn:E2; [|exact I].
  apply lex_word_shortens in E2.
  destruct (bytes_eqb w1 s_UID).
  - destruct (lex_word b2) as [[w2 b3]|] eqn:E3; [|exact I].
    apply lex_word_shortens in E3.
    destruct (lookup w2 uid_table); [|exact I].
    apply run_args_result; [exact Ho|]. unfold mu. lia.
  - destruct (lookup w1 command_table); [|exact I].
    apply run_args_result; [exact Ho|]. unfold mu. lia.
Qed.

(* the tag the answer carries: the line's tag, or "*" when it has none *)
Definition line_tag (line : bytes) : bytes :=
  match lex_run tag_char line with Some (t, _) => t | None => s_STAR_TAG end.

Definition outcome_tag_ok (t : bytes) (out : outcome) : Prop :=
  match out with
  | OCmd _ tag _ => tag = t
  | OInvalid tag _ => tag = t
  | _ => True
  end.

Lemma run_args_tag o cfg k tag cs b fuel : outcome_tag_ok tag (run_args o cfg k tag cs b fuel).
Proof.
  unfold run_args. destruct (p_args _ _ _ _ _ _ _); cbn; auto. destruct x; cbn; auto.
Qed.

Lemma parse_command_tag o cfg line cs :
  outcome_tag_ok (line_tag line) (parse_command o cfg line cs).
Proof.
  unfold parse_command, line_tag.
  destruct (lex_run tag_char line) as [[tag b1]|]; [|reflexivity].
  destruct (lex_word b1) as [[w1 b2]|]; [|reflexivity].
  destruct (bytes_eqb w1 s_UID).
  - destruct (lex_word b2) as [[w2 b3]|]; [|reflexivity].
    destruct (lookup w2 uid_table); [apply run_args_tag|reflexivity].
  - destruct (lookup w1 command_table); [apply run_args_tag|reflexivity].
Qed.

(* ------------------------------------------------------------ read_command *)
Definition rc_ok (line : bytes) (supplied : list bytes) (r : rc_result) : Prop :=
  match r with
  | RCDone out asked => asked <= length supplied /\ match out with OInterrupt _ => False | _ => True end
  | RCWaiting asked _ => asked = S (length supplied)
  | RCFuel => False
  end.

Lemma read_command_ok o cfg line supplied :
  forall fuel k, k <= length supplied -> length supplied - k < fuel ->
    rc_ok line supplied (read_command fuel o cfg line supplied k).
Proof.
  induction fuel as [|f IH]; intros k Hk Hf; [lia|]. cbn [read_command].
  destruct (parse_command o cfg line (firstn k supplied)) eqn:E;
    try (cbn [rc_ok]; split; [exact Hk|exact I]).
  destruct (Nat.ltb k (length supplied)) eqn:El.
  - apply PeanoNat.Nat.ltb_lt in El. apply IH; lia.
  - apply PeanoNat.Nat.ltb_ge in El. cbn [rc_ok]. lia.
Qed.

(* the loop of read_command runs at most once per continuation the client
   supplies, plus once *)
Theorem read_command_terminates o cfg line supplied :
  rc_ok line supplied (read_command (S (length supplied)) o cfg line supplied 0).
Proof. apply read_command_ok; lia. Qed.

(* every parse inside the loop is a result: the loop never sees an escaped
   exception *)
Lemma read_command_result o cfg line supplied : oracle_total o ->
  forall fuel k, match read_command fuel o cfg line supplied k with
                 | RCDone out _ => is_result out
                 | _ => True
                 end.
Proof.
  intro Ho. induction fuel as [|f IH]; intro k; cbn [read_command]; [exact I|].
  pose proof (parse_command_total o cfg line (firstn k supplied) Ho) as H.
  destruct (parse_command o cfg line (firstn k supplied)); try exact H; try contradiction.
  destruct (Nat.ltb k (length supplied)); [apply IH|exact I].
Qed.

Lemma read_command_tag o cfg line supplied :
  forall fuel k, match read_command fuel o cfg line supplied k with
                 | RCDone out _ => outcome_tag_ok (line_tag line) out
                 | _ => True
                 end.
Proof.
  induction fuel as [|f IH]; intro k; cbn [read_command]; [exact I|].
  pose proof (parse_command_tag o cfg line (firstn k supplied)) as H.
  destruct (parse_command o cfg line (firstn k supplied)); try exact H.
  destruct (Nat.ltb k (length supplied)); [apply IH|exact I].
Qed.

(* ------------------------------------------------------------------ respond *)
Definition is_serverbug (r : resp) : bool :=
  match r with RBye true => true | _ => false end.
Definition is_bye (r : resp) : bool := match r with RBye _ => true | _ => false end.
Definition is_close (r : resp) : bool := match r with RClose => true | _ => false end.
Definition is_partial (r : resp) : bool := match r with RPartial => true | _ => false end.
Definition tagged_with (t : bytes) (r : resp) : Prop := exists c, r = RTagged t c.

(* what the property statement asks of the responses to one line *)
Definition answered (t : bytes) (rs : list resp) : Prop :=
  (* no internal-error BYE, no truncated response *)
  existsb is_serverbug rs = false /\ existsb is_partial rs = false /\
  (* a close only after a BYE *)
  (existsb is_close rs = true -> existsb is_bye rs = true) /\
  (* a tagged completion for the line's tag, or the server is waiting for the
     continuation data it asked for *)
  ((exists r, In r rs /\ tagged_with t r) \/
   (rs <> [] /\ Forall (fun r => r = RContinuation) rs)).

(* the contract of a command body: it returns a response or raises one of the
   exceptions _run_state maps to a tagged response *)
Definition exec_ok (exec : ckind -> exec_result) : Prop :=
  forall k, exec k <> EOther /\ exec k <> EWriteOther.

Lemma Forall_repeat_cont n : Forall (fun r => r = RContinuation) (repeat RContinuation n).
Proof. induction n; cbn [repeat]; constructor; auto. Qed.

Lemma answered_app_conts n t rs :
  answered t rs -> answered t (repeat RContinuation n ++ rs).
Proof.
  intros (H1 & H2 & H3 & H4). unfold answered.
  assert (Hs : forall f, f RContinuation = false ->
                         existsb f (repeat RContinuation n ++ rs) = existsb f rs).
  { intros f Hf. rewrite existsb_app. induction n as [|n IH]; cbn [repeat existsb]; [reflexivity|].
    rewrite Hf. exact IH. }
  rewrite !Hs by reflexivity. split; [exact H1|]. split; [exact H2|]. split; [exact H3|].
  destruct H4 as [(r & Hr & Ht)|[Hne Hall]].
  - left. exists r. split; [apply in_or_app; right; exact Hr|exact Ht].
  - right. split.
    + destruct rs; [congruence|]. destruct n; cbn; discriminate.
    + apply Forall_app. split; [apply Forall_repeat_cont|exact Hall].
Qed.

Lemma respond_cmd_answered st bad exec out t :
  exec_ok exec -> is_result out -> outcome_tag_ok t out ->
  match out with OInterrupt _ => False | _ => True end ->
  answered t (fst (respond_cmd st bad exec out)).
Proof.
  intros He Hr Ht Hni. unfold respond_cmd.
  assert (Hbad : forall tag, tag = t ->
            answered t (fst (if Nat.leb BAD_LIMIT (S bad)
                             then ([RBye false; RTagged tag BAD; RClose], S bad)
                             else ([RTagged tag BAD], S bad)))).
  { intros tag ->. destruct (Nat.leb BAD_LIMIT (S bad)); cbn [fst]; unfold answered; cbn;
      repeat split; auto; left; eexists; (split; [|eexists; reflexivity]); cbn; auto. }
  destruct out as [k tag aux|tag r|n|x| |]; cbn in Hr, Ht, Hni; try contradiction.
  - destruct (refused st k); [apply Hbad; exact Ht|].
    destruct (He k) as [He1 He2]. subst tag.
    destruct (exec k) as [c|c term| | |c| |]; try congruence.
    + destruct c; try (apply Hbad; reflexivity);
        cbn [fst]; unfold answered; cbn; repeat split; auto;
        left; eexists; (split; [|eexists; reflexivity]); cbn; auto.
    + destruct term; cbn [fst]; unfold answered; cbn; repeat split; auto;
        left; eexists; (split; [|eexists; reflexivity]); cbn; auto.
    + cbn [fst]; unfold answered; cbn; repeat split; auto;
        left; eexists; (split; [|eexists; reflexivity]); cbn; auto.
    + cbn [fst]; unfold answered; cbn; repeat split; auto;
        left; eexists; (split; [|eexists; reflexivity]); cbn; auto.
    + cbn [fst]; unfold answered; cbn; repeat split; auto;
        left; eexists; (split; [|eexists; reflexivity]); cbn; auto.
  - apply Hbad; exact Ht.
Qed.

Theorem respond_answered o cfg st bad exec line supplied :
  oracle_total o -> exec_ok exec ->
  answered (line_tag line) (fst (respond o cfg st bad exec line supplied)).
Proof.
  intros Ho He. unfold respond.
  pose proof (read_command_terminates o cfg line supplied) as Hok.
  pose proof (read_command_result o cfg line supplied Ho (S (length supplied)) 0) as Hres.
  pose proof (read_command_tag o cfg line supplied (S (length supplied)) 0) as Htag.
  destruct (read_command (S (length supplied)) o cfg line supplied 0) as [out asked|asked n|].
  - destruct Hok as [_ Hni].
    pose proof (respond_cmd_answered st bad exec out (line_tag line) He Hres Htag Hni) as H.
    destruct (respond_cmd st bad exec out) as [rs bad'] eqn:E. cbn [fst] in *.
    apply answered_app_conts. exact H.
  - cbn [fst]. cbn [rc_ok] in Hok. subst asked. unfold answered.
    assert (Hs : forall f, f RContinuation = false ->
                           existsb f (repeat RContinuation (S (length supplied))) = false).
    { intros f Hf. induction (S (length supplied)) as [|m IH]; cbn [repeat existsb]; [reflexivity|].
      rewrite Hf. exact IH. }
    rewrite !Hs by reflexivity. repeat split; auto; try discriminate.
    right. split; [cbn; discriminate|]. apply Forall_repeat_cont.
  - contradiction.
Qed.

(* Without the contract the statement fails: a command body that raises
   something else is answered with the internal-error BYE ... *)
Theorem respond_unanswered_other :
  exists o cfg st bad exec line supplied,
    oracle_total o /\
    existsb is_serverbug (fst (respond o cfg st bad exec line supplied)) = true.
Proof.
  exists (fun _ _ => 0%N), {| c_max_append := None; c_depth := 10 |}, NotAuth, 0,
         (fun _ => EOther), [97; 32; 78; 79; 79; 80; 13; 10]%N, [].
  split; [intros k v; left; reflexivity|]. vm_compute. reflexivity.
Qed.

(* ... and so is one whose response cannot be produced for another reason
   than a ResponseError (before f39c4ca such a failure closed the connection
   with neither tagged completion nor BYE: finding C06-F9). *)
Theorem respond_unanswered_write_failure :
  exists o cfg st bad exec line supplied,
    oracle_total o /\
    let rs := fst (respond o cfg st bad exec line supplied) in
    existsb is_serverbug rs = true /\
    ~ (exists r, In r rs /\ tagged_with (line_tag line) r).
Proof.
  exists (fun _ _ => 0%N), {| c_max_append := None; c_depth := 10 |}, NotAuth, 0,
         (fun _ => EWriteOther), [97; 32; 78; 79; 79; 80; 13; 10]%N, [].
  split; [intros k v; left; reflexivity|]. vm_compute. split; auto.
  intros (r & Hr & (c & ->)). destruct Hr as [Hr|[Hr|[]]]; discriminate.
Qed.

(* The guard of Commands.parse is needed: the argument parsers do raise. *)
Theorem args_raise_value_error :
  exists line, p_args (fun _ _ => 0%N) 100 10
                 {| pa_append := false; pa_max_append := None; pa_allow_cont := true;
                    pa_uid := false; pa_charset := None |} KSearch [] line = PExc XValue.
Proof.
  (* " SUBJECT \"\xff\"\r\n" *)
  exists [32; 83; 85; 66; 74; 69; 67; 84; 32; 34; 255; 34; 13; 10]%N. vm_compute. reflexivity.
Qed.

Theorem args_raise_recursion_error :
  exists line, p_args (fun _ _ => 0%N) 100 2
                 {| pa_append := false; pa_max_append := None; pa_allow_cont := true;
                    pa_uid := false; pa_charset := None |} KSearch [] line = PExc XRecursion.
Proof.
  (* " (((ALL)))\r\n" with room for two levels *)
  exists [32; 40; 40; 40; 65; 76; 76; 41; 41; 41; 13; 10]%N. vm_compute. reflexivity.
Qed.

(* ------------------------------------------------------------------- sieve *)
Lemma ps_args_wgd utf8_ok F k : wgd F (ps_args utf8_ok k).
Proof.
  assert (Hn : forall ae, sgd F (ps_script_name utf8_ok ae)).
  { intro ae. unfold ps_script_name.
    apply gd_bind_l; [apply p_string_sgd|]. intro v. gds. }
  destruct k; cbn [ps_args]; try (apply sgd_gd, p_endline_sgd).
  - (* NOOP *)
    apply gd_bind_r; [gds|]. intro b. apply gd_bind_r.
    + destruct (head_is SP b); [|gds]. apply gd_bind_r; [apply sgd_gd, p_space_sgd|]. intros _.
      apply gd_try; [apply gd_bind_r; [apply sgd_gd, p_string_sgd|gds]|gds].
    + intros _. apply sgd_gd, p_endline_sgd.
  - apply gd_bind_r; [apply sgd_gd, p_quoted_sgd|]. intros _.
    apply gd_try; [apply gd_bind_r; [apply sgd_gd, p_string_sgd|gds]|gds].
  - apply gd_bind_r; [apply sgd_gd, Hn|]. intros _.
    apply gd_bind_r; [apply sgd_gd, p_number_sgd|]. intros _. apply sgd_gd, p_endline_sgd.
  - apply gd_bind_r; [apply sgd_gd, Hn|]. intros _.
    apply gd_bind_r; [apply sgd_gd, p_string_sgd|]. intros _. apply sgd_gd, p_endline_sgd.
  - apply gd_bind_r; [apply sgd_gd, Hn|]. intros _. apply sgd_gd, p_endline_sgd.
  - apply gd_bind_r; [apply sgd_gd, Hn|]. intros _. apply sgd_gd, p_endline_sgd.
  - apply gd_bind_r; [apply sgd_gd, Hn|]. intros _. apply sgd_gd, p_endline_sgd.
  - apply gd_bind_r; [apply sgd_gd, Hn|]. intros _.
    apply gd_bind_r; [apply sgd_gd, Hn|]. intros _. apply sgd_gd, p_endline_sgd.
  - apply gd_bind_r; [apply sgd_gd, p_string_sgd|]. intros _. apply sgd_gd, p_endline_sgd.
Qed.

Theorem sieve_parse_total utf8_ok line :
  match sieve_parse utf8_ok line with SOk _ | SBad => True | _ => False end.
Proof.
  unfold sieve_parse. destruct (lex_run atom_char line) as [[name b1]|] eqn:E1; [|exact I].
  apply lex_run_shortens in E1.
  destruct (lookup (upper name) sieve_table) as [k|]; [|exact I].
  pose proof (ps_args_wgd utf8_ok (S (length b1)) k [] b1) as H.
  unfold mu in H. cbn [cmu] in H. specialize (H ltac:(lia)).
  destruct (ps_args utf8_ok k [] b1); try exact I; contradiction.
Qed.
