(* Cmd/FramingLimitProofs.v — facts about Cmd/FramingLimit.v *)
From PV Require Import Base.Prelude Base.Decimal Cmd.CLex Cmd.Framing Cmd.FramingProofs
  Cmd.FramingLimit.
From Coq Require Import Lia.
Local Open Scope N_scope.

(* ---------------------------------------------------------------- all {n+} *)
(* whatever the configuration: a command whose literals are all {n+} costs no
   continuation request and leaves exactly what readline leaves; it is refused
   iff one of its literals is over the limit *)
Definition any_too_big (c : fconfig) (app : bool) (lits : list (lspell * N)) : bool :=
  existsb (fun x => lit_too_big c app (snd x)) lits.

Lemma serve_lits_plus c app lits : forall r nreq,
  Forall (fun x : lspell * N => fst x = LPlus) lits ->
  serve_lits c app lits r nreq
  = Some ((if any_too_big c app lits then LTooBig else LAccept), nreq, r).
Proof.
  induction lits as [|[sp n] more IH]; intros r nreq HF; cbn [serve_lits any_too_big existsb].
  - reflexivity.
  - inversion HF as [|x l Hx Hl]; subst. cbn [fst] in Hx. subst sp. cbn [snd].
    destruct (lit_too_big c app n); cbn [orb]; [reflexivity|].
    apply IH; assumption.
Qed.

Theorem litplus_consumed_any_limit c app lits s u r :
  Forall (fun x : lspell * N => fst x = LPlus) lits ->
  read_unit 0 s = Some (u, r) ->
  serve_command c app lits s
  = Some ((if any_too_big c app lits then LTooBig else LAccept), 0, r).
Proof.
  intros HF E. unfold serve_command. rewrite E. apply serve_lits_plus; assumption.
Qed.

(* ------------------------------------------------------- one line, one literal *)
Lemma split_line_nolf l r : no_lf l = true -> split_line (l ++ LF :: r) = Some (l ++ [LF], r).
Proof.
  induction l as [|c t IH]; intro H; cbn [app split_line].
  - rewrite N.eqb_refl. reflexivity.
  - unfold no_lf in H. cbn [forallb] in H. apply andb_prop in H as [H1 H2].
    destruct (c =? LF); [discriminate H1|].
    rewrite (IH H2). reflexivity.
Qed.

Lemma no_lf_app a b : no_lf (a ++ b) = no_lf a && no_lf b.
Proof. unfold no_lf. apply forallb_app. Qed.

Lemma digits_no_lf ds : forallb is_digit ds = true -> no_lf ds = true.
Proof.
  induction ds as [|d t IH]; intro H; [reflexivity|].
  cbn [forallb] in H. apply andb_prop in H as [H1 H2].
  unfold no_lf. cbn [forallb]. fold (no_lf t). rewrite (IH H2), Bool.andb_true_r.
  destruct (N.eqb_spec d LF) as [->|_]; [discriminate H1|reflexivity].
Qed.

Lemma span_all p l c r :
  forallb p l = true -> p c = false -> span p (l ++ c :: r) = (l, c :: r).
Proof.
  induction l as [|a t IH]; intros H Hc; cbn [app span].
  - rewrite Hc. reflexivity.
  - cbn [forallb] in H. apply andb_prop in H as [H1 H2].
    rewrite H1, (IH H2 Hc). reflexivity.
Qed.

Lemma forallb_rev (p : N -> bool) l : forallb p l = true -> forallb p (rev l) = true.
Proof.
  intro H. apply forallb_forall. intros x Hx. apply in_rev in Hx.
  revert x Hx. apply forallb_forall. exact H.
Qed.

Lemma rev_nonnil (l : bytes) : l <> [] -> exists d t, rev l = d :: t.
Proof.
  intro H. destruct (rev l) as [|d t] eqn:E.
  - exfalso. apply H. rewrite <- (rev_involutive l), E. reflexivity.
  - eauto.
Qed.

(* the line  head {ds+} CR LF  announces a non-synchronizing literal *)
Lemma marker_plus_found head ds :
  ds <> [] -> forallb is_digit ds = true ->
  lit_plus_marker (head ++ [LBRACE] ++ ds ++ [PLUS; RBRACE; CR; LF]) = Some ds.
Proof.
  intros Hne Hd. unfold lit_plus_marker.
  replace (rev (head ++ [LBRACE] ++ ds ++ [PLUS; RBRACE; CR; LF]))
    with (LF :: CR :: RBRACE :: PLUS :: rev ds ++ LBRACE :: rev head).
  2:{ rewrite !rev_app_distr. simpl. rewrite <- !app_assoc. simpl. reflexivity. }
  assert (Hs : span is_digit (rev ds ++ LBRACE :: rev head) = (rev ds, LBRACE :: rev head)).
  { apply span_all; [apply forallb_rev; exact Hd|reflexivity]. }
  rewrite (N.eqb_refl LF), (N.eqb_refl CR), (N.eqb_refl RBRACE), (N.eqb_refl PLUS).
  cbn [andb]. rewrite Hs.
  destruct (rev_nonnil ds Hne) as [d [t E]]. rewrite E.
  rewrite (N.eqb_refl LBRACE). rewrite <- E, rev_involutive. reflexivity.
Qed.

(* the line  head {ds} CR LF  does not *)
Lemma marker_sync_none head ds :
  ds <> [] -> forallb is_digit ds = true ->
  lit_plus_marker (head ++ [LBRACE] ++ ds ++ [RBRACE; CR; LF]) = None.
Proof.
  intros Hne Hd. unfold lit_plus_marker.
  replace (rev (head ++ [LBRACE] ++ ds ++ [RBRACE; CR; LF]))
    with (LF :: CR :: RBRACE :: rev ds ++ LBRACE :: rev head).
  2:{ rewrite !rev_app_distr. simpl. rewrite <- !app_assoc. simpl. reflexivity. }
  destruct (rev_nonnil ds Hne) as [d [t E]]. rewrite E.
  assert (Hdig : is_digit d = true).
  { pose proof (forallb_rev is_digit ds Hd) as H. rewrite E in H. cbn [forallb] in H.
    apply andb_prop in H as [H _]. exact H. }
  rewrite (N.eqb_refl LF), (N.eqb_refl CR), (N.eqb_refl RBRACE). cbn [app andb].
  destruct (N.eqb_spec d PLUS) as [->|_]; [discriminate Hdig|reflexivity].
Qed.

Lemma digits_value_dec n : digits_value (dec_of_N n) = n.
Proof.
  unfold digits_value, dec_of_N.
  rewrite <- (app_nil_r (uint_bytes (N.to_uint n))).
  rewrite span_digits_print by reflexivity. cbn [fst].
  apply DecimalN.Unsigned.of_to.
Qed.

Lemma take_exact_app_exact n d r :
  N.of_nat (length d) = n -> take_exact n (d ++ r) = Some (d, r).
Proof.
  intro H. unfold take_exact. rewrite app_length.
  destruct (N.leb_spec n (N.of_nat (length d + length r))) as [_|L]; [|lia].
  subst n. rewrite Nnat.Nat2N.id, firstn_app, skipn_app, Nat.sub_diag, firstn_all, skipn_all.
  cbn [firstn skipn app]. rewrite app_nil_r. reflexivity.
Qed.

Lemma take_exact_zero s : take_exact 0 s = Some ([], s).
Proof. exact (take_exact_app_exact 0 [] s eq_refl). Qed.

(* a line without marker is one unit *)
Lemma rlg_plain fuel l r :
  no_lf l = true -> lit_plus_marker (l ++ [LF]) = None ->
  read_line_glued (S fuel) (l ++ LF :: r) = Some (l ++ [LF], r).
Proof.
  intros H1 H2. cbn [read_line_glued]. rewrite (split_line_nolf _ _ H1), H2. reflexivity.
Qed.

Lemma rlg_any_fuel f s v : read_line_glued (S (length s)) s = v -> (length s < f)%nat ->
  read_line_glued f s = v.
Proof. intros E L. rewrite <- E. apply read_line_glued_fuel; lia. Qed.

Definition tail_ok (tail : bytes) : Prop :=
  no_lf tail = true /\ lit_plus_marker (tail ++ [CR; LF]) = None.

Lemma read_tail fuel tail next : tail_ok tail ->
  read_line_glued (S fuel) (tail ++ [CR; LF] ++ next) = Some (tail ++ [CR; LF], next).
Proof.
  intros [H1 H2].
  replace (tail ++ [CR; LF] ++ next) with ((tail ++ [CR]) ++ LF :: next)
    by (rewrite <- app_assoc; reflexivity).
  replace (tail ++ [CR; LF]) with ((tail ++ [CR]) ++ [LF]) in *
    by (rewrite <- app_assoc; reflexivity).
  apply rlg_plain; [|exact H2].
  rewrite no_lf_app, H1. reflexivity.
Qed.

(* {n+}: the whole of  head {n+} CRLF data tail CRLF  is one unit of readline,
   whatever n is *)
Lemma read_unit_plus head n data tail next :
  no_lf head = true -> tail_ok tail -> N.of_nat (length data) = n ->
  too_many_digits (dec_of_N n) = false ->
  read_unit 0 (wire_plus head n data tail next)
  = Some (head ++ lit_marker LPlus n ++ data ++ tail ++ [CR; LF], next).
Proof.
  intros Hh Ht Hn Hd. unfold read_unit. rewrite take_exact_zero. cbn [app].
  set (l := head ++ [LBRACE] ++ dec_of_N n ++ [PLUS; RBRACE; CR]).
  assert (Ew : wire_plus head n data tail next = l ++ LF :: (data ++ tail ++ [CR; LF] ++ next)).
  { unfold wire_plus, lit_marker, l. rewrite <- !app_assoc. cbn [app]. reflexivity. }
  assert (El : l ++ [LF] = head ++ [LBRACE] ++ dec_of_N n ++ [PLUS; RBRACE; CR; LF]).
  { unfold l. rewrite <- !app_assoc. cbn [app]. reflexivity. }
  assert (Hl : no_lf l = true).
  { unfold l. rewrite !no_lf_app, Hh, (digits_no_lf _ (dec_of_N_digits n)). reflexivity. }
  rewrite Ew. cbn [read_line_glued].
  rewrite (split_line_nolf _ _ Hl), El,
    (marker_plus_found head (dec_of_N n) (dec_of_N_nonempty n) (dec_of_N_digits n)), Hd,
    digits_value_dec, (take_exact_app_exact n data _ Hn).
  rewrite (rlg_any_fuel _ _ _ (read_tail _ tail next Ht)).
  2:{ repeat (rewrite app_length || cbn [length]). lia. }
  unfold lit_marker. subst l. rewrite <- !app_assoc. cbn [app]. reflexivity.
Qed.

(* {n}: the line alone is a unit; the continuation is the data and the rest of the line *)
Lemma read_unit_sync_line head n rest :
  no_lf head = true ->
  read_unit 0 (head ++ lit_marker LSync n ++ rest) = Some (head ++ lit_marker LSync n, rest).
Proof.
  intros Hh. unfold read_unit. rewrite take_exact_zero. cbn [app].
  set (l := head ++ [LBRACE] ++ dec_of_N n ++ [RBRACE; CR]).
  assert (Ew : head ++ lit_marker LSync n ++ rest = l ++ LF :: rest).
  { unfold lit_marker, l. rewrite <- !app_assoc. cbn [app]. reflexivity. }
  assert (El : l ++ [LF] = head ++ lit_marker LSync n).
  { unfold lit_marker, l. rewrite <- !app_assoc. cbn [app]. reflexivity. }
  assert (Hl : no_lf l = true).
  { unfold l. rewrite !no_lf_app, Hh, (digits_no_lf _ (dec_of_N_digits n)). reflexivity. }
  rewrite Ew, (rlg_plain _ l rest Hl).
  - rewrite El. reflexivity.
  - rewrite El. unfold lit_marker. cbn [app].
    apply (marker_sync_none head (dec_of_N n) (dec_of_N_nonempty n) (dec_of_N_digits n)).
Qed.

Lemma read_unit_continuation n data tail next :
  tail_ok tail -> N.of_nat (length data) = n ->
  read_unit n (data ++ tail ++ [CR; LF] ++ next) = Some (data ++ tail ++ [CR; LF], next).
Proof.
  intros Ht Hn. unfold read_unit. rewrite (take_exact_app_exact n data _ Hn).
  rewrite (read_tail _ tail next Ht). reflexivity.
Qed.

(* The statement.  For every configuration (every max_append_len, also none),
   APPEND or not, every n: the {n+} spelling is consumed whole - line, n bytes,
   rest of the line - and the next command starts at [next]; the answer class
   is the one of the limit, the same as for the {n} spelling sent by a client
   that waits for the continuation request; after either, the server reads
   [next]. *)
Theorem literal_limit_spelling c app head n data tail next :
  no_lf head = true -> tail_ok tail -> N.of_nat (length data) = n ->
  too_many_digits (dec_of_N n) = false ->
  serve_command c app [(LPlus, n)] (wire_plus head n data tail next)
    = Some (lit_class c app n, 0, next) /\
  serve_command c app [(LSync, n)] (wire_sync c app head n data tail next)
    = Some (lit_class c app n, (if lit_too_big c app n then 0 else 1), next).
Proof.
  intros Hh Ht Hn Hd. split.
  - unfold serve_command. rewrite (read_unit_plus head n data tail next Hh Ht Hn Hd).
    cbn [serve_lits]. unfold lit_class. destruct (lit_too_big c app n); reflexivity.
  - unfold serve_command, wire_sync, lit_class.
    destruct (lit_too_big c app n) eqn:Eb.
    + rewrite (read_unit_sync_line head n next Hh). cbn [serve_lits]. rewrite Eb. reflexivity.
    + rewrite (read_unit_sync_line head n _ Hh). cbn [serve_lits]. rewrite Eb.
      rewrite (read_unit_continuation n data tail next Ht Hn). reflexivity.
Qed.

(* the limits of the configurations used by the correspondence *)
Lemma lit_class_boundary c app m :
  lit_limit c app = Some m ->
  lit_class c app m = LAccept /\ lit_class c app (m + 1) = LTooBig.
Proof.
  intro H. unfold lit_class, lit_too_big. rewrite H.
  rewrite N.ltb_irrefl. destruct (N.ltb_spec m (m + 1)) as [_|L]; [split; reflexivity|lia].
Qed.
