(* Cmd/Utf7Ok.v — does pymap.parsing.modutf7.modutf7_decode (as fixed: an
   unterminated shift is decoded to the end) accept a byte string, or raise
   UnicodeDecodeError?  The shift sequences go through CPython's 'utf-7'
   codec as  b'+' + seg.replace(b',', b'/') + b'-' ; [utf7_run] is that
   decoder's validity automaton (Objects/unicodeobject.c,
   PyUnicode_DecodeUTF7Stateful, errors='strict').  Definitions only. *)
From PV Require Import Base.Prelude Base.Decimal Cmd.CLex.
Local Open Scope N_scope.

Definition b64val (c : N) : option N :=
  if in_range 65 90 c then Some (c - 65)
  else if in_range 97 122 c then Some (c - 71)
  else if in_range 48 57 c then Some (c + 4)
  else if c =? 43 then Some 62
  else if c =? 47 then Some 63
  else None.

(* inshift, number of pending bits, their value *)
Fixpoint utf7_run (inshift : bool) (bits buf : N) (s : bytes) : bool :=
  match s with
  | [] => negb inshift
  | c :: r =>
    if inshift then
      match b64val c with
      | Some v =>
        let buf' := buf * 64 + v in
        let bits' := bits + 6 in
        if 16 <=? bits'
        then utf7_run true (bits' - 16) (buf' mod (2 ^ (bits' - 16))) r
        else utf7_run true bits' buf' r
      | None =>
        (* leaving the base-64 section *)
        if 6 <=? bits then false                       (* partial character *)
        else if (0 <? bits) && negb (buf =? 0) then false   (* non-zero padding bits *)
        else if c =? MINUS then utf7_run false 0 0 r   (* '-' is absorbed *)
        else if c <=? 127 then utf7_run false 0 0 r    (* decodes as itself *)
        else false                                     (* unexpected special character *)
      end
    else if c =? PLUS then
      match r with
      | d :: r' =>
        if d =? MINUS then utf7_run false 0 0 r'       (* "+-" is '+' *)
        else match b64val d with
             | Some _ => utf7_run true 0 0 r
             | None => false                            (* ill-formed sequence *)
             end
      | [] => true
      end
    else if c <=? 127 then utf7_run false 0 0 r
    else false
  end.

Definition comma_to_slash (c : N) : N := if c =? COMMA then SLASH else c.
(* _modified_b64decode(seg) does not raise *)
Definition utf7_seg_ok (seg : bytes) : bool :=
  utf7_run false 0 0 (PLUS :: map comma_to_slash seg ++ [MINUS]).

(* modutf7_decode(data) does not raise; [seg] = Some s while inside a shift
   sequence (s = its bytes so far, reversed) *)
Fixpoint modutf7_scan (data : bytes) (seg : option bytes) : bool :=
  match data with
  | [] => match seg with None => true | Some s => utf7_seg_ok (rev s) end
  | c :: r =>
    match seg with
    | None =>
      if c =? AMP then
        match r with
        | d :: r' => if d =? MINUS then modutf7_scan r' None else modutf7_scan r (Some [])
        | [] => modutf7_scan r (Some [])
        end
      else modutf7_scan r None
    | Some s =>
      if c =? MINUS then utf7_seg_ok (rev s) && modutf7_scan r None
      else modutf7_scan r (Some (c :: s))
    end
  end.
Definition modutf7_ok (data : bytes) : bool := modutf7_scan data None.
