(* Cmd/CLexProofs.v — every recogniser of Cmd/CLex.v returns a suffix of its
   input; the ones that succeed only on a non-empty match return a strictly
   shorter one. *)
From PV Require Import Base.Prelude Base.Decimal Cmd.CLex.
From Coq Require Import Lia.
Local Open Scope N_scope.

(* f shortens (strictly) *)
Definition shortens {A} (f : bytes -> option (A * bytes)) : Prop :=
  forall b a b', f b = Some (a, b') -> (length b' < length b)%nat.
Definition no_longer {A} (f : bytes -> option (A * bytes)) : Prop :=
  forall b a b', f b = Some (a, b') -> (length b' <= length b)%nat.

Lemma shortens_no_longer {A} (f : bytes -> option (A * bytes)) : shortens f -> no_longer f.
Proof. intros H b a b' E. apply H in E. lia. Qed.

Lemma skip_sp_len b : (length (skip_sp b) <= length b)%nat.
Proof.
  induction b as [|c r IH]; cbn [skip_sp]; [lia|].
  destruct (c =? SP); cbn [length]; lia.
Qed.

Lemma span_len p b x y : span p b = (x, y) -> (length x + length y = length b)%nat.
Proof.
  revert x y; induction b as [|c r IH]; intros x y E; cbn [span] in E.
  - inversion E; reflexivity.
  - destruct (p c).
    + destruct (span p r) as [x' y'] eqn:E'. inversion E; subst.
      specialize (IH _ _ eq_refl). cbn [length]. lia.
    + inversion E; subst. cbn [length]. lia.
Qed.

Lemma span_max_len p k b x y : span_max p k b = (x, y) -> (length x + length y = length b)%nat.
Proof.
  revert b x y; induction k as [|k IH]; intros b x y E; cbn [span_max] in E.
  - inversion E; reflexivity.
  - destruct b as [|c r]; [inversion E; reflexivity|].
    destruct (p c).
    + destruct (span_max p k r) as [x' y'] eqn:E'. inversion E; subst.
      specialize (IH _ _ _ E'). cbn [length]. lia.
    + inversion E; subst. cbn [length]. lia.
Qed.

Lemma lex_space_shortens : shortens lex_space.
Proof.
  intros [|c r] a b' E; cbn [lex_space] in E; [discriminate|].
  destruct (c =? SP); [|discriminate]. inversion E; subst.
  pose proof (skip_sp_len r). cbn [length]. lia.
Qed.

Lemma lex_byte_shortens c : shortens (lex_byte c).
Proof.
  intros [|x r] a b' E; cbn [lex_byte] in E; [discriminate|].
  destruct (x =? c); [|discriminate]. inversion E; subst. cbn [length]. lia.
Qed.

Lemma lex_byte_sp_shortens c : shortens (lex_byte_sp c).
Proof.
  intros b a b' E. unfold lex_byte_sp in E. apply lex_byte_shortens in E.
  pose proof (skip_sp_len b). lia.
Qed.

Lemma lex_opt_byte_len c b f r : lex_opt_byte c b = (f, r) -> (length r <= length b)%nat.
Proof.
  destruct b as [|x t]; cbn [lex_opt_byte]; intro E.
  - inversion E; subst; lia.
  - destruct (x =? c); inversion E; subst; cbn [length]; lia.
Qed.

Lemma lex_endline_shortens : shortens lex_endline.
Proof.
  intros b a b' E. unfold lex_endline in E. pose proof (skip_sp_len b) as H.
  destruct (skip_sp b) as [|c r]; [discriminate|]. cbn [length] in H.
  destruct (c =? LF).
  - inversion E; subst. lia.
  - destruct (c =? CR); [|discriminate]. destruct r as [|c2 r2]; [discriminate|].
    destruct (c2 =? LF); [|discriminate]. inversion E; subst. cbn [length] in H. lia.
Qed.

Lemma lex_run_here_shortens p : shortens (lex_run_here p).
Proof.
  intros b a b' E. unfold lex_run_here in E.
  destruct (span p b) as [x y] eqn:Es. apply span_len in Es.
  destruct x as [|c x']; [discriminate|]. inversion E; subst. cbn [length] in Es. lia.
Qed.

Lemma lex_run_shortens p : shortens (lex_run p).
Proof.
  intros b a b' E. unfold lex_run in E. pose proof (skip_sp_len b).
  destruct (span p (skip_sp b)) as [x y] eqn:Es. apply span_len in Es.
  destruct x as [|c x']; [discriminate|]. inversion E; subst. cbn [length] in Es. lia.
Qed.

Lemma quoted_body_len b : forall acc v r, quoted_body b acc = Some (v, r) -> (length r < length b)%nat.
Proof.
  remember (length b) as n eqn:Hn. revert b Hn.
  induction n as [n IH] using lt_wf_ind. intros b Hn acc v r E.
  destruct b as [|c t]; cbn [quoted_body] in E; [discriminate|]. cbn [length] in Hn.
  destruct (c =? DQUOTE).
  { inversion E; subst. cbn [length]. lia. }
  destruct ((c =? CR) || (c =? LF)); [discriminate|].
  destruct (c =? BSLASH).
  - destruct t as [|e t']; [discriminate|].
    destruct ((e =? BSLASH) || (e =? DQUOTE)); [|discriminate].
    cbn [length] in Hn. eapply (IH (length t')) in E; [|lia|reflexivity]. cbn [length]. lia.
  - eapply (IH (length t)) in E; [|lia|reflexivity]. cbn [length]. lia.
Qed.

Lemma lex_quoted_shortens : shortens lex_quoted.
Proof.
  intros b a b' E. unfold lex_quoted in E. pose proof (skip_sp_len b) as H.
  destruct (skip_sp b) as [|c r]; [discriminate|]. cbn [length] in H.
  destruct (c =? DQUOTE); [|discriminate]. apply quoted_body_len in E. lia.
Qed.

Lemma lex_literal_hdr_shortens : shortens lex_literal_hdr.
Proof.
  intros b a b' E. unfold lex_literal_hdr in E. pose proof (skip_sp_len b) as H0.
  destruct (lex_opt_byte TILDE (skip_sp b)) as [bin b1] eqn:E1. apply lex_opt_byte_len in E1.
  destruct (lex_byte LBRACE b1) as [[u b2]|] eqn:E2; [|discriminate]. apply lex_byte_shortens in E2.
  destruct (span is_digit b2) as [ds b3] eqn:E3. apply span_len in E3.
  destruct ds as [|d0 ds']; [discriminate|].
  destruct (lex_opt_byte PLUS b3) as [plus b4] eqn:E4. apply lex_opt_byte_len in E4.
  destruct (lex_byte RBRACE b4) as [[u5 b5]|] eqn:E5; [|discriminate]. apply lex_byte_shortens in E5.
  destruct (lex_opt_byte CR b5) as [cr b6] eqn:E6. apply lex_opt_byte_len in E6.
  destruct (lex_byte LF b6) as [[u7 b7]|] eqn:E7; [|discriminate]. apply lex_byte_shortens in E7.
  inversion E; subst. lia.
Qed.

Lemma take_exact_no_longer n : no_longer (take_exact n).
Proof.
  intros b a b' E. unfold take_exact in E.
  destruct (n <=? N.of_nat (length b)); [|discriminate]. inversion E; subst.
  rewrite skipn_length. lia.
Qed.

Lemma lex_objid_shortens : shortens lex_objid.
Proof.
  intros b a b' E. unfold lex_objid in E. pose proof (skip_sp_len b).
  destruct (span_max objid_char 255 (skip_sp b)) as [x y] eqn:Es. apply span_max_len in Es.
  destruct x as [|c x']; [discriminate|]. inversion E; subst. cbn [length] in Es. lia.
Qed.

Lemma lex_optname_shortens : shortens lex_optname.
Proof.
  intros b a b' E. unfold lex_optname in E. pose proof (skip_sp_len b) as H.
  destruct (skip_sp b) as [|c r]; [discriminate|]. cbn [length] in H.
  destruct (opt_first c); [|discriminate].
  destruct (span opt_char r) as [x y] eqn:Es. apply span_len in Es.
  inversion E; subst. lia.
Qed.

Lemma lex_not_shortens : shortens lex_not.
Proof.
  intros b a b' E. unfold lex_not in E.
  destruct b as [|n [|o [|t [|s r]]]]; try discriminate.
  destruct ((upper_byte n =? 78) && (upper_byte o =? 79) && (upper_byte t =? 84) && (s =? SP));
    [|discriminate].
  inversion E; subst. pose proof (skip_sp_len r). cbn [length]. lia.
Qed.

Lemma lex_return_shortens : shortens lex_return.
Proof.
  intros b a b' E. unfold lex_return in E. pose proof (skip_sp_len b) as H.
  destruct (skip_sp b) as [|c1 [|c2 [|c3 [|c4 [|c5 [|c6 r]]]]]]; try discriminate;
    repeat match type of E with
    | match ?c with _ => _ end = _ => destruct c; try discriminate
    end.
  inversion E; subst. cbn [length] in H. lia.
Qed.

Lemma lex_list_end_shortens : shortens lex_list_end.
Proof. apply lex_byte_sp_shortens. Qed.

Lemma lex_seqnum_shortens : shortens lex_seqnum.
Proof.
  intros b a b' E. unfold lex_seqnum in E. destruct b as [|c r]; [discriminate|].
  destruct (in_range 49 57 c) eqn:Hc; [|discriminate].
  destruct (span is_digit (c :: r)) as [x y] eqn:Es. inversion E; subst.
  pose proof (span_len _ _ _ _ Es) as Hl.
  cbn [span] in Es.
  assert (Hd : is_digit c = true).
  { unfold in_range in Hc. unfold is_digit. apply andb_true_iff in Hc as [H1 H2].
    apply N.leb_le in H1. apply N.leb_le in H2. apply andb_true_iff; split; apply N.leb_le; lia. }
  rewrite Hd in Es. destruct (span is_digit r) as [x' y']. inversion Es; subst.
  cbn [length] in *. lia.
Qed.

Lemma sec_more_len fuel : forall b acc ns r,
  sec_more fuel b acc = (ns, r) -> (length r <= length b)%nat.
Proof.
  induction fuel as [|f IH]; intros b acc ns r E; cbn [sec_more] in E.
  - inversion E; subst; lia.
  - destruct b as [|c t]; [inversion E; subst; lia|].
    destruct (c =? DOT).
    + destruct (lex_seqnum (skip_sp t)) as [[ds r']|] eqn:El.
      * apply lex_seqnum_shortens in El. apply IH in E. pose proof (skip_sp_len t).
        cbn [length]. lia.
      * inversion E; subst; lia.
    + inversion E; subst; lia.
Qed.

Lemma lex_sec_parts_shortens : shortens lex_sec_parts.
Proof.
  intros b a b' E. unfold lex_sec_parts in E.
  destruct (lex_seqnum b) as [[d1 r1]|] eqn:E1; [|discriminate]. apply lex_seqnum_shortens in E1.
  destruct (sec_more (length (skip_sp r1)) (skip_sp r1) [d1]) as [nums r2] eqn:E2.
  apply sec_more_len in E2.
  destruct (lex_opt_byte DOT (skip_sp r2)) as [f r4] eqn:E4. apply lex_opt_byte_len in E4.
  inversion E; subst.
  pose proof (skip_sp_len r1). pose proof (skip_sp_len r2). pose proof (skip_sp_len r4). lia.
Qed.

Lemma lex_partial_shortens : shortens lex_partial.
Proof.
  intros b a b' E. unfold lex_partial in E.
  destruct (lex_byte LT b) as [[u b1]|] eqn:E1; [|discriminate]. apply lex_byte_shortens in E1.
  destruct (span is_digit (skip_sp b1)) as [d1 b2] eqn:E2. apply span_len in E2.
  destruct d1 as [|x1 d1']; [discriminate|].
  destruct (lex_byte DOT (skip_sp b2)) as [[u3 b3]|] eqn:E3; [|discriminate]. apply lex_byte_shortens in E3.
  destruct (span is_digit (skip_sp b3)) as [d2 b4] eqn:E4. apply span_len in E4.
  destruct d2 as [|x2 d2']; [discriminate|].
  destruct (lex_byte GT (skip_sp b4)) as [[u5 b5]|] eqn:E5; [|discriminate]. apply lex_byte_shortens in E5.
  inversion E; subst.
  pose proof (skip_sp_len b1). pose proof (skip_sp_len b2). pose proof (skip_sp_len b3).
  pose proof (skip_sp_len b4). lia.
Qed.

Lemma lex_attrname_shortens : shortens lex_attrname.
Proof. apply lex_run_shortens. Qed.

Lemma lex_section_start_shortens : shortens lex_section_start.
Proof.
  intros b a b' E. unfold lex_section_start in E.
  destruct (lex_byte_sp LBRACK b) as [[u r]|] eqn:E1; [|discriminate].
  apply lex_byte_sp_shortens in E1. inversion E; subst. pose proof (skip_sp_len r). lia.
Qed.

Lemma lex_section_end_shortens : shortens lex_section_end.
Proof. apply lex_byte_sp_shortens. Qed.
