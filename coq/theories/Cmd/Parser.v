(* Cmd/Parser.v — the result type and the control-flow combinators in which
   the command parsers of pymap are transcribed (Cmd/Grammar.v).

   A Python parse method takes (buf, params) and returns (value, rest) or
   raises.  Here a parser takes the continuations that belong to the literals
   from this position on (the buffer that ends with the k-th synchronizing
   literal of the exchange is continued in the k-th continuation, whichever
   alternative reaches it and however often) and the buffer, and returns one
   of:
     POk v rest cs     value, remaining buffer, remaining continuations
     PFail k cs        NotParseable (k tells the subclass), continuations left
     PInt n            ParsingInterrupt(ExpectContinuation(literal_length=n))
     PExc x            any other exception escaping (x tells which)
     PFuel             the model ran out of fuel (never a Python behaviour)
     PUnk              an oracle (stdlib function) has no answer in the table
                       given to a correspondence run
   Definitions only. *)
From PV Require Import Base.Prelude Cmd.CLex.
Local Open Scope N_scope.

(* NotParseable | UnexpectedType | InvalidContent *)
Inductive fkind := FPlain | FUnexpected | FInvalid.
(* exceptions other than NotParseable / ParsingInterrupt *)
Inductive exn :=
| XValue       (* ValueError family: int() of > 4300 digits, UnicodeDecodeError, UnicodeError *)
| XRecursion.  (* RecursionError: the depth budget is used up *)

Inductive pres (A : Type) : Type :=
| POk (a : A) (rest : bytes) (cs : list bytes)
| PFail (k : fkind) (cs : list bytes)
| PInt (n : N)
| PExc (x : exn)
| PFuel
| PUnk.
Arguments POk {A} a rest cs.
Arguments PFail {A} k cs.
Arguments PInt {A} n.
Arguments PExc {A} x.
Arguments PFuel {A}.
Arguments PUnk {A}.

Definition parser (A : Type) : Type := list bytes -> bytes -> pres A.

Definition ret {A} (a : A) : parser A := fun cs b => POk a b cs.
Definition fail {A} (k : fkind) : parser A := fun cs _ => PFail k cs.
Definition raise {A} (x : exn) : parser A := fun _ _ => PExc x.

Definition bind {A B} (p : parser A) (q : A -> parser B) : parser B :=
  fun cs b =>
    match p cs b with
    | POk a b' cs' => q a cs' b'
    | PFail k cs' => PFail k cs'
    | PInt n => PInt n
    | PExc x => PExc x
    | PFuel => PFuel
    | PUnk => PUnk
    end.

Notation "x <- p ;; q" := (bind p (fun x => q))
  (at level 61, p at next level, right associativity).
Notation "p ;;; q" := (bind p (fun _ => q))
  (at level 61, right associativity).

(* try: a = p  except NotParseable as k: h k  else: q a
   — the handler resumes from the buffer the try block started with, and
   with the continuations that were pending there: a literal reached again
   after backtracking is given the continuation it already received
   (ParsingState.assigned, fix C06-F10); q is not protected by the handler. *)
Definition try_else {A B} (p : parser A) (q : A -> parser B) (h : fkind -> parser B)
  : parser B :=
  fun cs b =>
    match p cs b with
    | POk a b' cs' => q a cs' b'
    | PFail k _ => h k cs b
    | PInt n => PInt n
    | PExc x => PExc x
    | PFuel => PFuel
    | PUnk => PUnk
    end.
Definition try_ {A} (p : parser A) (h : fkind -> parser A) : parser A :=
  try_else p ret h.

(* run p, keep its value, go back to the starting buffer *)
Definition restore {A} (p : parser A) : parser A :=
  fun cs b =>
    match p cs b with
    | POk a _ _ => POk a b cs
    | r => r
    end.

(* a buffer-only recogniser *)
Definition lex {A} (f : bytes -> option (A * bytes)) : parser A :=
  fun cs b => match f b with Some (a, b') => POk a b' cs | None => PFail FPlain cs end.

(* look at the buffer *)
Definition peek : parser bytes := fun cs b => POk b b cs.

Definition guard (c : bool) (k : fkind) : parser unit := if c then ret tt else fail k.
Definition guard_exc (c : bool) (x : exn) : parser unit := if c then ret tt else raise x.

(* ExpectContinuation(...).expect(state) followed by buf[0:n]: take the next
   continuation; the literal is its first n bytes, parsing goes on behind
   them.  No continuation left: ParsingInterrupt. *)
Definition take_cont (n : N) : parser bytes :=
  fun cs _ =>
    match cs with
    | [] => PInt n
    | c :: cs' =>
      match take_exact n c with
      | Some (lit, rest) => POk lit rest cs'
      | None => PFail FPlain cs'
      end
    end.

(* while True: s = step(s) ...   the step says whether to go on *)
Fixpoint loop {S R} (fuel : nat) (step : S -> parser (S + R)) (s : S) : parser R :=
  fun cs b =>
    match fuel with
    | O => PFuel
    | Datatypes.S f =>
      match step s cs b with
      | POk (inl s') b' cs' => loop f step s' cs' b'
      | POk (inr r) b' cs' => POk r b' cs'
      | PFail k cs' => PFail k cs'
      | PInt n => PInt n
      | PExc x => PExc x
      | PFuel => PFuel
      | PUnk => PUnk
      end
    end.

(* the measure every parser respects: bytes still readable *)
Fixpoint cmu (cs : list bytes) : nat :=
  match cs with [] => O | c :: r => Datatypes.S (length c + cmu r) end.
Definition mu (b : bytes) (cs : list bytes) : nat := length b + cmu cs.

(* Oracles: deterministic standard-library functions the parser calls and
   the model does not reproduce.  0 = false/error, 1 = true/ok, anything else
   = "not in the table" (correspondence runs only). *)
Inductive okind :=
| ODateTime      (* str(v,'ascii') and strptime(.., '%d-%b-%Y %X %z') succeed *)
| ODate          (* strptime(str(v,'ascii','ignore'), '%d-%b-%Y') succeeds *)
| OCharset       (* b' '.decode(str(v,'ascii')): 1 ok, 0 LookupError, 3 other error *)
| ODecode (charset : bytes).  (* v.decode(charset) succeeds *)
Definition oracle := okind -> bytes -> N.

Definition ask (o : oracle) (k : okind) (v : bytes) : parser N :=
  fun cs b =>
    match o k v with
    | 0 => POk 0 b cs
    | 1 => POk 1 b cs
    | 3 => POk 3 b cs
    | _ => PUnk
    end.
