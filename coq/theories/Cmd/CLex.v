(* Cmd/CLex.v — byte-level recognisers used by the command-line parser model
   (pymap/parsing/__init__.py, primitives.py, specials/*.py): the regular
   expressions of the code written as the functions they denote.
   Definitions only.  Every function that moves in the buffer returns a
   suffix of its argument (Cmd/CLexProofs.v). *)
From PV Require Import Base.Prelude Base.Decimal.
Local Open Scope N_scope.

Definition SP : N := 32.  Definition CR : N := 13.  Definition LF : N := 10.
Definition DQUOTE : N := 34. Definition BSLASH : N := 92.
Definition LPAREN : N := 40. Definition RPAREN : N := 41.
Definition LBRACE : N := 123. Definition RBRACE : N := 125.
Definition LBRACK : N := 91. Definition RBRACK : N := 93.
Definition PLUS : N := 43. Definition MINUS : N := 45. Definition TILDE : N := 126.
Definition STAR : N := 42. Definition COLON : N := 58. Definition COMMA : N := 44.
Definition DOT : N := 46. Definition LT : N := 60. Definition GT : N := 62.
Definition AMP : N := 38. Definition SLASH : N := 47.

Definition in_range (lo hi c : N) : bool := (lo <=? c) && (c <=? hi).

(* Parseable._atom_pattern  [\x21\x23\x24\x26\x27\x2B-\x5B\x5E-\x7A\x7C\x7E] *)
Definition atom_char (c : N) : bool :=
  (c =? 33) || (c =? 35) || (c =? 36) || (c =? 38) || (c =? 39) ||
  in_range 43 91 c || in_range 94 122 c || (c =? 124) || (c =? 126).
(* AString._pattern: the same plus ']' *)
Definition astring_char (c : N) : bool := atom_char c || (c =? 93).
(* Tag._pattern  [\x21\x23\x24\x26\x27\x2C-\x5B\x5D\x5E-\x7A\x7C\x7E] *)
Definition tag_char (c : N) : bool :=
  (c =? 33) || (c =? 35) || (c =? 36) || (c =? 38) || (c =? 39) ||
  in_range 44 91 c || (c =? 93) || in_range 94 122 c || (c =? 124) || (c =? 126).
(* ListCommand._list_mailbox_pattern  [\x21\x23-\x27\x2A-\x5B\x5D-\x7A\x7C\x7E] *)
Definition listmb_char (c : N) : bool :=
  (c =? 33) || in_range 35 39 c || in_range 42 91 c || in_range 93 122 c ||
  (c =? 124) || (c =? 126).
Definition is_alpha (c : N) : bool := in_range 65 90 c || in_range 97 122 c.
(* ExtensionOption._opt_pattern: [a-zA-Z_.-] then any of [a-zA-Z0-9_.:-] *)
Definition opt_first (c : N) : bool := is_alpha c || (c =? 95) || (c =? 46) || (c =? 45).
Definition opt_char (c : N) : bool := opt_first c || is_digit c || (c =? 58).
(* ObjectId._pattern [a-zA-Z0-9_-] *)
Definition objid_char (c : N) : bool := is_alpha c || is_digit c || (c =? 95) || (c =? 45).
(* bytes \s : [ \t\n\r\f\v] *)
Definition is_space_class (c : N) : bool := (c =? 32) || in_range 9 13 c.
(* FetchAttribute._attrname_pattern  [^\s\[<()] *)
Definition attrname_char (c : N) : bool :=
  negb (is_space_class c || (c =? 91) || (c =? 60) || (c =? 40) || (c =? 41)).

Definition upper_byte (c : N) : N := if in_range 97 122 c then c - 32 else c.
Definition upper (b : bytes) : bytes := map upper_byte b.

(* longest prefix whose bytes satisfy p *)
Fixpoint span (p : N -> bool) (b : bytes) : bytes * bytes :=
  match b with
  | c :: r => if p c then let '(x, y) := span p r in (c :: x, y) else ([], b)
  | [] => ([], [])
  end.

Fixpoint skip_sp (b : bytes) : bytes :=
  match b with c :: r => if c =? SP then skip_sp r else b | [] => [] end.

(* Space.parse: one or more spaces *)
Definition lex_space (b : bytes) : option (unit * bytes) :=
  match b with
  | c :: r => if c =? SP then Some (tt, skip_sp r) else None
  | [] => None
  end.

(* EndLine._pattern: spaces, optional CR, LF *)
Definition lex_endline (b : bytes) : option (unit * bytes) :=
  match skip_sp b with
  | c :: r =>
    if c =? LF then Some (tt, r)
    else if c =? CR then
      match r with c2 :: r2 => if c2 =? LF then Some (tt, r2) else None | [] => None end
    else None
  | [] => None
  end.

(* a non-empty run of class p after optional spaces (Atom, AString's first
   branch, Tag) *)
Definition lex_run (p : N -> bool) (b : bytes) : option (bytes * bytes) :=
  match span p (skip_sp b) with
  | ([], _) => None
  | (x, r) => Some (x, r)
  end.
(* same without skipping spaces (list-mailbox pattern) *)
Definition lex_run_here (p : N -> bool) (b : bytes) : option (bytes * bytes) :=
  match span p b with
  | ([], _) => None
  | (x, r) => Some (x, r)
  end.

Definition all_digits (b : bytes) : bool := forallb is_digit b.
(* CPython refuses int() of more than 4300 digits (leading zeros count) *)
Definition MAX_DIGITS : N := 4300.
Definition too_many_digits (ds : bytes) : bool := MAX_DIGITS <? N.of_nat (length ds).
(* value of a run of digits *)
Definition digits_value (ds : bytes) : N := N.of_uint (fst (span_digits ds)).

(* one byte *)
Definition lex_byte (c : N) (b : bytes) : option (unit * bytes) :=
  match b with x :: r => if x =? c then Some (tt, r) else None | [] => None end.
Definition lex_byte_sp (c : N) (b : bytes) : option (unit * bytes) := lex_byte c (skip_sp b).
(* optional byte: reports whether it was there *)
Definition lex_opt_byte (c : N) (b : bytes) : bool * bytes :=
  match b with x :: r => if x =? c then (true, r) else (false, b) | [] => (false, b) end.

(* QuotedString.parse after the opening quote; result = (value, rest) *)
Fixpoint quoted_body (b : bytes) (acc : bytes) : option (bytes * bytes) :=
  match b with
  | [] => None
  | c :: r =>
    if c =? DQUOTE then Some (rev acc, r)
    else if (c =? CR) || (c =? LF) then None
    else if c =? BSLASH then
      match r with
      | e :: r' => if (e =? BSLASH) || (e =? DQUOTE) then quoted_body r' (e :: acc) else None
      | [] => None
      end
    else quoted_body r (c :: acc)
  end.
Definition lex_quoted (b : bytes) : option (bytes * bytes) :=
  match skip_sp b with
  | c :: r => if c =? DQUOTE then quoted_body r [] else None
  | [] => None
  end.

(* LiteralString._literal_pattern  ~? { digits +? } CR? LF  after optional
   spaces; result = ((binary, digits, plus), rest after the newline) *)
Definition lex_literal_hdr (b : bytes) : option ((bool * bytes * bool) * bytes) :=
  let '(bin, b1) := lex_opt_byte TILDE (skip_sp b) in
  match lex_byte LBRACE b1 with
  | None => None
  | Some (_, b2) =>
    match span is_digit b2 with
    | ([], _) => None
    | (ds, b3) =>
      let '(plus, b4) := lex_opt_byte PLUS b3 in
      match lex_byte RBRACE b4 with
      | None => None
      | Some (_, b5) =>
        let '(_, b6) := lex_opt_byte CR b5 in
        match lex_byte LF b6 with
        | None => None
        | Some (_, b7) => Some ((bin, ds, plus), b7)
        end
      end
    end
  end.

(* buf[0:n] when that many bytes are there *)
Definition take_exact (n : N) (b : bytes) : option (bytes * bytes) :=
  if n <=? N.of_nat (length b)
  then Some (firstn (N.to_nat n) b, skipn (N.to_nat n) b) else None.

(* ObjectId: up to 255 characters of the class *)
Fixpoint span_max (p : N -> bool) (k : nat) (b : bytes) : bytes * bytes :=
  match k with
  | O => ([], b)
  | S k' =>
    match b with
    | c :: r => if p c then let '(x, y) := span_max p k' r in (c :: x, y) else ([], b)
    | [] => ([], [])
    end
  end.
Definition lex_objid (b : bytes) : option (bytes * bytes) :=
  match span_max objid_char 255 (skip_sp b) with
  | ([], _) => None
  | (x, r) => Some (x, r)
  end.

(* ExtensionOption._opt_pattern after optional spaces *)
Definition lex_optname (b : bytes) : option (bytes * bytes) :=
  match skip_sp b with
  | c :: r => if opt_first c then let '(x, y) := span opt_char r in Some (c :: x, y) else None
  | [] => None
  end.

(* SearchKey._not_pattern: NOT and one or more spaces, case-insensitive *)
Definition lex_not (b : bytes) : option (unit * bytes) :=
  match b with
  | n :: o :: t :: s :: r =>
    if (upper_byte n =? 78) && (upper_byte o =? 79) && (upper_byte t =? 84) && (s =? SP)
    then Some (tt, skip_sp r) else None
  | _ => None
  end.

(* b'RETURN' after optional spaces (SearchCommand._parse_options), case
   sensitive *)
Definition lex_return (b : bytes) : option (unit * bytes) :=
  match skip_sp b with
  | 82 :: 69 :: 84 :: 85 :: 82 :: 78 :: r => Some (tt, r)
  | _ => None
  end.

(* List._end_pattern: spaces then a closing parenthesis *)
Definition lex_list_end (b : bytes) : option (unit * bytes) := lex_byte_sp RPAREN b.

(* one sequence number [1-9]\d* ; the digits are returned *)
Definition lex_seqnum (b : bytes) : option (bytes * bytes) :=
  match b with
  | c :: _ => if in_range 49 57 c then Some (span is_digit b) else None
  | [] => None
  end.

(* FetchAttribute._sec_part_pattern: a number, spaces, any number of
   (dot, spaces, number), then spaces, an optional dot, spaces.
   result = (the numbers' digit strings, rest); None when the pattern does
   not match (no section parts) *)
Fixpoint sec_more (fuel : nat) (b : bytes) (acc : list bytes) : list bytes * bytes :=
  match fuel with
  | O => (rev acc, b)
  | S f =>
    match b with
    | c :: r =>
      if c =? DOT then
        match lex_seqnum (skip_sp r) with
        | Some (ds, r') => sec_more f r' (ds :: acc)
        | None => (rev acc, b)
        end
      else (rev acc, b)
    | [] => (rev acc, b)
    end
  end.
Definition lex_sec_parts (b : bytes) : option (list bytes * bytes) :=
  match lex_seqnum b with
  | None => None
  | Some (d1, r1) =>
    (* spaces directly after the first number belong to group 1 *)
    let r1' := skip_sp r1 in
    let '(nums, r2) := sec_more (length r1') r1' [d1] in
    (* when no dotted number follows, the spaces were taken by group 1 or by
       the outer " *": the same bytes either way *)
    let r3 := skip_sp r2 in
    let '(_, r4) := lex_opt_byte DOT r3 in
    Some (nums, skip_sp r4)
  end.

(* FetchAttribute._partial_pattern: '<' sp digits sp '.' sp digits sp '>' *)
Definition lex_partial (b : bytes) : option ((bytes * bytes) * bytes) :=
  match lex_byte LT b with
  | None => None
  | Some (_, b1) =>
    match span is_digit (skip_sp b1) with
    | ([], _) => None
    | (d1, b2) =>
      match lex_byte DOT (skip_sp b2) with
      | None => None
      | Some (_, b3) =>
        match span is_digit (skip_sp b3) with
        | ([], _) => None
        | (d2, b4) =>
          match lex_byte GT (skip_sp b4) with
          | None => None
          | Some (_, b5) => Some ((d1, d2), b5)
          end
        end
      end
    end
  end.

(* FetchAttribute._attrname_pattern: spaces then a run of attrname_char *)
Definition lex_attrname (b : bytes) : option (bytes * bytes) := lex_run attrname_char b.
(* _section_start_pattern (spaces, '[', spaces) and _section_end_pattern
   (spaces, ']') *)
Definition lex_section_start (b : bytes) : option (unit * bytes) :=
  match lex_byte_sp LBRACK b with Some (_, r) => Some (tt, skip_sp r) | None => None end.
Definition lex_section_end (b : bytes) : option (unit * bytes) := lex_byte_sp RBRACK b.

(* byte strings the parser compares with *)
Definition bytes_in (x : bytes) (l : list bytes) : bool := existsb (bytes_eqb x) l.
