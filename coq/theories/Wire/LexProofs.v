(* Wire/LexProofs.v — lemmas about Wire/Lex.v *)
From PV Require Import Base.Prelude Base.Decimal Wire.Lex.

Local Open Scope N_scope.

Lemma skip_spaces_nonspace c r : c <> SP -> skip_spaces (c :: r) = c :: r.
Proof. intro H. cbn [skip_spaces]. destruct (N.eqb_spec c SP); [contradiction|reflexivity]. Qed.

Lemma skip_spaces_repeat k b : skip_spaces (repeat SP k ++ b) = skip_spaces b.
Proof. induction k as [|k IH]; [reflexivity|]. cbn [repeat app skip_spaces].
  rewrite N.eqb_refl. exact IH. Qed.

Lemma skip_spaces_head b : head_sat (fun c => c =? SP) (skip_spaces b) = false.
Proof. induction b as [|c r IH]; [reflexivity|]. cbn [skip_spaces].
  destruct (c =? SP) eqn:E; [exact IH|]. cbn [head_sat]. exact E. Qed.

Lemma skip_spaces_idem b : skip_spaces (skip_spaces b) = skip_spaces b.
Proof. induction b as [|c r IH]; [reflexivity|]. cbn [skip_spaces].
  destruct (c =? SP) eqn:E; [exact IH|]. cbn [skip_spaces]. rewrite E. reflexivity. Qed.

(* a buffer that starts with a byte of class p, p excluding the space *)
Lemma skip_spaces_head_sat p b :
  p SP = false -> head_sat p b = true -> skip_spaces b = b.
Proof. intros Hp H. destruct b as [|c r]; [reflexivity|]. cbn [head_sat] in H.
  apply skip_spaces_nonspace. intro E. subst c. congruence. Qed.

Lemma span_app p a rest :
  forallb p a = true -> head_sat p rest = false -> span p (a ++ rest) = (a, rest).
Proof.
  intros Ha Hr. induction a as [|c a IH]; cbn [app].
  - destruct rest as [|d r]; [reflexivity|]. cbn [span]. cbn [head_sat] in Hr.
    rewrite Hr. reflexivity.
  - cbn [forallb] in Ha. apply andb_true_iff in Ha as [Hc Ha].
    cbn [span]. rewrite Hc. rewrite (IH Ha). reflexivity.
Qed.

Lemma span_spec p b a r : span p b = (a, r) ->
  b = a ++ r /\ forallb p a = true /\ head_sat p r = false.
Proof.
  revert a r. induction b as [|c b IH]; intros a r H; cbn [span] in H.
  - inversion H; subst. repeat split.
  - destruct (p c) eqn:Hc.
    + destruct (span p b) as [a' r'] eqn:E. inversion H; subst.
      destruct (IH a' r eq_refl) as (-> & Ha & Hr). cbn [app forallb]. rewrite Hc, Ha. repeat split. exact Hr.
    + inversion H; subst. cbn [app forallb head_sat]. rewrite Hc. repeat split.
Qed.

Lemma parse_class_print p k a rest :
  p SP = false -> a <> [] -> forallb p a = true -> head_sat p rest = false ->
  parse_class p (repeat SP k ++ a ++ rest) = Some (a, rest).
Proof.
  intros Hp Hne Ha Hr. unfold parse_class. rewrite skip_spaces_repeat.
  rewrite (skip_spaces_head_sat p).
  - rewrite span_app by assumption. destruct a; [congruence|reflexivity].
  - exact Hp.
  - destruct a as [|c a']; [congruence|]. cbn [app head_sat]. cbn [forallb] in Ha.
    apply andb_true_iff in Ha. tauto.
Qed.

Lemma parse_class_spec p b a r : parse_class p b = Some (a, r) ->
  skip_spaces b = a ++ r /\ a <> [] /\ forallb p a = true /\ head_sat p r = false.
Proof.
  unfold parse_class. destruct (span p (skip_spaces b)) as [a' r'] eqn:E. intro H.
  destruct a' as [|c a']; [discriminate|]. inversion H; subst.
  destruct (span_spec _ _ _ _ E) as (E1 & E2 & E3). repeat split; auto. discriminate.
Qed.

Lemma parse_class_none_head p b :
  head_sat p (skip_spaces b) = false -> parse_class p b = None.
Proof. unfold parse_class. destruct (skip_spaces b) as [|c r]; [reflexivity|].
  cbn [head_sat span]. intros ->. reflexivity. Qed.

Lemma atom_char_SP : atom_char SP = false. Proof. reflexivity. Qed.
Lemma astring_char_SP : astring_char SP = false. Proof. reflexivity. Qed.
Lemma tag_char_SP : tag_char SP = false. Proof. reflexivity. Qed.

Lemma take_app v rest : take (blen v) (v ++ rest) = v.
Proof. unfold take, blen. rewrite Nat2N.id. rewrite firstn_app, Nat.sub_diag, firstn_all.
  cbn. apply app_nil_r. Qed.
Lemma drop_app v rest : drop (blen v) (v ++ rest) = rest.
Proof. unfold drop, blen. rewrite Nat2N.id. rewrite skipn_app, Nat.sub_diag, skipn_all.
  reflexivity. Qed.

Lemma upper_byte_idem c : upper_byte (upper_byte c) = upper_byte c.
Proof. unfold upper_byte, in_range.
  destruct ((97 <=? c) && (c <=? 122)) eqn:E; [|rewrite E; reflexivity].
  apply andb_true_iff in E as [E1 E2]. apply N.leb_le in E1. apply N.leb_le in E2.
  destruct ((97 <=? c - 32) && (c - 32 <=? 122)) eqn:E'; [|reflexivity].
  apply andb_true_iff in E' as [E3 E4]. apply N.leb_le in E3. lia. Qed.

Lemma upper_lower_byte c : upper_byte (lower_byte c) = upper_byte c.
Proof. unfold upper_byte, lower_byte, in_range.
  destruct ((65 <=? c) && (c <=? 90)) eqn:E.
  - apply andb_true_iff in E as [E1 E2]. apply N.leb_le in E1. apply N.leb_le in E2.
    assert (H1: (97 <=? c + 32) && (c + 32 <=? 122) = true).
    { apply andb_true_iff; split; apply N.leb_le; lia. }
    rewrite H1.
    assert (H2: (97 <=? c) && (c <=? 122) = false).
    { apply andb_false_iff. left. apply N.leb_gt. lia. }
    rewrite H2. lia.
  - reflexivity.
Qed.
