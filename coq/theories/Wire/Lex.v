(* Wire/Lex.v — lexical layer shared by the Wire models:
   byte constants, the recognisers the regexes of pymap/parsing denote
   (Parseable._whitespace_pattern, _atom_pattern, AString._pattern,
   Tag._pattern), longest-prefix [span].  Definitions only. *)
From PV Require Import Base.Prelude Base.Decimal.

Local Open Scope N_scope.

Definition SP : N := 32.     Definition CR : N := 13.      Definition LF : N := 10.
Definition DQUOTE : N := 34. Definition BSLASH : N := 92.  Definition LBRACE : N := 123.
Definition RBRACE : N := 125. Definition PLUS : N := 43.   Definition TILDE : N := 126.
Definition AMP : N := 38.    Definition MINUS : N := 45.   Definition COMMA_ : N := 44.
Definition SLASH : N := 47.  Definition COLON_ : N := 58.  Definition DOT : N := 46.
Definition TAB : N := 9.     Definition LPAREN : N := 40.  Definition RPAREN : N := 41.

(*  b' +'  prefix, as _whitespace_length  *)
Fixpoint skip_spaces (b : bytes) : bytes :=
  match b with c :: r => if (c =? SP) then skip_spaces r else b | [] => [] end.

(* longest prefix whose bytes satisfy [p], and the rest:  re.match(b'[...]*') *)
Fixpoint span (p : N -> bool) (b : bytes) : bytes * bytes :=
  match b with
  | [] => ([], [])
  | c :: r => if p c then let '(a, r') := span p r in (c :: a, r') else ([], b)
  end.

Definition in_range (lo hi c : N) : bool := (lo <=? c) && (c <=? hi).

(* Parseable._atom_pattern:  [\x21\x23\x24\x26\x27\x2B-\x5B\x5E-\x7A\x7C\x7E] *)
Definition atom_char (c : N) : bool :=
  (c =? 33) || (c =? 35) || (c =? 36) || (c =? 38) || (c =? 39) ||
  in_range 43 91 c || in_range 94 122 c || (c =? 124) || (c =? 126).

(* AString._pattern: the atom class plus \x5D *)
Definition astring_char (c : N) : bool := atom_char c || (c =? 93).

(* Tag._pattern: [\x21\x23\x24\x26\x27\x2C-\x5B\x5D\x5E-\x7A\x7C\x7E] *)
Definition tag_char (c : N) : bool :=
  (c =? 33) || (c =? 35) || (c =? 36) || (c =? 38) || (c =? 39) ||
  in_range 44 91 c || (c =? 93) || in_range 94 122 c || (c =? 124) || (c =? 126).

Definition head_sat (p : N -> bool) (b : bytes) : bool :=
  match b with c :: _ => p c | [] => false end.

(*  X+  after leading spaces; None when the class matches nothing *)
Definition parse_class (p : N -> bool) (b : bytes) : option (bytes * bytes) :=
  match span p (skip_spaces b) with
  | ([], _) => None
  | (a, r) => Some (a, r)
  end.

(* ASCII-only case mapping of bytes.upper()/lower() *)
Definition upper_byte (c : N) : N := if in_range 97 122 c then c - 32 else c.
Definition lower_byte (c : N) : N := if in_range 65 90 c then c + 32 else c.
Definition upper_bytes (b : bytes) : bytes := map upper_byte b.
Definition lower_bytes (b : bytes) : bytes := map lower_byte b.

(* n bytes of a buffer:  buf[0:n], buf[n:]  *)
Definition take (n : N) (b : bytes) : bytes := firstn (N.to_nat n) b.
Definition drop (n : N) (b : bytes) : bytes := skipn (N.to_nat n) b.
Definition blen (b : bytes) : N := N.of_nat (length b).

(* compact spelling of a byte string in generated case files:
   [Bx len 0x<hex>] is the len bytes whose big-endian value is the number *)
Fixpoint bytes_of_N_aux (n : nat) (x : N) (acc : bytes) : bytes :=
  match n with O => acc | S k => bytes_of_N_aux k (x / 256) (x mod 256 :: acc) end.
Definition Bx (len x : N) : bytes := bytes_of_N_aux (N.to_nat len) x [].
Arguments Bx _%N _%N.

(* RFC 3501 ASTRING-CHAR = ATOM-CHAR / resp-specials: any CHAR except
   "(" ")" "{" SP CTL "%" "*" DQUOTE "\" — written from the RFC's grammar *)
Definition rfc_astring_char (c : N) : bool :=
  in_range 33 126 c &&
  negb ((c =? 40) || (c =? 41) || (c =? 123) || (c =? 37) || (c =? 42) || (c =? 34) || (c =? 92)).
