(* Wire/CmdLine.v — model of how a command reaches the parser:
   IMAPConnection.readline (LITERAL+ payloads glued to the line),
   read_continuation, the re-parse loop of read_command
   (pymap/imap/__init__.py), Commands.parse (pymap/parsing/commands.py:
   Tag, Space, command word looked up upper-cased) and the argument parsers of
   the commands whose arguments are astrings / mailboxes only:
   LOGIN (LoginCommand.parse), DELETE SUBSCRIBE UNSUBSCRIBE
   (CommandMailboxArg.parse), NOOP CAPABILITY LOGOUT STARTTLS CHECK CLOSE
   (CommandNoArgs.parse).  Definitions only. *)
From PV Require Import Base.Prelude Base.Decimal.
From PV Require Export Wire.Lex Wire.Strings Wire.ModUtf7.

Local Open Scope N_scope.

Definition EXC_EOF : N := 3.   (* EOFError / IncompleteReadError: connection ends *)

(* ------------------------------------------------------- Space, EndLine *)
Definition parse_space (b : bytes) : option bytes :=
  match b with
  | c :: _ => if c =? SP then Some (skip_spaces b) else None
  | [] => None
  end.

(*  b' *(\r?)\n'  *)
Definition parse_endline (b : bytes) : option bytes :=
  match skip_spaces b with
  | c :: r =>
    if c =? LF then Some r
    else if c =? CR then
      match r with d :: r' => if d =? LF then Some r' else None | [] => None end
    else None
  | [] => None
  end.

(* ------------------------------------------------------------ arguments *)
Inductive argkind := AStr | AMbox.
Inductive argval := VStr (v : bytes) | VMbox (name : list N).

(* what Mailbox.parse makes of the astring value v; None: NotParseable
   (modutf7_decode raised UnicodeError) *)
Definition mbox_of_bytes (v : bytes) : option (list N) :=
  if bytes_eqb (upper_bytes v) INBOX then Some INBOX
  else match modutf7_decode v with
       | Ok s => Some (mailbox_norm s)
       | _ => None
       end.

Definition interp (k : argkind) (v : bytes) : option argval :=
  match k with
  | AStr => Some (VStr v)
  | AMbox => option_map VMbox (mbox_of_bytes v)
  end.

(* Space, AString|Mailbox, ..., EndLine *)
Fixpoint parse_args (kinds : list argkind) (p : sparams) (cs : list bytes) (b : bytes)
  : pres (list argval) :=
  match kinds with
  | [] =>
    match parse_endline b with
    | Some r => POk [] r cs
    | None => PFail
    end
  | k :: ks =>
    match parse_space b with
    | None => PFail
    | Some b1 =>
      pbind (parse_astring p cs b1) (fun vr b2 cs2 =>
        match interp k (fst vr) with
        | Some a =>
          pbind (parse_args ks p cs2 b2) (fun l b3 cs3 => POk (a :: l) b3 cs3)
        | None => PFail
        end)
    end
  end.

(* --------------------------------------------------------- command table *)
Definition w_LOGIN : bytes := [76; 79; 71; 73; 78].
Definition w_DELETE : bytes := [68; 69; 76; 69; 84; 69].
Definition w_SUBSCRIBE : bytes := [83; 85; 66; 83; 67; 82; 73; 66; 69].
Definition w_UNSUBSCRIBE : bytes := [85; 78; 83; 85; 66; 83; 67; 82; 73; 66; 69].
Definition w_NOOP : bytes := [78; 79; 79; 80].
Definition w_CAPABILITY : bytes := [67; 65; 80; 65; 66; 73; 76; 73; 84; 89].
Definition w_LOGOUT : bytes := [76; 79; 71; 79; 85; 84].
Definition w_STARTTLS : bytes := [83; 84; 65; 82; 84; 84; 76; 83].
Definition w_CHECK : bytes := [67; 72; 69; 67; 75].
Definition w_CLOSE : bytes := [67; 76; 79; 83; 69].

(* the modelled part of Commands.commands: upper-cased word -> argument kinds *)
Definition cmd_table : list (bytes * list argkind) :=
  [ (w_LOGIN, [AStr; AStr]); (w_DELETE, [AMbox]); (w_SUBSCRIBE, [AMbox]);
    (w_UNSUBSCRIBE, [AMbox]); (w_NOOP, []); (w_CAPABILITY, []); (w_LOGOUT, []);
    (w_STARTTLS, []); (w_CHECK, []); (w_CLOSE, []) ].

Fixpoint lookup (w : bytes) (t : list (bytes * list argkind)) : option (list argkind) :=
  match t with
  | [] => None
  | (n, ks) :: t' => if bytes_eqb w n then Some ks else lookup w t'
  end.

Inductive command :=
| CmdInvalid                                    (* InvalidCommand *)
| Cmd (tag name : bytes) (args : list argval).

(* Commands.parse, for a table of commands of the modelled shape; a word that
   is not in [table] gives InvalidCommand *)
Definition parse_command (table : list (bytes * list argkind))
    (p : sparams) (cs : list bytes) (b : bytes) : pres command :=
  match parse_class tag_char b with
  | None => POk CmdInvalid [] cs
  | Some (tag, b1) =>
    match parse_space b1 with
    | None => POk CmdInvalid [] cs
    | Some b2 =>
      match parse_atom b2 with
      | None => POk CmdInvalid [] cs
      | Some (w, b3) =>
        let name := upper_bytes w in
        match lookup name table with
        | None => POk CmdInvalid [] cs
        | Some kinds =>
          match parse_args kinds p cs b3 with
          | POk args rest cs' => POk (Cmd tag name args) rest cs'
          | PFail => POk CmdInvalid [] cs
          | PNeed n => PNeed n
          end
        end
      end
    end
  end.

(* ------------------------------------------------------------ the reader *)
(* StreamReader.readline: up to and including the first LF; None: EOF first *)
Fixpoint read_line (s : bytes) : option (bytes * bytes) :=
  match s with
  | [] => None
  | c :: r =>
    if c =? LF then Some ([c], r)
    else match read_line r with
         | Some (l, r') => Some (c :: l, r')
         | None => None
         end
  end.

(* the line ends with  {digits+} CR? LF :  _literal_plus.search(line) *)
Definition lit_plus_suffix (line : bytes) : option N :=
  match rev line with
  | c0 :: r0 =>
    if c0 =? LF then
      let r1 := match r0 with c :: r' => if c =? CR then r' else r0 | [] => r0 end in
      match r1 with
      | a :: b :: r2 =>
        if (a =? RBRACE) && (b =? PLUS) then
          let '(ds, r3) := span is_digit r2 in
          match ds, r3 with
          | _ :: _, c :: _ =>
            if c =? LBRACE then
              match parse_number (rev ds) with Some (n, _) => Some n | None => None end
            else None
          | _, _ => None
          end
        else None
      | _ => None
      end
    else None
  | [] => None
  end.

(* IMAPConnection.readline after its first reader.readline(): while the line
   just read announces a LITERAL+, append the payload and the next line.
   Returns what is appended to the buffer, and the rest of the stream. *)
Fixpoint glue (fuel : nat) (line : bytes) (s : bytes) : result (bytes * bytes) :=
  match lit_plus_suffix line with
  | None => Ok ([], s)
  | Some n =>
    match fuel with
    | O => OutOfFuel
    | S f =>
      if blen s <? n then Exc EXC_EOF
      else match read_line (drop n s) with
           | None => Exc EXC_EOF
           | Some (l2, s2) =>
             bind (glue f l2 s2) (fun ms => Ok (take n s ++ l2 ++ fst ms, snd ms))
           end
    end
  end.

Definition conn_readline (s : bytes) : result (bytes * bytes) :=
  match read_line s with
  | None => Exc EXC_EOF
  | Some (l, s1) => bind (glue (S (length s1)) l s1) (fun ms => Ok (l ++ fst ms, snd ms))
  end.

(* IMAPConnection.read_continuation *)
Definition read_continuation (n : N) (s : bytes) : result (bytes * bytes) :=
  if blen s <? n then Exc EXC_EOF
  else bind (conn_readline (drop n s)) (fun ls => Ok (take n s ++ fst ls, snd ls)).

(* read_command's loop: parse the line from scratch with the continuations
   read so far; on an interrupt ask for one more.  Result: the command, the
   unread rest of the stream, the number of continuation requests sent. *)
Fixpoint reparse_loop (fuel : nat) (parse : list bytes -> bytes -> pres command)
    (line : bytes) (conts : list bytes) (s : bytes) (nreq : nat)
  : result (command * bytes * nat) :=
  match parse conts line with
  | POk c _ _ => Ok (c, s, nreq)
  | PFail => Ok (CmdInvalid, s, nreq)
  | PNeed n =>
    match fuel with
    | O => OutOfFuel
    | S f =>
      bind (read_continuation n s) (fun cs' =>
        reparse_loop f parse line (conts ++ [fst cs']) (snd cs') (S nreq))
    end
  end.

Definition read_command (table : list (bytes * list argkind)) (p : sparams) (s : bytes)
  : result (command * bytes * nat) :=
  bind (conn_readline s) (fun ls =>
    reparse_loop (S (length (snd ls))) (parse_command table p) (fst ls) [] (snd ls) 0).

(* ------------------------------------------------- the client's side *)
(* One argument as a client writes it: spaces, then the value in one of its
   spellings.  In the byte stream the payload of a synchronizing literal
   follows its prefix directly (the client sends it after the server's
   continuation request). *)
Record sparg := { sa_spaces : nat; sa_sp : spelling; sa_val : bytes }.

Definition arg_wire (a : sparg) : bytes :=
  repeat SP (sa_spaces a) ++
  match sa_sp a with
  | SpLit => lit_prefix false (blen (sa_val a)) ++ sa_val a
  | sp => spell_line sp (sa_val a)
  end.

Definition eol_bytes (crlf : bool) : bytes := if crlf then [CR; LF] else [LF].

(* tag, kw spaces, the command word as typed, the arguments, ke spaces, end of line *)
Definition cmd_wire (tag : bytes) (kw : nat) (w : bytes) (args : list sparg)
    (ke : nat) (crlf : bool) : bytes :=
  tag ++ repeat SP kw ++ w ++ flat_map arg_wire args ++ repeat SP ke ++ eol_bytes crlf.

Definition arg_ok (p : sparams) (a : sparg) : Prop :=
  (1 <= sa_spaces a)%nat /\ spelling_ok p (sa_sp a) (sa_val a) = true.

(* the argument values the command gets: arity must match, mailboxes decode *)
Fixpoint interp_all (kinds : list argkind) (vs : list bytes) : option (list argval) :=
  match kinds, vs with
  | [], [] => Some []
  | k :: ks, v :: vs' =>
    match interp k v, interp_all ks vs' with
    | Some a, Some l => Some (a :: l)
    | _, _ => None
    end
  | _, _ => None
  end.

(* continuation requests the server sends: one per synchronizing literal *)
Definition count_sync (args : list sparg) : nat :=
  length (filter (fun a => match sa_sp a with SpLit => true | _ => false end) args).
