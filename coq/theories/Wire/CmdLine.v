(* Wire/CmdLine.v — model of how a command reaches the parser:
   IMAPConnection.readline (LITERAL+ payloads glued to the line),
   read_continuation, the re-parse loop of read_command
   (pymap/imap/__init__.py), Commands.parse (pymap/parsing/commands.py:
   Tag, Space, command word looked up upper-cased) and the argument parsers of
   the commands built from astrings, mailboxes, list-mailbox patterns, sequence
   sets and status attribute lists:
   LOGIN; DELETE SUBSCRIBE UNSUBSCRIBE (CommandMailboxArg.parse); CREATE SELECT
   EXAMINE RENAME (with the ExtensionOptions slot, modelled when no option list
   is given); STATUS; LIST LSUB; COPY MOVE; NOOP CAPABILITY LOGOUT STARTTLS
   CHECK CLOSE (CommandNoArgs.parse).  Definitions only. *)
From PV Require Import Base.Prelude Base.Decimal.
From PV Require Export Wire.Lex Wire.Strings Wire.ModUtf7 Wire.SeqSet.

Local Open Scope N_scope.

Definition EXC_EOF : N := 3.   (* EOFError / IncompleteReadError: connection ends *)

(* ------------------------------------------------------- Space, EndLine *)
Definition parse_space (b : bytes) : option bytes :=
  match b with
  | c :: _ => if c =? SP then Some (skip_spaces b) else None
  | [] => None
  end.

(*  b' *(\r?)\n'  *)
Definition parse_endline (b : bytes) : option bytes :=
  match skip_spaces b with
  | c :: r =>
    if c =? LF then Some r
    else if c =? CR then
      match r with d :: r' => if d =? LF then Some r' else None | [] => None end
    else None
  | [] => None
  end.

(* ------------------------------------------------------------ arguments *)
Inductive rawkind := RSeq | RAttrs.      (* SequenceSet | List of StatusAttribute *)
Inductive argkind := AStr | AMbox | AListMb | ARaw (r : rawkind).
Inductive argval :=
| VStr (v : bytes) | VMbox (name : list N) | VPat (pat : list N)
| VSeq (s : seqset) | VAttrs (l : list bytes).

(* what Mailbox.parse makes of the astring value v; None: NotParseable
   (modutf7_decode raised UnicodeError) *)
Definition mbox_of_bytes (v : bytes) : option (list N) :=
  if bytes_eqb (upper_bytes v) INBOX then Some INBOX
  else match modutf7_decode v with
       | Ok s => Some (mailbox_norm s)
       | _ => None
       end.

(* ListCommand: the pattern is modutf7-decoded, no INBOX normalisation *)
Definition pat_of_bytes (v : bytes) : option (list N) :=
  match modutf7_decode v with Ok s => Some s | _ => None end.

Definition interp (k : argkind) (v : bytes) : option argval :=
  match k with
  | AStr => Some (VStr v)
  | AMbox => option_map VMbox (mbox_of_bytes v)
  | AListMb => option_map VPat (pat_of_bytes v)
  | ARaw _ => None
  end.

(* --- StatusAttribute and the parenthesised list of them (List.parse) *)
Definition s_MESSAGES : bytes := [77; 69; 83; 83; 65; 71; 69; 83].
Definition s_RECENT : bytes := [82; 69; 67; 69; 78; 84].
Definition s_UIDNEXT : bytes := [85; 73; 68; 78; 69; 88; 84].
Definition s_UIDVALIDITY : bytes := [85; 73; 68; 86; 65; 76; 73; 68; 73; 84; 89].
Definition s_UNSEEN : bytes := [85; 78; 83; 69; 69; 78].
Definition s_MAILBOXID : bytes := [77; 65; 73; 76; 66; 79; 88; 73; 68].
Definition valid_statuses : list bytes :=
  [s_MESSAGES; s_RECENT; s_UIDNEXT; s_UIDVALIDITY; s_UNSEEN; s_MAILBOXID].
Definition bytes_in (x : bytes) (l : list bytes) : bool := existsb (bytes_eqb x) l.

(* StatusAttribute.parse: optional Space, Atom, upper-cased name in the set *)
Definition parse_status_attr (b : bytes) : option (bytes * bytes) :=
  let b1 := match parse_space b with Some r => r | None => b end in
  match parse_atom b1 with
  | Some (a, r) => if bytes_in (upper_bytes a) valid_statuses then Some (upper_bytes a, r) else None
  | None => None
  end.

(*  b' *\)'  *)
Definition list_end (b : bytes) : option bytes :=
  match skip_spaces b with c :: r => if c =? RPAREN then Some r else None | [] => None end.

(* the while loop of List.parse (no list_limit); fuel = length of the buffer + 1 *)
Fixpoint attr_loop (fuel : nat) (b : bytes) (acc : list bytes) : result (list bytes * bytes) :=
  match fuel with
  | O => OutOfFuel
  | S f =>
    match list_end b with
    | Some r => Ok (rev acc, r)
    | None =>
      if (match acc with [] => false | _ => true end) && negb (head_sat (N.eqb SP) b)
      then NotParseable
      else match parse_status_attr b with
           | Some (a, r) => attr_loop f r (a :: acc)
           | None => NotParseable
           end
    end
  end.

(* List.parse(expected=[StatusAttribute]) and StatusCommand's non-empty check *)
Definition parse_attr_list (b : bytes) : result (list bytes * bytes) :=
  match skip_spaces b with
  | c :: r =>
    if c =? LPAREN then
      match attr_loop (S (length r)) r [] with
      | Ok ([], _) => NotParseable
      | x => x
      end
    else NotParseable
  | [] => NotParseable
  end.

Definition raw_parse (r : rawkind) (b : bytes) : result (argval * bytes) :=
  match r with
  | RSeq => bind (parse_seqset b) (fun sr => Ok (VSeq (fst sr), snd sr))
  | RAttrs => bind (parse_attr_list b) (fun lr => Ok (VAttrs (fst lr), snd lr))
  end.

(* ExtensionOptions.parse then EndLine.parse; an option list (an opening
   parenthesis after optional spaces) is outside this model: None *)
Definition parse_tail (opts : bool) (b : bytes) : option (option bytes) :=
  if opts && head_sat (N.eqb LPAREN) (skip_spaces b) then None
  else Some (parse_endline b).

(* Space, argument, ..., [ExtensionOptions], EndLine.
   POk None: the command line is outside the modelled fragment *)
Fixpoint parse_args (kinds : list argkind) (opts : bool) (p : sparams) (cs : list bytes) (b : bytes)
  : pres (option (list argval)) :=
  match kinds with
  | [] =>
    match parse_tail opts b with
    | None => POk None [] cs
    | Some (Some r) => POk (Some []) r cs
    | Some None => PFail
    end
  | k :: ks =>
    match parse_space b with
    | None => PFail
    | Some b1 =>
      let continue (a : argval) (b2 : bytes) (cs2 : list bytes) :=
        pbind (parse_args ks opts p cs2 b2) (fun l b3 cs3 =>
          POk (option_map (cons a) l) b3 cs3) in
      match k with
      | ARaw r =>
        match raw_parse r b1 with
        | Ok (a, b2) => continue a b2 cs
        | _ => PFail
        end
      | _ =>
        pbind (match k with
               | AListMb => parse_cstring listmb_char p cs b1
               | _ => parse_astring p cs b1
               end) (fun vr b2 cs2 =>
          match interp k (fst vr) with
          | Some a => continue a b2 cs2
          | None => PFail
          end)
      end
    end
  end.

(* --------------------------------------------------------- command table *)
Definition w_LOGIN : bytes := [76; 79; 71; 73; 78].
Definition w_DELETE : bytes := [68; 69; 76; 69; 84; 69].
Definition w_SUBSCRIBE : bytes := [83; 85; 66; 83; 67; 82; 73; 66; 69].
Definition w_UNSUBSCRIBE : bytes := [85; 78; 83; 85; 66; 83; 67; 82; 73; 66; 69].
Definition w_NOOP : bytes := [78; 79; 79; 80].
Definition w_CAPABILITY : bytes := [67; 65; 80; 65; 66; 73; 76; 73; 84; 89].
Definition w_LOGOUT : bytes := [76; 79; 71; 79; 85; 84].
Definition w_STARTTLS : bytes := [83; 84; 65; 82; 84; 84; 76; 83].
Definition w_CHECK : bytes := [67; 72; 69; 67; 75].
Definition w_CLOSE : bytes := [67; 76; 79; 83; 69].
Definition w_CREATE : bytes := [67; 82; 69; 65; 84; 69].
Definition w_SELECT : bytes := [83; 69; 76; 69; 67; 84].
Definition w_EXAMINE : bytes := [69; 88; 65; 77; 73; 78; 69].
Definition w_RENAME : bytes := [82; 69; 78; 65; 77; 69].
Definition w_STATUS : bytes := [83; 84; 65; 84; 85; 83].
Definition w_LIST : bytes := [76; 73; 83; 84].
Definition w_LSUB : bytes := [76; 83; 85; 66].
Definition w_COPY : bytes := [67; 79; 80; 89].
Definition w_MOVE : bytes := [77; 79; 86; 69].

(* the modelled part of Commands.commands: upper-cased word -> (argument
   kinds, has an ExtensionOptions slot before the end of the line) *)
Definition shape : Type := list argkind * bool.
Definition cmd_table : list (bytes * shape) :=
  [ (w_LOGIN, ([AStr; AStr], false)); (w_DELETE, ([AMbox], false));
    (w_SUBSCRIBE, ([AMbox], false)); (w_UNSUBSCRIBE, ([AMbox], false));
    (w_CREATE, ([AMbox], true)); (w_SELECT, ([AMbox], true)); (w_EXAMINE, ([AMbox], true));
    (w_RENAME, ([AMbox; AMbox], true)); (w_STATUS, ([AMbox; ARaw RAttrs], false));
    (w_LIST, ([AMbox; AListMb], false)); (w_LSUB, ([AMbox; AListMb], false));
    (w_COPY, ([ARaw RSeq; AMbox], false)); (w_MOVE, ([ARaw RSeq; AMbox], false));
    (w_NOOP, ([], false)); (w_CAPABILITY, ([], false)); (w_LOGOUT, ([], false));
    (w_STARTTLS, ([], false)); (w_CHECK, ([], false)); (w_CLOSE, ([], false)) ].

Fixpoint lookup (w : bytes) (t : list (bytes * shape)) : option shape :=
  match t with
  | [] => None
  | (n, ks) :: t' => if bytes_eqb w n then Some ks else lookup w t'
  end.

Inductive command :=
| CmdInvalid                                    (* InvalidCommand *)
| Cmd (tag name : bytes) (args : list argval)
| CmdOutside.                                   (* not in the modelled fragment *)

(* Commands.parse, for a table of commands of the modelled shapes; a word that
   is not in [table] gives InvalidCommand *)
Definition parse_command (table : list (bytes * shape))
    (p : sparams) (cs : list bytes) (b : bytes) : pres command :=
  match parse_class tag_char b with
  | None => POk CmdInvalid [] cs
  | Some (tag, b1) =>
    match parse_space b1 with
    | None => POk CmdInvalid [] cs
    | Some b2 =>
      match parse_atom b2 with
      | None => POk CmdInvalid [] cs
      | Some (w, b3) =>
        let name := upper_bytes w in
        match lookup name table with
        | None => POk CmdInvalid [] cs
        | Some (kinds, opts) =>
          match parse_args kinds opts p cs b3 with
          | POk (Some args) rest cs' => POk (Cmd tag name args) rest cs'
          | POk None rest cs' => POk CmdOutside rest cs'
          | PFail => POk CmdInvalid [] cs
          | PNeed n => PNeed n
          end
        end
      end
    end
  end.

(* ------------------------------------------------------------ the reader *)
(* StreamReader.readline: up to and including the first LF; None: EOF first *)
Fixpoint read_line (s : bytes) : option (bytes * bytes) :=
  match s with
  | [] => None
  | c :: r =>
    if c =? LF then Some ([c], r)
    else match read_line r with
         | Some (l, r') => Some (c :: l, r')
         | None => None
         end
  end.

(* the line ends with  {digits+} CR? LF :  _literal_plus.search(line) *)
Definition lit_plus_suffix (line : bytes) : option N :=
  match rev line with
  | c0 :: r0 =>
    if c0 =? LF then
      let r1 := match r0 with c :: r' => if c =? CR then r' else r0 | [] => r0 end in
      match r1 with
      | a :: b :: r2 =>
        if (a =? RBRACE) && (b =? PLUS) then
          let '(ds, r3) := span is_digit r2 in
          match ds, r3 with
          | _ :: _, c :: _ =>
            if c =? LBRACE then
              match parse_number (rev ds) with Some (n, _) => Some n | None => None end
            else None
          | _, _ => None
          end
        else None
      | _ => None
      end
    else None
  | [] => None
  end.

(* IMAPConnection.readline after its first reader.readline(): while the line
   just read announces a LITERAL+, append the payload and the next line.
   Returns what is appended to the buffer, and the rest of the stream. *)
Fixpoint glue (fuel : nat) (line : bytes) (s : bytes) : result (bytes * bytes) :=
  match lit_plus_suffix line with
  | None => Ok ([], s)
  | Some n =>
    match fuel with
    | O => OutOfFuel
    | S f =>
      if blen s <? n then Exc EXC_EOF
      else match read_line (drop n s) with
           | None => Exc EXC_EOF
           | Some (l2, s2) =>
             bind (glue f l2 s2) (fun ms => Ok (take n s ++ l2 ++ fst ms, snd ms))
           end
    end
  end.

Definition conn_readline (s : bytes) : result (bytes * bytes) :=
  match read_line s with
  | None => Exc EXC_EOF
  | Some (l, s1) => bind (glue (S (length s1)) l s1) (fun ms => Ok (l ++ fst ms, snd ms))
  end.

(* IMAPConnection.read_continuation *)
Definition read_continuation (n : N) (s : bytes) : result (bytes * bytes) :=
  if blen s <? n then Exc EXC_EOF
  else bind (conn_readline (drop n s)) (fun ls => Ok (take n s ++ fst ls, snd ls)).

(* read_command's loop: parse the line from scratch with the continuations
   read so far; on an interrupt ask for one more.  Result: the command, the
   unread rest of the stream, the number of continuation requests sent. *)
Fixpoint reparse_loop (fuel : nat) (parse : list bytes -> bytes -> pres command)
    (line : bytes) (conts : list bytes) (s : bytes) (nreq : nat)
  : result (command * bytes * nat) :=
  match parse conts line with
  | POk c _ _ => Ok (c, s, nreq)
  | PFail => Ok (CmdInvalid, s, nreq)
  | PNeed n =>
    match fuel with
    | O => OutOfFuel
    | S f =>
      bind (read_continuation n s) (fun cs' =>
        reparse_loop f parse line (conts ++ [fst cs']) (snd cs') (S nreq))
    end
  end.

Definition read_command (table : list (bytes * shape)) (p : sparams) (s : bytes)
  : result (command * bytes * nat) :=
  bind (conn_readline s) (fun ls =>
    reparse_loop (S (length (snd ls))) (parse_command table p) (fst ls) [] (snd ls) 0).

(* ------------------------------------------------- the client's side *)
(* One argument as a client writes it.  A string argument: spaces, then the
   value in one of its spellings (in the byte stream the payload of a
   synchronizing literal follows its prefix directly: the client sends it after
   the server's continuation request).  A raw argument (sequence set,
   attribute list): spaces, then its text. *)
Record sparg := { sa_spaces : nat; sa_sp : spelling; sa_val : bytes }.
Inductive warg := WStr (a : sparg) | WRaw (k : nat) (x : bytes) (v : argval).

Definition arg_wire (w : warg) : bytes :=
  match w with
  | WStr a =>
    repeat SP (sa_spaces a) ++
    match sa_sp a with
    | SpLit => lit_prefix false (blen (sa_val a)) ++ sa_val a
    | sp => spell_line sp (sa_val a)
    end
  | WRaw k x _ => repeat SP k ++ x
  end.

Definition eol_bytes (crlf : bool) : bytes := if crlf then [CR; LF] else [LF].

(* tag, kw spaces, the command word as typed, the arguments, ke spaces, end of line *)
Definition cmd_wire (tag : bytes) (kw : nat) (w : bytes) (args : list warg)
    (ke : nat) (crlf : bool) : bytes :=
  tag ++ repeat SP kw ++ w ++ flat_map arg_wire args ++ repeat SP ke ++ eol_bytes crlf.

(* no LF inside / the last byte, if any, is neither a closing brace nor CR *)
Definition lf_free (x : bytes) : Prop := forallb (fun c => negb (c =? LF)) x = true.
Definition safe_end (x : bytes) : Prop :=
  match rev x with [] => True | c :: _ => c <> RBRACE /\ c <> CR end.

(* what may follow an argument on the wire: a space or the end of the line *)
Definition follow_ok (rest : bytes) : Prop :=
  match rest with c :: _ => c = SP \/ c = CR \/ c = LF | [] => False end.

(* the atom class of the position: astring characters, or list-mailbox ones *)
Definition kind_class (k : argkind) : N -> bool :=
  match k with AListMb => listmb_char | _ => astring_char end.

(* argument w is a legal way of writing an argument of kind k *)
Definition arg_ok (p : sparams) (k : argkind) (w : warg) : Prop :=
  match k, w with
  | ARaw r, WRaw n x v =>
    (1 <= n)%nat /\ x <> [] /\ head_sat (N.eqb SP) x = false /\ lf_free x /\ safe_end x /\
    (forall rest, follow_ok rest -> raw_parse r (x ++ rest) = Ok (v, rest))
  | ARaw _, WStr _ => False
  | _, WStr a => (1 <= sa_spaces a)%nat /\ spelling_okc (kind_class k) p (sa_sp a) (sa_val a) = true
  | _, WRaw _ _ _ => False
  end.

(* the argument values the command gets: arity must match, mailboxes decode *)
Fixpoint interp_all (kinds : list argkind) (ws : list warg) : option (list argval) :=
  match kinds, ws with
  | [], [] => Some []
  | k :: ks, w :: ws' =>
    match (match w with WStr a => interp k (sa_val a) | WRaw _ _ v => Some v end),
          interp_all ks ws' with
    | Some a, Some l => Some (a :: l)
    | _, _ => None
    end
  | _, _ => None
  end.

(* continuation requests the server sends: one per synchronizing literal *)
Definition is_sync (w : warg) : bool :=
  match w with WStr a => match sa_sp a with SpLit => true | _ => false end | WRaw _ _ _ => false end.
Definition count_sync (args : list warg) : nat := length (filter is_sync args).
