(* Wire/SeqSetCheck.v — boolean case checkers used by the correspondence run
   (harness/props/C18.py): the expected value observed on the implementation
   is part of each case; the model recomputes it under vm_compute. *)
From PV Require Import Base.Prelude Base.Decimal Wire.SeqSet.

Definition seqset_eqb : seqset -> seqset -> bool := eqb_list selem_eqb.

(* (input, None = NotParseable | Some (value, rest)) *)
Definition chk_seq_parse (c : bytes * option (seqset * bytes)) : bool :=
  match parse_seqset (fst c), snd c with
  | Ok (s, r), Some (s', r') => seqset_eqb s s' && bytes_eqb r r'
  | NotParseable, None => true
  | _, _ => false
  end.

Definition chk_seq_print (c : seqset * bytes) : bool :=
  bytes_eqb (print_seqset (fst c)) (snd c).

(* (set, max, list(iter(max))) *)
Definition chk_seq_iter (c : seqset * N * list N) : bool :=
  let '(s, mx, l) := c in eqb_list N.eqb (seq_iter mx s) l.

(* (sorted distinct values, bytes(SequenceSet.build(values))) *)
Definition chk_seq_build (c : list N * bytes) : bool :=
  bytes_eqb (print_seqset (build_seqset (fst c))) (snd c).
