(* Wire/CmdLineProofs.v — proofs about Wire/CmdLine.v: whatever the spelling
   of each argument, the letter case of the command word and the number of
   spaces, the reader and the parser deliver the same command and consume
   exactly the bytes of the command (command_spelling). *)
From PV Require Import Base.Prelude Base.Decimal Wire.Lex Wire.LexProofs Wire.Strings
  Wire.StringsProofs Wire.ModUtf7 Wire.CmdLine.
From Coq Require Import Lia.

Local Open Scope N_scope.

(* ---------------------------------------------- parsers skip spaces first *)
Lemma parse_class_skip p b : parse_class p (skip_spaces b) = parse_class p b.
Proof. unfold parse_class. rewrite skip_spaces_idem. reflexivity. Qed.

Lemma parse_cstring_skip cls p cs b :
  parse_cstring cls p cs (skip_spaces b) = parse_cstring cls p cs b.
Proof.
  unfold parse_cstring, parse_string, parse_quoted, parse_literal.
  rewrite parse_class_skip, skip_spaces_idem. reflexivity.
Qed.

Lemma parse_space_repeat k x : (1 <= k)%nat ->
  parse_space (repeat SP k ++ x) = Some (skip_spaces (repeat SP k ++ x)).
Proof. destruct k as [|k]; [lia|]. intros _. reflexivity. Qed.

(* -------------------------------------------------- the layout of a wire *)
(* first buffer and, per synchronizing literal, (announced size, continuation
   buffer) *)
Fixpoint layout (args : list warg) (ke : nat) (crlf : bool) : bytes * list (N * bytes) :=
  match args with
  | [] => (repeat SP ke ++ eol_bytes crlf, [])
  | WRaw n x _ :: r =>
    let '(b, cs) := layout r ke crlf in (repeat SP n ++ x ++ b, cs)
  | WStr a :: r =>
    let '(b, cs) := layout r ke crlf in
    match sa_sp a with
    | SpLit => (repeat SP (sa_spaces a) ++ lit_prefix false (blen (sa_val a)),
                (blen (sa_val a), sa_val a ++ b) :: cs)
    | sp => (repeat SP (sa_spaces a) ++ spell_line sp (sa_val a) ++ b, cs)
    end
  end.

Lemma layout_wire args ke crlf :
  flat_map arg_wire args ++ repeat SP ke ++ eol_bytes crlf
  = fst (layout args ke crlf) ++ concat (map snd (snd (layout args ke crlf))).
Proof.
  induction args as [|a r IH]; cbn [flat_map layout].
  - cbn [fst snd map concat]. rewrite app_nil_r. reflexivity.
  - destruct (layout r ke crlf) as [b cs] eqn:E. cbn [fst snd] in IH.
    rewrite <- app_assoc, IH. destruct a as [a|n x v]; unfold arg_wire.
    + destruct (sa_sp a); cbn [fst snd map concat spell_line]; rewrite <- ?app_assoc; reflexivity.
    + cbn [fst snd]. rewrite <- !app_assoc. reflexivity.
Qed.

Definition wspaces (w : warg) : nat := match w with WStr a => sa_spaces a | WRaw n _ _ => n end.

(* what follows an argument is a space or the end of the line *)
Lemma layout_follow args ke crlf : Forall (fun a => (1 <= wspaces a)%nat) args ->
  follow_ok (fst (layout args ke crlf)).
Proof.
  intros H. destruct args as [|a r].
  - cbn [layout fst]. destruct ke; [destruct crlf|]; cbn; auto.
  - inversion H as [|? ? Ha _]; subst. cbn [layout].
    destruct (layout r ke crlf) as [b cs]. destruct a as [a|n x v]; cbn [wspaces] in Ha.
    + destruct (sa_spaces a) as [|k]; [lia|]. destruct (sa_sp a); cbn; auto.
    + destruct n; [lia|]. cbn. auto.
Qed.

Lemma follow_head p rest : follow_ok rest -> p SP = false -> p CR = false -> p LF = false ->
  head_sat p rest = false.
Proof. destruct rest as [|c r]; [intros []|]. cbn. intros [H|[H|H]] ? ? ?; subst c; assumption. Qed.

Lemma arg_ok_spaces p k w : arg_ok p k w -> (1 <= wspaces w)%nat.
Proof. destruct k, w; cbn; tauto. Qed.

Lemma Forall2_spaces p kinds args : Forall2 (arg_ok p) kinds args ->
  Forall (fun a => (1 <= wspaces a)%nat) args.
Proof. induction 1; constructor; eauto using arg_ok_spaces. Qed.

Lemma kind_class_facts k : kind_class k SP = false /\ kind_class k DQUOTE = false /\
  kind_class k LBRACE = false /\ kind_class k CR = false /\ kind_class k LF = false /\
  kind_class k RBRACE = false.
Proof. destruct k; repeat split; reflexivity. Qed.

(* the parser of a string position *)
Definition item_parser (k : argkind) : sparams -> list bytes -> bytes -> pres (bytes * bytes) :=
  parse_cstring (kind_class k).

Lemma parse_tail_layout opts ke crlf : parse_tail opts (repeat SP ke ++ eol_bytes crlf) = Some (Some []).
Proof.
  unfold parse_tail, parse_endline. rewrite skip_spaces_repeat.
  destruct crlf; cbn; rewrite andb_false_r; reflexivity.
Qed.

(* ---------------------------------------------------- parsing the layout *)
Lemma parse_args_layout p opts ke crlf : forall args kinds vals,
  Forall2 (arg_ok p) kinds args -> interp_all kinds args = Some vals ->
  (forall extra, parse_args kinds opts p (map snd (snd (layout args ke crlf)) ++ extra)
                            (fst (layout args ke crlf)) = POk (Some vals) [] extra) /\
  (forall j, (j < length (snd (layout args ke crlf)))%nat ->
     parse_args kinds opts p (firstn j (map snd (snd (layout args ke crlf))))
                (fst (layout args ke crlf))
     = PNeed (fst (nth j (snd (layout args ke crlf)) (0, [])))).
Proof.
  induction args as [|a r IH]; intros kinds vals Hok Hi.
  - inversion Hok; subst. cbn in Hi. inversion Hi; subst.
    cbn [layout fst snd map length]. split; [|intros j Hj; lia].
    intro extra. cbn [parse_args app]. rewrite parse_tail_layout. reflexivity.
  - inversion Hok as [|k a0 ks r0 Ha Hr]; subst. cbn [interp_all] in Hi.
    destruct (match a with WStr a1 => interp k (sa_val a1) | WRaw _ _ v => Some v end) as [av|] eqn:Ek;
      [|discriminate].
    destruct (interp_all ks r) as [l|] eqn:El; [|discriminate].
    inversion Hi; subst.
    destruct (IH ks l Hr El) as [IHfull IHneed]. clear IH.
    pose proof (layout_follow r ke crlf (Forall2_spaces _ _ _ Hr)) as Hfol.
    cbn [layout]. destruct (layout r ke crlf) as [b cs] eqn:E. cbn [fst snd] in *.
    destruct a as [a|n x v].
    + (* a string position *)
      assert (Hk : exists cls, cls = kind_class k /\
                 (forall cs0 b0, (match k with
                                  | ARaw r1 => PFail
                                  | _ => pbind (match k with
                                                | AListMb => parse_cstring listmb_char p cs0 b0
                                                | _ => parse_astring p cs0 b0 end)
                                           (fun vr b2 cs2 => match interp k (fst vr) with
                                              | Some a1 => pbind (parse_args ks opts p cs2 b2)
                                                   (fun l0 b3 cs3 => POk (option_map (cons a1) l0) b3 cs3)
                                              | None => PFail end)
                                  end) =
                                 pbind (parse_cstring cls p cs0 b0)
                                   (fun vr b2 cs2 => match interp k (fst vr) with
                                      | Some a1 => pbind (parse_args ks opts p cs2 b2)
                                           (fun l0 b3 cs3 => POk (option_map (cons a1) l0) b3 cs3)
                                      | None => PFail end))).
      { exists (kind_class k). split; [reflexivity|]. intros cs0 b0.
        destruct k; cbn [kind_class arg_ok] in *; try reflexivity. destruct Ha. }
      destruct Hk as (cls & Ecls & Hstep).
      assert (Hnotraw : forall r1, k <> ARaw r1) by (intros r1 ->; exact Ha).
      assert (Harg : (1 <= sa_spaces a)%nat /\ spelling_okc cls p (sa_sp a) (sa_val a) = true).
      { subst cls. destruct k; cbn [arg_ok] in Ha; try exact Ha. destruct Ha. }
      destruct Harg as [Hsp Hspell].
      destruct (kind_class_facts k) as (F1 & F2 & F3 & F4 & F5 & F6). rewrite <- Ecls in *.
      pose proof (follow_head cls b Hfol F1 F4 F5) as Hhead.
      assert (Estep : forall cs0 b0,
                parse_args (k :: ks) opts p cs0 (repeat SP (sa_spaces a) ++ b0) =
                pbind (parse_cstring cls p cs0 (repeat SP (sa_spaces a) ++ b0))
                  (fun vr b2 cs2 => match interp k (fst vr) with
                     | Some a1 => pbind (parse_args ks opts p cs2 b2)
                          (fun l0 b3 cs3 => POk (option_map (cons a1) l0) b3 cs3)
                     | None => PFail end)).
      { intros cs0 b0. cbn [parse_args]. rewrite (parse_space_repeat (sa_spaces a) b0 Hsp).
        destruct k; try (exfalso; eapply Hnotraw; reflexivity);
          rewrite <- (parse_cstring_skip _ p cs0 (repeat SP (sa_spaces a) ++ b0)); subst cls; reflexivity. }
      destruct (sa_sp a) eqn:Es; cbn [fst snd map].
      * pose proof (fun cs0 => cstring_spelling cls p SpAtom (sa_val a) (sa_spaces a) b cs0 F1 F2 F3
                                 Hspell (fun _ => Hhead)) as A.
        cbn [spell_conts spell_buf spell_line spell_raw] in A. cbn [spell_line].
        split.
        -- intro extra. rewrite Estep, A. cbn [pbind fst]. rewrite Ek, IHfull. reflexivity.
        -- intros j Hj. rewrite Estep, A. cbn [pbind fst]. rewrite Ek, (IHneed j Hj). reflexivity.
      * pose proof (fun cs0 => cstring_spelling cls p SpQuoted (sa_val a) (sa_spaces a) b cs0 F1 F2 F3
                                 Hspell (fun H => ltac:(discriminate H))) as A.
        cbn [spell_conts spell_buf spell_line spell_raw] in A. cbn [spell_line].
        split.
        -- intro extra. rewrite Estep, A. cbn [pbind fst]. rewrite Ek, IHfull. reflexivity.
        -- intros j Hj. rewrite Estep, A. cbn [pbind fst]. rewrite Ek, (IHneed j Hj). reflexivity.
      * pose proof (fun cs0 => cstring_spelling cls p SpLit (sa_val a) (sa_spaces a) b cs0 F1 F2 F3
                                 Hspell (fun H => ltac:(discriminate H))) as A.
        cbn [spell_conts spell_buf spell_line spell_raw] in A.
        split.
        -- intro extra. cbn [app]. rewrite Estep, A. cbn [pbind fst]. rewrite Ek, IHfull. reflexivity.
        -- intros j Hj. cbn [length] in Hj. destruct j as [|j].
           ++ cbn [firstn nth fst]. rewrite Estep.
              pose proof (cstring_lit_needs_cont cls p (sa_val a) (sa_spaces a) F1 F2 F3 Hspell) as B.
              cbn [spell_line] in B. rewrite B. reflexivity.
           ++ cbn [firstn nth]. rewrite Estep, A. cbn [pbind fst]. rewrite Ek.
              rewrite (IHneed j) by lia. reflexivity.
      * pose proof (fun cs0 => cstring_spelling cls p SpLitPlus (sa_val a) (sa_spaces a) b cs0 F1 F2 F3
                                 Hspell (fun H => ltac:(discriminate H))) as A.
        cbn [spell_conts spell_buf spell_line spell_raw] in A. cbn [spell_line].
        split.
        -- intro extra. rewrite Estep, A. cbn [pbind fst]. rewrite Ek, IHfull. reflexivity.
        -- intros j Hj. rewrite Estep, A. cbn [pbind fst]. rewrite Ek, (IHneed j Hj). reflexivity.
    + (* a raw position *)
      destruct k as [| | |rk]; cbn [arg_ok] in Ha; try (destruct Ha; fail).
      destruct Ha as (Hn & Hne & Hhd & Hlf & Hse & Hparse). inversion Ek; subst av.
      assert (Esk : skip_spaces (repeat SP n ++ x ++ b) = x ++ b).
      { rewrite skip_spaces_repeat. destruct x as [|c x']; [congruence|]. cbn [app head_sat] in *.
        apply skip_spaces_nonspace. intro Ec. subst c. rewrite N.eqb_refl in Hhd. discriminate. }
      split.
      * intro extra. cbn [fst snd parse_args]. rewrite parse_space_repeat by exact Hn.
        rewrite Esk, (Hparse b Hfol). rewrite IHfull. reflexivity.
      * intros j Hj. cbn [fst snd parse_args] in *. rewrite parse_space_repeat by exact Hn.
        rewrite Esk, (Hparse b Hfol). rewrite (IHneed j Hj). reflexivity.
Qed.

(* ------------------------------------------------------------ the reader *)
Lemma lf_free_app x y : lf_free x -> lf_free y -> lf_free (x ++ y).
Proof. unfold lf_free. intros Hx Hy. rewrite forallb_app, Hx, Hy. reflexivity. Qed.

Lemma lf_free_repeat k : lf_free (repeat SP k).
Proof. induction k; [reflexivity|]. unfold lf_free in *. cbn [repeat forallb]. rewrite IHk. reflexivity. Qed.

Lemma lf_free_class p x : p LF = false -> forallb p x = true -> lf_free x.
Proof.
  intros Hp H. unfold lf_free. induction x as [|c x IH]; [reflexivity|].
  cbn [forallb] in *. apply andb_true_iff in H as [Hc Hx]. rewrite (IH Hx), andb_true_r.
  apply negb_true_iff, N.eqb_neq. intro E. subst c. congruence.
Qed.

Lemma read_line_lf_free l s : lf_free l -> read_line (l ++ LF :: s) = Some (l ++ [LF], s).
Proof.
  unfold lf_free. induction l as [|c l IH]; intro H.
  - reflexivity.
  - cbn [forallb] in H. apply andb_true_iff in H as [Hc Hl]. apply negb_true_iff in Hc.
    cbn [app read_line]. rewrite Hc, (IH Hl). reflexivity.
Qed.

(* the tail glued to a first line L *)
Inductive gtail : bytes -> bytes -> Prop :=
| gt_last L : lit_plus_suffix L = None -> gtail L []
| gt_plus L n v l2 R :
    lit_plus_suffix L = Some n -> blen v = n -> lf_free l2 -> gtail (l2 ++ [LF]) R ->
    gtail L (v ++ (l2 ++ [LF]) ++ R).

Lemma glue_gtail L R : gtail L R -> forall more fuel,
  (length (R ++ more) <= fuel)%nat -> glue fuel L (R ++ more) = Ok (R, more).
Proof.
  induction 1 as [L HL|L n v l2 R HL Hn Hl2 _ IH]; intros more fuel Hf.
  - destruct fuel; cbn [glue]; rewrite HL; reflexivity.
  - destruct fuel as [|f].
    { rewrite !app_length in Hf. cbn [length] in Hf. lia. }
    cbn [glue]. rewrite HL. subst n.
    rewrite <- !app_assoc. cbn [app].
    destruct (N.ltb_spec (blen (v ++ l2 ++ LF :: R ++ more)) (blen v)) as [Hlt|_].
    { unfold blen in Hlt. rewrite app_length in Hlt. lia. }
    rewrite drop_app, take_app. rewrite read_line_lf_free by exact Hl2.
    rewrite IH.
    + cbn [bind fst snd]. rewrite <- !app_assoc. reflexivity.
    + rewrite <- !app_assoc in Hf. cbn [app] in Hf. rewrite !app_length in Hf. cbn [length] in Hf.
      rewrite !app_length in *. lia.
Qed.

Definition glued (g : bytes) : Prop :=
  exists l R, g = (l ++ [LF]) ++ R /\ lf_free l /\ gtail (l ++ [LF]) R.

Lemma conn_readline_glued g more : glued g -> conn_readline (g ++ more) = Ok (g, more).
Proof.
  intros (l & R & -> & Hl & Hg). unfold conn_readline.
  rewrite <- !app_assoc. cbn [app]. rewrite read_line_lf_free by exact Hl.
  rewrite glue_gtail by (exact Hg || lia). cbn [bind fst snd]. rewrite <- app_assoc. reflexivity.
Qed.

Lemma glued_nonempty g : glued g -> (1 <= length g)%nat.
Proof. intros (l & R & -> & _). rewrite !app_length. cbn. lia. Qed.

Lemma read_continuation_glued v g more : glued g ->
  read_continuation (blen v) ((v ++ g) ++ more) = Ok (v ++ g, more).
Proof.
  intro Hg. unfold read_continuation. rewrite <- app_assoc.
  destruct (N.ltb_spec (blen (v ++ g ++ more)) (blen v)) as [Hlt|_].
  { unfold blen in Hlt. rewrite app_length in Hlt. lia. }
  rewrite drop_app, take_app, conn_readline_glued by exact Hg. reflexivity.
Qed.

(* ------------------------------------------ where a LITERAL+ marker is seen *)
Lemma forallb_rev {A} (p : A -> bool) l : forallb p (rev l) = forallb p l.
Proof. induction l as [|x l IH]; [reflexivity|]. cbn [rev forallb].
  rewrite forallb_app, IH. cbn [forallb]. rewrite andb_true_r, andb_comm. reflexivity. Qed.

Lemma rev_dec_digits n : forallb is_digit (rev (dec_of_N n)) = true.
Proof. rewrite forallb_rev. apply dec_of_N_digits. Qed.

Lemma rev_dec_cons n : exists d ds, rev (dec_of_N n) = d :: ds /\ is_digit d = true.
Proof.
  pose proof (rev_dec_digits n) as H. pose proof (dec_of_N_nonempty n) as Hn.
  destruct (rev (dec_of_N n)) as [|d ds] eqn:E.
  - apply (f_equal (@rev N)) in E. rewrite rev_involutive in E. cbn in E. congruence.
  - cbn [forallb] in H. apply andb_true_iff in H as [Hd _]. eauto.
Qed.

Lemma suffix_plus x n : lit_plus_suffix (x ++ lit_plus_prefix n) = Some n.
Proof.
  unfold lit_plus_suffix, lit_plus_prefix. rewrite !rev_app_distr. cbn [rev app].
  change (LF =? LF) with true. cbv iota. change (CR =? CR) with true. cbv iota.
  change ((RBRACE =? RBRACE) && (PLUS =? PLUS)) with true. cbv iota.
  rewrite <- !app_assoc. cbn [app].
  rewrite span_app; [|apply rev_dec_digits|reflexivity].
  destruct (rev_dec_cons n) as (d & ds & E & _). rewrite E.
  change (LBRACE =? LBRACE) with true. cbv iota. rewrite <- E, rev_involutive.
  pose proof (parse_number_print n [] eq_refl) as P. rewrite app_nil_r in P. rewrite P. reflexivity.
Qed.

Lemma suffix_sync x n : lit_plus_suffix (x ++ lit_prefix false n) = None.
Proof.
  unfold lit_plus_suffix, lit_prefix. cbn [app]. rewrite !rev_app_distr. cbn [rev app].
  rewrite ?rev_app_distr. cbn [rev app].
  change (LF =? LF) with true. cbv iota. change (CR =? CR) with true. cbv iota.
  rewrite <- !app_assoc. cbn [app].
  destruct (rev_dec_cons n) as (d & ds & E & Hd). rewrite E. cbn [app].
  change (RBRACE =? RBRACE) with true.
  assert (d =? PLUS = false) as ->.
  { apply N.eqb_neq. intro Ed. subst d. discriminate Hd. }
  reflexivity.
Qed.

Lemma safe_end_app x y : y <> [] -> safe_end y -> safe_end (x ++ y).
Proof.
  unfold safe_end. intros Hy H. rewrite rev_app_distr.
  destruct (rev y) as [|c r] eqn:E; [|exact H].
  apply (f_equal (@rev N)) in E. rewrite rev_involutive in E. cbn in E. congruence.
Qed.

Lemma safe_end_last x c : c <> RBRACE -> c <> CR -> safe_end (x ++ [c]).
Proof. intros H1 H2. apply safe_end_app; [discriminate|]. cbn. auto. Qed.

Lemma rev_repeat {A} (a : A) k : rev (repeat a k) = repeat a k.
Proof.
  induction k as [|k IH]; [reflexivity|]. cbn [repeat rev]. rewrite IH.
  clear IH. induction k as [|k IH]; [reflexivity|]. cbn [repeat app]. rewrite IH. reflexivity.
Qed.

Lemma suffix_eol pre ke crlf : safe_end pre ->
  lit_plus_suffix (pre ++ repeat SP ke ++ eol_bytes crlf) = None.
Proof.
  unfold safe_end, lit_plus_suffix. intro H. rewrite !rev_app_distr, rev_repeat.
  destruct crlf; cbn [eol_bytes rev app].
  - change (LF =? LF) with true. cbv iota. change (CR =? CR) with true. cbv iota.
    destruct ke as [|ke]; cbn [repeat app].
    + destruct (rev pre) as [|a [|b r]]; try reflexivity. destruct H as [H1 _].
      apply N.eqb_neq in H1. rewrite H1. reflexivity.
    + destruct (repeat SP ke ++ rev pre) as [|b r]; reflexivity.
  - change (LF =? LF) with true. cbv iota.
    destruct ke as [|ke]; cbn [repeat app].
    + destruct (rev pre) as [|a r]; [reflexivity|]. destruct H as [H1 H2].
      apply N.eqb_neq in H1. apply N.eqb_neq in H2. rewrite H2.
      destruct r as [|b r]; [reflexivity|]. rewrite H1. reflexivity.
    + change (SP =? CR) with false. cbv iota.
      destruct (repeat SP ke ++ rev pre) as [|b r]; reflexivity.
Qed.

(* ------------------------------------------- the layout is what is read *)
Lemma lf_free_dec n : lf_free (dec_of_N n).
Proof. apply (lf_free_class is_digit); [reflexivity|apply dec_of_N_digits]. Qed.

Lemma lit_prefix_split n : exists l, lit_prefix false n = l ++ [LF] /\ lf_free l.
Proof.
  exists ([LBRACE] ++ dec_of_N n ++ [RBRACE; CR]). split.
  - unfold lit_prefix. cbn [app]. rewrite <- app_assoc. reflexivity.
  - apply (lf_free_app [LBRACE]); [reflexivity|]. apply lf_free_app; [apply lf_free_dec|reflexivity].
Qed.

Lemma lit_plus_prefix_split n : exists l, lit_plus_prefix n = l ++ [LF] /\ lf_free l.
Proof.
  exists ([LBRACE] ++ dec_of_N n ++ [PLUS; RBRACE; CR]). split.
  - unfold lit_plus_prefix. cbn [app]. rewrite <- app_assoc. reflexivity.
  - apply (lf_free_app [LBRACE]); [reflexivity|]. apply lf_free_app; [apply lf_free_dec|reflexivity].
Qed.

Lemma lf_free_escape v : no_crlf v = true -> lf_free (escape_quoted v).
Proof.
  induction v as [|c v IH]; intro H; [reflexivity|].
  apply no_crlf_cons in H as (_ & Hlf & Hv). specialize (IH Hv). unfold lf_free in *.
  apply N.eqb_neq in Hlf. cbn [escape_quoted].
  destruct ((c =? DQUOTE) || (c =? BSLASH)); cbn [forallb]; rewrite Hlf, IH; reflexivity.
Qed.

Lemma lf_free_print_quoted v : no_crlf v = true -> lf_free (print_quoted v).
Proof. intro H. unfold print_quoted. apply (lf_free_app [DQUOTE]); [reflexivity|].
  apply lf_free_app; [apply lf_free_escape, H|reflexivity]. Qed.

Lemma safe_end_class p x : x <> [] -> forallb p x = true -> p RBRACE = false -> p CR = false ->
  safe_end x.
Proof.
  intros Hne H H1 H2. unfold safe_end. rewrite <- forallb_rev in H.
  destruct (rev x) as [|c r]; [exact I|]. cbn [forallb] in H. apply andb_true_iff in H as [Hc _].
  split; intro E; subst c; congruence.
Qed.

Lemma is_class_atom_spec cls v : is_class_atom cls v = true -> v <> [] /\ forallb cls v = true.
Proof. unfold is_class_atom. destruct v; [discriminate|]. intro H. split; [discriminate|exact H]. Qed.

Lemma layout_glued p ke crlf : forall args kinds, Forall2 (arg_ok p) kinds args ->
  (forall pre, lf_free pre -> safe_end pre -> glued (pre ++ fst (layout args ke crlf))) /\
  Forall (fun nc => exists v g, snd nc = v ++ g /\ fst nc = blen v /\ glued g)
         (snd (layout args ke crlf)).
Proof.
  induction args as [|a r IH]; intros kinds Hok.
  - cbn [layout fst snd]. split; [|constructor]. intros pre Hpre Hsafe.
    exists (pre ++ repeat SP ke ++ (if crlf then [CR] else [])), [].
    split; [|split].
    + rewrite app_nil_r. rewrite <- !app_assoc. destruct crlf; reflexivity.
    + apply lf_free_app; [exact Hpre|]. apply lf_free_app; [apply lf_free_repeat|].
      destruct crlf; reflexivity.
    + apply gt_last.
      replace ((pre ++ repeat SP ke ++ (if crlf then [CR] else [])) ++ [LF])
        with (pre ++ repeat SP ke ++ eol_bytes crlf)
        by (rewrite <- !app_assoc; destruct crlf; reflexivity).
      apply suffix_eol. exact Hsafe.
  - inversion Hok as [|k a0 ks r0 Ha Hr]; subst.
    destruct (IH ks Hr) as [IH1 IH2]. clear IH. cbn [layout].
    destruct (layout r ke crlf) as [b cs] eqn:E. cbn [fst snd] in *.
    destruct a as [a|n x v].
    2:{ (* a raw argument *)
      destruct k as [| | |rk]; cbn [arg_ok] in Ha; try (destruct Ha; fail).
      destruct Ha as (Hn & Hne & Hhd & Hlf & Hse & _).
      cbn [fst snd]. split; [|exact IH2]. intros pre Hpre Hsafe.
      replace (pre ++ repeat SP n ++ x ++ b) with ((pre ++ repeat SP n ++ x) ++ b)
        by (rewrite <- !app_assoc; reflexivity).
      apply IH1.
      - apply lf_free_app; [exact Hpre|]. apply lf_free_app; [apply lf_free_repeat|exact Hlf].
      - rewrite app_assoc. apply safe_end_app; assumption. }
    assert (Harg : (1 <= sa_spaces a)%nat /\ spelling_okc (kind_class k) p (sa_sp a) (sa_val a) = true).
    { destruct k; cbn [arg_ok] in Ha; try exact Ha. destruct Ha. }
    destruct Harg as [Hsp Hspell].
    destruct (kind_class_facts k) as (F1 & F2 & F3 & F4 & F5 & F6).
    destruct (sa_sp a) eqn:Es; cbn [fst snd spelling_okc spelling_ok] in *.
    + (* atom *)
      split; [|exact IH2]. intros pre Hpre Hsafe. cbn [spell_line].
      destruct (is_class_atom_spec _ _ Hspell) as [Hne Hall].
      replace (pre ++ repeat SP (sa_spaces a) ++ sa_val a ++ b)
        with ((pre ++ repeat SP (sa_spaces a) ++ sa_val a) ++ b) by (rewrite <- !app_assoc; reflexivity).
      apply IH1.
      * apply lf_free_app; [exact Hpre|]. apply lf_free_app; [apply lf_free_repeat|].
        apply (lf_free_class (kind_class k)); assumption.
      * rewrite app_assoc. apply safe_end_app; [exact Hne|].
        apply (safe_end_class (kind_class k)); assumption.
    + (* quoted *)
      split; [|exact IH2]. intros pre Hpre Hsafe. cbn [spell_line].
      replace (pre ++ repeat SP (sa_spaces a) ++ print_quoted (sa_val a) ++ b)
        with ((pre ++ repeat SP (sa_spaces a) ++ print_quoted (sa_val a)) ++ b)
        by (rewrite <- !app_assoc; reflexivity).
      apply IH1.
      * apply lf_free_app; [exact Hpre|]. apply lf_free_app; [apply lf_free_repeat|].
        apply lf_free_print_quoted, Hspell.
      * unfold print_quoted.
        replace (pre ++ repeat SP (sa_spaces a) ++ DQUOTE :: escape_quoted (sa_val a) ++ [DQUOTE])
          with ((pre ++ repeat SP (sa_spaces a) ++ DQUOTE :: escape_quoted (sa_val a)) ++ [DQUOTE])
          by (rewrite <- !app_assoc; reflexivity).
        apply safe_end_last; discriminate.
    + (* synchronizing literal *)
      split.
      * intros pre Hpre Hsafe.
        destruct (lit_prefix_split (blen (sa_val a))) as (l & El & Hl).
        exists (pre ++ repeat SP (sa_spaces a) ++ l), []. split; [|split].
        -- rewrite app_nil_r, El, <- !app_assoc. reflexivity.
        -- apply lf_free_app; [exact Hpre|]. apply lf_free_app; [apply lf_free_repeat|exact Hl].
        -- apply gt_last.
           replace ((pre ++ repeat SP (sa_spaces a) ++ l) ++ [LF])
             with ((pre ++ repeat SP (sa_spaces a)) ++ lit_prefix false (blen (sa_val a)))
             by (rewrite El, <- !app_assoc; reflexivity).
           apply suffix_sync.
      * constructor; [|exact IH2]. cbn [fst snd]. exists (sa_val a), b.
        split; [reflexivity|]. split; [reflexivity|].
        apply (IH1 []); [reflexivity|exact I].
    + (* non-synchronizing literal *)
      split; [|exact IH2]. intros pre Hpre Hsafe. cbn [spell_line].
      destruct (lit_plus_prefix_split (blen (sa_val a))) as (l & El & Hl).
      destruct (IH1 [] eq_refl I) as (l2 & R & Eb & Hl2 & Hg). cbn [app] in Eb.
      exists (pre ++ repeat SP (sa_spaces a) ++ l), (sa_val a ++ (l2 ++ [LF]) ++ R).
      split; [|split].
      -- rewrite El, Eb, <- !app_assoc. reflexivity.
      -- apply lf_free_app; [exact Hpre|]. apply lf_free_app; [apply lf_free_repeat|exact Hl].
      -- apply (gt_plus _ (blen (sa_val a))); [|reflexivity|exact Hl2|exact Hg].
         replace ((pre ++ repeat SP (sa_spaces a) ++ l) ++ [LF])
           with ((pre ++ repeat SP (sa_spaces a)) ++ lit_plus_prefix (blen (sa_val a)))
           by (rewrite El, <- !app_assoc; reflexivity).
         apply suffix_plus.
Qed.

(* ------------------------------------------------------ the re-parse loop *)
Lemma reparse_loop_ok parse line c next : forall rem done fuel nreq r0 cs0,
  (forall k, (k < length rem)%nat ->
     parse (done ++ firstn k (map snd rem)) line = PNeed (fst (nth k rem (0, [])))) ->
  parse (done ++ map snd rem) line = POk c r0 cs0 ->
  Forall (fun nc => exists v g, snd nc = v ++ g /\ fst nc = blen v /\ glued g) rem ->
  (length (concat (map snd rem) ++ next) < fuel)%nat ->
  reparse_loop fuel parse line done (concat (map snd rem) ++ next) nreq
  = Ok (c, next, (nreq + length rem)%nat).
Proof.
  induction rem as [|[n cb] rem IH]; intros done fuel nreq r0 cs0 Hneed Hok Hrem Hfuel.
  - cbn [map concat app length] in *. rewrite app_nil_r in Hok.
    destruct fuel; cbn [reparse_loop]; rewrite Hok; rewrite Nat.add_0_r; reflexivity.
  - inversion Hrem as [|? ? Hh Ht]; subst. destruct Hh as (v & g & Ecb & En & Hg).
    cbn [fst snd] in Ecb, En. subst cb n.
    destruct fuel as [|f]; [lia|]. cbn [reparse_loop].
    pose proof (Hneed 0%nat ltac:(cbn; lia)) as H0. cbn [firstn nth fst] in H0.
    rewrite app_nil_r in H0. rewrite H0.
    cbn [map concat snd]. rewrite <- app_assoc.
    rewrite read_continuation_glued by exact Hg. cbn [bind fst snd].
    assert (X : reparse_loop f parse line (done ++ [v ++ g]) (concat (map snd rem) ++ next) (S nreq)
                = Ok (c, next, (S nreq + length rem)%nat)).
    { apply (IH (done ++ [v ++ g]) f (S nreq) r0 cs0).
      + intros k Hk. rewrite <- app_assoc. cbn [app].
        exact (Hneed (S k) ltac:(cbn; lia)).
      + rewrite <- app_assoc. exact Hok.
      + exact Ht.
      + cbn [map concat snd] in Hfuel. rewrite <- app_assoc in Hfuel.
        pose proof (glued_nonempty g Hg). rewrite !app_length in *. lia. }
    refine (eq_trans X _). cbn [length]. f_equal. f_equal. lia.
Qed.

(* ----------------------------------------------------- the whole command *)
Lemma count_sync_layout args ke crlf :
  length (snd (layout args ke crlf)) = count_sync args.
Proof.
  unfold count_sync. induction args as [|a r IH]; [reflexivity|]. cbn [layout filter].
  destruct (layout r ke crlf) as [b cs]. cbn [snd] in IH. destruct a as [a|n x v]; cbn [is_sync].
  - destruct (sa_sp a); cbn [snd length]; rewrite IH; reflexivity.
  - cbn [snd]. exact IH.
Qed.

(* the command line as the parser sees it *)
Lemma parse_command_layout table p tag kw w kinds opts args ke crlf vals :
  tag <> [] -> forallb tag_char tag = true ->
  (1 <= kw)%nat -> w <> [] -> forallb atom_char w = true ->
  lookup (upper_bytes w) table = Some (kinds, opts) ->
  Forall2 (arg_ok p) kinds args -> interp_all kinds args = Some vals ->
  let line := tag ++ repeat SP kw ++ w ++ fst (layout args ke crlf) in
  let cs := snd (layout args ke crlf) in
  parse_command table p (map snd cs) line = POk (Cmd tag (upper_bytes w) vals) [] [] /\
  (forall j, (j < length cs)%nat ->
     parse_command table p (firstn j (map snd cs)) line = PNeed (fst (nth j cs (0, [])))).
Proof.
  intros Htag Htagc Hkw Hw Hwc Hlook Hok Hi line cs.
  pose proof (follow_head atom_char _ (layout_follow args ke crlf (Forall2_spaces _ _ _ Hok))
                eq_refl eq_refl eq_refl) as Hhead.
  destruct (parse_args_layout p opts ke crlf args kinds vals Hok Hi) as [Pfull Pneed].
  assert (Etag : forall X, parse_class tag_char (tag ++ repeat SP kw ++ X)
                            = Some (tag, repeat SP kw ++ X)).
  { intro X. apply (parse_class_print tag_char 0); auto using tag_char_SP.
    destruct kw; [lia|]. reflexivity. }
  assert (Eatom : parse_atom (skip_spaces (repeat SP kw ++ w ++ fst (layout args ke crlf)))
                  = Some (w, fst (layout args ke crlf))).
  { unfold parse_atom. rewrite parse_class_skip.
    apply parse_class_print; auto using atom_char_SP. }
  split.
  - unfold parse_command, line. rewrite Etag. rewrite parse_space_repeat by exact Hkw.
    rewrite Eatom, Hlook. specialize (Pfull []). rewrite app_nil_r in Pfull.
    fold cs. unfold cs. rewrite Pfull. reflexivity.
  - intros j Hj. unfold parse_command, line. rewrite Etag. rewrite parse_space_repeat by exact Hkw.
    rewrite Eatom, Hlook. unfold cs. rewrite (Pneed j Hj). reflexivity.
Qed.

(* Whatever the spelling of each string argument (atom, quoted, synchronizing or
   non-synchronizing literal), the letter case of the command word, the
   number of spaces before the word, before each argument and before the end
   of the line, and the line ending (CRLF or LF): the server reads exactly the
   bytes of the command, asks for one continuation per synchronizing literal,
   and the parser delivers the command with the upper-cased word and the
   argument VALUES. *)
Theorem command_spelling table p tag kw w kinds opts args ke crlf next vals :
  tag <> [] -> forallb tag_char tag = true ->
  (1 <= kw)%nat -> w <> [] -> forallb atom_char w = true ->
  lookup (upper_bytes w) table = Some (kinds, opts) ->
  Forall2 (arg_ok p) kinds args -> interp_all kinds args = Some vals ->
  read_command table p (cmd_wire tag kw w args ke crlf ++ next)
  = Ok (Cmd tag (upper_bytes w) vals, next, count_sync args).
Proof.
  intros Htag Htagc Hkw Hw Hwc Hlook Hok Hi.
  destruct (parse_command_layout table p tag kw w kinds opts args ke crlf vals
              Htag Htagc Hkw Hw Hwc Hlook Hok Hi) as [Pfull Pneed].
  destruct (layout_glued p ke crlf args kinds Hok) as [G1 G2].
  unfold read_command, cmd_wire.
  replace ((tag ++ repeat SP kw ++ w ++ flat_map arg_wire args ++ repeat SP ke ++ eol_bytes crlf) ++ next)
    with (((tag ++ repeat SP kw ++ w) ++ fst (layout args ke crlf)) ++
          concat (map snd (snd (layout args ke crlf))) ++ next).
  2:{ rewrite layout_wire. rewrite <- !app_assoc. reflexivity. }
  rewrite conn_readline_glued.
  2:{ apply G1.
      - apply lf_free_app; [apply (lf_free_class tag_char); [reflexivity|exact Htagc]|].
        apply lf_free_app; [apply lf_free_repeat|].
        apply (lf_free_class atom_char); [reflexivity|exact Hwc].
      - rewrite app_assoc. apply safe_end_app; [exact Hw|].
        apply (safe_end_class atom_char); auto. }
  cbn [bind fst snd].
  rewrite <- count_sync_layout with (ke := ke) (crlf := crlf).
  rewrite <- !app_assoc.
  rewrite (reparse_loop_ok _ _ (Cmd tag (upper_bytes w) vals) next _ [] _ 0 [] []).
  - reflexivity.
  - intros k Hk. cbn [app]. exact (Pneed k Hk).
  - cbn [app]. exact Pfull.
  - exact G2.
  - apply Nat.lt_succ_diag_r.
Qed.

(* two wire forms of the same tag, the same word up to letter case and the
   same argument values are read as the same command, each consuming exactly
   its own bytes *)
Corollary command_spelling_independent table p tag kinds opts vals
    kw1 w1 args1 ke1 crlf1 kw2 w2 args2 ke2 crlf2 next1 next2 :
  tag <> [] -> forallb tag_char tag = true ->
  (1 <= kw1)%nat -> w1 <> [] -> forallb atom_char w1 = true ->
  (1 <= kw2)%nat -> w2 <> [] -> forallb atom_char w2 = true ->
  upper_bytes w1 = upper_bytes w2 ->
  lookup (upper_bytes w1) table = Some (kinds, opts) ->
  Forall2 (arg_ok p) kinds args1 -> Forall2 (arg_ok p) kinds args2 ->
  interp_all kinds args1 = Some vals -> interp_all kinds args2 = Some vals ->
  exists c, read_command table p (cmd_wire tag kw1 w1 args1 ke1 crlf1 ++ next1)
            = Ok (c, next1, count_sync args1) /\
            read_command table p (cmd_wire tag kw2 w2 args2 ke2 crlf2 ++ next2)
            = Ok (c, next2, count_sync args2).
Proof.
  intros Htag Htagc Hk1 Hw1 Hc1 Hk2 Hw2 Hc2 Hup Hlook Ho1 Ho2 Hi1 Hi2.
  exists (Cmd tag (upper_bytes w1) vals). split.
  - apply (command_spelling table p tag kw1 w1 kinds opts); assumption.
  - rewrite Hup. apply (command_spelling table p tag kw2 w2 kinds opts); try assumption.
    rewrite <- Hup. exact Hlook.
Qed.
