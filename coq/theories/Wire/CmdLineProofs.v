(* Wire/CmdLineProofs.v — proofs about Wire/CmdLine.v: whatever the spelling
   of each argument, the letter case of the command word and the number of
   spaces, the reader and the parser deliver the same command and consume
   exactly the bytes of the command (command_spelling). *)
From PV Require Import Base.Prelude Base.Decimal Wire.Lex Wire.LexProofs Wire.Strings
  Wire.StringsProofs Wire.ModUtf7 Wire.CmdLine.
From Coq Require Import Lia.

Local Open Scope N_scope.

(* ---------------------------------------------- parsers skip spaces first *)
Lemma parse_class_skip p b : parse_class p (skip_spaces b) = parse_class p b.
Proof. unfold parse_class. rewrite skip_spaces_idem. reflexivity. Qed.

Lemma parse_astring_skip p cs b : parse_astring p cs (skip_spaces b) = parse_astring p cs b.
Proof.
  unfold parse_astring, parse_string, parse_quoted, parse_literal.
  rewrite parse_class_skip, skip_spaces_idem. reflexivity.
Qed.

Lemma parse_space_repeat k x : (1 <= k)%nat ->
  parse_space (repeat SP k ++ x) = Some (skip_spaces (repeat SP k ++ x)).
Proof. destruct k as [|k]; [lia|]. intros _. reflexivity. Qed.

(* -------------------------------------------------- the layout of a wire *)
(* first buffer and, per synchronizing literal, (announced size, continuation
   buffer) *)
Fixpoint layout (args : list sparg) (ke : nat) (crlf : bool) : bytes * list (N * bytes) :=
  match args with
  | [] => (repeat SP ke ++ eol_bytes crlf, [])
  | a :: r =>
    let '(b, cs) := layout r ke crlf in
    match sa_sp a with
    | SpLit => (repeat SP (sa_spaces a) ++ lit_prefix false (blen (sa_val a)),
                (blen (sa_val a), sa_val a ++ b) :: cs)
    | sp => (repeat SP (sa_spaces a) ++ spell_line sp (sa_val a) ++ b, cs)
    end
  end.

Lemma layout_wire args ke crlf :
  flat_map arg_wire args ++ repeat SP ke ++ eol_bytes crlf
  = fst (layout args ke crlf) ++ concat (map snd (snd (layout args ke crlf))).
Proof.
  induction args as [|a r IH]; cbn [flat_map layout].
  - cbn [fst snd map concat]. rewrite app_nil_r. reflexivity.
  - destruct (layout r ke crlf) as [b cs] eqn:E. cbn [fst snd] in IH.
    rewrite <- app_assoc, IH. unfold arg_wire.
    destruct (sa_sp a); cbn [fst snd map concat spell_line]; rewrite <- ?app_assoc; reflexivity.
Qed.

(* what follows an argument is a space or the end of the line *)
Lemma layout_head args ke crlf : Forall (fun a => (1 <= sa_spaces a)%nat) args ->
  forall p, p SP = false -> p CR = false -> p LF = false ->
  head_sat p (fst (layout args ke crlf)) = false.
Proof.
  intros H p Hsp Hcr Hlf. destruct args as [|a r].
  - cbn [layout fst]. destruct ke; [destruct crlf|]; cbn; assumption.
  - inversion H as [|? ? Ha _]; subst. cbn [layout].
    destruct (layout r ke crlf) as [b cs].
    destruct (sa_spaces a) as [|k]; [lia|].
    destruct (sa_sp a); cbn; assumption.
Qed.

(* ---------------------------------------------------- parsing the layout *)
Lemma parse_args_layout p ke crlf : forall args kinds vals,
  Forall (arg_ok p) args -> interp_all kinds (map sa_val args) = Some vals ->
  (forall extra, parse_args kinds p (map snd (snd (layout args ke crlf)) ++ extra)
                            (fst (layout args ke crlf)) = POk vals [] extra) /\
  (forall j, (j < length (snd (layout args ke crlf)))%nat ->
     parse_args kinds p (firstn j (map snd (snd (layout args ke crlf))))
                (fst (layout args ke crlf))
     = PNeed (fst (nth j (snd (layout args ke crlf)) (0, [])))).
Proof.
  induction args as [|a r IH]; intros kinds vals Hok Hi.
  - destruct kinds; [|discriminate]. cbn in Hi. inversion Hi; subst.
    cbn [layout fst snd map length]. split; [|intros j Hj; lia].
    intro extra. cbn [parse_args app]. unfold parse_endline. rewrite skip_spaces_repeat.
    destruct crlf; reflexivity.
  - destruct kinds as [|k ks]; [discriminate|]. cbn [map interp_all] in Hi.
    destruct (interp k (sa_val a)) as [av|] eqn:Ek; [|discriminate].
    destruct (interp_all ks (map sa_val r)) as [l|] eqn:El; [|discriminate].
    inversion Hi; subst. inversion Hok as [|? ? Ha Hr]; subst. destruct Ha as [Hsp Hspell].
    destruct (IH ks l Hr El) as [IHfull IHneed]. clear IH.
    pose proof (layout_head r ke crlf) as Hhead.
    assert (Hsp' : Forall (fun a => (1 <= sa_spaces a)%nat) r).
    { eapply Forall_impl; [|exact Hr]. intros x [Hx _]. exact Hx. }
    specialize (Hhead Hsp' astring_char eq_refl eq_refl eq_refl).
    cbn [layout]. destruct (layout r ke crlf) as [b cs] eqn:E. cbn [fst snd] in *.
    destruct (sa_sp a) eqn:Es; cbn [fst snd map].
    + (* atom *)
      pose proof (fun cs0 => astring_spelling p SpAtom (sa_val a) (sa_spaces a) b cs0 Hspell (fun _ => Hhead)) as A.
      cbn [spell_conts spell_buf spell_line spell_raw] in A.
      split.
      * intro extra. cbn [parse_args]. rewrite parse_space_repeat by exact Hsp.
        rewrite parse_astring_skip, A. cbn [pbind fst]. rewrite Ek, IHfull. reflexivity.
      * intros j Hj. cbn [parse_args]. rewrite parse_space_repeat by exact Hsp.
        rewrite parse_astring_skip, A. cbn [pbind fst]. rewrite Ek, (IHneed j Hj). reflexivity.
    + (* quoted *)
      pose proof (fun cs0 => astring_spelling p SpQuoted (sa_val a) (sa_spaces a) b cs0 Hspell
                               (fun H => ltac:(discriminate H))) as A.
      cbn [spell_conts spell_buf spell_line spell_raw] in A.
      split.
      * intro extra. cbn [parse_args]. rewrite parse_space_repeat by exact Hsp.
        rewrite parse_astring_skip, A. cbn [pbind fst]. rewrite Ek, IHfull. reflexivity.
      * intros j Hj. cbn [parse_args]. rewrite parse_space_repeat by exact Hsp.
        rewrite parse_astring_skip, A. cbn [pbind fst]. rewrite Ek, (IHneed j Hj). reflexivity.
    + (* synchronizing literal *)
      pose proof (fun cs0 => astring_spelling p SpLit (sa_val a) (sa_spaces a) b cs0 Hspell
                               (fun H => ltac:(discriminate H))) as A.
      cbn [spell_conts spell_buf spell_line spell_raw] in A.
      split.
      * intro extra. cbn [parse_args app]. rewrite parse_space_repeat by exact Hsp.
        rewrite parse_astring_skip, A. cbn [pbind fst]. rewrite Ek, IHfull. reflexivity.
      * intros j Hj. cbn [length] in Hj. destruct j as [|j].
        -- cbn [firstn nth fst parse_args]. rewrite parse_space_repeat by exact Hsp.
           rewrite parse_astring_skip.
           pose proof (astring_lit_needs_cont p (sa_val a) (sa_spaces a) Hspell) as B.
           cbn [spell_line] in B. rewrite B. reflexivity.
        -- cbn [firstn nth parse_args]. rewrite parse_space_repeat by exact Hsp.
           rewrite parse_astring_skip, A. cbn [pbind fst]. rewrite Ek.
           rewrite (IHneed j) by lia. reflexivity.
    + (* non-synchronizing literal *)
      pose proof (fun cs0 => astring_spelling p SpLitPlus (sa_val a) (sa_spaces a) b cs0 Hspell
                               (fun H => ltac:(discriminate H))) as A.
      cbn [spell_conts spell_buf spell_line spell_raw] in A.
      split.
      * intro extra. cbn [parse_args]. rewrite parse_space_repeat by exact Hsp.
        cbn [spell_line]. rewrite parse_astring_skip, A. cbn [pbind fst].
        rewrite Ek, IHfull. reflexivity.
      * intros j Hj. cbn [parse_args]. rewrite parse_space_repeat by exact Hsp.
        cbn [spell_line]. rewrite parse_astring_skip, A. cbn [pbind fst].
        rewrite Ek, (IHneed j Hj). reflexivity.
Qed.
