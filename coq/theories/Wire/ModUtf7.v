(* Wire/ModUtf7.v — model of pymap/parsing/modutf7.py and of
   pymap/parsing/specials/mailbox.py.  Definitions only.

   str = list of code points.  modutf7_decode goes through CPython's
   bytes.decode('utf-7') (strict); [u7_run] is that decoder's state machine
   (Objects/unicodeobject.c, PyUnicode_DecodeUTF7Stateful, 3.12).
   modutf7_encode (as fixed, see docs/C18.md) encodes a run of characters
   outside 0x20..0x7e as base64 of its UTF-16-BE form without padding,
   with ',' for '/'. *)
From PV Require Import Base.Prelude Base.Decimal.
From PV Require Export Wire.Lex Wire.Strings.

Local Open Scope N_scope.

Definition EXC_UNICODE : N := 1.   (* UnicodeDecodeError escapes *)

(* ------------------------------------------------------------- UTF-16 *)
Definition is_high (u : N) : bool := in_range 55296 56319 u.   (* D800..DBFF *)
Definition is_low (u : N) : bool := in_range 56320 57343 u.    (* DC00..DFFF *)
Definition is_surrogate (u : N) : bool := in_range 55296 57343 u.
Definition scalar (c : N) : bool := (c <? 1114112) && negb (is_surrogate c).

(* str.encode('utf-16-be', 'surrogatepass'), as 16-bit units *)
Definition utf16_units (c : N) : list N :=
  if c <? 65536 then [c]
  else [55296 + (c - 65536) / 1024; 56320 + (c - 65536) mod 1024].
Definition utf16 (s : list N) : list N := flat_map utf16_units s.
Definition unit_bytes (u : N) : bytes := [u / 256; u mod 256].
Definition utf16be (s : list N) : bytes := flat_map unit_bytes (utf16 s).
Definition join_surrogates (hi lo : N) : N := 65536 + (hi - 55296) * 1024 + (lo - 56320).

(* ------------------------------------------------------------- base64 *)
(* sextets of base64.b64encode(b) with the '=' padding stripped *)
Fixpoint b64_groups (b : bytes) : list N :=
  match b with
  | x :: y :: z :: r =>
      x / 4 :: (x mod 4) * 16 + y / 16 :: (y mod 16) * 4 + z / 64 :: z mod 64 :: b64_groups r
  | [x; y] => [x / 4; (x mod 4) * 16 + y / 16; (y mod 16) * 4]
  | [x] => [x / 4; (x mod 4) * 16]
  | [] => []
  end.

(* the modified alphabet: A-Z a-z 0-9 + , *)
Definition b64char (x : N) : N :=
  if x <? 26 then 65 + x
  else if x <? 52 then 97 + (x - 26)
  else if x <? 62 then 48 + (x - 52)
  else if x =? 62 then PLUS else COMMA_.

(* _modified_b64encode *)
Definition mb64 (run : list N) : bytes := map b64char (b64_groups (utf16be run)).

(* IS_BASE64 / FROM_BASE64 of the utf-7 codec: A-Z a-z 0-9 + /  *)
Definition from_b64 (c : N) : option N :=
  if in_range 65 90 c then Some (c - 65)
  else if in_range 97 122 c then Some (c - 97 + 26)
  else if in_range 48 57 c then Some (c - 48 + 52)
  else if c =? PLUS then Some 62
  else if c =? SLASH then Some 63
  else None.

(* ------------------------------------------- bytes.decode('utf-7') *)
(* one base64 character in a shift sequence: 6 more bits; a 16-bit unit
   comes out when 16 are available *)
Definition push6 (bits buf x : N) : option N * N * N :=
  let buf1 := buf * 64 + x in
  let bits1 := bits + 6 in
  if 16 <=? bits1
  then (Some (buf1 / 2 ^ (bits1 - 16)), bits1 - 16, buf1 mod 2 ^ (bits1 - 16))
  else (None, bits1, buf1).

(* surrogate pairing of the units that come out; surr = 0: none pending;
   out is the reversed output *)
Definition emit (surr u : N) (out : list N) : N * list N :=
  if negb (surr =? 0) then
    if is_low u then (0, join_surrogates surr u :: out)
    else if is_high u then (u, surr :: out)
    else (0, u :: surr :: out)
  else if is_high u then (u, out) else (0, u :: out).

Record u7state := { u7_shift : bool; u7_bits : N; u7_buf : N; u7_surr : N }.
Definition u7_init : u7state := {| u7_shift := false; u7_bits := 0; u7_buf := 0; u7_surr := 0 |}.

Fixpoint u7_run (st : u7state) (b : bytes) (out : list N) : result (list N) :=
  match b with
  | [] =>
    if u7_shift st &&
       (negb (u7_surr st =? 0) || (6 <=? u7_bits st) ||
        ((0 <? u7_bits st) && negb (u7_buf st =? 0)))
    then Exc EXC_UNICODE           (* unterminated shift sequence *)
    else Ok (rev out)
  | c :: r =>
    if u7_shift st then
      match from_b64 c with
      | Some x =>
        let '(o, bits', buf') := push6 (u7_bits st) (u7_buf st) x in
        match o with
        | Some u =>
          let '(surr', out') := emit (u7_surr st) u out in
          u7_run {| u7_shift := true; u7_bits := bits'; u7_buf := buf'; u7_surr := surr' |} r out'
        | None =>
          u7_run {| u7_shift := true; u7_bits := bits'; u7_buf := buf'; u7_surr := u7_surr st |} r out
        end
      | None =>                    (* leaving the base64 section *)
        if (0 <? u7_bits st) && ((6 <=? u7_bits st) || negb (u7_buf st =? 0))
        then Exc EXC_UNICODE       (* partial character / non-zero padding bits *)
        else
          let out1 := if negb (u7_surr st =? 0) && (c <=? 127) then u7_surr st :: out else out in
          if c =? MINUS then u7_run u7_init r out1        (* '-' is absorbed *)
          else if c <=? 127 then u7_run u7_init r (c :: out1)
          else Exc EXC_UNICODE     (* unexpected special character *)
      end
    else if c =? PLUS then
      match r with
      | d :: r' =>
        if d =? MINUS then u7_run u7_init r' (PLUS :: out)
        else match from_b64 d with
             | None => Exc EXC_UNICODE    (* ill-formed sequence *)
             | Some _ => u7_run {| u7_shift := true; u7_bits := 0; u7_buf := 0; u7_surr := 0 |} r out
             end
      | [] => u7_run {| u7_shift := true; u7_bits := 0; u7_buf := 0; u7_surr := 0 |} r out
      end
    else if c <=? 127 then u7_run st r (c :: out)
    else Exc EXC_UNICODE           (* unexpected special character *)
  end.

Definition py_utf7_decode (b : bytes) : result (list N) := u7_run u7_init b [].

(* _modified_b64decode:  (b'+' + src.replace(b',', b'/') + b'-').decode('utf-7') *)
Definition comma_to_slash (c : N) : N := if c =? COMMA_ then SLASH else c.
Definition mb64_decode (src : bytes) : result (list N) :=
  py_utf7_decode (PLUS :: map comma_to_slash src ++ [MINUS]).

(* ------------------------------------------------------ modutf7_encode *)
Definition printable (c : N) : bool := in_range 32 126 c.

(* run = None: is_usascii; Some acc: the characters since encode_start, reversed *)
Fixpoint enc (run : option (list N)) (s : list N) : bytes :=
  match s with
  | [] =>
    match run with
    | None => []
    | Some acc => AMP :: mb64 (rev acc) ++ [MINUS]
    end
  | c :: r =>
    match run with
    | None =>
      if c =? AMP then AMP :: MINUS :: enc None r
      else if printable c then c :: enc None r
      else enc (Some [c]) r
    | Some acc =>
      if printable c then
        AMP :: mb64 (rev acc) ++ MINUS ::
        (if c =? AMP then [AMP; MINUS] else [c]) ++ enc None r
      else enc (Some (c :: acc)) r
    end
  end.
Definition modutf7_encode (s : list N) : bytes := enc None s.

(* ------------------------------------------------------ modutf7_decode *)
(* st = None: is_usascii; Some src: bytes since the '&', reversed.
   acc: the decoded characters so far, reversed. *)
Fixpoint dec (st : option bytes) (b : bytes) (acc : list N) : result (list N) :=
  match b with
  | [] =>
    match st with
    | None => Ok (rev acc)
    | Some src =>                (* unterminated shift sequence: decoded as if closed *)
      bind (mb64_decode (rev src)) (fun cps => Ok (rev (rev cps ++ acc)))
    end
  | c :: r =>
    match st with
    | None =>
      if c =? AMP then
        match r with
        | d :: r' => if d =? MINUS then dec None r' (AMP :: acc) else dec (Some []) r acc
        | [] => dec (Some []) r acc
        end
      else dec None r (c :: acc)
    | Some src =>
      if c =? MINUS then
        match mb64_decode (rev src) with
        | Ok cps => dec None r (rev cps ++ acc)
        | NotParseable => NotParseable
        | Exc k => Exc k
        | OutOfFuel => OutOfFuel
        end
      else dec (Some (c :: src)) r acc
    end
  end.
Definition modutf7_decode (b : bytes) : result (list N) := dec None b [].

(* ------------------------------------------------------------- Mailbox *)
Definition INBOX : list N := [73; 78; 66; 79; 88].
(* mailbox.isascii() and mailbox.upper() == 'INBOX' *)
Definition is_inbox_str (s : list N) : bool :=
  match s with
  | [a; b; c; d; e] =>
    ((a =? 73) || (a =? 105)) && ((b =? 78) || (b =? 110)) &&
    ((c =? 66) || (c =? 98)) && ((d =? 79) || (d =? 111)) && ((e =? 88) || (e =? 120))
  | _ => false
  end.
(* Mailbox.__init__ *)
Definition mailbox_norm (s : list N) : list N := if is_inbox_str s then INBOX else s.
(* bytes(Mailbox(name)): what LIST and STATUS print *)
Definition print_mailbox (s : list N) : bytes :=
  if is_inbox_str s then INBOX else print_astring (modutf7_encode s).
(* Mailbox.parse; a UnicodeError raised by modutf7_decode is NotParseable *)
Definition parse_mailbox (p : sparams) (cs : list bytes) (b : bytes) : pres (list N) :=
  pbind (parse_astring p cs b) (fun vr rest cs' =>
    if bytes_eqb (upper_bytes (fst vr)) INBOX then POk INBOX rest cs'
    else match modutf7_decode (fst vr) with
         | Ok s => POk (mailbox_norm s) rest cs'
         | _ => PFail
         end).
