(* Wire/CmdLineCheck.v — case checkers for the command reader. *)
From PV Require Import Base.Prelude Base.Decimal Wire.Lex Wire.Strings Wire.StringsCheck
  Wire.ModUtf7 Wire.ModUtf7Check Wire.SeqSet Wire.SeqSetCheck Wire.CmdLine.

Local Open Scope N_scope.

Definition argval_eqb (a b : argval) : bool :=
  match a, b with
  | VStr x, VStr y => bytes_eqb x y
  | VMbox x, VMbox y => eqb_list N.eqb x y
  | VPat x, VPat y => eqb_list N.eqb x y
  | VSeq x, VSeq y => seqset_eqb x y
  | VAttrs x, VAttrs y => eqb_list bytes_eqb x y
  | _, _ => false
  end.

Definition command_eqb (a b : command) : bool :=
  match a, b with
  | CmdInvalid, CmdInvalid => true
  | Cmd t n l, Cmd t' n' l' => bytes_eqb t t' && bytes_eqb n n' && eqb_list argval_eqb l l'
  | _, _ => false
  end.

(* Space.parse / EndLine.parse: (input, rest) *)
Definition chk_space (c : bytes * option bytes) : bool :=
  option_eqb bytes_eqb (parse_space (fst c)) (snd c).
Definition chk_endline (c : bytes * option bytes) : bool :=
  option_eqb bytes_eqb (parse_endline (fst c)) (snd c).

(* _literal_plus on one line *)
Definition chk_litplus (c : bytes * option N) : bool :=
  option_eqb N.eqb (lit_plus_suffix (fst c)) (snd c).

(* Commands.parse on (continuations, line): the command object or the interrupt;
   a line the model declares outside its fragment (an option list) is skipped *)
Definition chk_command (c : list bytes * bytes * xres command) : bool :=
  let '(cs, b, x) := c in
  match parse_command cmd_table default_sparams cs b, x with
  | POk CmdOutside _ _, _ => true
  | POk a _ _, XOk a' _ _ => command_eqb a a'
  | PNeed n, XNeed n' => n =? n'
  | _, _ => false
  end.

(* IMAPConnection.read_command on a whole client byte stream:
   Some (command, unread rest, continuation requests) | None = EOF *)
Definition chk_read (c : bytes * option (command * bytes * N)) : bool :=
  match read_command cmd_table default_sparams (fst c), snd c with
  | Ok (CmdOutside, _, _), _ => true
  | Ok (cmd, rest, n), Some (cmd', rest', n') =>
    command_eqb cmd cmd' && bytes_eqb rest rest' && (N.of_nat n =? n')
  | Exc k, None => k =? EXC_EOF
  | _, _ => false
  end.
