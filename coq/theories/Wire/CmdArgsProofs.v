(* Wire/CmdArgsProofs.v — the raw (non-string) arguments of the modelled
   commands satisfy the hypotheses of command_spelling: a printed sequence set
   (COPY, MOVE) and a printed status attribute list (STATUS); instances of the
   theorem for the command table of Wire/CmdLine.v. *)
From PV Require Import Base.Prelude Base.Decimal Wire.Lex Wire.LexProofs Wire.Strings
  Wire.StringsProofs Wire.ModUtf7 Wire.SeqSet Wire.SeqSetProofs Wire.CmdLine Wire.CmdLineProofs.
From Coq Require Import Lia.

Local Open Scope N_scope.

Lemma forallb_impl {A} (p q : A -> bool) l :
  (forall x, p x = true -> q x = true) -> forallb p l = true -> forallb q l = true.
Proof. intros H. induction l as [|x l IH]; [reflexivity|]. cbn [forallb].
  intro E. apply andb_true_iff in E as [E1 E2]. rewrite (H _ E1), (IH E2). reflexivity. Qed.

(* ------------------------------------------------------------ sequence sets *)
Definition seqch (c : N) : bool := is_digit c || (c =? STAR) || (c =? COLON) || (c =? COMMA).

Lemma seqch_idx i : forallb seqch (print_idx i) = true.
Proof.
  destruct i as [n|]; cbn [print_idx]; [|reflexivity].
  apply (forallb_impl is_digit); [|apply dec_of_N_digits].
  intros x Hx. unfold seqch. rewrite Hx. reflexivity.
Qed.

Lemma seqch_elem e : forallb seqch (print_elem e) = true.
Proof. destruct e as [i|a b]; cbn [print_elem]; rewrite ?forallb_app, ?seqch_idx; reflexivity. Qed.

Lemma seqch_print s : forallb seqch (print_seqset s) = true.
Proof.
  induction s as [|e s IH]; [reflexivity|]. destruct s as [|e' s'].
  - apply seqch_elem.
  - change (print_seqset (e :: e' :: s')) with (print_elem e ++ [COMMA] ++ print_seqset (e' :: s')).
    rewrite !forallb_app, seqch_elem, IH. reflexivity.
Qed.

Lemma print_seqset_cons s : wf_seqset s = true ->
  exists c r, print_seqset s = c :: r /\ c <> SP.
Proof.
  unfold wf_seqset. destruct s as [|e s]; [discriminate|]. cbn [forallb]. intro H.
  apply andb_true_iff in H as [He _]. destruct (print_elem_cons e He) as (c & r & Ec & Hc).
  destruct s as [|e' s'].
  - cbn [print_seqset]. eauto.
  - change (print_seqset (e :: e' :: s')) with (print_elem e ++ [COMMA] ++ print_seqset (e' :: s')).
    rewrite Ec. cbn [app]. eauto.
Qed.

Theorem raw_seq_ok p s n : wf_seqset s = true -> (1 <= n)%nat ->
  arg_ok p (ARaw RSeq) (WRaw n (print_seqset s) (VSeq s)).
Proof.
  intros Hw Hn. destruct (print_seqset_cons s Hw) as (c & r & Ec & Hc). cbn [arg_ok].
  split; [exact Hn|]. split; [rewrite Ec; discriminate|]. split.
  { rewrite Ec. cbn [head_sat]. rewrite N.eqb_sym. apply N.eqb_neq. exact Hc. }
  split; [apply (lf_free_class seqch); [reflexivity|apply seqch_print]|]. split.
  { apply (safe_end_class seqch); [rewrite Ec; discriminate|apply seqch_print|reflexivity|reflexivity]. }
  intros rest Hf. cbn [raw_parse]. rewrite seqset_roundtrip; [reflexivity|exact Hw|].
  destruct rest as [|d rest']; [destruct Hf|]. cbn in Hf. destruct Hf as [H|[H|H]]; subst d; reflexivity.
Qed.

(* ------------------------------------------------- status attribute lists *)
Fixpoint join_sp (l : list bytes) : bytes :=
  match l with
  | [] => []
  | [a] => a
  | a :: l' => a ++ SP :: join_sp l'
  end.
Definition print_attrs (l : list bytes) : bytes := LPAREN :: join_sp l ++ [RPAREN].

Definition is_status (a : bytes) : Prop := In a valid_statuses.

Lemma status_facts a : is_status a ->
  a <> [] /\ forallb atom_char a = true /\ bytes_in (upper_bytes a) valid_statuses = true /\
  upper_bytes a = a /\ lf_free a.
Proof.
  unfold is_status, valid_statuses. cbn [In]. intro H.
  repeat (destruct H as [<-|H]; [repeat split; discriminate|]). destruct H.
Qed.

Lemma parse_atom_here a rest : a <> [] -> forallb atom_char a = true ->
  head_sat atom_char rest = false -> parse_atom (a ++ rest) = Some (a, rest).
Proof. intros. apply (parse_class_print atom_char 0); auto using atom_char_SP. Qed.

Lemma status_attr_first a rest : is_status a -> head_sat atom_char rest = false ->
  parse_status_attr (a ++ rest) = Some (a, rest).
Proof.
  intros Ha Hr. destruct (status_facts a Ha) as (Hne & Hall & Hin & Hup & _).
  unfold parse_status_attr. destruct a as [|c a']; [congruence|].
  assert (Hc : c <> SP). { cbn [forallb] in Hall. apply andb_true_iff in Hall as [Hc _].
    intro E. subst c. discriminate Hc. }
  cbn [app]. unfold parse_space. apply N.eqb_neq in Hc. rewrite Hc.
  change (c :: a' ++ rest) with ((c :: a') ++ rest). rewrite parse_atom_here by assumption.
  rewrite Hin, Hup. reflexivity.
Qed.

Lemma status_attr_next a rest : is_status a -> head_sat atom_char rest = false ->
  parse_status_attr (SP :: a ++ rest) = Some (a, rest).
Proof.
  intros Ha Hr. destruct (status_facts a Ha) as (Hne & Hall & Hin & Hup & _).
  unfold parse_status_attr. cbn [parse_space]. change (SP =? SP) with true. cbv iota.
  unfold parse_atom. rewrite parse_class_skip.
  change (SP :: a ++ rest) with (repeat SP 1 ++ a ++ rest).
  rewrite parse_class_print by (auto using atom_char_SP). rewrite Hin, Hup. reflexivity.
Qed.

Lemma list_end_letter a rest : is_status a -> list_end (a ++ rest) = None /\ list_end (SP :: a ++ rest) = None.
Proof.
  intro Ha. destruct (status_facts a Ha) as (Hne & Hall & _).
  destruct a as [|c a']; [congruence|]. cbn [forallb] in Hall. apply andb_true_iff in Hall as [Hc _].
  assert (H1 : c <> SP) by (intro E; subst c; discriminate Hc).
  assert (H2 : (c =? RPAREN) = false) by (apply N.eqb_neq; intro E; subst c; discriminate Hc).
  unfold list_end. cbn [app skip_spaces]. change (SP =? SP) with true. cbv iota.
  apply N.eqb_neq in H1. cbn [skip_spaces]. rewrite H1, H2. split; reflexivity.
Qed.

(* the loop, from the second attribute on: " A B C)" *)
Lemma attr_loop_rest l : Forall is_status l -> forall rest acc fuel, acc <> [] ->
  (length (flat_map (fun a => SP :: a) l ++ RPAREN :: rest) < fuel)%nat ->
  attr_loop fuel (flat_map (fun a => SP :: a) l ++ RPAREN :: rest) acc = Ok (rev acc ++ l, rest).
Proof.
  induction 1 as [|a l Ha _ IH]; intros rest acc fuel Hacc Hf.
  - cbn [flat_map app] in *. destruct fuel; [cbn in Hf; lia|]. cbn [attr_loop].
    unfold list_end. cbn [skip_spaces]. change (RPAREN =? SP) with false. cbv iota.
    change (RPAREN =? RPAREN) with true. cbv iota. rewrite app_nil_r. reflexivity.
  - cbn [flat_map app] in *. destruct fuel as [|f]; [cbn in Hf; lia|]. cbn [attr_loop].
    rewrite <- app_assoc in *.
    destruct (list_end_letter a (flat_map (fun a0 => SP :: a0) l ++ RPAREN :: rest) Ha) as [_ E].
    rewrite E. destruct acc as [|x acc']; [congruence|]. cbn [head_sat].
    change (SP =? SP) with true. cbn [negb andb].
    rewrite status_attr_next; [|exact Ha|].
    + rewrite IH; [|discriminate|].
      * cbn [rev]. rewrite <- !app_assoc. reflexivity.
      * cbn [length] in Hf. rewrite app_length in Hf. lia.
    + destruct l; reflexivity.
Qed.

Lemma join_sp_flat a l : join_sp (a :: l) = a ++ flat_map (fun x => SP :: x) l.
Proof.
  revert a. induction l as [|b l IH]; intro a; [cbn; rewrite app_nil_r; reflexivity|].
  change (join_sp (a :: b :: l)) with (a ++ SP :: join_sp (b :: l)). rewrite IH. reflexivity.
Qed.

Theorem attr_list_roundtrip l k rest : l <> [] -> Forall is_status l ->
  parse_attr_list (repeat SP k ++ print_attrs l ++ rest) = Ok (l, rest).
Proof.
  intros Hne Hl. destruct l as [|a l]; [congruence|]. inversion Hl as [|? ? Ha Hl']; subst.
  unfold parse_attr_list, print_attrs. rewrite skip_spaces_repeat. cbn [app skip_spaces].
  change (LPAREN =? SP) with false. cbv iota. change (LPAREN =? LPAREN) with true. cbv iota.
  rewrite join_sp_flat. rewrite <- !app_assoc. cbn [app].
  set (tail := flat_map (fun x => SP :: x) l ++ RPAREN :: rest).
  cbn [attr_loop].
  destruct (list_end_letter a tail Ha) as [E _]. rewrite E. cbn [andb].
  rewrite status_attr_first; [|exact Ha|subst tail; destruct l; reflexivity].
  subst tail. rewrite attr_loop_rest; [reflexivity|exact Hl'|discriminate|].
  destruct (status_facts a Ha) as (Hane & _). destruct a as [|c0 a0]; [congruence|].
  cbn [app length]. rewrite !app_length. cbn [length]. lia.
Qed.

Lemma lf_free_join l : Forall is_status l -> lf_free (join_sp l).
Proof.
  induction 1 as [|a l Ha _ IH]; [reflexivity|]. destruct l as [|b l'].
  - apply (status_facts a Ha).
  - change (join_sp (a :: b :: l')) with (a ++ SP :: join_sp (b :: l')).
    apply lf_free_app; [apply (status_facts a Ha)|]. apply (lf_free_app [SP]); [reflexivity|exact IH].
Qed.

Theorem raw_attrs_ok p l n : l <> [] -> Forall is_status l -> (1 <= n)%nat ->
  arg_ok p (ARaw RAttrs) (WRaw n (print_attrs l) (VAttrs l)).
Proof.
  intros Hne Hl Hn. cbn [arg_ok]. split; [exact Hn|]. split; [discriminate|].
  split; [reflexivity|]. split.
  { unfold print_attrs. apply (lf_free_app [LPAREN]); [reflexivity|].
    apply lf_free_app; [apply lf_free_join, Hl|reflexivity]. }
  split.
  { unfold print_attrs. change (LPAREN :: join_sp l ++ [RPAREN]) with ((LPAREN :: join_sp l) ++ [RPAREN]).
    apply safe_end_last; discriminate. }
  intros rest _. cbn [raw_parse].
  pose proof (attr_list_roundtrip l 0 rest Hne Hl) as E. cbn [repeat app] in E.
  rewrite E. reflexivity.
Qed.

(* ------------------------------------------------------------- instances *)
(* STATUS with a spelled mailbox and an attribute list; COPY with a sequence
   set and a spelled mailbox — as corollaries of command_spelling *)
Corollary status_spelling p tag kw w a l n ke crlf next name :
  tag <> [] -> forallb tag_char tag = true -> (1 <= kw)%nat ->
  upper_bytes w = w_STATUS -> w <> [] -> forallb atom_char w = true ->
  arg_ok p AMbox (WStr a) -> mbox_of_bytes (sa_val a) = Some name ->
  l <> [] -> Forall is_status l -> (1 <= n)%nat ->
  read_command cmd_table p (cmd_wire tag kw w [WStr a; WRaw n (print_attrs l) (VAttrs l)] ke crlf ++ next)
  = Ok (Cmd tag w_STATUS [VMbox name; VAttrs l], next, count_sync [WStr a]).
Proof.
  intros Ht Htc Hkw Hw Hwne Hwc Ha Hm Hl Hls Hn.
  rewrite <- Hw.
  rewrite (command_spelling cmd_table p tag kw w [AMbox; ARaw RAttrs] false _ ke crlf next
             [VMbox name; VAttrs l]); auto.
  - rewrite Hw. reflexivity.
  - constructor; [exact Ha|]. constructor; [|constructor]. apply raw_attrs_ok; assumption.
  - cbn [interp_all interp]. rewrite Hm. reflexivity.
Qed.

Corollary copy_spelling p tag kw w s n a ke crlf next name :
  tag <> [] -> forallb tag_char tag = true -> (1 <= kw)%nat ->
  upper_bytes w = w_COPY -> w <> [] -> forallb atom_char w = true ->
  wf_seqset s = true -> (1 <= n)%nat ->
  arg_ok p AMbox (WStr a) -> mbox_of_bytes (sa_val a) = Some name ->
  read_command cmd_table p (cmd_wire tag kw w [WRaw n (print_seqset s) (VSeq s); WStr a] ke crlf ++ next)
  = Ok (Cmd tag w_COPY [VSeq s; VMbox name], next, count_sync [WStr a]).
Proof.
  intros Ht Htc Hkw Hw Hwne Hwc Hs Hn Ha Hm.
  rewrite <- Hw.
  rewrite (command_spelling cmd_table p tag kw w [ARaw RSeq; AMbox] false _ ke crlf next
             [VSeq s; VMbox name]); auto.
  - rewrite Hw. reflexivity.
  - constructor; [apply raw_seq_ok; assumption|]. constructor; [exact Ha|constructor].
  - cbn [interp_all interp]. rewrite Hm. reflexivity.
Qed.

(* non-vacuity: LIST with a quoted reference and a wildcard pattern sent as
   LITERAL+; RENAME with a synchronizing literal then a LITERAL+ *)
Example command_spelling_examples :
  read_command cmd_table default_sparams
    (cmd_wire [97] 1 [108; 105; 115; 116]
       [WStr {| sa_spaces := 1; sa_sp := SpQuoted; sa_val := [] |};
        WStr {| sa_spaces := 2; sa_sp := SpLitPlus; sa_val := [97; 47; 37] |}] 0 true ++ [120])
  = Ok (Cmd [97] w_LIST [VMbox []; VPat [97; 47; 37]], [120], 0%nat) /\
  read_command cmd_table default_sparams
    (cmd_wire [97] 1 [82; 101; 78; 97; 109; 101]
       [WStr {| sa_spaces := 1; sa_sp := SpLit; sa_val := [97; 32; 98] |};
        WStr {| sa_spaces := 1; sa_sp := SpLitPlus; sa_val := [38; 65; 79; 107; 45] |}] 1 false ++ [120])
  = Ok (Cmd [97] w_RENAME [VMbox [97; 32; 98]; VMbox [233]], [120], 1%nat).
Proof. vm_compute. split; reflexivity. Qed.
