(* Wire/ModUtf7Proofs.v — proofs about Wire/ModUtf7.v: base64 / UTF-16
   lemmas, modutf7_roundtrip, mailbox_report_roundtrip. *)
From PV Require Import Base.Prelude Base.Decimal Wire.Lex Wire.LexProofs Wire.Strings
  Wire.StringsProofs Wire.ModUtf7.
From Coq Require Import Lia ZifyBool.

Local Open Scope N_scope.
Ltac Zify.zify_post_hook ::= Z.to_euclidean_division_equations.

(* ------------------------------------------------ finite case analysis *)
Lemma N_lt_in_seq n x : x < N.of_nat n -> In x (map N.of_nat (seq 0 n)).
Proof. intro H. apply in_map_iff. exists (N.to_nat x). split; [lia|]. apply in_seq. lia. Qed.

Lemma forall_lt64 (P : N -> bool) :
  forallb P (map N.of_nat (seq 0 64)) = true -> forall x, x < 64 -> P x = true.
Proof. intros H x Hx. rewrite forallb_forall in H. apply H. apply (N_lt_in_seq 64). exact Hx. Qed.

Definition b64char_ok (x : N) : bool :=
  match from_b64 (comma_to_slash (b64char x)) with Some y => y =? x | None => false end
  && negb (b64char x =? MINUS) && negb (comma_to_slash (b64char x) =? MINUS)
  && printable (b64char x) && negb (b64char x =? AMP).

Lemma b64char_facts x : x < 64 ->
  from_b64 (comma_to_slash (b64char x)) = Some x /\ b64char x <> MINUS /\
  comma_to_slash (b64char x) <> MINUS /\ printable (b64char x) = true /\ b64char x <> AMP.
Proof.
  intro Hx. assert (H : b64char_ok x = true).
  { apply forall_lt64; [vm_compute; reflexivity|exact Hx]. }
  unfold b64char_ok in H. rewrite !andb_true_iff, !negb_true_iff, !N.eqb_neq in H.
  destruct H as ((((H1 & H2) & H3) & H4) & H5).
  destruct (from_b64 (comma_to_slash (b64char x))) as [y|]; [|discriminate].
  apply N.eqb_eq in H1. subst y. auto.
Qed.

(* ----------------------------------------------- sextets of b64_groups *)
Lemma list_ind3 {A} (P : list A -> Prop) :
  P [] -> (forall a, P [a]) -> (forall a b, P [a; b]) ->
  (forall a b c r, P r -> P (a :: b :: c :: r)) -> forall l, P l.
Proof.
  intros H0 H1 H2 H3. fix IH 1.
  intros [|a [|b [|c r]]]; [exact H0|apply H1|apply H2|apply H3; apply IH].
Qed.

Definition lt256 (x : N) : Prop := x < 256.
Definition lt64 (x : N) : Prop := x < 64.

Lemma b64_groups_lt64 b : Forall lt256 b -> Forall lt64 (b64_groups b).
Proof.
  induction b as [|x|x y|x y z r IH] using list_ind3; intro H; cbn [b64_groups].
  - constructor.
  - inversion H; subst. unfold lt256, lt64 in *. repeat constructor; lia.
  - inversion H as [|? ? Hx H']; subst. inversion H'; subst. unfold lt256, lt64 in *.
    repeat constructor; lia.
  - inversion H as [|? ? Hx H']; subst. inversion H' as [|? ? Hy H'']; subst.
    inversion H'' as [|? ? Hz Hr]; subst. unfold lt256, lt64 in *.
    repeat constructor; try lia. exact (IH Hr).
Qed.

(* units produced by the decoder's bit buffer, and its final state *)
Fixpoint sx_out (bits buf : N) (xs : list N) : list N :=
  match xs with
  | [] => []
  | x :: r =>
    match push6 bits buf x with
    | (Some u, b', f') => u :: sx_out b' f' r
    | (None, b', f') => sx_out b' f' r
    end
  end.
Fixpoint sx_fin (bits buf : N) (xs : list N) : N * N :=
  match xs with
  | [] => (bits, buf)
  | x :: r => match push6 bits buf x with (_, b', f') => sx_fin b' f' r end
  end.
Fixpoint emits (surr : N) (out : list N) (us : list N) : N * list N :=
  match us with
  | [] => (surr, out)
  | u :: r => let '(s', o') := emit surr u out in emits s' o' r
  end.

Lemma push6_hold bits buf x : bits + 6 < 16 ->
  push6 bits buf x = (None, bits + 6, buf * 64 + x).
Proof. intro H. unfold push6. destruct (N.leb_spec 16 (bits + 6)); [lia|reflexivity]. Qed.

Lemma push6_emit bits buf x k : bits + 6 = 16 + k ->
  push6 bits buf x = (Some ((buf * 64 + x) / 2 ^ k), k, (buf * 64 + x) mod 2 ^ k).
Proof. intro H. unfold push6. destruct (N.leb_spec 16 (bits + 6)); [|lia].
  replace (bits + 6 - 16) with k by lia. reflexivity. Qed.

Definition lt65536 (u : N) : Prop := u < 65536.

(* three 16-bit units = six bytes = eight sextets: the buffer is empty again *)
Lemma sx_block u1 u2 u3 bs :
  u1 < 65536 -> u2 < 65536 -> u3 < 65536 ->
  sx_out 0 0 (b64_groups (unit_bytes u1 ++ unit_bytes u2 ++ unit_bytes u3 ++ bs))
  = u1 :: u2 :: u3 :: sx_out 0 0 (b64_groups bs) /\
  sx_fin 0 0 (b64_groups (unit_bytes u1 ++ unit_bytes u2 ++ unit_bytes u3 ++ bs))
  = sx_fin 0 0 (b64_groups bs).
Proof.
  intros H1 H2 H3. unfold unit_bytes. cbn [app b64_groups].
  set (a := u1 / 256). set (b := u1 mod 256). set (c := u2 / 256). set (d := u2 mod 256).
  set (e := u3 / 256). set (f := u3 mod 256).
  assert (Ha : a < 256) by (subst a; lia). assert (Hb : b < 256) by (subst b; lia).
  assert (Hc : c < 256) by (subst c; lia). assert (Hd : d < 256) by (subst d; lia).
  assert (He : e < 256) by (subst e; lia). assert (Hf : f < 256) by (subst f; lia).
  assert (E1 : u1 = a * 256 + b) by (subst a b; lia).
  assert (E2 : u2 = c * 256 + d) by (subst c d; lia).
  assert (E3 : u3 = e * 256 + f) by (subst e f; lia).
  clearbody a b c d e f. subst u1 u2 u3.
  cbn [sx_out sx_fin].
  rewrite (push6_hold 0 0) by lia.
  rewrite (push6_hold (0 + 6)) by lia.
  rewrite (push6_emit (0 + 6 + 6) _ _ 2) by lia.
  rewrite (push6_hold 2) by lia.
  rewrite (push6_hold (2 + 6)) by lia.
  rewrite (push6_emit (2 + 6 + 6) _ _ 4) by lia.
  rewrite (push6_hold 4) by lia.
  rewrite (push6_emit (4 + 6) _ _ 0) by lia.
  change (2 ^ 2) with 4. change (2 ^ 4) with 16. change (2 ^ 0) with 1.
  match goal with |- ?x1 :: ?x2 :: ?x3 :: sx_out ?k ?bf _ = _ /\ _ =>
    assert (X1 : x1 = a * 256 + b) by lia;
    assert (X2 : x2 = c * 256 + d) by lia;
    assert (X3 : x3 = e * 256 + f) by lia;
    assert (X4 : bf = 0) by lia
  end.
  rewrite X1, X2, X3, X4. split; reflexivity.
Qed.

Lemma sx_tail1 u : u < 65536 ->
  sx_out 0 0 (b64_groups (unit_bytes u)) = [u] /\
  sx_fin 0 0 (b64_groups (unit_bytes u)) = (2, 0).
Proof.
  intro H. unfold unit_bytes. cbn [b64_groups sx_out sx_fin].
  set (a := u / 256). set (b := u mod 256).
  assert (Ha : a < 256) by (subst a; lia). assert (Hb : b < 256) by (subst b; lia).
  assert (E1 : u = a * 256 + b) by (subst a b; lia). clearbody a b. subst u.
  rewrite (push6_hold 0 0) by lia.
  rewrite (push6_hold (0 + 6)) by lia.
  rewrite (push6_emit (0 + 6 + 6) _ _ 2) by lia.
  change (2 ^ 2) with 4.
  match goal with |- [?x1] = _ /\ (_, ?bf) = _ =>
    assert (X1 : x1 = a * 256 + b) by lia; assert (X4 : bf = 0) by lia end.
  rewrite X1, X4. split; reflexivity.
Qed.

Lemma sx_tail2 u1 u2 : u1 < 65536 -> u2 < 65536 ->
  sx_out 0 0 (b64_groups (unit_bytes u1 ++ unit_bytes u2)) = [u1; u2] /\
  sx_fin 0 0 (b64_groups (unit_bytes u1 ++ unit_bytes u2)) = (4, 0).
Proof.
  intros H1 H2. unfold unit_bytes. cbn [app b64_groups sx_out sx_fin].
  set (a := u1 / 256). set (b := u1 mod 256). set (c := u2 / 256). set (d := u2 mod 256).
  assert (Ha : a < 256) by (subst a; lia). assert (Hb : b < 256) by (subst b; lia).
  assert (Hc : c < 256) by (subst c; lia). assert (Hd : d < 256) by (subst d; lia).
  assert (E1 : u1 = a * 256 + b) by (subst a b; lia).
  assert (E2 : u2 = c * 256 + d) by (subst c d; lia).
  clearbody a b c d. subst u1 u2.
  rewrite (push6_hold 0 0) by lia.
  rewrite (push6_hold (0 + 6)) by lia.
  rewrite (push6_emit (0 + 6 + 6) _ _ 2) by lia.
  rewrite (push6_hold 2) by lia.
  rewrite (push6_hold (2 + 6)) by lia.
  rewrite (push6_emit (2 + 6 + 6) _ _ 4) by lia.
  change (2 ^ 2) with 4. change (2 ^ 4) with 16.
  match goal with |- [?x1; ?x2] = _ /\ (_, ?bf) = _ =>
    assert (X1 : x1 = a * 256 + b) by lia; assert (X2 : x2 = c * 256 + d) by lia;
    assert (X4 : bf = 0) by lia end.
  rewrite X1, X2, X4. split; reflexivity.
Qed.

(* base64 of the UTF-16-BE bytes of any list of units decodes, through the
   codec's bit buffer, to these units; fewer than 6 bits, all zero, remain *)
Lemma sx_units_roundtrip us : Forall lt65536 us ->
  sx_out 0 0 (b64_groups (flat_map unit_bytes us)) = us /\
  exists k, sx_fin 0 0 (b64_groups (flat_map unit_bytes us)) = (k, 0) /\ k < 6.
Proof.
  induction us as [|u|u1 u2|u1 u2 u3 r IH] using list_ind3; intro H.
  - split; [reflexivity|]. exists 0. split; [reflexivity|lia].
  - inversion H; subst. cbn [flat_map]. rewrite app_nil_r.
    destruct (sx_tail1 u) as [E1 E2]; [assumption|]. split; [exact E1|].
    exists 2. split; [exact E2|lia].
  - inversion H as [|? ? H1 H']; subst. inversion H' as [|? ? H2 _]; subst.
    cbn [flat_map]. rewrite app_nil_r.
    destruct (sx_tail2 u1 u2) as [E1 E2]; [assumption..|]. split; [exact E1|].
    exists 4. split; [exact E2|lia].
  - inversion H as [|? ? H1 H']; subst. inversion H' as [|? ? H2 H'']; subst.
    inversion H'' as [|? ? H3 Hr]; subst.
    cbn [flat_map]. destruct (sx_block u1 u2 u3 (flat_map unit_bytes r)) as [E1 E2]; [assumption..|].
    destruct (IH Hr) as [I1 I2]. rewrite E1, E2, I1. split; [reflexivity|exact I2].
Qed.

(* ------------------------------------- the codec on a run of base64 chars *)
Lemma u7_run_b64 xs : Forall lt64 xs -> forall bits buf surr out tail,
  u7_run {| u7_shift := true; u7_bits := bits; u7_buf := buf; u7_surr := surr |}
         (map comma_to_slash (map b64char xs) ++ tail) out
  = u7_run {| u7_shift := true; u7_bits := fst (sx_fin bits buf xs);
              u7_buf := snd (sx_fin bits buf xs);
              u7_surr := fst (emits surr out (sx_out bits buf xs)) |}
           tail (snd (emits surr out (sx_out bits buf xs))).
Proof.
  induction 1 as [|x xs Hx _ IH]; intros bits buf surr out tail.
  - reflexivity.
  - cbn [map app u7_run u7_shift u7_bits u7_buf u7_surr sx_fin sx_out].
    destruct (b64char_facts x Hx) as (E1 & _). rewrite E1.
    destruct (push6 bits buf x) as [[[u|] b'] f'].
    + cbn [emits]. destruct (emit surr u out) as [s' o']. apply IH.
    + apply IH.
Qed.

(* -------------------------------------------- surrogate pairs of scalars *)
Definition is_scalar (c : N) : Prop := scalar c = true.

Lemma emits_utf16 s : Forall is_scalar s -> forall out,
  emits 0 out (utf16 s) = (0, rev s ++ out).
Proof.
  induction 1 as [|c s Hc _ IH]; intro out; [reflexivity|].
  unfold utf16 in *. cbn [flat_map]. unfold is_scalar, scalar, is_surrogate, in_range in Hc.
  unfold utf16_units. destruct (N.ltb_spec c 65536) as [Hlt|Hge].
  - cbn [app emits]. unfold emit. cbn [negb N.eqb]. 
    assert (Eh : is_high c = false).
    { unfold is_high, in_range. lia. }
    rewrite Eh. rewrite IH. cbn [rev]. rewrite <- app_assoc. reflexivity.
  - cbn [app emits]. unfold emit at 1. cbn [negb N.eqb].
    assert (Eh : is_high (55296 + (c - 65536) / 1024) = true).
    { unfold is_high, in_range. lia. }
    rewrite Eh. unfold emit.
    assert (En : negb (55296 + (c - 65536) / 1024 =? 0) = true).
    { apply negb_true_iff. apply N.eqb_neq. lia. }
    rewrite En.
    assert (El : is_low (56320 + (c - 65536) mod 1024) = true).
    { unfold is_low, in_range. lia. }
    rewrite El. rewrite IH. cbn [rev]. rewrite <- app_assoc. cbn [app].
    replace (join_surrogates (55296 + (c - 65536) / 1024) (56320 + (c - 65536) mod 1024)) with c;
      [reflexivity|unfold join_surrogates; lia].
Qed.

Lemma utf16_lt65536 s : Forall is_scalar s -> Forall lt65536 (utf16 s).
Proof.
  induction 1 as [|c s Hc _ IH]; [constructor|].
  unfold utf16 in *. cbn [flat_map]. unfold is_scalar, scalar, is_surrogate, in_range in Hc.
  unfold utf16_units. destruct (N.ltb_spec c 65536).
  - constructor; [exact H|exact IH].
  - constructor; [unfold lt65536; lia|]. constructor; [unfold lt65536; lia|exact IH].
Qed.

Lemma unit_bytes_lt256 us : Forall lt65536 us -> Forall lt256 (flat_map unit_bytes us).
Proof.
  induction 1 as [|u us Hu _ IH]; [constructor|]. cbn [flat_map unit_bytes app].
  unfold lt65536, lt256 in *. constructor; [lia|]. constructor; [lia|exact IH].
Qed.

Definition sxs (run : list N) : list N := b64_groups (utf16be run).

Lemma sxs_lt64 run : Forall is_scalar run -> Forall lt64 (sxs run).
Proof. intro H. apply b64_groups_lt64, unit_bytes_lt256, utf16_lt65536, H. Qed.

Lemma sxs_nonempty run : run <> [] -> sxs run <> [].
Proof.
  destruct run as [|c r]; [congruence|]. intros _. unfold sxs, utf16be, utf16.
  cbn [flat_map]. unfold utf16_units.
  destruct (c <? 65536); cbn [app flat_map unit_bytes];
    match goal with |- b64_groups (?a :: ?b :: ?t) <> [] => destruct t as [|? ?]; cbn [b64_groups]; discriminate end.
Qed.

Lemma u7_run_plus d x r out : d <> MINUS -> from_b64 d = Some x ->
  u7_run u7_init (PLUS :: d :: r) out
  = u7_run {| u7_shift := true; u7_bits := 0; u7_buf := 0; u7_surr := 0 |} (d :: r) out.
Proof.
  intros Hd Hx. apply N.eqb_neq in Hd.
  change (u7_run u7_init (PLUS :: d :: r) out) with
    (if d =? MINUS then u7_run u7_init r (PLUS :: out)
     else match from_b64 d with
          | None => Exc EXC_UNICODE
          | Some _ => u7_run {| u7_shift := true; u7_bits := 0; u7_buf := 0; u7_surr := 0 |} (d :: r) out
          end).
  rewrite Hd, Hx. reflexivity.
Qed.

Lemma u7_run_leave k out : k < 6 ->
  u7_run {| u7_shift := true; u7_bits := k; u7_buf := 0; u7_surr := 0 |} [MINUS] out = Ok (rev out).
Proof.
  intro Hk.
  change (u7_run {| u7_shift := true; u7_bits := k; u7_buf := 0; u7_surr := 0 |} [MINUS] out)
    with (if (0 <? k) && ((6 <=? k) || negb (0 =? 0)) then Exc EXC_UNICODE else Ok (rev out)).
  destruct (N.leb_spec 6 k); [lia|]. cbn. rewrite andb_false_r. reflexivity.
Qed.

(* _modified_b64decode (_modified_b64encode run) = run *)
Theorem mb64_roundtrip run : run <> [] -> Forall is_scalar run ->
  mb64_decode (mb64 run) = Ok run.
Proof.
  intros Hne Hs. unfold mb64_decode, mb64, py_utf7_decode. fold (sxs run).
  pose proof (sxs_nonempty run Hne) as Hx. pose proof (sxs_lt64 run Hs) as Hl.
  destruct (sxs run) as [|x xs] eqn:Ex; [congruence|].
  inversion Hl as [|? ? Hx0 Hxs]; subst.
  destruct (b64char_facts x Hx0) as (F1 & _ & F3 & _).
  cbn [map app]. rewrite (u7_run_plus _ x) by assumption.
  change (comma_to_slash (b64char x) :: map comma_to_slash (map b64char xs) ++ [MINUS])
    with (map comma_to_slash (map b64char (x :: xs)) ++ [MINUS]).
  rewrite u7_run_b64 by exact Hl. rewrite <- Ex.
  unfold sxs, utf16be.
  destruct (sx_units_roundtrip (utf16 run) (utf16_lt65536 run Hs)) as (E1 & k & E2 & Hk).
  rewrite E1, E2. rewrite emits_utf16 by exact Hs. cbn [fst snd].
  rewrite u7_run_leave by exact Hk. rewrite app_nil_r, rev_involutive. reflexivity.
Qed.

(* -------------------------------------------- modutf7 encode / decode *)
Lemma mb64_no_minus run : Forall is_scalar run -> Forall (fun c => c <> MINUS) (mb64 run).
Proof.
  intro Hs. unfold mb64. fold (sxs run). pose proof (sxs_lt64 run Hs) as Hl.
  induction Hl as [|x xs Hx _ IH]; cbn [map]; constructor; [|exact IH].
  apply (b64char_facts x Hx).
Qed.

Lemma mb64_printable run : Forall is_scalar run -> forallb printable (mb64 run) = true.
Proof.
  intro Hs. unfold mb64. fold (sxs run). pose proof (sxs_lt64 run Hs) as Hl.
  induction Hl as [|x xs Hx _ IH]; cbn [map forallb]; [reflexivity|].
  rewrite IH. destruct (b64char_facts x Hx) as (_ & _ & _ & -> & _). reflexivity.
Qed.

Lemma mb64_nonempty run : run <> [] -> mb64 run <> [].
Proof. intro H. unfold mb64. fold (sxs run). pose proof (sxs_nonempty run H).
  destruct (sxs run); [congruence|discriminate]. Qed.

(* the decoder collects the bytes up to the next '-' *)
Lemma dec_collect xs : Forall (fun c => c <> MINUS) xs -> forall src after acc,
  dec (Some src) (xs ++ MINUS :: after) acc =
  match mb64_decode (rev src ++ xs) with
  | Ok cps => dec None after (rev cps ++ acc)
  | NotParseable => NotParseable
  | Exc k => Exc k
  | OutOfFuel => OutOfFuel
  end.
Proof.
  induction 1 as [|c xs Hc _ IH]; intros src after acc.
  - cbn [app dec]. change (MINUS =? MINUS) with true. cbv iota. rewrite app_nil_r. reflexivity.
  - cbn [app dec]. apply N.eqb_neq in Hc. rewrite Hc. rewrite IH. cbn [rev].
    rewrite <- app_assoc. reflexivity.
Qed.

(* one shifted section *)
Lemma dec_section run after acc : run <> [] -> Forall is_scalar run ->
  dec None (AMP :: mb64 run ++ MINUS :: after) acc = dec None after (rev run ++ acc).
Proof.
  intros Hne Hs. pose proof (mb64_nonempty run Hne) as Hm.
  pose proof (mb64_no_minus run Hs) as Hnm.
  destruct (mb64 run) as [|d m] eqn:Em; [congruence|].
  cbn [app dec]. change (AMP =? AMP) with true. cbv iota.
  inversion Hnm as [|? ? Hd Hrest]; subst. apply N.eqb_neq in Hd. rewrite Hd.
  rewrite dec_collect by exact Hrest. cbn [rev app]. rewrite <- Em.
  rewrite mb64_roundtrip by assumption. reflexivity.
Qed.

Lemma Forall_rev {A} (P : A -> Prop) l : Forall P l -> Forall P (rev l).
Proof. intro H. apply Forall_forall. intros x Hx. apply in_rev in Hx.
  rewrite Forall_forall in H. auto. Qed.

Lemma enc_dec s : Forall is_scalar s -> forall run acc,
  match run with None => True | Some r => r <> [] /\ Forall is_scalar r end ->
  dec None (enc run s) acc =
  Ok (rev acc ++ match run with None => [] | Some r => rev r end ++ s).
Proof.
  induction 1 as [|c s Hc Hs IH]; intros run acc Hrun.
  - destruct run as [r|]; cbn [enc].
    + destruct Hrun as [Hne Hr].
      change (AMP :: mb64 (rev r) ++ [MINUS]) with (AMP :: mb64 (rev r) ++ MINUS :: []).
      rewrite dec_section.
      * cbn [dec]. rewrite rev_app_distr, !rev_involutive, app_nil_r. reflexivity.
      * intro E. apply (f_equal (@rev N)) in E. rewrite rev_involutive in E. cbn in E. congruence.
      * apply Forall_rev, Hr.
    + cbn [dec app]. rewrite app_nil_r. reflexivity.
  - destruct run as [r|]; cbn [enc].
    + destruct Hrun as [Hne Hr]. destruct (printable c) eqn:Ep.
      * assert (Hne' : rev r <> []).
        { intro E. apply (f_equal (@rev N)) in E. rewrite rev_involutive in E. cbn in E. congruence. }
        rewrite dec_section by (auto using Forall_rev).
        destruct (c =? AMP) eqn:Ea.
        -- apply N.eqb_eq in Ea. subst c. cbn [app dec].
           change (AMP =? AMP) with true. cbv iota. change (MINUS =? MINUS) with true. cbv iota.
           rewrite (IH None) by exact I. cbn [rev app].
           rewrite rev_app_distr, rev_involutive. rewrite <- !app_assoc. reflexivity.
        -- cbn [app dec]. rewrite Ea. rewrite (IH None) by exact I. cbn [rev app].
           rewrite rev_app_distr, rev_involutive. rewrite <- !app_assoc. reflexivity.
      * rewrite (IH (Some (c :: r))).
        -- cbn [rev]. rewrite <- !app_assoc. reflexivity.
        -- split; [discriminate|]. constructor; assumption.
    + destruct (c =? AMP) eqn:Ea.
      * apply N.eqb_eq in Ea. subst c. cbn [dec].
        change (AMP =? AMP) with true. cbv iota. change (MINUS =? MINUS) with true. cbv iota.
        rewrite (IH None) by exact I. cbn [rev app]. rewrite <- !app_assoc. reflexivity.
      * destruct (printable c) eqn:Ep.
        -- cbn [dec]. rewrite Ea. rewrite (IH None) by exact I. cbn [rev app].
           rewrite <- !app_assoc. reflexivity.
        -- rewrite (IH (Some [c])).
           ++ reflexivity.
           ++ split; [discriminate|]. constructor; [assumption|constructor].
Qed.

(* decode (encode s) = s for every string of Unicode scalar values *)
Theorem modutf7_roundtrip s : Forall is_scalar s ->
  modutf7_decode (modutf7_encode s) = Ok s.
Proof. intro H. unfold modutf7_decode, modutf7_encode.
  rewrite (enc_dec s H None [] I). reflexivity. Qed.

(* the encoded form is printable ASCII (0x20..0x7e) *)
Lemma enc_printable s : Forall is_scalar s -> forall run,
  match run with None => True | Some r => Forall is_scalar r end ->
  forallb printable (enc run s) = true.
Proof.
  induction 1 as [|c s Hc Hs IH]; intros run Hrun.
  - destruct run as [r|]; cbn [enc]; [|reflexivity].
    cbn [forallb]. rewrite forallb_app, mb64_printable by (apply Forall_rev, Hrun). reflexivity.
  - destruct run as [r|]; cbn [enc].
    + destruct (printable c) eqn:Ep.
      * cbn [forallb]. rewrite forallb_app, mb64_printable by (apply Forall_rev, Hrun).
        cbn [forallb andb]. rewrite forallb_app, (IH None I).
        destruct (c =? AMP); cbn [forallb]; [reflexivity|]. rewrite Ep. reflexivity.
      * apply IH. constructor; assumption.
    + destruct (c =? AMP) eqn:Ea; [cbn [forallb]; rewrite (IH None I); reflexivity|].
      destruct (printable c) eqn:Ep; [cbn [forallb]; rewrite Ep, (IH None I); reflexivity|].
      apply IH. constructor; [assumption|constructor].
Qed.

Theorem modutf7_encode_printable s : Forall is_scalar s ->
  forallb printable (modutf7_encode s) = true.
Proof. intro H. exact (enc_printable s H None I). Qed.

(* -------------------------------------------------------------- Mailbox *)
Lemma printable_no_crlf b : forallb printable b = true -> no_crlf b = true.
Proof.
  unfold no_crlf. induction b as [|c b IH]; [reflexivity|]. cbn [forallb existsb].
  intro H. apply andb_true_iff in H as [Hc Hb]. specialize (IH Hb).
  apply negb_true_iff in IH. rewrite IH, orb_false_r. unfold printable, in_range in Hc.
  apply negb_true_iff. apply orb_false_iff. split; apply N.eqb_neq; unfold CR, LF; lia.
Qed.

(* an encoded name without '&' is the name itself *)
Lemma enc_no_amp s : forall run, ~ In AMP (enc run s) -> run = None /\ enc run s = s.
Proof.
  induction s as [|c s IH]; intros run H.
  - destruct run; cbn [enc] in *; [exfalso; apply H; left; reflexivity|auto].
  - destruct run as [r|]; cbn [enc] in *.
    + destruct (printable c); [exfalso; apply H; left; reflexivity|].
      destruct (IH _ H) as [E _]. discriminate.
    + destruct (c =? AMP) eqn:Ea; [exfalso; apply H; left; reflexivity|].
      destruct (printable c).
      * destruct (IH None) as [_ E]; [intro Hi; apply H; right; exact Hi|].
        rewrite E. auto.
      * destruct (IH _ H) as [E _]. discriminate.
Qed.

Lemma upper_byte_letter a k : upper_byte a = k -> in_range 65 90 k = true ->
  a = k \/ a = k + 32.
Proof. unfold upper_byte, in_range. intros H Hk.
  destruct ((97 <=? a) && (a <=? 122)) eqn:E; lia. Qed.

Lemma upper_inbox_is_inbox s : upper_bytes s = INBOX -> is_inbox_str s = true.
Proof.
  unfold upper_bytes, INBOX. destruct s as [|a [|b [|c [|d [|e [|f s]]]]]]; try discriminate.
  cbn [map]. intro H. inversion H as [[Ha Hb Hc Hd He]].
  apply upper_byte_letter in Ha; [|reflexivity]. apply upper_byte_letter in Hb; [|reflexivity].
  apply upper_byte_letter in Hc; [|reflexivity]. apply upper_byte_letter in Hd; [|reflexivity].
  apply upper_byte_letter in He; [|reflexivity].
  unfold is_inbox_str. rewrite !andb_true_iff, !orb_true_iff, !N.eqb_eq. lia.
Qed.

Lemma upper_bytes_in c b : In c b -> In (upper_byte c) (upper_bytes b).
Proof. apply in_map. Qed.

Lemma encoded_inbox_is_inbox s :
  upper_bytes (modutf7_encode s) = INBOX -> is_inbox_str s = true.
Proof.
  intro H. unfold modutf7_encode in H.
  assert (Hn : ~ In AMP (enc None s)).
  { intro Hi. apply upper_bytes_in in Hi. rewrite H in Hi. cbn in Hi.
    repeat (destruct Hi as [Hi|Hi]; [discriminate Hi|]). exact Hi. }
  destruct (enc_no_amp s None Hn) as [_ E]. rewrite E in H.
  apply upper_inbox_is_inbox. exact H.
Qed.

Lemma is_inbox_upper s : is_inbox_str s = true -> mailbox_norm s = INBOX.
Proof. unfold mailbox_norm. intros ->. reflexivity. Qed.

(* the name LIST and STATUS print for a mailbox parses (as a mailbox argument,
   after any number of spaces, whatever follows) to that same name — up to
   Mailbox's own normalisation of INBOX *)
Theorem mailbox_report_roundtrip p name k rest cs :
  Forall is_scalar name ->
  head_sat astring_char rest = false ->
  parse_mailbox p cs (repeat SP k ++ print_mailbox name ++ rest)
  = POk (mailbox_norm name) rest cs.
Proof.
  intros Hs Hr. unfold parse_mailbox, print_mailbox, mailbox_norm.
  destruct (is_inbox_str name) eqn:Ei.
  - pose proof (astring_spelling p SpAtom INBOX k rest cs eq_refl (fun _ => Hr)) as E.
    cbn [spell_conts spell_buf spell_line spell_raw] in E. rewrite E.
    cbn [pbind fst]. reflexivity.
  - pose proof (modutf7_encode_printable name Hs) as Hp.
    rewrite astring_print_roundtrip by (auto using printable_no_crlf).
    cbn [pbind fst].
    destruct (bytes_eqb (upper_bytes (modutf7_encode name)) INBOX) eqn:Eu.
    + apply bytes_eqb_eq in Eu. apply encoded_inbox_is_inbox in Eu. congruence.
    + rewrite modutf7_roundtrip by exact Hs. unfold mailbox_norm. rewrite Ei. reflexivity.
Qed.

(* corollary: for a name that is not a spelling of INBOX, exactly the name *)
Corollary mailbox_report_roundtrip_plain p name k rest cs :
  Forall is_scalar name -> is_inbox_str name = false ->
  head_sat astring_char rest = false ->
  parse_mailbox p cs (repeat SP k ++ print_mailbox name ++ rest) = POk name rest cs.
Proof. intros Hs Hi Hr. rewrite mailbox_report_roundtrip by assumption.
  unfold mailbox_norm. rewrite Hi. reflexivity. Qed.

(* non-vacuity: ASCII, '&', control characters, BMP and astral code points *)
Example modutf7_roundtrip_example :
  let s := [97; 38; 10; 13; 9; 233; 38; 120; 21488; 128512; 45; 0; 127; 126] in
  forallb scalar s = true /\ modutf7_decode (modutf7_encode s) = Ok s.
Proof. vm_compute. split; reflexivity. Qed.

(* what the decoder does on input no encoder produces *)
Example modutf7_decode_quirks :
  modutf7_decode [AMP] = Ok [PLUS] /\
  modutf7_decode [AMP; 65; 79; 107] = Ok [233] /\
  modutf7_decode [AMP; 65; MINUS] = Exc EXC_UNICODE.
Proof. vm_compute. repeat split. Qed.
