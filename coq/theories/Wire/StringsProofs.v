(* Wire/StringsProofs.v — proofs about Wire/Strings.v *)
From PV Require Import Base.Prelude Base.Decimal Wire.Lex Wire.LexProofs Wire.Strings.

Local Open Scope N_scope.

(* ------------------------------------------------------------ helpers *)
Lemma strong_list_ind {A} (P : list A -> Prop) :
  (forall b, (forall b', (length b' < length b)%nat -> P b') -> P b) -> forall b, P b.
Proof.
  intros H b. assert (G : forall n b, (length b < n)%nat -> P b).
  { induction n as [|n IH]; intros b0 Hl; [lia|]. apply H. intros b' Hb'. apply IH. lia. }
  apply (G (S (length b))). lia.
Qed.

Lemma no_crlf_cons c v : no_crlf (c :: v) = true <-> (c <> CR /\ c <> LF /\ no_crlf v = true).
Proof.
  unfold no_crlf. cbn [existsb]. rewrite negb_orb, andb_true_iff, negb_orb, andb_true_iff.
  rewrite !negb_true_iff, !N.eqb_neq. tauto.
Qed.

(* ------------------------------------------------------- QuotedString *)
Lemma quoted_body_print v rest : no_crlf v = true ->
  quoted_body (escape_quoted v ++ DQUOTE :: rest) = Some (v, escape_quoted v ++ [DQUOTE], rest).
Proof.
  induction v as [|c v IH]; intro H.
  - reflexivity.
  - apply no_crlf_cons in H as (Hcr & Hlf & Hv). specialize (IH Hv).
    cbn [escape_quoted].
    destruct (c =? DQUOTE) eqn:Eq; cbn [orb].
    + apply N.eqb_eq in Eq. subst c. cbn [app quoted_body].
      change (BSLASH =? DQUOTE) with false. change (BSLASH =? CR) with false.
      change (BSLASH =? LF) with false. change (BSLASH =? BSLASH) with true.
      change (DQUOTE =? BSLASH) with false. change (DQUOTE =? DQUOTE) with true. cbn [orb].
      rewrite IH. reflexivity.
    + destruct (c =? BSLASH) eqn:Eb.
      * apply N.eqb_eq in Eb. subst c. cbn [app quoted_body].
        change (BSLASH =? DQUOTE) with false. change (BSLASH =? CR) with false.
        change (BSLASH =? LF) with false. change (BSLASH =? BSLASH) with true. cbn [orb].
        rewrite IH. reflexivity.
      * cbn [app quoted_body]. rewrite Eq, Eb.
        apply N.eqb_neq in Hcr. apply N.eqb_neq in Hlf. rewrite Hcr, Hlf. cbn [orb].
        rewrite IH. reflexivity.
Qed.

Lemma quoted_body_spec b : forall v raw rest,
  quoted_body b = Some (v, raw, rest) ->
  b = raw ++ rest /\ no_crlf v = true /\
  (forall rest', quoted_body (raw ++ rest') = Some (v, raw, rest')).
Proof.
  induction b as [b IH] using strong_list_ind. intros v raw rest H.
  destruct b as [|c r]; [discriminate|]. cbn [quoted_body] in H.
  destruct (c =? DQUOTE) eqn:Eq.
  { inversion H; subst. apply N.eqb_eq in Eq. subst c. repeat split. }
  destruct ((c =? CR) || (c =? LF)) eqn:Ec; [discriminate|].
  destruct (c =? BSLASH) eqn:Eb.
  - destruct r as [|d r']; [discriminate|].
    destruct ((d =? BSLASH) || (d =? DQUOTE)) eqn:Ed; [|discriminate].
    destruct (quoted_body r') as [[[v' raw'] rest0]|] eqn:E; [|discriminate].
    inversion H; subst.
    destruct (IH r' ltac:(cbn; lia) _ _ _ E) as (E1 & E2 & E3). subst r'.
    split; [reflexivity|]. split.
    + apply no_crlf_cons. split; [|split; [|exact E2]].
      * apply orb_true_iff in Ed as [Ed|Ed]; apply N.eqb_eq in Ed; subst d; discriminate.
      * apply orb_true_iff in Ed as [Ed|Ed]; apply N.eqb_eq in Ed; subst d; discriminate.
    + intro rest'. cbn [app quoted_body]. rewrite Eq, Ec, Eb, Ed, E3. reflexivity.
  - destruct (quoted_body r) as [[[v' raw'] rest0]|] eqn:E; [|discriminate].
    inversion H; subst.
    destruct (IH r ltac:(cbn; lia) _ _ _ E) as (E1 & E2 & E3). subst r.
    split; [reflexivity|]. split.
    + apply no_crlf_cons. apply orb_false_iff in Ec as [E4 E5].
      apply N.eqb_neq in E4. apply N.eqb_neq in E5. tauto.
    + intro rest'. cbn [app quoted_body]. rewrite Eq, Ec, Eb, E3. reflexivity.
Qed.

(* print then parse: same value, the printed form is the cached raw form,
   exactly the printed bytes are consumed — whatever follows *)
Theorem quoted_roundtrip v k rest : no_crlf v = true ->
  parse_quoted (repeat SP k ++ print_quoted v ++ rest) = Some (v, print_quoted v, rest).
Proof.
  intro H. unfold parse_quoted, print_quoted. rewrite skip_spaces_repeat.
  cbn [app]. rewrite skip_spaces_nonspace by discriminate.
  change (DQUOTE =? DQUOTE) with true. cbv iota.
  rewrite <- app_assoc. cbn [app]. rewrite quoted_body_print by exact H. reflexivity.
Qed.

(* a parsed quoted string: its raw form is exactly what was consumed (after
   the leading spaces), its value has no CR/LF, and the raw form parses to
   the same value in any other context *)
Theorem parse_quoted_spec b v raw rest : parse_quoted b = Some (v, raw, rest) ->
  skip_spaces b = raw ++ rest /\ no_crlf v = true /\
  (forall k rest', parse_quoted (repeat SP k ++ raw ++ rest') = Some (v, raw, rest')).
Proof.
  unfold parse_quoted. destruct (skip_spaces b) as [|c r] eqn:Es; [discriminate|].
  destruct (c =? DQUOTE) eqn:Eq; [|discriminate]. apply N.eqb_eq in Eq. subst c.
  destruct (quoted_body r) as [[[v' raw'] rest0]|] eqn:E; [|discriminate].
  intro H. inversion H; subst.
  destruct (quoted_body_spec _ _ _ _ E) as (E1 & E2 & E3). subst r.
  split; [reflexivity|]. split; [exact E2|].
  intros k rest'. rewrite skip_spaces_repeat. cbn [app].
  rewrite skip_spaces_nonspace by discriminate.
  change (DQUOTE =? DQUOTE) with true. cbv iota. rewrite E3. reflexivity.
Qed.

(* ------------------------------------------------------ LiteralString *)
Lemma parse_number_dec n c rest : is_digit c = false ->
  parse_number (dec_of_N n ++ c :: rest) = Some (n, c :: rest).
Proof. intro H. apply parse_number_print. exact H. Qed.

Lemma lit_header_prefix bin n rest :
  lit_header (lit_prefix bin n ++ rest) = Some (bin, n, false, rest).
Proof.
  unfold lit_prefix, lit_header. rewrite <- !app_assoc.
  destruct bin; cbn [app opt_byte].
  - change (TILDE =? TILDE) with true. cbv iota. change (LBRACE =? LBRACE) with true. cbv iota.
    rewrite parse_number_dec by reflexivity. reflexivity.
  - change (LBRACE =? TILDE) with false. cbv iota. change (LBRACE =? LBRACE) with true. cbv iota.
    rewrite parse_number_dec by reflexivity. reflexivity.
Qed.

Lemma lit_header_plus_prefix n rest :
  lit_header (lit_plus_prefix n ++ rest) = Some (false, n, true, rest).
Proof.
  unfold lit_plus_prefix, lit_header. rewrite <- !app_assoc. cbn [app opt_byte].
  change (LBRACE =? TILDE) with false. cbv iota. change (LBRACE =? LBRACE) with true. cbv iota.
  rewrite parse_number_dec by reflexivity. reflexivity.
Qed.

Lemma take_exact_app {A} v rest (k : bytes -> bytes -> pres A) :
  take_exact (blen v) (v ++ rest) k = k v rest.
Proof.
  unfold take_exact. rewrite take_app, drop_app.
  destruct (N.ltb_spec (N.of_nat (length (v ++ rest))) (blen v)) as [H|H]; [|reflexivity].
  unfold blen in H. rewrite app_length in H. lia.
Qed.

Lemma lit_prefix_head bin n : exists c r, lit_prefix bin n = c :: r /\ c <> SP /\
  astring_char c = bin /\ c <> DQUOTE.
Proof. unfold lit_prefix. destruct bin; cbn [app]; eexists _, _; repeat split; discriminate. Qed.

Lemma lit_plus_prefix_head n : exists r, lit_plus_prefix n = LBRACE :: r.
Proof. unfold lit_plus_prefix. cbn [app]. eauto. Qed.

(* non-synchronizing literal: payload in the same buffer *)
Theorem literal_plus_parse p cs k v rest : too_big p (blen v) = false ->
  parse_literal p cs (repeat SP k ++ lit_plus_prefix (blen v) ++ v ++ rest)
  = POk (v, false) rest cs.
Proof.
  intro Hb. unfold parse_literal. rewrite skip_spaces_repeat.
  destruct (lit_plus_prefix_head (blen v)) as (r & Er).
  rewrite Er at 1. cbn [app]. rewrite skip_spaces_nonspace by discriminate.
  change (LBRACE :: r ++ v ++ rest) with ((LBRACE :: r) ++ v ++ rest). rewrite <- Er.
  rewrite lit_header_plus_prefix. rewrite Hb. rewrite take_exact_app. reflexivity.
Qed.

(* synchronizing literal: the buffer ends after the prefix; without an unused
   continuation the parser interrupts, with one it takes the payload from it
   and goes on parsing in the continuation buffer *)
Theorem literal_sync_need p k bin n : too_big p n = false -> sp_allow_cont p = true ->
  parse_literal p [] (repeat SP k ++ lit_prefix bin n) = PNeed n.
Proof.
  intros Hb Hc. unfold parse_literal. rewrite skip_spaces_repeat.
  destruct (lit_prefix_head bin n) as (c & r & Er & Hsp & _).
  rewrite Er at 1. rewrite skip_spaces_nonspace by exact Hsp. rewrite <- Er.
  rewrite <- (app_nil_r (lit_prefix bin n)). rewrite lit_header_prefix.
  rewrite Hb, Hc. reflexivity.
Qed.

Theorem literal_sync_parse p cs k bin v rest :
  too_big p (blen v) = false -> sp_allow_cont p = true ->
  parse_literal p ((v ++ rest) :: cs) (repeat SP k ++ lit_prefix bin (blen v))
  = POk (v, bin) rest cs.
Proof.
  intros Hb Hc. unfold parse_literal. rewrite skip_spaces_repeat.
  destruct (lit_prefix_head bin (blen v)) as (c & r & Er & Hsp & _).
  rewrite Er at 1. rewrite skip_spaces_nonspace by exact Hsp. rewrite <- Er.
  rewrite <- (app_nil_r (lit_prefix bin (blen v))). rewrite lit_header_prefix.
  rewrite Hb, Hc. rewrite take_exact_app. reflexivity.
Qed.

(* what a successful literal parse means *)
Lemma take_exact_ok {A} n buf (k : bytes -> bytes -> pres A) a rest cs :
  take_exact n buf k = POk a rest cs ->
  exists v r, buf = v ++ r /\ blen v = n /\ k v r = POk a rest cs.
Proof.
  unfold take_exact. destruct (N.ltb_spec (N.of_nat (length buf)) n) as [H|H]; [discriminate|].
  intro E. exists (take n buf), (drop n buf). split; [|split; [|exact E]].
  - unfold take, drop. symmetry. apply firstn_skipn.
  - unfold blen, take. rewrite firstn_length. lia.
Qed.

Theorem parse_literal_spec p cs b v bin rest cs' :
  parse_literal p cs b = POk (v, bin) rest cs' ->
  too_big p (blen v) = false /\
  exists after plus, lit_header (skip_spaces b) = Some (bin, blen v, plus, after) /\
    ((plus = true /\ after = v ++ rest /\ cs' = cs) \/
     (plus = false /\ after = [] /\ sp_allow_cont p = true /\ cs = (v ++ rest) :: cs')).
Proof.
  unfold parse_literal.
  destruct (lit_header (skip_spaces b)) as [[[[bin0 n] plus] after]|]; [|discriminate].
  destruct (too_big p n) eqn:Hb; [discriminate|].
  destruct plus.
  - intro H. apply take_exact_ok in H as (v0 & r0 & E1 & E2 & E3). inversion E3; subst.
    split; [exact Hb|]. exists (v ++ rest), true. split; [reflexivity|]. left. auto.
  - destruct after; [|discriminate]. destruct (sp_allow_cont p) eqn:Hc; [|discriminate].
    destruct cs as [|c cs0]; [discriminate|].
    intro H. apply take_exact_ok in H as (v0 & r0 & E1 & E2 & E3). inversion E3; subst.
    split; [exact Hb|]. exists [], false. split; [reflexivity|]. right. auto.
Qed.

(* ------------------------------------------------------------ AString *)
Lemma parse_quoted_none_head b :
  head_sat (fun c => c =? DQUOTE) (skip_spaces b) = false -> parse_quoted b = None.
Proof. unfold parse_quoted. destruct (skip_spaces b) as [|c r]; [reflexivity|].
  cbn [head_sat]. intros ->. reflexivity. Qed.

Definition spell_buf (sp : spelling) (v rest : bytes) : bytes :=
  match sp with SpLit => spell_line sp v | _ => spell_line sp v ++ rest end.
Definition spell_conts (sp : spelling) (v rest : bytes) (cs : list bytes) : list bytes :=
  match sp with SpLit => (v ++ rest) :: cs | _ => cs end.
Definition spell_raw (sp : spelling) (v : bytes) : bytes :=
  match sp with
  | SpAtom => v
  | SpQuoted => print_quoted v
  | SpLit | SpLitPlus => print_literal false v
  end.

(* every admissible spelling of v, after any number of extra spaces, parses
   to the value v and leaves exactly what follows it ([rest]: the bytes after
   the argument; for a synchronizing literal they arrive in the continuation) *)
Theorem astring_spelling p sp v k rest cs :
  spelling_ok p sp v = true ->
  (sp = SpAtom -> head_sat astring_char rest = false) ->
  parse_astring p (spell_conts sp v rest cs) (repeat SP k ++ spell_buf sp v rest)
  = POk (v, spell_raw sp v) rest cs.
Proof.
  intros Hok Hrest. unfold parse_astring. destruct sp; cbn [spelling_ok] in Hok;
    cbn [spell_buf spell_conts spell_raw spell_line].
  - (* atom *)
    unfold is_astring_atom in Hok. destruct v as [|c v']; [discriminate|].
    rewrite parse_class_print; auto using astring_char_SP. discriminate.
  - (* quoted *)
    rewrite parse_class_none_head.
    2:{ rewrite skip_spaces_repeat. unfold print_quoted. cbn [app].
        rewrite skip_spaces_nonspace by discriminate. reflexivity. }
    unfold parse_string. rewrite quoted_roundtrip by exact Hok. reflexivity.
  - (* synchronizing literal *)
    apply andb_true_iff in Hok as [Hb Hc]. apply negb_true_iff in Hb.
    destruct (lit_prefix_head false (blen v)) as (c & r & Er & Hsp & Hac & Hq).
    rewrite parse_class_none_head.
    2:{ rewrite skip_spaces_repeat. rewrite Er. rewrite skip_spaces_nonspace by exact Hsp.
        exact Hac. }
    unfold parse_string. rewrite parse_quoted_none_head.
    2:{ rewrite skip_spaces_repeat. rewrite Er. rewrite skip_spaces_nonspace by exact Hsp.
        cbn [head_sat]. apply N.eqb_neq. exact Hq. }
    rewrite literal_sync_parse by assumption. reflexivity.
  - (* non-synchronizing literal *)
    apply negb_true_iff in Hok.
    destruct (lit_plus_prefix_head (blen v)) as (r & Er).
    rewrite <- app_assoc.
    rewrite parse_class_none_head.
    2:{ rewrite skip_spaces_repeat. rewrite Er. cbn [app].
        rewrite skip_spaces_nonspace by discriminate. reflexivity. }
    unfold parse_string. rewrite parse_quoted_none_head.
    2:{ rewrite skip_spaces_repeat. rewrite Er. cbn [app].
        rewrite skip_spaces_nonspace by discriminate. reflexivity. }
    rewrite literal_plus_parse by assumption. reflexivity.
Qed.

(* the same for String.parse (no atom form) *)
Theorem string_spelling p sp v k rest cs :
  sp <> SpAtom -> spelling_ok p sp v = true ->
  parse_string p (spell_conts sp v rest cs) (repeat SP k ++ spell_buf sp v rest)
  = POk (v, spell_raw sp v) rest cs.
Proof.
  intros Hsp Hok. destruct sp; [congruence| | |]; cbn [spelling_ok] in Hok;
    cbn [spell_buf spell_conts spell_raw spell_line]; unfold parse_string.
  - rewrite quoted_roundtrip by exact Hok. reflexivity.
  - apply andb_true_iff in Hok as [Hb Hc]. apply negb_true_iff in Hb.
    destruct (lit_prefix_head false (blen v)) as (c & r & Er & Hs & Hac & Hq).
    rewrite parse_quoted_none_head.
    2:{ rewrite skip_spaces_repeat. rewrite Er. rewrite skip_spaces_nonspace by exact Hs.
        cbn [head_sat]. apply N.eqb_neq. exact Hq. }
    rewrite literal_sync_parse by assumption. reflexivity.
  - apply negb_true_iff in Hok.
    destruct (lit_plus_prefix_head (blen v)) as (r & Er).
    rewrite <- app_assoc. rewrite parse_quoted_none_head.
    2:{ rewrite skip_spaces_repeat. rewrite Er. cbn [app].
        rewrite skip_spaces_nonspace by discriminate. reflexivity. }
    rewrite literal_plus_parse by assumption. reflexivity.
Qed.

(* a synchronizing literal with no continuation available interrupts *)
Theorem astring_lit_needs_cont p v k :
  spelling_ok p SpLit v = true ->
  parse_astring p [] (repeat SP k ++ spell_line SpLit v) = PNeed (blen v).
Proof.
  intro Hok. cbn [spelling_ok] in Hok. apply andb_true_iff in Hok as [Hb Hc].
  apply negb_true_iff in Hb. unfold parse_astring. cbn [spell_line].
  destruct (lit_prefix_head false (blen v)) as (c & r & Er & Hsp & Hac & Hq).
  rewrite parse_class_none_head.
  2:{ rewrite skip_spaces_repeat. rewrite Er. rewrite skip_spaces_nonspace by exact Hsp. exact Hac. }
  unfold parse_string. rewrite parse_quoted_none_head.
  2:{ rewrite skip_spaces_repeat. rewrite Er. rewrite skip_spaces_nonspace by exact Hsp.
      cbn [head_sat]. apply N.eqb_neq. exact Hq. }
  rewrite literal_sync_need by assumption. reflexivity.
Qed.

(* ----------------------------------------- print/parse of built strings *)
(* bytes(AString(v)) parses back to v for every v without CR/LF *)
Theorem astring_print_roundtrip p v k rest cs :
  no_crlf v = true -> (is_astring_atom v = true -> head_sat astring_char rest = false) ->
  parse_astring p cs (repeat SP k ++ print_astring v ++ rest) = POk (v, print_astring v) rest cs.
Proof.
  intros Hv Hr. unfold print_astring. destruct (is_astring_atom v) eqn:Ea.
  - apply (astring_spelling p SpAtom v k rest cs); [exact Ea|auto].
  - apply (astring_spelling p SpQuoted v k rest cs); [exact Hv|discriminate].
Qed.

Lemma existsb_crlf v :
  existsb (fun c => (c =? CR) || (c =? LF)) v = existsb (N.eqb CR) v || existsb (N.eqb LF) v.
Proof.
  induction v as [|c v IH]; [reflexivity|]. cbn [existsb]. rewrite IH.
  rewrite (N.eqb_sym CR c), (N.eqb_sym LF c).
  destruct (c =? CR), (c =? LF), (existsb (N.eqb CR) v), (existsb (N.eqb LF) v); reflexivity.
Qed.

Lemma build_is_quoted_no_crlf binary v : build_is_quoted binary v = true -> no_crlf v = true.
Proof.
  unfold build_is_quoted, no_crlf. destruct v as [|c v]; [reflexivity|].
  rewrite !andb_true_iff, !negb_true_iff. intros ((((_ & _) & Hcr) & Hlf) & _).
  rewrite existsb_crlf, Hcr, Hlf. reflexivity.
Qed.

(* String.build(v): the quoted form parses back in place; the literal form is
   a synchronizing literal, whose payload reaches the parser as continuation *)
Theorem string_build_roundtrip p binary v k rest cs :
  (build_is_quoted binary v = false -> too_big p (blen v) = false /\ sp_allow_cont p = true) ->
  if build_is_quoted binary v
  then parse_string p cs (repeat SP k ++ string_build binary v ++ rest)
       = POk (v, string_build binary v) rest cs
  else parse_string p ((v ++ rest) :: cs) (repeat SP k ++ lit_prefix binary (blen v))
       = POk (v, string_build binary v) rest cs.
Proof.
  intros Hl. unfold string_build. destruct (build_is_quoted binary v) eqn:E.
  - apply (string_spelling p SpQuoted v k rest cs); [discriminate|].
    exact (build_is_quoted_no_crlf _ _ E).
  - destruct (Hl eq_refl) as [Hb Hc]. unfold parse_string.
    destruct (lit_prefix_head binary (blen v)) as (c & r & Er & Hs & Hac & Hdq).
    rewrite parse_quoted_none_head.
    2:{ rewrite skip_spaces_repeat. rewrite Er. rewrite skip_spaces_nonspace by exact Hs.
        cbn [head_sat]. apply N.eqb_neq. exact Hdq. }
    rewrite literal_sync_parse by assumption. reflexivity.
Qed.

(* re-serialising a PARSED string object (its cached raw form, or prefix +
   payload for a literal) and parsing that again gives the same value and
   consumes exactly the serialised bytes *)
Theorem parsed_string_reserialise p cs b v raw rest cs' :
  sp_allow_cont p = true ->
  parse_string p cs b = POk (v, raw) rest cs' ->
  (forall k rest' cs2, parse_string p cs2 (repeat SP k ++ raw ++ rest') = POk (v, raw) rest' cs2)
  \/ (exists bin, raw = lit_prefix bin (blen v) ++ v /\
      forall k rest' cs2, parse_string p ((v ++ rest') :: cs2) (repeat SP k ++ lit_prefix bin (blen v))
                          = POk (v, raw) rest' cs2).
Proof.
  intros Hc. unfold parse_string at 1.
  destruct (parse_quoted b) as [[[v0 raw0] rest0]|] eqn:Eq.
  - intro H. inversion H; subst. left. intros k rest' cs2.
    destruct (parse_quoted_spec _ _ _ _ Eq) as (_ & _ & E3).
    unfold parse_string. rewrite E3. reflexivity.
  - destruct (parse_literal p cs b) as [[v0 bin] rest0 cs0| |] eqn:El; cbn [pbind]; try discriminate.
    intro H. inversion H; subst. cbn [fst snd] in *.
    destruct (parse_literal_spec _ _ _ _ _ _ _ El) as (Hb & _).
    right. exists bin. split; [reflexivity|]. intros k rest' cs2. unfold parse_string.
    destruct (lit_prefix_head bin (blen v)) as (c & r & Er & Hs & Hac & Hdq).
    rewrite parse_quoted_none_head.
    2:{ rewrite skip_spaces_repeat. rewrite Er. rewrite skip_spaces_nonspace by exact Hs.
        cbn [head_sat]. apply N.eqb_neq. exact Hdq. }
    rewrite literal_sync_parse by assumption. reflexivity.
Qed.

(* non-vacuity *)
Example astring_spelling_example :
  let v := [105; 110; 98; 111; 120] in
  let rest := [SP; 120; CR; LF] in
  forallb (fun sp => spelling_ok default_sparams sp v) [SpAtom; SpQuoted; SpLit; SpLitPlus] = true /\
  parse_astring default_sparams [] ([SP; SP] ++ spell_buf SpLitPlus v rest)
    = POk (v, print_literal false v) rest [].
Proof. vm_compute. split; reflexivity. Qed.

(* pymap's astring class is the RFC's ASTRING-CHAR minus the closing brace *)
Lemma astring_char_rfc c : c <> RBRACE -> astring_char c = rfc_astring_char c.
Proof.
  intro H. destruct (N.ltb_spec c 128) as [Hlt|Hge].
  - assert (Hi : In c (map N.of_nat (seq 0 128))).
    { apply in_map_iff. exists (N.to_nat c). split; [lia|]. apply in_seq. lia. }
    assert (F : forallb (fun x => (x =? RBRACE) || Bool.eqb (astring_char x) (rfc_astring_char x))
                        (map N.of_nat (seq 0 128)) = true) by (vm_compute; reflexivity).
    rewrite forallb_forall in F. specialize (F c Hi). apply orb_true_iff in F as [F|F].
    + apply N.eqb_eq in F. contradiction.
    + apply Bool.eqb_prop in F. exact F.
  - unfold astring_char, atom_char, rfc_astring_char, in_range.
    repeat match goal with
    | |- context [c =? ?k] => destruct (N.eqb_spec c k) as [E|_]; [exfalso; unfold RBRACE in *; lia|]
    end.
    repeat match goal with
    | |- context [c <=? ?k] => destruct (N.leb_spec c k) as [E|_]; [exfalso; lia|]
    end.
    rewrite !andb_false_r. reflexivity.
Qed.

(* ... and that one byte makes a spelling difference: the atom form of "}" is
   refused while its quoted form is accepted (known finding C18-F3) *)
Theorem atom_rbrace_refuted :
  exists v, v <> [] /\ forallb rfc_astring_char v = true /\
    parse_astring default_sparams [] (v ++ [SP]) = PFail /\
    parse_astring default_sparams [] (print_quoted v ++ [SP]) = POk (v, print_quoted v) [SP] [].
Proof. exists [RBRACE]. split; [discriminate|]. vm_compute. repeat split. Qed.

(* ------------------------------------ the same for any atom class *)
Lemma parse_astring_cstring : parse_astring = parse_cstring astring_char.
Proof. reflexivity. Qed.

Theorem cstring_spelling cls p sp v k rest cs :
  cls SP = false -> cls DQUOTE = false -> cls LBRACE = false ->
  spelling_okc cls p sp v = true ->
  (sp = SpAtom -> head_sat cls rest = false) ->
  parse_cstring cls p (spell_conts sp v rest cs) (repeat SP k ++ spell_buf sp v rest)
  = POk (v, spell_raw sp v) rest cs.
Proof.
  intros Hsp Hdq Hlb Hok Hrest. unfold parse_cstring.
  destruct sp; cbn [spelling_okc] in Hok; cbn [spell_buf spell_conts spell_raw spell_line].
  - unfold is_class_atom in Hok. destruct v as [|c v']; [discriminate|].
    rewrite parse_class_print; auto. discriminate.
  - rewrite parse_class_none_head.
    2:{ rewrite skip_spaces_repeat. unfold print_quoted. cbn [app].
        rewrite skip_spaces_nonspace by discriminate. exact Hdq. }
    exact (string_spelling p SpQuoted v k rest cs ltac:(discriminate) Hok).
  - rewrite parse_class_none_head.
    2:{ rewrite skip_spaces_repeat. unfold lit_prefix. cbn [app].
        rewrite skip_spaces_nonspace by discriminate. exact Hlb. }
    exact (string_spelling p SpLit v k rest cs ltac:(discriminate) Hok).
  - rewrite parse_class_none_head.
    2:{ rewrite skip_spaces_repeat. unfold lit_plus_prefix. cbn [app].
        rewrite skip_spaces_nonspace by discriminate. exact Hlb. }
    exact (string_spelling p SpLitPlus v k rest cs ltac:(discriminate) Hok).
Qed.

Theorem cstring_lit_needs_cont cls p v k :
  cls SP = false -> cls DQUOTE = false -> cls LBRACE = false ->
  spelling_ok p SpLit v = true ->
  parse_cstring cls p [] (repeat SP k ++ spell_line SpLit v) = PNeed (blen v).
Proof.
  intros Hsp Hdq Hlb Hok. cbn [spelling_ok] in Hok. apply andb_true_iff in Hok as [Hb Hc].
  apply negb_true_iff in Hb. unfold parse_cstring. cbn [spell_line].
  destruct (lit_prefix_head false (blen v)) as (c & r & Er & Hs & Hac & Hq).
  rewrite parse_class_none_head.
  2:{ rewrite skip_spaces_repeat. unfold lit_prefix. cbn [app].
      rewrite skip_spaces_nonspace by discriminate. exact Hlb. }
  unfold parse_string. rewrite parse_quoted_none_head.
  2:{ rewrite skip_spaces_repeat. rewrite Er. rewrite skip_spaces_nonspace by exact Hs.
      cbn [head_sat]. apply N.eqb_neq. exact Hq. }
  rewrite literal_sync_need by assumption. reflexivity.
Qed.
