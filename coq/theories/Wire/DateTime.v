(* Wire/DateTime.v — model of pymap/parsing/specials/datetime_.py:
   DateTime.parse = QuotedString.parse, str(value, 'ascii'),
   datetime.strptime(s, '%d-%b-%Y %X %z') (CPython 3.12 Lib/_strptime.py,
   C locale: %X = %H:%M:%S), every ValueError -> NotParseable;
   DateTime.__bytes__ = DateTime._format for a constructed value, the
   cached string for a parsed one.  Definitions only.

   strptime compiles the format to the (IGNORECASE) regex
     (3[0-1]|[1-2]\d|0[1-9]|[1-9]| [1-9])-(jan|...|dec)-(\d\d\d\d)\s+
     (2[0-3]|[0-1]\d|\d):([0-5]\d|\d):(6[0-1]|[0-5]\d|\d)\s+
     ([+-]\d\d:?[0-5]\d(:?[0-5]\d(\.\d{1,6})?)?|Z)
   applied with match(); left-over text is an error.  Each group is followed by
   a literal that cannot extend the group, so the first alternative that
   matches is the only one that can lead to a match: the field parsers below
   try the alternatives in the regex's order. *)
From PV Require Import Base.Prelude Base.Decimal.
From PV Require Export Wire.Lex Wire.Strings.
From Coq Require Import ZArith.

Local Open Scope N_scope.

Record dt := {
  dt_year : N; dt_month : N; dt_day : N;
  dt_hour : N; dt_min : N; dt_sec : N;
  dt_off : Z           (* utcoffset() in microseconds *)
}.

Definition dv (c : N) : N := c - 48.
Definition dig_in (lo hi c : N) : bool := in_range (48 + lo) (48 + hi) c.

(*  \s  on an ASCII str: space, \t \n \v \f \r, \x1c-\x1f *)
Definition is_ws (c : N) : bool := (c =? 32) || in_range 9 13 c || in_range 28 31 c.

(* %d *)
Definition p_day (b : bytes) : option (N * bytes) :=
  match b with
  | c1 :: r1 =>
    match r1 with
    | c2 :: r2 =>
      if ((c1 =? 51) && dig_in 0 1 c2) || (dig_in 1 2 c1 && is_digit c2) ||
         ((c1 =? 48) && dig_in 1 9 c2)
      then Some (10 * dv c1 + dv c2, r2)
      else if dig_in 1 9 c1 then Some (dv c1, r1)
      else if (c1 =? 32) && dig_in 1 9 c2 then Some (dv c2, r2)
      else None
    | [] => if dig_in 1 9 c1 then Some (dv c1, r1) else None
    end
  | [] => None
  end.

(* %H *)
Definition p_hour (b : bytes) : option (N * bytes) :=
  match b with
  | c1 :: r1 =>
    match r1 with
    | c2 :: r2 =>
      if ((c1 =? 50) && dig_in 0 3 c2) || (dig_in 0 1 c1 && is_digit c2)
      then Some (10 * dv c1 + dv c2, r2)
      else if is_digit c1 then Some (dv c1, r1) else None
    | [] => if is_digit c1 then Some (dv c1, r1) else None
    end
  | [] => None
  end.

(* %M *)
Definition p_minute (b : bytes) : option (N * bytes) :=
  match b with
  | c1 :: r1 =>
    match r1 with
    | c2 :: r2 =>
      if dig_in 0 5 c1 && is_digit c2 then Some (10 * dv c1 + dv c2, r2)
      else if is_digit c1 then Some (dv c1, r1) else None
    | [] => if is_digit c1 then Some (dv c1, r1) else None
    end
  | [] => None
  end.

(* %S *)
Definition p_second (b : bytes) : option (N * bytes) :=
  match b with
  | c1 :: r1 =>
    match r1 with
    | c2 :: r2 =>
      if ((c1 =? 54) && dig_in 0 1 c2) || (dig_in 0 5 c1 && is_digit c2)
      then Some (10 * dv c1 + dv c2, r2)
      else if is_digit c1 then Some (dv c1, r1) else None
    | [] => if is_digit c1 then Some (dv c1, r1) else None
    end
  | [] => None
  end.

(* a literal byte of the format *)
Definition p_lit (c : N) (b : bytes) : option bytes :=
  match b with d :: r => if d =? c then Some r else None | [] => None end.

(*  \s+  *)
Fixpoint skip_ws (b : bytes) : bytes :=
  match b with c :: r => if is_ws c then skip_ws r else b | [] => [] end.
Definition p_ws (b : bytes) : option bytes :=
  match b with c :: r => if is_ws c then Some (skip_ws r) else None | [] => None end.

(* %b: three letters, any case *)
Definition month_names : list bytes :=
  [ [74; 97; 110]; [70; 101; 98]; [77; 97; 114]; [65; 112; 114]; [77; 97; 121]; [74; 117; 110];
    [74; 117; 108]; [65; 117; 103]; [83; 101; 112]; [79; 99; 116]; [78; 111; 118]; [68; 101; 99] ].
Fixpoint find_month (w : bytes) (names : list bytes) (i : N) : option N :=
  match names with
  | [] => None
  | n :: ns => if bytes_eqb (lower_bytes w) (lower_bytes n) then Some i else find_month w ns (i + 1)
  end.
Definition p_month (b : bytes) : option (N * bytes) :=
  match b with
  | c1 :: c2 :: c3 :: r =>
    match find_month [c1; c2; c3] month_names 1 with
    | Some m => Some (m, r)
    | None => None
    end
  | _ => None
  end.

(* %Y *)
Definition p_year (b : bytes) : option (N * bytes) :=
  match b with
  | c1 :: c2 :: c3 :: c4 :: r =>
    if is_digit c1 && is_digit c2 && is_digit c3 && is_digit c4
    then Some (1000 * dv c1 + 100 * dv c2 + 10 * dv c3 + dv c4, r) else None
  | _ => None
  end.

(* two digits  \d\d  /  [0-5]\d  *)
Definition p_dd (b : bytes) : option (N * bytes) :=
  match b with
  | c1 :: c2 :: r => if is_digit c1 && is_digit c2 then Some (10 * dv c1 + dv c2, r) else None
  | _ => None
  end.
Definition p_5d (b : bytes) : option (N * bytes) :=
  match b with
  | c1 :: c2 :: r => if dig_in 0 5 c1 && is_digit c2 then Some (10 * dv c1 + dv c2, r) else None
  | _ => None
  end.

(*  \.\d{1,6} : the fraction scaled to microseconds *)
Fixpoint frac_digits (fuel : nat) (scale : N) (b : bytes) : N * bytes :=
  match fuel with
  | O => (0, b)
  | S f =>
    match b with
    | c :: r => if is_digit c then let '(v, r') := frac_digits f (scale / 10) r in (dv c * scale + v, r')
                else (0, b)
    | [] => (0, b)
    end
  end.

(* %z with its post-processing in _strptime: (offset in microseconds, rest).
   colon1 / colon2: was a ':' present before the minutes / before the seconds *)
Definition p_zone (b : bytes) : option (Z * bytes) :=
  match b with
  | s :: b1 =>
    if (s =? 43) || (s =? 45) then
      match p_dd b1 with
      | None => None
      | Some (hh, b2) =>
        let '(colon1, b3) := opt_byte 58 b2 in
        match p_5d b3 with
        | None => None
        | Some (mm, b4) =>
          (* optional group  (:?[0-5]\d(\.\d{1,6})?)?  *)
          let '(colon2, b5) := opt_byte 58 b4 in
          let grp :=
            match p_5d b5 with
            | Some (ss, b6) =>
              match b6 with
              | d :: b7 =>
                if (d =? 46) && head_sat is_digit b7
                then let '(us, b8) := frac_digits 6 100000 b7 in Some (ss, us, b8)
                else Some (ss, 0, b6)
              | [] => Some (ss, 0, b6)
              end
            | None => None
            end in
          match grp with
          | Some (ss, us, rest) =>
            (* "Inconsistent use of :" and the slicing of z *)
            if Bool.eqb colon1 colon2 then
              let mag := Z.of_N (((hh * 3600 + mm * 60 + ss) * 1000000) + us) in
              Some (if s =? 45 then (- mag)%Z else mag, rest)
            else None
          | None =>
            Some (let mag := Z.of_N ((hh * 3600 + mm * 60) * 1000000) in
                  if s =? 45 then (- mag)%Z else mag, b4)
          end
        end
      end
    else if s =? 90 then Some (0%Z, b1)        (* 'Z', case-sensitive *)
    else None
  | [] => None
  end.

(* the calendar *)
Definition is_leap (y : N) : bool :=
  ((y mod 4 =? 0) && negb (y mod 100 =? 0)) || (y mod 400 =? 0).
Definition days_in_month (y m : N) : N :=
  if m =? 2 then (if is_leap y then 29 else 28)
  else if (m =? 4) || (m =? 6) || (m =? 9) || (m =? 11) then 30 else 31.

(* the checks of date(), datetime() and timezone() *)
Definition valid_dt (d : dt) : bool :=
  (1 <=? dt_year d) && (dt_year d <=? 9999) &&
  (1 <=? dt_month d) && (dt_month d <=? 12) &&
  (1 <=? dt_day d) && (dt_day d <=? days_in_month (dt_year d) (dt_month d)) &&
  (dt_hour d <? 24) && (dt_min d <? 60) && (dt_sec d <? 60) &&
  (Z.abs (dt_off d) <? 86400000000)%Z.

Definition bindo {A B} (o : option A) (f : A -> option B) : option B :=
  match o with Some a => f a | None => None end.

(* datetime.strptime(str(s, 'ascii'), '%d-%b-%Y %X %z') *)
Definition parse_dt_str (s : bytes) : option dt :=
  if existsb (fun c => 128 <=? c) s then None else
  bindo (p_day s) (fun '(day, b) =>
  bindo (p_lit 45 b) (fun b =>
  bindo (p_month b) (fun '(mon, b) =>
  bindo (p_lit 45 b) (fun b =>
  bindo (p_year b) (fun '(year, b) =>
  bindo (p_ws b) (fun b =>
  bindo (p_hour b) (fun '(hh, b) =>
  bindo (p_lit 58 b) (fun b =>
  bindo (p_minute b) (fun '(mi, b) =>
  bindo (p_lit 58 b) (fun b =>
  bindo (p_second b) (fun '(ss, b) =>
  bindo (p_ws b) (fun b =>
  bindo (p_zone b) (fun '(off, b) =>
    match b with
    | _ :: _ => None                       (* unconverted data remains *)
    | [] =>
      let d := {| dt_year := year; dt_month := mon; dt_day := day;
                  dt_hour := hh; dt_min := mi; dt_sec := ss; dt_off := off |} in
      if valid_dt d then Some d else None
    end))))))))))))).

(* DateTime.parse: (value, bytes(parsed object), rest) *)
Definition parse_datetime (b : bytes) : option (dt * bytes * bytes) :=
  match parse_quoted b with
  | Some (s, _, rest) =>
    match parse_dt_str s with
    | Some d => Some (d, DQUOTE :: s ++ [DQUOTE], rest)
    | None => None
    end
  | None => None
  end.

(* DateTime._format *)
Definition two_digits (n : N) : bytes := [48 + n / 10; 48 + n mod 10].
Definition four_digits (n : N) : bytes :=
  [48 + n / 1000; 48 + (n / 100) mod 10; 48 + (n / 10) mod 10; 48 + n mod 10].
Definition month_name (m : N) : bytes := nth (N.to_nat (m - 1)) month_names [].

(* offset.days * 86400 + offset.seconds: whole seconds, rounded down *)
Definition off_seconds (off : Z) : Z := (off / 1000000)%Z.

Definition format_dt (d : dt) : bytes :=
  let secs := off_seconds (dt_off d) in
  let zone := Z.to_N (Z.abs secs) / 60 in
  two_digits (dt_day d) ++ [45] ++ month_name (dt_month d) ++ [45] ++ four_digits (dt_year d) ++
  [32] ++ two_digits (dt_hour d) ++ [58] ++ two_digits (dt_min d) ++ [58] ++ two_digits (dt_sec d) ++
  [32] ++ [if (secs <? 0)%Z then 45 else 43] ++ two_digits (zone / 60) ++ two_digits (zone mod 60).

(* bytes(DateTime(datetime)) *)
Definition print_datetime (d : dt) : bytes := DQUOTE :: format_dt d ++ [DQUOTE].

(* values for which the constructed form is faithful: what the parser accepts,
   with a zone of whole minutes (the printed zone is +HHMM) *)
Definition wf_dt (d : dt) : bool :=
  valid_dt d && (dt_off d mod 60000000 =? 0)%Z.
