(* Wire/SeqSet.v — model of pymap/parsing/specials/sequenceset.py
   (SequenceSet.parse/_parse_part, __bytes__, _get_range/iter/flatten, build).
   Definitions only. *)
From PV Require Import Base.Prelude Base.Decimal.
From PV Require Export Wire.Lex.

Inductive sidx := SNum (n : N) | SMax.                 (* int | MaxValue *)
Inductive selem := SOne (i : sidx) | SRange (a b : sidx).
Definition seqset := list selem.

Definition sidx_eqb (a b : sidx) : bool :=
  match a, b with
  | SNum x, SNum y => (x =? y)%N | SMax, SMax => true | _, _ => false end.
Definition selem_eqb (a b : selem) : bool :=
  match a, b with
  | SOne x, SOne y => sidx_eqb x y
  | SRange a1 b1, SRange a2 b2 => sidx_eqb a1 a2 && sidx_eqb b1 b2
  | _, _ => false end.

Definition STAR : N := 42. Definition COLON : N := 58. Definition COMMA : N := 44.

(* one index: '*' or [1-9]\d* *)
Definition parse_idx (b : bytes) : option (sidx * bytes) :=
  match b with
  | c :: r => if (c =? STAR)%N then Some (SMax, r)
              else match parse_nznumber b with
                   | Some (n, r') => Some (SNum n, r')
                   | None => None end
  | [] => None
  end.

(* SequenceSet._parse_part *)
Definition parse_part (b : bytes) : option (selem * bytes) :=
  match parse_idx b with
  | None => None
  | Some (i1, r) =>
    match r with
    | c :: r1 =>
      if (c =? COLON)%N then
        match parse_idx r1 with
        | Some (i2, r2) => Some (SRange i1 i2, r2)
        | None => None
        end
      else Some (SOne i1, r)
    | [] => Some (SOne i1, r)
    end
  end.

(* the while loop of SequenceSet.parse; fuel = length of the buffer + 1 *)
Fixpoint parse_loop (fuel : nat) (b : bytes) (acc : seqset) : result (seqset * bytes) :=
  match fuel with
  | O => OutOfFuel
  | S f =>
    match b with
    | [] => Ok (rev acc, [])
    | _ =>
      match parse_part b with
      | None => NotParseable
      | Some (e, r) =>
        match r with
        | c :: r' => if (c =? COMMA)%N then parse_loop f r' (e :: acc)
                     else Ok (rev (e :: acc), r)
        | [] => parse_loop f [] (e :: acc)
        end
      end
    end
  end.

Definition parse_seqset (b : bytes) : result (seqset * bytes) :=
  let b := skip_spaces b in
  match parse_loop (S (length b)) b [] with
  | Ok ([], _) => NotParseable
  | r => r
  end.

(* __bytes__ (without the _raw cache) *)
Definition print_idx (i : sidx) : bytes :=
  match i with SNum n => dec_of_N n | SMax => [STAR] end.
Definition print_elem (e : selem) : bytes :=
  match e with
  | SOne i => print_idx i
  | SRange a b => print_idx a ++ [COLON] ++ print_idx b
  end.
Fixpoint print_seqset (s : seqset) : bytes :=
  match s with
  | [] => []
  | [e] => print_elem e
  | e :: s' => print_elem e ++ [COMMA] ++ print_seqset s'
  end.

(* _get_range, as the list range() enumerates *)
Definition nrange (lo hi : N) : list N :=   (* lo..hi inclusive, [] if lo > hi *)
  map (fun k => (lo + N.of_nat k)%N) (seq 0 (N.to_nat (N.succ hi - lo))).
Definition idx_val (mx : N) (i : sidx) : N := match i with SNum n => n | SMax => mx end.
Definition get_range (mx : N) (e : selem) : list N :=
  match e with
  | SOne (SNum n) => if (n <=? mx)%N then [n] else []
  | SOne SMax => [mx]
  | SRange a b =>
    let l := idx_val mx a in let r := idx_val mx b in
    let lo := N.min l r in
    if (lo <=? mx)%N then nrange lo (N.min (N.max l r) mx) else []
  end.
Definition seq_iter (mx : N) (s : seqset) : list N := flat_map (get_range mx) s.

(* what RFC 3501 says a sequence set denotes (spec side) *)
Definition elem_denotes (mx : N) (e : selem) (n : N) : Prop :=
  match e with
  | SOne i => n = idx_val mx i /\ (n <= mx)%N
  | SRange a b =>
    (N.min (idx_val mx a) (idx_val mx b) <= n)%N /\
    (n <= N.max (idx_val mx a) (idx_val mx b))%N /\ (n <= mx)%N
  end.
Definition denotes (mx : N) (s : seqset) (n : N) : Prop := exists e, In e s /\ elem_denotes mx e n.

(* well-formed values: what the parser can produce *)
Definition wf_idx (i : sidx) : bool := match i with SNum n => (0 <? n)%N | SMax => true end.
Definition wf_elem (e : selem) : bool :=
  match e with SOne i => wf_idx i | SRange a b => wf_idx a && wf_idx b end.
Definition wf_seqset (s : seqset) : bool :=
  match s with [] => false | _ => forallb wf_elem s end.

(* SequenceSet.build over an ascending duplicate-free list *)
Fixpoint build_groups (cur : N * N) (l : list N) : list (N * N) :=
  match l with
  | [] => [cur]
  | x :: r => if (x =? snd cur + 1)%N then build_groups (fst cur, x) r
              else cur :: build_groups (x, x) r
  end.
Definition build_seqset (l : list N) : seqset :=
  match l with
  | [] => []
  | x :: r => map (fun g => if (fst g =? snd g)%N then SOne (SNum (fst g))
                            else SRange (SNum (fst g)) (SNum (snd g)))
                  (build_groups (x, x) r)
  end.

(* bytes that may follow a printed set without being swallowed by the parser *)
Definition seq_terminator (rest : bytes) : bool :=
  match rest with
  | [] => true
  | c :: _ => negb (is_digit c) && negb (c =? COLON)%N && negb (c =? COMMA)%N
  end.
