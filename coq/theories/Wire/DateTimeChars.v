(* Wire/DateTimeChars.v — the text of a date-time that strptime accepts holds
   neither a dquote nor a backslash; hence the serialisation of a PARSED
   DateTime (dquote + cached text + dquote) parses back. *)
From PV Require Import Base.Prelude Base.Decimal Wire.Lex Wire.LexProofs Wire.Strings
  Wire.StringsProofs Wire.DateTime Wire.DateTimeProofs.
From Coq Require Import ZArith Lia ZifyBool.

Local Open Scope N_scope.

(* a parser that consumes a prefix made of safe characters *)
Definition consumes {A} (p : bytes -> option (A * bytes)) : Prop :=
  forall b v r, p b = Some (v, r) -> exists pre, b = pre ++ r /\ forallb qsafe pre = true.

Lemma qsafe_digit c : is_digit c = true -> qsafe c = true.
Proof. unfold is_digit, qsafe, DQUOTE, BSLASH. intro H.
  rewrite !andb_true_iff, !negb_true_iff, !N.eqb_neq. lia. Qed.

Lemma qsafe_dig_in lo hi c : hi <= 9 -> dig_in lo hi c = true -> qsafe c = true.
Proof. unfold dig_in, in_range, qsafe, DQUOTE, BSLASH. intros Hh H.
  rewrite !andb_true_iff, !negb_true_iff, !N.eqb_neq. lia. Qed.

Lemma qsafe_eq c k : (c =? k) = true -> qsafe k = true -> qsafe c = true.
Proof. intros H. apply N.eqb_eq in H. subst. auto. Qed.

Lemma qsafe_ws c : is_ws c = true -> qsafe c = true.
Proof. unfold is_ws, in_range, qsafe, DQUOTE, BSLASH. intro H.
  rewrite !andb_true_iff, !negb_true_iff, !N.eqb_neq. lia. Qed.

Lemma qsafe_lower c k : lower_byte c = k -> in_range 97 122 k = true -> qsafe c = true.
Proof. unfold lower_byte, in_range, qsafe, DQUOTE, BSLASH. intros H Hk.
  rewrite !andb_true_iff, !negb_true_iff, !N.eqb_neq.
  destruct ((65 <=? c) && (c <=? 90)) eqn:E; lia. Qed.

Ltac split_bool H :=
  repeat match type of H with
  | (_ && _) = true => let H1 := fresh H in let H2 := fresh H in
                       apply andb_true_iff in H as [H1 H2]; try split_bool H1; try split_bool H2
  | (_ || _) = true => apply orb_true_iff in H as [H|H]
  end.

Ltac qs :=
  match goal with
  | |- qsafe _ = true =>
    first [ apply qsafe_digit; assumption
          | eapply qsafe_dig_in; [|eassumption]; lia
          | eapply qsafe_eq; [eassumption|reflexivity]
          | apply qsafe_ws; assumption ]
  end.

Ltac two_chars c1 c2 r :=
  exists [c1; c2]; split; [reflexivity|]; cbn [forallb]; rewrite andb_true_r; apply andb_true_iff; split; qs.
Ltac one_char c1 :=
  exists [c1]; split; [reflexivity|]; cbn [forallb]; rewrite andb_true_r; qs.

Lemma consumes_day : consumes p_day.
Proof.
  intros b v r H. unfold p_day in H. destruct b as [|c1 [|c2 r2]]; [discriminate| |].
  - destruct (dig_in 1 9 c1) eqn:E; [|discriminate]. inversion H; subst. one_char c1.
  - destruct (((c1 =? 51) && dig_in 0 1 c2) || (dig_in 1 2 c1 && is_digit c2) ||
              ((c1 =? 48) && dig_in 1 9 c2)) eqn:E.
    + inversion H; subst.
      apply orb_true_iff in E as [E|E]; [apply orb_true_iff in E as [E|E]|];
        apply andb_true_iff in E as [E1 E2]; two_chars c1 c2 r.
    + destruct (dig_in 1 9 c1) eqn:E1.
      * inversion H; subst. one_char c1.
      * destruct ((c1 =? 32) && dig_in 1 9 c2) eqn:E2; [|discriminate]. inversion H; subst.
        apply andb_true_iff in E2 as [E3 E4]. two_chars c1 c2 r.
Qed.

Lemma consumes_2 (cond : N -> N -> bool) (f : N -> N -> N) (g : N -> N)
  (Hc : forall c1 c2, cond c1 c2 = true -> qsafe c1 = true /\ qsafe c2 = true) :
  consumes (fun b =>
    match b with
    | c1 :: r1 =>
      match r1 with
      | c2 :: r2 => if cond c1 c2 then Some (f c1 c2, r2)
                    else if is_digit c1 then Some (g c1, r1) else None
      | [] => if is_digit c1 then Some (g c1, r1) else None
      end
    | [] => None
    end).
Proof.
  intros b v r H. destruct b as [|c1 [|c2 r2]]; [discriminate| |].
  - destruct (is_digit c1) eqn:E; [|discriminate]. inversion H; subst. one_char c1.
  - destruct (cond c1 c2) eqn:E.
    + inversion H; subst. destruct (Hc _ _ E) as [H1 H2].
      exists [c1; c2]. split; [reflexivity|]. cbn [forallb]. rewrite H1, H2. reflexivity.
    + destruct (is_digit c1) eqn:E1; [|discriminate]. inversion H; subst. one_char c1.
Qed.

Lemma consumes_hour : consumes p_hour.
Proof.
  apply (consumes_2 (fun c1 c2 => ((c1 =? 50) && dig_in 0 3 c2) || (dig_in 0 1 c1 && is_digit c2))
                    (fun c1 c2 => 10 * dv c1 + dv c2) dv).
  intros c1 c2 E. apply orb_true_iff in E as [E|E]; apply andb_true_iff in E as [E1 E2]; split; qs.
Qed.

Lemma consumes_minute : consumes p_minute.
Proof.
  apply (consumes_2 (fun c1 c2 => dig_in 0 5 c1 && is_digit c2) (fun c1 c2 => 10 * dv c1 + dv c2) dv).
  intros c1 c2 E. apply andb_true_iff in E as [E1 E2]; split; qs.
Qed.

Lemma consumes_second : consumes p_second.
Proof.
  apply (consumes_2 (fun c1 c2 => ((c1 =? 54) && dig_in 0 1 c2) || (dig_in 0 5 c1 && is_digit c2))
                    (fun c1 c2 => 10 * dv c1 + dv c2) dv).
  intros c1 c2 E. apply orb_true_iff in E as [E|E]; apply andb_true_iff in E as [E1 E2]; split; qs.
Qed.

Lemma consumes_year : consumes p_year.
Proof.
  intros b v r H. unfold p_year in H. destruct b as [|c1 [|c2 [|c3 [|c4 r4]]]]; try discriminate.
  destruct (is_digit c1 && is_digit c2 && is_digit c3 && is_digit c4) eqn:E; [|discriminate].
  inversion H; subst. apply andb_true_iff in E as [E E4]. apply andb_true_iff in E as [E E3].
  apply andb_true_iff in E as [E1 E2].
  exists [c1; c2; c3; c4]. split; [reflexivity|]. cbn [forallb].
  rewrite !qsafe_digit by assumption. reflexivity.
Qed.

Lemma consumes_dd : consumes p_dd.
Proof.
  intros b v r H. unfold p_dd in H. destruct b as [|c1 [|c2 r2]]; try discriminate.
  destruct (is_digit c1 && is_digit c2) eqn:E; [|discriminate]. inversion H; subst.
  apply andb_true_iff in E as [E1 E2]. two_chars c1 c2 r.
Qed.

Lemma consumes_5d : consumes p_5d.
Proof.
  intros b v r H. unfold p_5d in H. destruct b as [|c1 [|c2 r2]]; try discriminate.
  destruct (dig_in 0 5 c1 && is_digit c2) eqn:E; [|discriminate]. inversion H; subst.
  apply andb_true_iff in E as [E1 E2]. two_chars c1 c2 r.
Qed.

Lemma month_letters w m : find_month w month_names 1 = Some m ->
  exists n, In n month_names /\ lower_bytes w = lower_bytes n.
Proof.
  unfold month_names. generalize 1 as i.
  assert (G : forall names i, find_month w names i = Some m ->
              exists n, In n names /\ lower_bytes w = lower_bytes n).
  { induction names as [|n ns IH]; intros i H; [discriminate|]. cbn [find_month] in H.
    destruct (bytes_eqb (lower_bytes w) (lower_bytes n)) eqn:E.
    - apply bytes_eqb_eq in E. exists n. split; [left; reflexivity|exact E].
    - destruct (IH _ H) as (n' & Hin & E'). exists n'. split; [right; exact Hin|exact E']. }
  intros i H. exact (G _ i H).
Qed.

Lemma consumes_month : consumes p_month.
Proof.
  intros b v r H. unfold p_month in H. destruct b as [|c1 [|c2 [|c3 r3]]]; try discriminate.
  destruct (find_month [c1; c2; c3] month_names 1) as [m|] eqn:E; [|discriminate].
  inversion H; subst. destruct (month_letters _ _ E) as (n & Hin & El).
  exists [c1; c2; c3]. split; [reflexivity|].
  unfold month_names in Hin. cbn [In] in Hin.
  repeat (destruct Hin as [<-|Hin];
    [ unfold lower_bytes in El; cbn [map] in El; inversion El as [[E1 E2 E3]];
      cbn [forallb];
      rewrite (qsafe_lower c1 _ E1 eq_refl), (qsafe_lower c2 _ E2 eq_refl), (qsafe_lower c3 _ E3 eq_refl);
      reflexivity | ]).
  destruct Hin.
Qed.

Lemma skip_ws_spec b : exists pre, b = pre ++ skip_ws b /\ forallb qsafe pre = true.
Proof.
  induction b as [|c b IH]; [exists []; split; reflexivity|]. cbn [skip_ws].
  destruct (is_ws c) eqn:E.
  - destruct IH as (pre & E1 & E2). exists (c :: pre). split; [cbn [app]; congruence|].
    cbn [forallb]. rewrite (qsafe_ws c E), E2. reflexivity.
  - exists []. split; reflexivity.
Qed.

Lemma p_ws_spec b r : p_ws b = Some r -> exists pre, b = pre ++ r /\ forallb qsafe pre = true.
Proof.
  unfold p_ws. destruct b as [|c b]; [discriminate|]. destruct (is_ws c) eqn:E; [|discriminate].
  intro H. inversion H; subst. destruct (skip_ws_spec b) as (pre & E1 & E2).
  exists (c :: pre). split; [cbn [app]; congruence|]. cbn [forallb]. rewrite (qsafe_ws c E), E2. reflexivity.
Qed.

Lemma p_lit_spec k b r : qsafe k = true -> p_lit k b = Some r ->
  exists pre, b = pre ++ r /\ forallb qsafe pre = true.
Proof.
  intros Hk. unfold p_lit. destruct b as [|d b]; [discriminate|]. destruct (d =? k) eqn:E; [|discriminate].
  intro H. inversion H; subst. apply N.eqb_eq in E. subst d. exists [k]. split; [reflexivity|].
  cbn [forallb]. rewrite Hk. reflexivity.
Qed.

Lemma opt_byte_spec k b : qsafe k = true ->
  exists pre, b = pre ++ snd (opt_byte k b) /\ forallb qsafe pre = true.
Proof.
  intro Hk. unfold opt_byte. destruct b as [|d b]; [exists []; split; reflexivity|].
  destruct (d =? k) eqn:E.
  - apply N.eqb_eq in E. subst d. exists [k]. split; [reflexivity|]. cbn [forallb]. rewrite Hk. reflexivity.
  - exists []. split; reflexivity.
Qed.

Lemma frac_digits_spec fuel : forall sc b, exists pre, b = pre ++ snd (frac_digits fuel sc b) /\
  forallb qsafe pre = true.
Proof.
  induction fuel as [|f IH]; intros sc b; [exists []; split; reflexivity|]. cbn [frac_digits].
  destruct b as [|c r]; [exists []; split; reflexivity|].
  destruct (is_digit c) eqn:E; [|exists []; split; reflexivity].
  destruct (IH (sc / 10) r) as (pre & E1 & E2).
  destruct (frac_digits f (sc / 10) r) as [v r'] eqn:Ef. cbn [snd] in *.
  exists (c :: pre). split; [cbn [app]; congruence|]. cbn [forallb].
  rewrite (qsafe_digit c E), E2. reflexivity.
Qed.

Lemma qsafe_app_chain (l : list bytes) : Forall (fun p => forallb qsafe p = true) l ->
  forallb qsafe (concat l) = true.
Proof. induction 1 as [|p l Hp _ IH]; [reflexivity|]. cbn [concat]. rewrite forallb_app, Hp, IH. reflexivity. Qed.

Lemma consumes_zone : consumes p_zone.
Proof.
  intros b v r H. unfold p_zone in H. destruct b as [|s b1]; [discriminate|].
  destruct ((s =? 43) || (s =? 45)) eqn:Es.
  - assert (Hs : qsafe s = true).
    { apply orb_true_iff in Es as [Es|Es]; eapply qsafe_eq; try eassumption; reflexivity. }
    destruct (p_dd b1) as [[hh b2]|] eqn:E1; [|discriminate].
    destruct (consumes_dd _ _ _ E1) as (q1 & -> & Q1).
    destruct (opt_byte_spec 58 b2 eq_refl) as (q2 & Eb2 & Q2).
    destruct (opt_byte 58 b2) as [colon1 b3] eqn:Eo1. cbn [snd] in Eb2.
    destruct (p_5d b3) as [[mm b4]|] eqn:E2; [|discriminate].
    destruct (consumes_5d _ _ _ E2) as (q3 & -> & Q3).
    destruct (opt_byte_spec 58 b4 eq_refl) as (q4 & Eb4 & Q4).
    destruct (opt_byte 58 b4) as [colon2 b5] eqn:Eo2. cbn [snd] in Eb4.
    destruct (p_5d b5) as [[ss b6]|] eqn:E3.
    + destruct (consumes_5d _ _ _ E3) as (q5 & -> & Q5).
      assert (Hfin : forall us rest, (exists q6, b6 = q6 ++ rest /\ forallb qsafe q6 = true) ->
                (if Bool.eqb colon1 colon2
                 then Some (if s =? 45 then (- Z.of_N ((hh * 3600 + mm * 60 + ss) * 1000000 + us))%Z
                            else Z.of_N ((hh * 3600 + mm * 60 + ss) * 1000000 + us), rest)
                 else None) = Some (v, r) ->
                exists pre, s :: q1 ++ b2 = pre ++ r /\ forallb qsafe pre = true).
      { intros us rest (q6 & Eq6 & Q6) Hr. destruct (Bool.eqb colon1 colon2); [|discriminate].
        injection Hr as _ Hrr. subst rest. exists (concat [[s]; q1; q2; q3; q4; q5; q6]). split.
        - cbn [concat app]. rewrite app_nil_r. rewrite Eb2, Eb4, Eq6. rewrite <- !app_assoc. reflexivity.
        - apply qsafe_app_chain. repeat constructor; try assumption. cbn [forallb]. rewrite Hs. reflexivity. }
      destruct b6 as [|d b7].
      * apply (Hfin 0 []); [exists []; split; reflexivity|exact H].
      * destruct ((d =? 46) && head_sat is_digit b7) eqn:Ed.
        -- apply andb_true_iff in Ed as [Ed _].
           destruct (frac_digits_spec 6 100000 b7) as (q7 & Eb7 & Q7).
           destruct (frac_digits 6 100000 b7) as [us b8] eqn:Ef. cbn [snd] in Eb7.
           apply (Hfin us b8); [|exact H]. exists (d :: q7). split; [cbn [app]; congruence|].
           cbn [forallb]. rewrite (qsafe_eq d 46 Ed eq_refl), Q7. reflexivity.
        -- apply (Hfin 0 (d :: b7)); [exists []; split; reflexivity|exact H].
    + injection H as _ Hrr. subst r. exists (concat [[s]; q1; q2; q3]). split.
      * cbn [concat app]. rewrite app_nil_r. rewrite Eb2. rewrite <- !app_assoc. reflexivity.
      * apply qsafe_app_chain. repeat constructor; try assumption. cbn [forallb]. rewrite Hs. reflexivity.
  - destruct (s =? 90) eqn:Ez; [|discriminate]. inversion H; subst.
    exists [s]. split; [reflexivity|]. cbn [forallb]. rewrite (qsafe_eq s 90 Ez eq_refl). reflexivity.
Qed.

(* the text of every date-time strptime accepts is free of dquote and backslash *)
Theorem parse_dt_str_qsafe s d : parse_dt_str s = Some d -> forallb qsafe s = true.
Proof.
  unfold parse_dt_str. destruct (existsb _ s); [discriminate|].
  destruct (p_day s) as [[day b1]|] eqn:E1; cbn [bindo]; [|discriminate].
  destruct (consumes_day _ _ _ E1) as (q1 & -> & Q1).
  destruct (p_lit 45 b1) as [b2|] eqn:E2; cbn [bindo]; [|discriminate].
  destruct (p_lit_spec 45 _ _ eq_refl E2) as (q2 & -> & Q2).
  destruct (p_month b2) as [[mon b3]|] eqn:E3; cbn [bindo]; [|discriminate].
  destruct (consumes_month _ _ _ E3) as (q3 & -> & Q3).
  destruct (p_lit 45 b3) as [b4|] eqn:E4; cbn [bindo]; [|discriminate].
  destruct (p_lit_spec 45 _ _ eq_refl E4) as (q4 & -> & Q4).
  destruct (p_year b4) as [[year b5]|] eqn:E5; cbn [bindo]; [|discriminate].
  destruct (consumes_year _ _ _ E5) as (q5 & -> & Q5).
  destruct (p_ws b5) as [b6|] eqn:E6; cbn [bindo]; [|discriminate].
  destruct (p_ws_spec _ _ E6) as (q6 & -> & Q6).
  destruct (p_hour b6) as [[hh b7]|] eqn:E7; cbn [bindo]; [|discriminate].
  destruct (consumes_hour _ _ _ E7) as (q7 & -> & Q7).
  destruct (p_lit 58 b7) as [b8|] eqn:E8; cbn [bindo]; [|discriminate].
  destruct (p_lit_spec 58 _ _ eq_refl E8) as (q8 & -> & Q8).
  destruct (p_minute b8) as [[mi b9]|] eqn:E9; cbn [bindo]; [|discriminate].
  destruct (consumes_minute _ _ _ E9) as (q9 & -> & Q9).
  destruct (p_lit 58 b9) as [b10|] eqn:E10; cbn [bindo]; [|discriminate].
  destruct (p_lit_spec 58 _ _ eq_refl E10) as (q10 & -> & Q10).
  destruct (p_second b10) as [[ss b11]|] eqn:E11; cbn [bindo]; [|discriminate].
  destruct (consumes_second _ _ _ E11) as (q11 & -> & Q11).
  destruct (p_ws b11) as [b12|] eqn:E12; cbn [bindo]; [|discriminate].
  destruct (p_ws_spec _ _ E12) as (q12 & -> & Q12).
  destruct (p_zone b12) as [[off b13]|] eqn:E13; cbn [bindo]; [|discriminate].
  destruct (consumes_zone _ _ _ E13) as (q13 & -> & Q13).
  destruct b13; [|discriminate]. intros _.
  rewrite !forallb_app, Q1, Q2, Q3, Q4, Q5, Q6, Q7, Q8, Q9, Q10, Q11, Q12, Q13. reflexivity.
Qed.

(* serialising a PARSED DateTime (dquote + cached text + dquote) and parsing it
   again gives the same value and consumes exactly the serialised bytes *)
Theorem parsed_datetime_reserialise b d raw rest :
  parse_datetime b = Some (d, raw, rest) ->
  forall k rest', parse_datetime (repeat SP k ++ raw ++ rest') = Some (d, raw, rest').
Proof.
  intro H. destruct (parsed_datetime_reserialise_partial _ _ _ _ H) as (s & Er & Hre).
  apply Hre. unfold parse_datetime in H.
  destruct (parse_quoted b) as [[[s0 raw0] rest0]|]; [|discriminate].
  destruct (parse_dt_str s0) as [d0|] eqn:Ed; [|discriminate]. inversion H; subst.
  assert (s = s0).
  { inversion H2 as [E]. apply app_inv_tail in E. exact (eq_sym E). }
  subst. exact (parse_dt_str_qsafe _ _ Ed).
Qed.
