(* Wire/Flag.v — model of pymap/parsing/specials/flag.py (Flag.__init__ /
   _capitalize, Flag.parse, Flag.__bytes__).  Definitions only. *)
From PV Require Import Base.Prelude Base.Decimal.
From PV Require Export Wire.Lex Wire.Strings Wire.CmdLine.

Local Open Scope N_scope.

(* bytes.capitalize(): first byte upper-cased, the others lower-cased (ASCII) *)
Definition capitalize (b : bytes) : bytes :=
  match b with [] => [] | c :: r => upper_byte c :: lower_bytes r end.

(* Flag._capitalize *)
Definition flag_norm (v : bytes) : bytes :=
  match v with
  | c :: r => if c =? BSLASH then BSLASH :: capitalize r else v
  | [] => []
  end.

(* Flag.parse: optional Space, then backslash + Atom, or Atom *)
Definition parse_flag (b : bytes) : option (bytes * bytes) :=
  let b1 := match parse_space b with Some r => r | None => b end in
  match b1 with
  | [] => None
  | c :: r =>
    if c =? BSLASH then
      match parse_atom r with
      | Some (a, rest) => Some (flag_norm (BSLASH :: a), rest)
      | None => None
      end
    else
      match parse_atom b1 with
      | Some (a, rest) => Some (flag_norm a, rest)
      | None => None
      end
  end.

(* bytes(Flag(v)) *)
Definition print_flag (v : bytes) : bytes := flag_norm v.

(* the values Flag.parse can produce: a keyword (an atom) or a backslash
   followed by a capitalised atom *)
Definition wf_flag (v : bytes) : bool :=
  match v with
  | [] => false
  | c :: r =>
    if c =? BSLASH
    then match r with [] => false | _ => forallb atom_char r && bytes_eqb (capitalize r) r end
    else forallb atom_char v
  end.

Definition flag_terminator (rest : bytes) : bool := negb (head_sat atom_char rest).
