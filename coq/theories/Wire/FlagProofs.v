(* Wire/FlagProofs.v — proofs about Wire/Flag.v *)
From PV Require Import Base.Prelude Base.Decimal Wire.Lex Wire.LexProofs Wire.Strings
  Wire.CmdLine Wire.CmdLineProofs Wire.Flag.
From Coq Require Import Lia.

Local Open Scope N_scope.

Lemma atom_char_not_bslash c : atom_char c = true -> c <> BSLASH /\ c <> SP.
Proof. intro H. split; intro E; subst c; discriminate H. Qed.

Lemma parse_space_none_nonspace c r : c <> SP -> parse_space (c :: r) = None.
Proof. intro H. unfold parse_space. apply N.eqb_neq in H. rewrite H. reflexivity. Qed.

Lemma parse_atom_print a rest : a <> [] -> forallb atom_char a = true ->
  head_sat atom_char rest = false -> parse_atom (a ++ rest) = Some (a, rest).
Proof. intros. apply (parse_class_print atom_char 0); auto using atom_char_SP. Qed.

(* after the optional Space: the same buffer without its leading spaces *)
Lemma after_space k x c r : x = c :: r -> c <> SP ->
  match parse_space (repeat SP k ++ x) with Some r' => r' | None => repeat SP k ++ x end = x.
Proof.
  intros -> Hc. destruct k as [|k].
  - cbn [repeat app]. rewrite parse_space_none_nonspace by exact Hc. reflexivity.
  - rewrite parse_space_repeat by lia. rewrite skip_spaces_repeat.
    apply skip_spaces_nonspace. exact Hc.
Qed.

Lemma atom_char_upper c : atom_char c = true -> atom_char (upper_byte c) = true.
Proof.
  unfold upper_byte, in_range. destruct ((97 <=? c) && (c <=? 122)) eqn:E; [|auto].
  intros _. apply andb_true_iff in E as [E1 E2]. apply N.leb_le in E1. apply N.leb_le in E2.
  unfold atom_char, in_range.
  assert (H : (43 <=? c - 32) && (c - 32 <=? 91) = true).
  { apply andb_true_iff; split; apply N.leb_le; lia. }
  rewrite H. rewrite !orb_true_r. reflexivity.
Qed.

Lemma atom_char_lower c : atom_char c = true -> atom_char (lower_byte c) = true.
Proof.
  unfold lower_byte, in_range. destruct ((65 <=? c) && (c <=? 90)) eqn:E; [|auto].
  intros _. apply andb_true_iff in E as [E1 E2]. apply N.leb_le in E1. apply N.leb_le in E2.
  unfold atom_char, in_range.
  assert (H : (94 <=? c + 32) && (c + 32 <=? 122) = true).
  { apply andb_true_iff; split; apply N.leb_le; lia. }
  rewrite H. rewrite !orb_true_r. reflexivity.
Qed.

Lemma lower_byte_idem c : lower_byte (lower_byte c) = lower_byte c.
Proof. unfold lower_byte, in_range.
  destruct ((65 <=? c) && (c <=? 90)) eqn:E; [|rewrite E; reflexivity].
  apply andb_true_iff in E as [E1 E2]. apply N.leb_le in E1. apply N.leb_le in E2.
  destruct ((65 <=? c + 32) && (c + 32 <=? 90)) eqn:E'; [|reflexivity].
  apply andb_true_iff in E' as [_ E4]. apply N.leb_le in E4. lia. Qed.

Lemma capitalize_atom a : forallb atom_char a = true -> forallb atom_char (capitalize a) = true.
Proof.
  destruct a as [|c r]; [reflexivity|]. cbn [capitalize forallb]. intro H.
  apply andb_true_iff in H as [Hc Hr]. rewrite (atom_char_upper c Hc). cbn [andb].
  unfold lower_bytes. induction r as [|d r IH]; [reflexivity|]. cbn [map forallb] in *.
  apply andb_true_iff in Hr as [Hd Hr]. rewrite (atom_char_lower d Hd), (IH Hr). reflexivity.
Qed.

Lemma capitalize_idem a : capitalize (capitalize a) = capitalize a.
Proof.
  destruct a as [|c r]; [reflexivity|]. cbn [capitalize]. rewrite upper_byte_idem. f_equal.
  unfold lower_bytes. rewrite map_map. apply map_ext. intro x. apply lower_byte_idem.
Qed.

(* every value Flag.parse delivers is well-formed *)
Theorem parse_flag_wf b v rest : parse_flag b = Some (v, rest) -> wf_flag v = true.
Proof.
  unfold parse_flag.
  destruct (match parse_space b with Some r => r | None => b end) as [|c r] eqn:Eb; [discriminate|].
  destruct (c =? BSLASH) eqn:Ec.
  - destruct (parse_atom r) as [[a rest0]|] eqn:Ea; [|discriminate]. intro H. inversion H; subst.
    unfold parse_atom in Ea. apply parse_class_spec in Ea as (_ & Hne & Hall & _).
    cbn [flag_norm wf_flag]. change (BSLASH =? BSLASH) with true. cbv iota.
    destruct a as [|a0 a']; [congruence|].
    assert (Hcap := capitalize_atom _ Hall). cbn [capitalize] in *.
    rewrite Hcap. cbn [andb].
    apply bytes_eqb_eq. apply (capitalize_idem (a0 :: a')).
  - destruct (parse_atom (c :: r)) as [[a rest0]|] eqn:Ea; [|discriminate]. intro H. inversion H; subst.
    unfold parse_atom in Ea. apply parse_class_spec in Ea as (_ & Hne & Hall & _).
    destruct a as [|a0 a']; [congruence|]. cbn [forallb] in Hall.
    apply andb_true_iff in Hall as [H0 Hall]. destruct (atom_char_not_bslash a0 H0) as [Hb _].
    apply N.eqb_neq in Hb. cbn [flag_norm]. rewrite Hb. cbn [wf_flag]. rewrite Hb.
    cbn [forallb]. rewrite H0, Hall. reflexivity.
Qed.

Lemma wf_flag_norm v : wf_flag v = true -> flag_norm v = v.
Proof.
  unfold wf_flag, flag_norm. destruct v as [|c r]; [discriminate|].
  destruct (c =? BSLASH) eqn:Ec; [|reflexivity]. apply N.eqb_eq in Ec. subst c.
  destruct r as [|d r']; [discriminate|]. intro H. apply andb_true_iff in H as [_ H].
  apply bytes_eqb_eq in H. rewrite H. reflexivity.
Qed.

(* print then parse: the same flag, exactly the printed bytes consumed,
   after any number of spaces *)
Theorem flag_roundtrip v k rest :
  wf_flag v = true -> flag_terminator rest = true ->
  parse_flag (repeat SP k ++ print_flag v ++ rest) = Some (v, rest).
Proof.
  intros Hw Hr. unfold print_flag. rewrite (wf_flag_norm v Hw).
  unfold flag_terminator in Hr. apply negb_true_iff in Hr.
  unfold wf_flag in Hw. destruct v as [|c r]; [discriminate|].
  destruct (c =? BSLASH) eqn:Ec.
  - apply N.eqb_eq in Ec. subst c. destruct r as [|d r']; [discriminate|].
    apply andb_true_iff in Hw as [Hall Hcap]. apply bytes_eqb_eq in Hcap.
    unfold parse_flag. cbn [app].
    rewrite (after_space k _ BSLASH (d :: r' ++ rest) eq_refl) by discriminate.
    change (BSLASH =? BSLASH) with true. cbv iota.
    change (d :: r' ++ rest) with ((d :: r') ++ rest).
    rewrite parse_atom_print by (auto; discriminate).
    cbn [flag_norm]. change (BSLASH =? BSLASH) with true. cbv iota. rewrite Hcap. reflexivity.
  - unfold parse_flag. cbn [app].
    assert (Hc : atom_char c = true) by (cbn [forallb] in Hw; apply andb_true_iff in Hw; tauto).
    destruct (atom_char_not_bslash c Hc) as [_ Hsp].
    rewrite (after_space k _ c (r ++ rest) eq_refl) by exact Hsp.
    rewrite Ec.
    change (c :: r ++ rest) with ((c :: r) ++ rest).
    rewrite parse_atom_print by (auto; discriminate).
    cbn [flag_norm]. rewrite Ec. reflexivity.
Qed.

(* system flags are case-insensitive: two spellings that differ only in
   letter case parse to the same flag *)
Lemma capitalize_lower_eq a a' : lower_bytes a = lower_bytes a' -> capitalize a = capitalize a'.
Proof.
  destruct a as [|c r], a' as [|c' r']; try discriminate; [reflexivity|].
  unfold lower_bytes. cbn [map capitalize]. intro H. inversion H as [[Hc Hr]].
  f_equal; [|exact Hr]. rewrite <- (upper_lower_byte c), Hc. apply upper_lower_byte.
Qed.

Theorem flag_case_insensitive a a' k k' rest :
  a <> [] -> forallb atom_char a = true -> forallb atom_char a' = true ->
  lower_bytes a = lower_bytes a' -> flag_terminator rest = true ->
  parse_flag (repeat SP k ++ BSLASH :: a ++ rest) = Some (BSLASH :: capitalize a, rest) /\
  parse_flag (repeat SP k' ++ BSLASH :: a' ++ rest) = Some (BSLASH :: capitalize a, rest).
Proof.
  intros Hne Ha Ha' Hl Hr. unfold flag_terminator in Hr. apply negb_true_iff in Hr.
  assert (Hne' : a' <> []).
  { destruct a'; [|discriminate]. destruct a; [congruence|discriminate Hl]. }
  rewrite (capitalize_lower_eq a a' Hl) at 2.
  split; unfold parse_flag.
  - rewrite (after_space k _ BSLASH (a ++ rest) eq_refl) by discriminate.
    change (BSLASH =? BSLASH) with true. cbv iota.
    rewrite parse_atom_print by auto.
    cbn [flag_norm]. change (BSLASH =? BSLASH) with true. reflexivity.
  - rewrite (after_space k' _ BSLASH (a' ++ rest) eq_refl) by discriminate.
    change (BSLASH =? BSLASH) with true. cbv iota.
    rewrite parse_atom_print by auto.
    cbn [flag_norm]. change (BSLASH =? BSLASH) with true. reflexivity.
Qed.

Example flag_roundtrip_example :
  wf_flag [BSLASH; 83; 101; 101; 110] = true /\ wf_flag [36; 70; 111; 111] = true /\
  parse_flag ([SP] ++ [BSLASH; 115; 69; 69; 78] ++ [RPAREN]) = Some ([BSLASH; 83; 101; 101; 110], [RPAREN]).
Proof. vm_compute. repeat split. Qed.
