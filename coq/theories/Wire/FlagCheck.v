(* Wire/FlagCheck.v — case checkers for Flag. *)
From PV Require Import Base.Prelude Base.Decimal Wire.Lex Wire.Strings Wire.StringsCheck Wire.Flag.

(* Flag.parse: (input, Some (value, rest)) *)
Definition chk_flag_parse (c : bytes * option (bytes * bytes)) : bool :=
  opt2_eqb (parse_flag (fst c)) (snd c).
(* bytes(Flag(v)) *)
Definition chk_flag_print (c : bytes * bytes) : bool :=
  bytes_eqb (print_flag (fst c)) (snd c).
