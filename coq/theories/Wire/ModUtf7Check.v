(* Wire/ModUtf7Check.v — case checkers for modified UTF-7 and Mailbox. *)
From PV Require Import Base.Prelude Base.Decimal Wire.Lex Wire.Strings Wire.StringsCheck Wire.ModUtf7.

Local Open Scope N_scope.

(* expected: the string | the exception k raised (1 UnicodeDecodeError) *)
Inductive xstr := XS (s : list N) | XE (k : N).

Definition res_eqb (r : result (list N)) (x : xstr) : bool :=
  match r, x with
  | Ok s, XS s' => eqb_list N.eqb s s'
  | Exc k, XE k' => k =? k'
  | _, _ => false
  end.

(* bytes.decode('utf-7') *)
Definition chk_utf7 (c : bytes * xstr) : bool := res_eqb (py_utf7_decode (fst c)) (snd c).
(* modutf7_decode *)
Definition chk_decode (c : bytes * xstr) : bool := res_eqb (modutf7_decode (fst c)) (snd c).
(* modutf7_encode, and bytes(Mailbox(s)), Mailbox(s).value *)
Definition chk_encode (c : list N * bytes * bytes * list N) : bool :=
  let '(s, e, m, v) := c in
  bytes_eqb (modutf7_encode s) e && bytes_eqb (print_mailbox s) m &&
  eqb_list N.eqb (mailbox_norm s) v.

(* Mailbox.parse: (input, outcome) *)
Definition chk_mailbox (c : bytes * xres (list N)) : bool :=
  pres_eqb (eqb_list N.eqb) (parse_mailbox default_sparams [] (fst c)) (snd c).
