(* Wire/DateTimeProofs.v — proofs about Wire/DateTime.v *)
From PV Require Import Base.Prelude Base.Decimal Wire.Lex Wire.LexProofs Wire.Strings
  Wire.StringsProofs Wire.DateTime.
From Coq Require Import ZArith Lia ZifyBool.

Local Open Scope N_scope.
Ltac Zify.zify_post_hook ::= Z.to_euclidean_division_equations.

Lemma N_lt_in_seq n x : x < N.of_nat n -> In x (map N.of_nat (seq 0 n)).
Proof. intro H. apply in_map_iff. exists (N.to_nat x). split; [lia|]. apply in_seq. lia. Qed.

Ltac enum_cases H :=
  vm_compute in H; repeat (destruct H as [<-|H]; [try reflexivity; try lia|]); try destruct H.

(* ------------------------------------------------------ field by field *)
Lemma p_day_print day R : 1 <= day -> day <= 31 ->
  p_day (two_digits day ++ 45 :: R) = Some (day, 45 :: R).
Proof. intros H1 H2. pose proof (N_lt_in_seq 32 day ltac:(lia)) as H. enum_cases H. Qed.

Lemma p_hour_print h R : h < 24 -> p_hour (two_digits h ++ 58 :: R) = Some (h, 58 :: R).
Proof. intros H1. pose proof (N_lt_in_seq 24 h ltac:(lia)) as H. enum_cases H. Qed.

Lemma p_minute_print m R : m < 60 -> p_minute (two_digits m ++ 58 :: R) = Some (m, 58 :: R).
Proof. intros H1. pose proof (N_lt_in_seq 60 m ltac:(lia)) as H. enum_cases H. Qed.

Lemma p_second_print s R : s < 60 -> p_second (two_digits s ++ 32 :: R) = Some (s, 32 :: R).
Proof. intros H1. pose proof (N_lt_in_seq 60 s ltac:(lia)) as H. enum_cases H. Qed.

Lemma p_month_print m R : 1 <= m -> m <= 12 -> p_month (month_name m ++ R) = Some (m, R).
Proof. intros H1 H2. pose proof (N_lt_in_seq 13 m ltac:(lia)) as H. enum_cases H. Qed.

Lemma is_digit_48 x : x < 10 -> is_digit (48 + x) = true.
Proof. intro H. unfold is_digit. apply andb_true_iff; split; apply N.leb_le; lia. Qed.

Lemma p_year_print y R : y <= 9999 -> p_year (four_digits y ++ R) = Some (y, R).
Proof.
  intro H. unfold p_year, four_digits. cbn [app].
  rewrite !is_digit_48 by lia. cbn [andb]. unfold dv. f_equal. f_equal. lia.
Qed.

Lemma p_dd_print n R : n < 100 -> p_dd (two_digits n ++ R) = Some (n, R).
Proof.
  intro H. unfold p_dd, two_digits. cbn [app]. rewrite !is_digit_48 by lia. cbn [andb].
  unfold dv. f_equal. f_equal. lia.
Qed.

Lemma p_5d_print n R : n < 60 -> p_5d (two_digits n ++ R) = Some (n, R).
Proof.
  intro H. unfold p_5d, two_digits. cbn [app]. rewrite is_digit_48 by lia.
  assert (E : dig_in 0 5 (48 + n / 10) = true).
  { unfold dig_in, in_range. apply andb_true_iff; split; apply N.leb_le; lia. }
  rewrite E. cbn [andb]. unfold dv. f_equal. f_equal. lia.
Qed.

Lemma skip_ws_digit n R : n < 100 -> skip_ws (two_digits n ++ R) = two_digits n ++ R.
Proof.
  intro H. unfold two_digits. cbn [app skip_ws].
  assert (E : is_ws (48 + n / 10) = false).
  { unfold is_ws, in_range. rewrite !orb_false_iff, !andb_false_iff, !N.eqb_neq, !N.leb_gt. lia. }
  rewrite E. reflexivity.
Qed.

(* the zone: +HHMM with HH < 24 (any two digits), MM < 60, at the end *)
Lemma p_zone_print (neg : bool) zh zm : zh < 100 -> zm < 60 ->
  p_zone ((if neg then 45 else 43 : N) :: two_digits zh ++ two_digits zm) =
  Some (let mag := Z.of_N ((zh * 3600 + zm * 60) * 1000000) in if neg then (- mag)%Z else mag, []).
Proof.
  intros H1 H2. unfold p_zone.
  assert (Es : ((if neg then 45 else 43 : N) =? 43) || ((if neg then 45 else 43 : N) =? 45) = true)
    by (destruct neg; reflexivity).
  rewrite Es. rewrite p_dd_print by exact H1.
  assert (Eo : opt_byte 58 (two_digits zm) = (false, two_digits zm)).
  { unfold opt_byte, two_digits. assert (E : (48 + zm / 10 =? 58) = false) by (apply N.eqb_neq; lia).
    rewrite E. reflexivity. }
  rewrite Eo. rewrite <- (app_nil_r (two_digits zm)). rewrite p_5d_print by exact H2.
  cbn [opt_byte p_5d]. destruct neg; reflexivity.
Qed.

(* ------------------------------------------------ the characters printed *)
Definition plain (c : N) : bool :=
  negb (c =? DQUOTE) && negb (c =? BSLASH) && negb (c =? CR) && negb (c =? LF) && (c <? 128).

Lemma plain_digit x : x < 10 -> plain (48 + x) = true.
Proof. intro H. unfold plain, DQUOTE, BSLASH, CR, LF.
  rewrite !andb_true_iff, !negb_true_iff, !N.eqb_neq, N.ltb_lt. lia. Qed.

Lemma plain_two n : n < 100 -> forallb plain (two_digits n) = true.
Proof. intro H. unfold two_digits. cbn [forallb]. rewrite !plain_digit by lia. reflexivity. Qed.

Lemma plain_four n : n <= 9999 -> forallb plain (four_digits n) = true.
Proof. intro H. unfold four_digits. cbn [forallb]. rewrite !plain_digit by lia. reflexivity. Qed.

Lemma plain_month_aux j : forallb plain (nth (N.to_nat j) month_names []) = true.
Proof.
  destruct (N.ltb_spec j 12) as [H|H].
  - pose proof (N_lt_in_seq 12 j ltac:(lia)) as Hi. vm_compute in Hi.
    repeat (destruct Hi as [<-|Hi]; [reflexivity|]). destruct Hi.
  - rewrite nth_overflow; [reflexivity|]. cbn. lia.
Qed.

Lemma plain_month m : forallb plain (month_name m) = true.
Proof. apply plain_month_aux. Qed.

Lemma escape_plain s : forallb plain s = true ->
  escape_quoted s = s /\ no_crlf s = true /\ existsb (fun c => 128 <=? c) s = false.
Proof.
  induction s as [|c s IH]; [repeat split|]. cbn [forallb]. intro H.
  apply andb_true_iff in H as [Hc Hs]. destruct (IH Hs) as (E1 & E2 & E3).
  unfold plain in Hc. rewrite !andb_true_iff, !negb_true_iff in Hc.
  destruct Hc as ((((Hq & Hb) & Hcr) & Hlf) & H128).
  cbn [escape_quoted existsb]. rewrite Hq, Hb, E1, E3. cbn [orb]. split; [reflexivity|]. split.
  - apply no_crlf_cons. apply N.eqb_neq in Hcr. apply N.eqb_neq in Hlf. auto.
  - apply N.ltb_lt in H128. destruct (N.leb_spec 128 c); [lia|reflexivity].
Qed.

Ltac step :=
  cbn [bindo p_lit p_ws];
  repeat (first [ progress change (45 =? 45) with true
                | progress change (58 =? 58) with true
                | progress change (is_ws 32) with true ]; cbv iota);
  cbn [bindo].

(* ------------------------------------------------------------ the theorem *)
Record dt_ranges (d : dt) : Prop := {
  r_year : 1 <= dt_year d <= 9999; r_month : 1 <= dt_month d <= 12;
  r_day : 1 <= dt_day d <= 31; r_hour : dt_hour d < 24; r_min : dt_min d < 60;
  r_sec : dt_sec d < 60; r_off : (Z.abs (dt_off d) < 86400000000)%Z
}.

Lemma valid_ranges d : valid_dt d = true -> dt_ranges d.
Proof.
  unfold valid_dt. rewrite !andb_true_iff, !N.leb_le, !N.ltb_lt, Z.ltb_lt.
  intros (((((((((H1 & H2) & H3) & H4) & H5) & H6) & H7) & H8) & H9) & H10).
  assert (days_in_month (dt_year d) (dt_month d) <= 31).
  { unfold days_in_month. destruct (dt_month d =? 2); [destruct (is_leap _); lia|].
    destruct ((dt_month d =? 4) || (dt_month d =? 6) || (dt_month d =? 9) || (dt_month d =? 11)); lia. }
  constructor; lia.
Qed.

Lemma zone_value off : (Z.abs off < 86400000000)%Z -> (off mod 60000000 = 0)%Z ->
  let secs := off_seconds off in
  let zone := Z.to_N (Z.abs secs) / 60 in
  zone / 60 < 100 /\ zone mod 60 < 60 /\
  (let mag := Z.of_N ((zone / 60 * 3600 + zone mod 60 * 60) * 1000000) in
   if (secs <? 0)%Z then (- mag)%Z else mag) = off.
Proof.
  intros Ha Hm. cbv zeta. unfold off_seconds.
  destruct (Z.ltb_spec (off / 1000000) 0); repeat split; lia.
Qed.

Lemma format_plain d : dt_ranges d -> forallb plain (format_dt d) = true.
Proof.
  intros [Hy Hmo Hd Hh Hmi Hs Ho]. unfold format_dt. rewrite !forallb_app.
  assert (Hz : Z.to_N (Z.abs (off_seconds (dt_off d))) / 60 <= 1440).
  { unfold off_seconds. lia. }
  rewrite !plain_two, plain_four, plain_month by lia. cbn [forallb].
  destruct (off_seconds (dt_off d) <? 0)%Z; reflexivity.
Qed.

Lemma parse_dt_str_format d : wf_dt d = true -> parse_dt_str (format_dt d) = Some d.
Proof.
  intro Hw. unfold wf_dt in Hw. apply andb_true_iff in Hw as [Hv Hm]. apply Z.eqb_eq in Hm.
  pose proof (valid_ranges d Hv) as R. pose proof (format_plain d R) as Hp.
  destruct (escape_plain _ Hp) as (_ & _ & E128).
  unfold parse_dt_str. rewrite E128. clear E128 Hp.
  destruct R as [Hy Hmo Hd Hh Hmi Hs Ho].
  destruct (zone_value (dt_off d) Ho Hm) as (Z1 & Z2 & Z3).
  unfold format_dt. rewrite <- ?app_assoc. cbn [app].
  rewrite p_day_print by lia. step.
  rewrite p_month_print by lia. step.
  rewrite p_year_print by lia. step.
  rewrite skip_ws_digit by lia.
  rewrite p_hour_print by lia. step.
  rewrite p_minute_print by lia. step.
  rewrite p_second_print by lia. step.
  assert (Esk : forall (x : bool) R, skip_ws ((if x then 45 else 43 : N) :: R) = (if x then 45 else 43 : N) :: R)
    by (intros [] ?; reflexivity).
  rewrite Esk.
  rewrite (p_zone_print _ _ _ Z1 Z2). cbn [bindo]. cbv zeta in Z3 |- *. rewrite Z3.
  destruct d as [y mo dd h mi s off]. cbn [dt_year dt_month dt_day dt_hour dt_min dt_sec dt_off] in *.
  rewrite Hv. reflexivity.
Qed.

(* print a date-time, parse it back: the same value, exactly the printed bytes
   consumed, whatever follows *)
Theorem datetime_roundtrip d k rest : wf_dt d = true ->
  parse_datetime (repeat SP k ++ print_datetime d ++ rest) = Some (d, print_datetime d, rest).
Proof.
  intro Hw. unfold parse_datetime, print_datetime.
  assert (Hv : valid_dt d = true) by (unfold wf_dt in Hw; apply andb_true_iff in Hw; tauto).
  pose proof (format_plain d (valid_ranges d Hv)) as Hp.
  destruct (escape_plain _ Hp) as (E1 & E2 & _).
  pose proof (quoted_roundtrip (format_dt d) k rest E2) as Q.
  unfold print_quoted in Q. rewrite E1 in Q. rewrite Q.
  rewrite parse_dt_str_format by exact Hw. reflexivity.
Qed.

(* every value the parser delivers satisfies the calendar and range checks *)
Theorem parse_datetime_valid b d raw rest :
  parse_datetime b = Some (d, raw, rest) -> valid_dt d = true.
Proof.
  unfold parse_datetime. destruct (parse_quoted b) as [[[s raw0] rest0]|]; [|discriminate].
  destruct (parse_dt_str s) as [d0|] eqn:E; [|discriminate]. intro H. inversion H; subst.
  unfold parse_dt_str in E. destruct (existsb _ s); [discriminate|].
  repeat match type of E with
  | bindo ?o _ = Some _ => destruct o as [[? ?]|] eqn:?; cbn [bindo] in E; [|discriminate]
  | bindo ?o _ = Some _ => destruct o as [?|] eqn:?; cbn [bindo] in E; [|discriminate]
  end.
  match type of E with (match ?b with _ => _ end) = _ => destruct b; [|discriminate] end.
  match type of E with (if ?c then _ else _) = _ => destruct c eqn:Ev; [|discriminate] end.
  inversion E; subst. exact Ev.
Qed.

(* non-vacuity: a leap day, single-digit fields, a negative half-hour zone *)
Example datetime_roundtrip_example :
  let d := {| dt_year := 2024; dt_month := 2; dt_day := 29; dt_hour := 7; dt_min := 8;
              dt_sec := 9; dt_off := (-19800000000)%Z |} in
  wf_dt d = true /\
  parse_datetime (print_datetime d ++ [SP; 120]) = Some (d, print_datetime d, [SP; 120]).
Proof. vm_compute. split; reflexivity. Qed.

(* the PARSED object: bytes() is dquote + the string value + dquote (the value
   as cached, without re-escaping).  It parses back to the same date-time
   provided the value holds no dquote or backslash. *)
Definition qsafe (c : N) : bool := negb (c =? DQUOTE) && negb (c =? BSLASH).

Lemma escape_qsafe s : forallb qsafe s = true -> escape_quoted s = s.
Proof.
  induction s as [|c s IH]; [reflexivity|]. cbn [forallb escape_quoted]. intro H.
  apply andb_true_iff in H as [Hc Hs]. unfold qsafe in Hc.
  apply andb_true_iff in Hc as [H1 H2]. apply negb_true_iff in H1. apply negb_true_iff in H2.
  rewrite H1, H2, (IH Hs). reflexivity.
Qed.

Theorem parsed_datetime_reserialise_partial b d raw rest :
  parse_datetime b = Some (d, raw, rest) ->
  (exists s, raw = DQUOTE :: s ++ [DQUOTE] /\
     (forallb qsafe s = true ->
      forall k rest', parse_datetime (repeat SP k ++ raw ++ rest') = Some (d, raw, rest'))).
Proof.
  unfold parse_datetime at 1. destruct (parse_quoted b) as [[[s raw0] rest0]|] eqn:Eq; [|discriminate].
  destruct (parse_dt_str s) as [d0|] eqn:Ed; [|discriminate]. intro H. inversion H; subst.
  exists s. split; [reflexivity|]. intros Hs k rest'.
  destruct (parse_quoted_spec _ _ _ _ Eq) as (_ & Hn & _).
  pose proof (quoted_roundtrip s k rest' Hn) as Q. unfold print_quoted in Q.
  rewrite (escape_qsafe s Hs) in Q. unfold parse_datetime.
  cbn [app] in Q |- *. rewrite Q, Ed. reflexivity.
Qed.
