(* Wire/SeqSetProofs.v — proofs about Wire/SeqSet.v *)
From PV Require Import Base.Prelude Base.Decimal Wire.SeqSet.

Local Open Scope N_scope.

Lemma print_idx_cons i : wf_idx i = true ->
  exists c r, print_idx i = c :: r /\ c <> SP /\ c <> COLON /\ c <> COMMA.
Proof.
  destruct i as [n|]; cbn [print_idx wf_idx]; intro H.
  - pose proof (dec_of_N_head n) as Hd. destruct (dec_of_N n) as [|c r] eqn:E; [discriminate|].
    exists c, r. split; [reflexivity|]. cbn in Hd. apply is_digit_cases in Hd.
    unfold SP, COLON, COMMA. repeat split; intro; subst; lia.
  - exists STAR, []. unfold STAR, SP, COLON, COMMA. repeat split; intro; lia.
Qed.

Lemma parse_idx_print i rest : wf_idx i = true -> head_is_digit rest = false ->
  parse_idx (print_idx i ++ rest) = Some (i, rest).
Proof.
  destruct i as [n|]; cbn [print_idx wf_idx]; intros Hw Hr.
  - apply N.ltb_lt in Hw. unfold parse_idx.
    pose proof (parse_nznumber_print n rest Hw Hr) as P.
    pose proof (dec_of_N_head n) as Hd.
    destruct (dec_of_N n) as [|c r] eqn:E; [discriminate|]. cbn [app] in *.
    cbn in Hd. apply is_digit_cases in Hd.
    destruct (N.eqb_spec c STAR) as [->|_]; [unfold STAR in Hd; lia|].
    rewrite P. reflexivity.
  - reflexivity.
Qed.

Definition elem_terminator (rest : bytes) : bool :=
  match rest with [] => true | c :: _ => negb (is_digit c) && negb (c =? COLON) end.

Lemma elem_term_digit rest : elem_terminator rest = true -> head_is_digit rest = false.
Proof. destruct rest as [|c r]; cbn; [reflexivity|]. intro H.
  apply andb_true_iff in H as [H _]. apply negb_true_iff in H. exact H. Qed.

Lemma parse_part_print e rest : wf_elem e = true -> elem_terminator rest = true ->
  parse_part (print_elem e ++ rest) = Some (e, rest).
Proof.
  destruct e as [i|a b]; cbn [print_elem wf_elem]; intros Hw Hr.
  - unfold parse_part. rewrite parse_idx_print by (auto using elem_term_digit).
    destruct rest as [|c r]; [reflexivity|]. cbn in Hr.
    apply andb_true_iff in Hr as [_ Hc]. apply negb_true_iff in Hc. rewrite Hc. reflexivity.
  - apply andb_true_iff in Hw as [Ha Hb]. unfold parse_part.
    rewrite <- !app_assoc. rewrite parse_idx_print; [|exact Ha|reflexivity].
    cbn [app]. rewrite N.eqb_refl.
    rewrite parse_idx_print by (auto using elem_term_digit). reflexivity.
Qed.

Lemma print_elem_cons e : wf_elem e = true ->
  exists c r, print_elem e = c :: r /\ c <> SP.
Proof.
  destruct e as [i|a b]; cbn [print_elem wf_elem]; intro H.
  - destruct (print_idx_cons i H) as (c & r & -> & Hc & _). eauto.
  - apply andb_true_iff in H as [Ha _].
    destruct (print_idx_cons a Ha) as (c & r & -> & Hc & _). cbn [app]. eauto.
Qed.

Lemma seq_term_elem rest : seq_terminator rest = true -> elem_terminator rest = true.
Proof. destruct rest as [|c r]; cbn; [reflexivity|]. intro H.
  apply andb_true_iff in H as [H _]. exact H. Qed.

Lemma parse_loop_step f b acc : b <> [] ->
  parse_loop (S f) b acc =
  match parse_part b with
  | None => NotParseable
  | Some (e, r) =>
    match r with
    | c :: r' => if (c =? COMMA) then parse_loop f r' (e :: acc) else Ok (rev (e :: acc), r)
    | [] => parse_loop f [] (e :: acc)
    end
  end.
Proof. destruct b; [congruence|reflexivity]. Qed.

Lemma print_elem_app_nonnil e rest : wf_elem e = true -> print_elem e ++ rest <> [].
Proof. intro He. destruct (print_elem_cons e He) as (c & r & -> & _). discriminate. Qed.

Lemma print_elem_length e : wf_elem e = true -> (1 <= length (print_elem e))%nat.
Proof. intro He. destruct (print_elem_cons e He) as (c & r & -> & _). cbn. lia. Qed.

Lemma parse_loop_print s : s <> [] -> forallb wf_elem s = true ->
  forall rest acc fuel, seq_terminator rest = true ->
  (length (print_seqset s ++ rest) < fuel)%nat ->
  parse_loop fuel (print_seqset s ++ rest) acc = Ok (rev acc ++ s, rest).
Proof.
  induction s as [|e s IH]; [congruence|]. intros _ Hw rest acc fuel Hr Hf.
  cbn [forallb] in Hw. apply andb_true_iff in Hw as [He Hs].
  destruct fuel as [|f]; [lia|].
  destruct s as [|e' s'].
  - (* last element *)
    cbn [print_seqset] in *.
    rewrite parse_loop_step by (apply print_elem_app_nonnil, He).
    rewrite parse_part_print by (auto using seq_term_elem).
    destruct rest as [|c' r'].
    + destruct f as [|f'].
      * pose proof (print_elem_length e He). rewrite app_length in Hf. cbn in Hf. lia.
      * cbn [parse_loop rev]. reflexivity.
    + cbn in Hr. apply andb_true_iff in Hr as [_ Hc]. apply negb_true_iff in Hc.
      rewrite Hc. cbn [rev]. reflexivity.
  - assert (Hne : e' :: s' <> []) by discriminate.
    specialize (IH Hne Hs rest (e :: acc) f Hr).
    change (print_seqset (e :: e' :: s')) with
      (print_elem e ++ [COMMA] ++ print_seqset (e' :: s')) in *.
    rewrite <- !app_assoc in *.
    rewrite parse_loop_step by (apply print_elem_app_nonnil, He).
    rewrite parse_part_print; [|exact He|reflexivity].
    cbn [app]. rewrite N.eqb_refl. rewrite IH.
    + cbn [rev]. rewrite <- app_assoc. reflexivity.
    + pose proof (print_elem_length e He). rewrite !app_length in Hf. cbn [length] in Hf.
      rewrite !app_length in *. lia.
Qed.

Lemma skip_spaces_nonspace c r : c <> SP -> skip_spaces (c :: r) = c :: r.
Proof. intro H. cbn [skip_spaces]. destruct (N.eqb_spec c SP); [contradiction|reflexivity]. Qed.

(* print-then-parse gives the same value and consumes exactly its own bytes *)
Theorem seqset_roundtrip s rest :
  wf_seqset s = true -> seq_terminator rest = true ->
  parse_seqset (print_seqset s ++ rest) = Ok (s, rest).
Proof.
  intros Hw Hr. unfold wf_seqset in Hw. destruct s as [|e s]; [discriminate|].
  assert (Hne : e :: s <> []) by discriminate.
  unfold parse_seqset.
  assert (Hsk : skip_spaces (print_seqset (e :: s) ++ rest) = print_seqset (e :: s) ++ rest).
  { pose proof Hw as Hw'. cbn [forallb] in Hw'. apply andb_true_iff in Hw' as [He _].
    destruct (print_elem_cons e He) as (c & r & Ec & Hc).
    destruct s as [|e' s'].
    - cbn [print_seqset]. rewrite Ec. cbn [app]. apply skip_spaces_nonspace, Hc.
    - change (print_seqset (e :: e' :: s')) with
        (print_elem e ++ [COMMA] ++ print_seqset (e' :: s')).
      rewrite Ec. cbn [app]. apply skip_spaces_nonspace, Hc. }
  rewrite Hsk. rewrite (parse_loop_print (e :: s) Hne Hw rest [] _ Hr) by lia.
  reflexivity.
Qed.

(* flatten is what the RFC says: membership in the iteration = denotation *)
Lemma in_nrange lo hi n : In n (nrange lo hi) <-> lo <= n <= hi.
Proof.
  unfold nrange. rewrite in_map_iff. split.
  - intros (k & <- & Hk). apply in_seq in Hk. lia.
  - intros H. exists (N.to_nat (n - lo)). split; [lia|]. apply in_seq. lia.
Qed.

Theorem flatten_spec mx s n : In n (seq_iter mx s) <-> denotes mx s n.
Proof.
  unfold seq_iter, denotes. rewrite in_flat_map. split; intros (e & He & H); exists e; split; auto.
  - destruct e as [[k|]|a b]; cbn [get_range elem_denotes idx_val] in *.
    + destruct (N.leb_spec k mx); [|destruct H]. destruct H as [<-|[]]. lia.
    + destruct H as [<-|[]]. lia.
    + destruct (N.leb_spec (N.min (idx_val mx a) (idx_val mx b)) mx); [|destruct H].
      apply in_nrange in H. lia.
  - destruct e as [[k|]|a b]; cbn [get_range elem_denotes idx_val] in *.
    + destruct H as [-> H]. destruct (N.leb_spec k mx); [left; reflexivity|lia].
    + destruct H as [-> _]. left; reflexivity.
    + destruct (N.leb_spec (N.min (idx_val mx a) (idx_val mx b)) mx); [|lia].
      apply in_nrange. lia.
Qed.

(* non-vacuity: a concrete set with every shape meets the hypotheses *)
Example seqset_roundtrip_example :
  let s := [SOne (SNum 7); SRange (SNum 12) SMax; SRange SMax (SNum 3); SOne SMax] in
  wf_seqset s = true /\ seq_terminator [SP; 70] = true /\
  parse_seqset (print_seqset s ++ [SP; 70]) = Ok (s, [SP; 70]).
Proof. vm_compute. repeat split. Qed.
