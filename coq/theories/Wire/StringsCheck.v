(* Wire/StringsCheck.v — case checkers for the correspondence run of the
   string primitives (harness/props/C18.py): each case carries the output
   observed on the implementation; the model recomputes it under vm_compute. *)
From PV Require Import Base.Prelude Base.Decimal Wire.Lex Wire.Strings.

Local Open Scope N_scope.

(* expected outcome of a parse with continuations *)
Inductive xres (A : Type) : Type :=
| XOk (a : A) (rest : bytes) (conts_left : list bytes)
| XFail
| XNeed (n : N).
Arguments XOk {A} a rest conts_left.
Arguments XFail {A}.
Arguments XNeed {A} n.

Definition pres_eqb {A} (eqb : A -> A -> bool) (r : pres A) (x : xres A) : bool :=
  match r, x with
  | POk a rest cs, XOk a' rest' cs' => eqb a a' && bytes_eqb rest rest' && eqb_list bytes_eqb cs cs'
  | PFail, XFail => true
  | PNeed n, XNeed n' => n =? n'
  | _, _ => false
  end.

Definition pair_eqb {A B} (ea : A -> A -> bool) (eb : B -> B -> bool) (x y : A * B) : bool :=
  ea (fst x) (fst y) && eb (snd x) (snd y).

(* (command is APPEND, max_append_len, allow_continuations) *)
Definition mk_sparams (t : bool * option N * bool) : sparams :=
  let '(a, m, c) := t in {| sp_append := a; sp_max_append := m; sp_allow_cont := c |}.

Definition opt2_eqb (r x : option (bytes * bytes)) : bool :=
  option_eqb (pair_eqb bytes_eqb bytes_eqb) r x.

(* every char class on one byte: (byte, atom?, astring?, tag?) *)
Definition chk_class (c : N * bool * bool * bool) : bool :=
  let '(b, a, s, t) := c in
  Bool.eqb (atom_char b) a && Bool.eqb (astring_char b) s && Bool.eqb (tag_char b) t.

Definition chk_atom (c : bytes * option (bytes * bytes)) : bool :=
  opt2_eqb (parse_atom (fst c)) (snd c).

Definition chk_nil (c : bytes * option bytes) : bool :=
  option_eqb bytes_eqb (option_map snd (parse_nil (fst c))) (snd c).

Definition chk_number (c : bytes * option (N * bytes)) : bool :=
  option_eqb (pair_eqb N.eqb bytes_eqb) (parse_number_atom (fst c)) (snd c).

(* (input, Some (value, bytes(parsed object), rest)) *)
Definition chk_quoted (c : bytes * option (bytes * bytes * bytes)) : bool :=
  option_eqb (pair_eqb (pair_eqb bytes_eqb bytes_eqb) bytes_eqb) (parse_quoted (fst c)) (snd c).

(* (params, continuations, input, outcome (value, binary)) *)
Definition chk_literal (c : (bool * option N * bool) * list bytes * bytes * xres (bytes * bool)) : bool :=
  let '(p, cs, b, x) := c in
  pres_eqb (pair_eqb bytes_eqb Bool.eqb) (parse_literal (mk_sparams p) cs b) x.

(* outcome (value, bytes(parsed object)) *)
Definition chk_string (c : (bool * option N * bool) * list bytes * bytes * xres (bytes * bytes)) : bool :=
  let '(p, cs, b, x) := c in
  pres_eqb (pair_eqb bytes_eqb bytes_eqb) (parse_string (mk_sparams p) cs b) x.

Definition chk_astring (c : (bool * option N * bool) * list bytes * bytes * xres (bytes * bytes)) : bool :=
  let '(p, cs, b, x) := c in
  pres_eqb (pair_eqb bytes_eqb bytes_eqb) (parse_astring (mk_sparams p) cs b) x.

(* printers: (value, bytes(QuotedString(v)), bytes(AString(v))) *)
Definition chk_print_q (c : bytes * bytes * bytes) : bool :=
  let '(v, q, a) := c in bytes_eqb (print_quoted v) q && bytes_eqb (print_astring v) a.

(* (binary, value, bytes(LiteralString(v, binary)), String.build: is quoted?, bytes(String.build(v, binary))) *)
Definition chk_print_l (c : bool * bytes * bytes * bool * bytes) : bool :=
  let '(bin, v, l, isq, sb) := c in
  bytes_eqb (print_literal bin v) l && Bool.eqb (build_is_quoted bin v) isq &&
  bytes_eqb (string_build bin v) sb.
