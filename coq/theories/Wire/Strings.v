(* Wire/Strings.v — model of pymap/parsing/primitives.py (Nil, Number, Atom,
   String, QuotedString, LiteralString incl. String.build) and
   pymap/parsing/specials/astring.py (AString).  Definitions only.

   A parser takes the buffer being parsed and the list of continuation
   buffers still unused (ParsingState.continuations, an iterator) and returns
   the value, the buffer parsing goes on in, and the continuations left.
   ParsingInterrupt(ExpectContinuation(n)) is [PNeed n]. *)
From PV Require Import Base.Prelude Base.Decimal.
From PV Require Export Wire.Lex.

Local Open Scope N_scope.

Inductive pres (A : Type) : Type :=
| POk (a : A) (rest : bytes) (conts : list bytes)
| PFail                      (* NotParseable (any subclass, any code) *)
| PNeed (n : N).             (* ParsingInterrupt: continuation of n literal bytes wanted *)
Arguments POk {A} a rest conts.
Arguments PFail {A}.
Arguments PNeed {A} n.

Definition pbind {A B} (r : pres A) (f : A -> bytes -> list bytes -> pres B) : pres B :=
  match r with
  | POk a rest cs => f a rest cs
  | PFail => PFail
  | PNeed n => PNeed n
  end.

Definition of_option {A} (cs : list bytes) (o : option (A * bytes)) : pres A :=
  match o with Some (a, r) => POk a r cs | None => PFail end.

(* the fields of Params that the string parsers read *)
Record sparams := {
  sp_append : bool;          (* params.command_name == b'APPEND' *)
  sp_max_append : option N;  (* params.max_append_len *)
  sp_allow_cont : bool       (* params.allow_continuations *)
}.
Definition default_sparams : sparams :=
  {| sp_append := false; sp_max_append := None; sp_allow_cont := true |}.

Definition MAX_LEN : N := 4096.      (* String._MAX_LEN *)

(* LiteralString._check_too_big *)
Definition too_big (p : sparams) (n : N) : bool :=
  match (if sp_append p then sp_max_append p else Some MAX_LEN) with
  | Some m => m <? n
  | None => false
  end.

(* ---------------------------------------------------------------- Atom *)
Definition parse_atom (b : bytes) : option (bytes * bytes) := parse_class atom_char b.

(* Nil.parse: an atom that is NIL in any case *)
Definition NIL_bytes : bytes := [78; 73; 76].
Definition parse_nil (b : bytes) : option (unit * bytes) :=
  match parse_atom b with
  | Some (a, r) => if bytes_eqb (upper_bytes a) NIL_bytes then Some (tt, r) else None
  | None => None
  end.

(* Number.parse: an atom made of digits only *)
Definition parse_number_atom (b : bytes) : option (N * bytes) :=
  match parse_atom b with
  | Some (a, r) =>
    match parse_number a with
    | Some (n, []) => Some (n, r)
    | _ => None
    end
  | None => None
  end.

(* -------------------------------------------------------- QuotedString *)
(* after the opening quote: (unquoted value, bytes consumed incl. the closing
   quote, rest).  The finditer loop over  CR | LF | backslash-any | dquote  *)
Fixpoint quoted_body (b : bytes) : option (bytes * bytes * bytes) :=
  match b with
  | [] => None
  | c :: r =>
    if c =? DQUOTE then Some ([], [DQUOTE], r)
    else if (c =? CR) || (c =? LF) then None
    else if c =? BSLASH then
      match r with
      | d :: r' =>
        if (d =? BSLASH) || (d =? DQUOTE) then
          match quoted_body r' with
          | Some (v, raw, rest) => Some (d :: v, c :: d :: raw, rest)
          | None => None
          end
        else None
      | [] => None
      end
    else
      match quoted_body r with
      | Some (v, raw, rest) => Some (c :: v, c :: raw, rest)
      | None => None
      end
  end.

(* QuotedString.parse: (value, cached raw form, rest) *)
Definition parse_quoted (b : bytes) : option (bytes * bytes * bytes) :=
  match skip_spaces b with
  | c :: r =>
    if c =? DQUOTE then
      match quoted_body r with
      | Some (v, raw, rest) => Some (v, DQUOTE :: raw, rest)
      | None => None
      end
    else None
  | [] => None
  end.

(* QuotedString.__bytes__ of a constructed (not parsed) object *)
Fixpoint escape_quoted (v : bytes) : bytes :=
  match v with
  | [] => []
  | c :: r => if (c =? DQUOTE) || (c =? BSLASH) then BSLASH :: c :: escape_quoted r
              else c :: escape_quoted r
  end.
Definition print_quoted (v : bytes) : bytes := DQUOTE :: escape_quoted v ++ [DQUOTE].

(* ------------------------------------------------------- LiteralString *)
(* (~?){(\d+)(\+?)}\r?\n  at the start of b: (binary, n, plus, after) *)
Definition opt_byte (c : N) (b : bytes) : bool * bytes :=
  match b with d :: r => if d =? c then (true, r) else (false, b) | [] => (false, b) end.

Definition lit_header (b : bytes) : option (bool * N * bool * bytes) :=
  let '(bin, b1) := opt_byte TILDE b in
  match b1 with
  | c :: b2 =>
    if c =? LBRACE then
      match parse_number b2 with
      | Some (n, b3) =>
        let '(plus, b4) := opt_byte PLUS b3 in
        match b4 with
        | c4 :: b5 =>
          if c4 =? RBRACE then
            let '(_, b6) := opt_byte CR b5 in
            match b6 with
            | e :: b7 => if e =? LF then Some (bin, n, plus, b7) else None
            | [] => None
            end
          else None
        | [] => None
        end
      | None => None
      end
    else None
  | [] => None
  end.

(* take exactly n bytes of a buffer or fail (len(literal) != literal_length) *)
Definition take_exact {A} (n : N) (buf : bytes) (k : bytes -> bytes -> pres A) : pres A :=
  if N.of_nat (length buf) <? n then PFail else k (take n buf) (drop n buf).

(* LiteralString.parse: value and the binary mark *)
Definition parse_literal (p : sparams) (cs : list bytes) (b : bytes) : pres (bytes * bool) :=
  match lit_header (skip_spaces b) with
  | None => PFail
  | Some (bin, n, plus, after) =>
    if too_big p n then PFail
    else if plus then take_exact n after (fun v rest => POk (v, bin) rest cs)
    else match after with
         | _ :: _ => PFail
         | [] =>
           if sp_allow_cont p then
             match cs with
             | c :: cs' => take_exact n c (fun v rest => POk (v, bin) rest cs')
             | [] => PNeed n
             end
           else PFail
         end
  end.

Definition lit_prefix (bin : bool) (n : N) : bytes :=
  (if bin then [TILDE] else []) ++ [LBRACE] ++ dec_of_N n ++ [RBRACE; CR; LF].
Definition lit_plus_prefix (n : N) : bytes := [LBRACE] ++ dec_of_N n ++ [PLUS; RBRACE; CR; LF].
(* bytes(LiteralString(v, bin)) *)
Definition print_literal (bin : bool) (v : bytes) : bytes := lit_prefix bin (blen v) ++ v.

(* -------------------------------------------------------------- String *)
(* String.parse: value and what bytes() of the parsed object returns *)
Definition parse_string (p : sparams) (cs : list bytes) (b : bytes) : pres (bytes * bytes) :=
  match parse_quoted b with
  | Some (v, raw, rest) => POk (v, raw) rest cs
  | None =>
    pbind (parse_literal p cs b) (fun vb rest cs' =>
      POk (fst vb, print_literal (snd vb) (fst vb)) rest cs')
  end.

(* String.build on a bytes value: true = QuotedString, false = LiteralString *)
Definition build_is_quoted (binary : bool) (v : bytes) : bool :=
  match v with
  | [] => true
  | _ => negb binary && (N.of_nat (length v) <? 64) && negb (existsb (N.eqb CR) v) &&
         negb (existsb (N.eqb LF) v) && negb (existsb (N.eqb 0) v)
  end.
Definition string_build (binary : bool) (v : bytes) : bytes :=
  if build_is_quoted binary v then print_quoted v else print_literal binary v.

(* ------------------------------------------------------------- AString *)
(* AString.parse: (value, raw) *)
Definition parse_astring (p : sparams) (cs : list bytes) (b : bytes) : pres (bytes * bytes) :=
  match parse_class astring_char b with
  | Some (a, r) => POk (a, a) r cs
  | None => parse_string p cs b
  end.

Definition is_astring_atom (v : bytes) : bool :=
  match v with [] => false | _ => forallb astring_char v end.
(* bytes(AString(v)) *)
Definition print_astring (v : bytes) : bytes :=
  if is_astring_atom v then v else print_quoted v.

(* ------------------------------------------------ spellings of a value *)
Inductive spelling := SpAtom | SpQuoted | SpLit | SpLitPlus.

(* the bytes a client puts on the line for value v, and the bytes it sends
   as the continuation (after the server's continuation request) *)
Definition spell_line (sp : spelling) (v : bytes) : bytes :=
  match sp with
  | SpAtom => v
  | SpQuoted => print_quoted v
  | SpLit => lit_prefix false (blen v)
  | SpLitPlus => lit_plus_prefix (blen v) ++ v
  end.

Definition no_crlf (v : bytes) : bool :=
  negb (existsb (fun c => (c =? CR) || (c =? LF)) v).

(* which spellings the grammar allows for v *)
Definition spelling_ok (p : sparams) (sp : spelling) (v : bytes) : bool :=
  match sp with
  | SpAtom => is_astring_atom v
  | SpQuoted => no_crlf v
  | SpLit => negb (too_big p (blen v)) && sp_allow_cont p
  | SpLitPlus => negb (too_big p (blen v))
  end.

(* ------------------------------------------- astring-like with another atom class *)
(* the shape of AString.parse for any atom class: ListCommand reads its pattern
   argument this way with the list-mailbox class *)
Definition parse_cstring (cls : N -> bool) (p : sparams) (cs : list bytes) (b : bytes)
  : pres (bytes * bytes) :=
  match parse_class cls b with
  | Some (a, r) => POk (a, a) r cs
  | None => parse_string p cs b
  end.

Definition is_class_atom (cls : N -> bool) (v : bytes) : bool :=
  match v with [] => false | _ => forallb cls v end.

Definition spelling_okc (cls : N -> bool) (p : sparams) (sp : spelling) (v : bytes) : bool :=
  match sp with
  | SpAtom => is_class_atom cls v
  | _ => spelling_ok p sp v
  end.

(* ListCommand._list_mailbox_pattern  [\x21\x23-\x27\x2A-\x5B\x5D-\x7A\x7C\x7E] *)
Definition listmb_char (c : N) : bool :=
  (c =? 33) || in_range 35 39 c || in_range 42 91 c || in_range 93 122 c ||
  (c =? 124) || (c =? 126).
