(* Wire/DateTimeCheck.v — case checkers for DateTime. *)
From PV Require Import Base.Prelude Base.Decimal Wire.Lex Wire.Strings Wire.StringsCheck Wire.DateTime.
From Coq Require Import ZArith.

Local Open Scope N_scope.

(* (year, month, day, hour, minute, second, utcoffset in microseconds) *)
Definition dtup : Type := N * N * N * N * N * N * Z.
Definition dt_of (t : dtup) : dt :=
  let '(y, mo, d, h, mi, s, off) := t in
  {| dt_year := y; dt_month := mo; dt_day := d; dt_hour := h; dt_min := mi; dt_sec := s; dt_off := off |}.
Definition dt_eqb (a b : dt) : bool :=
  (dt_year a =? dt_year b) && (dt_month a =? dt_month b) && (dt_day a =? dt_day b) &&
  (dt_hour a =? dt_hour b) && (dt_min a =? dt_min b) && (dt_sec a =? dt_sec b) &&
  (dt_off a =? dt_off b)%Z.

(* DateTime.parse: (input, Some (value, bytes(parsed), rest)) *)
Definition chk_dt_parse (c : bytes * option (dtup * bytes * bytes)) : bool :=
  match parse_datetime (fst c), snd c with
  | Some (d, raw, rest), Some (t, raw', rest') =>
    dt_eqb d (dt_of t) && bytes_eqb raw raw' && bytes_eqb rest rest'
  | None, None => true
  | _, _ => false
  end.

(* bytes(DateTime(value)) *)
Definition chk_dt_print (c : dtup * bytes) : bool :=
  bytes_eqb (print_datetime (dt_of (fst c))) (snd c).
