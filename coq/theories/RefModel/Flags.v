(* RefModel/Flags.v — flags and flag sets: model of pymap/flags.py
   (FlagOp.apply, PermanentFlags.__init__/intersect, SessionFlags with the
   backends' session-flag set {\Recent}) and of the maildir flag <-> file-name
   info filter (backend/maildir/flags.py to_maildir/from_maildir).
   A Python frozenset of flags is a list; every observation goes through [mem],
   so order and repetitions are never observable.  Definitions only. *)
From PV Require Import Base.Prelude.

Inductive flag :=
| FSeen | FAnswered | FFlagged | FDeleted | FDraft   (* stored system flags *)
| FRecent                                             (* session-only        *)
| FWild                                               (* \*  (PERMANENTFLAGS) *)
| FKw (k : N).                                        (* keyword / other atom *)

Definition flag_eqb (a b : flag) : bool :=
  match a, b with
  | FSeen, FSeen | FAnswered, FAnswered | FFlagged, FFlagged
  | FDeleted, FDeleted | FDraft, FDraft | FRecent, FRecent | FWild, FWild => true
  | FKw x, FKw y => (x =? y)%N
  | _, _ => false
  end.

Definition fset := list flag.

Definition mem (f : flag) (s : fset) : bool := existsb (flag_eqb f) s.
Definition subset (a b : fset) : bool := forallb (fun f => mem f b) a.
(* frozenset equality *)
Definition fset_eqb (a b : fset) : bool := subset a b && subset b a.

Definition union (a b : fset) : fset := a ++ filter (fun f => negb (mem f a)) b.
Definition diff (a b : fset) : fset := filter (fun f => negb (mem f b)) a.
Definition inter (a b : fset) : fset := filter (fun f => mem f b) a.

(* FlagOp *)
Inductive flagop := OpReplace | OpAdd | OpDelete.

(* FlagOp.apply(flag_set, operand) *)
Definition op_apply (op : flagop) (s operand : fset) : fset :=
  match op with
  | OpAdd => union s operand
  | OpDelete => diff s operand
  | OpReplace => operand
  end.

(* PermanentFlags(defined)._defined = frozenset(defined) - {\Recent} *)
Definition perm_defined (defined : fset) : fset := diff defined [FRecent].

(* PermanentFlags.intersect(other), given _defined *)
Definition perm_intersect (defined other : fset) : fset :=
  if mem FWild defined then other else inter other defined.

(* SessionFlags: both backends use session_flags = {\Recent}, so
   _defined = {} and update() never stores anything; what remains is the
   \Recent set.  [sess_update] is SessionFlags.update for a general _defined
   (kept to compare flags.py on its own). *)
Definition sess_update (defined old flag_set : fset) (op : flagop) : fset :=
  op_apply op old (perm_intersect defined flag_set).

(* BaseMessage.get_flags: permanent | session, session = {\Recent} or {} *)
Definition with_recent (fl : fset) (is_recent : bool) : fset :=
  if is_recent then union fl [FRecent] else fl.

(* which backend stores what:  dict keeps the set it is given; maildir keeps
   only what has a letter in the file-name info (to_maildir then from_maildir),
   i.e. the five system flags and the keywords of dovecot-keywords, which is
   the mailbox's permanent_flags *)
Inductive backend := Dict | Maildir.
Definition storable (bk : backend) (perm fl : fset) : fset :=
  match bk with Dict => fl | Maildir => inter fl perm end.

(* N lists used as UID sets *)
Definition memN (n : N) (l : list N) : bool := existsb (N.eqb n) l.

(* maildir COPY / MOVE between two folders: the file-name info letters are
   carried as they are, i.e. written with the source folder's keyword table
   (to_maildir) and read with the destination's (from_maildir).  A keyword
   table is the list of keywords in letter order ('a', 'b', ...). *)
Definition is_sys5 (f : flag) : bool :=
  match f with FSeen | FAnswered | FFlagged | FDeleted | FDraft => true | _ => false end.
Fixpoint index_of (f : flag) (t : list flag) : option nat :=
  match t with
  | [] => None
  | g :: r => if flag_eqb f g then Some O
              else match index_of f r with Some i => Some (S i) | None => None end
  end.
Definition carry_flag (src dst : list flag) (f : flag) : fset :=
  if is_sys5 f then [f]
  else match index_of f src with
       | Some i => match nth_error dst i with Some g => [g] | None => [] end
       | None => []
       end.
Definition maildir_carry (src dst : list flag) (fl : fset) : fset :=
  flat_map (carry_flag src dst) fl.
