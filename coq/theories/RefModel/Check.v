(* RefModel/Check.v — boolean case checkers for the correspondence runs of
   harness/props/C10.py and C12.py.  A case carries the initial mailboxes as
   the probe saw them, the program, and for every step the response and the
   mailbox dump observed on the implementation; the model (and, in lock step,
   the reference spec) recompute them under vm_compute.  Flag sets are compared
   as sets, everything else literally. *)
From PV Require Import Base.Prelude Wire.SeqSet RefModel.Flags RefModel.Model RefModel.Spec
  RefModel.InitOk.
Local Open Scope N_scope.

Definition optN_eqb := option_eqb N.eqb.
Definition optF_eqb := option_eqb fset_eqb.
Definition listN_eqb := eqb_list N.eqb.

Definition item_eqb (a b : fitem) : bool :=
  (fi_seq a =? fi_seq b) && optN_eqb (fi_uid a) (fi_uid b)
  && optF_eqb (fi_flags a) (fi_flags b) && optN_eqb (fi_date a) (fi_date b)
  && optN_eqb (fi_cid a) (fi_cid b).
Definition code_eqb (a b : code) : bool :=
  match a, b with
  | CNone, CNone | CReadOnly, CReadOnly | CReadWrite, CReadWrite | CTryCreate, CTryCreate
  | CNonexistent, CNonexistent | CExpungeIssued, CExpungeIssued
  | CAlreadyExists, CAlreadyExists | CCannot, CCannot | CServerBug, CServerBug => true
  | CAppendUid x, CAppendUid y => listN_eqb x y
  | CCopyUid s1 d1, CCopyUid s2 d2 => listN_eqb s1 s2 && listN_eqb d1 d2
  | _, _ => false
  end.
Definition cond_eqb (a b : cond) : bool :=
  match a, b with OK, OK | NO, NO | BAD, BAD | BYE, BYE => true | _, _ => false end.
Definition untagged_eqb (a b : untagged) : bool :=
  match a, b with
  | UExpunge x, UExpunge y | UExists x, UExists y | URecent x, URecent y => x =? y
  | UFetch i, UFetch j => item_eqb i j
  | UMoved c, UMoved d => code_eqb c d
  | USelect e1 r1 u1 f1 p1, USelect e2 r2 u2 f2 p2 =>
    (e1 =? e2) && (r1 =? r2) && (u1 =? u2) && optN_eqb f1 f2 && fset_eqb p1 p2
  | UStatus b1 m1 r1 n1 v1 s1, UStatus b2 m2 r2 n2 v2 s2 =>
    (b1 =? b2) && (m1 =? m2) && (r1 =? r2) && (n1 =? n2) && (v1 =? v2) && (s1 =? s2)
  | USearch x, USearch y => listN_eqb x y
  | UBye, UBye => true
  | _, _ => false
  end.
Definition out_eqb (a b : out) : bool :=
  cond_eqb (o_cond a) (o_cond b) && code_eqb (o_code a) (o_code b)
  && eqb_list untagged_eqb (o_untagged a) (o_untagged b).

Definition msg_eqb (a b : msg) : bool :=
  (m_uid a =? m_uid b) && fset_eqb (m_flags a) (m_flags b) && (m_date a =? m_date b)
  && (m_cid a =? m_cid b) && Bool.eqb (m_recent a) (m_recent b).

(* dump of one mailbox by the probe: name, and (messages, UIDNEXT - 1, UIDVALIDITY)
   or None when no mailbox of that name exists *)
Definition dump := list (N * option (list msg * N * N)).
Definition dump_ok (bs : boxes) (d : dump) : bool :=
  forallb (fun e =>
             match snd e, lookup (fst e) bs with
             | Some (l, mx, uv), Some b =>
               eqb_list msg_eqb (b_msgs b) l && (b_maxuid b =? mx) && (b_uidv b =? uv)
             | None, None => true
             | _, _ => false
             end) d.
Definition boxes_eqb (a b : boxes) : bool :=
  eqb_list (fun x y => (fst x =? fst y) && eqb_list msg_eqb (b_msgs (snd x)) (b_msgs (snd y))
                       && (b_maxuid (snd x) =? b_maxuid (snd y))
                       && Bool.eqb (b_ro (snd x)) (b_ro (snd y))
                       && (b_uidv (snd x) =? b_uidv (snd y))) a b.
Definition ssel_eqb (a b : option ssel) : bool :=
  match a, b with
  | None, None => true
  | Some x, Some y => (ss_box x =? ss_box y) && Bool.eqb (ss_ro x) (ss_ro y)
                      && listN_eqb (ss_recent x) (ss_recent y)
  | _, _ => false
  end.

(* one observed step: a command with its response, or a change made by another
   connection; then the probe dump *)
Definition step_obs := (label * option out * dump)%type.
Definition case := (backend * boxes * list step_obs)%type.

Definition oout_eqb (a b : option out) : bool :=
  match a, b with Some x, Some y => out_eqb x y | None, None => true | _, _ => false end.
Definition spec_agrees (sp : sstate) (st1 : state) (c : cmd) (om : out) : bool * sstate :=
  let '(sp1, os) := spec_step sp c in
  (out_eqb os om && boxes_eqb (sp_boxes sp1) (st_boxes st1)
   && ssel_eqb (sp_sel sp1) (option_map abs_sel (st_sel st1)), sp1).

(* model vs implementation for every step; the plain spec vs the model in lock step
   for as long as no other connection has interfered ([sp] = Some _) *)
Fixpoint chk_steps (st : state) (sp : option sstate) (l : list step_obs) : bool :=
  match l with
  | [] => true
  | (lb, o, d) :: r =>
    let '(st1, om) := step_l st lb in
    let '(ok, sp1) :=
      match lb, sp, om with
      | LCmd c, Some s, Some x => let '(a, s1) := spec_agrees s st1 c x in (a, Some s1)
      | _, _, _ => (true, None)
      end in
    oout_eqb om o && dump_ok (st_boxes st1) d && ok && chk_steps st1 sp1 r
  end.

(* the initial state satisfies the hypothesis of the refinement theorem
   (Proofs.init_ok_Inv / init_ok_maildir_Inv) *)
Definition case_init_ok (bk : backend) (bs : boxes) : bool :=
  let st := mkState bk bs None in
  match bk with
  | Dict => init_ok st
  | Maildir => init_ok_maildir st
  end.
Definition chk_case (c : case) : bool :=
  let '(bk, bs, l) := c in
  let st := mkState bk bs None in
  case_init_ok bk bs && chk_steps st (Some (abs st)) l.

(* diagnostics for a failing case: per step (model=impl?, dump ok?, spec=model?) *)
Fixpoint diag_steps (st : state) (sp : option sstate) (l : list step_obs)
  : list (bool * bool * bool * option out) :=
  match l with
  | [] => []
  | (lb, o, d) :: r =>
    let '(st1, om) := step_l st lb in
    let '(ok, sp1) :=
      match lb, sp, om with
      | LCmd c, Some s, Some x => let '(a, s1) := spec_agrees s st1 c x in (a, Some s1)
      | _, _, _ => (true, None)
      end in
    (oout_eqb om o, dump_ok (st_boxes st1) d, ok, om) :: diag_steps st1 sp1 r
  end.
Definition diag_case (c : case) :=
  let '(bk, bs, l) := c in
  let st := mkState bk bs None in diag_steps st (Some (abs st)) l.

(* flags.py on its own *)
(* (op, set, operand, FlagOp.apply result) *)
Definition chk_apply (c : flagop * fset * fset * fset) : bool :=
  let '(op, s, x, r) := c in fset_eqb (op_apply op s x) r.
(* (defined, other, PermanentFlags(defined).intersect(other)) *)
Definition chk_intersect (c : fset * fset * fset) : bool :=
  let '(d, o, r) := c in fset_eqb (perm_intersect (perm_defined d) o) r.
(* (defined, old session flags of the uid, flag_set, op, SessionFlags.update result) *)
Definition chk_sess_update (c : fset * fset * fset * flagop * fset) : bool :=
  let '(d, old, fl, op, r) := c in fset_eqb (sess_update (perm_defined d) old fl op) r.
(* (permitted keywords+system, flags, from_maildir(to_maildir(flags))) *)
Definition chk_maildir_flags (c : fset * fset * fset) : bool :=
  let '(perm, fl, r) := c in fset_eqb (storable Maildir perm fl) r.
(* (attribute, FetchAttribute.set_seen) *)
Definition chk_set_seen (c : fattr * bool) : bool :=
  Bool.eqb (attr_set_seen (fst c)) (snd c) && Bool.eqb (rfc_sets_seen (fst c)) (snd c).

(* (source keyword table, destination keyword table, flags,
    dest.from_maildir(src.to_maildir(flags))) *)
Definition chk_maildir_carry (c : list flag * list flag * fset * fset) : bool :=
  let '(src, dst, fl, r) := c in fset_eqb (maildir_carry src dst fl) r.
