(* RefModel/BoxLemmas.v — lemmas about lookup/set_box, flag sets, enumerate *)
From PV Require Import Base.Prelude Wire.SeqSet RefModel.Flags RefModel.Model.
Local Open Scope N_scope.

(* ------------------------------------------------------- lookup / set_box *)
Lemma lookup_set_box_same n b bs :
  lookup n (set_box n b bs) = match lookup n bs with Some _ => Some b | None => None end.
Proof.
  induction bs as [|[k b0] r IH]; cbn [lookup set_box]; [reflexivity|].
  destruct (k =? n) eqn:E; cbn [lookup]; rewrite E; [reflexivity|exact IH].
Qed.

Lemma lookup_set_box_other n k b bs : k <> n -> lookup k (set_box n b bs) = lookup k bs.
Proof.
  intros Hne. induction bs as [|[j b0] r IH]; cbn [lookup set_box]; [reflexivity|].
  destruct (j =? n) eqn:E; cbn [lookup].
  - apply N.eqb_eq in E. subst j. destruct (n =? k) eqn:E2; [apply N.eqb_eq in E2; congruence|reflexivity].
  - destruct (j =? k); [reflexivity|exact IH].
Qed.

Lemma set_box_id n b bs : lookup n bs = Some b -> set_box n b bs = bs.
Proof.
  induction bs as [|[k b0] r IH]; cbn [lookup set_box]; [reflexivity|].
  destruct (k =? n) eqn:E; intros H; [congruence|]. rewrite IH by exact H. reflexivity.
Qed.

Lemma set_box_none n b bs : lookup n bs = None -> set_box n b bs = bs.
Proof.
  induction bs as [|[k b0] r IH]; cbn [lookup set_box]; [reflexivity|].
  destruct (k =? n) eqn:E; intros H; [discriminate|]. rewrite IH by exact H. reflexivity.
Qed.

Lemma set_box_twice n b1 b2 bs : set_box n b2 (set_box n b1 bs) = set_box n b2 bs.
Proof.
  induction bs as [|[k b0] r IH]; cbn [set_box]; [reflexivity|].
  destruct (k =? n) eqn:E; cbn [set_box]; rewrite E; [reflexivity|]. rewrite IH. reflexivity.
Qed.

Lemma set_box_comm n1 n2 b1 b2 bs : n1 <> n2 ->
  set_box n1 b1 (set_box n2 b2 bs) = set_box n2 b2 (set_box n1 b1 bs).
Proof.
  intros Hne. induction bs as [|[k b0] r IH]; cbn [set_box]; [reflexivity|].
  destruct (k =? n2) eqn:E2; destruct (k =? n1) eqn:E1; cbn [set_box]; rewrite ?E1, ?E2.
  - apply N.eqb_eq in E1, E2. congruence.
  - reflexivity.
  - reflexivity.
  - rewrite IH. reflexivity.
Qed.

Lemma set_box_keys n b bs : map fst (set_box n b bs) = map fst bs.
Proof.
  induction bs as [|[k b0] r IH]; cbn [set_box map]; [reflexivity|].
  destruct (k =? n); cbn [map fst]; [reflexivity|]. rewrite IH. reflexivity.
Qed.

(* ------------------------------------------------------------- flag sets *)
Lemma flag_eqb_refl f : flag_eqb f f = true.
Proof. destruct f; cbn; try reflexivity. apply N.eqb_refl. Qed.

Lemma flag_eqb_eq a b : flag_eqb a b = true <-> a = b.
Proof.
  split; [|intros ->; apply flag_eqb_refl].
  destruct a, b; cbn; try discriminate; try reflexivity.
  intros H. apply N.eqb_eq in H. congruence.
Qed.

Lemma mem_In f s : mem f s = true <-> In f s.
Proof.
  unfold mem. rewrite existsb_exists. split.
  - intros (x & Hx & E). apply flag_eqb_eq in E. subst. exact Hx.
  - intros H. exists f. split; [exact H|apply flag_eqb_refl].
Qed.

Lemma mem_app f a b : mem f (a ++ b) = mem f a || mem f b.
Proof. unfold mem. apply existsb_app. Qed.

Lemma mem_filter f p s : (forall x y, flag_eqb x y = true -> p x = p y) ->
  mem f (filter p s) = mem f s && p f.
Proof.
  intros Hp. induction s as [|x r IH]; cbn [filter mem existsb]; [reflexivity|].
  destruct (p x) eqn:Px; cbn [existsb]; fold (mem f r); fold (mem f (filter p r)); rewrite IH.
  - destruct (flag_eqb f x) eqn:E; cbn [orb].
    + rewrite (Hp _ _ E), Px. reflexivity.
    + reflexivity.
  - destruct (flag_eqb f x) eqn:E; cbn [orb].
    + rewrite (Hp _ _ E) in *. rewrite Px. rewrite andb_false_r. reflexivity.
    + reflexivity.
Qed.

Lemma mem_ext x y s : flag_eqb x y = true -> mem x s = mem y s.
Proof. intros E. apply flag_eqb_eq in E. subst. reflexivity. Qed.

(* what the three set operations mean, flag by flag *)
Lemma mem_union f a b : mem f (union a b) = mem f a || mem f b.
Proof.
  unfold union. rewrite mem_app, mem_filter.
  - destruct (mem f a); cbn; [reflexivity|]. rewrite andb_true_r. reflexivity.
  - intros x y E. rewrite (mem_ext _ _ _ E). reflexivity.
Qed.
Lemma mem_diff f a b : mem f (diff a b) = mem f a && negb (mem f b).
Proof. unfold diff. apply mem_filter. intros x y E. rewrite (mem_ext _ _ _ E). reflexivity. Qed.
Lemma mem_inter f a b : mem f (inter a b) = mem f a && mem f b.
Proof. unfold inter. apply mem_filter. intros x y E. rewrite (mem_ext _ _ _ E). reflexivity. Qed.

Lemma subset_spec a b : subset a b = true <-> (forall f, mem f a = true -> mem f b = true).
Proof.
  unfold subset. rewrite forallb_forall. split.
  - intros H f Hf. apply mem_In in Hf. apply H, Hf.
  - intros H f Hf. apply H, mem_In, Hf.
Qed.
Lemma fset_eqb_spec a b : fset_eqb a b = true <-> (forall f, mem f a = mem f b).
Proof.
  unfold fset_eqb. rewrite andb_true_iff, !subset_spec. split.
  - intros [H1 H2] f. destruct (mem f a) eqn:Ea, (mem f b) eqn:Eb; try reflexivity.
    + apply H1 in Ea. congruence.
    + apply H2 in Eb. congruence.
  - intros H. split; intros f Hf; [rewrite <- H|rewrite H]; exact Hf.
Qed.
Lemma fset_eqb_refl a : fset_eqb a a = true.
Proof. apply fset_eqb_spec. reflexivity. Qed.
Lemma fset_eqb_sym a b : fset_eqb a b = fset_eqb b a.
Proof. unfold fset_eqb. apply andb_comm. Qed.
Lemma fset_eqb_trans a b c : fset_eqb a b = true -> fset_eqb b c = true -> fset_eqb a c = true.
Proof. rewrite !fset_eqb_spec. intros H1 H2 f. rewrite H1. apply H2. Qed.

Lemma filter_all {A} (p : A -> bool) l : (forall x, In x l -> p x = true) -> filter p l = l.
Proof.
  induction l as [|x r IH]; intros H; cbn [filter]; [reflexivity|].
  rewrite (H x (or_introl eq_refl)). rewrite IH; [reflexivity|]. intros y Hy. apply H. right. exact Hy.
Qed.

Lemma mem_with_recent_deleted fl r : mem FDeleted (with_recent fl r) = mem FDeleted fl.
Proof.
  unfold with_recent. destruct r; [|reflexivity]. rewrite mem_union. cbn. apply orb_false_r.
Qed.

(* ----------------------------------------------------------------- memN *)
Lemma memN_In n l : memN n l = true <-> In n l.
Proof.
  unfold memN. rewrite existsb_exists. split.
  - intros (x & Hx & E). apply N.eqb_eq in E. subst. exact Hx.
  - intros H. exists n. split; [exact H|apply N.eqb_refl].
Qed.
Lemma memN_false n l : memN n l = false <-> ~ In n l.
Proof. rewrite <- memN_In. destruct (memN n l); split; congruence. Qed.
Lemma memN_app n a b : memN n (a ++ b) = memN n a || memN n b.
Proof. unfold memN. apply existsb_app. Qed.

(* ------------------------------------------------------------ enumerate *)
Lemma enum_from_snd {A} k (l : list A) : map snd (enum_from k l) = l.
Proof. revert k. induction l as [|x r IH]; intros k; cbn; [reflexivity|]. rewrite IH. reflexivity. Qed.
Lemma enum_from_length {A} k (l : list A) : length (enum_from k l) = length l.
Proof. revert k. induction l as [|x r IH]; intros k; cbn; [reflexivity|]. rewrite IH. reflexivity. Qed.
Lemma enum_from_app {A} k (a b : list A) :
  enum_from k (a ++ b) = enum_from k a ++ enum_from (k + N.of_nat (length a)) b.
Proof.
  revert k. induction a as [|x r IH]; intros k; cbn [app enum_from length].
  - rewrite N.add_0_r. reflexivity.
  - rewrite IH. f_equal. f_equal. f_equal. lia.
Qed.
Lemma enum_from_map {A B} (f : A -> B) k l :
  enum_from k (map f l) = map (fun qx => (fst qx, f (snd qx))) (enum_from k l).
Proof. revert k. induction l as [|x r IH]; intros k; cbn; [reflexivity|]. rewrite IH. reflexivity. Qed.
Lemma enum_from_fst_bounds {A} k (l : list A) q x :
  In (q, x) (enum_from k l) -> k <= q < k + N.of_nat (length l).
Proof.
  revert k. induction l as [|y r IH]; intros k H; cbn in H; [destruct H|].
  destruct H as [E|H].
  - inversion E; subst. cbn [length]. lia.
  - apply IH in H. cbn [length]. lia.
Qed.
Lemma enum_from_In_snd {A} k (l : list A) q x : In (q, x) (enum_from k l) -> In x l.
Proof.
  intros H. rewrite <- (enum_from_snd k l). apply (in_map snd) in H. exact H.
Qed.

(* ---------------------------------------------------------------- NoDup *)
Lemma NoDup_app_r {A} (a b : list A) : NoDup (a ++ b) -> NoDup b.
Proof. induction a as [|x r IH]; cbn [app]; intros H; [exact H|]. inversion H; subst. apply IH. assumption. Qed.
Lemma NoDup_app_l {A} (a b : list A) : NoDup (a ++ b) -> NoDup a.
Proof.
  induction a as [|x r IH]; cbn [app]; intros H; [constructor|]. inversion H; subst. constructor.
  - intros Hi. apply H2. apply in_or_app. left. exact Hi.
  - apply IH. assumption.
Qed.
Lemma NoDup_app_disj {A} (a b : list A) x : NoDup (a ++ b) -> In x a -> In x b -> False.
Proof.
  induction a as [|y r IH]; cbn [app]; intros H Ha Hb; [destruct Ha|]. inversion H; subst.
  destruct Ha as [->|Ha]; [apply H2, in_or_app; right; exact Hb|apply IH; assumption].
Qed.

(* ------------------------------------------- lookup in appended / filtered lists *)
Lemma lookup_app n a b :
  lookup n (a ++ b) = match lookup n a with Some x => Some x | None => lookup n b end.
Proof.
  induction a as [|[k x] r IH]; cbn [app lookup]; [reflexivity|].
  destruct (k =? n); [reflexivity|exact IH].
Qed.
Lemma lookup_del_same n bs : lookup n (del_box n bs) = None.
Proof.
  unfold del_box. induction bs as [|[k x] r IH]; cbn [filter lookup fst]; [reflexivity|].
  destruct (k =? n) eqn:E; cbn [negb]; [exact IH|]. cbn [lookup]. rewrite E. exact IH.
Qed.
Lemma lookup_del_other n k bs : k <> n -> lookup k (del_box n bs) = lookup k bs.
Proof.
  intros Hne. unfold del_box. induction bs as [|[j x] r IH]; cbn [filter lookup fst]; [reflexivity|].
  destruct (j =? n) eqn:E; cbn [negb].
  - apply N.eqb_eq in E. subst j. destruct (n =? k) eqn:E2; [apply N.eqb_eq in E2; congruence|exact IH].
  - cbn [lookup]. destruct (j =? k); [reflexivity|exact IH].
Qed.

Lemma filter_none {A} (p : A -> bool) l : (forall x, In x l -> p x = false) -> filter p l = [].
Proof.
  induction l as [|x r IH]; intros H; cbn [filter]; [reflexivity|].
  rewrite (H x (or_introl eq_refl)). apply IH. intros y Hy. apply H. right. exact Hy.
Qed.
