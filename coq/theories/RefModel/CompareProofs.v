(* RefModel/CompareProofs.v — what fork()/_compare and the FETCH merge of
   add_untagged produce, in closed form, for the three shapes of change a
   command can make: flags only, removals + arrivals. *)
From Coq Require Import Sorting.Sorted.
From PV Require Import Base.Prelude Wire.SeqSet RefModel.Flags RefModel.Model RefModel.Spec
  RefModel.BoxLemmas RefModel.AddrProofs.
Local Open Scope N_scope.

(* ------------------------------------------------ add_untagged and merging *)
Definition fetch_seqs (l : list untagged) : list N :=
  flat_map (fun u => match u with UFetch i => [fi_seq i] | _ => [] end) l.

Lemma fetch_seqs_app a b : fetch_seqs (a ++ b) = fetch_seqs a ++ fetch_seqs b.
Proof. unfold fetch_seqs. apply flat_map_app. Qed.

Lemma merge_into_none acc i : ~ In (fi_seq i) (fetch_seqs acc) -> merge_into acc i = None.
Proof.
  induction acc as [|u r IH]; intros H; cbn [merge_into]; [reflexivity|].
  destruct u as [| | |a| | | | |]; cbn [fetch_seqs flat_map app] in H;
    try (rewrite IH by exact H; reflexivity).
  destruct (fi_seq a =? fi_seq i) eqn:E.
  - apply N.eqb_eq in E. exfalso. apply H. left. exact E.
  - rewrite IH; [reflexivity|]. intros Hi. apply H. right. exact Hi.
Qed.

Lemma merge_into_skip pre r i : ~ In (fi_seq i) (fetch_seqs pre) ->
  merge_into (pre ++ r) i = option_map (app pre) (merge_into r i).
Proof.
  induction pre as [|u p IH]; intros H; cbn [app].
  - destruct (merge_into r i); reflexivity.
  - destruct u as [| | |a| | | | |]; cbn [fetch_seqs flat_map app] in H; cbn [merge_into];
      try (rewrite IH by exact H; destruct (merge_into r i); reflexivity).
    destruct (fi_seq a =? fi_seq i) eqn:E.
    + apply N.eqb_eq in E. exfalso. apply H. left. exact E.
    + rewrite IH; [destruct (merge_into r i); reflexivity|]. intros Hi. apply H. right. exact Hi.
Qed.

Lemma add_untagged_fresh acc u :
  (forall i, u = UFetch i -> ~ In (fi_seq i) (fetch_seqs acc)) -> add_untagged acc u = acc ++ [u].
Proof.
  intros H. destruct u as [| | |i| | | | |]; cbn [add_untagged]; try reflexivity.
  rewrite merge_into_none; [reflexivity|]. apply H. reflexivity.
Qed.

(* responses that cannot merge are appended in order *)
Lemma fold_add_fresh l : forall acc,
  NoDup (fetch_seqs l) -> (forall q, In q (fetch_seqs l) -> ~ In q (fetch_seqs acc)) ->
  fold_left add_untagged l acc = acc ++ l.
Proof.
  induction l as [|u r IH]; intros acc Hnd Hd; cbn [fold_left]; [rewrite app_nil_r; reflexivity|].
  change (u :: r) with ([u] ++ r) in Hnd, Hd. rewrite fetch_seqs_app in Hnd, Hd.
  rewrite add_untagged_fresh.
  - rewrite IH.
    + rewrite <- app_assoc. reflexivity.
    + apply NoDup_app_r in Hnd. exact Hnd.
    + intros q Hq. rewrite fetch_seqs_app. intros Hi. apply in_app_or in Hi. destruct Hi as [Hi|Hi].
      * apply (Hd q); [apply in_or_app; right; exact Hq|exact Hi].
      * exact (NoDup_app_disj _ _ q Hnd Hi Hq).
  - intros i ->. apply Hd. cbn. left. reflexivity.
Qed.

(* FETCH responses of the same messages merge item by item *)
Section Merge.
  Variable X : Type.
  Variable key : X -> N.
  Variables A B : X -> fitem.
  Variables addr chg : X -> bool.
  Hypothesis HA : forall x, fi_seq (A x) = key x.
  Hypothesis HB : forall x, fi_seq (B x) = key x.
  Hypothesis Hsub : forall x, chg x = true -> addr x = true.

  Definition merged (x : X) : fitem := if chg x then merge_item (A x) (B x) else A x.

  Lemma fetch_seqs_map (f : X -> fitem) l : (forall x, fi_seq (f x) = key x) ->
    fetch_seqs (map (fun x => UFetch (f x)) l) = map key l.
  Proof.
    intros Hf. induction l as [|x r IH]; cbn; [reflexivity|]. rewrite Hf. f_equal. exact IH.
  Qed.

  Lemma merged_seq x : fi_seq (merged x) = key x.
  Proof. unfold merged. destruct (chg x); cbn; apply HA. Qed.

  Lemma merge_fold todo : forall pre,
    NoDup (map key todo) ->
    (forall x, In x todo -> ~ In (key x) (fetch_seqs pre)) ->
    fold_left add_untagged (map (fun x => UFetch (B x)) (filter chg todo))
              (pre ++ map (fun x => UFetch (A x)) (filter addr todo))
    = pre ++ map (fun x => UFetch (merged x)) (filter addr todo).
  Proof.
    induction todo as [|x t IH]; intros pre Hnd Hpre; cbn [filter map fold_left]; [reflexivity|].
    cbn [map] in Hnd. inversion Hnd as [|? ? Hx Ht]; subst.
    assert (Hpre' : forall f, fi_seq (f x) = key x ->
              forall y, In y t -> ~ In (key y) (fetch_seqs (pre ++ [UFetch (f x)]))).
    { intros f Hf y Hy. rewrite fetch_seqs_app. intros Hi. apply in_app_or in Hi.
      destruct Hi as [Hi|Hi]; [apply (Hpre y (or_intror Hy) Hi)|].
      cbn in Hi. destruct Hi as [E|[]]. rewrite Hf in E. apply Hx. rewrite E. apply in_map, Hy. }
    destruct (chg x) eqn:Ec.
    - assert (Em : merged x = merge_item (A x) (B x)) by (unfold merged; rewrite Ec; reflexivity).
      rewrite (Hsub x Ec). cbn [map fold_left add_untagged].
      rewrite merge_into_skip by (rewrite HB; apply Hpre; left; reflexivity).
      cbn [merge_into]. rewrite HA, HB, N.eqb_refl. cbn [option_map].
      specialize (IH (pre ++ [UFetch (merged x)]) Ht (Hpre' merged (merged_seq x))).
      rewrite <- !app_assoc in IH. cbn [app] in IH.
      rewrite Em in *. exact IH.
    - assert (Em : merged x = A x) by (unfold merged; rewrite Ec; reflexivity).
      destruct (addr x) eqn:Ea.
      + cbn [map]. specialize (IH (pre ++ [UFetch (A x)]) Ht (Hpre' A (HA x))).
        rewrite <- !app_assoc in IH. cbn [app] in IH. rewrite Em. exact IH.
      + apply IH; [exact Ht|]. intros y Hy. apply Hpre. right. exact Hy.
  Qed.
End Merge.

(* ------------------------------------------------------------ enumerate *)
Lemma enum_keys_NoDup {A} k (l : list A) : NoDup (map fst (enum_from k l)).
Proof.
  revert k. induction l as [|x r IH]; intros k; cbn; constructor; [|apply IH].
  intros Hi. apply in_map_iff in Hi. destruct Hi as ([q y] & E & Hi). cbn in E. subst q.
  apply enum_from_fst_bounds in Hi. lia.
Qed.

Lemma filter_enum_map {A} (p : A -> bool) k (l : list A) :
  map snd (filter (fun qx => p (snd qx)) (enum_from k l)) = filter p l.
Proof.
  revert k. induction l as [|x r IH]; intros k; cbn [enum_from filter map snd]; [reflexivity|].
  destruct (p x); cbn [map snd]; rewrite IH; reflexivity.
Qed.

(* ----------------------------------------------------------- key_in etc. *)
Lemma key_in_self m l : In m l -> key_in m l = true.
Proof.
  intros H. unfold key_in. apply existsb_exists. exists m. split; [exact H|].
  rewrite N.eqb_refl, fset_eqb_refl. reflexivity.
Qed.

Lemma key_in_fresh m l : ~ In (m_uid m) (uids_of l) -> key_in m l = false.
Proof.
  intros H. unfold key_in. destruct (existsb _ l) eqn:E; [|reflexivity].
  apply existsb_exists in E. destruct E as (x & Hx & E). apply andb_true_iff in E.
  destruct E as [E _]. apply N.eqb_eq in E. exfalso. apply H. rewrite <- E. apply in_map, Hx.
Qed.

(* the only entry of l with m's UID is m0: the key is there iff flags agree *)
Lemma key_in_unique m m0 l : NoDup (uids_of l) -> In m0 l -> m_uid m = m_uid m0 ->
  key_in m l = fset_eqb (m_flags m0) (m_flags m).
Proof.
  unfold key_in, uids_of. induction l as [|x r IH]; intros Hnd Hi Hu; [destruct Hi|].
  cbn [map] in Hnd. inversion Hnd as [|? ? Hx Hr]; subst. cbn [existsb].
  destruct Hi as [->|Hi].
  - assert (Er : existsb (fun x => (m_uid x =? m_uid m) && fset_eqb (m_flags x) (m_flags m)) r = false).
    { destruct (existsb _ r) eqn:E; [|reflexivity].
      apply existsb_exists in E. destruct E as (y & Hy & E). apply andb_true_iff in E.
      destruct E as [E _]. apply N.eqb_eq in E. exfalso. apply Hx. rewrite <- Hu, <- E. apply in_map, Hy. }
    rewrite Er, Hu, N.eqb_refl. cbn [andb]. apply orb_false_r.
  - destruct (m_uid x =? m_uid m) eqn:E.
    + apply N.eqb_eq in E. exfalso. apply Hx. rewrite E, Hu. apply in_map, Hi.
    + cbn [andb orb]. apply IH; assumption.
Qed.

Lemma memN_filter n p l : memN n (filter p l) = memN n l && p n.
Proof.
  induction l as [|x r IH]; cbn [filter memN existsb]; [reflexivity|].
  destruct (p x) eqn:Px; cbn [memN existsb]; fold (memN n r); fold (memN n (filter p r)); rewrite IH.
  - destruct (n =? x) eqn:E; cbn [orb]; [apply N.eqb_eq in E; subst; rewrite Px; reflexivity|reflexivity].
  - destruct (n =? x) eqn:E; cbn [orb]; [apply N.eqb_eq in E; subst; rewrite Px, andb_false_r; reflexivity|reflexivity].
Qed.

Lemma recent_in_ext rec v v' : uids_of v = uids_of v' -> recent_in rec v = recent_in rec v'.
Proof. intros E. unfold recent_in. rewrite E. reflexivity. Qed.

(* ---------------------------------------------- compare: flags-only change *)
Lemma compare_flags_only v0 v1 rec sil wu :
  uids_of v1 = uids_of v0 ->
  compare v0 rec v1 rec sil wu =
  map (fun qm => flags_item (fst qm) (snd qm) rec wu)
      (filter (fun qm => negb (key_in (snd qm) v0) && negb (key_silenced (snd qm) sil))
              (enumerate v1)).
Proof.
  intros Eu. unfold compare. rewrite (recent_in_ext rec v1 v0 Eu), N.eqb_refl, Eu.
  replace (filter _ (enumerate v0)) with (@nil (N * msg)).
  2:{ symmetry. clear. unfold enumerate. generalize 1 as k. unfold uids_of.
      assert (H : forall (l : list msg) k pre, filter (fun qm : N * msg =>
                 negb (memN (m_uid (snd qm)) (map m_uid (pre ++ l)))) (enum_from k l) = []).
      { induction l as [|x r IH]; intros k pre; cbn [enum_from filter]; [reflexivity|].
        cbn [snd]. replace (memN (m_uid x) (map m_uid (pre ++ x :: r))) with true.
        - cbn [negb]. specialize (IH (k + 1) (pre ++ [x])). rewrite <- app_assoc in IH. exact IH.
        - symmetry. apply memN_In, in_map, in_or_app. right. left. reflexivity. }
      intros k. exact (H v0 k []). }
  cbn [rev map app].
  replace (existsb _ v1) with false.
  2:{ symmetry. destruct (existsb _ v1) eqn:E; [|reflexivity]. apply existsb_exists in E.
      destruct E as (m & Hm & E). apply negb_true_iff, memN_false in E. exfalso. apply E.
      rewrite <- Eu. apply in_map, Hm. }
  cbn [app]. f_equal. apply filter_ext. intros [q m]. cbn [snd].
  destruct (memN (m_uid m) (recent_in rec v0)); reflexivity.
Qed.

(* --------------------------------------- compare: removals and arrivals *)

Lemma skipn_app_exact {A} (a b : list A) n : length a = n -> skipn n (a ++ b) = b.
Proof. intros <-. induction a as [|x r IH]; cbn; [reflexivity|exact IH]. Qed.

Lemma memN_uids_new_false v0 new m :
  (forall x, In x new -> ~ In (m_uid x) (uids_of v0)) -> In m v0 ->
  memN (m_uid m) (uids_of new) = false.
Proof.
  intros Hn Hm. apply memN_false. intros Hi. unfold uids_of in Hi. apply in_map_iff in Hi.
  destruct Hi as (x & Ex & Hx). apply (Hn x Hx). rewrite Ex. apply in_map, Hm.
Qed.

Lemma compare_remove_add v0 keep new rec0 rec1 wu :
  NoDup (uids_of v0) ->
  (forall m, In m new -> ~ In (m_uid m) (uids_of v0)) ->
  (forall m, In m v0 -> keep m = true -> memN (m_uid m) rec1 = true -> memN (m_uid m) rec0 = true) ->
  compare v0 rec0 (filter keep v0 ++ new) rec1 [] wu =
    expunge_lines v0 (fun _ m => negb (keep m))
    ++ (if (length (filter keep v0 ++ new) <=? length (filter keep v0))%nat then []
        else [UExists (N.of_nat (length (filter keep v0 ++ new)))])
    ++ recent_line rec0 v0 rec1 (filter keep v0 ++ new)
    ++ map (fun qm => sflags_item (fst qm) (snd qm) rec1 wu)
           (skipn (length (filter keep v0)) (enumerate (filter keep v0 ++ new))).
Proof.
  intros Hnd Hnew Hrec. unfold compare, expunge_lines. f_equal; [|f_equal; [|f_equal]].
  - f_equal. f_equal. apply filter_ext_in. intros [q m] Hi. cbn [snd fst].
    apply enum_from_In_snd in Hi. unfold uids_of at 1. rewrite map_app.
    fold (uids_of (filter keep v0)). fold (uids_of new). rewrite memN_app.
    rewrite memN_uids_filter by assumption. rewrite (memN_uids_new_false v0 new m Hnew Hi).
    rewrite orb_false_r. reflexivity.
  - rewrite existsb_app.
    replace (existsb _ (filter keep v0)) with false.
    2:{ symmetry. destruct (existsb _ (filter keep v0)) eqn:E; [|reflexivity].
        apply existsb_exists in E. destruct E as (m & Hm & E). apply filter_In in Hm.
        apply negb_true_iff, memN_false in E. exfalso. apply E. apply in_map, Hm. }
    cbn [orb]. destruct new as [|n r].
    + rewrite app_nil_r. rewrite Nat.leb_refl. reflexivity.
    + cbn [existsb]. replace (memN (m_uid n) (uids_of v0)) with false.
      2:{ symmetry. apply memN_false. apply Hnew. left. reflexivity. }
      cbn [negb orb]. rewrite app_length. cbn [length].
      destruct (Nat.leb_spec (length (filter keep v0) + S (length r)) (length (filter keep v0)));
        [lia|]. unfold v_exists. rewrite app_length. reflexivity.
  - unfold enumerate. rewrite enum_from_app. rewrite filter_app.
    rewrite filter_none.
    2:{ intros [q m] Hi. cbn [snd]. apply enum_from_In_snd in Hi. apply filter_In in Hi.
        destruct Hi as [Hi Hk]. rewrite (key_in_self m v0 Hi). cbn [negb andb]. rewrite orb_false_r.
        destruct (memN (m_uid m) (recent_in rec1 (filter keep v0 ++ new))) eqn:E1; [|reflexivity].
        unfold recent_in in E1. rewrite memN_filter in E1. apply andb_true_iff in E1.
        destruct E1 as [E1 _]. cbn [andb]. unfold recent_in. rewrite memN_filter.
        rewrite (Hrec m Hi Hk E1). cbn [andb].
        replace (memN (m_uid m) (uids_of v0)) with true; [reflexivity|].
        symmetry. apply memN_In, in_map, Hi. }
    cbn [app]. rewrite filter_all.
    2:{ intros [q m] Hi. cbn [snd]. apply enum_from_In_snd in Hi.
        rewrite (key_in_fresh m v0 (Hnew m Hi)). cbn. apply orb_true_r. }
    rewrite skipn_app_exact by apply enum_from_length. reflexivity.
Qed.
