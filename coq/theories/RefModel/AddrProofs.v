(* RefModel/AddrProofs.v — sequence numbers, UIDs and sequence sets: the
   model's addressing (flatten over the session's view) is what the RFC says
   (Spec.addressed); sorted UID lists. *)
From Coq Require Import Sorting.Sorted.
From PV Require Import Base.Prelude Wire.SeqSet Wire.SeqSetProofs
  RefModel.Flags RefModel.Model RefModel.Spec RefModel.BoxLemmas.
Local Open Scope N_scope.

(* in_set decides [denotes] *)
Lemma elem_in_denotes mx n e : elem_in mx n e = true <-> elem_denotes mx e n.
Proof.
  destruct e as [i|a b]; cbn [elem_in elem_denotes].
  - rewrite andb_true_iff, N.eqb_eq, N.leb_le. tauto.
  - rewrite !andb_true_iff, !N.leb_le. tauto.
Qed.

Theorem in_set_denotes mx ss n : in_set mx ss n = true <-> denotes mx ss n.
Proof.
  unfold in_set, denotes. rewrite existsb_exists.
  split; intros (e & He & H); exists e; (split; [exact He|]); apply elem_in_denotes; exact H.
Qed.

(* membership in the flattened set = the RFC denotation *)
Lemma memN_seq_iter mx ss n : memN n (seq_iter mx ss) = in_set mx ss n.
Proof.
  destruct (in_set mx ss n) eqn:E.
  - apply memN_In, flatten_spec, in_set_denotes, E.
  - apply memN_false. intros H. apply flatten_spec, in_set_denotes in H. congruence.
Qed.

(* ---- ascending UID lists *)
Definition asc (l : list N) : Prop := StronglySorted N.lt l.

Lemma asc_NoDup l : asc l -> NoDup l.
Proof.
  induction 1 as [|x r _ IH Hf]; constructor; [|exact IH].
  intros Hi. rewrite Forall_forall in Hf. specialize (Hf x Hi). lia.
Qed.

Lemma asc_last_max l : asc l -> last l 0 = fold_right N.max 0 l.
Proof.
  induction 1 as [|x r Hs IH Hf]; [reflexivity|].
  cbn [fold_right]. destruct r as [|y r'].
  - cbn. lia.
  - change (last (x :: y :: r') 0) with (last (y :: r') 0). rewrite IH.
    assert (x < fold_right N.max 0 (y :: r')).
    { inversion Hf; subst. cbn [fold_right]. lia. }
    lia.
Qed.

Lemma asc_app_one l u : asc l -> Forall (fun x => x < u) l -> asc (l ++ [u]).
Proof.
  induction 1 as [|x r Hs IH Hf]; intros Hl; cbn [app].
  - repeat constructor.
  - inversion Hl; subst. constructor; [apply IH; assumption|].
    apply Forall_app. split; [exact Hf|]. repeat constructor. assumption.
Qed.

Lemma asc_filter p l : asc l -> asc (filter p l).
Proof.
  induction 1 as [|x r Hs IH Hf]; cbn [filter]; [constructor|].
  destruct (p x); [|exact IH]. constructor; [exact IH|].
  rewrite Forall_forall in *. intros y Hy. apply filter_In in Hy. apply Hf, Hy.
Qed.

Lemma max_uid_ge l m : In m l -> m_uid m <= max_uid l.
Proof.
  unfold max_uid, uids_of. induction l as [|x r IH]; intros H; [destruct H|].
  cbn [map fold_right]. destruct H as [->|H]; [lia|]. specialize (IH H). lia.
Qed.

Lemma v_maxuid_max l : asc (uids_of l) -> v_maxuid l = max_uid l.
Proof. intros H. unfold v_maxuid, max_uid. apply asc_last_max, H. Qed.

(* get_uids / get_all address exactly what the sequence set denotes *)
Lemma get_all_spec v uid ss : asc (uids_of v) ->
  get_all v uid ss = filter (fun qm => addressed uid ss v (fst qm) (snd qm)) (enumerate v).
Proof.
  intros Ha. unfold get_all, addressed. destruct uid; apply filter_ext; intros [q m]; cbn [fst snd].
  - rewrite memN_seq_iter, v_maxuid_max by exact Ha. reflexivity.
  - rewrite memN_seq_iter. reflexivity.
Qed.

Lemma in_nrange_b lo hi n : memN n (nrange lo hi) = (lo <=? n) && (n <=? hi).
Proof.
  destruct ((lo <=? n) && (n <=? hi)) eqn:E.
  - apply memN_In, in_nrange. apply andb_true_iff in E. rewrite !N.leb_le in E. exact E.
  - apply memN_false. intros H. apply in_nrange in H.
    apply andb_false_iff in E. rewrite !N.leb_gt in E. lia.
Qed.

(* EXPUNGE without a set looks at every message *)
Lemma expunge_targets_all v : asc (uids_of v) -> Forall (fun u => 0 < u) (uids_of v) ->
  expunge_targets v None = enumerate v.
Proof.
  intros Ha Hp. unfold expunge_targets. apply filter_all. intros [q m] Hi. cbn [snd].
  apply enum_from_In_snd in Hi. rewrite in_nrange_b, v_maxuid_max by exact Ha.
  apply andb_true_iff. rewrite !N.leb_le. split.
  - rewrite Forall_forall in Hp. specialize (Hp (m_uid m) (in_map m_uid _ _ Hi)). lia.
  - apply max_uid_ge, Hi.
Qed.

(* uid membership in a list of messages with distinct UIDs *)
Lemma memN_uids_filter p l m : NoDup (uids_of l) -> In m l ->
  memN (m_uid m) (uids_of (filter p l)) = p m.
Proof.
  unfold uids_of. induction l as [|x r IH]; intros Hnd Hi; [destruct Hi|].
  cbn [map] in Hnd. inversion Hnd as [|? ? Hx Hr]; subst. cbn [filter]. destruct Hi as [->|Hi].
  - destruct (p m) eqn:Pm.
    + cbn [map memN existsb]. rewrite N.eqb_refl. reflexivity.
    + apply memN_false. intros H. apply in_map_iff in H. destruct H as (y & Ey & Hy).
      apply filter_In in Hy. apply Hx. rewrite <- Ey. apply in_map, Hy.
  - assert (m_uid x <> m_uid m) by (intros E; apply Hx; rewrite E; apply in_map, Hi).
    destruct (p x); [cbn [map memN existsb]|]; rewrite ?IH by assumption.
    + destruct (m_uid m =? m_uid x) eqn:E; [apply N.eqb_eq in E; congruence|]. apply IH; assumption.
    + reflexivity.
Qed.

Lemma find_msg_In l m : NoDup (uids_of l) -> In m l -> find_msg (m_uid m) l = Some m.
Proof.
  unfold find_msg, uids_of. induction l as [|x r IH]; intros Hnd Hi; [destruct Hi|].
  cbn [map] in Hnd. inversion Hnd as [|? ? Hx Hr]; subst. cbn [find]. destruct Hi as [->|Hi].
  - rewrite N.eqb_refl. reflexivity.
  - destruct (m_uid x =? m_uid m) eqn:E.
    + apply N.eqb_eq in E. exfalso. apply Hx. rewrite E. apply in_map, Hi.
    + apply IH; assumption.
Qed.

Lemma find_msg_none l u : ~ In u (uids_of l) -> find_msg u l = None.
Proof.
  unfold find_msg, uids_of. induction l as [|x r IH]; intros H; [reflexivity|].
  cbn [find map] in *. destruct (m_uid x =? u) eqn:E.
  - apply N.eqb_eq in E. exfalso. apply H. left. exact E.
  - apply IH. intros Hi. apply H. right. exact Hi.
Qed.

Lemma find_msg_app_l l r u m : find_msg u l = Some m -> find_msg u (l ++ r) = Some m.
Proof.
  unfold find_msg. induction l as [|x l' IH]; cbn [find app]; [discriminate|].
  destruct (m_uid x =? u); [auto|exact IH].
Qed.
