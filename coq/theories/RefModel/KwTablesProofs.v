(* RefModel/KwTablesProofs.v — the letter translation of maildir COPY / MOVE is exact for
   every pair of keyword tables; carrying the raw letters is wrong even between folders that
   define the same keyword set. *)
From PV Require Import Base.Prelude RefModel.Flags RefModel.BoxLemmas RefModel.KwTables.
Local Open Scope N_scope.

Lemma upto_comma_app a b :
  Forall (fun c => c <> 44) a -> upto_comma (a ++ b) = a ++ upto_comma b.
Proof.
  induction 1 as [|c r Hc _ IH]; [reflexivity|].
  cbn [app upto_comma]. destruct (N.eqb_spec c 44) as [E|_]; [contradiction|].
  rewrite IH. reflexivity.
Qed.

Lemma sys_of_letter i : sys_of_code (letter i) = None.
Proof.
  unfold sys_of_code, letter.
  repeat match goal with |- context [?a =? ?b] => destruct (N.eqb_spec a b) as [E|_]; [lia|] end.
  reflexivity.
Qed.

Lemma code_of_kw_some t x c :
  code_of_kw t x = Some c -> exists i, In (i, x) t /\ c = letter i.
Proof.
  induction t as [|[i k] r IH]; cbn [code_of_kw]; [discriminate|].
  destruct (code_of_kw r x) as [c'|] eqn:E.
  - intros H. inversion H; subst c'. destruct (IH eq_refl) as (j & Hj & Hc).
    exists j. split; [right; exact Hj|exact Hc].
  - destruct (flag_eqb x k) eqn:Ek; [|discriminate].
    intros H. inversion H. apply flag_eqb_eq in Ek. subst k.
    exists i. split; [left; reflexivity|reflexivity].
Qed.

Lemma code_of_kw_none t x : code_of_kw t x = None -> ~ In x (map snd t).
Proof.
  induction t as [|[i k] r IH]; cbn [code_of_kw map snd]; [intros _ []|].
  destruct (code_of_kw r x) as [c'|] eqn:E; [discriminate|].
  destruct (flag_eqb x k) eqn:Ek; [discriminate|].
  intros _ [H|H].
  - subst k. rewrite flag_eqb_refl in Ek. discriminate.
  - exact (IH eq_refl H).
Qed.

Lemma kw_of_code_none t i : ~ In i (map fst t) -> kw_of_code t (letter i) = None.
Proof.
  induction t as [|[j k] r IH]; cbn [kw_of_code map fst]; [reflexivity|].
  intros H. rewrite IH by (intros Hi; apply H; right; exact Hi).
  unfold letter. destruct (N.eqb_spec (97 + i) (97 + j)) as [E|_]; [|reflexivity].
  exfalso. apply H. left. lia.
Qed.

Lemma kw_of_code_in t i x :
  NoDup (map fst t) -> In (i, x) t -> kw_of_code t (letter i) = Some x.
Proof.
  induction t as [|[j k] r IH]; cbn [kw_of_code map fst]; [intros _ []|].
  intros Hnd [H|H].
  - inversion H; subst j k. inversion Hnd as [|? ? Hni _]; subst.
    rewrite (kw_of_code_none r i Hni). rewrite N.eqb_refl. reflexivity.
  - inversion Hnd as [|? ? _ Hr]; subst. rewrite (IH Hr H). reflexivity.
Qed.

(* one flag: written and read back with the same table it is itself if the table can store
   it, and nothing otherwise; the letter is never ',' *)
Lemma encode_decode t x : wf_table t ->
  (encode t x = [] /\ mem x (table_perm t) = false) \/
  (exists c, encode t x = [c] /\ c <> 44 /\ decode t c = [x] /\ mem x (table_perm t) = true).
Proof.
  intros Hwf. unfold encode. destruct (code_of_sys x) as [c|] eqn:Es.
  - right. exists c.
    destruct x; cbn in Es; inversion Es; subst c;
      (split; [reflexivity|split; [lia|split; [reflexivity|reflexivity]]]).
  - destruct (code_of_kw t x) as [c|] eqn:Ek.
    + right. exists c. destruct (code_of_kw_some t x c Ek) as (i & Hin & Hc). subst c.
      split; [reflexivity|]. split; [unfold letter; lia|]. split.
      * unfold decode. rewrite sys_of_letter, (kw_of_code_in t i x Hwf Hin). reflexivity.
      * apply mem_In. unfold table_perm. apply in_or_app. right.
        apply (in_map snd) in Hin. exact Hin.
    + left. split; [reflexivity|].
      destruct (mem x (table_perm t)) eqn:Em; [|reflexivity]. exfalso.
      apply mem_In in Em. unfold table_perm in Em. apply in_app_or in Em. destruct Em as [H|H].
      * destruct x; cbn in Es; try discriminate; cbn in H; intuition discriminate.
      * exact (code_of_kw_none t x Ek H).
Qed.

Lemma roundtrip t fl f : wf_table t ->
  mem f (from_maildir t (to_maildir t fl)) = mem f fl && mem f (table_perm t).
Proof.
  intros Hwf. unfold from_maildir, to_maildir.
  induction fl as [|x r IH]; [reflexivity|].
  cbn [flat_map]. destruct (encode_decode t x Hwf) as [(He & Hm)|(c & He & Hc & Hd & Hm)]; rewrite He.
  - cbn [app]. rewrite IH. cbn [mem existsb]. fold (mem f r).
    destruct (flag_eqb f x) eqn:E; [|reflexivity].
    rewrite (mem_ext f x (table_perm t) E), Hm. cbn [orb]. rewrite andb_false_r.
    destruct (mem f r); reflexivity.
  - rewrite upto_comma_app by (constructor; [exact Hc|constructor]).
    cbn [app flat_map]. rewrite Hd. cbn [app]. cbn [mem existsb].
    fold (mem f (flat_map (decode t) (upto_comma (flat_map (encode t) r)))). fold (mem f r).
    rewrite IH. destruct (flag_eqb f x) eqn:E; [|reflexivity].
    rewrite (mem_ext f x (table_perm t) E), Hm. cbn [orb andb]. reflexivity.
Qed.

(* MailboxData._dest_flags: what arrives, read with the destination's table, is exactly the
   flags the letters meant in the source folder that the destination can store -- for EVERY
   source table, destination table and letter string *)
Theorem translate_exact src dst codes f : wf_table dst ->
  mem f (from_maildir dst (translate src dst codes))
  = mem f (storable Maildir (table_perm dst) (from_maildir src codes)).
Proof.
  intros Hwf. unfold translate, storable. rewrite roundtrip by exact Hwf.
  rewrite mem_inter. reflexivity.
Qed.

(* carrying the letters untranslated is wrong even when both folders define the same SET of
   keywords (the numbering is per folder) *)
Definition same_keyword_set (a b : table) : Prop :=
  forall f, mem f (map snd a) = mem f (map snd b).
Theorem raw_letters_same_set_refuted :
  exists src dst codes, wf_table src /\ wf_table dst /\ same_keyword_set src dst /\
    fset_eqb (from_maildir dst codes) (from_maildir src codes) = false /\
    fset_eqb (from_maildir dst (translate src dst codes)) (from_maildir src codes) = true.
Proof.
  exists [(0, FKw 0); (1, FKw 1)], [(0, FKw 1); (1, FKw 0)], [98; 83].
  split; [repeat constructor; cbn; intuition discriminate|].
  split; [repeat constructor; cbn; intuition discriminate|].
  split; [|split; vm_compute; reflexivity].
  intros f. cbn [map snd mem existsb]. rewrite !orb_false_r. apply orb_comm.
Qed.

(* non-vacuity: a destination with gaps and unsorted lines *)
Example translate_example :
  from_maildir [(4, FKw 1); (1, FKw 0)] (translate [(0, FKw 0); (1, FKw 1); (2, FKw 2)]
                                                   [(4, FKw 1); (1, FKw 0)] [83; 97; 98; 99])
  = [FSeen; FKw 0; FKw 1].
Proof. vm_compute. reflexivity. Qed.
