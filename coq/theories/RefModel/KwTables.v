(* RefModel/KwTables.v — maildir keyword tables at the level of file-name letters: model of
   backend/maildir/flags.py (MaildirFlags.read / to_maildir / from_maildir) for an arbitrary
   dovecot-keywords file, and of MailboxData._dest_flags (backend/maildir/mailbox.py): the
   letters of a copied / moved message are decoded with the source folder's table and encoded
   again with the destination's.  Definitions only. *)
From PV Require Import Base.Prelude RefModel.Flags.
Local Open Scope N_scope.

(* a dovecot-keywords file: lines "<n> <keyword>" in file order; the letter of line n is
   chr(ord('a') + n) *)
Definition table := list (N * flag).
Definition letter (i : N) : N := 97 + i.

(* MaildirFlags.read: to_kwd[code] = flag, from_kwd[flag] = code; a later line overwrites *)
Fixpoint kw_of_code (t : table) (c : N) : option flag :=
  match t with
  | [] => None
  | (i, k) :: r => match kw_of_code r c with
                   | Some x => Some x
                   | None => if c =? letter i then Some k else None
                   end
  end.
Fixpoint code_of_kw (t : table) (f : flag) : option N :=
  match t with
  | [] => None
  | (i, k) :: r => match code_of_kw r f with
                   | Some x => Some x
                   | None => if flag_eqb f k then Some (letter i) else None
                   end
  end.

(* _to_sys / _from_sys: S F T D R *)
Definition sys_of_code (c : N) : option flag :=
  if c =? 83 then Some FSeen else if c =? 70 then Some FFlagged
  else if c =? 84 then Some FDeleted else if c =? 68 then Some FDraft
  else if c =? 82 then Some FAnswered else None.
Definition code_of_sys (f : flag) : option N :=
  match f with
  | FSeen => Some 83 | FFlagged => Some 70 | FDeleted => Some 84 | FDraft => Some 68
  | FAnswered => Some 82 | _ => None
  end.

(* from_maildir stops at the first ',' *)
Fixpoint upto_comma (codes : list N) : list N :=
  match codes with
  | [] => []
  | c :: r => if c =? 44 then [] else c :: upto_comma r
  end.
Definition decode (t : table) (c : N) : fset :=
  match sys_of_code c with
  | Some f => [f]
  | None => match kw_of_code t c with Some f => [f] | None => [] end
  end.
Definition encode (t : table) (f : flag) : list N :=
  match code_of_sys f with
  | Some c => [c]
  | None => match code_of_kw t f with Some c => [c] | None => [] end
  end.
Definition from_maildir (t : table) (codes : list N) : fset := flat_map (decode t) (upto_comma codes).
Definition to_maildir (t : table) (fl : fset) : list N := flat_map (encode t) fl.

(* MailboxData._dest_flags(codes, destination) *)
Definition translate (src dst : table) (codes : list N) : list N :=
  to_maildir dst (from_maildir src codes).

(* MaildirFlags.permanent_flags *)
Definition sys5 : fset := [FSeen; FAnswered; FFlagged; FDeleted; FDraft].
Definition table_perm (t : table) : fset := sys5 ++ map snd t.

(* a well-formed dovecot-keywords file has one line per number (with two lines of one number
   read() keeps both keywords in from_kwd but only the later one in to_kwd) *)
Definition wf_table (t : table) : Prop := NoDup (map fst t).
