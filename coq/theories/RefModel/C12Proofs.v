(* RefModel/C12Proofs.v — a read-only selection never changes the mailbox:
   proofs over RefModel/Model.v, for every state whose UIDs lie below the UID
   counters (no invariant about the session's view: it may be arbitrarily stale),
   every program of message commands, and any changes other connections make in
   between (labels LExt). *)
From PV Require Import Base.Prelude Wire.SeqSet RefModel.Flags RefModel.Model RefModel.BoxLemmas.
Local Open Scope N_scope.

(* no read-write selection: nothing selected, or selected read-only *)
Definition no_rw (st : state) : Prop :=
  match st_sel st with None => True | Some s => s_ro s = true end.
Definition ro_selected (st : state) : Prop :=
  exists s, st_sel st = Some s /\ s_ro s = true.
Definition is_select (c : cmd) : bool := match c with CSelect _ _ => true | _ => false end.
Definition is_names (c : cmd) : bool :=
  match c with CCreate _ _ | CDelete _ | CRename _ _ _ => true | _ => false end.
(* the message commands (and NOOP/CHECK/STATUS/SEARCH): everything but SELECT/EXAMINE,
   which would end the selection, and CREATE/DELETE/RENAME, which are about names *)
Definition msg_cmd (c : cmd) : Prop := is_select c = false /\ is_names c = false.
Definition dest_of (c : cmd) : option N :=
  match c with
  | CAppend b _ => Some b | CCopy _ _ d => Some d | CMove _ _ d => Some d
  | _ => None
  end.
Definition cmd_D (c : cmd) : list N := match dest_of c with Some d => [d] | None => [] end.
Definition dests (prog : list cmd) : list N := flat_map cmd_D prog.

(* mailbox [b'] (named n) is [b] plus messages delivered at its end, which
   is possible only if it is not read-only and n is in D; everything else is
   literally the same (a failed MULTIAPPEND only uses up UIDs) *)
Definition box_adds (D : list N) (n : N) (b b' : mbox) : Prop :=
  (exists added, b_msgs b' = b_msgs b ++ added /\
                 Forall (fun m => b_maxuid b < m_uid m <= b_maxuid b') added) /\
  b_ro b' = b_ro b /\ b_perm b' = b_perm b /\ b_uidv b' = b_uidv b /\ b_maxuid b <= b_maxuid b' /\
  (b_ro b = true \/ ~ In n D -> b' = b).
Definition only_adds (D : list N) (bs bs' : boxes) : Prop :=
  Forall2 (fun x y => fst x = fst y /\ box_adds D (fst x) (snd x) (snd y)) bs bs'.

Lemma box_adds_refl D n b : box_adds D n b b.
Proof.
  split; [exists []; rewrite app_nil_r; split; [reflexivity|constructor]|].
  repeat split; try reflexivity; try lia.
Qed.

Lemma box_adds_trans D n b1 b2 b3 : box_adds D n b1 b2 -> box_adds D n b2 b3 -> box_adds D n b1 b3.
Proof.
  intros ((a2 & M2 & F2) & R2 & P2 & V2 & X2 & E2) ((a3 & M3 & F3) & R3 & P3 & V3 & X3 & E3). split.
  - exists (a2 ++ a3). split; [rewrite M3, M2, app_assoc; reflexivity|].
    apply Forall_app. split.
    + eapply Forall_impl; [|exact F2]. cbn. intros m Hm. lia.
    + eapply Forall_impl; [|exact F3]. cbn. intros m Hm. lia.
  - repeat split; try congruence; try lia.
    intros Hc. rewrite E3.
    + apply E2. exact Hc.
    + destruct Hc as [Hc|Hc]; [left; congruence|right; exact Hc].
Qed.

Lemma only_adds_refl D bs : only_adds D bs bs.
Proof. induction bs; constructor; [split; [reflexivity|apply box_adds_refl]|assumption]. Qed.

Lemma only_adds_trans D bs1 bs2 bs3 :
  only_adds D bs1 bs2 -> only_adds D bs2 bs3 -> only_adds D bs1 bs3.
Proof.
  intros H1. revert bs3. induction H1 as [|x y l1 l2 [K1 A1] _ IH]; intros bs3 H2.
  - inversion H2; subst. constructor.
  - inversion H2 as [|y' z l2' l3 [K2 A2] H2']; subst. constructor.
    + split; [congruence|]. rewrite <- K1 in A2.
      exact (box_adds_trans _ _ _ _ _ A1 A2).
    + apply IH. exact H2'.
Qed.

Lemma only_adds_mono D D' bs bs' :
  (forall n, In n D -> In n D') -> only_adds D bs bs' -> only_adds D' bs bs'.
Proof.
  intros Hs H. induction H as [|x y l1 l2 [K (A & R & P & V & X & E)] _ IH]; constructor; [|exact IH].
  split; [exact K|]. repeat split; auto.
  intros [Hc|Hc]; apply E; [left; exact Hc|right; intros Hi; apply Hc, Hs, Hi].
Qed.

Lemma only_adds_set_box D n b b' bs :
  lookup n bs = Some b -> box_adds D n b b' -> only_adds D bs (set_box n b' bs).
Proof.
  induction bs as [|[k b0] r IH]; cbn [lookup set_box]; intros H A; [discriminate|].
  destruct (k =? n) eqn:E.
  - apply N.eqb_eq in E. subst k. inversion H; subst b0. constructor.
    + split; [reflexivity|exact A].
    + apply only_adds_refl.
  - constructor; [split; [reflexivity|apply box_adds_refl]|]. apply IH; assumption.
Qed.

(* by name *)
Lemma only_adds_lookup D bs bs' n b :
  only_adds D bs bs' -> lookup n bs = Some b ->
  exists b', lookup n bs' = Some b' /\ box_adds D n b b'.
Proof.
  intros H. induction H as [|[k x] [k' y] l1 l2 [K A] _ IH]; cbn [lookup]; intros L; [discriminate|].
  cbn [fst snd] in *. subst k'. destruct (k =? n) eqn:E.
  - apply N.eqb_eq in E. subst k. inversion L; subst x. exists y. split; [reflexivity|exact A].
  - apply IH. exact L.
Qed.

Lemma only_adds_keys D bs bs' : only_adds D bs bs' -> map fst bs' = map fst bs.
Proof.
  intros H. induction H as [|x y l1 l2 [K _] _ IH]; cbn [map]; [reflexivity|]. congruence.
Qed.


(* UIDs below the counter *)
Definition uids_bounded (b : mbox) : Prop := Forall (fun m => m_uid m <= b_maxuid b) (b_msgs b).
Definition wfb (bs : boxes) : Prop := Forall (fun nb => uids_bounded (snd nb)) bs.

Lemma wfb_only_adds D bs bs' : wfb bs -> only_adds D bs bs' -> wfb bs'.
Proof.
  intros Hw H. unfold wfb in *. induction H as [|x y l1 l2 [K A] _ IH]; [constructor|].
  inversion Hw as [|? ? Hx Hl]; subst. constructor; [|apply IH, Hl].
  destruct A as ((a & M & F) & _ & _ & _ & X & _). unfold uids_bounded in *. rewrite M.
  apply Forall_app. split.
  - eapply Forall_impl; [|exact Hx]. cbn. intros m Hm. lia.
  - eapply Forall_impl; [|exact F]. cbn. intros m Hm. lia.
Qed.

Lemma wfb_lookup bs n b : wfb bs -> lookup n bs = Some b -> uids_bounded b.
Proof.
  intros H. induction H as [|[k b0] r Hx Hr IH]; cbn [lookup]; [discriminate|].
  destruct (k =? n); [intros E; inversion E; subst; exact Hx|exact IH].
Qed.

(* delivering one message to a writable mailbox *)
Lemma box_adds_add D box b fl date cid rc : b_ro b = false -> In box D ->
  box_adds D box b (fst (mb_add b fl date cid rc)).
Proof.
  intros Hro Hin. cbn [mb_add fst]. split; cbn [b_msgs b_ro b_perm b_maxuid b_uidv].
  - eexists. split; [reflexivity|]. constructor; [cbn; lia|constructor].
  - repeat split; try reflexivity; try lia.
    intros [Hc|Hc]; [congruence|exfalso; apply Hc, Hin].
Qed.

Lemma only_adds_add box b fl date cid rc bs :
  lookup box bs = Some b -> b_ro b = false ->
  only_adds [box] bs (set_box box (fst (mb_add b fl date cid rc)) bs).
Proof.
  intros Hb Hro. apply (only_adds_set_box _ _ b); [exact Hb|].
  apply box_adds_add; [exact Hro|left; reflexivity].
Qed.

(* the APPEND loop: messages at the end, UIDs above the old counter *)
Lemma append_loop_adds D box bk ds : In box D -> forall msgs b rec b' rec' us failed,
  b_ro b = false ->
  append_loop bk ds b rec msgs = (b', rec', us, failed) ->
  box_adds D box b b' /\
  (exists added, b_msgs b' = b_msgs b ++ added /\ uids_of added = us /\
                 Forall (fun m => b_maxuid b < m_uid m) added).
Proof.
  intros Hin. induction msgs as [|a r IH]; intros b rec b' rec' us failed Hro H; cbn [append_loop] in H.
  - inversion H; subst. split; [apply box_adds_refl|]. exists []. rewrite app_nil_r. repeat split. constructor.
  - destruct (am_fail a).
    + inversion H; subst. split; [apply box_adds_refl|]. exists []. rewrite app_nil_r. repeat split. constructor.
    + cbn [mb_add] in H.
      match type of H with context [append_loop bk ds ?B ?R r] =>
        destruct (append_loop bk ds B R r) as [[[b2 rec2] us2] f2] eqn:El end.
      inversion H; subst b' rec' us failed. clear H.
      match type of El with append_loop _ _ ?B _ _ = _ => set (b1 := B) in * end.
      destruct (IH b1 _ _ _ _ _ Hro El) as (A2 & added & M & U & F).
      split.
      * eapply box_adds_trans; [|exact A2].
        exact (box_adds_add D box b _ (am_date a) (am_cid a) (negb ds) Hro Hin).
      * exists (mkMsg (b_maxuid b + 1) (storable bk (b_perm b) (diff (am_flags a) [FRecent]))
                      (am_date a) (am_cid a) (negb ds) :: added).
        cbn [b1 b_msgs b_maxuid] in M, F. rewrite M, <- app_assoc. cbn [app uids_of map m_uid].
        repeat split; [rewrite <- U; reflexivity|].
        constructor; [cbn; lia|]. eapply Forall_impl; [|exact F]. cbn. intros m Hm. lia.
Qed.

(* taking the stored messages back (failed MULTIAPPEND) leaves the old messages *)
Lemma delete_added b b' added : uids_bounded b ->
  b_msgs b' = b_msgs b ++ added -> Forall (fun m => b_maxuid b < m_uid m) added ->
  b_msgs (mb_delete b' (uids_of added)) = b_msgs b.
Proof.
  intros Hw M F. unfold mb_delete. cbn [b_msgs set_msgs]. rewrite M, filter_app.
  rewrite filter_all, filter_none; [apply app_nil_r| |].
  - intros m Hm. apply negb_false_iff, memN_In, in_map, Hm.
  - intros m Hm. apply negb_true_iff, memN_false. intros Hi. unfold uids_of in Hi.
    apply in_map_iff in Hi. destruct Hi as (n & En & Hn).
    unfold uids_bounded in Hw. rewrite Forall_forall in Hw, F. specialize (Hw m Hm). specialize (F n Hn). lia.
Qed.

(* the COPY loop only delivers to the destination *)
Lemma copy_loop_only_adds bk src dst ds pairs : forall bs rec bs' rec' us d,
  lookup dst bs = Some d -> b_ro d = false ->
  copy_loop bk false src dst ds bs rec pairs = (bs', rec', us) ->
  only_adds [dst] bs bs'.
Proof.
  induction pairs as [|[q c] r IH]; intros bs rec bs' rec' us d Hd Hro H; cbn [copy_loop] in H.
  - inversion H; subst. apply only_adds_refl.
  - destruct (lookup src bs) as [sb|] eqn:Es; [|eapply IH; eauto].
    destruct (find_msg (m_uid c) (b_msgs sb)) as [m|] eqn:Ef; [|eapply IH; eauto].
    rewrite Hd in H. cbn [mb_add] in H.
    match type of H with context [copy_loop bk false src dst ds ?B ?R r] =>
      destruct (copy_loop bk false src dst ds B R r) as [[bs3 rec3] us3] eqn:El end.
    inversion H; subst bs' rec' us.
    eapply only_adds_trans.
    + exact (only_adds_add dst d (storable bk (b_perm d) (m_flags m)) (m_date m) (m_cid m) (negb ds) bs Hd Hro).
    + eapply IH; [| |exact El].
      * rewrite lookup_set_box_same, Hd. reflexivity.
      * exact Hro.
Qed.

(* one command outside a read-write selection *)
Lemma step_no_rw st c : no_rw st -> wfb (st_boxes st) -> msg_cmd c ->
  no_rw (fst (step st c)) /\ only_adds (cmd_D c) (st_boxes st) (st_boxes (fst (step st c))).
Proof.
  intros Hn Hw [Hs Hnm]. unfold no_rw in *.
  assert (Hsame : no_rw st /\ only_adds (cmd_D c) (st_boxes st) (st_boxes st)).
  { split; [exact Hn|apply only_adds_refl]. }
  unfold no_rw in Hsame.
  destruct c; try discriminate; cbn [step]; cbn [cmd_D dest_of] in *.
  - (* APPEND / MULTIAPPEND *)
    unfold do_append. destruct (lookup box (st_boxes st)) as [b|] eqn:Eb; [|exact Hsame].
    destruct (b_ro b) eqn:Ero; [exact Hsame|].
    match goal with |- context [append_loop ?K ?D b ?R msgs] =>
      destruct (append_loop K D b R msgs) as [[[b' rec] us] failed] eqn:El end.
    destruct (append_loop_adds [box] box _ _ (or_introl eq_refl) _ _ _ _ _ _ _ Ero El)
      as (Hadd & added & M & U & F).
    destruct failed.
    + (* all-or-nothing: the messages are taken back, only UIDs were used up *)
      cbn [fst st_sel set_sel st_boxes]. split; [exact I|].
      apply (only_adds_set_box _ _ b); [exact Eb|].
      destruct Hadd as (_ & R & P & V & X & E).
      pose proof (delete_added b b' added (wfb_lookup _ _ _ Hw Eb) M F) as Hd. rewrite U in Hd.
      split; [exists []; rewrite app_nil_r; split; [exact Hd|constructor]|].
      unfold mb_delete. cbn [b_ro b_perm b_uidv b_maxuid set_msgs]. repeat split; try assumption.
      intros [Hc|Hc]; [congruence|exfalso; apply Hc; left; reflexivity].
    + assert (Hall : only_adds [box] (st_boxes st) (set_box box b' (st_boxes st)))
        by (apply (only_adds_set_box _ _ b); assumption).
      destruct (st_sel st) as [s|] eqn:Es; [|cbn; split; [exact I|exact Hall]].
      match goal with |- context [lookup (s_box s) ?B] => destruct (lookup (s_box s) B) as [sb|] end;
        [|cbn; split; [exact I|exact Hall]].
      unfold finish. cbn. split; [exact Hn|exact Hall].
  - (* STORE *)
    unfold do_store. destruct (st_sel st) as [s|] eqn:Es; [|cbn; rewrite Es; exact Hsame].
    rewrite Hn. cbn. rewrite Es. exact Hsame.
  - (* EXPUNGE *)
    unfold do_expunge. destruct (st_sel st) as [s|] eqn:Es; [|cbn; rewrite Es; exact Hsame].
    rewrite Hn. cbn. rewrite Es. exact Hsame.
  - (* COPY *)
    unfold do_copy. destruct (st_sel st) as [s|] eqn:Es; [|cbn; rewrite Es; exact Hsame].
    destruct (lookup (s_box s) (st_boxes st)) as [b|]; [|cbn; rewrite Es; exact Hsame].
    destruct (lookup dest (st_boxes st)) as [d|] eqn:Ed; [|cbn; rewrite Es; exact Hsame].
    destruct (b_ro d) eqn:Ero; [cbn; rewrite Es; exact Hsame|].
    match goal with |- context [copy_loop ?K false ?A ?B ?C ?D ?E ?F] =>
      destruct (copy_loop K false A B C D E F) as [[bs' rec] us] eqn:El end.
    pose proof (copy_loop_only_adds _ _ _ _ _ _ _ _ _ _ _ Ed Ero El) as Ha.
    destruct (lookup (s_box s) bs') as [b'|]; [|cbn; rewrite Es; exact Hsame].
    unfold finish. cbn. split; [exact Hn|exact Ha].
  - (* MOVE *)
    unfold do_move. destruct (st_sel st) as [s|] eqn:Es; [|cbn; rewrite Es; exact Hsame].
    rewrite Hn. cbn. rewrite Es. exact Hsame.
  - (* FETCH *)
    unfold do_fetch. destruct (st_sel st) as [s|] eqn:Es; [|cbn; rewrite Es; exact Hsame].
    rewrite Hn. cbn [negb andb].
    destruct (lookup (s_box s) (st_boxes st)) as [b|] eqn:Eb; [|cbn; rewrite Es; exact Hsame].
    unfold finish_h, finish. destruct (negb uid); cbn; (split; [exact Hn|]);
      rewrite (set_box_id _ _ _ Eb); apply only_adds_refl.
  - (* CLOSE *)
    unfold do_close. destruct (st_sel st) as [s|] eqn:Es; [|cbn; rewrite Es; exact Hsame].
    rewrite Hn. cbn. split; [exact I|apply only_adds_refl].
  - (* NOOP *)
    unfold do_noop. destruct (st_sel st) as [s|] eqn:Es; [cbn|cbn; rewrite Es; exact Hsame].
    destruct (lookup (s_box s) (st_boxes st)) as [b|]; [|cbn; rewrite Es; exact Hsame].
    unfold finish. cbn. split; [exact Hn|apply only_adds_refl].
  - (* CHECK *)
    unfold do_noop. destruct (st_sel st) as [s|] eqn:Es; [cbn|cbn; rewrite Es; exact Hsame].
    destruct (lookup (s_box s) (st_boxes st)) as [b|]; [|cbn; rewrite Es; exact Hsame].
    unfold finish. cbn. split; [exact Hn|apply only_adds_refl].
  - (* STATUS *)
    unfold do_status. destruct (lookup box (st_boxes st)) as [b|]; [|exact Hsame].
    destruct (st_sel st) as [s|] eqn:Es; [|cbn; rewrite Es; exact Hsame].
    destruct (lookup (s_box s) (st_boxes st)) as [sb|]; [|cbn; split; [exact I|apply only_adds_refl]].
    unfold finish. cbn. split; [exact Hn|apply only_adds_refl].
  - (* SEARCH *)
    unfold do_search. destruct (st_sel st) as [s|] eqn:Es; [|cbn; rewrite Es; exact Hsame].
    destruct (lookup (s_box s) (st_boxes st)) as [b|]; [|cbn; rewrite Es; exact Hsame].
    unfold finish_h, finish. destruct (negb uid); cbn; (split; [exact Hn|apply only_adds_refl]).
Qed.

(* ---- what another connection does (labels LExt) *)
(* its effect on the mailboxes, when the session has no read-write selection *)
Definition ext_boxes (bk : backend) (bs : boxes) (e : ext) : boxes :=
  st_boxes (ext_apply (mkState bk bs None) e).

Lemma ext_no_rw st e : no_rw st -> no_rw (ext_apply st e).
Proof.
  unfold no_rw. intros Hn. destruct e; cbn [ext_apply].
  - destruct (lookup box (st_boxes st)) as [b|]; [|exact Hn]. destruct (b_ro b); exact Hn.
  - destruct (lookup box (st_boxes st)) as [b|]; [|exact Hn]. destruct (b_ro b); [exact Hn|].
    cbn [mb_add set_sel st_sel]. destruct (st_sel st) as [s|]; [|exact I].
    destruct (match st_bk st with Dict => dest_selected st box | Maildir => false end); exact Hn.
  - destruct (lookup box (st_boxes st)) as [b|]; [|exact Hn]. destruct (b_ro b); [exact Hn|].
    cbn [set_sel st_sel]. destruct (st_bk st), (st_sel st) as [s|]; try exact Hn; try exact I.
    destruct (s_box s =? box); exact Hn.
Qed.

Lemma ext_boxes_eq st e : no_rw st -> st_boxes (ext_apply st e) = ext_boxes (st_bk st) (st_boxes st) e.
Proof.
  unfold no_rw, ext_boxes. intros Hn. destruct e; cbn [ext_apply st_boxes st_bk st_sel].
  - destruct (lookup box (st_boxes st)) as [b|]; [|reflexivity]. destruct (b_ro b); reflexivity.
  - destruct (lookup box (st_boxes st)) as [b|]; [|reflexivity]. destruct (b_ro b); [reflexivity|].
    assert (E : dest_selected st box = false).
    { unfold dest_selected. destruct (st_sel st) as [s|]; [|reflexivity]. rewrite Hn. reflexivity. }
    rewrite E. unfold dest_selected. cbn [st_sel]. destruct (st_bk st); reflexivity.
  - destruct (lookup box (st_boxes st)) as [b|]; [|reflexivity]. destruct (b_ro b); reflexivity.
Qed.

(* programs with labels: every command step, wherever it stands *)
Fixpoint all_cmd_steps (P : state -> cmd -> state -> Prop) (st : state) (prog : list label) : Prop :=
  match prog with
  | [] => True
  | l :: r => (match l with LCmd c => P st c (fst (step st c)) | LExt _ => True end)
              /\ all_cmd_steps P (fst (step_l st l)) r
  end.
Definition lcmds (prog : list label) : list cmd :=
  flat_map (fun l => match l with LCmd c => [c] | LExt _ => [] end) prog.
Definition lexts (prog : list label) : list ext :=
  flat_map (fun l => match l with LCmd _ => [] | LExt e => [e] end) prog.

Lemma step_l_cmd st c : fst (step_l st (LCmd c)) = fst (step st c).
Proof. cbn [step_l]. destruct (step st c); reflexivity. Qed.

Lemma uids_bounded_ext bk bs e : wfb bs -> wfb (ext_boxes bk bs e).
Proof.
  intros Hw. unfold ext_boxes. destruct e; cbn [ext_apply st_boxes st_bk st_sel].
  - destruct (lookup box bs) as [b|] eqn:El; [|exact Hw]. destruct (b_ro b); [exact Hw|].
    cbn [set_sel st_boxes]. pose proof (wfb_lookup _ _ _ Hw El) as Hb.
    clear El. unfold wfb in *. induction Hw as [|[k b0] r Hx Hr IH]; cbn [set_box]; [constructor|].
    destruct (k =? box); constructor; try assumption.
    unfold uids_bounded in *. cbn [b_msgs set_msgs b_maxuid]. rewrite Forall_forall in *.
    intros m Hm. apply in_map_iff in Hm. destruct Hm as (m0 & <- & Hm0).
    apply in_map_iff in Hm0. destruct Hm0 as (m1 & <- & Hm1).
    destruct (memN _ uids); cbn; apply (Hb m1 Hm1).
  - destruct (lookup box bs) as [b|] eqn:El; [|exact Hw]. destruct (b_ro b); [exact Hw|].
    cbn [mb_add set_sel st_boxes]. pose proof (wfb_lookup _ _ _ Hw El) as Hb.
    clear El. unfold wfb in *. induction Hw as [|[k b0] r Hx Hr IH]; cbn [set_box]; [constructor|].
    destruct (k =? box); constructor; try assumption.
    unfold uids_bounded in *. cbn [b_msgs b_maxuid]. apply Forall_app. split.
    + eapply Forall_impl; [|exact Hb]. cbn. intros m Hm. lia.
    + constructor; [cbn; lia|constructor].
  - destruct (lookup box bs) as [b|] eqn:El; [|exact Hw]. destruct (b_ro b); [exact Hw|].
    cbn [set_sel st_boxes]. pose proof (wfb_lookup _ _ _ Hw El) as Hb.
    clear El. unfold wfb in *. induction Hw as [|[k b0] r Hx Hr IH]; cbn [set_box]; [constructor|].
    destruct (k =? box); constructor; try assumption.
    unfold uids_bounded, claim_all in *. cbn [b_msgs set_msgs b_maxuid]. rewrite Forall_forall in *.
    intros m Hm. apply filter_In in Hm. destruct Hm as [Hm _].
    apply in_map_iff in Hm. destruct Hm as (m1 & <- & Hm1). cbn. apply (Hb m1 Hm1).
Qed.

(* every command of a session without read-write selection, whatever other
   connections do in between, only adds deliveries to writable destinations *)
Theorem ro_interleaved prog : forall st,
  no_rw st -> wfb (st_boxes st) -> Forall msg_cmd (lcmds prog) ->
  all_cmd_steps (fun s c s' => only_adds (cmd_D c) (st_boxes s) (st_boxes s')) st prog.
Proof.
  induction prog as [|l r IH]; intros st Hn Hw Hf; cbn [all_cmd_steps]; [exact I|].
  destruct l as [c|e].
  - cbn [lcmds flat_map app] in Hf. inversion Hf as [|? ? Hc Hr]; subst.
    destruct (step_no_rw st c Hn Hw Hc) as [Hn1 Ha]. split; [exact Ha|].
    rewrite step_l_cmd. apply IH; [exact Hn1|exact (wfb_only_adds _ _ _ Hw Ha)|exact Hr].
  - split; [exact I|]. cbn [step_l fst]. apply IH.
    + apply ext_no_rw, Hn.
    + rewrite ext_boxes_eq by exact Hn. apply uids_bounded_ext, Hw.
    + exact Hf.
Qed.

Definition not_writable (bs : boxes) (n : N) : Prop :=
  match lookup n bs with Some b => b_ro b = true | None => True end.

Lemma only_adds_eq D bs bs' :
  only_adds D bs bs' -> NoDup (map fst bs) -> (forall n, In n D -> not_writable bs n) -> bs' = bs.
Proof.
  intros H. induction H as [|[k x] [k' y] l1 l2 [K A] _ IH]; intros Hnd Hd; [reflexivity|].
  cbn [fst snd map] in *. subst k'. inversion Hnd as [|? ? Hk Hnd']; subst.
  assert (Hy : y = x).
  { destruct A as (_ & _ & _ & _ & _ & E). apply E.
    destruct (in_dec N.eq_dec k D) as [Hi|Hi]; [|right; exact Hi].
    left. specialize (Hd k Hi). unfold not_writable in Hd. cbn [lookup] in Hd.
    rewrite N.eqb_refl in Hd. exact Hd. }
  subst y. f_equal. apply IH; [exact Hnd'|].
  intros n Hi. specialize (Hd n Hi). unfold not_writable in *. cbn [lookup] in Hd.
  destruct (k =? n) eqn:E; [|exact Hd].
  apply N.eqb_eq in E. subst n.
  destruct (lookup k l1) eqn:El; [|exact I].
  exfalso. apply Hk. clear -El. induction l1 as [|[j z] r IHr]; cbn [lookup] in El; [discriminate|].
  cbn [map fst]. destruct (j =? k) eqn:E; [left; apply N.eqb_eq, E|right; apply IHr, El].
Qed.

(* ---- programs without labels *)
Lemma run_no_rw prog : forall st, no_rw st -> wfb (st_boxes st) -> Forall msg_cmd prog ->
  no_rw (fst (run st prog)) /\ only_adds (dests prog) (st_boxes st) (st_boxes (fst (run st prog))).
Proof.
  induction prog as [|c r IH]; intros st Hn Hw Hf; cbn [run dests flat_map].
  - cbn. split; [exact Hn|apply only_adds_refl].
  - inversion Hf as [|? ? Hc Hr]; subst.
    destruct (step_no_rw st c Hn Hw Hc) as [Hn1 Ha1].
    destruct (step st c) as [st1 o] eqn:Es. cbn [fst] in *.
    destruct (IH st1 Hn1 (wfb_only_adds _ _ _ Hw Ha1) Hr) as [Hn2 Ha2].
    destruct (run st1 r) as [st2 os] eqn:Er. cbn [fst] in *.
    split; [exact Hn2|].
    eapply only_adds_trans.
    + eapply only_adds_mono; [|exact Ha1]. intros n Hi. apply in_or_app. left. exact Hi.
    + eapply only_adds_mono; [|exact Ha2]. intros n Hi. apply in_or_app. right. exact Hi.
Qed.

(* every message that existed stays, in place, with the same flags, date,
   content and stored \Recent mark; UID counters never go back; the only
   change is messages delivered (by APPEND / COPY) at the end of writable
   mailboxes named as a destination *)
Theorem ro_only_adds st prog :
  no_rw st -> wfb (st_boxes st) -> Forall msg_cmd prog ->
  only_adds (dests prog) (st_boxes st) (st_boxes (fst (run st prog))).
Proof. intros Hn Hw Hf. apply run_no_rw; assumption. Qed.

(* when no destination is writable nothing at all changes: messages, flags
   (incl. an implicit \Seen), stored \Recent marks, UID counters *)
Theorem ro_unchanged st prog :
  no_rw st -> wfb (st_boxes st) -> Forall msg_cmd prog ->
  NoDup (map fst (st_boxes st)) ->
  (forall n, In n (dests prog) -> not_writable (st_boxes st) n) ->
  st_boxes (fst (run st prog)) = st_boxes st.
Proof.
  intros Hn Hw Hf Hnd Hd. eapply only_adds_eq; [apply ro_only_adds; assumption|exact Hnd|exact Hd].
Qed.

(* ---- with other connections writing in between: the mailboxes at the end are
   what those other connections alone would have left *)
Lemma ext_lookup bk bs e n :
  match lookup n bs with
  | Some b => exists b', lookup n (ext_boxes bk bs e) = Some b' /\ b_ro b' = b_ro b
  | None => lookup n (ext_boxes bk bs e) = None
  end.
Proof.
  assert (Hset : forall box b b', lookup box bs = Some b -> b_ro b' = b_ro b ->
            match lookup n bs with
            | Some b0 => exists b1, lookup n (set_box box b' bs) = Some b1 /\ b_ro b1 = b_ro b0
            | None => lookup n (set_box box b' bs) = None
            end).
  { intros box b b' Hl Hr. destruct (N.eq_dec n box) as [->|Hne].
    - rewrite Hl, lookup_set_box_same, Hl. exists b'. split; [reflexivity|exact Hr].
    - rewrite lookup_set_box_other by congruence. destruct (lookup n bs); [eexists; split; reflexivity|reflexivity]. }
  assert (Hid : match lookup n bs with
                | Some b => exists b', lookup n bs = Some b' /\ b_ro b' = b_ro b
                | None => lookup n bs = None end).
  { destruct (lookup n bs); [eexists; split; reflexivity|reflexivity]. }
  unfold ext_boxes. destruct e; cbn [ext_apply st_boxes st_bk st_sel].
  - destruct (lookup box bs) as [b|] eqn:El; [|exact Hid]. destruct (b_ro b) eqn:Er; [exact Hid|].
    cbn [set_sel st_boxes]. apply (Hset box b); [exact El|reflexivity].
  - destruct (lookup box bs) as [b|] eqn:El; [|exact Hid]. destruct (b_ro b) eqn:Er; [exact Hid|].
    cbn [mb_add set_sel st_boxes]. apply (Hset box b); [exact El|reflexivity].
  - destruct (lookup box bs) as [b|] eqn:El; [|exact Hid]. destruct (b_ro b) eqn:Er; [exact Hid|].
    cbn [set_sel st_boxes]. apply (Hset box b); [exact El|reflexivity].
Qed.

Lemma ext_keys bk bs e : map fst (ext_boxes bk bs e) = map fst bs.
Proof.
  unfold ext_boxes. destruct e; cbn [ext_apply st_boxes st_bk st_sel];
    (destruct (lookup box bs) as [b|]; [|reflexivity]); (destruct (b_ro b); [reflexivity|]);
    cbn [mb_add set_sel st_boxes]; apply set_box_keys.
Qed.

Theorem ro_erasure prog : forall st,
  no_rw st -> wfb (st_boxes st) -> Forall msg_cmd (lcmds prog) ->
  NoDup (map fst (st_boxes st)) ->
  (forall n, In n (dests (lcmds prog)) -> not_writable (st_boxes st) n) ->
  st_boxes (fst (run_l st prog)) = fold_left (ext_boxes (st_bk st)) (lexts prog) (st_boxes st).
Proof.
  induction prog as [|l r IH]; intros st Hn Hw Hf Hnd Hd; cbn [run_l lexts flat_map]; [reflexivity|].
  destruct l as [c|e].
  - cbn [lcmds flat_map app] in Hf, Hd. inversion Hf as [|? ? Hc Hr]; subst.
    destruct (step_no_rw st c Hn Hw Hc) as [Hn1 Ha].
    assert (Eb : st_boxes (fst (step st c)) = st_boxes st).
    { eapply only_adds_eq; [exact Ha|exact Hnd|]. intros n Hi. apply Hd. unfold dests at 1.
      cbn [flat_map]. apply in_or_app. left. exact Hi. }
    assert (Ek : st_bk (fst (step st c)) = st_bk st).
    { clear. destruct c; cbn [step];
        unfold do_select, do_append, do_store, do_expunge, do_copy, do_move, do_fetch, do_close,
               do_noop, do_status, do_search, do_create, do_delete, do_rename, after_names, reply, set_sel;
        repeat match goal with
               | |- context [match ?x with _ => _ end] => destruct x eqn:?
               | |- context [let '(_, _) := ?x in _] => destruct x eqn:?
               end; cbn [fst st_bk]; congruence. }
    cbn [step_l app]. destruct (step st c) as [st1 o] eqn:Es. cbn [fst] in *.
    destruct (run_l st1 r) as [st2 os] eqn:Er. cbn [fst].
    specialize (IH st1). rewrite Er in IH. cbn [fst] in IH. rewrite IH; [rewrite Ek, Eb; reflexivity| | | | |].
    + exact Hn1.
    + rewrite Eb. exact Hw.
    + exact Hr.
    + rewrite Eb. exact Hnd.
    + intros n Hi. rewrite Eb. apply Hd. unfold dests. cbn [flat_map]. apply in_or_app. right. exact Hi.
  - cbn [step_l app fold_left]. destruct (run_l (ext_apply st e) r) as [st2 os] eqn:Er. cbn [fst].
    specialize (IH (ext_apply st e)). rewrite Er in IH. cbn [fst] in IH.
    assert (Ek : st_bk (ext_apply st e) = st_bk st).
    { clear. destruct e; cbn [ext_apply]; unfold set_sel;
        repeat match goal with
               | |- context [match ?x with _ => _ end] => destruct x eqn:?
               | |- context [let '(_, _) := ?x in _] => destruct x eqn:?
               end; cbn [st_bk]; congruence. }
    rewrite IH; [rewrite Ek, (ext_boxes_eq st e Hn); reflexivity| | | | |].
    + apply ext_no_rw, Hn.
    + rewrite ext_boxes_eq by exact Hn. apply uids_bounded_ext, Hw.
    + exact Hf.
    + rewrite ext_boxes_eq by exact Hn. rewrite ext_keys. exact Hnd.
    + intros n Hi. rewrite ext_boxes_eq by exact Hn. specialize (Hd n Hi). unfold not_writable in *.
      pose proof (ext_lookup (st_bk st) (st_boxes st) e n) as Hl.
      destruct (lookup n (st_boxes st)) as [b|].
      * destruct Hl as (b' & -> & Hr). congruence.
      * rewrite Hl. exact I.
Qed.

(* refusals *)
Theorem ro_refused_store st s uid ss op silent fl :
  st_sel st = Some s -> s_ro s = true ->
  step st (CStore uid ss op silent fl) = (st, mkOut NO CReadOnly []).
Proof. intros Hs Hr. cbn [step]. unfold do_store. rewrite Hs, Hr. reflexivity. Qed.

Theorem ro_refused_expunge st s us :
  st_sel st = Some s -> s_ro s = true ->
  step st (CExpunge us) = (st, mkOut NO CReadOnly []).
Proof. intros Hs Hr. cbn [step]. unfold do_expunge. rewrite Hs, Hr. reflexivity. Qed.

Theorem ro_refused_move st s uid ss dest :
  st_sel st = Some s -> s_ro s = true ->
  step st (CMove uid ss dest) = (st, mkOut NO CReadOnly []).
Proof. intros Hs Hr. cbn [step]. unfold do_move. rewrite Hs, Hr. reflexivity. Qed.

Theorem ro_refused_append st box b msgs :
  lookup box (st_boxes st) = Some b -> b_ro b = true ->
  step st (CAppend box msgs) = (st, mkOut NO CReadOnly []).
Proof. intros Hb Hr. cbn [step]. unfold do_append. rewrite Hb, Hr. reflexivity. Qed.

Theorem ro_refused_copy_into st s sb d uid ss dest :
  st_sel st = Some s -> lookup (s_box s) (st_boxes st) = Some sb ->
  lookup dest (st_boxes st) = Some d -> b_ro d = true ->
  step st (CCopy uid ss dest) = (st, mkOut NO CReadOnly []).
Proof. intros Hs Hb Hd Hr. cbn [step]. unfold do_copy. rewrite Hs, Hb, Hd, Hr. reflexivity. Qed.

Theorem ro_refused_move_into st s sb d uid ss dest :
  st_sel st = Some s -> lookup (s_box s) (st_boxes st) = Some sb ->
  lookup dest (st_boxes st) = Some d -> b_ro d = true ->
  step st (CMove uid ss dest) = (st, mkOut NO CReadOnly []).
Proof.
  intros Hs Hb Hd Hr. cbn [step]. unfold do_move. rewrite Hs, Hb, Hd, Hr.
  destruct (s_ro s); reflexivity.
Qed.

(* CLOSE of a read-only selection: OK, deselected, nothing removed *)
Theorem ro_close_ok st s :
  st_sel st = Some s -> s_ro s = true ->
  step st CClose = (mkState (st_bk st) (st_boxes st) None, mkOut OK CNone []).
Proof. intros Hs Hr. cbn [step]. unfold do_close. rewrite Hs, Hr. reflexivity. Qed.

(* how a read-only selection comes about: EXAMINE of any mailbox, or SELECT
   of a mailbox the backend declares read-only; neither changes anything *)
Theorem select_readonly st box ro b :
  lookup box (st_boxes st) = Some b -> ro = true \/ b_ro b = true ->
  ro_selected (fst (step st (CSelect box ro))) /\
  st_boxes (fst (step st (CSelect box ro))) = st_boxes st.
Proof.
  intros Hb Hr. cbn [step]. unfold do_select. rewrite Hb.
  assert (E : ro || b_ro b = true) by (destruct Hr as [-> | ->]; [reflexivity|apply orb_true_r]).
  rewrite E. cbn. split.
  - eexists. split; [reflexivity|reflexivity].
  - apply set_box_id. exact Hb.
Qed.

Lemma ro_selected_no_rw st : ro_selected st -> no_rw st.
Proof. intros (s & Hs & Hr). unfold no_rw. rewrite Hs. exact Hr. Qed.

(* the same, by mailbox name *)
Theorem ro_only_adds_by_name st prog n b :
  no_rw st -> wfb (st_boxes st) -> Forall msg_cmd prog ->
  lookup n (st_boxes st) = Some b ->
  exists b', lookup n (st_boxes (fst (run st prog))) = Some b' /\ box_adds (dests prog) n b b'.
Proof.
  intros Hn Hw Hf Hl. eapply only_adds_lookup; [apply ro_only_adds; assumption|exact Hl].
Qed.

(* non-vacuity: an EXAMINEd mailbox holding flagged, recent and \Deleted messages, a
   program with every kind of message command and another connection writing in between
   satisfy the hypotheses of [ro_erasure]; the final mailboxes are those the other
   connection alone leaves *)
Definition ex_boxes : boxes :=
  [(0, mkBox [mkMsg 101 [FSeen] 10 1 false; mkMsg 102 [FDeleted; FKw 0] 20 2 true] 102 false
              [FSeen; FAnswered; FFlagged; FDeleted; FDraft] 7);
   (2, mkBox [mkMsg 101 [] 30 3 true] 101 true [FSeen; FAnswered; FFlagged; FDeleted; FDraft] 8)].
Definition ex_prog : list label :=
  [LCmd (CFetch false [SRange (SNum 1) SMax] [mkAttr ABody true true]);
   LExt (XStore 0 [101] OpAdd [FDeleted; FFlagged]);
   LCmd (CStore true [SOne SMax] OpAdd false [FDeleted]);
   LCmd (CExpunge None); LCmd (CExpunge (Some [SOne (SNum 102)]));
   LExt (XAppend 0 [FSeen] 40 4);
   LCmd (CSearch false [KFlag FDeleted true]); LCmd CNoop; LCmd (CStatus 0);
   LCmd (CCopy false [SOne (SNum 1)] 2); LCmd (CMove true [SRange SMax (SNum 1)] 2);
   LExt (XExpunge 0);
   LCmd (CMove false [SOne (SNum 2)] 7);
   LCmd (CAppend 2 [mkAmsg [FSeen] 5 9 false]); LCmd CClose; LCmd (CAppend 7 [mkAmsg [] 5 9 true])].
Example ro_erasure_example :
  let st := fst (step (mkState Dict ex_boxes None) (CSelect 0 true)) in
  ro_selected st /\ wfb (st_boxes st) /\ Forall msg_cmd (lcmds ex_prog) /\
  NoDup (map fst (st_boxes st)) /\
  (forall n, In n (dests (lcmds ex_prog)) -> not_writable (st_boxes st) n) /\
  st_boxes (fst (run_l st ex_prog))
  = [(0, mkBox [mkMsg 103 [FSeen] 40 4 false] 103 false [FSeen; FAnswered; FFlagged; FDeleted; FDraft] 7);
     (2, mkBox [mkMsg 101 [] 30 3 true] 101 true [FSeen; FAnswered; FFlagged; FDeleted; FDraft] 8)].
Proof.
  cbn [fst]. split; [eexists; split; reflexivity|].
  split; [vm_compute; repeat constructor; cbn; discriminate|].
  split; [vm_compute; repeat constructor|].
  split; [vm_compute; repeat constructor; cbn; intuition discriminate|].
  split; [|vm_compute; reflexivity].
  intros n Hi. vm_compute in Hi. unfold not_writable.
  repeat (destruct Hi as [<-|Hi]; [vm_compute; try reflexivity; exact I|]). destruct Hi.
Qed.
