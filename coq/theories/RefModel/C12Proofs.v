(* RefModel/C12Proofs.v — a read-only selection never changes the mailbox:
   proofs over RefModel/Model.v, for every state (no invariant needed: the
   session's view may be arbitrarily stale, as it is when other sessions
   change the mailbox) and every program. *)
From PV Require Import Base.Prelude Wire.SeqSet RefModel.Flags RefModel.Model RefModel.BoxLemmas.
Local Open Scope N_scope.

(* no read-write selection: nothing selected, or selected read-only *)
Definition no_rw (st : state) : Prop :=
  match st_sel st with None => True | Some s => s_ro s = true end.
Definition ro_selected (st : state) : Prop :=
  exists s, st_sel st = Some s /\ s_ro s = true.
Definition is_select (c : cmd) : bool := match c with CSelect _ _ => true | _ => false end.
Definition dest_of (c : cmd) : option N :=
  match c with
  | CAppend b _ _ _ => Some b | CCopy _ _ d => Some d | CMove _ _ d => Some d
  | _ => None
  end.
Definition dests (prog : list cmd) : list N :=
  flat_map (fun c => match dest_of c with Some d => [d] | None => [] end) prog.

(* mailbox [b'] (named n) is [b] plus messages delivered at its end, which
   is possible only if it is not read-only and n is in D; everything else is
   literally the same *)
Definition box_adds (D : list N) (n : N) (b b' : mbox) : Prop :=
  (exists added, b_msgs b' = b_msgs b ++ added /\
                 Forall (fun m => b_maxuid b < m_uid m) added) /\
  b_ro b' = b_ro b /\ b_perm b' = b_perm b /\ b_maxuid b <= b_maxuid b' /\
  (b_ro b = true \/ ~ In n D -> b' = b).
Definition only_adds (D : list N) (bs bs' : boxes) : Prop :=
  Forall2 (fun x y => fst x = fst y /\ box_adds D (fst x) (snd x) (snd y)) bs bs'.

Lemma box_adds_refl D n b : box_adds D n b b.
Proof.
  split; [exists []; rewrite app_nil_r; split; [reflexivity|constructor]|].
  repeat split; try reflexivity; try lia.
Qed.

Lemma box_adds_trans D n b1 b2 b3 : box_adds D n b1 b2 -> box_adds D n b2 b3 -> box_adds D n b1 b3.
Proof.
  intros ((a2 & M2 & F2) & R2 & P2 & X2 & E2) ((a3 & M3 & F3) & R3 & P3 & X3 & E3). split.
  - exists (a2 ++ a3). split; [rewrite M3, M2, app_assoc; reflexivity|].
    apply Forall_app. split; [exact F2|].
    eapply Forall_impl; [|exact F3]. cbn. intros m Hm. lia.
  - repeat split; try congruence; try lia.
    intros Hc. rewrite E3.
    + apply E2. exact Hc.
    + destruct Hc as [Hc|Hc]; [left; congruence|right; exact Hc].
Qed.

Lemma only_adds_refl D bs : only_adds D bs bs.
Proof. induction bs; constructor; [split; [reflexivity|apply box_adds_refl]|assumption]. Qed.

Lemma only_adds_trans D bs1 bs2 bs3 :
  only_adds D bs1 bs2 -> only_adds D bs2 bs3 -> only_adds D bs1 bs3.
Proof.
  intros H1. revert bs3. induction H1 as [|x y l1 l2 [K1 A1] _ IH]; intros bs3 H2.
  - inversion H2; subst. constructor.
  - inversion H2 as [|y' z l2' l3 [K2 A2] H2']; subst. constructor.
    + split; [congruence|]. rewrite <- K1 in A2.
      exact (box_adds_trans _ _ _ _ _ A1 A2).
    + apply IH. exact H2'.
Qed.

Lemma only_adds_mono D D' bs bs' :
  (forall n, In n D -> In n D') -> only_adds D bs bs' -> only_adds D' bs bs'.
Proof.
  intros Hs H. induction H as [|x y l1 l2 [K (A & R & P & X & E)] _ IH]; constructor; [|exact IH].
  split; [exact K|]. repeat split; auto.
  intros [Hc|Hc]; apply E; [left; exact Hc|right; intros Hi; apply Hc, Hs, Hi].
Qed.

Lemma only_adds_set_box D n b b' bs :
  lookup n bs = Some b -> box_adds D n b b' -> only_adds D bs (set_box n b' bs).
Proof.
  induction bs as [|[k b0] r IH]; cbn [lookup set_box]; intros H A; [discriminate|].
  destruct (k =? n) eqn:E.
  - apply N.eqb_eq in E. subst k. inversion H; subst b0. constructor.
    + split; [reflexivity|exact A].
    + apply only_adds_refl.
  - constructor; [split; [reflexivity|apply box_adds_refl]|]. apply IH; assumption.
Qed.

(* by name *)
Lemma only_adds_lookup D bs bs' n b :
  only_adds D bs bs' -> lookup n bs = Some b ->
  exists b', lookup n bs' = Some b' /\ box_adds D n b b'.
Proof.
  intros H. induction H as [|[k x] [k' y] l1 l2 [K A] _ IH]; cbn [lookup]; intros L; [discriminate|].
  cbn [fst snd] in *. subst k'. destruct (k =? n) eqn:E.
  - apply N.eqb_eq in E. subst k. inversion L; subst x. exists y. split; [reflexivity|exact A].
  - apply IH. exact L.
Qed.

Lemma only_adds_keys D bs bs' : only_adds D bs bs' -> map fst bs' = map fst bs.
Proof.
  intros H. induction H as [|x y l1 l2 [K _] _ IH]; cbn [map]; [reflexivity|]. congruence.
Qed.

(* delivering one message to a writable mailbox *)
Lemma only_adds_add box b fl date cid rc bs :
  lookup box bs = Some b -> b_ro b = false ->
  only_adds [box] bs (set_box box (fst (mb_add b fl date cid rc)) bs).
Proof.
  intros Hb Hro. apply (only_adds_set_box _ _ b); [exact Hb|].
  cbn [mb_add fst]. split; cbn [b_msgs b_ro b_perm b_maxuid].
  - eexists. split; [reflexivity|]. constructor; [cbn; lia|constructor].
  - repeat split; try reflexivity; try lia.
    intros [Hc|Hc]; [congruence|exfalso; apply Hc; left; reflexivity].
Qed.

(* the COPY loop only delivers to the destination *)
Lemma copy_loop_only_adds src dst ds pairs : forall bs rec bs' rec' us d,
  lookup dst bs = Some d -> b_ro d = false ->
  copy_loop false src dst ds bs rec pairs = (bs', rec', us) ->
  only_adds [dst] bs bs'.
Proof.
  induction pairs as [|[q c] r IH]; intros bs rec bs' rec' us d Hd Hro H; cbn [copy_loop] in H.
  - inversion H; subst. apply only_adds_refl.
  - destruct (lookup src bs) as [sb|] eqn:Es; [|eapply IH; eauto].
    destruct (find_msg (m_uid c) (b_msgs sb)) as [m|] eqn:Ef; [|eapply IH; eauto].
    rewrite Hd in H. cbn [mb_add] in H.
    match type of H with context [copy_loop false src dst ds ?B ?R r] =>
      destruct (copy_loop false src dst ds B R r) as [[bs3 rec3] us3] eqn:El end.
    inversion H; subst bs' rec' us.
    eapply only_adds_trans.
    + exact (only_adds_add dst d (m_flags m) (m_date m) (m_cid m) (negb ds) bs Hd Hro).
    + eapply IH; [| |exact El].
      * rewrite lookup_set_box_same, Hd. reflexivity.
      * exact Hro.
Qed.

Definition cmd_D (c : cmd) : list N := match dest_of c with Some d => [d] | None => [] end.

(* one command outside a read-write selection *)
Lemma step_no_rw st c : no_rw st -> is_select c = false ->
  no_rw (fst (step st c)) /\ only_adds (cmd_D c) (st_boxes st) (st_boxes (fst (step st c))).
Proof.
  intros Hn Hs. unfold no_rw in *.
  assert (Hsame : no_rw st /\ only_adds (cmd_D c) (st_boxes st) (st_boxes st)).
  { split; [exact Hn|apply only_adds_refl]. }
  unfold no_rw in Hsame.
  destruct c; try discriminate; cbn [step]; cbn [cmd_D dest_of] in *.
  - (* APPEND *)
    unfold do_append. destruct (lookup box (st_boxes st)) as [b|] eqn:Eb; [|exact Hsame].
    destruct (b_ro b) eqn:Ero; [exact Hsame|]. cbn [mb_add].
    pose proof (only_adds_add box b (storable (st_bk st) (b_perm b) (diff flags [FRecent]))
                              date cid (negb (dest_selected st box)) (st_boxes st) Eb Ero) as Hadd.
    cbn [mb_add fst] in Hadd.
    destruct (st_sel st) as [s|] eqn:Es; [|cbn; split; [exact I|exact Hadd]].
    match goal with |- context [lookup (s_box s) ?B] => destruct (lookup (s_box s) B) as [sb|] end;
      [|cbn; split; [exact Hn|exact Hadd]].
    unfold finish. cbn. split; [exact Hn|exact Hadd].
  - (* STORE *)
    unfold do_store. destruct (st_sel st) as [s|] eqn:Es; [|cbn; rewrite Es; exact Hsame].
    rewrite Hn. cbn. rewrite Es. exact Hsame.
  - (* EXPUNGE *)
    unfold do_expunge. destruct (st_sel st) as [s|] eqn:Es; [|cbn; rewrite Es; exact Hsame].
    rewrite Hn. cbn. rewrite Es. exact Hsame.
  - (* COPY *)
    unfold do_copy. destruct (st_sel st) as [s|] eqn:Es; [|cbn; rewrite Es; exact Hsame].
    destruct (lookup (s_box s) (st_boxes st)) as [b|]; [|cbn; rewrite Es; exact Hsame].
    destruct (lookup dest (st_boxes st)) as [d|] eqn:Ed; [|cbn; rewrite Es; exact Hsame].
    destruct (b_ro d) eqn:Ero; [cbn; rewrite Es; exact Hsame|].
    match goal with |- context [copy_loop false ?A ?B ?C ?D ?E ?F] =>
      destruct (copy_loop false A B C D E F) as [[bs' rec] us] eqn:El end.
    pose proof (copy_loop_only_adds _ _ _ _ _ _ _ _ _ _ Ed Ero El) as Ha.
    destruct (lookup (s_box s) bs') as [b'|]; [|cbn; rewrite Es; exact Hsame].
    unfold finish. cbn. split; [exact Hn|exact Ha].
  - (* MOVE *)
    unfold do_move. destruct (st_sel st) as [s|] eqn:Es; [|cbn; rewrite Es; exact Hsame].
    rewrite Hn. cbn. rewrite Es. exact Hsame.
  - (* FETCH *)
    unfold do_fetch. destruct (st_sel st) as [s|] eqn:Es; [|cbn; rewrite Es; exact Hsame].
    rewrite Hn. cbn [negb andb].
    destruct (lookup (s_box s) (st_boxes st)) as [b|] eqn:Eb; [|cbn; rewrite Es; exact Hsame].
    unfold finish. cbn. split; [exact Hn|].
    rewrite (set_box_id _ _ _ Eb). apply only_adds_refl.
  - (* CLOSE *)
    unfold do_close. destruct (st_sel st) as [s|] eqn:Es; [|cbn; rewrite Es; exact Hsame].
    rewrite Hn. cbn. split; [exact I|apply only_adds_refl].
Qed.

Lemma run_no_rw prog : forall st, no_rw st ->
  Forall (fun c => is_select c = false) prog ->
  no_rw (fst (run st prog)) /\ only_adds (dests prog) (st_boxes st) (st_boxes (fst (run st prog))).
Proof.
  induction prog as [|c r IH]; intros st Hn Hf; cbn [run dests flat_map].
  - cbn. split; [exact Hn|apply only_adds_refl].
  - inversion Hf as [|? ? Hc Hr]; subst.
    destruct (step_no_rw st c Hn Hc) as [Hn1 Ha1].
    destruct (step st c) as [st1 o] eqn:Es. cbn [fst] in *.
    destruct (IH st1 Hn1 Hr) as [Hn2 Ha2].
    destruct (run st1 r) as [st2 os] eqn:Er. cbn [fst] in *.
    split; [exact Hn2|].
    eapply only_adds_trans.
    + eapply only_adds_mono; [|exact Ha1]. intros n Hi. apply in_or_app. left. exact Hi.
    + eapply only_adds_mono; [|exact Ha2]. intros n Hi. apply in_or_app. right. exact Hi.
Qed.

(* ---- the theorems *)

(* every message that existed stays, in place, with the same flags, date,
   content and stored \Recent mark; UID counters never go back; the only
   change is messages delivered (by APPEND / COPY) at the end of writable
   mailboxes named as a destination *)
Theorem ro_only_adds st prog :
  no_rw st -> Forall (fun c => is_select c = false) prog ->
  only_adds (dests prog) (st_boxes st) (st_boxes (fst (run st prog))).
Proof. intros Hn Hf. apply run_no_rw; auto. Qed.

Definition not_writable (bs : boxes) (n : N) : Prop :=
  match lookup n bs with Some b => b_ro b = true | None => True end.

Lemma only_adds_eq D bs bs' :
  only_adds D bs bs' -> NoDup (map fst bs) -> (forall n, In n D -> not_writable bs n) -> bs' = bs.
Proof.
  intros H. induction H as [|[k x] [k' y] l1 l2 [K A] _ IH]; intros Hnd Hd; [reflexivity|].
  cbn [fst snd map] in *. subst k'. inversion Hnd as [|? ? Hk Hnd']; subst.
  assert (Hy : y = x).
  { destruct A as (_ & _ & _ & _ & E). apply E.
    destruct (in_dec N.eq_dec k D) as [Hi|Hi]; [|right; exact Hi].
    left. specialize (Hd k Hi). unfold not_writable in Hd. cbn [lookup] in Hd.
    rewrite N.eqb_refl in Hd. exact Hd. }
  subst y. f_equal. apply IH; [exact Hnd'|].
  intros n Hi. specialize (Hd n Hi). unfold not_writable in *. cbn [lookup] in Hd.
  destruct (k =? n) eqn:E; [|exact Hd].
  apply N.eqb_eq in E. subst n.
  destruct (lookup k l1) eqn:El; [|exact I].
  exfalso. apply Hk. clear -El. induction l1 as [|[j z] r IHr]; cbn [lookup] in El; [discriminate|].
  cbn [map fst]. destruct (j =? k) eqn:E; [left; apply N.eqb_eq, E|right; apply IHr, El].
Qed.

(* when no destination is writable nothing at all changes: messages, flags
   (incl. an implicit \Seen), stored \Recent marks, UID counters *)
Theorem ro_unchanged st prog :
  no_rw st -> Forall (fun c => is_select c = false) prog ->
  NoDup (map fst (st_boxes st)) ->
  (forall n, In n (dests prog) -> not_writable (st_boxes st) n) ->
  st_boxes (fst (run st prog)) = st_boxes st.
Proof.
  intros Hn Hf Hnd Hd. eapply only_adds_eq; [apply ro_only_adds; assumption|exact Hnd|exact Hd].
Qed.

(* refusals *)
Theorem ro_refused_store st s uid ss op silent fl :
  st_sel st = Some s -> s_ro s = true ->
  step st (CStore uid ss op silent fl) = (st, mkOut NO CReadOnly []).
Proof. intros Hs Hr. cbn [step]. unfold do_store. rewrite Hs, Hr. reflexivity. Qed.

Theorem ro_refused_expunge st s us :
  st_sel st = Some s -> s_ro s = true ->
  step st (CExpunge us) = (st, mkOut NO CReadOnly []).
Proof. intros Hs Hr. cbn [step]. unfold do_expunge. rewrite Hs, Hr. reflexivity. Qed.

Theorem ro_refused_move st s uid ss dest :
  st_sel st = Some s -> s_ro s = true ->
  step st (CMove uid ss dest) = (st, mkOut NO CReadOnly []).
Proof. intros Hs Hr. cbn [step]. unfold do_move. rewrite Hs, Hr. reflexivity. Qed.

Theorem ro_refused_append st box b fl date cid :
  lookup box (st_boxes st) = Some b -> b_ro b = true ->
  step st (CAppend box fl date cid) = (st, mkOut NO CReadOnly []).
Proof. intros Hb Hr. cbn [step]. unfold do_append. rewrite Hb, Hr. reflexivity. Qed.

Theorem ro_refused_copy_into st s sb d uid ss dest :
  st_sel st = Some s -> lookup (s_box s) (st_boxes st) = Some sb ->
  lookup dest (st_boxes st) = Some d -> b_ro d = true ->
  step st (CCopy uid ss dest) = (st, mkOut NO CReadOnly []).
Proof. intros Hs Hb Hd Hr. cbn [step]. unfold do_copy. rewrite Hs, Hb, Hd, Hr. reflexivity. Qed.

Theorem ro_refused_move_into st s sb d uid ss dest :
  st_sel st = Some s -> lookup (s_box s) (st_boxes st) = Some sb ->
  lookup dest (st_boxes st) = Some d -> b_ro d = true ->
  step st (CMove uid ss dest) = (st, mkOut NO CReadOnly []).
Proof.
  intros Hs Hb Hd Hr. cbn [step]. unfold do_move. rewrite Hs, Hb, Hd, Hr.
  destruct (s_ro s); reflexivity.
Qed.

(* CLOSE of a read-only selection: OK, deselected, nothing removed *)
Theorem ro_close_ok st s :
  st_sel st = Some s -> s_ro s = true ->
  step st CClose = (mkState (st_bk st) (st_boxes st) None, mkOut OK CNone []).
Proof. intros Hs Hr. cbn [step]. unfold do_close. rewrite Hs, Hr. reflexivity. Qed.

(* how a read-only selection comes about: EXAMINE of any mailbox, or SELECT
   of a mailbox the backend declares read-only; neither changes anything *)
Theorem select_readonly st box ro b :
  lookup box (st_boxes st) = Some b -> ro = true \/ b_ro b = true ->
  ro_selected (fst (step st (CSelect box ro))) /\
  st_boxes (fst (step st (CSelect box ro))) = st_boxes st.
Proof.
  intros Hb Hr. cbn [step]. unfold do_select. rewrite Hb.
  assert (E : ro || b_ro b = true) by (destruct Hr as [-> | ->]; [reflexivity|apply orb_true_r]).
  rewrite E. cbn. split.
  - eexists. split; [reflexivity|reflexivity].
  - apply set_box_id. exact Hb.
Qed.

Lemma ro_selected_no_rw st : ro_selected st -> no_rw st.
Proof. intros (s & Hs & Hr). unfold no_rw. rewrite Hs. exact Hr. Qed.

(* the same, by mailbox name *)
Theorem ro_only_adds_by_name st prog n b :
  no_rw st -> Forall (fun c => is_select c = false) prog ->
  lookup n (st_boxes st) = Some b ->
  exists b', lookup n (st_boxes (fst (run st prog))) = Some b' /\ box_adds (dests prog) n b b'.
Proof.
  intros Hn Hf Hl. eapply only_adds_lookup; [apply ro_only_adds; assumption|exact Hl].
Qed.

(* non-vacuity: a state with an EXAMINEd mailbox holding flagged, recent and
   \Deleted messages, and a program with every kind of command, satisfy the
   hypotheses of [ro_unchanged] *)
Definition ex_boxes : boxes :=
  [(0, mkBox [mkMsg 101 [FSeen] 10 1 false; mkMsg 102 [FDeleted; FKw 0] 20 2 true] 102 false
              [FSeen; FAnswered; FFlagged; FDeleted; FDraft]);
   (2, mkBox [mkMsg 101 [] 30 3 true] 101 true [FSeen; FAnswered; FFlagged; FDeleted; FDraft])].
Definition ex_prog : list cmd :=
  [CFetch false [SRange (SNum 1) SMax] [mkAttr ABody true true];
   CStore true [SOne SMax] OpAdd false [FDeleted];
   CExpunge None; CExpunge (Some [SOne (SNum 102)]);
   CCopy false [SOne (SNum 1)] 2; CMove true [SRange SMax (SNum 1)] 2; CMove false [SOne (SNum 2)] 7;
   CAppend 2 [FSeen] 5 9; CClose; CAppend 7 [] 5 9].
Example ro_unchanged_example :
  let st := fst (step (mkState Dict ex_boxes None) (CSelect 0 true)) in
  ro_selected st /\ Forall (fun c => is_select c = false) ex_prog /\
  NoDup (map fst (st_boxes st)) /\
  (forall n, In n (dests ex_prog) -> not_writable (st_boxes st) n) /\
  st_boxes (fst (run st ex_prog)) = ex_boxes /\
  map o_cond (snd (run st ex_prog)) = [OK; NO; NO; NO; NO; NO; NO; NO; OK; NO].
Proof.
  cbn [fst]. split; [eexists; split; reflexivity|].
  split; [repeat constructor|].
  split; [vm_compute; repeat constructor; cbn; intuition discriminate|].
  split; [|split; vm_compute; reflexivity].
  intros n Hi. vm_compute in Hi. unfold not_writable.
  repeat (destruct Hi as [<-|Hi]; [vm_compute; try reflexivity; exact I|]). destruct Hi.
Qed.
