(* RefModel/Spec.v — the plain reference model of IMAP message commands,
   written from RFC 3501 (6.3.1, 6.3.11, 6.4.2-6.4.8, 7.x), RFC 4315 (UIDPLUS:
   UID EXPUNGE, APPENDUID, COPYUID) and RFC 6851 (MOVE), not from pymap's code.

   A mailbox is the list of its messages; a message sequence number is a
   position in that list; a sequence set denotes what Wire/SeqSet.v [denotes]
   says (ranges in either order, '*' = the largest number in use, numbers
   above it denote nothing).  There is no cache, no view, no change log and no
   diff: every command says directly which messages change and what is
   reported.  Where the RFCs leave a choice (order of EXPUNGE responses,
   whether an unsolicited RECENT is sent) the choice made is stated at the
   definition.  Definitions only. *)
From PV Require Import Base.Prelude Wire.SeqSet RefModel.Flags RefModel.Model.
Local Open Scope N_scope.

(* the session part of the spec state: selected mailbox, read-only?, and the
   UIDs that are \Recent for this session *)
Record ssel := mkSsel { ss_box : N; ss_ro : bool; ss_recent : list N }.
Record sstate := mkSstate { sp_bk : backend; sp_boxes : boxes; sp_sel : option ssel }.

(* ---------------------------------------------------- what a set denotes *)
Definition elem_in (mx n : N) (e : selem) : bool :=
  match e with
  | SOne i => (n =? idx_val mx i) && (n <=? mx)
  | SRange a b =>
    (N.min (idx_val mx a) (idx_val mx b) <=? n)
    && (n <=? N.max (idx_val mx a) (idx_val mx b)) && (n <=? mx)
  end.
Definition in_set (mx : N) (ss : seqset) (n : N) : bool := existsb (elem_in mx n) ss.

Definition max_uid (l : list msg) : N := fold_right N.max 0 (uids_of l).
(* is the message at position q addressed by the (UID) sequence set? *)
Definition addressed (uidmode : bool) (ss : seqset) (l : list msg) (q : N) (m : msg) : bool :=
  if uidmode then in_set (max_uid l) ss (m_uid m)
  else in_set (N.of_nat (length l)) ss q.

(* ------------------------------------------------------------ reporting *)
Definition sreply (st : sstate) (c : cond) (k : code) : sstate * out := (st, mkOut c k []).
Definition sset (st : sstate) (bs : boxes) (s : option ssel) : sstate :=
  mkSstate (sp_bk st) bs s.

Definition n_recent (rec : list N) (l : list msg) : N :=
  N.of_nat (length (filter (fun u => memN u (uids_of l)) rec)).
(* an untagged RECENT is sent when the session's count changed *)
Definition recent_line (rec0 : list N) (l0 : list msg) (rec1 : list N) (l1 : list msg)
  : list untagged :=
  if n_recent rec1 l1 =? n_recent rec0 l0 then [] else [URecent (n_recent rec1 l1)].

Definition sflags_item (q : N) (m : msg) (rec : list N) (with_uid : bool) : untagged :=
  UFetch (mkItem q (if with_uid then Some (m_uid m) else None)
                 (Some (with_recent (m_flags m) (memN (m_uid m) rec))) None None).

(* messages that arrive in the selected mailbox: EXISTS, RECENT when the
   session's count changed, and the flags of each new message *)
Definition arrivals (rec0 : list N) (l0 : list msg) (rec1 : list N) (l1 : list msg)
           (n_old : nat) (with_uid : bool) : list untagged :=
  (if (length l1 <=? n_old)%nat then [] else [UExists (N.of_nat (length l1))])
  ++ recent_line rec0 l0 rec1 l1
  ++ map (fun qm => sflags_item (fst qm) (snd qm) rec1 with_uid)
         (skipn n_old (enumerate l1)).

(* EXPUNGE responses: highest position first, so that every number is the
   position the message had before the command *)
Definition expunge_lines (l : list msg) (gone : N -> msg -> bool) : list untagged :=
  map (fun qm => UExpunge (fst qm))
      (rev (filter (fun qm => gone (fst qm) (snd qm)) (enumerate l))).

(* --------------------------------------------------------------- SELECT *)
Definition spec_select (st : sstate) (box : N) (ro : bool) : sstate * out :=
  let st0 := sset st (sp_boxes st) None in
  match lookup box (sp_boxes st) with
  | None => sreply st0 NO CNonexistent
  | Some b =>
    if ro || b_ro b then
      (* EXAMINE / read-only mailbox: nothing changes, \Recent stays stored *)
      (sset st (sp_boxes st) (Some (mkSsel box true [])),
       mkOut OK CReadOnly
             [USelect (N.of_nat (length (b_msgs b))) (count_recent (b_msgs b))
                      (b_maxuid b + 1) (first_unseen_from 1 (b_msgs b)) []])
    else
      (* the session takes over the stored \Recent marks *)
      let rec := uids_of (filter m_recent (b_msgs b)) in
      let b' := set_msgs b (map clear_recent (b_msgs b)) in
      (sset st (set_box box b' (sp_boxes st)) (Some (mkSsel box false rec)),
       mkOut OK CReadWrite
             [USelect (N.of_nat (length (b_msgs b))) (N.of_nat (length rec))
                      (b_maxuid b + 1) (first_unseen_from 1 (b_msgs b)) (b_perm b)])
  end.

(* is a message delivered to [box] \Recent for this session (it is when the
   session has that mailbox selected read-write), else the mark is stored *)
Definition sdest_selected (st : sstate) (box : N) : bool :=
  match sp_sel st with
  | Some s => negb (ss_ro s) && (ss_box s =? box)
  | None => false
  end.

(* --------------------------------------------------------------- APPEND *)
(* adds the messages, in order, with the given flags (those the mailbox can store;
   never \Recent) and dates, at the next UIDs.  MULTIAPPEND is all-or-nothing: if
   storing one of them fails nothing is added (the UIDs tried are not reused) and the
   connection ends *)
Fixpoint new_msgs (bk : backend) (perm : fset) (u : N) (recent : bool) (msgs : list amsg)
  : list msg :=
  match msgs with
  | [] => []
  | a :: r => mkMsg u (storable bk perm (diff (am_flags a) [FRecent])) (am_date a) (am_cid a) recent
              :: new_msgs bk perm (u + 1) recent r
  end.
Fixpoint before_failure (msgs : list amsg) : list amsg :=
  match msgs with
  | [] => []
  | a :: r => if am_fail a then [] else a :: before_failure r
  end.

Definition spec_append (st : sstate) (box : N) (msgs : list amsg) : sstate * out :=
  match lookup box (sp_boxes st) with
  | None => sreply st NO CTryCreate
  | Some b =>
    if b_ro b then sreply st NO CReadOnly else
    if existsb am_fail msgs then
      let b' := mkBox (b_msgs b) (b_maxuid b + N.of_nat (length (before_failure msgs)))
                      (b_ro b) (b_perm b) (b_uidv b) in
      (sset st (set_box box b' (sp_boxes st)) None, mkOut BYE CServerBug [])
    else
    let ds := sdest_selected st box in
    let new := new_msgs (sp_bk st) (b_perm b) (b_maxuid b + 1) (negb ds) msgs in
    let b' := mkBox (b_msgs b ++ new) (b_maxuid b + N.of_nat (length msgs)) (b_ro b) (b_perm b)
                    (b_uidv b) in
    let bs' := set_box box b' (sp_boxes st) in
    match sp_sel st with
    | None => (sset st bs' None, mkOut OK (CAppendUid (uids_of new)) [])
    | Some s =>
      match lookup (ss_box s) (sp_boxes st) with
      | None => (sset st bs' None, mkOut OK (CAppendUid (uids_of new)) [UBye])
      | Some sb =>
        if ss_box s =? box then
          let rec := if ds then fold_left (fun r u => add_recent u r) (uids_of new) (ss_recent s)
                     else ss_recent s in
          (sset st bs' (Some (mkSsel (ss_box s) (ss_ro s) rec)),
           mkOut OK (CAppendUid (uids_of new))
                 (arrivals (ss_recent s) (b_msgs b) rec (b_msgs b') (length (b_msgs b)) false))
        else (sset st bs' (Some s), mkOut OK (CAppendUid (uids_of new)) [])
      end
    end
  end.

(* ---------------------------------------------------------------- STORE *)
(* FLAGS / +FLAGS / -FLAGS replace / add / remove exactly the named flags that
   are permitted in the mailbox, on exactly the addressed messages; unless
   .SILENT the new flags of every addressed message are reported *)
Definition store_flags (bk : backend) (b : mbox) (op : flagop) (fl : fset) (m : msg) : fset :=
  storable bk (b_perm b)
           (op_apply op (m_flags m) (perm_intersect (perm_defined (b_perm b)) fl)).

Definition spec_store (st : sstate) (uid : bool) (ss : seqset) (op : flagop) (silent : bool)
           (fl : fset) : sstate * out :=
  match sp_sel st with
  | None => sreply st BAD CNone
  | Some s =>
    if ss_ro s then sreply st NO CReadOnly else
    match lookup (ss_box s) (sp_boxes st) with
    | None => sreply st NO CNonexistent
    | Some b =>
      let l := b_msgs b in
      let upd q m := if addressed uid ss l q m
                     then set_flags m (store_flags (sp_bk st) b op fl m) else m in
      let l' := map (fun qm => upd (fst qm) (snd qm)) (enumerate l) in
      let items :=
        if silent then []
        else flat_map (fun qm => if addressed uid ss l (fst qm) (snd qm)
                                 then [sflags_item (fst qm) (upd (fst qm) (snd qm))
                                                   (ss_recent s) uid]
                                 else []) (enumerate l) in
      (sset st (set_box (ss_box s) (set_msgs b l') (sp_boxes st)) (Some s),
       mkOut OK CNone items)
    end
  end.

(* -------------------------------------------------- EXPUNGE, UID EXPUNGE *)
(* removes exactly the messages flagged \Deleted — with UID EXPUNGE only those
   whose UID is also in the set *)
Definition to_expunge (l : list msg) (uidset : option seqset) (m : msg) : bool :=
  mem FDeleted (m_flags m)
  && match uidset with None => true | Some ss => in_set (max_uid l) ss (m_uid m) end.

Definition spec_expunge (st : sstate) (uidset : option seqset) : sstate * out :=
  match sp_sel st with
  | None => sreply st BAD CNone
  | Some s =>
    if ss_ro s then sreply st NO CReadOnly else
    match lookup (ss_box s) (sp_boxes st) with
    | None => sreply st NO CNonexistent
    | Some b =>
      let l := b_msgs b in
      let gone := to_expunge l uidset in
      let l' := filter (fun m => negb (gone m)) l in
      let rec' := filter (fun u => negb (existsb (fun m => (m_uid m =? u) && gone m) l))
                         (ss_recent s) in
      (sset st (set_box (ss_box s) (set_msgs b l') (sp_boxes st))
            (Some (mkSsel (ss_box s) (ss_ro s) rec')),
       mkOut OK CNone (expunge_lines l (fun _ m => gone m)
                       ++ recent_line (ss_recent s) l rec' l'))
    end
  end.

(* ---------------------------------------------------------------- CLOSE *)
(* leaves the selected state; a read-write selection first loses its \Deleted
   messages, without any EXPUNGE response; a read-only one loses nothing *)
Definition spec_close (st : sstate) : sstate * out :=
  match sp_sel st with
  | None => sreply st BAD CNone
  | Some s =>
    let st0 := sset st (sp_boxes st) None in
    if ss_ro s then sreply st0 OK CNone else
    match lookup (ss_box s) (sp_boxes st) with
    | None => sreply st0 OK CNone
    | Some b =>
      let l' := filter (fun m => negb (to_expunge (b_msgs b) None m)) (b_msgs b) in
      sreply (sset st (set_box (ss_box s) (set_msgs b l') (sp_boxes st)) None) OK CNone
    end
  end.

(* ----------------------------------------------------------- COPY, MOVE *)
(* the copies: same flags (those the destination can store), date and content as the
   originals, next UIDs of the destination in the order of the originals *)
Fixpoint copies_from (bk : backend) (perm : fset) (u : N) (recent : bool) (src : list msg)
  : list msg :=
  match src with
  | [] => []
  | m :: r => mkMsg u (storable bk perm (m_flags m)) (m_date m) (m_cid m) recent
              :: copies_from bk perm (u + 1) recent r
  end.
Definition selected_msgs (uid : bool) (ss : seqset) (l : list msg) : list msg :=
  map snd (filter (fun qm => addressed uid ss l (fst qm) (snd qm)) (enumerate l)).
Definition scopy_code (src new : list msg) : code :=
  match src with [] => CNone | _ => CCopyUid (uids_of src) (uids_of new) end.

(* shared by COPY and MOVE: deliver copies of [src] to [dest] *)
Definition deliver (st : sstate) (s : ssel) (dest : N) (d : mbox) (src : list msg)
  : boxes * list N * list msg :=
  let ds := sdest_selected st dest in
  let new := copies_from (sp_bk st) (b_perm d) (b_maxuid d + 1) (negb ds) src in
  let d' := mkBox (b_msgs d ++ new) (b_maxuid d + N.of_nat (length src)) (b_ro d) (b_perm d) (b_uidv d) in
  (set_box dest d' (sp_boxes st),
   if ds then fold_left (fun r u => add_recent u r) (uids_of new) (ss_recent s) else ss_recent s,
   new).

Definition spec_copy (st : sstate) (uid : bool) (ss : seqset) (dest : N) : sstate * out :=
  match sp_sel st with
  | None => sreply st BAD CNone
  | Some s =>
    match lookup (ss_box s) (sp_boxes st) with
    | None => sreply st NO CNonexistent
    | Some b =>
      match lookup dest (sp_boxes st) with
      | None => sreply st NO CTryCreate
      | Some d =>
        if b_ro d then sreply st NO CReadOnly else
        let src := selected_msgs uid ss (b_msgs b) in
        let '(bs', rec, new) := deliver st s dest d src in
        (sset st bs' (Some (mkSsel (ss_box s) (ss_ro s) rec)),
         mkOut OK (scopy_code src new)
               (if ss_box s =? dest
                then arrivals (ss_recent s) (b_msgs b) rec (b_msgs b ++ new)
                              (length (b_msgs b)) uid
                else []))
      end
    end
  end.

(* MOVE = COPY, then the originals are removed from the source mailbox and
   reported as expunged; refused in a read-only selection *)
Definition spec_move (st : sstate) (uid : bool) (ss : seqset) (dest : N) : sstate * out :=
  match sp_sel st with
  | None => sreply st BAD CNone
  | Some s =>
    if ss_ro s then sreply st NO CReadOnly else
    match lookup (ss_box s) (sp_boxes st) with
    | None => sreply st NO CNonexistent
    | Some b =>
      match lookup dest (sp_boxes st) with
      | None => sreply st NO CTryCreate
      | Some d =>
        if b_ro d then sreply st NO CReadOnly else
        let l := b_msgs b in
        let src := selected_msgs uid ss l in
        let '(bs1, rec1, new) := deliver st s dest d src in
        (* removal of the originals from the source *)
        let moved m := memN (m_uid m) (uids_of src) in
        let rec2 := filter (fun u => negb (memN u (uids_of src))) rec1 in
        match lookup (ss_box s) bs1 with
        | None => sreply st NO CNonexistent
        | Some b1 =>
          let l2 := filter (fun m => negb (moved m)) (b_msgs b1) in
          (sset st (set_box (ss_box s) (set_msgs b1 l2) bs1)
                (Some (mkSsel (ss_box s) (ss_ro s) rec2)),
           mkOut OK CNone
                 (UMoved (scopy_code src new)
                  :: expunge_lines l (fun _ m => moved m)
                  ++ (if ss_box s =? dest
                      then arrivals (ss_recent s) l rec2 l2
                                    (length (filter (fun m => negb (moved m)) l)) uid
                      else recent_line (ss_recent s) l rec2 l2)))
        end
      end
    end
  end.

(* ---------------------------------------------------------------- FETCH *)
(* RFC 3501 6.4.5: BODY[section], RFC822 and RFC822.TEXT (and RFC 3516
   BINARY[section]) set \Seen; BODY.PEEK, BINARY.PEEK, BINARY.SIZE,
   RFC822.HEADER, RFC822.SIZE and the metadata items do not *)
Definition rfc_sets_seen (a : fattr) : bool :=
  match fa_name a with
  | ABody => fa_section a
  | ABinary | ARfc822 | ARfc822Text => true
  | ABodyPeek | ABinaryPeek | ABinarySize | ARfc822Header | ARfc822Size
  | AFlags | AUid | AInternalDate | AEnvelope | ABodyStructure | AEmailId | AThreadId => false
  end.

Definition spec_fetch (st : sstate) (uid : bool) (ss : seqset) (attrs : list fattr)
  : sstate * out :=
  match sp_sel st with
  | None => sreply st BAD CNone
  | Some s =>
    match lookup (ss_box s) (sp_boxes st) with
    | None => sreply st NO CNonexistent
    | Some b =>
      let l := b_msgs b in
      let seen := negb (ss_ro s) && existsb rfc_sets_seen attrs in
      let upd q m :=
        if addressed uid ss l q m && seen
        then set_flags m (storable (sp_bk st) (b_perm b) (union (m_flags m) [FSeen])) else m in
      let l' := map (fun qm => upd (fst qm) (snd qm)) (enumerate l) in
      let item q m :=
        let m' := upd q m in
        UFetch (mkItem q
          (if uid || has_attr AUid attrs then Some (m_uid m) else None)
          (* FLAGS when asked for, and also when this FETCH changed them *)
          (if has_attr AFlags attrs || negb (fset_eqb (m_flags m) (m_flags m'))
           then Some (with_recent (m_flags m') (memN (m_uid m) (ss_recent s))) else None)
          (if has_attr AInternalDate attrs then Some (m_date m) else None)
          (if existsb fa_content attrs then Some (m_cid m) else None)) in
      (sset st (set_box (ss_box s) (set_msgs b l') (sp_boxes st)) (Some s),
       mkOut OK CNone
             (flat_map (fun qm => if addressed uid ss l (fst qm) (snd qm)
                                  then [item (fst qm) (snd qm)] else []) (enumerate l)))
    end
  end.

(* ------------------------------------------------------------ NOOP, CHECK *)
Definition spec_noop (st : sstate) (check : bool) : sstate * out :=
  match sp_sel st with
  | None => if check then sreply st BAD CNone else sreply st OK CNone
  | Some s =>
    match lookup (ss_box s) (sp_boxes st) with
    | None => sreply st NO CNonexistent
    | Some _ => sreply st OK CNone
    end
  end.

(* --------------------------------------------------------------- STATUS *)
(* MESSAGES, RECENT (the session's own count for its selected mailbox, the stored
   marks otherwise), UIDNEXT, UIDVALIDITY, UNSEEN *)
Definition spec_status (st : sstate) (box : N) : sstate * out :=
  match lookup box (sp_boxes st) with
  | None => sreply st NO CNonexistent
  | Some b =>
    let line r := UStatus box (N.of_nat (length (b_msgs b))) r (b_maxuid b + 1) (b_uidv b)
                          (count_unseen (b_msgs b)) in
    match sp_sel st with
    | None => (st, mkOut OK CNone [line (count_recent (b_msgs b))])
    | Some s =>
      match lookup (ss_box s) (sp_boxes st) with
      | None => (sset st (sp_boxes st) None, mkOut OK CNone [line (count_recent (b_msgs b)); UBye])
      | Some _ =>
        (st, mkOut OK CNone [line (if ss_box s =? box then N.of_nat (length (ss_recent s))
                                   else count_recent (b_msgs b))])
      end
    end
  end.

(* --------------------------------------------------------------- SEARCH *)
Fixpoint skey_matches (l : list msg) (rec : list N) (q : N) (m : msg) (k : skey) : bool :=
  let fl := with_recent (m_flags m) (memN (m_uid m) rec) in
  match k with
  | KAll => true
  | KFlag f e => Bool.eqb (mem f fl) e
  | KNew => mem FRecent fl && negb (mem FSeen fl)
  | KSet uid ss => addressed uid ss l q m
  | KNot a => negb (skey_matches l rec q m a)
  | KOr a b => skey_matches l rec q m a || skey_matches l rec q m b
  end.

(* the numbers (UIDs for UID SEARCH) of exactly the messages that match every key *)
Definition spec_search (st : sstate) (uid : bool) (keys : list skey) : sstate * out :=
  match sp_sel st with
  | None => sreply st BAD CNone
  | Some s =>
    match lookup (ss_box s) (sp_boxes st) with
    | None => sreply st NO CNonexistent
    | Some b =>
      let l := b_msgs b in
      let hits := filter (fun qm => forallb (skey_matches l (ss_recent s) (fst qm) (snd qm)) keys)
                         (enumerate l) in
      (st, mkOut OK CNone [USearch (map (fun qm => if uid then m_uid (snd qm) else fst qm) hits)])
    end
  end.

(* ------------------------------------------------ CREATE, DELETE, RENAME *)
(* a session whose selected mailbox disappears is told BYE *)
Definition names_done (st : sstate) (bs : boxes) : sstate * out :=
  match sp_sel st with
  | None => (sset st bs None, mkOut OK CNone [])
  | Some s =>
    match lookup (ss_box s) bs with
    | None => (sset st bs None, mkOut OK CNone [UBye])
    | Some _ => (sset st bs (Some s), mkOut OK CNone [])
    end
  end.

Definition spec_create (st : sstate) (box uidv : N) : sstate * out :=
  if box =? INBOX then sreply st NO CNone else
  match lookup box (sp_boxes st) with
  | Some _ => sreply st NO CAlreadyExists
  | None => names_done st (sp_boxes st ++ [(box, new_box (sp_bk st) uidv)])
  end.

Definition spec_delete (st : sstate) (box : N) : sstate * out :=
  if box =? INBOX then sreply st NO CNone else
  match lookup box (sp_boxes st) with
  | None => sreply st NO CNonexistent
  | Some _ => names_done st (del_box box (sp_boxes st))
  end.

(* the mailbox, with its messages, UIDs, UIDVALIDITY and read-only bit, gets the new
   name; renaming INBOX leaves a new empty INBOX behind (maildir refuses) *)
Definition spec_rename (st : sstate) (from to uidv : N) : sstate * out :=
  if to =? INBOX then sreply st NO CNone else
  if (from =? INBOX) && match sp_bk st with Maildir => true | Dict => false end
  then sreply st NO CCannot else
  match lookup from (sp_boxes st) with
  | None => sreply st NO CNonexistent
  | Some b =>
    match lookup to (sp_boxes st) with
    | Some _ => sreply st NO CAlreadyExists
    | None =>
      if from =? INBOX then
        let bs' := set_box INBOX (new_box Dict uidv) (sp_boxes st) ++ [(to, b)] in
        match sp_sel st with
        | Some s => if ss_box s =? INBOX
                    then (sset st bs' (Some (mkSsel GONE (ss_ro s) (ss_recent s))), mkOut OK CNone [])
                    else names_done st bs'
        | None => names_done st bs'
        end
      else names_done st (del_box from (sp_boxes st) ++ [(to, b)])
    end
  end.

Definition spec_step (st : sstate) (c : cmd) : sstate * out :=
  match c with
  | CSelect box ro => spec_select st box ro
  | CAppend box msgs => spec_append st box msgs
  | CStore uid ss op silent fl => spec_store st uid ss op silent fl
  | CExpunge us => spec_expunge st us
  | CCopy uid ss dest => spec_copy st uid ss dest
  | CMove uid ss dest => spec_move st uid ss dest
  | CFetch uid ss attrs => spec_fetch st uid ss attrs
  | CClose => spec_close st
  | CNoop => spec_noop st false
  | CCheck => spec_noop st true
  | CStatus box => spec_status st box
  | CSearch uid keys => spec_search st uid keys
  | CCreate box uidv => spec_create st box uidv
  | CDelete box => spec_delete st box
  | CRename from to uidv => spec_rename st from to uidv
  end.

Fixpoint spec_run (st : sstate) (prog : list cmd) : sstate * list out :=
  match prog with
  | [] => (st, [])
  | c :: r => let '(st1, o) := spec_step st c in
              let '(st2, os) := spec_run st1 r in (st2, o :: os)
  end.

(* the abstraction: forget the session's view of the mailbox *)
Definition abs_sel (s : sel) : ssel := mkSsel (s_box s) (s_ro s) (s_recent s).
Definition abs (st : state) : sstate :=
  mkSstate (st_bk st) (st_boxes st) (option_map abs_sel (st_sel st)).
