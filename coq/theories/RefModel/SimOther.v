(* RefModel/SimOther.v — simulation lemmas for SELECT/EXAMINE, EXPUNGE,
   UID EXPUNGE, CLOSE, APPEND, COPY, MOVE. *)
From Coq Require Import Sorting.Sorted.
From PV Require Import Base.Prelude Wire.SeqSet RefModel.Flags RefModel.Model RefModel.Spec
  RefModel.BoxLemmas RefModel.AddrProofs RefModel.CompareProofs RefModel.LoopProofs
  RefModel.SimBase RefModel.SimStore.
Local Open Scope N_scope.

Ltac trivial_sim HI := cbn; split; [reflexivity|split; [reflexivity|exact HI]].

(* ---- keeping the invariant when one mailbox is replaced *)
Lemma maildir_ok_set_box bs n b b' :
  maildir_ok bs -> lookup n bs = Some b -> b_perm b' = b_perm b ->
  Forall (fun m => subset (m_flags m) (b_perm b) = true) (b_msgs b') ->
  maildir_ok (set_box n b' bs).
Proof.
  intros Hf Hl Hp HF. apply Forall_set_box; [exact Hf|].
  destruct (Forall_lookup flags_in _ _ _ Hf Hl) as [Hw _].
  split; rewrite Hp; assumption.
Qed.

Lemma maildir_flags bs n b : maildir_ok bs -> lookup n bs = Some b ->
  mem FWild (b_perm b) = false /\ Forall (fun m => subset (m_flags m) (b_perm b) = true) (b_msgs b).
Proof. intros Hf Hl. exact (Forall_lookup flags_in _ _ _ Hf Hl). Qed.

Lemma first_unseen_clear k l : first_unseen_from k (map clear_recent l) = first_unseen_from k l.
Proof.
  revert k. induction l as [|m r IH]; intros k; cbn [map first_unseen_from]; [reflexivity|].
  cbn [clear_recent m_flags]. destruct (mem FSeen (m_flags m)); [apply IH|reflexivity].
Qed.

Lemma uids_clear l : uids_of (map clear_recent l) = uids_of l.
Proof. unfold uids_of. rewrite map_map. reflexivity. Qed.

(* ----------------------------------------------------------------- SELECT *)
Lemma sim_select st box ro : Inv st -> sim_ok st (CSelect box ro).
Proof.
  intros HI. unfold sim_ok. cbn [step spec_step]. unfold do_select, spec_select.
  cbn [abs sp_sel sp_boxes sp_bk]. destruct HI as (Hb & Hm & Hs).
  destruct (lookup box (st_boxes st)) as [b|] eqn:El.
  2:{ cbn. split; [reflexivity|split; [reflexivity|]]. split; [exact Hb|split; [exact Hm|exact I]]. }
  destruct (ro || b_ro b) eqn:Ero.
  - (* read-only *)
    rewrite (set_box_id _ _ _ El). cbn [fst snd]. split; [reflexivity|split; [reflexivity|]].
    split; [exact Hb|split; [exact Hm|]]. cbn [st_sel]. exists b. repeat split. exact El.
  - (* read-write: the stored \Recent marks go to the session *)
    cbn [fst snd]. split; [|split].
    + unfold v_exists. cbn [b_msgs set_msgs b_maxuid]. rewrite map_length, first_unseen_clear. reflexivity.
    + reflexivity.
    + split; [|split]; unfold set_sel; cbn [st_boxes st_bk st_sel].
      * apply Forall_set_box; [exact Hb|]. destruct (Forall_lookup box_ok _ _ _ Hb El) as [H1 H2].
        split; cbn [b_msgs set_msgs b_maxuid]; rewrite uids_clear; assumption.
      * intros Hk. apply (maildir_ok_set_box _ _ b); [apply Hm, Hk|exact El|reflexivity|].
        cbn [b_msgs set_msgs]. destruct (maildir_flags _ _ _ (Hm Hk) El) as [_ HF].
        apply Forall_forall. intros m Hi. apply in_map_iff in Hi. destruct Hi as (m0 & <- & Hi).
        rewrite Forall_forall in HF. apply (HF m0 Hi).
      * eexists. rewrite lookup_set_box_same, El. repeat split.
Qed.

(* ---------------------------------------------------------------- EXPUNGE *)
Lemma expunge_lines_ext l f g : (forall q m, In m l -> f q m = g q m) ->
  expunge_lines l f = expunge_lines l g.
Proof.
  intros H. unfold expunge_lines. f_equal. f_equal. apply filter_ext_in. intros [q m] Hi.
  apply H. eapply enum_from_In_snd, Hi.
Qed.

(* which session \Recent marks disappear with the removed messages *)
Lemma removed_recent l keep u : NoDup (uids_of l) ->
  memN u (uids_of l) && negb (memN u (uids_of (filter keep l)))
  = existsb (fun m => (m_uid m =? u) && negb (keep m)) l.
Proof.
  unfold uids_of. induction l as [|x r IH]; intros Hnd; [reflexivity|].
  cbn [map] in Hnd. inversion Hnd as [|? ? Hx Hr]; subst. specialize (IH Hr).
  cbn [map memN existsb filter]. fold (memN u (map m_uid r)).
  destruct (u =? m_uid x) eqn:E.
  - apply N.eqb_eq in E. subst u. rewrite N.eqb_refl. cbn [orb andb].
    assert (Hr0 : existsb (fun m => (m_uid m =? m_uid x) && negb (keep m)) r = false).
    { destruct (existsb _ r) eqn:Ee; [|reflexivity]. apply existsb_exists in Ee.
      destruct Ee as (m & Hm & Ee). apply andb_true_iff in Ee. destruct Ee as [Ee _].
      apply N.eqb_eq in Ee. exfalso. apply Hx. rewrite <- Ee. apply in_map, Hm. }
    rewrite Hr0, orb_false_r. destruct (keep x); cbn [negb map memN existsb].
    + rewrite N.eqb_refl. reflexivity.
    + fold (memN (m_uid x) (map m_uid (filter keep r))).
      replace (memN (m_uid x) (map m_uid (filter keep r))) with false; [reflexivity|].
      symmetry. apply memN_false. intros Hi. apply in_map_iff in Hi. destruct Hi as (m & Em & Hm).
      apply filter_In in Hm. apply Hx. rewrite <- Em. apply in_map, Hm.
  - rewrite (N.eqb_sym (m_uid x) u), E. cbn [orb andb]. rewrite <- IH.
    destruct (keep x); [cbn [map memN existsb]; rewrite E|]; reflexivity.
Qed.

Lemma arrivals_none r0 l0 r1 l1 wu :
  arrivals r0 l0 r1 l1 (length l1) wu = recent_line r0 l0 r1 l1.
Proof.
  unfold arrivals. rewrite Nat.leb_refl. cbn [app].
  unfold enumerate. rewrite skipn_all2 by (rewrite enum_from_length; lia).
  cbn [map]. apply app_nil_r.
Qed.

(* the common part of EXPUNGE, UID EXPUNGE and CLOSE: which messages die *)
Lemma expunge_dead s b uidset : box_ok b -> s_view s = b_msgs b ->
  mb_delete b (find_deleted b (expunge_targets (s_view s) uidset) (s_recent s))
  = set_msgs b (filter (fun m => negb (to_expunge (b_msgs b) uidset m)) (b_msgs b)).
Proof.
  intros Hok Hv. pose proof (box_ok_NoDup b Hok) as Hnd. rewrite Hv.
  set (Q := fun m : msg => match uidset with
                           | None => true | Some ss => in_set (max_uid (b_msgs b)) ss (m_uid m) end).
  assert (Ht : expunge_targets (b_msgs b) uidset
               = filter (fun qm => Q (snd qm)) (enumerate (b_msgs b))).
  { destruct uidset as [ss|].
    - cbn [expunge_targets]. rewrite get_all_spec by apply Hok. reflexivity.
    - rewrite expunge_targets_all; [|apply Hok|].
      + symmetry. apply filter_all. reflexivity.
      + destruct Hok as [_ H2]. eapply Forall_impl; [|exact H2]. cbn. intros; lia. }
  rewrite Ht, find_deleted_spec by exact Hnd. rewrite mb_delete_spec by exact Hnd.
  f_equal. apply filter_ext. intros m. unfold to_expunge, Q. rewrite andb_comm. reflexivity.
Qed.

Lemma box_ok_filter b p : box_ok b -> box_ok (set_msgs b (filter p (b_msgs b))).
Proof.
  intros [H1 H2]. split; cbn [b_msgs set_msgs b_maxuid]; unfold uids_of in *.
  - assert (E : map m_uid (filter p (b_msgs b)) = map m_uid (filter p (b_msgs b))) by reflexivity.
    clear E. induction (b_msgs b) as [|x r IH]; cbn [filter map]; [constructor|].
    cbn [map] in H1, H2. inversion H1 as [|? ? Hs Hf]; subst. inversion H2; subst.
    destruct (p x); cbn [map]; [|apply IH; assumption]. constructor; [apply IH; assumption|].
    rewrite Forall_forall in *. intros y Hy. apply in_map_iff in Hy. destruct Hy as (m & <- & Hm).
    apply filter_In in Hm. apply Hf, in_map, Hm.
  - rewrite Forall_forall in *. intros y Hy. apply in_map_iff in Hy. destruct Hy as (m & <- & Hm).
    apply filter_In in Hm. apply H2, in_map, Hm.
Qed.

Lemma sim_expunge st uidset : Inv st -> sim_ok st (CExpunge uidset).
Proof.
  intros HI. unfold sim_ok. cbn [step spec_step]. unfold do_expunge, spec_expunge.
  cbn [abs sp_sel sp_boxes sp_bk].
  destruct (st_sel st) as [s|] eqn:Es; cbn [option_map]; [|trivial_sim HI].
  cbn [abs_sel ss_ro ss_box ss_recent].
  destruct (s_ro s) eqn:Ero; [trivial_sim HI|].
  destruct (inv_selected st s HI Es) as (b & Hl & Hv & Hp & Hok & Hmd). rewrite Hl.
  pose proof (box_ok_NoDup b Hok) as Hnd.
  rewrite (expunge_dead s b uidset Hok Hv).
  set (gone := to_expunge (b_msgs b) uidset).
  set (keep := fun m => negb (gone m)).
  set (b' := set_msgs b (filter keep (b_msgs b))).
  assert (Hfin := finish_remove_add b' s keep [] (s_recent s)
                    (match uidset with Some _ => true | None => false end) []).
  rewrite Hv in Hfin. specialize (Hfin Hnd).
  cbn [b' b_msgs set_msgs] in Hfin. rewrite app_nil_r in Hfin.
  specialize (Hfin eq_refl (fun m H => match H with end) (fun m _ _ H => H) eq_refl).
  cbn zeta in Hfin. fold b' in Hfin. cbn [b' b_msgs set_msgs] in Hfin. rewrite Hfin. clear Hfin.
  cbn [app]. rewrite arrivals_none.
  assert (Hrec : filter (fun u => negb (memN u (uids_of (b_msgs b))
                                        && negb (memN u (uids_of (filter keep (b_msgs b))))))
                        (s_recent s)
                 = filter (fun u => negb (existsb (fun m => (m_uid m =? u) && gone m) (b_msgs b)))
                          (s_recent s)).
  { apply filter_ext. intros u. rewrite removed_recent by exact Hnd. f_equal.
    apply existsb_same. intros m. unfold keep. rewrite negb_involutive. reflexivity. }
  rewrite Hrec.
  split; [|split]; cbn [fst snd].
  - f_equal. f_equal. apply expunge_lines_ext. intros q m _. unfold keep. apply negb_involutive.
  - unfold abs, set_sel, sset. cbn [st_bk st_boxes st_sel option_map abs_sel s_box s_ro s_recent].
    rewrite Ero. reflexivity.
  - destruct HI as (Hb & Hm & _). split; [|split]; unfold set_sel; cbn [st_boxes st_bk st_sel].
    + apply Forall_set_box; [exact Hb|]. apply box_ok_filter, Hok.
    + intros Hk. apply (maildir_ok_set_box _ _ b); [apply Hm, Hk|exact Hl|reflexivity|].
      cbn [b_msgs set_msgs]. destruct (Hmd Hk) as [_ HF]. rewrite Forall_forall in *.
      intros m Hi. apply filter_In in Hi. apply HF, Hi.
    + exists b'. cbn [s_box s_view s_perm]. rewrite lookup_set_box_same, Hl. repeat split. exact Hp.
Qed.

(* ------------------------------------------------------------------ CLOSE *)
Lemma sim_close st : Inv st -> sim_ok st CClose.
Proof.
  intros HI. unfold sim_ok. cbn [step spec_step]. unfold do_close, spec_close.
  cbn [abs sp_sel sp_boxes sp_bk].
  destruct (st_sel st) as [s|] eqn:Es; cbn [option_map]; [|trivial_sim HI].
  cbn [abs_sel ss_ro ss_box ss_recent]. destruct HI as (Hb & Hm & Hs).
  destruct (s_ro s) eqn:Ero.
  { cbn. split; [reflexivity|split; [reflexivity|]]. split; [exact Hb|split; [exact Hm|exact I]]. }
  assert (HI : Inv st) by (split; [exact Hb|split; [exact Hm|exact Hs]]).
  destruct (inv_selected st s HI Es) as (b & Hl & Hv & Hp & Hok & Hmd). rewrite Hl.
  rewrite (expunge_dead s b None Hok Hv).
  cbn [fst snd reply sreply]. split; [reflexivity|split; [reflexivity|]].
  split; [|split]; unfold set_sel; cbn [st_boxes st_bk st_sel].
  - apply Forall_set_box; [exact Hb|]. apply box_ok_filter, Hok.
  - intros Hk. apply (maildir_ok_set_box _ _ b); [apply Hm, Hk|exact Hl|reflexivity|].
    cbn [b_msgs set_msgs]. destruct (Hmd Hk) as [_ HF]. rewrite Forall_forall in *.
    intros m Hi. apply filter_In in Hi. apply HF, Hi.
  - exact I.
Qed.

(* ----------------------------------------------------------------- APPEND *)
Lemma memN_add_recent x u l : memN x (add_recent u l) = memN x l || (x =? u).
Proof.
  unfold add_recent. destruct (memN u l) eqn:E.
  - destruct (x =? u) eqn:Ex; [apply N.eqb_eq in Ex; subst; rewrite E; reflexivity|apply eq_sym, orb_false_r].
  - rewrite memN_app. cbn [memN existsb]. rewrite orb_false_r. reflexivity.
Qed.

Lemma memN_fold_add_recent x us : forall l,
  memN x (fold_left (fun r u => add_recent u r) us l) = memN x l || memN x us.
Proof.
  induction us as [|u r IH]; intros l; cbn [fold_left].
  - cbn [memN existsb]. rewrite orb_false_r. reflexivity.
  - rewrite IH, memN_add_recent. cbn [memN existsb]. fold (memN x r). rewrite orb_assoc. reflexivity.
Qed.

Lemma box_ok_add b fl d c rc : box_ok b -> box_ok (fst (mb_add b fl d c rc)).
Proof.
  intros [H1 H2]. unfold mb_add. cbn [fst]. split; cbn [b_msgs b_maxuid]; rewrite uids_of_app; cbn [uids_of map m_uid].
  - apply asc_app_one; [exact H1|]. eapply Forall_impl; [|exact H2]. cbn. intros; lia.
  - apply Forall_app. split.
    + eapply Forall_impl; [|exact H2]. cbn. intros; lia.
    + repeat constructor; lia.
Qed.

Lemma box_ok_delivered bk ds cs : forall d, box_ok d -> box_ok (delivered bk d ds cs).
Proof.
  induction cs as [|c r IH]; intros d Hd.
  - unfold delivered. cbn [copies_from length]. rewrite app_nil_r, N.add_0_r.
    destruct d; exact Hd.
  - rewrite <- delivered_cons. apply IH, box_ok_add, Hd.
Qed.

Lemma uids_le_maxuid b m : box_ok b -> In m (b_msgs b) -> 0 < m_uid m <= b_maxuid b.
Proof. intros [_ H] Hm. rewrite Forall_forall in H. apply H, in_map, Hm. Qed.

Lemma fresh_uid b u : box_ok b -> b_maxuid b < u -> ~ In u (uids_of (b_msgs b)).
Proof.
  intros [_ H] Hu Hi. rewrite Forall_forall in H. specialize (H u Hi). lia.
Qed.

Lemma filter_true {A} (l : list A) : filter (fun _ => true) l = l.
Proof. apply filter_all. reflexivity. Qed.

Lemma expunge_lines_none l : expunge_lines l (fun _ _ => negb true) = [].
Proof. unfold expunge_lines. rewrite filter_none by reflexivity. reflexivity. Qed.

(* ------------------------------------------------------------- COPY, MOVE *)
Lemma selected_In {A} (P : N * A -> bool) k l c :
  In c (map snd (filter P (enum_from k l))) -> In c l.
Proof.
  intros H. apply in_map_iff in H. destruct H as ([q x] & <- & H). apply filter_In in H.
  exact (enum_from_In_snd _ _ _ _ (proj1 H)).
Qed.

Lemma selected_NoDup (P : N * msg -> bool) l : forall k,
  NoDup (uids_of l) -> NoDup (uids_of (map snd (filter P (enum_from k l)))).
Proof.
  unfold uids_of. induction l as [|x r IH]; intros k Hnd; cbn [enum_from filter map]; [constructor|].
  cbn [map] in Hnd. inversion Hnd as [|? ? Hx Hr]; subst.
  destruct (P (k, x)); cbn [map snd]; [|apply IH; exact Hr]. constructor; [|apply IH; exact Hr].
  intros Hi. apply Hx. apply in_map_iff in Hi. destruct Hi as (c & <- & Hc). apply in_map.
  exact (selected_In P (k + 1) r c Hc).
Qed.

Lemma combine_fst {A B} (a : list A) (b : list B) : length a = length b -> map fst (combine a b) = a.
Proof.
  revert b. induction a as [|x r IH]; intros [|y t] H; cbn in *; try discriminate; [reflexivity|].
  f_equal. apply IH. lia.
Qed.
Lemma combine_snd {A B} (a : list A) (b : list B) : length a = length b -> map snd (combine a b) = b.
Proof.
  revert b. induction a as [|x r IH]; intros [|y t] H; cbn in *; try discriminate; [reflexivity|].
  f_equal. apply IH. lia.
Qed.

Lemma copy_code_spec cs new : length new = length cs ->
  copy_code (combine (uids_of cs) (uids_of new)) = scopy_code cs new.
Proof.
  intros Hlen. destruct cs as [|c r]; [reflexivity|]. destruct new as [|n t]; [discriminate|].
  cbn [uids_of map combine copy_code scopy_code]. cbn [map fst snd].
  unfold uids_of. cbn [length] in Hlen.
  rewrite combine_fst, combine_snd by (rewrite !map_length; lia). reflexivity.
Qed.

Lemma copies_fresh bk P b' u rc cs m : box_ok b' -> b_maxuid b' < u ->
  In m (copies_from bk P u rc cs) -> ~ In (m_uid m) (uids_of (b_msgs b')).
Proof.
  intros Hok Hu Hm. apply copies_uids_gt in Hm. apply (fresh_uid b' _ Hok). lia.
Qed.

Lemma copies_flags bk P u rc cs : bk = Maildir ->
  Forall (fun m => subset (m_flags m) P = true) (copies_from bk P u rc cs).
Proof.
  intros Hk. revert u. induction cs as [|c r IH]; intros u; cbn [copies_from]; [constructor|].
  constructor; [cbn [m_flags]; apply storable_sub, Hk|apply IH].
Qed.

Lemma sim_copy st uid ss dest : Inv st -> sim_ok st (CCopy uid ss dest).
Proof.
  intros HI. unfold sim_ok. cbn [step spec_step]. unfold do_copy, spec_copy.
  cbn [abs sp_sel sp_boxes sp_bk].
  destruct (st_sel st) as [s|] eqn:Es; cbn [option_map]; [|trivial_sim HI].
  cbn [abs_sel ss_ro ss_box ss_recent].
  destruct (inv_selected st s HI Es) as (b & Hl & Hv & Hp & Hok & Hmd). rewrite Hl.
  destruct (lookup dest (st_boxes st)) as [d|] eqn:Ed; [|trivial_sim HI].
  destruct (b_ro d) eqn:Ero; [trivial_sim HI|].
  pose proof (box_ok_NoDup b Hok) as Hnd.
  rewrite Hv, get_all_spec by apply Hok.
  set (pairs := filter (fun qm => addressed uid ss (b_msgs b) (fst qm) (snd qm)) (enumerate (b_msgs b))).
  assert (Ecs : selected_msgs uid ss (b_msgs b) = map snd pairs) by reflexivity.
  rewrite Ecs. set (cs := map snd pairs).
  assert (Hcs : forall c, In c cs -> In c (b_msgs b)) by (intros c Hc; exact (selected_In _ _ _ c Hc)).
  assert (Eds : sdest_selected (abs st) dest = dest_selected st dest).
  { unfold sdest_selected, dest_selected, abs. cbn [sp_sel]. rewrite Es. reflexivity. }
  set (ds := dest_selected st dest).
  rewrite (copy_loop_copy (st_bk st) (s_box s) dest ds pairs (st_boxes st) (s_recent s) d Ed).
  2:{ intros c Hc. exists b. split; [exact Hl|]. apply find_msg_In; [exact Hnd|apply Hcs, Hc]. }
  unfold deliver. rewrite Eds. fold ds. cbn [sp_boxes sp_bk abs ss_recent abs_sel].
  fold cs.
  set (new := copies_from (st_bk st) (b_perm d) (b_maxuid d + 1) (negb ds) cs).
  set (rec := if ds then fold_left (fun r u => add_recent u r) (uids_of new) (s_recent s) else s_recent s).
  change (mkBox (b_msgs d ++ new) (b_maxuid d + N.of_nat (length cs)) (b_ro d) (b_perm d) (b_uidv d))
    with (delivered (st_bk st) d ds cs).
  rewrite copy_code_spec by apply copies_length.
  destruct HI as (Hb & Hm & _).
  pose proof (Forall_lookup box_ok _ _ _ Hb Ed) as Hokd.
  assert (Hboxes : Forall (fun nb => box_ok (snd nb)) (set_box dest (delivered (st_bk st) d ds cs) (st_boxes st)))
    by (apply Forall_set_box; [exact Hb|apply box_ok_delivered, Hokd]).
  assert (Hmd' : st_bk st = Maildir -> maildir_ok (set_box dest (delivered (st_bk st) d ds cs) (st_boxes st))).
  { intros Hk. apply (maildir_ok_set_box _ _ d); [apply Hm, Hk|exact Ed|reflexivity|].
    cbn [delivered b_msgs]. destruct (maildir_flags _ _ _ (Hm Hk) Ed) as [_ HF].
    apply Forall_app. split; [exact HF|]. apply copies_flags, Hk. }
  destruct (s_box s =? dest) eqn:Ebox.
  - (* into the selected mailbox itself *)
    apply N.eqb_eq in Ebox. subst dest. rewrite Hl in Ed. inversion Ed; subst d.
    rewrite lookup_set_box_same, Hl.
    assert (Hfin := finish_remove_add (delivered (st_bk st) b ds cs) s (fun _ => true) new rec uid []).
    rewrite Hv in Hfin. specialize (Hfin Hnd). rewrite filter_true in Hfin. specialize (Hfin eq_refl).
    assert (Hlt : b_maxuid b < b_maxuid b + 1) by lia.
    specialize (Hfin (fun x Hx => copies_fresh _ _ b _ _ _ x Hok Hlt Hx)).
    assert (Hr : forall x, In x (b_msgs b) -> true = true -> memN (m_uid x) rec = true ->
                           memN (m_uid x) (s_recent s) = true).
    { intros x Hx _. unfold rec. destruct ds; [|auto]. rewrite memN_fold_add_recent.
      replace (memN (m_uid x) (uids_of new)) with false; [rewrite orb_false_r; auto|].
      symmetry. apply memN_false. intros Hi. unfold uids_of in Hi. apply in_map_iff in Hi.
      destruct Hi as (n & En & Hn). apply (copies_fresh _ _ b _ _ _ n Hok Hlt Hn).
      rewrite En. apply in_map, Hx. }
    specialize (Hfin Hr eq_refl). cbn zeta in Hfin.
    rewrite finish_rec_keep in Hfin.
    2:{ intros x Hx. cbn [delivered b_msgs]. rewrite uids_of_app. apply in_or_app. left. exact Hx. }
    rewrite Hfin. clear Hfin. rewrite expunge_lines_none. cbn [app fst snd delivered b_msgs].
    fold new. split; [reflexivity|split; [reflexivity|]].
    split; [exact Hboxes|split; [exact Hmd'|]]. unfold set_sel. cbn [st_sel st_boxes].
    exists (delivered (st_bk st) b ds cs). cbn [s_box s_view s_perm].
    rewrite lookup_set_box_same, Hl. repeat split. exact Hp.
  - (* into another mailbox *)
    apply N.eqb_neq in Ebox. rewrite lookup_set_box_other by congruence. rewrite Hl.
    assert (Eds' : ds = false).
    { unfold ds, dest_selected. rewrite Es. apply andb_false_iff. right. apply N.eqb_neq, Ebox. }
    clearbody ds. subst ds. unfold rec. cbn [negb] in *.
    assert (Hfin := finish_remove_add b s (fun _ => true) [] (s_recent s) uid []).
    rewrite Hv in Hfin. specialize (Hfin Hnd). rewrite filter_true, app_nil_r in Hfin.
    specialize (Hfin eq_refl (fun x H => match H with end) (fun x _ _ H => H) eq_refl).
    cbn zeta in Hfin. rewrite finish_rec_keep in Hfin by auto.
    rewrite Hfin. clear Hfin. rewrite expunge_lines_none, arrivals_none. cbn [app].
    unfold recent_line. rewrite N.eqb_refl. cbn [fst snd].
    split; [reflexivity|split].
    + unfold abs, set_sel, sset. cbn [st_bk st_boxes st_sel option_map abs_sel s_box s_ro s_recent].
      reflexivity.
    + split; [exact Hboxes|split; [exact Hmd'|]]. unfold set_sel. cbn [st_sel st_boxes].
      exists b. cbn [s_box s_view s_perm]. rewrite lookup_set_box_other by congruence.
      repeat split; assumption.
Qed.

Lemma without_keep cs l :
  without cs l = filter (fun m => negb (memN (m_uid m) (uids_of cs))) l.
Proof. reflexivity. Qed.

(* UIDs of the session's \Recent set that go away with the moved messages *)
Lemma moved_recent l cs new u : NoDup (uids_of l) ->
  (forall c, In c cs -> In c l) ->
  (forall n, In n new -> ~ In (m_uid n) (uids_of l)) ->
  memN u (uids_of l) && negb (memN u (uids_of (without cs l ++ new)))
  = memN u (uids_of cs).
Proof.
  intros Hnd Hcs Hnew. rewrite uids_of_app, memN_app.
  destruct (memN u (uids_of l)) eqn:Eu; cbn [andb].
  - apply memN_In in Eu. unfold uids_of in Eu. apply in_map_iff in Eu. destruct Eu as (m & <- & Hm).
    rewrite without_keep, memN_uids_filter by assumption.
    replace (memN (m_uid m) (uids_of new)) with false.
    2:{ symmetry. apply (memN_uids_new_false l new m Hnew Hm). }
    rewrite orb_false_r, negb_involutive. reflexivity.
  - symmetry. apply memN_false. intros Hi. unfold uids_of in Hi. apply in_map_iff in Hi.
    destruct Hi as (c & <- & Hc). apply memN_false in Eu. apply Eu, in_map, Hcs, Hc.
Qed.

Lemma sim_move st uid ss dest : Inv st -> sim_ok st (CMove uid ss dest).
Proof.
  intros HI. unfold sim_ok. cbn [step spec_step]. unfold do_move, spec_move.
  cbn [abs sp_sel sp_boxes sp_bk].
  destruct (st_sel st) as [s|] eqn:Es; cbn [option_map]; [|trivial_sim HI].
  cbn [abs_sel ss_ro ss_box ss_recent].
  destruct (s_ro s) eqn:Esro; [trivial_sim HI|].
  destruct (inv_selected st s HI Es) as (b & Hl & Hv & Hp & Hok & Hmd). rewrite Hl.
  destruct (lookup dest (st_boxes st)) as [d|] eqn:Ed; [|trivial_sim HI].
  destruct (b_ro d) eqn:Ero; [trivial_sim HI|].
  pose proof (box_ok_NoDup b Hok) as Hnd.
  rewrite Hv, get_all_spec by apply Hok.
  set (pairs := filter (fun qm => addressed uid ss (b_msgs b) (fst qm) (snd qm)) (enumerate (b_msgs b))).
  assert (Ecs : selected_msgs uid ss (b_msgs b) = map snd pairs) by reflexivity.
  rewrite Ecs. set (cs := map snd pairs).
  assert (Hcs : forall c, In c cs -> In c (b_msgs b)) by (intros c Hc; exact (selected_In _ _ _ c Hc)).
  assert (Eds : sdest_selected (abs st) dest = dest_selected st dest).
  { unfold sdest_selected, dest_selected, abs. cbn [sp_sel]. rewrite Es. reflexivity. }
  set (ds := dest_selected st dest).
  destruct HI as (Hb & Hm & _).
  pose proof (Forall_lookup box_ok _ _ _ Hb Ed) as Hokd.
  rewrite (copy_loop_move (st_bk st) (s_box s) dest ds pairs (st_boxes st) (s_recent s) d b Ed Hl).
  2:{ apply selected_NoDup, Hnd. }
  2:{ intros c Hc. apply find_msg_In; [exact Hnd|apply Hcs, Hc]. }
  2:{ intros E c Hc. rewrite E in Hl. rewrite Hl in Ed. inversion Ed; subst d.
      apply (uids_le_maxuid b c Hok), Hcs, Hc. }
  unfold deliver. rewrite Eds. fold ds. cbn [sp_boxes sp_bk abs ss_recent abs_sel]. fold cs.
  set (new := copies_from (st_bk st) (b_perm d) (b_maxuid d + 1) (negb ds) cs).
  set (rec := if ds then fold_left (fun r u => add_recent u r) (uids_of new) (s_recent s) else s_recent s).
  change (mkBox (b_msgs d ++ new) (b_maxuid d + N.of_nat (length cs)) (b_ro d) (b_perm d) (b_uidv d))
    with (delivered (st_bk st) d ds cs).
  rewrite copy_code_spec by apply copies_length.
  set (bs1 := set_box dest (delivered (st_bk st) d ds cs) (st_boxes st)).
  assert (Hboxes1 : Forall (fun nb => box_ok (snd nb)) bs1)
    by (apply Forall_set_box; [exact Hb|apply box_ok_delivered, Hokd]).
  assert (Hmd1 : st_bk st = Maildir -> maildir_ok bs1).
  { intros Hk. apply (maildir_ok_set_box _ _ d); [apply Hm, Hk|exact Ed|reflexivity|].
    cbn [delivered b_msgs]. destruct (maildir_flags _ _ _ (Hm Hk) Ed) as [_ HF].
    apply Forall_app. split; [exact HF|]. apply copies_flags, Hk. }
  (* the source mailbox after the copies were delivered *)
  assert (Hb1 : exists b1 new1, lookup (s_box s) bs1 = Some b1 /\ b_msgs b1 = b_msgs b ++ new1 /\
                 (forall n, In n new1 -> ~ In (m_uid n) (uids_of (b_msgs b))) /\
                 b_perm b1 = b_perm b /\
                 (if s_box s =? dest then new1 = new else new1 = [])).
  { destruct (s_box s =? dest) eqn:Ebox.
    - apply N.eqb_eq in Ebox. exists (delivered (st_bk st) d ds cs), new. unfold bs1. subst dest.
      rewrite Hl in Ed. inversion Ed; subst d. rewrite lookup_set_box_same, Hl.
      repeat split. intros n Hn.
      apply (copies_fresh (st_bk st) (b_perm b) b (b_maxuid b + 1) (negb ds) cs n Hok); [lia|exact Hn].
    - apply N.eqb_neq in Ebox. exists b, []. unfold bs1. rewrite lookup_set_box_other by congruence.
      rewrite app_nil_r. repeat split; auto; try (intros n []). }
  destruct Hb1 as (b1 & new1 & Hl1 & Hm1 & Hfresh1 & Hp1 & Hnew1).
  unfold moved_out. fold bs1. rewrite Hl1. rewrite lookup_set_box_same, Hl1.
  set (keep := fun m : msg => negb (memN (m_uid m) (uids_of cs))).
  set (b2 := set_msgs b1 (without cs (b_msgs b1))).
  assert (Hm2 : b_msgs b2 = filter keep (b_msgs b) ++ new1).
  { cbn [b2 b_msgs set_msgs]. rewrite Hm1, without_app. f_equal. apply without_fresh.
    intros n Hn Hi. apply (Hfresh1 n Hn). unfold uids_of in Hi. apply in_map_iff in Hi.
    destruct Hi as (c & Ec & Hc). rewrite <- Ec. apply in_map, Hcs, Hc. }
  assert (Hfin := finish_remove_add b2 s keep new1 rec uid [UMoved (scopy_code cs new)]).
  rewrite Hv in Hfin. specialize (Hfin Hnd Hm2 Hfresh1).
  assert (Hds : ds = true -> d = b).
  { unfold ds, dest_selected. rewrite Es. intros H. apply andb_true_iff in H. destruct H as [_ H].
    apply N.eqb_eq in H. rewrite H in Hl. rewrite Hl in Ed. inversion Ed. reflexivity. }
  assert (Hr : forall x, In x (b_msgs b) -> keep x = true -> memN (m_uid x) rec = true ->
                         memN (m_uid x) (s_recent s) = true).
  { intros x Hx _. unfold rec. destruct ds eqn:Edsv; [|auto]. rewrite memN_fold_add_recent.
    replace (memN (m_uid x) (uids_of new)) with false; [rewrite orb_false_r; auto|].
    symmetry. apply memN_false. intros Hi. unfold uids_of in Hi. apply in_map_iff in Hi.
    destruct Hi as (n & En & Hn). apply copies_uids_gt in Hn. rewrite (Hds eq_refl) in Hn.
    pose proof (uids_le_maxuid b x Hok Hx). lia. }
  specialize (Hfin Hr eq_refl). cbn zeta in Hfin. fold b2. rewrite Hfin. clear Hfin.
  assert (Hrec : filter (fun u => negb (memN u (uids_of (b_msgs b)) && negb (memN u (uids_of (b_msgs b2))))) rec
                 = filter (fun u => negb (memN u (uids_of cs))) rec).
  { apply filter_ext. intros u. rewrite Hm2. f_equal.
    exact (moved_recent (b_msgs b) cs new1 u Hnd Hcs Hfresh1). }
  rewrite Hrec. clear Hrec.
  set (rec2 := filter (fun u => negb (memN u (uids_of cs))) rec).
  pose proof (Forall_lookup box_ok _ _ _ Hboxes1 Hl1) as Hok1.
  split; [|split]; cbn [fst snd].
  - (* responses *)
    f_equal. cbn [app]. f_equal. f_equal.
    + apply expunge_lines_ext. intros q m _. unfold keep. apply negb_involutive.
    + destruct (s_box s =? dest) eqn:Ebox.
      * reflexivity.
      * subst new1. rewrite app_nil_r in Hm1. cbn [b2 b_msgs set_msgs]. rewrite Hm1.
        exact (arrivals_none _ _ _ (filter keep (b_msgs b)) uid).
  - unfold abs, set_sel, sset. cbn [st_bk st_boxes st_sel option_map abs_sel s_box s_ro s_recent].
    rewrite Esro. reflexivity.
  - split; [|split]; unfold set_sel; cbn [st_boxes st_bk st_sel].
    + apply Forall_set_box; [exact Hboxes1|]. apply box_ok_filter, Hok1.
    + intros Hk. apply (maildir_ok_set_box _ _ b1); [apply Hmd1, Hk|exact Hl1|reflexivity|].
      cbn [b2 b_msgs set_msgs]. destruct (maildir_flags _ _ _ (Hmd1 Hk) Hl1) as [_ HF].
      rewrite Forall_forall in *. intros m Hi. apply filter_In in Hi. apply HF, Hi.
    + exists b2. cbn [s_box s_view s_perm]. rewrite lookup_set_box_same, Hl1. repeat split.
      cbn [b2 b_perm set_msgs]. rewrite Hp1. exact Hp.
Qed.

(* ------------------------------------------------------- APPEND, MULTIAPPEND *)
Definition as_msgs (msgs : list amsg) : list msg :=
  map (fun a => mkMsg 0 (diff (am_flags a) [FRecent]) (am_date a) (am_cid a) false) msgs.

Lemma new_msgs_copies bk perm rc msgs : forall u,
  new_msgs bk perm u rc msgs = copies_from bk perm u rc (as_msgs msgs).
Proof. induction msgs as [|a r IH]; intros u; cbn; [reflexivity|]. rewrite IH. reflexivity. Qed.

Lemma before_failure_all msgs : existsb am_fail msgs = false -> before_failure msgs = msgs.
Proof.
  induction msgs as [|a r IH]; cbn; [reflexivity|]. destruct (am_fail a); [discriminate|].
  cbn. intros H. rewrite IH by exact H. reflexivity.
Qed.

(* the loop stores the messages before the first failing one *)
Lemma append_loop_spec bk ds : forall msgs b rec,
  append_loop bk ds b rec msgs =
  (delivered bk b ds (as_msgs (before_failure msgs)),
   (if ds then fold_left (fun r u => add_recent u r)
                         (uids_of (copies_from bk (b_perm b) (b_maxuid b + 1) (negb ds)
                                               (as_msgs (before_failure msgs)))) rec
    else rec),
   uids_of (copies_from bk (b_perm b) (b_maxuid b + 1) (negb ds) (as_msgs (before_failure msgs))),
   existsb am_fail msgs).
Proof.
  induction msgs as [|a r IH]; intros b rec; cbn [append_loop before_failure existsb].
  - unfold delivered. cbn [as_msgs map copies_from length uids_of]. rewrite app_nil_r, N.add_0_r.
    replace (mkBox (b_msgs b) (b_maxuid b) (b_ro b) (b_perm b) (b_uidv b)) with b by (destruct b; reflexivity).
    destruct ds; reflexivity.
  - destruct (am_fail a) eqn:Ef; cbn [orb].
    + unfold delivered. cbn [as_msgs map copies_from length uids_of]. rewrite app_nil_r, N.add_0_r.
      replace (mkBox (b_msgs b) (b_maxuid b) (b_ro b) (b_perm b) (b_uidv b)) with b by (destruct b; reflexivity).
      destruct ds; reflexivity.
    + cbn [mb_add]. rewrite IH. cbn [as_msgs map]. fold (as_msgs (before_failure r)).
      set (c := mkMsg 0 (diff (am_flags a) [FRecent]) (am_date a) (am_cid a) false).
      change (mkBox (b_msgs b ++ [mkMsg (b_maxuid b + 1) (storable bk (b_perm b) (diff (am_flags a) [FRecent]))
                                         (am_date a) (am_cid a) (negb ds)])
                    (b_maxuid b + 1) (b_ro b) (b_perm b) (b_uidv b))
        with (fst (mb_add b (storable bk (b_perm b) (m_flags c)) (m_date c) (m_cid c) (negb ds))).
      rewrite delivered_cons.
      cbn [mb_add fst b_maxuid b_perm copies_from uids_of map fold_left].
      destruct ds; reflexivity.
Qed.

Lemma delivered_then_deleted bk b ds cs : box_ok b ->
  mb_delete (delivered bk b ds cs)
            (uids_of (copies_from bk (b_perm b) (b_maxuid b + 1) (negb ds) cs))
  = mkBox (b_msgs b) (b_maxuid b + N.of_nat (length cs)) (b_ro b) (b_perm b) (b_uidv b).
Proof.
  intros Hok. unfold mb_delete, delivered, set_msgs. cbn [b_msgs b_maxuid b_ro b_perm b_uidv]. f_equal.
  rewrite filter_app. rewrite filter_all, filter_none; [apply app_nil_r| |].
  - intros m Hm. apply negb_false_iff, memN_In, in_map, Hm.
  - intros m Hm. apply negb_true_iff, memN_false. intros Hi. unfold uids_of in Hi.
    apply in_map_iff in Hi. destruct Hi as (n & En & Hn). apply copies_uids_gt in Hn.
    pose proof (uids_le_maxuid b m Hok Hm). lia.
Qed.

Lemma as_msgs_length msgs : length (as_msgs msgs) = length msgs.
Proof. apply map_length. Qed.

Lemma sim_append st box msgs : Inv st -> sim_ok st (CAppend box msgs).
Proof.
  intros HI. unfold sim_ok. cbn [step spec_step]. unfold do_append, spec_append.
  cbn [abs sp_sel sp_boxes sp_bk].
  destruct (lookup box (st_boxes st)) as [b|] eqn:El; [|trivial_sim HI].
  destruct (b_ro b) eqn:Ero; [trivial_sim HI|].
  assert (Eds : sdest_selected (abs st) box = dest_selected st box).
  { unfold sdest_selected, dest_selected, abs. cbn [sp_sel]. destruct (st_sel st); reflexivity. }
  rewrite Eds. set (ds := dest_selected st box).
  rewrite append_loop_spec. cbn iota beta.
  destruct HI as (Hb & Hm & Hs).
  pose proof (Forall_lookup box_ok _ _ _ Hb El) as Hok.
  destruct (existsb am_fail msgs) eqn:Efail.
  - (* a message made the backend raise: nothing stays, the connection ends *)
    rewrite delivered_then_deleted by exact Hok. rewrite as_msgs_length, Ero.
    cbn [fst snd]. split; [reflexivity|split; [reflexivity|]].
    split; [|split]; unfold set_sel; cbn [st_boxes st_bk st_sel].
    + apply Forall_set_box; [exact Hb|]. destruct Hok as [H1 H2]. split; cbn [b_msgs b_maxuid]; [exact H1|].
      eapply Forall_impl; [|exact H2]. cbn. intros; lia.
    + intros Hk. apply (maildir_ok_set_box _ _ b); [apply Hm, Hk|exact El|reflexivity|].
      cbn [b_msgs]. apply (maildir_flags _ _ _ (Hm Hk) El).
    + exact I.
  - rewrite (before_failure_all msgs Efail).
    rewrite !new_msgs_copies.
    set (cs := as_msgs msgs).
    set (new := copies_from (st_bk st) (b_perm b) (b_maxuid b + 1) (negb ds) cs).
    assert (Eb' : mkBox (b_msgs b ++ new) (b_maxuid b + N.of_nat (length msgs)) (b_ro b) (b_perm b) (b_uidv b)
                  = delivered (st_bk st) b ds cs).
    { unfold delivered. fold new. unfold cs. rewrite as_msgs_length. reflexivity. }
    rewrite Ero in Eb'. rewrite Eb'. clear Eb'.
    set (b' := delivered (st_bk st) b ds cs).
    assert (Hok' : box_ok b') by (apply box_ok_delivered, Hok).
    assert (Hboxes : Forall (fun nb => box_ok (snd nb)) (set_box box b' (st_boxes st)))
      by (apply Forall_set_box; assumption).
    assert (Hmd' : st_bk st = Maildir -> maildir_ok (set_box box b' (st_boxes st))).
    { intros Hk. apply (maildir_ok_set_box _ _ b); [apply Hm, Hk|exact El|reflexivity|].
      cbn [b' delivered b_msgs]. destruct (maildir_flags _ _ _ (Hm Hk) El) as [_ HF].
      apply Forall_app. split; [exact HF|]. apply copies_flags, Hk. }
    destruct (st_sel st) as [s|] eqn:Es; cbn [option_map].
    2:{ cbn [fst snd]. split; [reflexivity|split; [reflexivity|]].
        split; [exact Hboxes|split; [exact Hmd'|exact I]]. }
    cbn [abs_sel ss_box ss_ro ss_recent].
    destruct Hs as (sb & Hls & Hv & Hp). rewrite Hls.
    set (rec := if ds then fold_left (fun r u => add_recent u r) (uids_of new) (s_recent s) else s_recent s).
    destruct (s_box s =? box) eqn:Ebox.
    + (* delivered into the selected mailbox *)
      apply N.eqb_eq in Ebox. subst box. rewrite El in Hls. inversion Hls; subst sb.
      rewrite lookup_set_box_same, El.
      assert (Hlt : b_maxuid b < b_maxuid b + 1) by lia.
      assert (Hfin := finish_remove_add b' s (fun _ => true) new rec false []).
      rewrite Hv in Hfin. specialize (Hfin (box_ok_NoDup b Hok)).
      rewrite filter_true in Hfin. specialize (Hfin eq_refl).
      specialize (Hfin (fun x Hx => copies_fresh _ _ b _ _ _ x Hok Hlt Hx)).
      assert (Hr : forall x, In x (b_msgs b) -> true = true -> memN (m_uid x) rec = true ->
                             memN (m_uid x) (s_recent s) = true).
      { intros x Hx _. unfold rec. destruct ds; [|auto]. rewrite memN_fold_add_recent.
        replace (memN (m_uid x) (uids_of new)) with false; [rewrite orb_false_r; auto|].
        symmetry. apply memN_false. intros Hi. unfold uids_of in Hi. apply in_map_iff in Hi.
        destruct Hi as (n & En & Hn). apply (copies_fresh _ _ b _ _ _ n Hok Hlt Hn).
        rewrite En. apply in_map, Hx. }
      specialize (Hfin Hr eq_refl). cbn zeta in Hfin.
      rewrite finish_rec_keep in Hfin.
      2:{ intros x Hx. cbn [b' delivered b_msgs]. rewrite uids_of_app. apply in_or_app. left. exact Hx. }
      rewrite Hfin. clear Hfin. rewrite expunge_lines_none. cbn [app fst snd b' delivered b_msgs].
      fold new. split; [reflexivity|split; [reflexivity|]].
      split; [exact Hboxes|split; [exact Hmd'|]]. unfold set_sel. cbn [st_sel st_boxes].
      exists b'. cbn [s_box s_view s_perm]. rewrite lookup_set_box_same, El. repeat split. exact Hp.
    + (* delivered elsewhere: the selection sees nothing *)
      apply N.eqb_neq in Ebox. rewrite lookup_set_box_other by congruence. rewrite Hls.
      assert (Eds' : ds = false).
      { unfold ds, dest_selected. rewrite Es. apply andb_false_iff. right. apply N.eqb_neq, Ebox. }
      clearbody ds. subst ds. unfold rec. cbn [negb] in *.
      pose proof (Forall_lookup box_ok _ _ _ Hb Hls) as Hoks.
      assert (Hfin := finish_remove_add sb s (fun _ => true) [] (s_recent s) false []).
      rewrite Hv in Hfin. specialize (Hfin (box_ok_NoDup sb Hoks)).
      rewrite filter_true, app_nil_r in Hfin.
      specialize (Hfin eq_refl (fun x H => match H with end) (fun x _ _ H => H) eq_refl).
      cbn zeta in Hfin. rewrite finish_rec_keep in Hfin by auto.
      rewrite Hfin. clear Hfin. rewrite expunge_lines_none, arrivals_none. cbn [app].
      unfold recent_line. rewrite N.eqb_refl. cbn [fst snd].
      split; [reflexivity|split].
      * unfold abs, set_sel, sset. cbn [st_bk st_boxes st_sel option_map abs_sel s_box s_ro s_recent].
        reflexivity.
      * split; [exact Hboxes|split; [exact Hmd'|]]. unfold set_sel. cbn [st_sel st_boxes].
        exists sb. cbn [s_box s_view s_perm]. rewrite lookup_set_box_other by congruence.
        repeat split; assumption.
Qed.
