(* RefModel/SimNew.v — simulation lemmas for NOOP, CHECK, STATUS, SEARCH,
   CREATE, DELETE, RENAME (model step = plain spec step under Inv). *)
From Coq Require Import Sorting.Sorted.
From PV Require Import Base.Prelude Wire.SeqSet RefModel.Flags RefModel.Model RefModel.Spec
  RefModel.BoxLemmas RefModel.AddrProofs RefModel.CompareProofs RefModel.LoopProofs
  RefModel.SimBase RefModel.SimStore RefModel.SimOther.
Local Open Scope N_scope.

(* resynchronising a session that is in sync reports nothing *)
Lemma finish_same b s wu pre :
  s_view s = b_msgs b -> NoDup (uids_of (b_msgs b)) -> fetch_seqs pre = [] ->
  finish b s (s_recent s) [] wu pre =
  (mkSel (s_box s) (s_ro s) (s_perm s) (b_msgs b) (s_recent s), pre).
Proof.
  intros Hv Hnd Hpre.
  assert (Hfin := finish_remove_add b s (fun _ => true) [] (s_recent s) wu pre).
  rewrite Hv in Hfin. specialize (Hfin Hnd). rewrite filter_true, app_nil_r in Hfin.
  specialize (Hfin eq_refl (fun x H => match H with end) (fun x _ _ H => H) Hpre).
  cbn zeta in Hfin. rewrite finish_rec_keep in Hfin by auto.
  rewrite Hfin. rewrite expunge_lines_none, arrivals_none. cbn [app].
  unfold recent_line. rewrite N.eqb_refl, app_nil_r. reflexivity.
Qed.

Lemma abs_same_sel st s b :
  st_sel st = Some s -> s_view s = b_msgs b ->
  abs (set_sel st (st_boxes st) (Some (mkSel (s_box s) (s_ro s) (s_perm s) (b_msgs b) (s_recent s))))
  = abs st.
Proof. intros Es Hv. unfold abs, set_sel. cbn. rewrite Es. reflexivity. Qed.

Lemma inv_same_sel st s b :
  Inv st -> st_sel st = Some s -> lookup (s_box s) (st_boxes st) = Some b ->
  Inv (set_sel st (st_boxes st) (Some (mkSel (s_box s) (s_ro s) (s_perm s) (b_msgs b) (s_recent s)))).
Proof.
  intros (Hb & Hm & Hs) Es Hl. rewrite Es in Hs. destruct Hs as (b0 & Hl0 & Hv & Hp).
  rewrite Hl in Hl0. inversion Hl0; subst b0.
  split; [exact Hb|split; [exact Hm|]]. unfold set_sel. cbn [st_sel st_boxes].
  exists b. cbn [s_box s_view s_perm]. repeat split; assumption.
Qed.

(* ------------------------------------------------------------ NOOP, CHECK *)
Lemma sim_noop_gen st (ck : bool) : Inv st ->
  snd (do_noop st ck) = snd (spec_noop (abs st) ck) /\
  abs (fst (do_noop st ck)) = fst (spec_noop (abs st) ck) /\ Inv (fst (do_noop st ck)).
Proof.
  intros HI. unfold do_noop, spec_noop. cbn [abs sp_sel sp_boxes].
  destruct (st_sel st) as [s|] eqn:Es; cbn [option_map].
  2:{ destruct ck; cbn; (split; [reflexivity|split; [|exact HI]]); unfold abs; rewrite Es; reflexivity. }
  cbn [abs_sel ss_box].
  destruct (inv_selected st s HI Es) as (b & Hl & Hv & Hp & Hok & Hmd). rewrite Hl.
  rewrite (finish_same b s false [] Hv (box_ok_NoDup b Hok) eq_refl). cbn [fst snd sreply].
  split; [reflexivity|split].
  - apply (abs_same_sel st s b Es Hv).
  - apply (inv_same_sel st s b HI Es Hl).
Qed.
Lemma sim_noop st : Inv st -> sim_ok st CNoop.
Proof. intros HI. exact (sim_noop_gen st false HI). Qed.
Lemma sim_check st : Inv st -> sim_ok st CCheck.
Proof. intros HI. exact (sim_noop_gen st true HI). Qed.

(* ----------------------------------------------------------------- STATUS *)
Lemma sim_status st box : Inv st -> sim_ok st (CStatus box).
Proof.
  intros HI. unfold sim_ok. cbn [step spec_step]. unfold do_status, spec_status.
  cbn [abs sp_sel sp_boxes].
  destruct (lookup box (st_boxes st)) as [b0|] eqn:El; [|trivial_sim HI].
  destruct (st_sel st) as [s|] eqn:Es; cbn [option_map].
  2:{ cbn [fst snd]. split; [reflexivity|split; [|exact HI]]. unfold abs. rewrite Es. reflexivity. }
  cbn [abs_sel ss_box ss_recent].
  destruct (inv_selected st s HI Es) as (b & Hl & Hv & Hp & Hok & Hmd). rewrite Hl.
  rewrite (finish_same b s false [] Hv (box_ok_NoDup b Hok) eq_refl). cbn [fst snd s_recent].
  split; [reflexivity|split].
  - apply (abs_same_sel st s b Es Hv).
  - apply (inv_same_sel st s b HI Es Hl).
Qed.

(* ----------------------------------------------------------------- SEARCH *)
Lemma key_matches_spec l rec q m k : asc (uids_of l) ->
  key_matches l rec q m k = skey_matches l rec q m k.
Proof.
  intros Ha. induction k as [| | |uid ss|a IH|a IHa b IHb]; cbn [key_matches skey_matches];
    try reflexivity.
  - destruct uid; unfold addressed; rewrite memN_seq_iter; [rewrite v_maxuid_max by exact Ha|]; reflexivity.
  - rewrite IH. reflexivity.
  - rewrite IHa, IHb. reflexivity.
Qed.

Lemma forallb_ext_all {A} (f g : A -> bool) l : (forall x, f x = g x) -> forallb f l = forallb g l.
Proof. intros H. induction l as [|x r IH]; cbn; [reflexivity|]. rewrite H, IH. reflexivity. Qed.

Lemma sim_search st uid keys : Inv st -> sim_ok st (CSearch uid keys).
Proof.
  intros HI. unfold sim_ok. cbn [step spec_step]. unfold do_search, spec_search.
  cbn [abs sp_sel sp_boxes].
  destruct (st_sel st) as [s|] eqn:Es; cbn [option_map]; [|trivial_sim HI].
  cbn [abs_sel ss_box ss_recent].
  destruct (inv_selected st s HI Es) as (b & Hl & Hv & Hp & Hok & Hmd). rewrite Hl.
  pose proof (box_ok_NoDup b Hok) as Hnd.
  rewrite Hv. rewrite get_loop_spec; [|exact Hnd|intros [q m] Hq; exact (enum_from_In_snd _ _ _ _ Hq)].
  rewrite filter_map_comm.
  set (hits := filter _ (enumerate (b_msgs b))).
  assert (Hany : any_expunged (map (fun qm : N * msg => (fst qm, snd qm, false)) hits) = false).
  { unfold any_expunged. induction hits as [|x r IH]; cbn; [reflexivity|exact IH]. }
  rewrite Hany, map_map.
  assert (Hsame : forall u, In u (uids_of (s_view s)) -> In u (uids_of (b_msgs b)))
    by (intros u Hu; rewrite <- Hv; exact Hu).
  rewrite (finish_h_same _ _ s _ _ _ _ Hsame).
  match goal with |- context [finish b s (s_recent s) [] uid ?P] =>
    rewrite (finish_same b s uid P Hv Hnd eq_refl) end. cbn [fst snd].
  split; [|split].
  - f_equal. f_equal. f_equal. unfold hits. cbn [fst snd].
    rewrite (filter_ext_in _ (fun qm => forallb (skey_matches (b_msgs b) (s_recent s) (fst qm) (snd qm)) keys)).
    + apply map_ext. intros qm. reflexivity.
    + intros qm _. apply forallb_ext_all. intros k. apply key_matches_spec, Hok.
  - apply (abs_same_sel st s b Es Hv).
  - apply (inv_same_sel st s b HI Es Hl).
Qed.

(* ------------------------------------------------ CREATE, DELETE, RENAME *)
(* a selection that no longer denotes a mailbox (INBOX renamed while selected) *)
Definition InvGone (st : state) : Prop :=
  Forall (fun nb => box_ok (snd nb)) (st_boxes st) /\
  (st_bk st = Maildir -> maildir_ok (st_boxes st)) /\
  exists s, st_sel st = Some s /\ s_box s = GONE /\ lookup GONE (st_boxes st) = None.
Definition InvW (st : state) : Prop := Inv st \/ InvGone st.
(* GONE is not a mailbox name *)
Definition wf_cmd (c : cmd) : Prop :=
  match c with
  | CCreate b _ => b <> GONE
  | CRename _ t _ => t <> GONE
  | _ => True
  end.

Definition sim_okW (st : state) (c : cmd) : Prop :=
  snd (step st c) = snd (spec_step (abs st) c) /\
  abs (fst (step st c)) = fst (spec_step (abs st) c) /\
  InvW (fst (step st c)).
Lemma sim_ok_W st c : sim_ok st c -> sim_okW st c.
Proof. intros (H1 & H2 & H3). split; [exact H1|split; [exact H2|left; exact H3]]. Qed.

Lemma new_box_ok bk uidv : box_ok (new_box bk uidv).
Proof. split; cbn; constructor. Qed.
Lemma new_box_flags bk uidv : flags_in (new_box bk uidv).
Proof. split; [reflexivity|constructor]. Qed.

Lemma Forall_del (P : mbox -> Prop) n bs :
  Forall (fun nb => P (snd nb)) bs -> Forall (fun nb => P (snd nb)) (del_box n bs).
Proof.
  intros H. unfold del_box. apply Forall_forall. intros x Hx. apply filter_In in Hx.
  rewrite Forall_forall in H. apply H, Hx.
Qed.

(* the tail of the three commands: the selection either still finds its mailbox,
   unchanged, or does not find it any more *)
Lemma after_names_sim st bs' :
  Inv st ->
  Forall (fun nb => box_ok (snd nb)) bs' -> (st_bk st = Maildir -> maildir_ok bs') ->
  (forall s, st_sel st = Some s ->
     lookup (s_box s) bs' = lookup (s_box s) (st_boxes st) \/ lookup (s_box s) bs' = None) ->
  snd (after_names st bs') = snd (names_done (abs st) bs') /\
  abs (fst (after_names st bs')) = fst (names_done (abs st) bs') /\
  Inv (fst (after_names st bs')).
Proof.
  intros HI Hb' Hm' Hsel. unfold after_names, names_done, load_updates. cbn [abs sp_sel].
  destruct (st_sel st) as [s|] eqn:Es; cbn [option_map].
  2:{ cbn. split; [reflexivity|split; [reflexivity|]]. split; [exact Hb'|split; [exact Hm'|exact I]]. }
  cbn [abs_sel ss_box].
  destruct (inv_selected st s HI Es) as (b & Hl & Hv & Hp & Hok & Hmd).
  destruct (Hsel s eq_refl) as [E|E]; rewrite E.
  - rewrite Hl. rewrite (finish_same b s false [] Hv (box_ok_NoDup b Hok) eq_refl). cbn [fst snd].
    split; [reflexivity|split].
    + unfold abs, set_sel, sset. cbn. reflexivity.
    + split; [exact Hb'|split; [exact Hm'|]]. unfold set_sel. cbn [st_sel st_boxes].
      exists b. cbn [s_box s_view s_perm]. rewrite E. repeat split; assumption.
  - cbn [fst snd app]. split; [reflexivity|split; [reflexivity|]].
    split; [exact Hb'|split; [exact Hm'|exact I]].
Qed.

Lemma sim_create st box uidv : Inv st -> sim_ok st (CCreate box uidv).
Proof.
  intros HI. unfold sim_ok. cbn [step spec_step]. unfold do_create, spec_create.
  cbn [abs sp_boxes sp_bk].
  destruct (box =? INBOX); [trivial_sim HI|].
  destruct (lookup box (st_boxes st)) as [b0|] eqn:El; [trivial_sim HI|].
  destruct HI as (Hb & Hm & Hs). apply after_names_sim.
  - split; [exact Hb|split; [exact Hm|exact Hs]].
  - apply Forall_app. split; [exact Hb|]. constructor; [apply new_box_ok|constructor].
  - intros Hk. apply Forall_app. split; [exact (Hm Hk)|]. constructor; [apply new_box_flags|constructor].
  - intros s Es. left. rewrite lookup_app. destruct (lookup (s_box s) (st_boxes st)) eqn:E; [reflexivity|].
    exfalso. rewrite Es in Hs. destruct Hs as (b & Hl & _). congruence.
Qed.

Lemma sim_delete st box : Inv st -> sim_ok st (CDelete box).
Proof.
  intros HI. unfold sim_ok. cbn [step spec_step]. unfold do_delete, spec_delete.
  cbn [abs sp_boxes sp_bk].
  destruct (box =? INBOX); [trivial_sim HI|].
  destruct (lookup box (st_boxes st)) as [b0|] eqn:El; [|trivial_sim HI].
  destruct HI as (Hb & Hm & Hs). apply after_names_sim.
  - split; [exact Hb|split; [exact Hm|exact Hs]].
  - apply Forall_del, Hb.
  - intros Hk. apply Forall_del, Hm, Hk.
  - intros s Es. destruct (N.eq_dec (s_box s) box) as [->|Hne].
    + right. apply lookup_del_same.
    + left. apply lookup_del_other, Hne.
Qed.

Lemma inbox_selected_abs st :
  match sp_sel (abs st) with Some s => ss_box s =? INBOX | None => false end = inbox_selected (st_sel st).
Proof. unfold abs. cbn. destruct (st_sel st); reflexivity. Qed.

Ltac trivial_simW HI := cbn; split; [reflexivity|split; [reflexivity|left; exact HI]].

Lemma sim_rename st from to uidv :
  Inv st -> to <> GONE -> lookup GONE (st_boxes st) = None -> sim_okW st (CRename from to uidv).
Proof.
  intros HI Hto HG. unfold sim_okW. cbn [step spec_step]. unfold do_rename, spec_rename.
  cbn [abs sp_boxes sp_bk sp_sel].
  destruct (to =? INBOX); [trivial_simW HI|].
  destruct ((from =? INBOX) && match st_bk st with Maildir => true | Dict => false end) eqn:Ecannot;
    [trivial_simW HI|].
  destruct (lookup from (st_boxes st)) as [b|] eqn:Elf; [|trivial_simW HI].
  destruct (lookup to (st_boxes st)) as [b0|] eqn:Elt; [trivial_simW HI|].
  destruct HI as (Hb & Hm & Hs).
  assert (HI : Inv st) by (split; [exact Hb|split; [exact Hm|exact Hs]]).
  pose proof (Forall_lookup box_ok _ _ _ Hb Elf) as Hokb.
  assert (Hlift : forall bs', snd (after_names st bs') = snd (names_done (abs st) bs') /\
                    abs (fst (after_names st bs')) = fst (names_done (abs st) bs') /\
                    Inv (fst (after_names st bs')) ->
                  snd (after_names st bs') = snd (names_done (abs st) bs') /\
                    abs (fst (after_names st bs')) = fst (names_done (abs st) bs') /\
                    InvW (fst (after_names st bs'))).
  { intros bs' (H1 & H2 & H3). split; [exact H1|split; [exact H2|left; exact H3]]. }
  destruct (from =? INBOX) eqn:Efrom.
  - (* INBOX: its messages move, a new empty INBOX stays *)
    apply N.eqb_eq in Efrom. subst from.
    set (bs' := set_box INBOX (new_box Dict uidv) (st_boxes st) ++ [(to, b)]).
    assert (Hb' : Forall (fun nb => box_ok (snd nb)) bs').
    { apply Forall_app. split; [apply Forall_set_box; [exact Hb|apply new_box_ok]|].
      constructor; [exact Hokb|constructor]. }
    assert (Hm' : st_bk st = Maildir -> maildir_ok bs').
    { intros Hk. apply Forall_app. split; [apply Forall_set_box; [exact (Hm Hk)|apply new_box_flags]|].
      constructor; [exact (Forall_lookup flags_in _ _ _ (Hm Hk) Elf)|constructor]. }
    destruct (st_sel st) as [s|] eqn:Es; cbn [option_map inbox_selected].
    2:{ pose proof (after_names_sim st bs' HI Hb' Hm') as H.
        unfold after_names, names_done, load_updates in *. cbn [abs sp_sel] in *. rewrite Es in *.
        cbn [option_map] in *. apply Hlift, H. intros s0 E0. congruence. }
    cbn [abs_sel ss_box ss_ro ss_recent].
    destruct (s_box s =? INBOX) eqn:Esel.
    + (* ... while selected: the selection is stale from now on *)
      cbn [fst snd unname]. rewrite Esel. split; [reflexivity|split; [reflexivity|]].
      right. split; [exact Hb'|split; [exact Hm'|]]. eexists. unfold set_sel. cbn [st_sel st_boxes].
      split; [reflexivity|]. cbn [s_box]. split; [reflexivity|].
      unfold bs'. rewrite lookup_app.
      rewrite lookup_set_box_other by (unfold GONE, INBOX; lia). rewrite HG.
      cbn [lookup]. destruct (to =? GONE) eqn:E; [apply N.eqb_eq in E; congruence|reflexivity].
    + pose proof (after_names_sim st bs' HI Hb' Hm') as H.
      unfold after_names, names_done, load_updates in *. cbn [abs sp_sel] in *. rewrite Es in *.
      cbn [option_map abs_sel ss_box] in *. apply Hlift, H. intros s0 E0. inversion E0; subst s0.
      left. unfold bs'. rewrite lookup_app. apply N.eqb_neq in Esel.
      rewrite lookup_set_box_other by congruence.
      destruct (lookup (s_box s) (st_boxes st)) eqn:E; [reflexivity|].
      exfalso. destruct Hs as (b1 & Hl & _). congruence.
  - (* another mailbox gets the new name *)
    apply N.eqb_neq in Efrom.
    assert (Hne : to <> from) by (intros ->; congruence).
    apply Hlift, after_names_sim.
    + exact HI.
    + apply Forall_app. split; [apply Forall_del, Hb|constructor; [exact Hokb|constructor]].
    + intros Hk. apply Forall_app. split; [apply Forall_del, Hm, Hk|].
      constructor; [exact (Forall_lookup flags_in _ _ _ (Hm Hk) Elf)|constructor].
    + intros s Es. rewrite lookup_app. destruct (N.eq_dec (s_box s) from) as [E|Hn].
      * right. rewrite E, lookup_del_same. cbn [lookup].
        destruct (to =? from) eqn:E2; [apply N.eqb_eq in E2; congruence|reflexivity].
      * left. rewrite lookup_del_other by exact Hn.
        destruct (lookup (s_box s) (st_boxes st)) eqn:E; [reflexivity|].
        exfalso. rewrite Es in Hs. destruct Hs as (b1 & Hl & _). congruence.
Qed.

(* ------------------------------ commands of a session whose selection is stale *)
Lemma gone_facts st : InvGone st ->
  exists s, st_sel st = Some s /\ s_box s = GONE /\ lookup (s_box s) (st_boxes st) = None /\
            Inv (set_sel st (st_boxes st) None).
Proof.
  intros (Hb & Hm & s & Es & Eg & Hl). exists s. rewrite Eg. repeat split; try assumption.
Qed.

Lemma after_names_gone st bs' s :
  st_sel st = Some s -> lookup (s_box s) bs' = None ->
  Forall (fun nb => box_ok (snd nb)) bs' -> (st_bk st = Maildir -> maildir_ok bs') ->
  snd (after_names st bs') = snd (names_done (abs st) bs') /\
  abs (fst (after_names st bs')) = fst (names_done (abs st) bs') /\
  InvW (fst (after_names st bs')).
Proof.
  intros Es Hl Hb' Hm'. unfold after_names, names_done, load_updates. cbn [abs sp_sel].
  rewrite Es. cbn [option_map abs_sel ss_box]. rewrite Hl. cbn [fst snd app].
  split; [reflexivity|split; [reflexivity|]]. left.
  split; [exact Hb'|split; [exact Hm'|exact I]].
Qed.

Lemma sim_gone st c : InvGone st -> wf_cmd c -> sim_okW st c.
Proof.
  intros HG Hwf. destruct (gone_facts st HG) as (s & Es & Eg & Hl & HI0).
  destruct HG as (Hb & Hm & _).
  assert (Hstay : InvW st).
  { right. split; [exact Hb|split; [exact Hm|]]. exists s. rewrite <- Eg. repeat split; assumption. }
  unfold sim_okW. destruct c; cbn [step spec_step].
  - (* SELECT forgets the old selection *)
    destruct (sim_select (set_sel st (st_boxes st) None) box readonly HI0) as (H1 & H2 & H3).
    split; [exact H1|split; [exact H2|left; exact H3]].
  - (* APPEND: delivered, then BYE *)
    unfold do_append, spec_append. cbn [abs sp_sel sp_boxes sp_bk].
    destruct (lookup box (st_boxes st)) as [b|] eqn:El; [|cbn; split; [reflexivity|split; [reflexivity|exact Hstay]]].
    destruct (b_ro b) eqn:Ero; [cbn; split; [reflexivity|split; [reflexivity|exact Hstay]]|].
    assert (Hne : s_box s <> box) by (intros E; rewrite E in Hl; congruence).
    assert (Eds : sdest_selected (abs st) box = dest_selected st box).
    { unfold sdest_selected, dest_selected, abs. cbn [sp_sel]. destruct (st_sel st); reflexivity. }
    rewrite Eds. set (ds := dest_selected st box).
    rewrite append_loop_spec. cbn iota beta.
    pose proof (Forall_lookup box_ok _ _ _ Hb El) as Hok.
    destruct (existsb am_fail msgs) eqn:Efail.
    + rewrite delivered_then_deleted by exact Hok. rewrite as_msgs_length, Ero.
      cbn [fst snd]. split; [reflexivity|split; [reflexivity|]]. left.
      split; [|split]; unfold set_sel; cbn [st_boxes st_bk st_sel].
      * apply Forall_set_box; [exact Hb|]. destruct Hok as [H1 H2]. split; cbn [b_msgs b_maxuid]; [exact H1|].
        eapply Forall_impl; [|exact H2]. cbn. intros; lia.
      * intros Hk. apply (maildir_ok_set_box _ _ b); [apply Hm, Hk|exact El|reflexivity|].
        cbn [b_msgs]. apply (maildir_flags _ _ _ (Hm Hk) El).
      * exact I.
    + rewrite (before_failure_all msgs Efail). rewrite !new_msgs_copies.
      set (cs := as_msgs msgs).
      set (new := copies_from (st_bk st) (b_perm b) (b_maxuid b + 1) (negb ds) cs).
      assert (Eb' : mkBox (b_msgs b ++ new) (b_maxuid b + N.of_nat (length msgs)) (b_ro b) (b_perm b) (b_uidv b)
                    = delivered (st_bk st) b ds cs).
      { unfold delivered. fold new. unfold cs. rewrite as_msgs_length. reflexivity. }
      rewrite Ero in Eb'. rewrite Eb'. clear Eb'.
      rewrite Es. cbn [option_map abs_sel ss_box].
      rewrite lookup_set_box_other by congruence. rewrite Hl. cbn [fst snd].
      split; [reflexivity|split; [reflexivity|]]. left.
      split; [|split]; unfold set_sel; cbn [st_boxes st_bk st_sel].
      * apply Forall_set_box; [exact Hb|apply box_ok_delivered, Hok].
      * intros Hk. apply (maildir_ok_set_box _ _ b); [apply Hm, Hk|exact El|reflexivity|].
        cbn [delivered b_msgs]. destruct (maildir_flags _ _ _ (Hm Hk) El) as [_ HF].
        apply Forall_app. split; [exact HF|]. apply copies_flags, Hk.
      * exact I.
  - unfold do_store, spec_store. cbn [abs sp_sel sp_boxes]. rewrite Es. cbn [option_map abs_sel ss_ro ss_box].
    destruct (s_ro s); [|rewrite Hl]; cbn; (split; [reflexivity|split; [reflexivity|exact Hstay]]).
  - unfold do_expunge, spec_expunge. cbn [abs sp_sel sp_boxes]. rewrite Es. cbn [option_map abs_sel ss_ro ss_box].
    destruct (s_ro s); [|rewrite Hl]; cbn; (split; [reflexivity|split; [reflexivity|exact Hstay]]).
  - unfold do_copy, spec_copy. cbn [abs sp_sel sp_boxes]. rewrite Es. cbn [option_map abs_sel ss_box].
    rewrite Hl. cbn. split; [reflexivity|split; [reflexivity|exact Hstay]].
  - unfold do_move, spec_move. cbn [abs sp_sel sp_boxes]. rewrite Es. cbn [option_map abs_sel ss_ro ss_box].
    destruct (s_ro s); [|rewrite Hl]; cbn; (split; [reflexivity|split; [reflexivity|exact Hstay]]).
  - unfold do_fetch, spec_fetch. cbn [abs sp_sel sp_boxes]. rewrite Es. cbn [option_map abs_sel ss_box].
    rewrite Hl. cbn. split; [reflexivity|split; [reflexivity|exact Hstay]].
  - (* CLOSE *)
    unfold do_close, spec_close. cbn [abs sp_sel sp_boxes]. rewrite Es. cbn [option_map abs_sel ss_ro ss_box].
    destruct (s_ro s); [|rewrite Hl]; cbn; (split; [reflexivity|split; [reflexivity|left; exact HI0]]).
  - unfold do_noop, spec_noop. cbn [abs sp_sel sp_boxes]. rewrite Es. cbn [option_map abs_sel ss_box].
    rewrite Hl. cbn. split; [reflexivity|split; [reflexivity|exact Hstay]].
  - unfold do_noop, spec_noop. cbn [abs sp_sel sp_boxes]. rewrite Es. cbn [option_map abs_sel ss_box].
    rewrite Hl. cbn. split; [reflexivity|split; [reflexivity|exact Hstay]].
  - (* STATUS: answered, then BYE *)
    unfold do_status, spec_status. cbn [abs sp_sel sp_boxes].
    destruct (lookup box (st_boxes st)) as [b|]; [|cbn; split; [reflexivity|split; [reflexivity|exact Hstay]]].
    rewrite Es. cbn [option_map abs_sel ss_box]. rewrite Hl. cbn [fst snd].
    split; [reflexivity|split; [reflexivity|left; exact HI0]].
  - unfold do_search, spec_search. cbn [abs sp_sel sp_boxes]. rewrite Es. cbn [option_map abs_sel ss_box].
    rewrite Hl. cbn. split; [reflexivity|split; [reflexivity|exact Hstay]].
  - (* CREATE *)
    unfold do_create, spec_create. cbn [abs sp_boxes sp_bk].
    destruct (box =? INBOX); [cbn; split; [reflexivity|split; [reflexivity|exact Hstay]]|].
    destruct (lookup box (st_boxes st)) as [b0|] eqn:El; [cbn; split; [reflexivity|split; [reflexivity|exact Hstay]]|].
    apply (after_names_gone st _ s Es).
    + rewrite lookup_app, Hl. cbn [lookup]. rewrite Eg.
      destruct (box =? GONE) eqn:E; [apply N.eqb_eq in E; cbn in Hwf; congruence|reflexivity].
    + apply Forall_app. split; [exact Hb|]. constructor; [apply new_box_ok|constructor].
    + intros Hk. apply Forall_app. split; [exact (Hm Hk)|]. constructor; [apply new_box_flags|constructor].
  - (* DELETE *)
    unfold do_delete, spec_delete. cbn [abs sp_boxes sp_bk].
    destruct (box =? INBOX); [cbn; split; [reflexivity|split; [reflexivity|exact Hstay]]|].
    destruct (lookup box (st_boxes st)) as [b0|] eqn:El; [|cbn; split; [reflexivity|split; [reflexivity|exact Hstay]]].
    apply (after_names_gone st _ s Es).
    + destruct (N.eq_dec (s_box s) box) as [->|Hn]; [apply lookup_del_same|].
      rewrite lookup_del_other by exact Hn. exact Hl.
    + apply Forall_del, Hb.
    + intros Hk. apply Forall_del, Hm, Hk.
  - (* RENAME *)
    unfold do_rename, spec_rename. cbn [abs sp_boxes sp_bk sp_sel].
    destruct (to =? INBOX); [cbn; split; [reflexivity|split; [reflexivity|exact Hstay]]|].
    destruct ((from =? INBOX) && match st_bk st with Maildir => true | Dict => false end);
      [cbn; split; [reflexivity|split; [reflexivity|exact Hstay]]|].
    destruct (lookup from (st_boxes st)) as [b|] eqn:Elf; [|cbn; split; [reflexivity|split; [reflexivity|exact Hstay]]].
    destruct (lookup to (st_boxes st)) as [b0|] eqn:Elt; [cbn; split; [reflexivity|split; [reflexivity|exact Hstay]]|].
    pose proof (Forall_lookup box_ok _ _ _ Hb Elf) as Hokb.
    assert (Hto : (to =? GONE) = false) by (apply N.eqb_neq; exact Hwf).
    assert (Hsel : (s_box s =? INBOX) = false) by (rewrite Eg; reflexivity).
    destruct (from =? INBOX) eqn:Efrom.
    + apply N.eqb_eq in Efrom. subst from. rewrite Es. cbn [option_map abs_sel ss_box inbox_selected].
      rewrite Hsel. apply (after_names_gone st _ s Es).
      * rewrite lookup_app, Eg. rewrite lookup_set_box_other by (unfold GONE, INBOX; lia).
        rewrite <- Eg, Hl. cbn [lookup]. rewrite Eg, Hto. reflexivity.
      * apply Forall_app. split; [apply Forall_set_box; [exact Hb|apply new_box_ok]|].
        constructor; [exact Hokb|constructor].
      * intros Hk. apply Forall_app. split; [apply Forall_set_box; [exact (Hm Hk)|apply new_box_flags]|].
        constructor; [exact (Forall_lookup flags_in _ _ _ (Hm Hk) Elf)|constructor].
    + apply N.eqb_neq in Efrom. apply (after_names_gone st _ s Es).
      * rewrite lookup_app. assert (Hn : s_box s <> from) by (intros E; rewrite E in Hl; congruence).
        rewrite lookup_del_other by exact Hn. rewrite Hl. cbn [lookup]. rewrite Eg, Hto. reflexivity.
      * apply Forall_app. split; [apply Forall_del, Hb|constructor; [exact Hokb|constructor]].
      * intros Hk. apply Forall_app. split; [apply Forall_del, Hm, Hk|].
        constructor; [exact (Forall_lookup flags_in _ _ _ (Hm Hk) Elf)|constructor].
Qed.
