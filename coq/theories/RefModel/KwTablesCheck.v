(* RefModel/KwTablesCheck.v — case checker for harness/c10_kwtables.py *)
From PV Require Import Base.Prelude RefModel.Flags RefModel.KwTables.
Local Open Scope N_scope.

(* (source table, destination table, letters of the source file name,
    dest.from_maildir(src._dest_flags(letters, dest))) *)
Definition chk_dest_flags (c : table * table * list N * fset) : bool :=
  let '(src, dst, codes, r) := c in
  fset_eqb (from_maildir dst (translate src dst codes)) r
  && fset_eqb (storable Maildir (table_perm dst) (from_maildir src codes)) r.
