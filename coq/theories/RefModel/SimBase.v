(* RefModel/SimBase.v — the invariant linking the session's view to the
   mailbox, and what finish (update_selected + fork) yields for the shapes
   of change commands make. *)
From Coq Require Import Sorting.Sorted.
From PV Require Import Base.Prelude Wire.SeqSet RefModel.Flags RefModel.Model RefModel.Spec
  RefModel.BoxLemmas RefModel.AddrProofs RefModel.CompareProofs RefModel.LoopProofs.
Local Open Scope N_scope.

(* ------------------------------------------------------------- invariant *)
Definition box_ok (b : mbox) : Prop :=
  asc (uids_of (b_msgs b)) /\ Forall (fun u => 0 < u <= b_maxuid b) (uids_of (b_msgs b)).
(* maildir: no wildcard in a folder's flag table, and stored flags all have a
   file-name letter of that folder *)
Definition flags_in (b : mbox) : Prop :=
  mem FWild (b_perm b) = false /\
  Forall (fun m => subset (m_flags m) (b_perm b) = true) (b_msgs b).
Definition maildir_ok (bs : boxes) : Prop := Forall (fun nb => flags_in (snd nb)) bs.
Definition sel_ok (bs : boxes) (s : sel) : Prop :=
  exists b, lookup (s_box s) bs = Some b /\ s_view s = b_msgs b /\
            s_perm s = perm_defined (b_perm b).
Definition Inv (st : state) : Prop :=
  Forall (fun nb => box_ok (snd nb)) (st_boxes st) /\
  (st_bk st = Maildir -> maildir_ok (st_boxes st)) /\
  match st_sel st with None => True | Some s => sel_ok (st_boxes st) s end.

Lemma Forall_set_box (P : mbox -> Prop) n b bs :
  Forall (fun nb => P (snd nb)) bs -> P b -> Forall (fun nb => P (snd nb)) (set_box n b bs).
Proof.
  intros H Hb. induction H as [|[k b0] r Hx Hr IH]; cbn [set_box]; [constructor|].
  destruct (k =? n); constructor; auto.
Qed.

Lemma Forall_lookup (P : mbox -> Prop) n b bs :
  Forall (fun nb => P (snd nb)) bs -> lookup n bs = Some b -> P b.
Proof.
  intros H. induction H as [|[k b0] r Hx Hr IH]; cbn [lookup]; [discriminate|].
  destruct (k =? n); [intros E; inversion E; subst; exact Hx|exact IH].
Qed.

Lemma box_ok_NoDup b : box_ok b -> NoDup (uids_of (b_msgs b)).
Proof. intros [H _]. apply asc_NoDup, H. Qed.

Lemma set_msgs_self b : set_msgs b (b_msgs b) = b.
Proof. destruct b; reflexivity. Qed.

(* ---------------------------------------------------------- small facts *)
Lemma flat_map_filter {A B} (p : A -> bool) (f : A -> B) l :
  flat_map (fun x => if p x then [f x] else []) l = map f (filter p l).
Proof.
  induction l as [|x r IH]; cbn [flat_map filter map]; [reflexivity|].
  destruct (p x); cbn [app map]; rewrite IH; reflexivity.
Qed.

Lemma filter_map_comm {A B} (p : B -> bool) (f : A -> B) l :
  filter p (map f l) = map f (filter (fun x => p (f x)) l).
Proof.
  induction l as [|x r IH]; cbn [map filter]; [reflexivity|].
  destruct (p (f x)); cbn [map]; rewrite IH; reflexivity.
Qed.

Lemma enum_map_enum {A B} (g : N * A -> B) k (l : list A) :
  enum_from k (map g (enum_from k l)) = map (fun qm => (fst qm, g qm)) (enum_from k l).
Proof.
  revert k. induction l as [|x r IH]; intros k; cbn [enum_from map fst]; [reflexivity|].
  f_equal. apply IH.
Qed.

Lemma merge_item_idem a : merge_item a a = a.
Proof. destruct a as [q [u|] [f|] [d|] [c|]]; reflexivity. Qed.

Lemma uids_map_same (g : N * msg -> msg) k l :
  (forall qm, In qm (enum_from k l) -> m_uid (g qm) = m_uid (snd qm)) ->
  uids_of (map g (enum_from k l)) = uids_of l.
Proof.
  intros H. unfold uids_of. rewrite map_map. rewrite <- (enum_from_snd k l) at 2. rewrite map_map.
  apply map_ext_in. exact H.
Qed.

(* session_flags.remove removes nothing when no UID disappeared *)
Lemma finish_rec_keep (v0 v1 : list msg) rec :
  (forall u, In u (uids_of v0) -> In u (uids_of v1)) ->
  filter (fun u => negb (memN u (uids_of v0) && negb (memN u (uids_of v1)))) rec = rec.
Proof.
  intros H. apply filter_all. intros u _. destruct (memN u (uids_of v0)) eqn:E; [|reflexivity].
  apply memN_In, H, memN_In in E. rewrite E. reflexivity.
Qed.

Lemma assemble_no_expunge items cmp :
  existsb is_expunge cmp = false -> assemble items cmp = fold_left add_untagged cmp items.
Proof. intros H. unfold assemble. rewrite H. reflexivity. Qed.

(* ------------------------------------------- finish after a flags-only change *)
Lemma finish_flags_only b s (g : N * msg -> msg) sil wu items :
  s_view s = b_msgs b -> NoDup (uids_of (b_msgs b)) ->
  (forall qm, In qm (enumerate (b_msgs b)) -> m_uid (g qm) = m_uid (snd qm)) ->
  finish (set_msgs b (map g (enumerate (b_msgs b)))) s (s_recent s) sil wu items =
  (mkSel (s_box s) (s_ro s) (s_perm s) (map g (enumerate (b_msgs b))) (s_recent s),
   fold_left add_untagged
     (map (fun qm => UFetch (mkItem (fst qm) (if wu then Some (m_uid (g qm)) else None)
                    (Some (with_recent (m_flags (g qm)) (memN (m_uid (g qm)) (s_recent s))))
                    None None))
          (filter (fun qm => negb (fset_eqb (m_flags (snd qm)) (m_flags (g qm)))
                             && negb (key_silenced (g qm) sil))
                  (enumerate (b_msgs b))))
     items).
Proof.
  intros Hv Hnd Hg. unfold finish. cbn [b_msgs set_msgs]. rewrite Hv.
  assert (Hu : uids_of (map g (enumerate (b_msgs b))) = uids_of (b_msgs b))
    by (apply uids_map_same; exact Hg).
  rewrite finish_rec_keep by (rewrite Hu; auto).
  f_equal. rewrite compare_flags_only by exact Hu. rewrite assemble_no_expunge.
  2:{ clear. induction (filter _ _) as [|x r IH]; [reflexivity|exact IH]. }
  f_equal.
  unfold enumerate in *. rewrite enum_map_enum. rewrite filter_map_comm, map_map. cbn [fst snd].
  unfold flags_item. f_equal. apply filter_ext_in. intros [q m] Hi. cbn [snd].
  rewrite (key_in_unique (g (q, m)) m (b_msgs b) Hnd); [reflexivity| |].
  - eapply enum_from_In_snd, Hi.
  - exact (Hg (q, m) Hi).
Qed.

(* ------------------------------ finish after removals and arrivals (no merge) *)
Lemma expunge_lines_seqs l gone : fetch_seqs (expunge_lines l gone) = [].
Proof.
  unfold expunge_lines. induction (rev _) as [|x r IH]; cbn; [reflexivity|exact IH].
Qed.

Lemma fetch_seqs_flags_items rec wu L :
  fetch_seqs (map (fun qm : N * msg => sflags_item (fst qm) (snd qm) rec wu) L) = map fst L.
Proof. induction L as [|x r IH]; cbn; [reflexivity|]. f_equal. exact IH. Qed.

Lemma NoDup_skipn {A} n (l : list A) : NoDup l -> NoDup (skipn n l).
Proof.
  revert l. induction n as [|n IH]; intros l H; [exact H|]. destruct l as [|x r]; [constructor|].
  inversion H; subst. apply IH. assumption.
Qed.

Lemma map_skipn {A B} (f : A -> B) n l : map f (skipn n l) = skipn n (map f l).
Proof. revert l. induction n as [|n IH]; intros [|x r]; cbn; auto. Qed.

Lemma finish_remove_add b' s keep new rec wu pre :
  NoDup (uids_of (s_view s)) ->
  b_msgs b' = filter keep (s_view s) ++ new ->
  (forall m, In m new -> ~ In (m_uid m) (uids_of (s_view s))) ->
  (forall m, In m (s_view s) -> keep m = true -> memN (m_uid m) rec = true ->
             memN (m_uid m) (s_recent s) = true) ->
  fetch_seqs pre = [] ->
  let rec1 := filter (fun u => negb (memN u (uids_of (s_view s))
                                     && negb (memN u (uids_of (b_msgs b'))))) rec in
  finish b' s rec [] wu pre =
  (mkSel (s_box s) (s_ro s) (s_perm s) (b_msgs b') rec1,
   pre ++ expunge_lines (s_view s) (fun _ m => negb (keep m))
   ++ arrivals (s_recent s) (s_view s) rec1 (b_msgs b') (length (filter keep (s_view s))) wu).
Proof.
  intros Hnd Hb Hnew Hrec Hpre rec1. unfold finish. fold rec1. f_equal.
  rewrite Hb. rewrite compare_remove_add; [|exact Hnd|exact Hnew|].
  - unfold assemble. destruct (existsb is_expunge _); [unfold arrivals; rewrite <- Hb; reflexivity|].
    rewrite fold_add_fresh.
    + unfold arrivals. rewrite <- Hb. reflexivity.
    + rewrite !fetch_seqs_app, expunge_lines_seqs. cbn [app].
      destruct (_ <=? _)%nat; cbn [fetch_seqs flat_map app].
      * unfold recent_line. destruct (_ =? _); cbn [fetch_seqs flat_map app];
          rewrite fetch_seqs_flags_items, map_skipn; apply NoDup_skipn, enum_keys_NoDup.
      * unfold recent_line. destruct (_ =? _); cbn [fetch_seqs flat_map app];
          rewrite fetch_seqs_flags_items, map_skipn; apply NoDup_skipn, enum_keys_NoDup.
    + intros q _. rewrite Hpre. intros [].
  - intros m Hm Hk Hr. apply (Hrec m Hm Hk). unfold rec1 in Hr. rewrite memN_filter in Hr.
    apply andb_true_iff in Hr. apply Hr.
Qed.

(* ---- hide_expunged changes nothing when no message of the view is gone *)
Lemma keep_pending_same told now :
  (forall u, In u (uids_of told) -> In u (uids_of now)) -> keep_pending told now = now.
Proof.
  intros H. unfold keep_pending. rewrite filter_none; [reflexivity|].
  intros m Hm. apply negb_false_iff, memN_In, H, in_map, Hm.
Qed.

Lemma post_recent_same h b s rec :
  (forall u, In u (uids_of (s_view s)) -> In u (uids_of (b_msgs b))) -> post_recent h b s rec = rec.
Proof. intros H. unfold post_recent. destruct h; [reflexivity|]. apply finish_rec_keep, H. Qed.

Lemma finish_h_same h b s rec sil wu items :
  (forall u, In u (uids_of (s_view s)) -> In u (uids_of (b_msgs b))) ->
  finish_h h b s rec sil wu items = finish b s rec sil wu items.
Proof.
  intros H. unfold finish_h, finish. destruct h; [|reflexivity].
  rewrite keep_pending_same by exact H. rewrite finish_rec_keep by exact H. reflexivity.
Qed.
