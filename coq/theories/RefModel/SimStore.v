(* RefModel/SimStore.v — simulation lemmas for STORE (three modes, .SILENT)
   and FETCH (implicit \Seen): model step = spec step under the invariant. *)
From Coq Require Import Sorting.Sorted.
From PV Require Import Base.Prelude Wire.SeqSet RefModel.Flags RefModel.Model RefModel.Spec
  RefModel.BoxLemmas RefModel.AddrProofs RefModel.CompareProofs RefModel.LoopProofs
  RefModel.SimBase.
Local Open Scope N_scope.

Definition sim_ok (st : state) (c : cmd) : Prop :=
  snd (step st c) = snd (spec_step (abs st) c) /\
  abs (fst (step st c)) = fst (spec_step (abs st) c) /\
  Inv (fst (step st c)).

(* ---- flags that fit the mailbox are stored as they are *)
Lemma subset_inter_same X P : subset X P = true -> inter X P = X.
Proof.
  intros H. unfold inter. apply filter_all. intros f Hf.
  apply (proj1 (subset_spec X P) H). apply mem_In, Hf.
Qed.

Lemma storable_fits bk P X : (bk = Maildir -> subset X P = true) -> storable bk P X = X.
Proof. destruct bk; cbn [storable]; intros H; [reflexivity|]. apply subset_inter_same, H. reflexivity. Qed.

Lemma perm_intersect_sub P fl : mem FWild P = false ->
  subset (perm_intersect (perm_defined P) fl) P = true.
Proof.
  intros Hw. unfold perm_intersect, perm_defined. rewrite mem_diff, Hw. cbn [andb].
  apply subset_spec. intros f Hf. rewrite mem_inter, mem_diff in Hf.
  apply andb_true_iff in Hf. destruct Hf as [_ Hf]. apply andb_true_iff in Hf. apply Hf.
Qed.

Lemma op_apply_sub op X Y P : subset X P = true -> subset Y P = true ->
  subset (op_apply op X Y) P = true.
Proof.
  rewrite !subset_spec. intros HX HY f Hf. destruct op; cbn [op_apply] in Hf.
  - apply HY, Hf.
  - rewrite mem_union in Hf. apply orb_true_iff in Hf. destruct Hf; auto.
  - rewrite mem_diff in Hf. apply andb_true_iff in Hf. apply HX, Hf.
Qed.

Lemma storable_sub bk P X : bk = Maildir -> subset (storable bk P X) P = true.
Proof.
  intros ->. cbn [storable]. apply subset_spec. intros f Hf. rewrite mem_inter in Hf.
  apply andb_true_iff in Hf. apply Hf.
Qed.

(* the selected mailbox under the invariant *)
Lemma inv_selected st s : Inv st -> st_sel st = Some s ->
  exists b, lookup (s_box s) (st_boxes st) = Some b /\ s_view s = b_msgs b /\
            s_perm s = perm_defined (b_perm b) /\ box_ok b /\
            (st_bk st = Maildir -> mem FWild (b_perm b) = false /\
               Forall (fun m => subset (m_flags m) (b_perm b) = true) (b_msgs b)).
Proof.
  intros (Hb & Hm & Hs) Es. rewrite Es in Hs. destruct Hs as (b & Hl & Hv & Hp).
  exists b. repeat split; try assumption.
  - exact (proj1 (Forall_lookup box_ok _ _ _ Hb Hl)).
  - exact (proj2 (Forall_lookup box_ok _ _ _ Hb Hl)).
  - exact (proj1 (Forall_lookup flags_in _ _ _ (Hm H) Hl)).
  - exact (proj2 (Forall_lookup flags_in _ _ _ (Hm H) Hl)).
Qed.

(* replacing the selected mailbox by one with the same UIDs, counter and table keeps Inv *)
Lemma inv_replace st s b b' rec :
  Inv st -> st_sel st = Some s -> lookup (s_box s) (st_boxes st) = Some b ->
  box_ok b' -> b_perm b' = b_perm b ->
  (st_bk st = Maildir -> Forall (fun m => subset (m_flags m) (b_perm b) = true) (b_msgs b')) ->
  Inv (mkState (st_bk st) (set_box (s_box s) b' (st_boxes st))
               (Some (mkSel (s_box s) (s_ro s) (s_perm s) (b_msgs b') rec))).
Proof.
  intros (Hb & Hm & Hs) Es Hl Hok Hp Hfl. rewrite Es in Hs.
  destruct Hs as (b0 & Hl0 & Hv & Hp0). rewrite Hl in Hl0. inversion Hl0; subst b0.
  split; [|split]; cbn [st_boxes st_bk st_sel].
  - apply Forall_set_box; assumption.
  - intros Hk. apply Forall_set_box; [exact (Hm Hk)|].
    destruct (Forall_lookup flags_in _ _ _ (Hm Hk) Hl) as [Hw _].
    split; [rewrite Hp; exact Hw|]. rewrite Hp. apply Hfl, Hk.
  - exists b'. cbn [s_box s_view s_perm]. rewrite lookup_set_box_same, Hl.
    repeat split. congruence.
Qed.

Lemma box_ok_same_uids b l :
  box_ok b -> uids_of l = uids_of (b_msgs b) -> box_ok (set_msgs b l).
Proof. intros [H1 H2] E. split; cbn [b_msgs b_maxuid set_msgs]; rewrite E; assumption. Qed.

Lemma silence_In T pf op q m :
  In (q, m) T -> fset_eqb (m_flags m) (op_apply op (m_flags m) pf) = false ->
  In (m_uid m, op_apply op (m_flags m) pf) (silence T pf op).
Proof.
  intros Hi Hne. unfold silence. apply in_flat_map. exists (q, m). split; [exact Hi|].
  cbn [snd]. rewrite Hne. left. reflexivity.
Qed.

Lemma flat_map_map {A B C} (f : B -> list C) (h : A -> B) l :
  flat_map f (map h l) = flat_map (fun x => f (h x)) l.
Proof. induction l as [|x r IH]; cbn; [reflexivity|]. rewrite IH. reflexivity. Qed.

Lemma flat_map_nil {A B} (l : list A) : flat_map (fun _ => @nil B) l = [].
Proof. induction l; cbn; auto. Qed.

Lemma flat_map_single {A B} (f : A -> B) l : flat_map (fun x => [f x]) l = map f l.
Proof. induction l as [|x r IH]; cbn; [reflexivity|]. rewrite IH. reflexivity. Qed.

(* ------------------------------------------------------------------ STORE *)
Lemma sim_store st uid ss op silent fl : Inv st -> sim_ok st (CStore uid ss op silent fl).
Proof.
  intros HI. unfold sim_ok. cbn [step spec_step]. unfold do_store, spec_store.
  cbn [abs sp_sel sp_boxes sp_bk].
  destruct (st_sel st) as [s|] eqn:Es; cbn [option_map].
  2:{ cbn. split; [reflexivity|split; [reflexivity|exact HI]]. }
  cbn [abs_sel ss_ro ss_box ss_recent].
  destruct (s_ro s) eqn:Ero.
  { cbn. split; [reflexivity|split; [reflexivity|exact HI]]. }
  destruct (inv_selected st s HI Es) as (b & Hl & Hv & Hp & Hok & Hmd). rewrite Hl.
  pose proof (box_ok_NoDup b Hok) as Hnd.
  rewrite Hv, get_all_spec by apply Hok. rewrite Hp.
  set (pf := perm_intersect (perm_defined (b_perm b)) fl).
  set (addr := fun qm : N * msg => addressed uid ss (b_msgs b) (fst qm) (snd qm)).
  set (upd := upd_flags (st_bk st) (b_perm b) op pf).
  set (g := fun qm : N * msg => if addr qm then upd (snd qm) else snd qm).
  set (L := enumerate (b_msgs b)).
  pose proof (update_loop_spec (st_bk st) b op pf addr (b_msgs b) [] 1 Hnd) as Hloop.
  cbn [app] in Hloop. rewrite set_msgs_self in Hloop. fold (enumerate (b_msgs b)) in Hloop.
  fold upd in Hloop. fold g in Hloop. fold L in Hloop. rewrite Hloop. clear Hloop.
  assert (Hg : forall qm, In qm L -> m_uid (g qm) = m_uid (snd qm)).
  { intros qm _. unfold g. destruct (addr qm); reflexivity. }
  assert (Hsame : forall u, In u (uids_of (s_view s)) -> In u (uids_of (b_msgs (set_msgs b (map g L))))).
  { intros u Hu. cbn [b_msgs set_msgs]. unfold L, enumerate in *. rewrite uids_map_same by exact Hg. rewrite <- Hv. exact Hu. }
  rewrite (post_recent_same _ _ s _ Hsame).
  rewrite (finish_h_same _ _ s _ _ _ _ Hsame).
  set (res := map (fun qm => (fst qm, upd (snd qm), false)) (filter addr L)).
  assert (Hany : any_expunged res = false).
  { unfold any_expunged, res. induction (filter addr L) as [|x r IH]; cbn; [reflexivity|exact IH]. }
  rewrite Hany.
  set (A := fun qm : N * msg => mkItem (fst qm) (if uid then Some (m_uid (g qm)) else None)
              (Some (with_recent (m_flags (g qm)) (memN (m_uid (g qm)) (s_recent s)))) None None).
  assert (Hitems : flat_map (fun x : N * msg * bool => let '(q, m, ex) := x in
                      if negb ex && silent then [] else [flags_item q m (s_recent s) uid]) res
                   = if silent then [] else map (fun qm => UFetch (A qm)) (filter addr L)).
  { unfold res. rewrite flat_map_map. cbn [negb andb]. destruct silent.
    - apply flat_map_nil.
    - rewrite flat_map_single. apply map_ext_in. intros qm Hq. apply filter_In in Hq.
      unfold A, g, flags_item. rewrite (proj2 Hq). reflexivity. }
  rewrite Hitems. clear Hitems.
  match goal with |- context [finish _ s _ ?S uid ?I] =>
    pose proof (finish_flags_only b s g S uid I Hv Hnd Hg) as Hfin end.
  fold L in Hfin. rewrite Hfin. clear Hfin.
  (* the mailbox the two sides end with is the same term *)
  assert (Hfits : st_bk st = Maildir -> forall qm, In qm L ->
            subset (op_apply op (m_flags (snd qm)) pf) (b_perm b) = true).
  { intros Hk [q m] Hq. cbn [snd]. destruct (Hmd Hk) as [Hw HF]. apply op_apply_sub.
    - rewrite Forall_forall in HF. apply HF. eapply enum_from_In_snd, Hq.
    - apply perm_intersect_sub, Hw. }
  split; [|split].
  - (* responses *)
    cbn [snd]. f_equal. destruct silent.
    + (* .SILENT: every change is silenced *)
      rewrite filter_none; [reflexivity|]. intros [q m] Hq. cbn [snd].
      unfold g at 1. destruct (addr (q, m)) eqn:Ea; cbn [snd].
      2:{ rewrite fset_eqb_refl. reflexivity. }
      unfold upd, upd_flags. cbn [m_flags set_flags].
      rewrite storable_fits by (intros Hk; exact (Hfits Hk (q, m) Hq)).
      destruct (fset_eqb (m_flags m) (op_apply op (m_flags m) pf)) eqn:Ee; [reflexivity|].
      cbn [negb andb]. apply negb_false_iff. unfold key_silenced. apply existsb_exists.
      exists (m_uid m, op_apply op (m_flags m) pf). split.
      * apply (silence_In _ pf op q m); [|exact Ee]. apply filter_In. split; assumption.
      * cbn [fst snd]. unfold g. rewrite Ea. unfold upd, upd_flags. cbn [m_uid m_flags set_flags snd].
        rewrite storable_fits by (intros Hk; exact (Hfits Hk (q, m) Hq)).
        rewrite N.eqb_refl, fset_eqb_refl. reflexivity.
    + (* the FETCH of fork merges into the command's own, item by item *)
      pose proof (merge_fold (N * msg) fst A A addr
                    (fun qm => negb (fset_eqb (m_flags (snd qm)) (m_flags (g qm))) && negb (key_silenced (g qm) []))
                    (fun _ => eq_refl) (fun _ => eq_refl)) as Hm.
      cbn [app] in Hm. specialize (Hm (fun x H => ltac:(
        unfold g in H; destruct (addr x); [reflexivity|rewrite fset_eqb_refl in H; discriminate H]))).
      specialize (Hm L []). cbn [app] in Hm. unfold A in Hm |- *. cbn beta in Hm |- *. rewrite Hm.
      * rewrite flat_map_filter. apply map_ext_in. intros qm Hq. apply filter_In in Hq.
        unfold merged. rewrite merge_item_idem. destruct (_ && _); unfold g, sflags_item, addr in *;
          rewrite (proj2 Hq); reflexivity.
      * apply enum_keys_NoDup.
      * intros x _ [].
  - (* abstraction of the final state *)
    cbn [fst]. unfold abs, set_sel, sset. cbn [st_bk st_boxes st_sel option_map abs_sel s_box s_ro s_recent].
    reflexivity.
  - (* invariant *)
    cbn [fst]. apply (inv_replace st s b (set_msgs b (map g L))); try assumption.
    + apply box_ok_same_uids; [exact Hok|]. cbn [b_msgs set_msgs]. apply uids_map_same. exact Hg.
    + reflexivity.
    + intros Hk. cbn [b_msgs set_msgs]. apply Forall_forall. intros m' Hm'. apply in_map_iff in Hm'.
      destruct Hm' as ([q m] & <- & Hq). unfold g. destruct (addr (q, m)); cbn [snd].
      * unfold upd, upd_flags. cbn [m_flags set_flags]. apply storable_sub, Hk.
      * destruct (Hmd Hk) as [_ HF]. rewrite Forall_forall in HF. apply HF. eapply enum_from_In_snd, Hq.
Qed.

(* ------------------------------------------------------------------ FETCH *)
Lemma set_seen_rfc a : attr_set_seen a = rfc_sets_seen a.
Proof. destruct a as [[] sct c]; reflexivity. Qed.

Lemma existsb_same {A} (f g : A -> bool) l : (forall x, f x = g x) -> existsb f l = existsb g l.
Proof. intros H. induction l as [|x r IH]; cbn; [reflexivity|]. rewrite H, IH. reflexivity. Qed.

Lemma sim_fetch st uid ss attrs : Inv st -> sim_ok st (CFetch uid ss attrs).
Proof.
  intros HI. unfold sim_ok. cbn [step spec_step]. unfold do_fetch, spec_fetch.
  cbn [abs sp_sel sp_boxes sp_bk].
  destruct (st_sel st) as [s|] eqn:Es; cbn [option_map].
  2:{ cbn. split; [reflexivity|split; [reflexivity|exact HI]]. }
  cbn [abs_sel ss_ro ss_box ss_recent].
  destruct (inv_selected st s HI Es) as (b & Hl & Hv & Hp & Hok & Hmd). rewrite Hl.
  pose proof (box_ok_NoDup b Hok) as Hnd.
  rewrite Hv, get_all_spec by apply Hok.
  rewrite (existsb_same attr_set_seen rfc_sets_seen attrs set_seen_rfc).
  set (seen := negb (s_ro s) && existsb rfc_sets_seen attrs).
  set (addr := fun qm : N * msg => addressed uid ss (b_msgs b) (fst qm) (snd qm)).
  set (upd := upd_flags (st_bk st) (b_perm b) OpAdd [FSeen]).
  set (g := fun qm : N * msg => if addr qm && seen then upd (snd qm) else snd qm).
  set (L := enumerate (b_msgs b)).
  assert (Hg : forall qm, In qm L -> m_uid (g qm) = m_uid (snd qm)).
  { intros qm _. unfold g. destruct (addr qm && seen); reflexivity. }
  assert (Hres : (if seen then update_loop (st_bk st) b (filter addr L) [FSeen] OpAdd
                  else (b, get_loop b (filter addr L)))
                 = (set_msgs b (map g L), map (fun qm => (fst qm, g qm, false)) (filter addr L))).
  { destruct seen eqn:Eseen.
    - pose proof (update_loop_spec (st_bk st) b OpAdd [FSeen] addr (b_msgs b) [] 1 Hnd) as Hloop.
      cbn [app] in Hloop. rewrite set_msgs_self in Hloop. fold (enumerate (b_msgs b)) in Hloop.
      fold upd in Hloop. fold L in Hloop. rewrite Hloop. f_equal.
      + f_equal. apply map_ext. intros qm. unfold g. rewrite andb_true_r. reflexivity.
      + apply map_ext_in. intros qm Hq. apply filter_In in Hq. unfold g. rewrite (proj2 Hq). reflexivity.
    - rewrite get_loop_spec; [|exact Hnd|].
      + f_equal.
        * replace (map g L) with (b_msgs b); [symmetry; apply set_msgs_self|].
          unfold g, L, enumerate. rewrite <- (enum_from_snd 1 (b_msgs b)) at 1.
          apply map_ext. intros qm. rewrite andb_false_r. reflexivity.
        * apply map_ext. intros qm. unfold g. rewrite andb_false_r. reflexivity.
      + intros [q m] Hq. apply filter_In in Hq. cbn [snd]. exact (enum_from_In_snd _ _ _ _ (proj1 Hq)). }
  fold L. rewrite Hres. clear Hres.
  set (res := map (fun qm => (fst qm, g qm, false)) (filter addr L)).
  assert (Hany : any_expunged res = false).
  { unfold any_expunged, res. induction (filter addr L) as [|x r IH]; cbn; [reflexivity|exact IH]. }
  rewrite Hany.
  set (A := fun qm : N * msg =>
     mkItem (fst qm)
       (if uid || has_attr AUid attrs then Some (m_uid (g qm)) else None)
       (if has_attr AFlags attrs
        then Some (with_recent (m_flags (g qm)) (memN (m_uid (g qm)) (s_recent s))) else None)
       (if has_attr AInternalDate attrs then Some (m_date (g qm)) else None)
       (if existsb fa_content attrs then Some (m_cid (g qm)) else None)).
  assert (Hsame : forall u, In u (uids_of (s_view s)) -> In u (uids_of (b_msgs (set_msgs b (map g L))))).
  { intros u Hu. cbn [b_msgs set_msgs]. unfold L, enumerate in *. rewrite uids_map_same by exact Hg.
    rewrite <- Hv. exact Hu. }
  rewrite (post_recent_same _ _ s _ Hsame).
  rewrite (finish_h_same _ _ s _ _ _ _ Hsame).
  assert (Hitems : map (fun x : N * msg * bool => let '(q, m, ex) := x in
                     UFetch (mkItem q
                       (if uid || has_attr AUid attrs then Some (m_uid m) else None)
                       (if has_attr AFlags attrs
                        then Some (with_recent (m_flags m) (memN (m_uid m) (s_recent s))) else None)
                       (if has_attr AInternalDate attrs then Some (m_date m) else None)
                       (if existsb fa_content attrs
                        then Some (match st_bk st, ex with
                                   | Maildir, true => NO_CONTENT
                                   | _, _ => m_cid m
                                   end)
                        else None))) res
                   = map (fun qm => UFetch (A qm)) (filter addr L)).
  { unfold res. rewrite map_map. apply map_ext. intros qm. unfold A.
    destruct (st_bk st); reflexivity. }
  rewrite Hitems. clear Hitems.
  match goal with |- context [finish _ s _ ?S uid ?I] =>
    pose proof (finish_flags_only b s g S uid I Hv Hnd Hg) as Hfin end.
  fold L in Hfin. rewrite Hfin. clear Hfin.
  split; [|split].
  - cbn [snd]. f_equal.
    set (B := fun qm : N * msg => mkItem (fst qm) (if uid then Some (m_uid (g qm)) else None)
                (Some (with_recent (m_flags (g qm)) (memN (m_uid (g qm)) (s_recent s)))) None None).
    pose proof (merge_fold (N * msg) fst A B addr
                  (fun qm => negb (fset_eqb (m_flags (snd qm)) (m_flags (g qm))) && negb (key_silenced (g qm) []))
                  (fun _ => eq_refl) (fun _ => eq_refl)) as Hm.
    specialize (Hm (fun x H => ltac:(
      unfold g in H; destruct (addr x); [reflexivity|cbn [andb] in H; rewrite fset_eqb_refl in H; discriminate H]))).
    specialize (Hm L []). cbn [app] in Hm. unfold A, B in Hm |- *. cbn beta in Hm |- *. rewrite Hm.
    + rewrite flat_map_filter. apply map_ext_in. intros [q m] Hq. apply filter_In in Hq.
      destruct Hq as [Hq Ha]. unfold merged. cbn [fst snd]. unfold addr in Ha. cbn [fst snd] in Ha.
      fold addr in Ha. cbn [key_silenced existsb negb]. rewrite andb_true_r.
      assert (Eg : g (q, m) = if seen then upd m else m).
      { unfold g. cbn [snd]. unfold addr at 1. cbn [fst snd]. rewrite Ha. reflexivity. }
      assert (Eu : m_uid (g (q, m)) = m_uid m) by (apply (Hg (q, m) Hq)).
      assert (Ed : m_date (g (q, m)) = m_date m) by (rewrite Eg; destruct seen; reflexivity).
      assert (Ec : m_cid (g (q, m)) = m_cid m) by (rewrite Eg; destruct seen; reflexivity).
      rewrite Eu, Ed, Ec.
      replace (if addressed uid ss (b_msgs b) q m && seen
               then set_flags m (storable (st_bk st) (b_perm b) (union (m_flags m) [FSeen])) else m)
        with (g (q, m)) by (rewrite Eg, Ha; reflexivity).
      destruct (fset_eqb (m_flags m) (m_flags (g (q, m)))); cbn [negb];
        unfold merge_item; cbn [fi_seq fi_uid fi_flags fi_date fi_cid];
        destruct uid, (has_attr AUid attrs), (has_attr AFlags attrs),
                 (has_attr AInternalDate attrs), (existsb fa_content attrs); reflexivity.
    + apply enum_keys_NoDup.
    + intros x _ [].
  - cbn [fst]. unfold abs, set_sel, sset.
    cbn [st_bk st_boxes st_sel option_map abs_sel s_box s_ro s_recent]. reflexivity.
  - cbn [fst]. apply (inv_replace st s b (set_msgs b (map g L))); try assumption.
    + apply box_ok_same_uids; [exact Hok|]. cbn [b_msgs set_msgs]. apply uids_map_same. exact Hg.
    + reflexivity.
    + intros Hk. cbn [b_msgs set_msgs]. apply Forall_forall. intros m' Hm'. apply in_map_iff in Hm'.
      destruct Hm' as ([q m] & <- & Hq). unfold g. destruct (addr (q, m) && seen); cbn [snd].
      * unfold upd, upd_flags. cbn [m_flags set_flags]. apply storable_sub, Hk.
      * destruct (Hmd Hk) as [_ HF]. rewrite Forall_forall in HF. apply HF. eapply enum_from_In_snd, Hq.
Qed.
