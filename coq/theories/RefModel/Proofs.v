(* RefModel/Proofs.v — proofs about RefModel/Model.v and Spec.v *)
From PV Require Import Base.Prelude Wire.SeqSet Wire.SeqSetProofs RefModel.Flags RefModel.Model RefModel.Spec.
Local Open Scope N_scope.

Lemma set_seen_rfc a : attr_set_seen a = rfc_sets_seen a.
Proof. destruct a as [[] s c]; reflexivity. Qed.
