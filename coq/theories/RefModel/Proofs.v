(* RefModel/Proofs.v — the refinement theorem: for every program the model of
   pymap's message commands (Model.v) and the reference spec (Spec.v) give the
   same responses and end in the same abstract state. *)
From Coq Require Import Sorting.Sorted RelationClasses.
From PV Require Import Base.Prelude Wire.SeqSet RefModel.Flags RefModel.Model RefModel.Spec
  RefModel.BoxLemmas RefModel.AddrProofs RefModel.CompareProofs RefModel.LoopProofs
  RefModel.SimBase RefModel.SimStore RefModel.SimOther RefModel.SimNew RefModel.InitOk.
Local Open Scope N_scope.

(* ---- one step: model = spec, invariant kept.  The state is either in sync
   ([Inv]) or its selection has lost its mailbox ([InvGone]); no mailbox is called GONE *)
Definition Good (st : state) : Prop := InvW st /\ lookup GONE (st_boxes st) = None.

Lemma sim_stepW st c : Good st -> wf_cmd c -> sim_okW st c.
Proof.
  intros [[HI|HG] Hno] Hwf; [|apply sim_gone; assumption].
  destruct c.
  - apply sim_ok_W, sim_select, HI.
  - apply sim_ok_W, sim_append, HI.
  - apply sim_ok_W, sim_store, HI.
  - apply sim_ok_W, sim_expunge, HI.
  - apply sim_ok_W, sim_copy, HI.
  - apply sim_ok_W, sim_move, HI.
  - apply sim_ok_W, sim_fetch, HI.
  - apply sim_ok_W, sim_close, HI.
  - apply sim_ok_W, sim_noop, HI.
  - apply sim_ok_W, sim_check, HI.
  - apply sim_ok_W, sim_status, HI.
  - apply sim_ok_W, sim_search, HI.
  - apply sim_ok_W, sim_create, HI.
  - apply sim_ok_W, sim_delete, HI.
  - apply sim_rename; [exact HI|exact Hwf|exact Hno].
Qed.

(* no command makes a mailbox called GONE (seen on the spec, whose mailboxes are the model's) *)
Lemma nogone_set_box n b bs : lookup GONE bs = None -> lookup GONE (set_box n b bs) = None.
Proof.
  intros H. destruct (N.eq_dec n GONE) as [->|Hne].
  - rewrite lookup_set_box_same, H. reflexivity.
  - rewrite lookup_set_box_other by congruence. exact H.
Qed.
Lemma nogone_app bs n b : lookup GONE bs = None -> n <> GONE -> lookup GONE (bs ++ [(n, b)]) = None.
Proof.
  intros H Hn. rewrite lookup_app, H. cbn [lookup].
  destruct (n =? GONE) eqn:E; [apply N.eqb_eq in E; congruence|reflexivity].
Qed.
Lemma nogone_del n bs : lookup GONE bs = None -> lookup GONE (del_box n bs) = None.
Proof.
  intros H. destruct (N.eq_dec GONE n) as [<-|Hne]; [apply lookup_del_same|].
  rewrite lookup_del_other by exact Hne. exact H.
Qed.

Lemma spec_nogone sp c : wf_cmd c -> lookup GONE (sp_boxes sp) = None ->
  lookup GONE (sp_boxes (fst (spec_step sp c))) = None.
Proof.
  intros Hwf H.
  destruct c; cbn [spec_step];
    unfold spec_select, spec_append, spec_store, spec_expunge, spec_copy, spec_move,
           spec_fetch, spec_close, spec_noop, spec_status, spec_search, spec_create,
           spec_delete, spec_rename, names_done, sreply, deliver, sset;
    repeat match goal with
           | |- context [match ?x with _ => _ end] =>
             match type of x with
             | option _ => destruct x
             | bool => destruct x
             | backend => destruct x
             | (_ * _)%type => destruct x
             end
           end; cbn [fst sp_boxes];
    repeat first [exact H | apply nogone_set_box | apply nogone_del
                 | (apply nogone_app; [|first [exact Hwf | unfold GONE, INBOX; lia]])].
Qed.

Theorem refines prog : forall st, Good st -> Forall wf_cmd prog ->
  snd (run st prog) = snd (spec_run (abs st) prog) /\
  abs (fst (run st prog)) = fst (spec_run (abs st) prog) /\
  Good (fst (run st prog)).
Proof.
  induction prog as [|c r IH]; intros st HG Hwf; cbn [run spec_run].
  - cbn. split; [reflexivity|split; [reflexivity|exact HG]].
  - inversion Hwf as [|? ? Hc Hr]; subst.
    destruct (sim_stepW st c HG Hc) as (Ho & Ha & HI1).
    pose proof (spec_nogone (abs st) c Hc (proj2 HG)) as Hno.
    destruct (step st c) as [st1 o] eqn:Es. destruct (spec_step (abs st) c) as [sp1 o'] eqn:Ep.
    cbn [fst snd] in *. subst o' sp1.
    assert (HG1 : Good st1) by (split; [exact HI1|exact Hno]).
    destruct (IH st1 HG1 Hr) as (Hos & Has & HI2).
    destruct (run st1 r) as [st2 os] eqn:Er. destruct (spec_run (abs st1) r) as [sp2 os'] eqn:Epr.
    cbn [fst snd] in *. subst os' sp2. split; [reflexivity|split; [reflexivity|exact HI2]].
Qed.

Theorem refines_main prog st : Good st -> Forall wf_cmd prog ->
  snd (run st prog) = snd (spec_run (abs st) prog) /\
  abs (fst (run st prog)) = fst (spec_run (abs st) prog).
Proof. intros HI Hw. destruct (refines prog st HI Hw) as (H1 & H2 & _). split; assumption. Qed.

Lemma asc_b_sound l : asc_b l = true -> asc l.
Proof.
  intros H. apply Sorted_StronglySorted; [intros x y z; lia|].
  induction l as [|x r IH]; [constructor|]. cbn [asc_b] in H. destruct r as [|y t].
  - repeat constructor.
  - apply andb_true_iff in H. destruct H as [H1 H2]. constructor; [apply IH, H2|].
    constructor. apply N.ltb_lt, H1.
Qed.

Lemma box_ok_b_sound b : box_ok_b b = true -> box_ok b.
Proof.
  unfold box_ok_b. intros H. apply andb_true_iff in H. destruct H as [H1 H2]. split.
  - apply asc_b_sound, H1.
  - apply Forall_forall. intros u Hu. rewrite forallb_forall in H2. specialize (H2 u Hu).
    apply andb_true_iff in H2. rewrite N.ltb_lt, N.leb_le in H2. exact H2.
Qed.

Lemma init_ok_Good st : init_ok st = true -> Good st.
Proof.
  unfold init_ok. destruct (st_sel st) eqn:Es; [discriminate|]. intros H.
  apply andb_true_iff in H. destruct H as [H H3]. apply andb_true_iff in H. destruct H as [H1 H2].
  split; [left; split; [|split]|].
  - apply Forall_forall. intros nb Hnb. rewrite forallb_forall in H1. apply box_ok_b_sound, H1, Hnb.
  - intros Hk. rewrite Hk in H2. discriminate.
  - rewrite Es. exact I.
  - destruct (lookup GONE (st_boxes st)); [discriminate|reflexivity].
Qed.

Lemma init_ok_maildir_Good st : init_ok_maildir st = true -> Good st.
Proof.
  unfold init_ok_maildir. destruct (st_sel st) eqn:Es; [discriminate|]. intros H.
  apply andb_true_iff in H. destruct H as [H H3]. apply andb_true_iff in H. destruct H as [H1 H2].
  split; [left; split; [|split]|].
  - apply Forall_forall. intros nb Hnb. rewrite forallb_forall in H1. apply box_ok_b_sound, H1, Hnb.
  - intros _. apply Forall_forall. intros nb Hnb. rewrite forallb_forall in H2.
    specialize (H2 nb Hnb). apply andb_true_iff in H2. destruct H2 as [Hw HF]. split.
    + apply negb_true_iff, Hw.
    + apply Forall_forall. intros m Hm. rewrite forallb_forall in HF. apply HF, Hm.
  - rewrite Es. exact I.
  - destruct (lookup GONE (st_boxes st)); [discriminate|reflexivity].
Qed.

(* ---- what the spec's STORE does, flag by flag (dict: stores any flag) *)
Definition permitted (P : fset) (f : flag) : bool :=
  mem FWild (perm_defined P) || mem f (perm_defined P).

Lemma mem_perm_intersect P fl f :
  mem f (perm_intersect (perm_defined P) fl) = mem f fl && permitted P f.
Proof.
  unfold perm_intersect, permitted. destruct (mem FWild (perm_defined P)); cbn [orb].
  - rewrite andb_true_r. reflexivity.
  - apply mem_inter.
Qed.

Theorem store_exact b op fl m f :
  mem f (store_flags Dict b op fl m) =
  match op with
  | OpReplace => mem f fl && permitted (b_perm b) f
  | OpAdd => mem f (m_flags m) || (mem f fl && permitted (b_perm b) f)
  | OpDelete => mem f (m_flags m) && negb (mem f fl && permitted (b_perm b) f)
  end.
Proof.
  unfold store_flags. cbn [storable]. destruct op; cbn [op_apply].
  - apply mem_perm_intersect.
  - rewrite mem_union, mem_perm_intersect. reflexivity.
  - rewrite mem_diff, mem_perm_intersect. reflexivity.
Qed.

(* \Recent is never permitted, so STORE cannot set or clear it *)
Lemma recent_not_permitted P : mem FWild P = false -> permitted P FRecent = false.
Proof.
  intros Hw. unfold permitted, perm_defined. rewrite !mem_diff, Hw. cbn. apply andb_false_r.
Qed.

(* ---- MOVE = COPY, then removal of the originals (on the mailboxes) *)
Theorem move_is_copy_then_remove st uid ss dest s b d :
  sp_sel st = Some s -> ss_ro s = false ->
  lookup (ss_box s) (sp_boxes st) = Some b -> lookup dest (sp_boxes st) = Some d -> b_ro d = false ->
  let after_copy := sp_boxes (fst (spec_copy st uid ss dest)) in
  sp_boxes (fst (spec_move st uid ss dest)) =
  match lookup (ss_box s) after_copy with
  | Some b1 => set_box (ss_box s)
                 (set_msgs b1 (filter (fun m => negb (memN (m_uid m)
                                 (uids_of (selected_msgs uid ss (b_msgs b))))) (b_msgs b1)))
                 after_copy
  | None => after_copy
  end.
Proof.
  intros Hs Hro Hb Hd Hrd. unfold spec_move, spec_copy. rewrite Hs, Hro, Hb, Hd, Hrd.
  unfold deliver. cbn [fst sp_boxes sset].
  destruct (lookup (ss_box s) (set_box dest _ (sp_boxes st))) as [b1|] eqn:E1.
  - reflexivity.
  - exfalso. destruct (N.eq_dec (ss_box s) dest) as [Ee|Ne].
    + rewrite Ee, lookup_set_box_same, Hd in E1. discriminate.
    + rewrite lookup_set_box_other, Hb in E1 by congruence. discriminate.
Qed.

(* ---- in one session a STORE/FETCH never meets an expunged message *)
Lemma spec_no_expungeissued st c : o_code (snd (spec_step st c)) <> CExpungeIssued.
Proof.
  destruct c; cbn [spec_step];
    unfold spec_select, spec_append, spec_store, spec_expunge, spec_copy, spec_move,
           spec_fetch, spec_close, spec_noop, spec_status, spec_search, spec_create,
           spec_delete, spec_rename, names_done, sreply, deliver, scopy_code;
    repeat match goal with
           | |- context [match ?x with _ => _ end] =>
             match type of x with
             | option _ => destruct x
             | bool => destruct x
             | backend => destruct x
             | list _ => destruct x
             | (_ * _)%type => destruct x
             end
           end; cbn; discriminate.
Qed.

Theorem no_expungeissued prog st : Good st -> Forall wf_cmd prog ->
  Forall (fun o => o_code o <> CExpungeIssued) (snd (run st prog)).
Proof.
  intros HI Hw. destruct (refines prog st HI Hw) as (Ho & _ & _). rewrite Ho. clear Ho HI Hw.
  generalize (abs st). induction prog as [|c r IH]; intros sp; cbn [spec_run]; [constructor|].
  pose proof (spec_no_expungeissued sp c) as Hc.
  destruct (spec_step sp c) as [sp1 o]. specialize (IH sp1).
  destruct (spec_run sp1 r) as [sp2 os]. cbn [snd] in *. constructor; assumption.
Qed.

(* ---- non-vacuity: a dict-like state and a program with every command *)
Definition ex_boxes : boxes :=
  [(0, mkBox [mkMsg 101 [FSeen] 10 1 false; mkMsg 102 [FAnswered; FSeen] 20 2 false;
              mkMsg 103 [FFlagged] 30 3 false; mkMsg 104 [] 40 4 true] 104 false
             [FSeen; FAnswered; FFlagged; FDeleted; FDraft] 7);
   (1, mkBox [mkMsg 101 [FSeen] 50 5 false] 101 false [FSeen; FAnswered; FFlagged; FDeleted; FDraft] 7);
   (2, mkBox [mkMsg 101 [] 60 6 true] 101 true [FSeen; FAnswered; FFlagged; FDeleted; FDraft] 7)].
Definition ex_prog : list cmd :=
  [CSelect 0 false;
   CStore false [SRange SMax (SNum 2); SOne (SNum 2)] OpAdd false [FDeleted; FKw 0; FRecent];
   CFetch true [SRange (SNum 103) SMax] [mkAttr AFlags false false; mkAttr ABody true true];
   CAppend 0 [mkAmsg [FSeen; FKw 1; FRecent] 70 7 false; mkAmsg [] 71 8 false];
   CStatus 0; CSearch true [KFlag FSeen true; KNot (KSet false [SOne (SNum 1)])]; CNoop; CCheck;
   CCreate 4 77; CRename 1 5 0; CDelete 4;
   CCopy false [SOne (SNum 1); SOne SMax] 0;
   CMove true [SRange (SNum 1) (SNum 102)] 1;
   CStore true [SOne (SNum 103)] OpReplace true [FDeleted];
   CExpunge (Some [SOne (SNum 104)]); CExpunge None;
   CCopy false [SOne (SNum 1)] 2; CMove false [SOne SMax] 0;
   CClose; CFetch false [SOne (SNum 1)] []; CSelect 1 true; CMove false [SOne (SNum 1)] 0; CClose].
Example refines_example :
  let st := mkState Dict ex_boxes None in
  init_ok st = true /\
  map o_cond (snd (run st ex_prog))
  = [OK; OK; OK; OK; OK; OK; OK; OK; OK; OK; OK; OK; NO; OK; OK; OK; NO; OK; OK; BAD; NO; BAD; BAD] /\
  snd (run st ex_prog) = snd (spec_run (abs st) ex_prog) /\
  abs (fst (run st ex_prog)) = fst (spec_run (abs st) ex_prog).
Proof. vm_compute. repeat split. Qed.

(* ---- maildir COPY/MOVE between folders with different keyword tables
   (finding C10-F3): the carried flag set can contain a flag the original did
   not have; with one shared table (Inv, maildir_ok) flags are carried as
   they are. *)
Theorem keyword_tables_refuted :
  exists src dst fl f, mem f (maildir_carry src dst fl) = true /\ mem f fl = false.
Proof.
  exists [FKw 0; FKw 1], [FKw 2; FKw 0], [FKw 0; FSeen], (FKw 2). vm_compute. split; reflexivity.
Qed.

Lemma index_of_nth f t i : index_of f t = Some i -> nth_error t i = Some f.
Proof.
  revert i. induction t as [|g r IH]; intros i H; cbn [index_of] in H; [discriminate|].
  destruct (flag_eqb f g) eqn:E.
  - inversion H; subst. apply flag_eqb_eq in E. subst. reflexivity.
  - destruct (index_of f r) as [j|]; [|discriminate]. inversion H; subst. cbn. apply IH. reflexivity.
Qed.

Lemma index_of_mem f t : mem f t = true -> exists i, index_of f t = Some i.
Proof.
  induction t as [|g r IH]; cbn [mem existsb index_of]; [discriminate|].
  destruct (flag_eqb f g); [eexists; reflexivity|]. cbn [orb]. intros H.
  destruct (IH H) as (i & ->). eexists; reflexivity.
Qed.

Theorem keyword_same_table t fl :
  (forall f, mem f fl = true -> is_sys5 f = true \/ mem f t = true) ->
  maildir_carry t t fl = fl.
Proof.
  intros H. unfold maildir_carry. induction fl as [|f r IH]; [reflexivity|].
  cbn [flat_map]. rewrite IH.
  - unfold carry_flag. destruct (H f) as [Hs|Hm].
    + cbn [mem existsb]. rewrite flag_eqb_refl. reflexivity.
    + rewrite Hs. reflexivity.
    + destruct (is_sys5 f); [reflexivity|]. destruct (index_of_mem f t Hm) as (i & Hi).
      rewrite Hi, (index_of_nth f t i Hi). reflexivity.
  - intros g Hg. apply H. cbn [mem existsb]. fold (mem g r). rewrite Hg. apply orb_true_r.
Qed.
