(* RefModel/ToldProofs.v — the model equals the told-view reference (Told.v) on every
   labelled program: programs of one session's commands with any changes by other
   connections in between.  Needs only that mailboxes are well-formed and that what the
   session was told is an ascending UID list not above the mailbox's UID counter
   ([Wk]), which every step keeps. *)
From Coq Require Import Sorting.Sorted.
From PV Require Import Base.Prelude Wire.SeqSet RefModel.Flags RefModel.Model RefModel.Spec
  RefModel.BoxLemmas RefModel.AddrProofs RefModel.CompareProofs RefModel.LoopProofs
  RefModel.SimBase RefModel.SimStore RefModel.SimOther RefModel.SimNew RefModel.InitOk
  RefModel.Proofs RefModel.Told.
Local Open Scope N_scope.

(* ------------------------------------------------------------ find_msg *)
Lemma find_msg_uid u l m : find_msg u l = Some m -> m_uid m = u.
Proof.
  unfold find_msg. intros H. apply find_some in H. destruct H as [_ H]. apply N.eqb_eq, H.
Qed.
Lemma find_msg_in u l m : find_msg u l = Some m -> In m l.
Proof. unfold find_msg. intros H. apply find_some in H. apply H. Qed.
Lemma find_msg_self u l m : find_msg u l = Some m -> find_msg (m_uid m) l = Some m.
Proof. intros H. rewrite (find_msg_uid _ _ _ H). exact H. Qed.
Lemma find_msg_none_iff u l : find_msg u l = None -> ~ In u (uids_of l).
Proof.
  unfold find_msg, uids_of. intros H Hi. apply in_map_iff in Hi. destruct Hi as (m & E & Hm).
  apply (find_none _ _ H) in Hm. rewrite E, N.eqb_refl in Hm. discriminate.
Qed.

(* a map that keeps UIDs and leaves the messages with other UIDs than [u] alone *)
Lemma find_msg_map_other (f : msg -> msg) u l :
  (forall x, m_uid (f x) = m_uid x) -> (forall x, m_uid x = u -> f x = x) ->
  find_msg u (map f l) = find_msg u l.
Proof.
  intros Hu Hf. unfold find_msg. induction l as [|x r IH]; cbn [map find]; [reflexivity|].
  rewrite Hu. destruct (m_uid x =? u) eqn:E.
  - apply N.eqb_eq in E. rewrite Hf by exact E. reflexivity.
  - exact IH.
Qed.
Lemma find_msg_filter_other p u l :
  (forall x, m_uid x = u -> p x = true) -> find_msg u (filter p l) = find_msg u l.
Proof.
  intros Hp. unfold find_msg. induction l as [|x r IH]; cbn [filter find]; [reflexivity|].
  destruct (m_uid x =? u) eqn:E.
  - apply N.eqb_eq in E. rewrite (Hp x E). cbn [find]. apply N.eqb_eq in E. rewrite E. reflexivity.
  - destruct (p x); [cbn [find]; rewrite E|]; exact IH.
Qed.
Lemma find_msg_app_fresh u l x : m_uid x <> u -> find_msg u (l ++ [x]) = find_msg u l.
Proof.
  intros Hx. unfold find_msg. induction l as [|y r IH]; cbn [app find].
  - destruct (m_uid x =? u) eqn:E; [apply N.eqb_eq in E; congruence|reflexivity].
  - destruct (m_uid y =? u); [reflexivity|exact IH].
Qed.

(* ------------------------------------------------- update_loop, any targets *)
Lemma t_upd_is bk perm op fs m : t_upd bk perm op fs m = upd_flags bk perm op fs m.
Proof. reflexivity. Qed.

Lemma update_loop_told bk op fs : forall T b,
  NoDup (uids_of (b_msgs b)) -> NoDup (t_uids T) ->
  update_loop bk b T fs op = (t_store_box bk b T fs op, t_store_res bk b T fs op).
Proof.
  induction T as [|[q c] r IH]; intros b Hb HT; cbn [update_loop].
  - unfold t_store_box, t_store_res. cbn [t_uids map memN existsb]. rewrite map_id.
    rewrite set_msgs_self. reflexivity.
  - cbn [t_uids map snd] in HT. inversion HT as [|? ? Hc HT']; subst. fold (t_uids r) in *.
    unfold mb_update. destruct (find_msg (m_uid c) (b_msgs b)) as [m|] eqn:Ef.
    + set (m' := set_flags m (storable bk (b_perm b) (op_apply op (m_flags m) fs))).
      set (f1 := fun x : msg => if m_uid x =? m_uid c then m' else x).
      assert (Hm : m_uid m = m_uid c) by (apply (find_msg_uid _ _ _ Ef)).
      assert (Hf1u : forall x, m_uid (f1 x) = m_uid x).
      { intros x. unfold f1. destruct (m_uid x =? m_uid c) eqn:E; [|reflexivity].
        apply N.eqb_eq in E. cbn. congruence. }
      assert (Hb1 : NoDup (uids_of (b_msgs (set_msgs b (map f1 (b_msgs b)))))).
      { cbn [b_msgs set_msgs]. unfold uids_of. rewrite map_map.
        rewrite (map_ext _ m_uid) by exact Hf1u. exact Hb. }
      rewrite (IH _ Hb1 HT'). unfold t_store_box, t_store_res. cbn [b_msgs set_msgs b_perm fst snd map t_uids].
      fold (t_uids r). rewrite Ef. apply (f_equal2 pair).
      * unfold set_msgs. cbn [b_maxuid b_ro b_perm b_uidv]. f_equal. rewrite map_map.
        apply map_ext_in. intros x Hx. unfold f1. cbn [memN existsb]. fold (memN (m_uid x) (t_uids r)).
        destruct (m_uid x =? m_uid c) eqn:E.
        -- apply N.eqb_eq in E.
           assert (x = m).
           { pose proof (find_msg_In _ x Hb Hx) as H1. rewrite E, Ef in H1. congruence. }
           subst x. cbn [orb].
           replace (memN (m_uid m') (t_uids r)) with false; [reflexivity|].
           symmetry. apply memN_false. cbn [m' set_flags m_uid]. rewrite Hm. exact Hc.
        -- cbn [orb]. reflexivity.
      * f_equal. apply map_ext_in. intros [q' c'] Hq. cbn [fst snd].
        assert (Hne : m_uid c' <> m_uid c).
        { intros E. apply Hc. rewrite <- E. unfold t_uids.
          apply (in_map (fun qc : N * msg => m_uid (snd qc)) _ _ Hq). }
        rewrite find_msg_map_other; [reflexivity|exact Hf1u|].
        intros x Ex. unfold f1. destruct (m_uid x =? m_uid c) eqn:E; [|reflexivity].
        apply N.eqb_eq in E. congruence.
    + rewrite (IH _ Hb HT'). unfold t_store_box, t_store_res. cbn [fst snd map t_uids]. fold (t_uids r).
      rewrite Ef. apply (f_equal2 pair); [|reflexivity]. f_equal. apply map_ext_in. intros x Hx.
      cbn [memN existsb]. fold (memN (m_uid x) (t_uids r)).
      destruct (m_uid x =? m_uid c) eqn:E; [|reflexivity]. apply N.eqb_eq in E. exfalso.
      apply (find_msg_none_iff _ _ Ef). rewrite <- E. apply in_map, Hx.
Qed.

Lemma get_loop_told b T : get_loop b T = t_get_res b T.
Proof.
  induction T as [|[q c] r IH]; cbn [get_loop t_get_res map]; [reflexivity|].
  fold (t_get_res b r). rewrite IH. cbn [fst snd]. destruct (mb_get b c). reflexivity.
Qed.

(* --------------------------------------------- copy_loop, any targets *)
(* the loop depends on its targets only through the live messages with their UIDs *)
Definition live_pairs (l : list msg) (T : list (N * msg)) : list (N * msg) :=
  flat_map (fun qc => match find_msg (m_uid (snd qc)) l with
                      | Some m => [(fst qc, m)] | None => [] end) T.

Lemma live_pairs_snd l T : map snd (live_pairs l T) = t_live l T.
Proof.
  induction T as [|[q c] r IH]; cbn [live_pairs t_live flat_map]; [reflexivity|].
  fold (live_pairs l r). fold (t_live l r). rewrite map_app, IH.
  destruct (find_msg (m_uid (snd (q, c))) l); reflexivity.
Qed.

Lemma live_pairs_ext l l' T :
  (forall u, In u (t_uids T) -> find_msg u l' = find_msg u l) ->
  live_pairs l' T = live_pairs l T.
Proof.
  induction T as [|[q c] r IH]; intros H; cbn [live_pairs flat_map]; [reflexivity|].
  fold (live_pairs l r). fold (live_pairs l' r). cbn [snd fst].
  rewrite IH by (intros u Hu; apply H; right; exact Hu).
  rewrite (H (m_uid c)) by (left; reflexivity). reflexivity.
Qed.

Lemma copy_loop_live bk mv src dst ds : forall T bs rec sb d,
  lookup src bs = Some sb -> lookup dst bs = Some d ->
  NoDup (t_uids T) ->
  (src = dst -> Forall (fun u => u <= b_maxuid sb) (t_uids T)) ->
  copy_loop bk mv src dst ds bs rec T =
  copy_loop bk mv src dst ds bs rec (live_pairs (b_msgs sb) T).
Proof.
  induction T as [|[q c] r IH]; intros bs rec sb d Hs Hd HT Hle; [reflexivity|].
  cbn [t_uids map snd] in HT, Hle. fold (t_uids r) in *. inversion HT as [|? ? Hc HT']; subst.
  cbn [live_pairs flat_map snd fst]. fold (live_pairs (b_msgs sb) r).
  cbn [copy_loop]. rewrite Hs.
  destruct (find_msg (m_uid c) (b_msgs sb)) as [m|] eqn:Ef.
  - cbn [app copy_loop]. rewrite Hs. rewrite (find_msg_self _ _ _ Ef).
    assert (Hm : m_uid m = m_uid c) by (apply (find_msg_uid _ _ _ Ef)). rewrite Hm.
    set (bs1 := if mv then set_box src (mb_delete sb [m_uid c]) bs else bs).
    set (sb1 := if mv then mb_delete sb [m_uid c] else sb).
    assert (Hs1 : lookup src bs1 = Some sb1).
    { unfold bs1, sb1. destruct mv; [rewrite lookup_set_box_same, Hs; reflexivity|exact Hs]. }
    assert (Hmax1 : b_maxuid sb1 = b_maxuid sb) by (unfold sb1; destruct mv; reflexivity).
    assert (Hfind1 : forall u, In u (t_uids r) -> find_msg u (b_msgs sb1) = find_msg u (b_msgs sb)).
    { intros u Hu. unfold sb1. destruct mv; [|reflexivity]. cbn [mb_delete b_msgs set_msgs].
      apply find_msg_filter_other. intros x Ex. cbn [memN existsb]. rewrite orb_false_r.
      apply negb_true_iff, N.eqb_neq. intros E. apply Hc. rewrite <- E, Ex. exact Hu. }
    destruct (lookup dst bs1) as [db|] eqn:Ed1.
    2:{ exfalso. unfold bs1 in Ed1. destruct mv; [|congruence].
        destruct (N.eq_dec dst src) as [->|Hne].
        - rewrite lookup_set_box_same, Hs in Ed1. discriminate.
        - rewrite lookup_set_box_other in Ed1 by exact Hne. congruence. }
    cbn [mb_add].
    set (db' := mkBox (b_msgs db ++ [mkMsg (b_maxuid db + 1) (storable bk (b_perm db) (m_flags m)) (m_date m) (m_cid m) (negb ds)])
                      (b_maxuid db + 1) (b_ro db) (b_perm db) (b_uidv db)).
    set (bs2 := set_box dst db' bs1).
    set (rec2 := if ds then add_recent (b_maxuid db + 1) rec else rec).
    (* the source mailbox after this iteration *)
    assert (Hs2 : exists sb2, lookup src bs2 = Some sb2 /\ b_maxuid sb <= b_maxuid sb2 /\
                  forall u, In u (t_uids r) -> find_msg u (b_msgs sb2) = find_msg u (b_msgs sb)).
    { destruct (N.eq_dec src dst) as [E|Hne].
      - subst dst. exists db'. unfold bs2. rewrite lookup_set_box_same, Hs1.
        rewrite Hs1 in Ed1. inversion Ed1; subst db.
        split; [reflexivity|]. split; [cbn [db' b_maxuid]; lia|].
        intros u Hu. cbn [db' b_msgs]. rewrite find_msg_app_fresh; [apply Hfind1, Hu|].
        cbn [m_uid]. specialize (Hle eq_refl). inversion Hle as [|? ? _ Hle']; subst.
        rewrite Forall_forall in Hle'. specialize (Hle' u Hu). lia.
      - exists sb1. unfold bs2. rewrite lookup_set_box_other by congruence.
        split; [exact Hs1|]. split; [lia|exact Hfind1]. }
    destruct Hs2 as (sb2 & Hs2 & Hmax2 & Hfind2).
    assert (Hd2 : lookup dst bs2 = Some db').
    { unfold bs2. rewrite lookup_set_box_same, Ed1. reflexivity. }
    rewrite (IH bs2 rec2 sb2 db' Hs2 Hd2 HT').
    + rewrite (live_pairs_ext (b_msgs sb) (b_msgs sb2) r Hfind2). reflexivity.
    + intros E. specialize (Hle E). inversion Hle as [|? ? _ Hle']; subst.
      eapply Forall_impl; [|exact Hle']. cbn. intros; lia.
  - cbn [app]. apply (IH bs rec sb d Hs Hd HT').
    intros E. specialize (Hle E). inversion Hle; assumption.
Qed.

Lemma live_pairs_uids l T : NoDup (t_uids T) -> NoDup (uids_of (map snd (live_pairs l T))).
Proof.
  induction T as [|[q c] r IH]; intros H; cbn [live_pairs flat_map]; [constructor|].
  fold (live_pairs l r). cbn [t_uids map snd] in H. fold (t_uids r) in H.
  inversion H as [|? ? Hc H']; subst. cbn [snd fst].
  destruct (find_msg (m_uid c) l) as [m|] eqn:Ef; cbn [app]; [|apply IH, H'].
  cbn [map snd uids_of]. constructor; [|apply IH, H'].
  rewrite (find_msg_uid _ _ _ Ef). intros Hi. apply Hc.
  unfold uids_of in Hi. rewrite map_map in Hi. apply in_map_iff in Hi.
  destruct Hi as ([q' m'] & E & Hi). cbn [snd] in E. unfold live_pairs in Hi.
  apply in_flat_map in Hi. destruct Hi as ([q2 c2] & Hin & Hi). cbn [snd fst] in Hi.
  destruct (find_msg (m_uid c2) l) as [m2|] eqn:Ef2; [|destruct Hi].
  destruct Hi as [Hi|[]]. inversion Hi; subst. rewrite <- E, (find_msg_uid _ _ _ Ef2).
  apply (in_map (fun qc : N * msg => m_uid (snd qc)) _ _ Hin).
Qed.

Lemma live_pairs_found l T c : In c (map snd (live_pairs l T)) ->
  find_msg (m_uid c) l = Some c /\ In (m_uid c) (t_uids T).
Proof.
  intros Hi. apply in_map_iff in Hi. destruct Hi as ([q m] & E & Hi). cbn [snd] in E. subst m.
  unfold live_pairs in Hi. apply in_flat_map in Hi. destruct Hi as ([q2 c2] & Hin & Hi).
  cbn [snd fst] in Hi. destruct (find_msg (m_uid c2) l) as [m2|] eqn:Ef2; [|destruct Hi].
  destruct Hi as [Hi|[]]. inversion Hi; subst. split; [apply (find_msg_self _ _ _ Ef2)|].
  rewrite (find_msg_uid _ _ _ Ef2). apply (in_map (fun qc : N * msg => m_uid (snd qc)) _ _ Hin).
Qed.

Lemma t_deliver_is bk d ds cs : t_deliver bk d ds cs = delivered bk d ds cs.
Proof. reflexivity. Qed.
Lemma t_remove_is src cs bs : t_remove src cs bs = moved_out src cs bs.
Proof. reflexivity. Qed.

Lemma copy_loop_told bk src dst ds T bs rec sb d :
  lookup src bs = Some sb -> lookup dst bs = Some d ->
  NoDup (t_uids T) ->
  (src = dst -> Forall (fun u => u <= b_maxuid sb) (t_uids T)) ->
  let cs := t_live (b_msgs sb) T in
  let new := uids_of (copies_from bk (b_perm d) (b_maxuid d + 1) (negb ds) cs) in
  copy_loop bk false src dst ds bs rec T =
  (set_box dst (t_deliver bk d ds cs) bs, t_recent ds new rec, combine (uids_of cs) new).
Proof.
  intros Hs Hd HT Hle cs new.
  rewrite (copy_loop_live bk false src dst ds T bs rec sb d Hs Hd HT Hle).
  rewrite (copy_loop_copy bk src dst ds _ bs rec d Hd).
  - rewrite live_pairs_snd. reflexivity.
  - intros c Hc. exists sb. split; [exact Hs|]. apply (live_pairs_found _ _ _ Hc).
Qed.

Lemma move_loop_told bk src dst ds T bs rec sb d :
  lookup src bs = Some sb -> lookup dst bs = Some d ->
  NoDup (t_uids T) ->
  (src = dst -> Forall (fun u => u <= b_maxuid sb) (t_uids T)) ->
  let cs := t_live (b_msgs sb) T in
  let new := uids_of (copies_from bk (b_perm d) (b_maxuid d + 1) (negb ds) cs) in
  copy_loop bk true src dst ds bs rec T =
  (t_remove src cs (set_box dst (t_deliver bk d ds cs) bs), t_recent ds new rec,
   combine (uids_of cs) new).
Proof.
  intros Hs Hd HT Hle cs new.
  rewrite (copy_loop_live bk true src dst ds T bs rec sb d Hs Hd HT Hle).
  rewrite (copy_loop_move bk src dst ds _ bs rec d sb Hd Hs).
  - rewrite live_pairs_snd. reflexivity.
  - apply live_pairs_uids, HT.
  - intros c Hc. apply (live_pairs_found _ _ _ Hc).
  - intros E c Hc. apply live_pairs_found in Hc. destruct Hc as [_ Hc].
    specialize (Hle E). rewrite Forall_forall in Hle. specialize (Hle _ Hc).
    subst dst. rewrite Hs in Hd. inversion Hd; subst d. exact Hle.
Qed.

(* ------------------------------------------------------------ invariant *)
Definition view_ok (bs : boxes) (s : sel) : Prop :=
  asc (uids_of (s_view s)) /\ Forall (fun u => 0 < u) (uids_of (s_view s)) /\
  forall b, lookup (s_box s) bs = Some b ->
            Forall (fun u => u <= b_maxuid b) (uids_of (s_view s)).
Definition Wk (st : state) : Prop :=
  Forall (fun nb => box_ok (snd nb)) (st_boxes st) /\ lookup GONE (st_boxes st) = None /\
  match st_sel st with None => True | Some s => view_ok (st_boxes st) s end.

Lemma t_uids_snd T : t_uids T = uids_of (map snd T).
Proof. unfold t_uids, uids_of. rewrite map_map. reflexivity. Qed.

Lemma addressed_NoDup v uid ss : asc (uids_of v) -> NoDup (t_uids (t_addressed v uid ss)).
Proof. intros H. rewrite t_uids_snd. apply selected_NoDup, asc_NoDup, H. Qed.
Lemma enumerate_NoDup v : asc (uids_of v) -> NoDup (t_uids (enumerate v)).
Proof. intros H. rewrite t_uids_snd. unfold enumerate. rewrite enum_from_snd. apply asc_NoDup, H. Qed.

Lemma addressed_le v uid ss (P : N -> Prop) :
  Forall P (uids_of v) -> Forall P (t_uids (t_addressed v uid ss)).
Proof.
  intros H. rewrite t_uids_snd. rewrite Forall_forall in *. intros u Hu.
  unfold uids_of in Hu. apply in_map_iff in Hu. destruct Hu as (c & <- & Hc).
  apply H, in_map. exact (selected_In _ _ _ _ Hc).
Qed.

(* ------------------------------------------- one command: model = reference *)
Lemma told_store st uid ss op silent fl : Wk st ->
  do_store st uid ss op silent fl = t_store st uid ss op silent fl.
Proof.
  intros (Hb & _ & Hs). unfold do_store, t_store. destruct (st_sel st) as [s|]; [|reflexivity].
  destruct Hs as (Ha & _ & _). rewrite (get_all_spec _ _ _ Ha). fold (t_addressed (s_view s) uid ss).
  cbv zeta. destruct (s_ro s); [reflexivity|].
  destruct (lookup (s_box s) (st_boxes st)) as [b|] eqn:El; [|reflexivity].
  rewrite update_loop_told; [reflexivity| |apply addressed_NoDup, Ha].
  apply box_ok_NoDup. exact (Forall_lookup _ _ _ _ Hb El).
Qed.

Lemma told_fetch st uid ss attrs : Wk st -> do_fetch st uid ss attrs = t_fetch st uid ss attrs.
Proof.
  intros (Hb & _ & Hs). unfold do_fetch, t_fetch. destruct (st_sel st) as [s|]; [|reflexivity].
  destruct Hs as (Ha & _ & _).
  destruct (lookup (s_box s) (st_boxes st)) as [b|] eqn:El; [|reflexivity].
  rewrite (get_all_spec _ _ _ Ha). fold (t_addressed (s_view s) uid ss). cbv zeta.
  rewrite update_loop_told, get_loop_told; [reflexivity| |apply addressed_NoDup, Ha].
  apply box_ok_NoDup. exact (Forall_lookup _ _ _ _ Hb El).
Qed.

Lemma told_targets v uidset : asc (uids_of v) -> Forall (fun u => 0 < u) (uids_of v) ->
  expunge_targets v uidset = t_expunge_targets v uidset.
Proof.
  intros Ha Hp. destruct uidset as [ss|]; cbn [expunge_targets t_expunge_targets].
  - apply get_all_spec, Ha.
  - apply expunge_targets_all; assumption.
Qed.

Lemma told_expunge st uidset : Wk st -> do_expunge st uidset = t_expunge st uidset.
Proof.
  intros (Hb & _ & Hs). unfold do_expunge, t_expunge. destruct (st_sel st) as [s|]; [|reflexivity].
  destruct Hs as (Ha & Hp & _). rewrite (told_targets _ uidset Ha Hp). reflexivity.
Qed.

Lemma told_close st : Wk st -> do_close st = t_close st.
Proof.
  intros (Hb & _ & Hs). unfold do_close, t_close. destruct (st_sel st) as [s|]; [|reflexivity].
  destruct Hs as (Ha & Hp & _). rewrite (told_targets _ None Ha Hp). reflexivity.
Qed.

Lemma told_copy st uid ss dest : Wk st -> do_copy st uid ss dest = t_copy st uid ss dest.
Proof.
  intros (Hb & _ & Hs). unfold do_copy, t_copy. destruct (st_sel st) as [s|]; [|reflexivity].
  destruct Hs as (Ha & _ & Hle).
  destruct (lookup (s_box s) (st_boxes st)) as [sb|] eqn:El; [|reflexivity].
  destruct (lookup dest (st_boxes st)) as [d|] eqn:Ed; [|reflexivity].
  destruct (b_ro d); [reflexivity|].
  rewrite (get_all_spec _ _ _ Ha). fold (t_addressed (s_view s) uid ss). cbv zeta.
  rewrite (copy_loop_told _ _ _ _ _ _ _ sb d El Ed); [reflexivity|apply addressed_NoDup, Ha|].
  intros _. apply addressed_le, Hle, eq_refl.
Qed.

Lemma told_move st uid ss dest : Wk st -> do_move st uid ss dest = t_move st uid ss dest.
Proof.
  intros (Hb & _ & Hs). unfold do_move, t_move. destruct (st_sel st) as [s|]; [|reflexivity].
  destruct Hs as (Ha & _ & Hle). destruct (s_ro s); [reflexivity|].
  destruct (lookup (s_box s) (st_boxes st)) as [sb|] eqn:El; [|reflexivity].
  destruct (lookup dest (st_boxes st)) as [d|] eqn:Ed; [|reflexivity].
  destruct (b_ro d); [reflexivity|].
  rewrite (get_all_spec _ _ _ Ha). fold (t_addressed (s_view s) uid ss). cbv zeta.
  rewrite (move_loop_told _ _ _ _ _ _ _ sb d El Ed); [reflexivity|apply addressed_NoDup, Ha|].
  intros _. apply addressed_le, Hle, eq_refl.
Qed.

Lemma told_search st uid keys : Wk st -> do_search st uid keys = t_search st uid keys.
Proof.
  intros (Hb & _ & Hs). unfold do_search, t_search. destruct (st_sel st) as [s|]; [|reflexivity].
  destruct Hs as (Ha & _ & _).
  destruct (lookup (s_box s) (st_boxes st)) as [b|] eqn:El; [|reflexivity].
  rewrite get_loop_told. cbv zeta.
  rewrite (filter_ext (fun x : N * msg * bool =>
                         let '(q, m, _) := x in forallb (key_matches (s_view s) (s_recent s) q m) keys)
                      (fun x : N * msg * bool =>
                         let '(q, m, _) := x in forallb (skey_matches (s_view s) (s_recent s) q m) keys)).
  - reflexivity.
  - intros [[q m] ex]. apply forallb_ext_all. intros k. apply key_matches_spec, Ha.
Qed.

Lemma told_append st box msgs : Wk st -> do_append st box msgs = t_append st box msgs.
Proof.
  intros (Hb & _ & _). unfold do_append, t_append.
  destruct (lookup box (st_boxes st)) as [b|] eqn:El; [|reflexivity].
  destruct (b_ro b) eqn:Ero; [reflexivity|]. cbv zeta. rewrite append_loop_spec.
  pose proof (Forall_lookup _ _ _ _ Hb El) as Hok. cbn beta in Hok.
  rewrite !new_msgs_copies.
  destruct (existsb am_fail msgs).
  - rewrite (delivered_then_deleted _ _ _ _ Hok). rewrite as_msgs_length, Ero. reflexivity.
  - unfold delivered, t_recent. rewrite as_msgs_length, Ero. reflexivity.
Qed.

Lemma told_step st c : Wk st -> step st c = t_step st c.
Proof.
  intros H. destruct c; cbn [step t_step]; try reflexivity.
  - apply told_append, H.
  - apply told_store, H.
  - apply told_expunge, H.
  - apply told_copy, H.
  - apply told_move, H.
  - apply told_fetch, H.
  - apply told_close, H.
  - apply told_search, H.
Qed.

(* ------------------------------------------------- the invariant is kept *)
Lemma box_ok_map (f : msg -> msg) b : (forall x, m_uid (f x) = m_uid x) -> box_ok b ->
  box_ok (set_msgs b (map f (b_msgs b))).
Proof.
  intros Hf [H1 H2]. unfold box_ok. cbn [b_msgs set_msgs b_maxuid]. unfold uids_of in *.
  rewrite map_map, (map_ext _ m_uid) by exact Hf. split; assumption.
Qed.
Lemma box_ok_bump b l k : box_ok (mkBox l (b_maxuid b) (b_ro b) (b_perm b) (b_uidv b)) ->
  box_ok (mkBox l (b_maxuid b + k) (b_ro b) (b_perm b) (b_uidv b)).
Proof.
  intros [H1 H2]. split; [exact H1|]. cbn [b_msgs b_maxuid] in *.
  eapply Forall_impl; [|exact H2]. cbn. intros; lia.
Qed.

(* insert_by_uid / keep_pending keep ascending UID lists ascending *)
Lemma insert_In m l y : In y (insert_by_uid m l) <-> y = m \/ In y l.
Proof.
  induction l as [|x r IH]; cbn [insert_by_uid].
  - cbn. intuition.
  - destruct (m_uid m <? m_uid x); cbn [In]; [intuition|]. rewrite IH. intuition.
Qed.
Lemma insert_asc m l : asc (uids_of l) -> ~ In (m_uid m) (uids_of l) ->
  asc (uids_of (insert_by_uid m l)).
Proof.
  unfold uids_of. induction l as [|x r IH]; intros Ha Hn; cbn [insert_by_uid map].
  - repeat constructor.
  - cbn [map] in Ha, Hn. inversion Ha as [|? ? Hs Hf]; subst.
    destruct (m_uid m <? m_uid x) eqn:E.
    + apply N.ltb_lt in E. cbn [map]. constructor; [exact Ha|]. constructor; [exact E|].
      eapply Forall_impl; [|exact Hf]. cbn. intros; lia.
    + apply N.ltb_ge in E. cbn [map]. constructor.
      * apply IH; [exact Hs|]. intros Hi. apply Hn. right. exact Hi.
      * apply Forall_forall. intros u Hu. apply in_map_iff in Hu. destruct Hu as (y & <- & Hy).
        apply insert_In in Hy. destruct Hy as [->|Hy].
        -- assert (m_uid m <> m_uid x) by (intros E2; apply Hn; left; symmetry; exact E2). lia.
        -- rewrite Forall_forall in Hf. apply Hf, in_map, Hy.
Qed.

Lemma fold_insert_ok : forall pend acc,
  asc (uids_of acc) -> NoDup (uids_of pend) ->
  (forall m, In m pend -> ~ In (m_uid m) (uids_of acc)) ->
  asc (uids_of (fold_left (fun a m => insert_by_uid m a) pend acc)) /\
  (forall y, In y (fold_left (fun a m => insert_by_uid m a) pend acc) <-> In y pend \/ In y acc).
Proof.
  induction pend as [|p r IH]; intros acc Ha Hnd Hdis; cbn [fold_left].
  - split; [exact Ha|]. intros y. cbn. intuition.
  - cbn [uids_of map] in Hnd. inversion Hnd as [|? ? Hp Hr]; subst.
    destruct (IH (insert_by_uid p acc)) as [H1 H2].
    + apply insert_asc; [exact Ha|]. apply Hdis. left. reflexivity.
    + exact Hr.
    + intros m Hm Hi. unfold uids_of in Hi. apply in_map_iff in Hi. destruct Hi as (y & E & Hy).
      apply insert_In in Hy. destruct Hy as [->|Hy].
      * apply Hp. rewrite E. apply in_map, Hm.
      * apply (Hdis m (or_intror Hm)). rewrite <- E. apply in_map, Hy.
    + split; [exact H1|]. intros y. rewrite H2, insert_In. cbn [In]. intuition.
Qed.

Lemma asc_uids_filter (p : msg -> bool) l : asc (uids_of l) -> asc (uids_of (filter p l)).
Proof.
  unfold uids_of. induction l as [|x r IH]; intros Ha; cbn [filter map]; [constructor|].
  cbn [map] in Ha. inversion Ha as [|? ? Hs Hf]; subst.
  destruct (p x); cbn [map]; [|apply IH, Hs]. constructor; [apply IH, Hs|].
  rewrite Forall_forall in *. intros u Hu. apply in_map_iff in Hu. destruct Hu as (y & <- & Hy).
  apply filter_In in Hy. apply Hf, in_map, Hy.
Qed.

Lemma keep_pending_ok told now : asc (uids_of told) -> asc (uids_of now) ->
  asc (uids_of (keep_pending told now)) /\
  (forall y, In y (keep_pending told now) -> In y told \/ In y now).
Proof.
  intros Ht Hn. unfold keep_pending.
  destruct (fold_insert_ok (filter (fun m => negb (memN (m_uid m) (uids_of now))) told) now Hn)
    as [H1 H2].
  - apply asc_NoDup, asc_uids_filter, Ht.
  - intros m Hm. apply filter_In in Hm. destruct Hm as [_ Hm].
    apply negb_true_iff, memN_false in Hm. exact Hm.
  - split; [exact H1|]. intros y Hy. apply H2 in Hy. destruct Hy as [Hy|Hy]; [left|right; exact Hy].
    apply filter_In in Hy. apply Hy.
Qed.

Lemma view_ok_finish bs b s rec sil wu items :
  box_ok b -> lookup (s_box s) bs = Some b -> view_ok bs (fst (finish b s rec sil wu items)).
Proof.
  intros [H1 H2] Hl. unfold finish, view_ok. cbn [fst s_view s_box]. split; [exact H1|]. split.
  - eapply Forall_impl; [|exact H2]. cbn. intros; lia.
  - intros b0 E. rewrite Hl in E. inversion E; subst b0.
    eapply Forall_impl; [|exact H2]. cbn. intros; lia.
Qed.

Lemma view_ok_finish_h h bs b s rec sil wu items :
  box_ok b -> lookup (s_box s) bs = Some b ->
  asc (uids_of (s_view s)) -> Forall (fun u => 0 < u) (uids_of (s_view s)) ->
  Forall (fun u => u <= b_maxuid b) (uids_of (s_view s)) ->
  view_ok bs (fst (finish_h h b s rec sil wu items)).
Proof.
  intros Hok Hl Ha Hp Hle. destruct h; [|apply view_ok_finish; assumption].
  unfold finish_h, view_ok. cbn [fst s_view s_box].
  destruct Hok as [H1 H2]. destruct (keep_pending_ok (s_view s) (b_msgs b) Ha H1) as [K1 K2].
  assert (K : forall u, In u (uids_of (keep_pending (s_view s) (b_msgs b))) ->
                        0 < u <= b_maxuid b).
  { intros u Hu. unfold uids_of in Hu. apply in_map_iff in Hu. destruct Hu as (y & <- & Hy).
    rewrite Forall_forall in *. destruct (K2 y Hy) as [Hy'|Hy'].
    - split; [apply Hp|apply Hle]; apply in_map, Hy'.
    - apply H2, in_map, Hy'. }
  split; [exact K1|]. split.
  - apply Forall_forall. intros u Hu. apply K, Hu.
  - intros b0 E. rewrite Hl in E. inversion E; subst b0. apply Forall_forall. intros u Hu. apply K, Hu.
Qed.

(* the same told list against mailboxes whose UID counters did not go down *)
Lemma view_ok_mono bs bs' s s' : view_ok bs s ->
  s_box s' = s_box s -> uids_of (s_view s') = uids_of (s_view s) ->
  (forall b', lookup (s_box s) bs' = Some b' ->
              exists b, lookup (s_box s) bs = Some b /\ b_maxuid b <= b_maxuid b') ->
  view_ok bs' s'.
Proof.
  intros (H1 & H2 & H3) Eb Ev Hm. unfold view_ok. rewrite Ev, Eb. split; [exact H1|]. split; [exact H2|].
  intros b' Hb'. destruct (Hm b' Hb') as (b & Hb & Hle). specialize (H3 b Hb).
  eapply Forall_impl; [|exact H3]. cbn. intros; lia.
Qed.

Lemma fst_let {A B C} (p : A * B) (f : A -> B -> C) :
  (let '(a, b) := p in f a b) = f (fst p) (snd p).
Proof. destruct p; reflexivity. Qed.

Lemma Wk_reply st c k : Wk st -> Wk (fst (reply st c k)).
Proof. intros H. exact H. Qed.

Lemma lookup_same_some n b b0 bs : lookup n bs = Some b0 -> lookup n (set_box n b bs) = Some b.
Proof. intros H. rewrite lookup_set_box_same, H. reflexivity. Qed.

Lemma Wk_store st uid ss op silent fl : Wk st -> Wk (fst (t_store st uid ss op silent fl)).
Proof.
  intros H. pose proof H as (Hb & Hg & Hs). unfold t_store.
  destruct (st_sel st) as [s|] eqn:Es; [|exact H]. cbv zeta.
  destruct (s_ro s); [exact H|].
  destruct (lookup (s_box s) (st_boxes st)) as [b|] eqn:El; [|exact H].
  rewrite fst_let. cbn [fst]. destruct Hs as (Ha & Hp & Hle).
  pose proof (Forall_lookup _ _ _ _ Hb El) as Hok. cbn beta in Hok.
  assert (Hok' : box_ok (t_store_box (st_bk st) b (t_addressed (s_view s) uid ss)
                                     (perm_intersect (s_perm s) fl) op)).
  { unfold t_store_box. apply box_ok_map; [|exact Hok]. intros x. destruct (memN _ _); reflexivity. }
  split; [|split]; cbn [st_boxes st_sel set_sel].
  - apply Forall_set_box; assumption.
  - apply nogone_set_box, Hg.
  - apply view_ok_finish_h; try assumption.
    + apply (lookup_same_some _ _ _ _ El).
    + apply (Hle b El).
Qed.

Lemma Wk_fetch st uid ss attrs : Wk st -> Wk (fst (t_fetch st uid ss attrs)).
Proof.
  intros H. pose proof H as (Hb & Hg & Hs). unfold t_fetch.
  destruct (st_sel st) as [s|] eqn:Es; [|exact H]. cbv zeta.
  destruct (lookup (s_box s) (st_boxes st)) as [b|] eqn:El; [|exact H].
  destruct Hs as (Ha & Hp & Hle).
  pose proof (Forall_lookup _ _ _ _ Hb El) as Hok. cbn beta in Hok.
  destruct (negb (s_ro s) && existsb attr_set_seen attrs); rewrite fst_let; cbn [fst].
  - assert (Hok' : box_ok (t_store_box (st_bk st) b (t_addressed (s_view s) uid ss) [FSeen] OpAdd)).
    { unfold t_store_box. apply box_ok_map; [|exact Hok]. intros x. destruct (memN _ _); reflexivity. }
    split; [|split]; cbn [st_boxes st_sel set_sel].
    + apply Forall_set_box; assumption.
    + apply nogone_set_box, Hg.
    + apply view_ok_finish_h; try assumption.
      * apply (lookup_same_some _ _ _ _ El).
      * apply (Hle b El).
  - split; [|split]; cbn [st_boxes st_sel set_sel].
    + apply Forall_set_box; assumption.
    + apply nogone_set_box, Hg.
    + apply view_ok_finish_h; try assumption.
      * apply (lookup_same_some _ _ _ _ El).
      * apply (Hle b El).
Qed.

Lemma Wk_search st uid keys : Wk st -> Wk (fst (t_search st uid keys)).
Proof.
  intros H. pose proof H as (Hb & Hg & Hs). unfold t_search.
  destruct (st_sel st) as [s|] eqn:Es; [|exact H].
  destruct (lookup (s_box s) (st_boxes st)) as [b|] eqn:El; [|exact H]. cbv zeta.
  rewrite fst_let. cbn [fst]. destruct Hs as (Ha & Hp & Hle).
  pose proof (Forall_lookup _ _ _ _ Hb El) as Hok. cbn beta in Hok.
  split; [|split]; cbn [st_boxes st_sel set_sel]; [exact Hb|exact Hg|].
  apply view_ok_finish_h; try assumption. apply (Hle b El).
Qed.

Lemma box_ok_delete b dead : box_ok b -> box_ok (mb_delete b dead).
Proof. intros H. unfold mb_delete. apply box_ok_filter, H. Qed.

Lemma Wk_expunge st uidset : Wk st -> Wk (fst (t_expunge st uidset)).
Proof.
  intros H. pose proof H as (Hb & Hg & Hs). unfold t_expunge.
  destruct (st_sel st) as [s|] eqn:Es; [|exact H].
  destruct (s_ro s); [exact H|].
  destruct (lookup (s_box s) (st_boxes st)) as [b|] eqn:El; [|exact H]. cbv zeta.
  rewrite fst_let. cbn [fst].
  pose proof (Forall_lookup _ _ _ _ Hb El) as Hok. cbn beta in Hok.
  split; [|split]; cbn [st_boxes st_sel set_sel].
  - apply Forall_set_box; [exact Hb|apply box_ok_delete, Hok].
  - apply nogone_set_box, Hg.
  - apply view_ok_finish; [apply box_ok_delete, Hok|apply (lookup_same_some _ _ _ _ El)].
Qed.

Lemma Wk_close st : Wk st -> Wk (fst (t_close st)).
Proof.
  intros H. pose proof H as (Hb & Hg & Hs). unfold t_close.
  destruct (st_sel st) as [s|] eqn:Es; [|exact H]. cbv zeta.
  destruct (s_ro s); [split; [exact Hb|split; [exact Hg|exact I]]|].
  destruct (lookup (s_box s) (st_boxes st)) as [b|] eqn:El;
    [|split; [exact Hb|split; [exact Hg|exact I]]].
  pose proof (Forall_lookup _ _ _ _ Hb El) as Hok. cbn beta in Hok.
  split; [|split]; cbn [fst reply st_boxes st_sel set_sel]; [|apply nogone_set_box, Hg|exact I].
  apply Forall_set_box; [exact Hb|apply box_ok_delete, Hok].
Qed.

Lemma Wk_copy st uid ss dest : Wk st -> Wk (fst (t_copy st uid ss dest)).
Proof.
  intros H. pose proof H as (Hb & Hg & Hs). unfold t_copy.
  destruct (st_sel st) as [s|] eqn:Es; [|exact H].
  destruct (lookup (s_box s) (st_boxes st)) as [sb|] eqn:El; [|exact H].
  destruct (lookup dest (st_boxes st)) as [d|] eqn:Ed; [|exact H].
  destruct (b_ro d); [exact H|]. cbv zeta.
  set (bs' := set_box dest _ (st_boxes st)).
  assert (Hb' : Forall (fun nb => box_ok (snd nb)) bs').
  { apply Forall_set_box; [exact Hb|]. rewrite t_deliver_is. apply box_ok_delivered.
    exact (Forall_lookup _ _ _ _ Hb Ed). }
  assert (Hg' : lookup GONE bs' = None) by (apply nogone_set_box, Hg).
  destruct (lookup (s_box s) bs') as [b'|] eqn:El'; [|exact H].
  rewrite fst_let. cbn [fst]. split; [|split]; cbn [st_boxes st_sel set_sel]; [exact Hb'|exact Hg'|].
  apply view_ok_finish; [|exact El']. exact (Forall_lookup _ _ _ _ Hb' El').
Qed.

Lemma Wk_move st uid ss dest : Wk st -> Wk (fst (t_move st uid ss dest)).
Proof.
  intros H. pose proof H as (Hb & Hg & Hs). unfold t_move.
  destruct (st_sel st) as [s|] eqn:Es; [|exact H].
  destruct (s_ro s); [exact H|].
  destruct (lookup (s_box s) (st_boxes st)) as [sb|] eqn:El; [|exact H].
  destruct (lookup dest (st_boxes st)) as [d|] eqn:Ed; [|exact H].
  destruct (b_ro d); [exact H|]. cbv zeta.
  set (bs1 := set_box dest _ (st_boxes st)).
  assert (Hb1 : Forall (fun nb => box_ok (snd nb)) bs1).
  { apply Forall_set_box; [exact Hb|]. rewrite t_deliver_is. apply box_ok_delivered.
    exact (Forall_lookup _ _ _ _ Hb Ed). }
  assert (Hg1 : lookup GONE bs1 = None) by (apply nogone_set_box, Hg).
  set (bs' := t_remove (s_box s) _ bs1).
  assert (Hb' : Forall (fun nb => box_ok (snd nb)) bs' /\ lookup GONE bs' = None).
  { unfold bs', t_remove. destruct (lookup (s_box s) bs1) as [s1|] eqn:E1; [|split; assumption].
    split; [|apply nogone_set_box, Hg1]. apply Forall_set_box; [exact Hb1|].
    apply box_ok_filter. exact (Forall_lookup _ _ _ _ Hb1 E1). }
  destruct Hb' as [Hb' Hg'].
  destruct (lookup (s_box s) bs') as [b'|] eqn:El'; [|exact H].
  rewrite fst_let. cbn [fst]. split; [|split]; cbn [st_boxes st_sel set_sel]; [exact Hb'|exact Hg'|].
  apply view_ok_finish; [|exact El']. exact (Forall_lookup _ _ _ _ Hb' El').
Qed.

Lemma Wk_append st box msgs : Wk st -> Wk (fst (t_append st box msgs)).
Proof.
  intros H. pose proof H as (Hb & Hg & Hs). unfold t_append.
  destruct (lookup box (st_boxes st)) as [b|] eqn:El; [|exact H].
  destruct (b_ro b) eqn:Ero; [exact H|]. cbv zeta.
  pose proof (Forall_lookup _ _ _ _ Hb El) as Hok. cbn beta in Hok.
  destruct (existsb am_fail msgs).
  - split; [|split]; cbn [fst st_boxes st_sel set_sel]; [|apply nogone_set_box, Hg|exact I].
    apply Forall_set_box; [exact Hb|]. rewrite <- Ero. apply box_ok_bump. destruct b; exact Hok.
  - set (b' := mkBox _ _ _ _ _).
    assert (Hok' : box_ok b').
    { unfold b'. rewrite new_msgs_copies, <- (as_msgs_length (before_failure msgs)), <- Ero.
      apply (box_ok_delivered (st_bk st) (dest_selected st box) (as_msgs (before_failure msgs)) b Hok). }
    set (bs' := set_box box b' (st_boxes st)).
    assert (Hb' : Forall (fun nb => box_ok (snd nb)) bs') by (apply Forall_set_box; assumption).
    assert (Hg' : lookup GONE bs' = None) by (apply nogone_set_box, Hg).
    destruct (st_sel st) as [s|] eqn:Es; [|split; [exact Hb'|split; [exact Hg'|exact I]]].
    destruct (lookup (s_box s) bs') as [sb|] eqn:El'; [|split; [exact Hb'|split; [exact Hg'|exact I]]].
    rewrite fst_let. cbn [fst]. split; [|split]; cbn [st_boxes st_sel set_sel]; [exact Hb'|exact Hg'|].
    apply view_ok_finish; [|exact El']. exact (Forall_lookup _ _ _ _ Hb' El').
Qed.

Lemma Wk_select st box ro : Wk st -> Wk (fst (do_select st box ro)).
Proof.
  intros H. pose proof H as (Hb & Hg & Hs). unfold do_select.
  destruct (lookup box (st_boxes st)) as [b|] eqn:El;
    [|split; [exact Hb|split; [exact Hg|exact I]]]. cbv zeta.
  pose proof (Forall_lookup _ _ _ _ Hb El) as Hok. cbn beta in Hok.
  set (b' := if ro || b_ro b then b else set_msgs b (map clear_recent (b_msgs b))).
  assert (Hok' : box_ok b').
  { unfold b'. destruct (ro || b_ro b); [exact Hok|]. apply box_ok_map; [reflexivity|exact Hok]. }
  split; [|split]; cbn [fst st_boxes st_sel set_sel].
  - apply Forall_set_box; assumption.
  - apply nogone_set_box, Hg.
  - destruct Hok' as [H1 H2]. unfold view_ok. cbn [s_view s_box]. split; [exact H1|]. split.
    + eapply Forall_impl; [|exact H2]. cbn. intros; lia.
    + intros b0 E. rewrite (lookup_same_some _ _ _ _ El) in E. inversion E; subst b0.
      eapply Forall_impl; [|exact H2]. cbn. intros; lia.
Qed.

Lemma Wk_noop st ck : Wk st -> Wk (fst (do_noop st ck)).
Proof.
  intros H. pose proof H as (Hb & Hg & Hs). unfold do_noop.
  destruct (st_sel st) as [s|] eqn:Es; [|destruct ck; exact H].
  destruct (lookup (s_box s) (st_boxes st)) as [b|] eqn:El; [|exact H].
  rewrite fst_let. cbn [fst]. split; [|split]; cbn [st_boxes st_sel set_sel]; [exact Hb|exact Hg|].
  apply view_ok_finish; [|exact El]. exact (Forall_lookup _ _ _ _ Hb El).
Qed.

Lemma Wk_status st box : Wk st -> Wk (fst (do_status st box)).
Proof.
  intros H. pose proof H as (Hb & Hg & Hs). unfold do_status.
  destruct (lookup box (st_boxes st)) as [b|] eqn:El; [|exact H]. cbv zeta.
  destruct (st_sel st) as [s|] eqn:Es; [|exact H].
  destruct (lookup (s_box s) (st_boxes st)) as [sb|] eqn:Els;
    [|split; [exact Hb|split; [exact Hg|exact I]]].
  rewrite fst_let. cbn [fst]. split; [|split]; cbn [st_boxes st_sel set_sel]; [exact Hb|exact Hg|].
  apply view_ok_finish; [|exact Els]. exact (Forall_lookup _ _ _ _ Hb Els).
Qed.

Lemma Wk_after_names st bs' :
  Forall (fun nb => box_ok (snd nb)) bs' -> lookup GONE bs' = None ->
  Wk (fst (after_names st bs')).
Proof.
  intros Hb Hg. unfold after_names, load_updates.
  destruct (st_sel st) as [s|]; [|split; [exact Hb|split; [exact Hg|exact I]]].
  destruct (lookup (s_box s) bs') as [b|] eqn:El; [|split; [exact Hb|split; [exact Hg|exact I]]].
  rewrite !fst_let. cbn [fst]. split; [|split]; cbn [st_boxes st_sel set_sel]; [exact Hb|exact Hg|].
  apply view_ok_finish; [|exact El]. exact (Forall_lookup _ _ _ _ Hb El).
Qed.

Lemma Forall_app_one (P : mbox -> Prop) (bs : boxes) (n : N) b :
  Forall (fun nb => P (snd nb)) bs -> P b -> Forall (fun nb => P (snd nb)) (bs ++ [(n, b)]).
Proof. intros H Hb. apply Forall_app. split; [exact H|]. constructor; [exact Hb|constructor]. Qed.

Lemma Wk_create st box uidv : Wk st -> box <> GONE -> Wk (fst (do_create st box uidv)).
Proof.
  intros H Hw. pose proof H as (Hb & Hg & Hs). unfold do_create.
  destruct (box =? INBOX); [exact H|].
  destruct (lookup box (st_boxes st)); [exact H|].
  apply Wk_after_names; [apply Forall_app_one; [exact Hb|apply new_box_ok]|apply nogone_app; assumption].
Qed.

Lemma Wk_delete st box : Wk st -> Wk (fst (do_delete st box)).
Proof.
  intros H. pose proof H as (Hb & Hg & Hs). unfold do_delete.
  destruct (box =? INBOX); [exact H|].
  destruct (lookup box (st_boxes st)); [|exact H].
  apply Wk_after_names; [apply Forall_del, Hb|apply nogone_del, Hg].
Qed.

Lemma Wk_rename st from to uidv : Wk st -> to <> GONE -> Wk (fst (do_rename st from to uidv)).
Proof.
  intros H Hw. pose proof H as (Hb & Hg & Hs). unfold do_rename.
  destruct (to =? INBOX); [exact H|].
  destruct ((from =? INBOX) && match st_bk st with Maildir => true | Dict => false end); [exact H|].
  destruct (lookup from (st_boxes st)) as [b|] eqn:El; [|exact H].
  destruct (lookup to (st_boxes st)); [exact H|].
  pose proof (Forall_lookup _ _ _ _ Hb El) as Hok. cbn beta in Hok.
  destruct (from =? INBOX).
  - set (bs' := set_box INBOX (new_box Dict uidv) (st_boxes st) ++ [(to, b)]).
    assert (Hb' : Forall (fun nb => box_ok (snd nb)) bs').
    { apply Forall_app_one; [|exact Hok]. apply Forall_set_box; [exact Hb|apply new_box_ok]. }
    assert (Hg' : lookup GONE bs' = None).
    { apply nogone_app; [apply nogone_set_box, Hg|exact Hw]. }
    destruct (inbox_selected (st_sel st)) eqn:Ei; [|apply Wk_after_names; assumption].
    split; [|split]; cbn [fst st_boxes st_sel set_sel]; [exact Hb'|exact Hg'|].
    unfold inbox_selected in Ei. destruct (st_sel st) as [s|]; [|discriminate].
    cbn [unname]. rewrite Ei. destruct Hs as (H1 & H2 & _).
    unfold view_ok. cbn [s_view s_box]. split; [exact H1|]. split; [exact H2|].
    intros b0 E. rewrite Hg' in E. discriminate.
  - apply Wk_after_names.
    + apply Forall_app_one; [apply Forall_del, Hb|exact Hok].
    + apply nogone_app; [apply nogone_del, Hg|exact Hw].
Qed.

Definition wf_label (l : label) : Prop :=
  match l with LCmd c => wf_cmd c | LExt _ => True end.

Lemma Wk_step st c : Wk st -> wf_cmd c -> Wk (fst (t_step st c)).
Proof.
  intros H Hw. destruct c; cbn [t_step].
  - apply Wk_select, H.
  - apply Wk_append, H.
  - apply Wk_store, H.
  - apply Wk_expunge, H.
  - apply Wk_copy, H.
  - apply Wk_move, H.
  - apply Wk_fetch, H.
  - apply Wk_close, H.
  - apply Wk_noop, H.
  - apply Wk_noop, H.
  - apply Wk_status, H.
  - apply Wk_search, H.
  - apply Wk_create; [exact H|exact Hw].
  - apply Wk_delete, H.
  - apply Wk_rename; [exact H|exact Hw].
Qed.

(* ---- what other connections do *)
Lemma uids_refresh b v : uids_of (refresh_cached b v) = uids_of v.
Proof.
  unfold refresh_cached, uids_of. rewrite map_map. apply map_ext. intros c.
  destruct (find_msg (m_uid c) (b_msgs b)) as [m|]; [|reflexivity].
  destruct (mem FDeleted (m_flags m)); reflexivity.
Qed.

Lemma sel_mono st box b b' (sl : option sel) :
  lookup box (st_boxes st) = Some b -> b_maxuid b <= b_maxuid b' ->
  match st_sel st with None => True | Some s => view_ok (st_boxes st) s end ->
  (match st_sel st, sl with
   | Some s, Some s' => s_box s' = s_box s /\ uids_of (s_view s') = uids_of (s_view s)
   | None, None => True
   | _, _ => False
   end) ->
  match sl with None => True | Some s' => view_ok (set_box box b' (st_boxes st)) s' end.
Proof.
  intros El Hle Hs Hrel. destruct (st_sel st) as [s|]; destruct sl as [s'|]; try exact I; try destruct Hrel.
  apply (view_ok_mono (st_boxes st) _ s s' Hs); try assumption.
  intros b0 E0. destruct (N.eq_dec (s_box s) box) as [E|Hne].
  - rewrite E in *. rewrite (lookup_same_some _ _ _ _ El) in E0. inversion E0; subst b0.
    exists b. split; [exact El|exact Hle].
  - rewrite lookup_set_box_other in E0 by exact Hne. exists b0. split; [exact E0|lia].
Qed.

Lemma Wk_ext st e : Wk st -> Wk (ext_apply st e).
Proof.
  intros H. pose proof H as (Hb & Hg & Hs). destruct e as [box uids op fl|box fl date cid|box];
    unfold ext_apply; cbv zeta.
  - destruct (lookup box (st_boxes st)) as [b|] eqn:El; [|exact H].
    destruct (b_ro b); [exact H|].
    pose proof (Forall_lookup _ _ _ _ Hb El) as Hok. cbn beta in Hok.
    split; [|split]; cbn [st_boxes st_sel set_sel].
    + apply Forall_set_box; [exact Hb|]. rewrite map_map. apply box_ok_map; [|exact Hok].
      intros x. destruct (memN _ _); reflexivity.
    + apply nogone_set_box, Hg.
    + apply (sel_mono st box b _ (st_sel st) El); [cbn; lia|exact Hs|].
      destruct (st_sel st); [split; reflexivity|exact I].
  - destruct (lookup box (st_boxes st)) as [b|] eqn:El; [|exact H].
    destruct (b_ro b); [exact H|].
    pose proof (Forall_lookup _ _ _ _ Hb El) as Hok. cbn beta in Hok.
    rewrite fst_let. split; [|split]; cbn [st_boxes st_sel set_sel].
    + apply Forall_set_box; [exact Hb|]. apply box_ok_add, Hok.
    + apply nogone_set_box, Hg.
    + apply (sel_mono st box b _ _ El); [cbn; lia|exact Hs|].
      destruct (st_sel st) as [s|]; [|exact I].
      destruct (match st_bk st with Dict => dest_selected _ box | Maildir => false end);
        split; reflexivity.
  - destruct (lookup box (st_boxes st)) as [b|] eqn:El; [|exact H].
    destruct (b_ro b); [exact H|].
    pose proof (Forall_lookup _ _ _ _ Hb El) as Hok. cbn beta in Hok.
    split; [|split]; cbn [st_boxes st_sel set_sel].
    + apply Forall_set_box; [exact Hb|].
      apply (box_ok_filter (claim_all b)). unfold claim_all. apply box_ok_map; [reflexivity|exact Hok].
    + apply nogone_set_box, Hg.
    + apply (sel_mono st box b _ _ El); [cbn; lia|exact Hs|].
      destruct (st_bk st); destruct (st_sel st) as [s|]; try exact I; try (split; reflexivity).
      destruct (s_box s =? box); split; try reflexivity. cbn [s_view]. apply uids_refresh.
Qed.

(* ---- every labelled program *)
Theorem told_refines prog : forall st, Wk st -> Forall wf_label prog ->
  run_l st prog = t_run_l st prog /\ Wk (fst (run_l st prog)).
Proof.
  induction prog as [|l r IH]; intros st H Hw; cbn [run_l t_run_l]; [split; [reflexivity|exact H]|].
  inversion Hw as [|? ? Hl Hr]; subst.
  assert (E : step_l st l = t_step_l st l).
  { destruct l as [c|e]; cbn [step_l t_step_l]; [|reflexivity]. rewrite (told_step st c H). reflexivity. }
  assert (H1 : Wk (fst (t_step_l st l))).
  { destruct l as [c|e]; cbn [t_step_l].
    - rewrite fst_let. cbn [fst]. apply Wk_step; [exact H|exact Hl].
    - apply Wk_ext, H. }
  rewrite E. destruct (t_step_l st l) as [st1 o]. cbn [fst] in H1.
  destruct (IH st1 H1 Hr) as [E2 H2]. rewrite E2. destruct (t_run_l st1 r) as [st2 os].
  rewrite E2 in H2. split; [reflexivity|exact H2].
Qed.

Theorem told_refines_main prog st : Wk st -> Forall wf_label prog ->
  run_l st prog = t_run_l st prog.
Proof. intros H Hw. apply (told_refines prog st H Hw). Qed.

(* the states the harness starts from, and every state in sync, satisfy [Wk] *)
Lemma Inv_Wk st : Inv st -> lookup GONE (st_boxes st) = None -> Wk st.
Proof.
  intros (Hb & _ & Hs) Hg. split; [exact Hb|]. split; [exact Hg|].
  destruct (st_sel st) as [s|]; [|exact I]. destruct Hs as (b & El & Ev & _).
  destruct (Forall_lookup _ _ _ _ Hb El) as [H1 H2]. unfold view_ok. rewrite Ev. split; [exact H1|]. split.
  - eapply Forall_impl; [|exact H2]. cbn. intros; lia.
  - intros b0 E. rewrite El in E. inversion E; subst b0. eapply Forall_impl; [|exact H2]. cbn. intros; lia.
Qed.

Lemma init_ok_Wk st : init_ok st = true -> Wk st.
Proof.
  intros H. destruct (init_ok_Good st H) as [[HI|HG] Hg]; [apply Inv_Wk; assumption|].
  destruct HG as (_ & _ & s & Es & _). unfold init_ok in H. rewrite Es in H. discriminate.
Qed.
Lemma init_ok_maildir_Wk st : init_ok_maildir st = true -> Wk st.
Proof.
  intros H. destruct (init_ok_maildir_Good st H) as [[HI|HG] Hg]; [apply Inv_Wk; assumption|].
  destruct HG as (_ & _ & s & Es & _). unfold init_ok_maildir in H. rewrite Es in H. discriminate.
Qed.

Lemma Wk_holds st :
  (init_ok st = true \/ init_ok_maildir st = true \/
   (Inv st /\ lookup GONE (st_boxes st) = None)) -> Wk st.
Proof.
  intros [H|[H|[H1 H2]]]; [apply init_ok_Wk, H|apply init_ok_maildir_Wk, H|apply Inv_Wk; assumption].
Qed.
