(* RefModel/Model.v — one IMAP session's message commands, as pymap executes them.

   Mirrors, for ONE session and sequential commands:
     pymap/imap/state.py        do_select do_append do_store do_expunge do_copy
                                do_move do_fetch do_close + the gate of do_command
     pymap/backend/session.py   select_mailbox append_messages update_flags
                                expunge_mailbox copy_messages move_messages
                                fetch_messages _pick_selected _load_updates
     pymap/selected.py          SynchronizedMessages.get_uids/get_all, _Frozen,
                                SelectedMailbox.silence/fork/_compare
     pymap/backend/dict/mailbox.py, maildir/mailbox.py
                                append copy move get update delete claim_recent
                                snapshot update_selected
     pymap/parsing/response     CommandResponse.add_untagged (FETCH merge)
     pymap/parsing/specials/fetchattr.py  FetchAttribute.set_seen

   What is abstracted (validated by the correspondence run, stated in docs/C10.md):
   * the session's view (_sorted/_cache/_flags_key_map/_seqs_cache) is ONE list
     of cached messages ordered by UID; update_selected is a full resync (with
     one session nothing is ever expunged while hide_expunged is set, and the
     mod-sequence log only limits which messages are re-read);
   * mailbox names are flat ids (0 = INBOX); hierarchy and LIST are C11's business;
   * object ids and message bytes are not represented: a message body is a
     content id, a date is a number of seconds; a fresh UIDVALIDITY is an oracle
     value carried by the CREATE / RENAME INBOX command;
   * what other connections do in between is a label [LExt] (Model.ext).
   Definitions only. *)
From PV Require Import Base.Prelude Wire.SeqSet RefModel.Flags.
Local Open Scope N_scope.

(* ---------------------------------------------------------------- state *)
Record msg := mkMsg {
  m_uid : N; m_flags : fset; m_date : N; m_cid : N;
  m_recent : bool   (* stored \Recent: dict Message._recent / maildir subdir 'new' *)
}.
Record mbox := mkBox {
  b_msgs : list msg;   (* dict _messages in insertion order / uidlist order *)
  b_maxuid : N;        (* dict _max_uid ; maildir next_uid - 1 *)
  b_ro : bool;         (* MailboxData.readonly *)
  b_perm : fset;       (* MailboxData.permanent_flags *)
  b_uidv : N           (* UIDVALIDITY (travels with the mailbox on RENAME) *)
}.
Definition boxes := list (N * mbox).   (* mailbox name (an id) -> mailbox *)

Fixpoint lookup (n : N) (bs : boxes) : option mbox :=
  match bs with
  | [] => None
  | (k, b) :: r => if (k =? n)%N then Some b else lookup n r
  end.
Fixpoint set_box (n : N) (b : mbox) (bs : boxes) : boxes :=
  match bs with
  | [] => []
  | (k, b0) :: r => if (k =? n)%N then (k, b) :: r else (k, b0) :: set_box n b r
  end.

(* SelectedMailbox + SynchronizedMessages + SessionFlags of the session *)
Record sel := mkSel {
  s_box : N;              (* lookup name *)
  s_ro : bool;            (* readonly: EXAMINE or read-only mailbox *)
  s_perm : fset;          (* PermanentFlags(mbx.permanent_flags)._defined *)
  s_view : list msg;      (* cached messages, ascending UID *)
  s_recent : list N       (* SessionFlags._recent *)
}.
Record state := mkState { st_bk : backend; st_boxes : boxes; st_sel : option sel }.

(* ------------------------------------------------------------- commands *)
Inductive aname :=
| ABody | ABodyPeek | ABinary | ABinaryPeek | ABinarySize
| ARfc822 | ARfc822Header | ARfc822Text | ARfc822Size
| AFlags | AUid | AInternalDate | AEnvelope | ABodyStructure | AEmailId | AThreadId.
Definition aname_eqb (a b : aname) : bool :=
  match a, b with
  | ABody, ABody | ABodyPeek, ABodyPeek | ABinary, ABinary | ABinaryPeek, ABinaryPeek
  | ABinarySize, ABinarySize | ARfc822, ARfc822 | ARfc822Header, ARfc822Header
  | ARfc822Text, ARfc822Text | ARfc822Size, ARfc822Size | AFlags, AFlags | AUid, AUid
  | AInternalDate, AInternalDate | AEnvelope, AEnvelope | ABodyStructure, ABodyStructure
  | AEmailId, AEmailId | AThreadId, AThreadId => true
  | _, _ => false
  end.
Record fattr := mkAttr {
  fa_name : aname;
  fa_section : bool;   (* a [section] is present (FetchAttribute.section is not None) *)
  fa_content : bool    (* harness convention: the whole content is identifiable
                          from this item (BODY[] / BODY.PEEK[] / RFC822 / RFC822.SIZE) *)
}.

(* one message of an APPEND; [am_fail]: the backend raises while storing it
   (oracle: e.g. RecursionError in the thread-key computation) *)
Record amsg := mkAmsg { am_flags : fset; am_date : N; am_cid : N; am_fail : bool }.

(* SEARCH keys (the flag / set / boolean part of SearchKey) *)
Inductive skey :=
| KAll
| KFlag (f : flag) (expected : bool)     (* SEEN/UNSEEN ... KEYWORD/UNKEYWORD, RECENT/OLD *)
| KNew
| KSet (uid : bool) (ss : seqset)        (* <sequence set> / UID <set> *)
| KNot (k : skey)
| KOr (a b : skey).

Inductive cmd :=
| CSelect (box : N) (readonly : bool)                 (* SELECT / EXAMINE *)
| CAppend (box : N) (msgs : list amsg)                (* APPEND, MULTIAPPEND *)
| CStore (uid : bool) (ss : seqset) (op : flagop) (silent : bool) (flags : fset)
| CExpunge (uidset : option seqset)                   (* Some = UID EXPUNGE *)
| CCopy (uid : bool) (ss : seqset) (dest : N)
| CMove (uid : bool) (ss : seqset) (dest : N)
| CFetch (uid : bool) (ss : seqset) (attrs : list fattr)
| CClose
| CNoop | CCheck
| CStatus (box : N)                                   (* (MESSAGES RECENT UIDNEXT UIDVALIDITY UNSEEN) *)
| CSearch (uid : bool) (keys : list skey)
| CCreate (box : N) (uidv : N)                        (* uidv: the UIDVALIDITY drawn *)
| CDelete (box : N)
| CRename (from to : N) (uidv : N).                   (* uidv: of the new INBOX when from = INBOX *)

(* what ANOTHER connection does between two commands of the session (it never
   keeps a mailbox selected): SELECT box; UID STORE uids +-FLAGS.SILENT; deselect /
   APPEND box / SELECT box; EXPUNGE; deselect *)
Inductive ext :=
| XStore (box : N) (uids : list N) (op : flagop) (flags : fset)
| XAppend (box : N) (flags : fset) (date cid : N)
| XExpunge (box : N).
Inductive label := LCmd (c : cmd) | LExt (e : ext).

(* -------------------------------------------------------------- outputs *)
Inductive cond := OK | NO | BAD | BYE.
Inductive code :=
| CNone | CReadOnly | CReadWrite | CTryCreate | CNonexistent | CExpungeIssued
| CAlreadyExists | CCannot | CServerBug
| CAppendUid (us : list N)
| CCopyUid (src dst : list N).
Record fitem := mkItem {
  fi_seq : N; fi_uid : option N; fi_flags : option fset;
  fi_date : option N; fi_cid : option N
}.
Inductive untagged :=
| UExpunge (n : N) | UExists (n : N) | URecent (n : N)
| UFetch (i : fitem)
| UMoved (c : code)                                   (* * OK [COPYUID ..] Moved. *)
| USelect (exists_ recent uidnext : N) (first_unseen : option N) (permflags : fset)
| UStatus (box messages recent uidnext uidv unseen : N)
| USearch (ids : list N)
| UBye.                                               (* * BYE Selected mailbox no longer exists. *)
Record out := mkOut { o_cond : cond; o_code : code; o_untagged : list untagged }.

(* --------------------------------------------------- addressing messages *)
Fixpoint enum_from {A} (k : N) (l : list A) : list (N * A) :=
  match l with [] => [] | x :: r => (k, x) :: enum_from (k + 1) r end.
Definition enumerate {A} (l : list A) : list (N * A) := enum_from 1 l.  (* enumerate(l, 1) *)

Definition uids_of (l : list msg) : list N := map m_uid l.
Definition v_exists (v : list msg) : N := N.of_nat (length v).          (* len(_uids) *)
Definition v_maxuid (v : list msg) : N := last (uids_of v) 0.           (* _sorted[-1] or 0 *)

(* get_uids / get_all: (sequence number, cached message) of the addressed ones *)
Definition get_all (v : list msg) (uidmode : bool) (ss : seqset) : list (N * msg) :=
  if uidmode then
    let all := seq_iter (v_maxuid v) ss in
    filter (fun qm => memN (m_uid (snd qm)) all) (enumerate v)
  else
    let all := seq_iter (v_exists v) ss in
    filter (fun qm => memN (fst qm) all) (enumerate v).

(* ------------------------------------------------------ mailbox (backend) *)
Definition find_msg (u : N) (l : list msg) : option msg :=
  find (fun m => (m_uid m =? u)%N) l.
Definition set_flags (m : msg) (fl : fset) : msg :=
  mkMsg (m_uid m) fl (m_date m) (m_cid m) (m_recent m).
Definition set_msgs (b : mbox) (l : list msg) : mbox :=
  mkBox l (b_maxuid b) (b_ro b) (b_perm b) (b_uidv b).

(* MailboxData.get: the live message, or an expunged copy of the cached one *)
Definition mb_get (b : mbox) (cached : msg) : msg * bool :=
  match find_msg (m_uid cached) (b_msgs b) with
  | Some m => (m, false)
  | None => (cached, true)
  end.
(* MailboxData.update(uid, cached, flag_set, mode) *)
Definition mb_update (bk : backend) (b : mbox) (cached : msg) (fs : fset) (op : flagop)
  : mbox * (msg * bool) :=
  match find_msg (m_uid cached) (b_msgs b) with
  | Some m =>
    let m' := set_flags m (storable bk (b_perm b) (op_apply op (m_flags m) fs)) in
    (set_msgs b (map (fun x => if (m_uid x =? m_uid cached)%N then m' else x) (b_msgs b)),
     (m', false))
  | None => (b, (set_flags cached (op_apply op (m_flags cached) fs), true))
  end.
(* MailboxData.delete(uids) *)
Definition mb_delete (b : mbox) (dead : list N) : mbox :=
  set_msgs b (filter (fun m => negb (memN (m_uid m) dead)) (b_msgs b)).
(* append of a new message object with the next UID *)
Definition mb_add (b : mbox) (fl : fset) (date cid : N) (recent : bool) : mbox * N :=
  let u := (b_maxuid b + 1)%N in
  (mkBox (b_msgs b ++ [mkMsg u fl date cid recent]) u (b_ro b) (b_perm b) (b_uidv b), u).

Definition add_recent (u : N) (l : list N) : list N := if memN u l then l else l ++ [u].

(* ------------------------------------------------- fork / _compare / merge *)
Definition recent_in (rec : list N) (v : list msg) : list N :=      (* recent_uids & uids *)
  filter (fun u => memN u (uids_of v)) rec.
Definition key_in (m : msg) (l : list msg) : bool :=                (* (uid, flags) in set *)
  existsb (fun x => (m_uid x =? m_uid m)%N && fset_eqb (m_flags x) (m_flags m)) l.
Definition key_silenced (m : msg) (sil : list (N * fset)) : bool :=
  existsb (fun k => (fst k =? m_uid m)%N && fset_eqb (snd k) (m_flags m)) sil.

Definition flags_item (q : N) (m : msg) (rec : list N) (with_uid : bool) : untagged :=
  UFetch (mkItem q (if with_uid then Some (m_uid m) else None)
                 (Some (with_recent (m_flags m) (memN (m_uid m) rec))) None None).

(* SelectedMailbox._compare(before, after, with_uid), not hiding expunges *)
Definition compare (v0 : list msg) (rec0 : list N) (v1 : list msg) (rec1 : list N)
           (silenced : list (N * fset)) (with_uid : bool) : list untagged :=
  let r0 := recent_in rec0 v0 in
  let r1 := recent_in rec1 v1 in
  map (fun qm => UExpunge (fst qm))
      (rev (filter (fun qm => negb (memN (m_uid (snd qm)) (uids_of v1))) (enumerate v0)))
  ++ (if existsb (fun m => negb (memN (m_uid m) (uids_of v0))) v1
      then [UExists (v_exists v1)] else [])
  ++ (if (N.of_nat (length r1) =? N.of_nat (length r0))%N then []
      else [URecent (N.of_nat (length r1))])
  ++ map (fun qm => flags_item (fst qm) (snd qm) rec1 with_uid)
         (filter (fun qm =>
                    let m := snd qm in
                    (memN (m_uid m) r1 && negb (memN (m_uid m) r0))
                    || (negb (key_in m v0) && negb (key_silenced m silenced)))
                 (enumerate v1)).

(* FetchResponse.merge: attributes of [b] are added to / replace those of [a] *)
Definition or_else {A} (x y : option A) : option A := match x with Some _ => x | None => y end.
Definition merge_item (a b : fitem) : fitem :=
  mkItem (fi_seq a) (or_else (fi_uid b) (fi_uid a)) (or_else (fi_flags b) (fi_flags a))
         (or_else (fi_date b) (fi_date a)) (or_else (fi_cid b) (fi_cid a)).
(* CommandResponse.add_untagged for one response *)
Fixpoint merge_into (acc : list untagged) (i : fitem) : option (list untagged) :=
  match acc with
  | [] => None
  | UFetch a :: r =>
    if (fi_seq a =? fi_seq i)%N then Some (UFetch (merge_item a i) :: r)
    else match merge_into r i with Some r' => Some (UFetch a :: r') | None => None end
  | x :: r => match merge_into r i with Some r' => Some (x :: r') | None => None end
  end.
Definition add_untagged (acc : list untagged) (u : untagged) : list untagged :=
  match u with
  | UFetch i => match merge_into acc i with Some acc' => acc' | None => acc ++ [u] end
  | _ => acc ++ [u]
  end.

(* the untagged data of fork() joins the command's own: FETCH data of the same
   message merge, except after EXPUNGE responses (the numbering has changed) *)
Definition is_expunge (u : untagged) : bool := match u with UExpunge _ => true | _ => false end.
Definition assemble (items cmp : list untagged) : list untagged :=
  if existsb is_expunge cmp then items ++ cmp else fold_left add_untagged cmp items.

(* update_selected on mailbox [b] followed by fork(command):
   [s] is the selection as it was when the command started (= the last fork),
   [rec] the session's \Recent set as the command left it *)
Definition finish (b : mbox) (s : sel) (rec : list N) (silenced : list (N * fset))
           (with_uid : bool) (items : list untagged) : sel * list untagged :=
  let v1 := b_msgs b in
  let expunged u := memN u (uids_of (s_view s)) && negb (memN u (uids_of v1)) in
  let rec1 := filter (fun u => negb (expunged u)) rec in       (* session_flags.remove *)
  (mkSel (s_box s) (s_ro s) (s_perm s) v1 rec1,
   assemble items (compare (s_view s) (s_recent s) v1 rec1 silenced with_uid)).

(* the same when the command set hide_expunged (FETCH / STORE / SEARCH by sequence
   number): messages that are gone stay in the view, in UID order, until the next
   command that does not hide; no EXPUNGE is sent for them and their session flags
   are kept.  (With nothing gone this is [finish].) *)
Fixpoint insert_by_uid (m : msg) (l : list msg) : list msg :=
  match l with
  | [] => [m]
  | x :: r => if (m_uid m <? m_uid x)%N then m :: l else x :: insert_by_uid m r
  end.
Definition keep_pending (told now : list msg) : list msg :=
  fold_left (fun acc m => insert_by_uid m acc)
            (filter (fun m => negb (memN (m_uid m) (uids_of now))) told) now.
Definition finish_h (hide : bool) (b : mbox) (s : sel) (rec : list N)
           (silenced : list (N * fset)) (with_uid : bool) (items : list untagged)
  : sel * list untagged :=
  if hide then
    let v1 := keep_pending (s_view s) (b_msgs b) in
    (mkSel (s_box s) (s_ro s) (s_perm s) v1 rec,
     assemble items (compare (s_view s) (s_recent s) v1 rec silenced with_uid))
  else finish b s rec silenced with_uid items.

(* the session's \Recent set after that synchronisation (responses of STORE and
   FETCH are written afterwards and show it) *)
Definition post_recent (hide : bool) (b : mbox) (s : sel) (rec : list N) : list N :=
  if hide then rec
  else filter (fun u => negb (memN u (uids_of (s_view s)) && negb (memN u (uids_of (b_msgs b))))) rec.

Definition set_sel (st : state) (bs : boxes) (s : option sel) : state :=
  mkState (st_bk st) bs s.

(* _load_updates(selected, None) after a command that is not about the selected
   mailbox: resynchronise; if the selected mailbox is gone (set_deleted) the fork
   yields BYE and the connection ends (modelled as: nothing selected) *)
Definition load_updates (bs : boxes) (sl : option sel) (items : list untagged)
  : option sel * list untagged :=
  match sl with
  | None => (None, items)
  | Some s =>
    match lookup (s_box s) bs with
    | None => (None, items ++ [UBye])
    | Some b => let '(s', un) := finish b s (s_recent s) [] false items in (Some s', un)
    end
  end.
Definition reply (st : state) (c : cond) (k : code) : state * out := (st, mkOut c k []).

(* ------------------------------------------------------------- commands *)
Definition count_recent (l : list msg) : N := N.of_nat (length (filter m_recent l)).
Fixpoint first_unseen_from (k : N) (l : list msg) : option N :=
  match l with
  | [] => None
  | m :: r => if mem FSeen (m_flags m) then first_unseen_from (k + 1) r else Some k
  end.
Definition clear_recent (m : msg) : msg :=
  mkMsg (m_uid m) (m_flags m) (m_date m) (m_cid m) false.

(* do_select + select_mailbox (claim_recent, snapshot, update_selected, first fork) *)
Definition do_select (st : state) (box : N) (ro : bool) : state * out :=
  let st0 := set_sel st (st_boxes st) None in                  (* self._selected = None *)
  match lookup box (st_boxes st) with
  | None => reply st0 NO CNonexistent
  | Some b =>
    let ro' := ro || b_ro b in
    let claimed := if ro' then [] else uids_of (filter m_recent (b_msgs b)) in
    let b' := if ro' then b else set_msgs b (map clear_recent (b_msgs b)) in
    let s := mkSel box ro' (perm_defined (b_perm b)) (b_msgs b') claimed in
    (set_sel st (set_box box b' (st_boxes st)) (Some s),
     mkOut OK (if ro' then CReadOnly else CReadWrite)
           [USelect (v_exists (b_msgs b'))
                    (if ro' then count_recent (b_msgs b') else N.of_nat (length claimed))
                    (b_maxuid b' + 1)
                    (first_unseen_from 1 (b_msgs b'))
                    (if ro' then [] else b_perm b)])
  end.

(* _pick_selected for one session: the own selection when it is read-write
   and on this mailbox; otherwise nobody (no other session exists) *)
Definition dest_selected (st : state) (box : N) : bool :=
  match st_sel st with
  | Some s => negb (s_ro s) && (s_box s =? box)%N
  | None => false
  end.

(* the message-by-message loop of append_messages: (mailbox, session \Recent set,
   UIDs stored so far, did a message make the backend raise?) *)
Fixpoint append_loop (bk : backend) (ds : bool) (b : mbox) (rec : list N) (msgs : list amsg)
  : mbox * list N * list N * bool :=
  match msgs with
  | [] => (b, rec, [], false)
  | a :: r =>
    if am_fail a then (b, rec, [], true) else
    let fl := storable bk (b_perm b) (diff (am_flags a) [FRecent]) in   (* AppendMessage drops \Recent *)
    let '(b1, u) := mb_add b fl (am_date a) (am_cid a) (negb ds) in
    let rec1 := if ds then add_recent u rec else rec in
    let '(b2, rec2, us, failed) := append_loop bk ds b1 rec1 r in
    (b2, rec2, u :: us, failed)
  end.

(* do_append + append_messages (MULTIAPPEND is all-or-nothing: when a message makes
   the backend raise, the ones already stored are deleted again — their UIDs stay
   used — and the exception ends the connection with BYE [SERVERBUG]) *)
Definition do_append (st : state) (box : N) (msgs : list amsg) : state * out :=
  match lookup box (st_boxes st) with
  | None => reply st NO CTryCreate
  | Some b =>
    if b_ro b then reply st NO CReadOnly else
    let ds := dest_selected st box in
    let rec0 := match st_sel st with Some s => s_recent s | None => [] end in
    let '(b', rec, us, failed) := append_loop (st_bk st) ds b rec0 msgs in
    if failed then
      (set_sel st (set_box box (mb_delete b' us) (st_boxes st)) None, mkOut BYE CServerBug [])
    else
    let bs' := set_box box b' (st_boxes st) in
    match st_sel st with
    | None => (set_sel st bs' None, mkOut OK (CAppendUid us) [])
    | Some s =>
      match lookup (s_box s) bs' with                       (* _load_updates *)
      | None => (set_sel st bs' None, mkOut OK (CAppendUid us) [UBye])
      | Some sb =>
        let '(s', un) := finish sb s rec [] false [] in
        (set_sel st bs' (Some s'), mkOut OK (CAppendUid us) un)
      end
    end
  end.

(* the per-message loop of update_flags / fetch_messages(set_seen) *)
Fixpoint update_loop (bk : backend) (b : mbox) (targets : list (N * msg)) (fs : fset)
         (op : flagop) : mbox * list (N * msg * bool) :=
  match targets with
  | [] => (b, [])
  | (q, c) :: r =>
    let '(b1, (m, ex)) := mb_update bk b c fs op in
    let '(b2, res) := update_loop bk b1 r fs op in
    (b2, (q, m, ex) :: res)
  end.

(* SelectedMailbox.silence (reads the flags the session has synchronised,
   _flags_key_map, not the possibly newer cached message) *)
Definition silence (targets : list (N * msg)) (pf : fset) (op : flagop) : list (N * fset) :=
  flat_map (fun qc => let c := snd qc in
                      let upd := op_apply op (m_flags c) pf in
                      if fset_eqb (m_flags c) upd then [] else [(m_uid c, upd)]) targets.

Definition any_expunged (res : list (N * msg * bool)) : bool := existsb (fun x => snd x) res.

(* do_store + update_flags (both refuse a read-only selection; do_store does so
   before silence(), which is therefore never observable in that case) *)
Definition do_store (st : state) (uid : bool) (ss : seqset) (op : flagop) (silent : bool)
           (fl : fset) : state * out :=
  match st_sel st with
  | None => reply st BAD CNone
  | Some s =>
    let targets := get_all (s_view s) uid ss in
    let pf := perm_intersect (s_perm s) fl in
    let silenced := if silent then silence targets pf op else [] in
    if s_ro s then reply st NO CReadOnly else
    match lookup (s_box s) (st_boxes st) with
    | None => reply st NO CNonexistent
    | Some b =>
      let '(b', res) := update_loop (st_bk st) b targets pf op in
      let rec1 := post_recent (negb uid) b' s (s_recent s) in
      let items :=
        flat_map (fun x => let '(q, m, ex) := x in
                           if negb ex && silent then []
                           else [flags_item q m rec1 uid]) res in
      let '(s', un) := finish_h (negb uid) b' s (s_recent s) silenced uid items in
      (set_sel st (set_box (s_box s) b' (st_boxes st)) (Some s'),
       mkOut OK (if any_expunged res then CExpungeIssued else CNone) un)
    end
  end.

(* find_deleted over SequenceSet.all(uid=True) or the given UID set *)
Definition expunge_targets (v : list msg) (uidset : option seqset) : list (N * msg) :=
  match uidset with
  | Some ss => get_all v true ss
  | None => filter (fun qm => memN (m_uid (snd qm)) (nrange 1 (v_maxuid v))) (enumerate v)
  end.
Definition find_deleted (b : mbox) (targets : list (N * msg)) (rec : list N) : list N :=
  flat_map (fun qc => let '(m, _) := mb_get b (snd qc) in
                      if mem FDeleted (with_recent (m_flags m) (memN (m_uid m) rec))
                      then [m_uid m] else []) targets.

(* do_expunge + expunge_mailbox *)
Definition do_expunge (st : state) (uidset : option seqset) : state * out :=
  match st_sel st with
  | None => reply st BAD CNone
  | Some s =>
    if s_ro s then reply st NO CReadOnly else
    match lookup (s_box s) (st_boxes st) with
    | None => reply st NO CNonexistent
    | Some b =>
      let dead := find_deleted b (expunge_targets (s_view s) uidset) (s_recent s) in
      let b' := mb_delete b dead in
      let with_uid := match uidset with Some _ => true | None => false end in
      let '(s', un) := finish b' s (s_recent s) [] with_uid [] in
      (set_sel st (set_box (s_box s) b' (st_boxes st)) (Some s'), mkOut OK CNone un)
    end
  end.

(* do_close: deselect first; a read-write selection is expunged silently *)
Definition do_close (st : state) : state * out :=
  match st_sel st with
  | None => reply st BAD CNone
  | Some s =>
    let st0 := set_sel st (st_boxes st) None in
    if s_ro s then reply st0 OK CNone else
    match lookup (s_box s) (st_boxes st) with
    | None => reply st0 OK CNone                      (* nothing left to expunge *)
    | Some b =>
      let dead := find_deleted b (expunge_targets (s_view s) None) (s_recent s) in
      reply (set_sel st (set_box (s_box s) (mb_delete b dead) (st_boxes st)) None) OK CNone
    end
  end.

(* the per-message loop of copy_messages (move = false) / move_messages (true):
   MailboxData.copy / .move, then add_recent and the (source, dest) UID pair *)
Fixpoint copy_loop (bk : backend) (move : bool) (src dst : N) (ds : bool) (bs : boxes) (rec : list N)
         (pairs : list (N * msg)) : boxes * list N * list (N * N) :=
  match pairs with
  | [] => (bs, rec, [])
  | (_, c) :: r =>
    match lookup src bs with
    | None => copy_loop bk move src dst ds bs rec r
    | Some sb =>
      match find_msg (m_uid c) (b_msgs sb) with
      | None => copy_loop bk move src dst ds bs rec r            (* copy()/move() -> None *)
      | Some m =>
        let bs1 := if move then set_box src (mb_delete sb [m_uid c]) bs else bs in
        match lookup dst bs1 with
        | None => copy_loop bk move src dst ds bs1 rec r
        | Some db =>
          (* maildir: flags are rewritten with the destination's keyword table *)
          let '(db', du) := mb_add db (storable bk (b_perm db) (m_flags m)) (m_date m) (m_cid m)
                                   (negb ds) in
          let bs2 := set_box dst db' bs1 in
          let rec2 := if ds then add_recent du rec else rec in
          let '(bs3, rec3, us) := copy_loop bk move src dst ds bs2 rec2 r in
          (bs3, rec3, (m_uid c, du) :: us)
        end
      end
    end
  end.
Definition copy_code (us : list (N * N)) : code :=
  match us with [] => CNone | _ => CCopyUid (map fst us) (map snd us) end.

(* do_copy + copy_messages *)
Definition do_copy (st : state) (uid : bool) (ss : seqset) (dest : N) : state * out :=
  match st_sel st with
  | None => reply st BAD CNone
  | Some s =>
    match lookup (s_box s) (st_boxes st) with
    | None => reply st NO CNonexistent
    | Some _ =>
      match lookup dest (st_boxes st) with
      | None => reply st NO CTryCreate
      | Some d =>
        if b_ro d then reply st NO CReadOnly else
        let ds := dest_selected st dest in
        let '(bs', rec, us) :=
          copy_loop (st_bk st) false (s_box s) dest ds (st_boxes st) (s_recent s)
                    (get_all (s_view s) uid ss) in
        match lookup (s_box s) bs' with
        | None => reply st NO CNonexistent
        | Some b' =>
          let '(s', un) := finish b' s rec [] uid [] in
          (set_sel st bs' (Some s'), mkOut OK (copy_code us) un)
        end
      end
    end
  end.

(* do_move + move_messages (a read-only selection is refused) *)
Definition do_move (st : state) (uid : bool) (ss : seqset) (dest : N) : state * out :=
  match st_sel st with
  | None => reply st BAD CNone
  | Some s =>
    if s_ro s then reply st NO CReadOnly else
    match lookup (s_box s) (st_boxes st) with
    | None => reply st NO CNonexistent
    | Some _ =>
      match lookup dest (st_boxes st) with
      | None => reply st NO CTryCreate
      | Some d =>
        if b_ro d then reply st NO CReadOnly else
        let ds := dest_selected st dest in
        let '(bs', rec, us) :=
          copy_loop (st_bk st) true (s_box s) dest ds (st_boxes st) (s_recent s)
                    (get_all (s_view s) uid ss) in
        match lookup (s_box s) bs' with
        | None => reply st NO CNonexistent
        | Some b' =>
          let '(s', un) := finish b' s rec [] uid [UMoved (copy_code us)] in
          (set_sel st bs' (Some s'), mkOut OK CNone un)
        end
      end
    end
  end.

(* harness convention: the content id of "no content" (an empty body, size 0) *)
Definition NO_CONTENT : N := 5000000.

(* FetchAttribute.set_seen *)
Definition attr_set_seen (a : fattr) : bool :=
  match fa_name a with
  | ABody => fa_section a
  | ABinary => true
  | ARfc822 | ARfc822Text => true
  | _ => false
  end.
Definition has_attr (n : aname) (attrs : list fattr) : bool :=
  existsb (fun a => aname_eqb (fa_name a) n) attrs.

Fixpoint get_loop (b : mbox) (targets : list (N * msg)) : list (N * msg * bool) :=
  match targets with
  | [] => []
  | (q, c) :: r => let '(m, ex) := mb_get b c in (q, m, ex) :: get_loop b r
  end.

(* do_fetch + fetch_messages; the item shows what the harness observes *)
Definition do_fetch (st : state) (uid : bool) (ss : seqset) (attrs : list fattr)
  : state * out :=
  match st_sel st with
  | None => reply st BAD CNone
  | Some s =>
    let set_seen := negb (s_ro s) && existsb attr_set_seen attrs in
    match lookup (s_box s) (st_boxes st) with
    | None => reply st NO CNonexistent
    | Some b =>
      let targets := get_all (s_view s) uid ss in
      let '(b', res) :=
        if set_seen then update_loop (st_bk st) b targets [FSeen] OpAdd
        else (b, get_loop b targets) in
      let items :=
        map (fun x => let '(q, m, ex) := x in
               UFetch (mkItem q
                 (if uid || has_attr AUid attrs then Some (m_uid m) else None)
                 (if has_attr AFlags attrs
                  then Some (with_recent (m_flags m)
                                         (memN (m_uid m) (post_recent (negb uid) b' s (s_recent s))))
                  else None)
                 (if has_attr AInternalDate attrs then Some (m_date m) else None)
                 (if existsb fa_content attrs
                  then Some (match st_bk st, ex with
                             | Maildir, true => NO_CONTENT   (* the file is gone *)
                             | _, _ => m_cid m               (* dict: the orphan keeps its content *)
                             end)
                  else None))) res in
      let '(s', un) := finish_h (negb uid) b' s (s_recent s) [] uid items in
      (set_sel st (set_box (s_box s) b' (st_boxes st)) (Some s'),
       mkOut OK (if any_expunged res then CExpungeIssued else CNone) un)
    end
  end.

(* do_noop / do_check + check_mailbox *)
Definition do_noop (st : state) (check : bool) : state * out :=
  match st_sel st with
  | None => if check then reply st BAD CNone else reply st OK CNone
  | Some s =>
    match lookup (s_box s) (st_boxes st) with
    | None => reply st NO CNonexistent
    | Some b =>
      let '(s', un) := finish b s (s_recent s) [] false [] in
      (set_sel st (st_boxes st) (Some s'), mkOut OK CNone un)
    end
  end.

Definition count_unseen (l : list msg) : N :=
  N.of_nat (length (filter (fun m => negb (mem FSeen (m_flags m))) l)).

(* do_status + get_mailbox: the snapshot, then _load_updates; RECENT is the session's
   own count when the mailbox is the selected one *)
Definition do_status (st : state) (box : N) : state * out :=
  match lookup box (st_boxes st) with
  | None => reply st NO CNonexistent
  | Some b =>
    let line r := UStatus box (v_exists (b_msgs b)) r (b_maxuid b + 1) (b_uidv b)
                          (count_unseen (b_msgs b)) in
    match st_sel st with
    | None => (st, mkOut OK CNone [line (count_recent (b_msgs b))])
    | Some s =>
      match lookup (s_box s) (st_boxes st) with
      | None => (set_sel st (st_boxes st) None,
                 mkOut OK CNone [line (count_recent (b_msgs b)); UBye])
      | Some sb =>
        let '(s', un) := finish sb s (s_recent s) [] false [] in
        let r := if (s_box s =? box)%N then N.of_nat (length (s_recent s'))
                 else count_recent (b_msgs b) in
        (set_sel st (st_boxes st) (Some s'), mkOut OK CNone (line r :: un))
      end
    end
  end.

(* SearchCriteria.matches for the modelled keys *)
Fixpoint key_matches (v : list msg) (rec : list N) (q : N) (m : msg) (k : skey) : bool :=
  let fl := with_recent (m_flags m) (memN (m_uid m) rec) in
  match k with
  | KAll => true
  | KFlag f e => Bool.eqb (mem f fl) e
  | KNew => mem FRecent fl && negb (mem FSeen fl)
  | KSet true ss => memN (m_uid m) (seq_iter (v_maxuid v) ss)
  | KSet false ss => memN q (seq_iter (v_exists v) ss)
  | KNot a => negb (key_matches v rec q m a)
  | KOr a b => key_matches v rec q m a || key_matches v rec q m b
  end.

(* do_search + search_mailbox *)
Definition do_search (st : state) (uid : bool) (keys : list skey) : state * out :=
  match st_sel st with
  | None => reply st BAD CNone
  | Some s =>
    match lookup (s_box s) (st_boxes st) with
    | None => reply st NO CNonexistent
    | Some b =>
      let res := filter (fun x => let '(q, m, _) := x in
                                  forallb (key_matches (s_view s) (s_recent s) q m) keys)
                        (get_loop b (enumerate (s_view s))) in
      let ids := map (fun x => let '(q, m, _) := x in if uid then m_uid m else q) res in
      let '(s', un) := finish_h (negb uid) b s (s_recent s) [] uid [USearch ids] in
      (set_sel st (st_boxes st) (Some s'),
       mkOut OK (if any_expunged res then CExpungeIssued else CNone) un)
    end
  end.

(* a mailbox as the backend creates it *)
Definition sys5 : fset := [FSeen; FAnswered; FFlagged; FDeleted; FDraft].
Definition new_box (bk : backend) (uidv : N) : mbox :=
  mkBox [] (match bk with Dict => 100 | Maildir => 0 end) false sys5 uidv.
Definition del_box (n : N) (bs : boxes) : boxes := filter (fun nb => negb (fst nb =? n)%N) bs.
Definition INBOX : N := 0.
(* a selection whose mailbox no longer has a name (selected.lookup does not resolve to
   selected.mailbox_id any more): INBOX was renamed while selected *)
Definition GONE : N := 4294967295.
Definition unname (sl : option sel) : option sel :=
  match sl with
  | Some s => if (s_box s =? INBOX)%N
              then Some (mkSel GONE (s_ro s) (s_perm s) (s_view s) (s_recent s)) else Some s
  | None => None
  end.
Definition inbox_selected (sl : option sel) : bool :=
  match sl with Some s => (s_box s =? INBOX)%N | None => false end.

(* the tail of CREATE / DELETE / RENAME: _load_updates(selected, None) *)
Definition after_names (st : state) (bs : boxes) : state * out :=
  let '(sl, un) := load_updates bs (st_sel st) [] in
  (set_sel st bs sl, mkOut OK CNone un).

Definition do_create (st : state) (box uidv : N) : state * out :=
  if (box =? INBOX)%N then reply st NO CNone else
  match lookup box (st_boxes st) with
  | Some _ => reply st NO CAlreadyExists
  | None => after_names st (st_boxes st ++ [(box, new_box (st_bk st) uidv)])
  end.

Definition do_delete (st : state) (box : N) : state * out :=
  if (box =? INBOX)%N then reply st NO CNone else
  match lookup box (st_boxes st) with
  | None => reply st NO CNonexistent
  | Some _ => after_names st (del_box box (st_boxes st))
  end.

(* RENAME carries messages, UIDs, UIDVALIDITY, read-only bit; renaming INBOX (dict)
   moves its messages and leaves a new empty INBOX; maildir refuses that *)
Definition do_rename (st : state) (from to uidv : N) : state * out :=
  if (to =? INBOX)%N then reply st NO CNone else
  if (from =? INBOX)%N && match st_bk st with Maildir => true | Dict => false end
  then reply st NO CCannot else
  match lookup from (st_boxes st) with
  | None => reply st NO CNonexistent
  | Some b =>
    match lookup to (st_boxes st) with
    | Some _ => reply st NO CAlreadyExists
    | None =>
      if (from =? INBOX)%N then
        let bs' := set_box INBOX (new_box Dict uidv) (st_boxes st) ++ [(to, b)] in
        (* the session that renames its own selected INBOX is not told: its selection is
           found stale by its next command *)
        if inbox_selected (st_sel st)
        then (set_sel st bs' (unname (st_sel st)), mkOut OK CNone [])
        else after_names st bs'
      else after_names st (del_box from (st_boxes st) ++ [(to, b)])
    end
  end.

Definition step (st : state) (c : cmd) : state * out :=
  match c with
  | CSelect box ro => do_select st box ro
  | CAppend box msgs => do_append st box msgs
  | CStore uid ss op silent fl => do_store st uid ss op silent fl
  | CExpunge us => do_expunge st us
  | CCopy uid ss dest => do_copy st uid ss dest
  | CMove uid ss dest => do_move st uid ss dest
  | CFetch uid ss attrs => do_fetch st uid ss attrs
  | CClose => do_close st
  | CNoop => do_noop st false
  | CCheck => do_noop st true
  | CStatus box => do_status st box
  | CSearch uid keys => do_search st uid keys
  | CCreate box uidv => do_create st box uidv
  | CDelete box => do_delete st box
  | CRename from to uidv => do_rename st from to uidv
  end.

Fixpoint run (st : state) (prog : list cmd) : state * list out :=
  match prog with
  | [] => (st, [])
  | c :: r => let '(st1, o) := step st c in
              let '(st2, os) := run st1 r in (st2, o :: os)
  end.

(* ------------------------------------------- another connection in between *)
(* the other connection's read-write SELECT takes the stored \Recent marks *)
Definition claim_all (b : mbox) : mbox := set_msgs b (map clear_recent (b_msgs b)).

(* dict: a message that disappears stays in the caches that hold it with the flags
   it had last (the cache entry IS that object) *)
Definition refresh_cached (b : mbox) (v : list msg) : list msg :=
  map (fun c => match find_msg (m_uid c) (b_msgs b) with
                | Some m => if mem FDeleted (m_flags m) then set_flags c (m_flags m) else c
                | None => c
                end) v.

Definition ext_apply (st : state) (e : ext) : state :=
  let bk := st_bk st in
  match e with
  | XStore box uids op fl =>
    match lookup box (st_boxes st) with
    | None => st
    | Some b =>
      if b_ro b then st else
      let pf := perm_intersect (perm_defined (b_perm b)) fl in
      let upd m := if memN (m_uid m) uids
                   then set_flags m (storable bk (b_perm b) (op_apply op (m_flags m) pf)) else m in
      set_sel st (set_box box (set_msgs b (map upd (map clear_recent (b_msgs b)))) (st_boxes st))
              (st_sel st)
    end
  | XExpunge box =>
    match lookup box (st_boxes st) with
    | None => st
    | Some b =>
      if b_ro b then st else
      let b1 := claim_all b in
      let b2 := set_msgs b1 (filter (fun m => negb (mem FDeleted (m_flags m))) (b_msgs b1)) in
      let sl := match bk, st_sel st with
                | Dict, Some s =>
                  if (s_box s =? box)%N
                  then Some (mkSel (s_box s) (s_ro s) (s_perm s) (refresh_cached b (s_view s))
                                   (s_recent s))
                  else Some s
                | _, sl => sl
                end in
      set_sel st (set_box box b2 (st_boxes st)) sl
    end
  | XAppend box fl date cid =>
    match lookup box (st_boxes st) with
    | None => st
    | Some b =>
      if b_ro b then st else
      (* dict: any_selected finds the session's read-write selection of this mailbox;
         a maildir session only knows the selections of its own connection *)
      let ds := match bk with Dict => dest_selected st box | Maildir => false end in
      let '(b', u) := mb_add b (storable bk (b_perm b) (diff fl [FRecent])) date cid (negb ds) in
      let sl := match st_sel st with
                | Some s => if ds then Some (mkSel (s_box s) (s_ro s) (s_perm s) (s_view s)
                                                   (add_recent u (s_recent s)))
                            else Some s
                | None => None
                end in
      set_sel st (set_box box b' (st_boxes st)) sl
    end
  end.

Definition step_l (st : state) (l : label) : state * option out :=
  match l with
  | LCmd c => let '(st', o) := step st c in (st', Some o)
  | LExt e => (ext_apply st e, None)
  end.
Fixpoint run_l (st : state) (prog : list label) : state * list (option out) :=
  match prog with
  | [] => (st, [])
  | l :: r => let '(st1, o) := step_l st l in
              let '(st2, os) := run_l st1 r in (st2, o :: os)
  end.
