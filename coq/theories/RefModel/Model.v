(* RefModel/Model.v — one IMAP session's message commands, as pymap executes them.

   Mirrors, for ONE session and sequential commands:
     pymap/imap/state.py        do_select do_append do_store do_expunge do_copy
                                do_move do_fetch do_close + the gate of do_command
     pymap/backend/session.py   select_mailbox append_messages update_flags
                                expunge_mailbox copy_messages move_messages
                                fetch_messages _pick_selected _load_updates
     pymap/selected.py          SynchronizedMessages.get_uids/get_all, _Frozen,
                                SelectedMailbox.silence/fork/_compare
     pymap/backend/dict/mailbox.py, maildir/mailbox.py
                                append copy move get update delete claim_recent
                                snapshot update_selected
     pymap/parsing/response     CommandResponse.add_untagged (FETCH merge)
     pymap/parsing/specials/fetchattr.py  FetchAttribute.set_seen

   What is abstracted (validated by the correspondence run, stated in docs/C10.md):
   * the session's view (_sorted/_cache/_flags_key_map/_seqs_cache) is ONE list
     of cached messages ordered by UID; update_selected is a full resync (with
     one session nothing is ever expunged while hide_expunged is set, and the
     mod-sequence log only limits which messages are re-read);
   * no mailbox is created/deleted/renamed during a program (C11's business);
   * UIDVALIDITY, object ids, message bytes are not represented: a message
     body is a content id, a date is a number of seconds.
   Definitions only. *)
From PV Require Import Base.Prelude Wire.SeqSet RefModel.Flags.
Local Open Scope N_scope.

(* ---------------------------------------------------------------- state *)
Record msg := mkMsg {
  m_uid : N; m_flags : fset; m_date : N; m_cid : N;
  m_recent : bool   (* stored \Recent: dict Message._recent / maildir subdir 'new' *)
}.
Record mbox := mkBox {
  b_msgs : list msg;   (* dict _messages in insertion order / uidlist order *)
  b_maxuid : N;        (* dict _max_uid ; maildir next_uid - 1 *)
  b_ro : bool;         (* MailboxData.readonly *)
  b_perm : fset        (* MailboxData.permanent_flags *)
}.
Definition boxes := list (N * mbox).   (* mailbox name (an id) -> mailbox *)

Fixpoint lookup (n : N) (bs : boxes) : option mbox :=
  match bs with
  | [] => None
  | (k, b) :: r => if (k =? n)%N then Some b else lookup n r
  end.
Fixpoint set_box (n : N) (b : mbox) (bs : boxes) : boxes :=
  match bs with
  | [] => []
  | (k, b0) :: r => if (k =? n)%N then (k, b) :: r else (k, b0) :: set_box n b r
  end.

(* SelectedMailbox + SynchronizedMessages + SessionFlags of the session *)
Record sel := mkSel {
  s_box : N;              (* lookup name *)
  s_ro : bool;            (* readonly: EXAMINE or read-only mailbox *)
  s_perm : fset;          (* PermanentFlags(mbx.permanent_flags)._defined *)
  s_view : list msg;      (* cached messages, ascending UID *)
  s_recent : list N       (* SessionFlags._recent *)
}.
Record state := mkState { st_bk : backend; st_boxes : boxes; st_sel : option sel }.

(* ------------------------------------------------------------- commands *)
Inductive aname :=
| ABody | ABodyPeek | ABinary | ABinaryPeek | ABinarySize
| ARfc822 | ARfc822Header | ARfc822Text | ARfc822Size
| AFlags | AUid | AInternalDate | AEnvelope | ABodyStructure | AEmailId | AThreadId.
Definition aname_eqb (a b : aname) : bool :=
  match a, b with
  | ABody, ABody | ABodyPeek, ABodyPeek | ABinary, ABinary | ABinaryPeek, ABinaryPeek
  | ABinarySize, ABinarySize | ARfc822, ARfc822 | ARfc822Header, ARfc822Header
  | ARfc822Text, ARfc822Text | ARfc822Size, ARfc822Size | AFlags, AFlags | AUid, AUid
  | AInternalDate, AInternalDate | AEnvelope, AEnvelope | ABodyStructure, ABodyStructure
  | AEmailId, AEmailId | AThreadId, AThreadId => true
  | _, _ => false
  end.
Record fattr := mkAttr {
  fa_name : aname;
  fa_section : bool;   (* a [section] is present (FetchAttribute.section is not None) *)
  fa_content : bool    (* harness convention: the whole content is identifiable
                          from this item (BODY[] / BODY.PEEK[] / RFC822 / RFC822.SIZE) *)
}.

Inductive cmd :=
| CSelect (box : N) (readonly : bool)                 (* SELECT / EXAMINE *)
| CAppend (box : N) (flags : fset) (date : N) (cid : N)
| CStore (uid : bool) (ss : seqset) (op : flagop) (silent : bool) (flags : fset)
| CExpunge (uidset : option seqset)                   (* Some = UID EXPUNGE *)
| CCopy (uid : bool) (ss : seqset) (dest : N)
| CMove (uid : bool) (ss : seqset) (dest : N)
| CFetch (uid : bool) (ss : seqset) (attrs : list fattr)
| CClose.

(* -------------------------------------------------------------- outputs *)
Inductive cond := OK | NO | BAD | BYE.
Inductive code :=
| CNone | CReadOnly | CReadWrite | CTryCreate | CNonexistent | CExpungeIssued
| CAppendUid (u : N)
| CCopyUid (src dst : list N).
Record fitem := mkItem {
  fi_seq : N; fi_uid : option N; fi_flags : option fset;
  fi_date : option N; fi_cid : option N
}.
Inductive untagged :=
| UExpunge (n : N) | UExists (n : N) | URecent (n : N)
| UFetch (i : fitem)
| UMoved (c : code)                                   (* * OK [COPYUID ..] Moved. *)
| USelect (exists_ recent uidnext : N) (first_unseen : option N) (permflags : fset).
Record out := mkOut { o_cond : cond; o_code : code; o_untagged : list untagged }.

(* --------------------------------------------------- addressing messages *)
Fixpoint enum_from {A} (k : N) (l : list A) : list (N * A) :=
  match l with [] => [] | x :: r => (k, x) :: enum_from (k + 1) r end.
Definition enumerate {A} (l : list A) : list (N * A) := enum_from 1 l.  (* enumerate(l, 1) *)

Definition uids_of (l : list msg) : list N := map m_uid l.
Definition v_exists (v : list msg) : N := N.of_nat (length v).          (* len(_uids) *)
Definition v_maxuid (v : list msg) : N := last (uids_of v) 0.           (* _sorted[-1] or 0 *)

(* get_uids / get_all: (sequence number, cached message) of the addressed ones *)
Definition get_all (v : list msg) (uidmode : bool) (ss : seqset) : list (N * msg) :=
  if uidmode then
    let all := seq_iter (v_maxuid v) ss in
    filter (fun qm => memN (m_uid (snd qm)) all) (enumerate v)
  else
    let all := seq_iter (v_exists v) ss in
    filter (fun qm => memN (fst qm) all) (enumerate v).

(* ------------------------------------------------------ mailbox (backend) *)
Definition find_msg (u : N) (l : list msg) : option msg :=
  find (fun m => (m_uid m =? u)%N) l.
Definition set_flags (m : msg) (fl : fset) : msg :=
  mkMsg (m_uid m) fl (m_date m) (m_cid m) (m_recent m).
Definition set_msgs (b : mbox) (l : list msg) : mbox :=
  mkBox l (b_maxuid b) (b_ro b) (b_perm b).

(* MailboxData.get: the live message, or an expunged copy of the cached one *)
Definition mb_get (b : mbox) (cached : msg) : msg * bool :=
  match find_msg (m_uid cached) (b_msgs b) with
  | Some m => (m, false)
  | None => (cached, true)
  end.
(* MailboxData.update(uid, cached, flag_set, mode) *)
Definition mb_update (bk : backend) (b : mbox) (cached : msg) (fs : fset) (op : flagop)
  : mbox * (msg * bool) :=
  match find_msg (m_uid cached) (b_msgs b) with
  | Some m =>
    let m' := set_flags m (storable bk (b_perm b) (op_apply op (m_flags m) fs)) in
    (set_msgs b (map (fun x => if (m_uid x =? m_uid cached)%N then m' else x) (b_msgs b)),
     (m', false))
  | None => (b, (set_flags cached (op_apply op (m_flags cached) fs), true))
  end.
(* MailboxData.delete(uids) *)
Definition mb_delete (b : mbox) (dead : list N) : mbox :=
  set_msgs b (filter (fun m => negb (memN (m_uid m) dead)) (b_msgs b)).
(* append of a new message object with the next UID *)
Definition mb_add (b : mbox) (fl : fset) (date cid : N) (recent : bool) : mbox * N :=
  let u := (b_maxuid b + 1)%N in
  (mkBox (b_msgs b ++ [mkMsg u fl date cid recent]) u (b_ro b) (b_perm b), u).

Definition add_recent (u : N) (l : list N) : list N := if memN u l then l else l ++ [u].

(* ------------------------------------------------- fork / _compare / merge *)
Definition recent_in (rec : list N) (v : list msg) : list N :=      (* recent_uids & uids *)
  filter (fun u => memN u (uids_of v)) rec.
Definition key_in (m : msg) (l : list msg) : bool :=                (* (uid, flags) in set *)
  existsb (fun x => (m_uid x =? m_uid m)%N && fset_eqb (m_flags x) (m_flags m)) l.
Definition key_silenced (m : msg) (sil : list (N * fset)) : bool :=
  existsb (fun k => (fst k =? m_uid m)%N && fset_eqb (snd k) (m_flags m)) sil.

Definition flags_item (q : N) (m : msg) (rec : list N) (with_uid : bool) : untagged :=
  UFetch (mkItem q (if with_uid then Some (m_uid m) else None)
                 (Some (with_recent (m_flags m) (memN (m_uid m) rec))) None None).

(* SelectedMailbox._compare(before, after, with_uid), not hiding expunges *)
Definition compare (v0 : list msg) (rec0 : list N) (v1 : list msg) (rec1 : list N)
           (silenced : list (N * fset)) (with_uid : bool) : list untagged :=
  let r0 := recent_in rec0 v0 in
  let r1 := recent_in rec1 v1 in
  map (fun qm => UExpunge (fst qm))
      (rev (filter (fun qm => negb (memN (m_uid (snd qm)) (uids_of v1))) (enumerate v0)))
  ++ (if existsb (fun m => negb (memN (m_uid m) (uids_of v0))) v1
      then [UExists (v_exists v1)] else [])
  ++ (if (N.of_nat (length r1) =? N.of_nat (length r0))%N then []
      else [URecent (N.of_nat (length r1))])
  ++ map (fun qm => flags_item (fst qm) (snd qm) rec1 with_uid)
         (filter (fun qm =>
                    let m := snd qm in
                    (memN (m_uid m) r1 && negb (memN (m_uid m) r0))
                    || (negb (key_in m v0) && negb (key_silenced m silenced)))
                 (enumerate v1)).

(* FetchResponse.merge: attributes of [b] are added to / replace those of [a] *)
Definition or_else {A} (x y : option A) : option A := match x with Some _ => x | None => y end.
Definition merge_item (a b : fitem) : fitem :=
  mkItem (fi_seq a) (or_else (fi_uid b) (fi_uid a)) (or_else (fi_flags b) (fi_flags a))
         (or_else (fi_date b) (fi_date a)) (or_else (fi_cid b) (fi_cid a)).
(* CommandResponse.add_untagged for one response *)
Fixpoint merge_into (acc : list untagged) (i : fitem) : option (list untagged) :=
  match acc with
  | [] => None
  | UFetch a :: r =>
    if (fi_seq a =? fi_seq i)%N then Some (UFetch (merge_item a i) :: r)
    else match merge_into r i with Some r' => Some (UFetch a :: r') | None => None end
  | x :: r => match merge_into r i with Some r' => Some (x :: r') | None => None end
  end.
Definition add_untagged (acc : list untagged) (u : untagged) : list untagged :=
  match u with
  | UFetch i => match merge_into acc i with Some acc' => acc' | None => acc ++ [u] end
  | _ => acc ++ [u]
  end.

(* update_selected on mailbox [b] followed by fork(command):
   [s] is the selection as it was when the command started (= the last fork),
   [rec] the session's \Recent set as the command left it *)
Definition finish (b : mbox) (s : sel) (rec : list N) (silenced : list (N * fset))
           (with_uid : bool) (items : list untagged) : sel * list untagged :=
  let v1 := b_msgs b in
  let expunged u := memN u (uids_of (s_view s)) && negb (memN u (uids_of v1)) in
  let rec1 := filter (fun u => negb (expunged u)) rec in       (* session_flags.remove *)
  (mkSel (s_box s) (s_ro s) (s_perm s) v1 rec1,
   fold_left add_untagged (compare (s_view s) (s_recent s) v1 rec1 silenced with_uid) items).

Definition set_sel (st : state) (bs : boxes) (s : option sel) : state :=
  mkState (st_bk st) bs s.
Definition reply (st : state) (c : cond) (k : code) : state * out := (st, mkOut c k []).

(* ------------------------------------------------------------- commands *)
Definition count_recent (l : list msg) : N := N.of_nat (length (filter m_recent l)).
Fixpoint first_unseen_from (k : N) (l : list msg) : option N :=
  match l with
  | [] => None
  | m :: r => if mem FSeen (m_flags m) then first_unseen_from (k + 1) r else Some k
  end.
Definition clear_recent (m : msg) : msg :=
  mkMsg (m_uid m) (m_flags m) (m_date m) (m_cid m) false.

(* do_select + select_mailbox (claim_recent, snapshot, update_selected, first fork) *)
Definition do_select (st : state) (box : N) (ro : bool) : state * out :=
  let st0 := set_sel st (st_boxes st) None in                  (* self._selected = None *)
  match lookup box (st_boxes st) with
  | None => reply st0 NO CNonexistent
  | Some b =>
    let ro' := ro || b_ro b in
    let claimed := if ro' then [] else uids_of (filter m_recent (b_msgs b)) in
    let b' := if ro' then b else set_msgs b (map clear_recent (b_msgs b)) in
    let s := mkSel box ro' (perm_defined (b_perm b)) (b_msgs b') claimed in
    (set_sel st (set_box box b' (st_boxes st)) (Some s),
     mkOut OK (if ro' then CReadOnly else CReadWrite)
           [USelect (v_exists (b_msgs b'))
                    (if ro' then count_recent (b_msgs b') else N.of_nat (length claimed))
                    (b_maxuid b' + 1)
                    (first_unseen_from 1 (b_msgs b'))
                    (if ro' then [] else b_perm b)])
  end.

(* _pick_selected for one session: the own selection when it is read-write
   and on this mailbox; otherwise nobody (no other session exists) *)
Definition dest_selected (st : state) (box : N) : bool :=
  match st_sel st with
  | Some s => negb (s_ro s) && (s_box s =? box)%N
  | None => false
  end.

(* do_append + append_messages, one message (AppendMessage drops \Recent) *)
Definition do_append (st : state) (box : N) (fl : fset) (date cid : N) : state * out :=
  match lookup box (st_boxes st) with
  | None => reply st NO CTryCreate
  | Some b =>
    if b_ro b then reply st NO CReadOnly else
    let ds := dest_selected st box in
    let fl' := storable (st_bk st) (b_perm b) (diff fl [FRecent]) in
    let '(b', u) := mb_add b fl' date cid (negb ds) in
    let bs' := set_box box b' (st_boxes st) in
    match st_sel st with
    | None => (set_sel st bs' None, mkOut OK (CAppendUid u) [])
    | Some s =>
      let rec := if ds then add_recent u (s_recent s) else s_recent s in
      match lookup (s_box s) bs' with                       (* _load_updates *)
      | None => (set_sel st bs' (Some s), mkOut BYE CNone [])
      | Some sb =>
        let '(s', un) := finish sb s rec [] false [] in
        (set_sel st bs' (Some s'), mkOut OK (CAppendUid u) un)
      end
    end
  end.

(* the per-message loop of update_flags / fetch_messages(set_seen) *)
Fixpoint update_loop (bk : backend) (b : mbox) (targets : list (N * msg)) (fs : fset)
         (op : flagop) : mbox * list (N * msg * bool) :=
  match targets with
  | [] => (b, [])
  | (q, c) :: r =>
    let '(b1, (m, ex)) := mb_update bk b c fs op in
    let '(b2, res) := update_loop bk b1 r fs op in
    (b2, (q, m, ex) :: res)
  end.

(* SelectedMailbox.silence *)
Definition silence (targets : list (N * msg)) (pf : fset) (op : flagop) : list (N * fset) :=
  flat_map (fun qc => let c := snd qc in
                      let upd := op_apply op (m_flags c) pf in
                      if fset_eqb (m_flags c) upd then [] else [(m_uid c, upd)]) targets.

Definition any_expunged (res : list (N * msg * bool)) : bool := existsb (fun x => snd x) res.

(* do_store + update_flags (both refuse a read-only selection; do_store does so
   before silence(), which is therefore never observable in that case) *)
Definition do_store (st : state) (uid : bool) (ss : seqset) (op : flagop) (silent : bool)
           (fl : fset) : state * out :=
  match st_sel st with
  | None => reply st BAD CNone
  | Some s =>
    let targets := get_all (s_view s) uid ss in
    let pf := perm_intersect (s_perm s) fl in
    let silenced := if silent then silence targets pf op else [] in
    if s_ro s then reply st NO CReadOnly else
    match lookup (s_box s) (st_boxes st) with
    | None => reply st NO CNonexistent
    | Some b =>
      let '(b', res) := update_loop (st_bk st) b targets pf op in
      let items :=
        flat_map (fun x => let '(q, m, ex) := x in
                           if negb ex && silent then []
                           else [flags_item q m (s_recent s) uid]) res in
      let '(s', un) := finish b' s (s_recent s) silenced uid items in
      (set_sel st (set_box (s_box s) b' (st_boxes st)) (Some s'),
       mkOut OK (if any_expunged res then CExpungeIssued else CNone) un)
    end
  end.

(* find_deleted over SequenceSet.all(uid=True) or the given UID set *)
Definition expunge_targets (v : list msg) (uidset : option seqset) : list (N * msg) :=
  match uidset with
  | Some ss => get_all v true ss
  | None => filter (fun qm => memN (m_uid (snd qm)) (nrange 1 (v_maxuid v))) (enumerate v)
  end.
Definition find_deleted (b : mbox) (targets : list (N * msg)) (rec : list N) : list N :=
  flat_map (fun qc => let '(m, _) := mb_get b (snd qc) in
                      if mem FDeleted (with_recent (m_flags m) (memN (m_uid m) rec))
                      then [m_uid m] else []) targets.

(* do_expunge + expunge_mailbox *)
Definition do_expunge (st : state) (uidset : option seqset) : state * out :=
  match st_sel st with
  | None => reply st BAD CNone
  | Some s =>
    if s_ro s then reply st NO CReadOnly else
    match lookup (s_box s) (st_boxes st) with
    | None => reply st NO CNonexistent
    | Some b =>
      let dead := find_deleted b (expunge_targets (s_view s) uidset) (s_recent s) in
      let b' := mb_delete b dead in
      let with_uid := match uidset with Some _ => true | None => false end in
      let '(s', un) := finish b' s (s_recent s) [] with_uid [] in
      (set_sel st (set_box (s_box s) b' (st_boxes st)) (Some s'), mkOut OK CNone un)
    end
  end.

(* do_close: deselect first; a read-write selection is expunged silently *)
Definition do_close (st : state) : state * out :=
  match st_sel st with
  | None => reply st BAD CNone
  | Some s =>
    let st0 := set_sel st (st_boxes st) None in
    if s_ro s then reply st0 OK CNone else
    match lookup (s_box s) (st_boxes st) with
    | None => reply st0 NO CNonexistent
    | Some b =>
      let dead := find_deleted b (expunge_targets (s_view s) None) (s_recent s) in
      reply (set_sel st (set_box (s_box s) (mb_delete b dead) (st_boxes st)) None) OK CNone
    end
  end.

(* the per-message loop of copy_messages (move = false) / move_messages (true):
   MailboxData.copy / .move, then add_recent and the (source, dest) UID pair *)
Fixpoint copy_loop (move : bool) (src dst : N) (ds : bool) (bs : boxes) (rec : list N)
         (pairs : list (N * msg)) : boxes * list N * list (N * N) :=
  match pairs with
  | [] => (bs, rec, [])
  | (_, c) :: r =>
    match lookup src bs with
    | None => copy_loop move src dst ds bs rec r
    | Some sb =>
      match find_msg (m_uid c) (b_msgs sb) with
      | None => copy_loop move src dst ds bs rec r            (* copy()/move() -> None *)
      | Some m =>
        let bs1 := if move then set_box src (mb_delete sb [m_uid c]) bs else bs in
        match lookup dst bs1 with
        | None => copy_loop move src dst ds bs1 rec r
        | Some db =>
          let '(db', du) := mb_add db (m_flags m) (m_date m) (m_cid m) (negb ds) in
          let bs2 := set_box dst db' bs1 in
          let rec2 := if ds then add_recent du rec else rec in
          let '(bs3, rec3, us) := copy_loop move src dst ds bs2 rec2 r in
          (bs3, rec3, (m_uid c, du) :: us)
        end
      end
    end
  end.
Definition copy_code (us : list (N * N)) : code :=
  match us with [] => CNone | _ => CCopyUid (map fst us) (map snd us) end.

(* do_copy + copy_messages *)
Definition do_copy (st : state) (uid : bool) (ss : seqset) (dest : N) : state * out :=
  match st_sel st with
  | None => reply st BAD CNone
  | Some s =>
    match lookup (s_box s) (st_boxes st) with
    | None => reply st NO CNonexistent
    | Some _ =>
      match lookup dest (st_boxes st) with
      | None => reply st NO CTryCreate
      | Some d =>
        if b_ro d then reply st NO CReadOnly else
        let ds := dest_selected st dest in
        let '(bs', rec, us) :=
          copy_loop false (s_box s) dest ds (st_boxes st) (s_recent s)
                    (get_all (s_view s) uid ss) in
        match lookup (s_box s) bs' with
        | None => reply st NO CNonexistent
        | Some b' =>
          let '(s', un) := finish b' s rec [] uid [] in
          (set_sel st bs' (Some s'), mkOut OK (copy_code us) un)
        end
      end
    end
  end.

(* do_move + move_messages (a read-only selection is refused) *)
Definition do_move (st : state) (uid : bool) (ss : seqset) (dest : N) : state * out :=
  match st_sel st with
  | None => reply st BAD CNone
  | Some s =>
    if s_ro s then reply st NO CReadOnly else
    match lookup (s_box s) (st_boxes st) with
    | None => reply st NO CNonexistent
    | Some _ =>
      match lookup dest (st_boxes st) with
      | None => reply st NO CTryCreate
      | Some d =>
        if b_ro d then reply st NO CReadOnly else
        let ds := dest_selected st dest in
        let '(bs', rec, us) :=
          copy_loop true (s_box s) dest ds (st_boxes st) (s_recent s)
                    (get_all (s_view s) uid ss) in
        match lookup (s_box s) bs' with
        | None => reply st NO CNonexistent
        | Some b' =>
          let '(s', un) := finish b' s rec [] uid [UMoved (copy_code us)] in
          (set_sel st bs' (Some s'), mkOut OK CNone un)
        end
      end
    end
  end.

(* FetchAttribute.set_seen *)
Definition attr_set_seen (a : fattr) : bool :=
  match fa_name a with
  | ABody => fa_section a
  | ABinary => true
  | ARfc822 | ARfc822Text => true
  | _ => false
  end.
Definition has_attr (n : aname) (attrs : list fattr) : bool :=
  existsb (fun a => aname_eqb (fa_name a) n) attrs.

Fixpoint get_loop (b : mbox) (targets : list (N * msg)) : list (N * msg * bool) :=
  match targets with
  | [] => []
  | (q, c) :: r => let '(m, ex) := mb_get b c in (q, m, ex) :: get_loop b r
  end.

(* do_fetch + fetch_messages; the item shows what the harness observes *)
Definition do_fetch (st : state) (uid : bool) (ss : seqset) (attrs : list fattr)
  : state * out :=
  match st_sel st with
  | None => reply st BAD CNone
  | Some s =>
    let set_seen := negb (s_ro s) && existsb attr_set_seen attrs in
    match lookup (s_box s) (st_boxes st) with
    | None => reply st NO CNonexistent
    | Some b =>
      let targets := get_all (s_view s) uid ss in
      let '(b', res) :=
        if set_seen then update_loop (st_bk st) b targets [FSeen] OpAdd
        else (b, get_loop b targets) in
      let items :=
        map (fun x => let '(q, m, _) := x in
               UFetch (mkItem q
                 (if uid || has_attr AUid attrs then Some (m_uid m) else None)
                 (if has_attr AFlags attrs
                  then Some (with_recent (m_flags m) (memN (m_uid m) (s_recent s))) else None)
                 (if has_attr AInternalDate attrs then Some (m_date m) else None)
                 (if existsb fa_content attrs then Some (m_cid m) else None))) res in
      let '(s', un) := finish b' s (s_recent s) [] uid items in
      (set_sel st (set_box (s_box s) b' (st_boxes st)) (Some s'),
       mkOut OK (if any_expunged res then CExpungeIssued else CNone) un)
    end
  end.

Definition step (st : state) (c : cmd) : state * out :=
  match c with
  | CSelect box ro => do_select st box ro
  | CAppend box fl date cid => do_append st box fl date cid
  | CStore uid ss op silent fl => do_store st uid ss op silent fl
  | CExpunge us => do_expunge st us
  | CCopy uid ss dest => do_copy st uid ss dest
  | CMove uid ss dest => do_move st uid ss dest
  | CFetch uid ss attrs => do_fetch st uid ss attrs
  | CClose => do_close st
  end.

Fixpoint run (st : state) (prog : list cmd) : state * list out :=
  match prog with
  | [] => (st, [])
  | c :: r => let '(st1, o) := step st c in
              let '(st2, os) := run st1 r in (st2, o :: os)
  end.
