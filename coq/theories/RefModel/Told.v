(* RefModel/Told.v — the reference for a session that is NOT alone: between two of
   its commands other connections may change flags, deliver and expunge (the
   labels [LExt] of Model.v).  Then what the session has been told (its numbering
   of the mailbox) and the mailbox differ, and RFC 3501 (5.2, 5.5, 6.4.x, 7.4.1)
   says how commands are to be read:

   - sequence numbers, '*' and UID ranges denote positions / UIDs in the list the
     session has been TOLD so far ([s_view], read here as "told"), with the
     denotation of Wire/SeqSet.v ([Spec.addressed]);
   - every command acts on the mailbox in ONE step, on the live messages that have
     the UIDs of the addressed told ones: flags by one map ([t_store_box]), removal
     by one filter, COPY/MOVE by appending copies of the live originals in the order
     addressed ([t_deliver], [t_remove]), APPEND by appending the new messages;
     an addressed message that no longer exists is skipped by COPY/MOVE/EXPUNGE and
     answered from what the session was told by FETCH/STORE/SEARCH (with
     [EXPUNGEISSUED], RFC 5530);
   - afterwards the session is told the difference between what it was told and the
     mailbox (Model.finish / compare, themselves one map/filter each: EXPUNGE for
     what is gone, highest first, EXISTS, RECENT, FETCH FLAGS of what changed);
     commands that must not renumber (FETCH, STORE, SEARCH by sequence number) keep
     the gone messages in the told list ([finish_h]).

   Nothing here iterates message by message with a state, and nothing uses
   [seq_iter] / [get_all].  ToldProofs.v proves that the model (Model.step /
   ext_apply, with its per-message loops and SequenceSet flattening) equals this
   reference on every labelled program.  Commands without a loop or a sequence set
   (SELECT, NOOP, CHECK, STATUS, CREATE, DELETE, RENAME) are the model's own
   functions.  Definitions only. *)
From PV Require Import Base.Prelude Wire.SeqSet RefModel.Flags RefModel.Model RefModel.Spec.
Local Open Scope N_scope.

(* the addressed entries (position, told message) of the told list *)
Definition t_addressed (told : list msg) (uid : bool) (ss : seqset) : list (N * msg) :=
  filter (fun qm => addressed uid ss told (fst qm) (snd qm)) (enumerate told).
Definition t_uids (T : list (N * msg)) : list N := map (fun qc => m_uid (snd qc)) T.

(* ---- flags: one map over the mailbox; the answers, target by target *)
Definition t_upd (bk : backend) (perm : fset) (op : flagop) (fs : fset) (m : msg) : msg :=
  set_flags m (storable bk perm (op_apply op (m_flags m) fs)).
Definition t_store_box (bk : backend) (b : mbox) (T : list (N * msg)) (fs : fset) (op : flagop)
  : mbox :=
  set_msgs b (map (fun m => if memN (m_uid m) (t_uids T) then t_upd bk (b_perm b) op fs m else m)
                  (b_msgs b)).
Definition t_store_res (bk : backend) (b : mbox) (T : list (N * msg)) (fs : fset) (op : flagop)
  : list (N * msg * bool) :=
  map (fun qc => match find_msg (m_uid (snd qc)) (b_msgs b) with
                 | Some m => (fst qc, t_upd bk (b_perm b) op fs m, false)
                 | None => (fst qc, set_flags (snd qc) (op_apply op (m_flags (snd qc)) fs), true)
                 end) T.
(* reading: the live message, or the told one marked expunged *)
Definition t_get_res (b : mbox) (T : list (N * msg)) : list (N * msg * bool) :=
  map (fun qc => let '(m, ex) := mb_get b (snd qc) in (fst qc, m, ex)) T.

(* ---- COPY / MOVE: the live originals, their copies at the end of the destination *)
Definition t_live (l : list msg) (T : list (N * msg)) : list msg :=
  flat_map (fun qc => match find_msg (m_uid (snd qc)) l with Some m => [m] | None => [] end) T.
Definition t_deliver (bk : backend) (d : mbox) (ds : bool) (cs : list msg) : mbox :=
  mkBox (b_msgs d ++ copies_from bk (b_perm d) (b_maxuid d + 1) (negb ds) cs)
        (b_maxuid d + N.of_nat (length cs)) (b_ro d) (b_perm d) (b_uidv d).
Definition t_recent (ds : bool) (new : list N) (rec : list N) : list N :=
  if ds then fold_left (fun r u => add_recent u r) new rec else rec.
Definition t_remove (src : N) (cs : list msg) (bs : boxes) : boxes :=
  match lookup src bs with
  | Some s1 => set_box src (set_msgs s1 (filter (fun m => negb (memN (m_uid m) (uids_of cs)))
                                                (b_msgs s1))) bs
  | None => bs
  end.

Definition t_store (st : state) (uid : bool) (ss : seqset) (op : flagop) (silent : bool)
           (fl : fset) : state * out :=
  match st_sel st with
  | None => reply st BAD CNone
  | Some s =>
    let targets := t_addressed (s_view s) uid ss in
    let pf := perm_intersect (s_perm s) fl in
    let silenced := if silent then silence targets pf op else [] in
    if s_ro s then reply st NO CReadOnly else
    match lookup (s_box s) (st_boxes st) with
    | None => reply st NO CNonexistent
    | Some b =>
      let b' := t_store_box (st_bk st) b targets pf op in
      let res := t_store_res (st_bk st) b targets pf op in
      let rec1 := post_recent (negb uid) b' s (s_recent s) in
      let items :=
        flat_map (fun x => let '(q, m, ex) := x in
                           if negb ex && silent then []
                           else [flags_item q m rec1 uid]) res in
      let '(s', un) := finish_h (negb uid) b' s (s_recent s) silenced uid items in
      (set_sel st (set_box (s_box s) b' (st_boxes st)) (Some s'),
       mkOut OK (if any_expunged res then CExpungeIssued else CNone) un)
    end
  end.

Definition t_expunge_targets (told : list msg) (uidset : option seqset) : list (N * msg) :=
  match uidset with Some ss => t_addressed told true ss | None => enumerate told end.

(* the \Deleted ones among the live messages with the told (and named) UIDs go *)
Definition t_expunge (st : state) (uidset : option seqset) : state * out :=
  match st_sel st with
  | None => reply st BAD CNone
  | Some s =>
    if s_ro s then reply st NO CReadOnly else
    match lookup (s_box s) (st_boxes st) with
    | None => reply st NO CNonexistent
    | Some b =>
      let dead := find_deleted b (t_expunge_targets (s_view s) uidset) (s_recent s) in
      let b' := mb_delete b dead in
      let with_uid := match uidset with Some _ => true | None => false end in
      let '(s', un) := finish b' s (s_recent s) [] with_uid [] in
      (set_sel st (set_box (s_box s) b' (st_boxes st)) (Some s'), mkOut OK CNone un)
    end
  end.

Definition t_close (st : state) : state * out :=
  match st_sel st with
  | None => reply st BAD CNone
  | Some s =>
    let st0 := set_sel st (st_boxes st) None in
    if s_ro s then reply st0 OK CNone else
    match lookup (s_box s) (st_boxes st) with
    | None => reply st0 OK CNone
    | Some b =>
      let dead := find_deleted b (enumerate (s_view s)) (s_recent s) in
      reply (set_sel st (set_box (s_box s) (mb_delete b dead) (st_boxes st)) None) OK CNone
    end
  end.

Definition t_copy (st : state) (uid : bool) (ss : seqset) (dest : N) : state * out :=
  match st_sel st with
  | None => reply st BAD CNone
  | Some s =>
    match lookup (s_box s) (st_boxes st) with
    | None => reply st NO CNonexistent
    | Some sb =>
      match lookup dest (st_boxes st) with
      | None => reply st NO CTryCreate
      | Some d =>
        if b_ro d then reply st NO CReadOnly else
        let ds := dest_selected st dest in
        let cs := t_live (b_msgs sb) (t_addressed (s_view s) uid ss) in
        let new := uids_of (copies_from (st_bk st) (b_perm d) (b_maxuid d + 1) (negb ds) cs) in
        let bs' := set_box dest (t_deliver (st_bk st) d ds cs) (st_boxes st) in
        let rec := t_recent ds new (s_recent s) in
        let us := combine (uids_of cs) new in
        match lookup (s_box s) bs' with
        | None => reply st NO CNonexistent
        | Some b' =>
          let '(s', un) := finish b' s rec [] uid [] in
          (set_sel st bs' (Some s'), mkOut OK (copy_code us) un)
        end
      end
    end
  end.

Definition t_move (st : state) (uid : bool) (ss : seqset) (dest : N) : state * out :=
  match st_sel st with
  | None => reply st BAD CNone
  | Some s =>
    if s_ro s then reply st NO CReadOnly else
    match lookup (s_box s) (st_boxes st) with
    | None => reply st NO CNonexistent
    | Some sb =>
      match lookup dest (st_boxes st) with
      | None => reply st NO CTryCreate
      | Some d =>
        if b_ro d then reply st NO CReadOnly else
        let ds := dest_selected st dest in
        let cs := t_live (b_msgs sb) (t_addressed (s_view s) uid ss) in
        let new := uids_of (copies_from (st_bk st) (b_perm d) (b_maxuid d + 1) (negb ds) cs) in
        let bs' := t_remove (s_box s) cs
                            (set_box dest (t_deliver (st_bk st) d ds cs) (st_boxes st)) in
        let rec := t_recent ds new (s_recent s) in
        let us := combine (uids_of cs) new in
        match lookup (s_box s) bs' with
        | None => reply st NO CNonexistent
        | Some b' =>
          let '(s', un) := finish b' s rec [] uid [UMoved (copy_code us)] in
          (set_sel st bs' (Some s'), mkOut OK CNone un)
        end
      end
    end
  end.

Definition t_fetch (st : state) (uid : bool) (ss : seqset) (attrs : list fattr)
  : state * out :=
  match st_sel st with
  | None => reply st BAD CNone
  | Some s =>
    let set_seen := negb (s_ro s) && existsb attr_set_seen attrs in
    match lookup (s_box s) (st_boxes st) with
    | None => reply st NO CNonexistent
    | Some b =>
      let targets := t_addressed (s_view s) uid ss in
      let '(b', res) :=
        if set_seen then (t_store_box (st_bk st) b targets [FSeen] OpAdd,
                          t_store_res (st_bk st) b targets [FSeen] OpAdd)
        else (b, t_get_res b targets) in
      let items :=
        map (fun x => let '(q, m, ex) := x in
               UFetch (mkItem q
                 (if uid || has_attr AUid attrs then Some (m_uid m) else None)
                 (if has_attr AFlags attrs
                  then Some (with_recent (m_flags m)
                                         (memN (m_uid m) (post_recent (negb uid) b' s (s_recent s))))
                  else None)
                 (if has_attr AInternalDate attrs then Some (m_date m) else None)
                 (if existsb fa_content attrs
                  then Some (match st_bk st, ex with
                             | Maildir, true => NO_CONTENT
                             | _, _ => m_cid m
                             end)
                  else None))) res in
      let '(s', un) := finish_h (negb uid) b' s (s_recent s) [] uid items in
      (set_sel st (set_box (s_box s) b' (st_boxes st)) (Some s'),
       mkOut OK (if any_expunged res then CExpungeIssued else CNone) un)
    end
  end.

Definition t_search (st : state) (uid : bool) (keys : list skey) : state * out :=
  match st_sel st with
  | None => reply st BAD CNone
  | Some s =>
    match lookup (s_box s) (st_boxes st) with
    | None => reply st NO CNonexistent
    | Some b =>
      let res := filter (fun x => let '(q, m, _) := x in
                                  forallb (skey_matches (s_view s) (s_recent s) q m) keys)
                        (t_get_res b (enumerate (s_view s))) in
      let ids := map (fun x => let '(q, m, _) := x in if uid then m_uid m else q) res in
      let '(s', un) := finish_h (negb uid) b s (s_recent s) [] uid [USearch ids] in
      (set_sel st (st_boxes st) (Some s'),
       mkOut OK (if any_expunged res then CExpungeIssued else CNone) un)
    end
  end.

(* APPEND / MULTIAPPEND: all the messages at the end, or (a failing one) none of them,
   the tried UIDs used up and the connection ended *)
Definition t_append (st : state) (box : N) (msgs : list amsg) : state * out :=
  match lookup box (st_boxes st) with
  | None => reply st NO CTryCreate
  | Some b =>
    if b_ro b then reply st NO CReadOnly else
    let ds := dest_selected st box in
    let rec0 := match st_sel st with Some s => s_recent s | None => [] end in
    let ok := before_failure msgs in
    let new := new_msgs (st_bk st) (b_perm b) (b_maxuid b + 1) (negb ds) ok in
    if existsb am_fail msgs then
      (set_sel st (set_box box (mkBox (b_msgs b) (b_maxuid b + N.of_nat (length ok))
                                      (b_ro b) (b_perm b) (b_uidv b)) (st_boxes st)) None,
       mkOut BYE CServerBug [])
    else
    let b' := mkBox (b_msgs b ++ new) (b_maxuid b + N.of_nat (length ok))
                    (b_ro b) (b_perm b) (b_uidv b) in
    let rec := t_recent ds (uids_of new) rec0 in
    let us := uids_of new in
    let bs' := set_box box b' (st_boxes st) in
    match st_sel st with
    | None => (set_sel st bs' None, mkOut OK (CAppendUid us) [])
    | Some s =>
      match lookup (s_box s) bs' with
      | None => (set_sel st bs' None, mkOut OK (CAppendUid us) [UBye])
      | Some sb =>
        let '(s', un) := finish sb s rec [] false [] in
        (set_sel st bs' (Some s'), mkOut OK (CAppendUid us) un)
      end
    end
  end.

Definition t_step (st : state) (c : cmd) : state * out :=
  match c with
  | CSelect box ro => do_select st box ro
  | CAppend box msgs => t_append st box msgs
  | CStore uid ss op silent fl => t_store st uid ss op silent fl
  | CExpunge us => t_expunge st us
  | CCopy uid ss dest => t_copy st uid ss dest
  | CMove uid ss dest => t_move st uid ss dest
  | CFetch uid ss attrs => t_fetch st uid ss attrs
  | CClose => t_close st
  | CNoop => do_noop st false
  | CCheck => do_noop st true
  | CStatus box => do_status st box
  | CSearch uid keys => t_search st uid keys
  | CCreate box uidv => do_create st box uidv
  | CDelete box => do_delete st box
  | CRename from to uidv => do_rename st from to uidv
  end.

(* what other connections do is the same plain state change on both sides *)
Definition t_step_l (st : state) (l : label) : state * option out :=
  match l with
  | LCmd c => let '(st', o) := t_step st c in (st', Some o)
  | LExt e => (ext_apply st e, None)
  end.
Fixpoint t_run_l (st : state) (prog : list label) : state * list (option out) :=
  match prog with
  | [] => (st, [])
  | l :: r => let '(st1, o) := t_step_l st l in
              let '(st2, os) := t_run_l st1 r in (st2, o :: os)
  end.
