(* RefModel/LoopProofs.v — the per-message loops of the session layer in
   closed form: update_flags / fetch(set_seen) (update_loop), fetch (get_loop),
   find_deleted + delete, copy_messages / move_messages (copy_loop). *)
From Coq Require Import Sorting.Sorted.
From PV Require Import Base.Prelude Wire.SeqSet RefModel.Flags RefModel.Model RefModel.Spec
  RefModel.BoxLemmas RefModel.AddrProofs RefModel.CompareProofs.
Local Open Scope N_scope.

Lemma uids_of_app a b : uids_of (a ++ b) = uids_of a ++ uids_of b.
Proof. unfold uids_of. apply map_app. Qed.

(* replacing the message with x's UID, when x is the only one with it *)
Lemma map_replace_unique pre x x' suf :
  NoDup (uids_of (pre ++ x :: suf)) ->
  map (fun y => if m_uid y =? m_uid x then x' else y) (pre ++ x :: suf) = pre ++ x' :: suf.
Proof.
  intros Hnd. rewrite map_app. cbn [map]. rewrite N.eqb_refl. f_equal; [|f_equal].
  - rewrite <- (map_id pre) at 2. apply map_ext_in. intros y Hy.
    destruct (m_uid y =? m_uid x) eqn:E; [|reflexivity]. apply N.eqb_eq in E. exfalso.
    rewrite uids_of_app in Hnd. apply (NoDup_app_disj _ _ (m_uid x) Hnd).
    + rewrite <- E. apply in_map, Hy.
    + left. reflexivity.
  - rewrite <- (map_id suf) at 2. apply map_ext_in. intros y Hy.
    destruct (m_uid y =? m_uid x) eqn:E; [|reflexivity]. apply N.eqb_eq in E. exfalso.
    rewrite uids_of_app in Hnd. apply NoDup_app_r in Hnd. cbn [uids_of map] in Hnd.
    inversion Hnd; subst. apply H1. rewrite <- E. apply in_map, Hy.
Qed.

Definition upd_flags (bk : backend) (perm : fset) (op : flagop) (fs : fset) (m : msg) : msg :=
  set_flags m (storable bk perm (op_apply op (m_flags m) fs)).

(* update_loop over the addressed messages of the mailbox = one map *)
Lemma update_loop_spec bk b op fs (P : N * msg -> bool) : forall suf pre k,
  NoDup (uids_of (pre ++ suf)) ->
  update_loop bk (set_msgs b (pre ++ suf)) (filter P (enum_from k suf)) fs op =
  (set_msgs b (pre ++ map (fun qm => if P qm then upd_flags bk (b_perm b) op fs (snd qm) else snd qm)
                          (enum_from k suf)),
   map (fun qm => (fst qm, upd_flags bk (b_perm b) op fs (snd qm), false))
       (filter P (enum_from k suf))).
Proof.
  induction suf as [|x r IH]; intros pre k Hnd; cbn [enum_from filter map update_loop]; [reflexivity|].
  destruct (P (k, x)) eqn:Pk; cbn [snd fst].
  - cbn [update_loop]. unfold mb_update. cbn [b_msgs set_msgs].
    rewrite (find_msg_In (pre ++ x :: r) x Hnd) by (apply in_or_app; right; left; reflexivity).
    rewrite map_replace_unique by exact Hnd. cbn [b_perm set_msgs].
    fold (upd_flags bk (b_perm b) op fs x).
    change (set_msgs (set_msgs b (pre ++ x :: r)) (pre ++ upd_flags bk (b_perm b) op fs x :: r))
      with (set_msgs b (pre ++ upd_flags bk (b_perm b) op fs x :: r)).
    replace (pre ++ upd_flags bk (b_perm b) op fs x :: r)
      with ((pre ++ [upd_flags bk (b_perm b) op fs x]) ++ r) by (rewrite <- app_assoc; reflexivity).
    rewrite IH.
    + rewrite <- app_assoc. reflexivity.
    + rewrite <- app_assoc. cbn [app]. rewrite uids_of_app in *. exact Hnd.
  - replace (pre ++ x :: r) with ((pre ++ [x]) ++ r) by (rewrite <- app_assoc; reflexivity).
    rewrite IH.
    + rewrite <- app_assoc. reflexivity.
    + rewrite <- app_assoc. exact Hnd.
Qed.

Lemma get_loop_spec b T : NoDup (uids_of (b_msgs b)) ->
  (forall qm, In qm T -> In (snd qm) (b_msgs b)) ->
  get_loop b T = map (fun qm => (fst qm, snd qm, false)) T.
Proof.
  intros Hnd. induction T as [|[q c] r IH]; intros H; cbn [get_loop map]; [reflexivity|].
  unfold mb_get. rewrite (find_msg_In _ c Hnd) by (apply (H (q, c)); left; reflexivity).
  cbn [fst snd]. rewrite IH; [reflexivity|]. intros qm Hq. apply H. right. exact Hq.
Qed.

Lemma find_deleted_cons b qc T rec :
  find_deleted b (qc :: T) rec =
  (let '(m, _) := mb_get b (snd qc) in
   if mem FDeleted (with_recent (m_flags m) (memN (m_uid m) rec)) then [m_uid m] else [])
  ++ find_deleted b T rec.
Proof. reflexivity. Qed.

(* find_deleted over targets chosen by a predicate on the message *)
Lemma find_deleted_spec b rec Q : NoDup (uids_of (b_msgs b)) ->
  find_deleted b (filter (fun qm => Q (snd qm)) (enumerate (b_msgs b))) rec =
  uids_of (filter (fun m => Q m && mem FDeleted (m_flags m)) (b_msgs b)).
Proof.
  intros Hnd. unfold enumerate. generalize 1 as k.
  assert (H : forall l, (forall m, In m l -> In m (b_msgs b)) -> forall k,
            find_deleted b (filter (fun qm => Q (snd qm)) (enum_from k l)) rec =
            uids_of (filter (fun m => Q m && mem FDeleted (m_flags m)) l)).
  { induction l as [|x r IH]; intros Hin k; cbn [enum_from filter]; [reflexivity|]. cbn [snd].
    assert (Hr : forall m, In m r -> In m (b_msgs b)) by (intros m Hm; apply Hin; right; exact Hm).
    destruct (Q x) eqn:Qx; cbn [andb]; [|apply IH; exact Hr].
    rewrite find_deleted_cons. unfold mb_get. cbn [snd].
    rewrite (find_msg_In _ x Hnd) by (apply Hin; left; reflexivity).
    rewrite mem_with_recent_deleted.
    rewrite IH by exact Hr. destruct (mem FDeleted (m_flags x)); reflexivity. }
  intros k. apply H. auto.
Qed.

Lemma mb_delete_spec b p : NoDup (uids_of (b_msgs b)) ->
  mb_delete b (uids_of (filter p (b_msgs b))) = set_msgs b (filter (fun m => negb (p m)) (b_msgs b)).
Proof.
  intros Hnd. unfold mb_delete. f_equal. apply filter_ext_in. intros m Hm.
  rewrite memN_uids_filter by assumption. reflexivity.
Qed.

(* ------------------------------------------------------------ copy / move *)
Definition delivered (bk : backend) (d : mbox) (ds : bool) (cs : list msg) : mbox :=
  mkBox (b_msgs d ++ copies_from bk (b_perm d) (b_maxuid d + 1) (negb ds) cs)
        (b_maxuid d + N.of_nat (length cs)) (b_ro d) (b_perm d) (b_uidv d).
Definition without (cs : list msg) (l : list msg) : list msg :=
  filter (fun m => negb (memN (m_uid m) (uids_of cs))) l.

Lemma delivered_cons bk d ds c cs :
  delivered bk (fst (mb_add d (storable bk (b_perm d) (m_flags c)) (m_date c) (m_cid c) (negb ds))) ds cs
  = delivered bk d ds (c :: cs).
Proof.
  unfold delivered, mb_add. cbn [fst b_msgs b_maxuid b_ro b_perm copies_from length].
  rewrite <- app_assoc. cbn [app]. f_equal. lia.
Qed.

Lemma copies_uids_gt bk P u rc cs m : In m (copies_from bk P u rc cs) -> u <= m_uid m.
Proof.
  revert u. induction cs as [|c r IH]; intros u H; cbn [copies_from] in H; [destruct H|].
  destruct H as [<-|H]; [cbn; lia|]. apply IH in H. lia.
Qed.
Lemma copies_length bk P u rc cs : length (copies_from bk P u rc cs) = length cs.
Proof. revert u. induction cs as [|c r IH]; intros u; cbn; [reflexivity|]. rewrite IH. reflexivity. Qed.

(* COPY: the loop delivers the copies, in order *)
Lemma copy_loop_copy bk src dst ds : forall pairs bs rec d,
  lookup dst bs = Some d ->
  (forall c, In c (map snd pairs) ->
     exists sb, lookup src bs = Some sb /\ find_msg (m_uid c) (b_msgs sb) = Some c) ->
  copy_loop bk false src dst ds bs rec pairs =
  (set_box dst (delivered bk d ds (map snd pairs)) bs,
   (if ds then fold_left (fun r u => add_recent u r)
                         (uids_of (copies_from bk (b_perm d) (b_maxuid d + 1) (negb ds) (map snd pairs))) rec
    else rec),
   combine (uids_of (map snd pairs))
           (uids_of (copies_from bk (b_perm d) (b_maxuid d + 1) (negb ds) (map snd pairs)))).
Proof.
  induction pairs as [|[q c] r IH]; intros bs rec d Hd Hsrc; cbn [copy_loop map snd].
  - unfold delivered. cbn [copies_from length]. rewrite app_nil_r, N.add_0_r.
    replace (mkBox (b_msgs d) (b_maxuid d) (b_ro d) (b_perm d) (b_uidv d)) with d by (destruct d; reflexivity).
    rewrite (set_box_id _ _ _ Hd). destruct ds; reflexivity.
  - destruct (Hsrc c (or_introl eq_refl)) as (sb & Hsb & Hf). rewrite Hsb, Hf, Hd.
    cbn [mb_add].
    set (d' := mkBox (b_msgs d ++ [mkMsg (b_maxuid d + 1) (storable bk (b_perm d) (m_flags c)) (m_date c) (m_cid c) (negb ds)])
                     (b_maxuid d + 1) (b_ro d) (b_perm d) (b_uidv d)).
    assert (Hd' : lookup dst (set_box dst d' bs) = Some d') by (rewrite lookup_set_box_same, Hd; reflexivity).
    rewrite (IH (set_box dst d' bs) _ d' Hd').
    + rewrite set_box_twice.
      change d' with (fst (mb_add d (storable bk (b_perm d) (m_flags c)) (m_date c) (m_cid c) (negb ds))).
      rewrite delivered_cons. cbn [mb_add fst b_maxuid copies_from uids_of map fold_left combine].
      destruct ds; reflexivity.
    + intros c' Hc'. destruct (Hsrc c' (or_intror Hc')) as (sb' & Hsb' & Hf').
      destruct (N.eq_dec src dst) as [->|Hne].
      * rewrite Hd in Hsb'. inversion Hsb'; subst sb'. exists d'. split; [exact Hd'|].
        cbn [d' b_msgs]. apply find_msg_app_l. exact Hf'.
      * exists sb'. split; [|exact Hf']. rewrite lookup_set_box_other by congruence. exact Hsb'.
Qed.

(* MOVE: copies delivered, originals removed from the source *)
Definition moved_out (src : N) (cs : list msg) (bs : boxes) : boxes :=
  match lookup src bs with
  | Some s1 => set_box src (set_msgs s1 (without cs (b_msgs s1))) bs
  | None => bs
  end.

Lemma find_msg_filter p l c :
  p c = true -> find_msg (m_uid c) l = Some c -> find_msg (m_uid c) (filter p l) = Some c.
Proof.
  unfold find_msg. intros Hp. induction l as [|x r IH]; cbn [find filter]; [discriminate|].
  destruct (m_uid x =? m_uid c) eqn:E.
  - intros H. inversion H; subst x. rewrite Hp. cbn [find]. rewrite N.eqb_refl. reflexivity.
  - intros H. destruct (p x); [cbn [find]; rewrite E|]; apply IH, H.
Qed.

Lemma without_app cs a b : without cs (a ++ b) = without cs a ++ without cs b.
Proof. unfold without. apply filter_app. Qed.

Lemma without_cons c cs l :
  without cs (filter (fun m => negb (memN (m_uid m) [m_uid c])) l) = without (c :: cs) l.
Proof.
  unfold without. induction l as [|x r IH]; cbn [filter]; [reflexivity|].
  cbn [uids_of map memN existsb]. fold (memN (m_uid x) (map m_uid cs)).
  rewrite orb_false_r.
  destruct (m_uid x =? m_uid c) eqn:E; cbn [negb orb].
  - exact IH.
  - cbn [filter]. fold (uids_of cs). destruct (memN (m_uid x) (uids_of cs)); cbn [negb].
    + exact IH.
    + f_equal. exact IH.
Qed.

Lemma without_fresh cs l :
  (forall m, In m l -> ~ In (m_uid m) (uids_of cs)) -> without cs l = l.
Proof.
  intros H. unfold without. apply filter_all. intros m Hm. apply negb_true_iff, memN_false, H, Hm.
Qed.

Lemma copy_loop_move bk src dst ds : forall pairs bs rec d sb,
  lookup dst bs = Some d -> lookup src bs = Some sb ->
  NoDup (uids_of (map snd pairs)) ->
  (forall c, In c (map snd pairs) -> find_msg (m_uid c) (b_msgs sb) = Some c) ->
  (src = dst -> forall c, In c (map snd pairs) -> m_uid c <= b_maxuid d) ->
  copy_loop bk true src dst ds bs rec pairs =
  (moved_out src (map snd pairs) (set_box dst (delivered bk d ds (map snd pairs)) bs),
   (if ds then fold_left (fun r u => add_recent u r)
                         (uids_of (copies_from bk (b_perm d) (b_maxuid d + 1) (negb ds) (map snd pairs))) rec
    else rec),
   combine (uids_of (map snd pairs))
           (uids_of (copies_from bk (b_perm d) (b_maxuid d + 1) (negb ds) (map snd pairs)))).
Proof.
  induction pairs as [|[q c] r IH]; intros bs rec d sb Hd Hsb Hnd Hfind Hle; cbn [copy_loop map snd].
  - unfold delivered. cbn [copies_from length]. rewrite app_nil_r, N.add_0_r.
    replace (mkBox (b_msgs d) (b_maxuid d) (b_ro d) (b_perm d) (b_uidv d)) with d by (destruct d; reflexivity).
    rewrite (set_box_id _ _ _ Hd). unfold moved_out. rewrite Hsb.
    unfold without. cbn [uids_of map memN existsb negb]. rewrite filter_all by reflexivity.
    replace (set_msgs sb (b_msgs sb)) with sb by (destruct sb; reflexivity).
    rewrite (set_box_id _ _ _ Hsb). destruct ds; reflexivity.
  - cbn [uids_of map] in Hnd. inversion Hnd as [|? ? Hc Hnd']; subst.
    rewrite Hsb, (Hfind c (or_introl eq_refl)).
    set (sb2 := mb_delete sb [m_uid c]).
    assert (Hfind2 : forall c', In c' (map snd r) -> find_msg (m_uid c') (b_msgs sb2) = Some c').
    { intros c' Hc'. cbn [sb2 mb_delete b_msgs set_msgs]. apply find_msg_filter.
      - cbn [memN existsb]. rewrite orb_false_r. apply negb_true_iff, N.eqb_neq.
        intros E. apply Hc. rewrite <- E. apply in_map, Hc'.
      - apply Hfind. right. exact Hc'. }
    destruct (N.eq_dec src dst) as [Esd|Hne].
    + (* into the same mailbox *)
      subst dst. rewrite Hsb in Hd. inversion Hd; subst d. rewrite lookup_set_box_same, Hsb.
      cbn [mb_add]. rewrite set_box_twice.
      set (d' := mkBox (b_msgs sb2 ++ [mkMsg (b_maxuid sb2 + 1) (storable bk (b_perm sb2) (m_flags c)) (m_date c) (m_cid c) (negb ds)])
                       (b_maxuid sb2 + 1) (b_ro sb2) (b_perm sb2) (b_uidv sb2)).
      assert (Hd' : lookup src (set_box src d' bs) = Some d') by (rewrite lookup_set_box_same, Hsb; reflexivity).
      rewrite (IH (set_box src d' bs) _ d' d' Hd' Hd' Hnd').
      * rewrite set_box_twice. unfold moved_out. rewrite !lookup_set_box_same, Hsb. rewrite !set_box_twice.
        change d' with (fst (mb_add sb2 (storable bk (b_perm sb2) (m_flags c)) (m_date c) (m_cid c) (negb ds))).
        rewrite delivered_cons.
        cbn [mb_add fst b_maxuid copies_from uids_of map fold_left combine d' sb2 mb_delete set_msgs].
        apply (f_equal2 pair); [apply (f_equal2 pair)|reflexivity].
        -- f_equal. unfold delivered, set_msgs.
           cbn [b_msgs b_maxuid b_ro b_perm copies_from length mb_delete set_msgs].
           f_equal. rewrite !without_app. subst sb2. cbn [mb_delete set_msgs b_msgs b_maxuid].
           rewrite without_cons. f_equal.
           rewrite !without_fresh; [reflexivity| |].
           ++ intros m Hm Hi. cbn [uids_of map] in Hi.
              assert (Hmu : b_maxuid sb + 1 <= m_uid m).
              { destruct Hm as [<-|Hm]; [cbn; lia|]. apply copies_uids_gt in Hm. lia. }
              destruct Hi as [E|Hi].
              ** specialize (Hle eq_refl c (or_introl eq_refl)). lia.
              ** apply in_map_iff in Hi. destruct Hi as (c' & E & Hc').
                 specialize (Hle eq_refl c' (or_intror Hc')). lia.
           ++ intros m Hm Hi.
              assert (Hmu : b_maxuid sb + 1 <= m_uid m).
              { destruct Hm as [<-|Hm]; [cbn; lia|]. apply copies_uids_gt in Hm. lia. }
              unfold uids_of in Hi. apply in_map_iff in Hi. destruct Hi as (c' & E & Hc').
              specialize (Hle eq_refl c' (or_intror Hc')). lia.
        -- destruct ds; reflexivity.
      * intros c' Hc'. cbn [d' b_msgs]. apply find_msg_app_l, Hfind2, Hc'.
      * intros _ c' Hc'. cbn [d' b_maxuid sb2 mb_delete set_msgs].
        specialize (Hle eq_refl c' (or_intror Hc')). lia.
    + (* into another mailbox *)
      rewrite lookup_set_box_other by congruence. rewrite Hd. cbn [mb_add].
      set (d' := mkBox (b_msgs d ++ [mkMsg (b_maxuid d + 1) (storable bk (b_perm d) (m_flags c)) (m_date c) (m_cid c) (negb ds)])
                       (b_maxuid d + 1) (b_ro d) (b_perm d) (b_uidv d)).
      assert (Hd' : lookup dst (set_box dst d' (set_box src sb2 bs)) = Some d').
      { rewrite lookup_set_box_same, lookup_set_box_other by congruence. rewrite Hd. reflexivity. }
      assert (Hs' : lookup src (set_box dst d' (set_box src sb2 bs)) = Some sb2).
      { rewrite lookup_set_box_other by congruence. rewrite lookup_set_box_same, Hsb. reflexivity. }
      rewrite (IH _ _ d' sb2 Hd' Hs' Hnd' Hfind2) by (intros E; congruence).
      rewrite set_box_twice.
      change d' with (fst (mb_add d (storable bk (b_perm d) (m_flags c)) (m_date c) (m_cid c) (negb ds))).
      rewrite delivered_cons.
      cbn [mb_add fst b_maxuid copies_from uids_of map fold_left combine].
      apply (f_equal2 pair); [apply (f_equal2 pair)|reflexivity]; [|destruct ds; reflexivity].
      unfold moved_out.
      rewrite (lookup_set_box_other dst src) by congruence. rewrite lookup_set_box_same, Hsb.
      rewrite (lookup_set_box_other dst src) by congruence. rewrite Hsb.
      rewrite (set_box_comm src dst) by congruence. rewrite set_box_twice.
      rewrite (set_box_comm src dst) by congruence. f_equal.
      subst sb2. unfold set_msgs, mb_delete. cbn [b_msgs b_maxuid b_ro b_perm set_msgs].
      rewrite without_cons. reflexivity.
Qed.
