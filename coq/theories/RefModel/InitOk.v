(* RefModel/InitOk.v — decidable well-formedness of the states a connection starts
   from (used by the case checkers and, through Proofs.init_ok_Inv, as the
   hypothesis of the refinement theorem).  Definitions only. *)
From PV Require Import Base.Prelude Wire.SeqSet RefModel.Flags RefModel.Model.
Local Open Scope N_scope.

Fixpoint asc_b (l : list N) : bool :=
  match l with
  | [] => true
  | x :: r => match r with [] => true | y :: _ => (x <? y) && asc_b r end
  end.
Definition box_ok_b (b : mbox) : bool :=
  asc_b (uids_of (b_msgs b))
  && forallb (fun u => (0 <? u) && (u <=? b_maxuid b)) (uids_of (b_msgs b)).
Definition maildir_ok_b (bs : boxes) : bool :=
  match bs with
  | [] => true
  | (_, b0) :: _ =>
    negb (mem FWild (b_perm b0))
    && forallb (fun nb => fset_eqb (b_perm (snd nb)) (b_perm b0) && subset (b_perm b0) (b_perm (snd nb))
                          && forallb (fun m => subset (m_flags m) (b_perm (snd nb))) (b_msgs (snd nb))) bs
  end.

(* states the harness starts from: nothing selected, well-formed mailboxes;
   for dict nothing more is needed *)
Definition init_ok (st : state) : bool :=
  match st_sel st with
  | Some _ => false
  | None => forallb (fun nb => box_ok_b (snd nb)) (st_boxes st)
            && match st_bk st with Dict => true | Maildir => false end
            && match lookup GONE (st_boxes st) with None => true | Some _ => false end
  end.

(* maildir: no wildcard in any folder's flag table, stored flags inside the table *)
Definition init_ok_maildir (st : state) : bool :=
  match st_sel st with
  | Some _ => false
  | None => forallb (fun nb => box_ok_b (snd nb)) (st_boxes st)
            && forallb (fun nb => negb (mem FWild (b_perm (snd nb)))
                                  && forallb (fun m => subset (m_flags m) (b_perm (snd nb)))
                                             (b_msgs (snd nb))) (st_boxes st)
            && match lookup GONE (st_boxes st) with None => true | Some _ => false end
  end.

