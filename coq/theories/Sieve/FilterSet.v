(* Sieve/FilterSet.v — hand-written, readable model of
   pymap/backend/dict/filter.py  (class FilterSet).  One definition per
   method:  state -> arguments -> outcome.  Sieve/FilterSetGen.v is the same
   class translated mechanically from the current source on every run;
   Sieve/FilterSetAgree.v proves that the two coincide on all inputs. *)
From PV Require Import Base.Prelude Sieve.PyDict.

Definition fs_init : fstate := mk_fstate [] None.

(* self._filters[name] = value *)
Definition fs_put (s : fstate) (name : key) (value : bytes) : outcome :=
  Ret (set_filters s (dict_set (fs_filters s) name value)) VNone.

(* KeyError when absent, ValueError when active, else removed *)
Definition fs_delete (s : fstate) (name : key) : outcome :=
  if negb (dict_in (fs_filters s) name) then Raise s (KeyError (Some name))
  else if optkey_eqb (Some name) (fs_active s) then Raise s (ValueError (Some name))
  else Ret (set_filters s (dict_del (fs_filters s) name)) VNone.

(* KeyError(before) when absent, KeyError(after) when the target exists
   (also when before = after); the value moves to the *end* of the dict under
   the new name; the active mark follows *)
Definition fs_rename (s : fstate) (before after : key) : outcome :=
  match dict_get (fs_filters s) before with
  | None => Raise s (KeyError (Some before))
  | Some v =>
    if dict_in (fs_filters s) after then Raise s (KeyError (Some after))
    else
      let d := dict_del (dict_set (fs_filters s) after v) before in
      Ret (mk_fstate d (if optkey_eqb (fs_active s) (Some before)
                        then Some after else fs_active s)) VNone
  end.

Definition fs_clear_active (s : fstate) : outcome :=
  Ret (set_active s None) VNone.

Definition fs_set_active (s : fstate) (name : key) : outcome :=
  if dict_in (fs_filters s) name then Ret (set_active s (Some name)) VNone
  else Raise s (KeyError (Some name)).

Definition fs_get (s : fstate) (name : key) : outcome :=
  match dict_get (fs_filters s) name with
  | Some v => Ret s (VBytes v)
  | None => Raise s (KeyError (Some name))
  end.

Definition fs_get_active (s : fstate) : outcome :=
  match fs_active s with
  | None => Ret s VNone
  | Some a =>
    match dict_get (fs_filters s) a with
    | Some v => Ret s (VBytes v)
    | None => Raise s (KeyError (Some a))
    end
  end.

Definition fs_get_all (s : fstate) : outcome :=
  Ret s (VAll (fs_active s) (dict_keys (fs_filters s))).
