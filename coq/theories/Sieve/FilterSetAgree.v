(* Sieve/FilterSetAgree.v — the hand model (Sieve/FilterSet.v) and the model
   generated from the current pymap/backend/dict/filter.py
   (Sieve/FilterSetGen.v) are the same functions.  The script is a case
   analysis on every dictionary lookup / comparison that occurs, so that
   behaviour-preserving rewrites of filter.py keep it going while any change
   of behaviour makes this file fail (the check then reports a broken
   obligation and the correspondence run supplies the failing input). *)
From PV Require Import Base.Prelude Sieve.PyDict Sieve.PyDictProofs Sieve.FilterSet
  Sieve.FilterSetGen.

Ltac split_lookups :=
  repeat match goal with
  | |- context [dict_get (dict_set ?d ?a ?v) ?b] =>
      destruct (bytes_eq_dec a b);
      [subst; rewrite dict_get_set_same
      |rewrite (dict_get_set_other d a v b) by assumption]
  | |- context [match dict_get ?d ?k with _ => _ end] => destruct (dict_get d k) eqn:?
  | |- context [if optkey_eqb ?a ?b then _ else _] => destruct (optkey_eqb a b) eqn:?
  | |- context [match fs_active ?s with _ => _ end] => destruct (fs_active s) eqn:?
  | H : Some _ = Some _ |- _ => injection H as H; subst
  end.

Ltac agree :=
  intros;
  unfold gen_put, gen_delete, gen_rename, gen_clear_active, gen_set_active, gen_get,
    gen_get_active, gen_get_all, fs_put, fs_delete, fs_rename, fs_clear_active,
    fs_set_active, fs_get, fs_get_active, fs_get_all,
    set_filters, set_active, dict_get_opt, is_none, dict_in, negb;
  cbn [fs_filters fs_active];
  split_lookups; cbn [fs_filters fs_active negb];
  try reflexivity; try congruence.

Lemma agree_init : gen_init = fs_init.
Proof. reflexivity. Qed.

Lemma agree_put s n v : gen_put s n v = fs_put s n v.
Proof. agree. Qed.

Lemma agree_delete s n : gen_delete s n = fs_delete s n.
Proof. agree. Qed.

Lemma agree_rename s a b : gen_rename s a b = fs_rename s a b.
Proof. agree. Qed.

Lemma agree_clear_active s : gen_clear_active s = fs_clear_active s.
Proof. agree. Qed.

Lemma agree_set_active s n : gen_set_active s n = fs_set_active s n.
Proof. agree. Qed.

Lemma agree_get s n : gen_get s n = fs_get s n.
Proof. agree. Qed.

Lemma agree_get_active s : gen_get_active s = fs_get_active s.
Proof. agree. Qed.

Lemma agree_get_all s : gen_get_all s = fs_get_all s.
Proof. agree. Qed.
