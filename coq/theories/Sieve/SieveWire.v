(* Sieve/SieveWire.v — the ManageSieve command grammar as
   pymap/sieve/manage/command.py parses it (on top of pymap.parsing's Atom,
   Number, QuotedString, LiteralString, EndLine), from the bytes of one
   complete command buffer (the line plus the bodies of its {n+} literals, as
   ManageSieveConnection._read_data assembles it) to a command value.
   Definitions only; every function is structurally recursive. *)
From PV Require Import Base.Prelude Base.Decimal Sieve.PyDict.

Local Open Scope N_scope.

(* ---------------------------------------------------------------- commands *)
Inductive cmd :=
| CNoop (tag : option bytes)
| CLogout
| CCapability
| CStartTLS
| CAuthenticate (mech : bytes) (initial : option bytes)
| CUnauthenticate
| CHaveSpace (name : key) (size : N)
| CPutScript (name : key) (data : bytes)
| CListScripts
| CSetActive (name : option key)        (* SETACTIVE ""  ->  None *)
| CGetScript (name : key)
| CDeleteScript (name : key)
| CRenameScript (old new : key)
| CCheckScript (data : bytes).

(* -------------------------------------------------------------- primitives *)
Definition in_range (lo hi c : N) : bool := (lo <=? c) && (c <=? hi).

(*  [\x21\x23\x24\x26\x27\x2B-\x5B\x5E-\x7A\x7C\x7E]  *)
Definition is_atom_char (c : N) : bool :=
  (c =? 33) || (c =? 35) || (c =? 36) || (c =? 38) || (c =? 39)
  || in_range 43 91 c || in_range 94 122 c || (c =? 124) || (c =? 126).

Fixpoint skip_spaces (b : bytes) : bytes :=
  match b with
  | c :: r => if c =? 32 then skip_spaces r else b
  | [] => []
  end.

Fixpoint span (p : N -> bool) (b : bytes) : bytes * bytes :=
  match b with
  | c :: r => if p c then let '(a, r') := span p r in (c :: a, r') else ([], b)
  | [] => ([], [])
  end.

(*  Atom.parse : optional spaces, then a non-empty run of atom characters *)
Definition parse_atom (b : bytes) : result (bytes * bytes) :=
  match span is_atom_char (skip_spaces b) with
  | ([], _) => NotParseable
  | (a, r) => Ok (a, r)
  end.

(*  bytes.upper()  *)
Definition upper_byte (c : N) : N := if in_range 97 122 c then c - 32 else c.
Definition upper (b : bytes) : bytes := map upper_byte b.

(*  Number.parse : the whole atom must consist of ASCII digits; int() of more
    than 4300 digits raises ValueError (CPython's int_max_str_digits), which
    the connection answers like an unparseable command *)
Definition int_max_str_digits : N := 4300.
Definition parse_number_tok (b : bytes) : result (N * bytes) :=
  match parse_atom b with
  | Ok (a, r) =>
    if forallb is_digit a then
      if int_max_str_digits <? N.of_nat (length a) then Exc 1 else
      match parse_number a with
      | Some (n, _) => Ok (n, r)
      | None => NotParseable
      end
    else NotParseable
  | _ => NotParseable
  end.

(*  EndLine.parse :   *(\r?)\n   at the start of the buffer *)
Definition parse_endline (b : bytes) : result bytes :=
  match skip_spaces b with
  | c :: r =>
    if c =? 10 then Ok r
    else if c =? 13 then
      match r with
      | c2 :: r2 => if c2 =? 10 then Ok r2 else NotParseable
      | [] => NotParseable
      end
    else NotParseable
  | [] => NotParseable
  end.

(*  QuotedString.parse after the opening quote: CR, LF or a backslash that
    does not escape a backslash or a quote make the string unparseable *)
Fixpoint quoted_body (b : bytes) : result (bytes * bytes) :=
  match b with
  | [] => NotParseable
  | c :: r =>
    if (c =? 13) || (c =? 10) then NotParseable
    else if c =? 34 then Ok ([], r)
    else if c =? 92 then
      match r with
      | e :: r2 =>
        if (e =? 92) || (e =? 34) then
          match quoted_body r2 with
          | Ok (s, rest) => Ok (e :: s, rest)
          | x => x
          end
        else NotParseable
      | [] => NotParseable
      end
    else
      match quoted_body r with
      | Ok (s, rest) => Ok (c :: s, rest)
      | x => x
      end
  end.

Definition parse_quoted (b : bytes) : result (bytes * bytes) :=
  match skip_spaces b with
  | c :: r => if c =? 34 then quoted_body r else NotParseable
  | [] => NotParseable
  end.

Definition max_literal : N := 4096.      (* String._MAX_LEN *)

(*  LiteralString.parse with allow_continuations = False:
    (~?){(\d+)(\+?)}\r?\n ; only the non-synchronising form carries data *)
Definition parse_literal (b : bytes) : result (bytes * bytes) :=
  let b1 := skip_spaces b in
  let b2 := match b1 with c :: r => if c =? 126 then r else b1 | [] => b1 end in
  match b2 with
  | c :: r =>
    if c =? 123 then
      if int_max_str_digits <? N.of_nat (length (fst (span is_digit r))) then Exc 1 else
      match parse_number r with
      | Some (n, r1) =>
        let '(plus, r2) := match r1 with
                           | p :: r' => if p =? 43 then (true, r') else (false, r1)
                           | [] => (false, r1)
                           end in
        match r2 with
        | q :: r3 =>
          if q =? 125 then
            let r4 := match r3 with x :: r' => if x =? 13 then r' else r3 | [] => r3 end in
            match r4 with
            | y :: r5 =>
              if y =? 10 then
                if max_literal <? n then NotParseable
                else if plus then
                  let k := N.to_nat n in
                  if (length r5 <? k)%nat then NotParseable
                  else Ok (firstn k r5, skipn k r5)
                else NotParseable
              else NotParseable
            | [] => NotParseable
            end
          else NotParseable
        | [] => NotParseable
        end
      | None => NotParseable
      end
    else NotParseable
  | [] => NotParseable
  end.

(*  String.parse : quoted, else literal *)
Definition parse_string (b : bytes) : result (bytes * bytes) :=
  match parse_quoted b with
  | NotParseable => parse_literal b
  | x => x
  end.

(* ------------------------------------------------------------------ UTF-8 *)
Definition is_cont (c : N) : bool := in_range 128 191 c.

(* bytes.decode('utf-8') succeeds (strict: no overlong forms, no surrogates,
   nothing above U+10FFFF) *)
Fixpoint utf8_valid (b : bytes) : bool :=
  match b with
  | [] => true
  | c :: r =>
    if c <? 128 then utf8_valid r
    else if in_range 194 223 c then
      match r with
      | c1 :: r1 => is_cont c1 && utf8_valid r1
      | _ => false
      end
    else if in_range 224 239 c then
      match r with
      | c1 :: c2 :: r2 =>
        (if c =? 224 then in_range 160 191 c1
         else if c =? 237 then in_range 128 159 c1
         else is_cont c1) && is_cont c2 && utf8_valid r2
      | _ => false
      end
    else if in_range 240 244 c then
      match r with
      | c1 :: c2 :: c3 :: r3 =>
        (if c =? 240 then in_range 144 191 c1
         else if c =? 244 then in_range 128 143 c1
         else is_cont c1) && is_cont c2 && is_cont c3 && utf8_valid r3
      | _ => false
      end
    else false
  end.

(*  Command._parse_script_name  *)
Definition parse_script_name (allow_empty : bool) (b : bytes) : result (key * bytes) :=
  match parse_string b with
  | Ok (v, r) =>
    match v with
    | [] => if allow_empty then Ok (v, r) else NotParseable
    | _ => if utf8_valid v then Ok (v, r) else NotParseable
    end
  | x => x
  end.

(* ----------------------------------------------------------- the commands *)
(* [bind] passes NotParseable and Exc on;  try ... except NotParseable  only
   catches the former *)
Definition ends (b : bytes) (c : cmd) : result cmd :=
  bind (parse_endline b) (fun _ => Ok c).

Definition parse_noop (b : bytes) : result cmd :=
  match b with
  | c :: _ =>
    if c =? 32 then
      let b1 := skip_spaces b in
      match parse_string b1 with
      | Ok (t, r) => ends r (CNoop (Some t))
      | NotParseable => ends b1 (CNoop None)
      | Exc k => Exc k
      | OutOfFuel => OutOfFuel
      end
    else ends b (CNoop None)
  | [] => ends b (CNoop None)
  end.

Definition parse_authenticate (b : bytes) : result cmd :=
  bind (parse_quoted b) (fun '(m, r) =>
    match parse_string r with
    | Ok (d, _) => Ok (CAuthenticate m (Some d))
    | NotParseable => Ok (CAuthenticate m None)
    | Exc k => Exc k
    | OutOfFuel => OutOfFuel
    end).

Definition parse_havespace (b : bytes) : result cmd :=
  bind (parse_script_name false b) (fun '(n, r) =>
  bind (parse_number_tok r) (fun '(sz, r2) => ends r2 (CHaveSpace n sz))).

Definition parse_putscript (b : bytes) : result cmd :=
  bind (parse_script_name false b) (fun '(n, r) =>
  bind (parse_string r) (fun '(d, r2) => ends r2 (CPutScript n d))).

Definition parse_name_cmd (allow_empty : bool) (mk : key -> cmd) (b : bytes) : result cmd :=
  bind (parse_script_name allow_empty b) (fun '(n, r) => ends r (mk n)).

Definition parse_rename (b : bytes) : result cmd :=
  bind (parse_script_name false b) (fun '(o, r) =>
  bind (parse_script_name false r) (fun '(n, r2) => ends r2 (CRenameScript o n))).

Definition parse_checkscript (b : bytes) : result cmd :=
  bind (parse_string b) (fun '(d, r) => ends r (CCheckScript d)).

(* command names, upper case *)
Definition kw_NOOP : bytes := [78;79;79;80].
Definition kw_CAPABILITY : bytes := [67;65;80;65;66;73;76;73;84;89].
Definition kw_STARTTLS : bytes := [83;84;65;82;84;84;76;83].
Definition kw_AUTHENTICATE : bytes := [65;85;84;72;69;78;84;73;67;65;84;69].
Definition kw_UNAUTHENTICATE : bytes := [85;78;65;85;84;72;69;78;84;73;67;65;84;69].
Definition kw_LOGOUT : bytes := [76;79;71;79;85;84].
Definition kw_HAVESPACE : bytes := [72;65;86;69;83;80;65;67;69].
Definition kw_PUTSCRIPT : bytes := [80;85;84;83;67;82;73;80;84].
Definition kw_LISTSCRIPTS : bytes := [76;73;83;84;83;67;82;73;80;84;83].
Definition kw_SETACTIVE : bytes := [83;69;84;65;67;84;73;86;69].
Definition kw_GETSCRIPT : bytes := [71;69;84;83;67;82;73;80;84].
Definition kw_DELETESCRIPT : bytes := [68;69;76;69;84;69;83;67;82;73;80;84].
Definition kw_RENAMESCRIPT : bytes := [82;69;78;65;77;69;83;67;82;73;80;84].
Definition kw_CHECKSCRIPT : bytes := [67;72;69;67;75;83;67;82;73;80;84].

(*  Command.parse  *)
Definition parse_command (b : bytes) : result cmd :=
  match parse_atom b with
  | Ok (a, r) =>
    let u := upper a in
    if bytes_eqb u kw_NOOP then parse_noop r
    else if bytes_eqb u kw_CAPABILITY then ends r CCapability
    else if bytes_eqb u kw_STARTTLS then ends r CStartTLS
    else if bytes_eqb u kw_AUTHENTICATE then parse_authenticate r
    else if bytes_eqb u kw_UNAUTHENTICATE then ends r CUnauthenticate
    else if bytes_eqb u kw_LOGOUT then ends r CLogout
    else if bytes_eqb u kw_HAVESPACE then parse_havespace r
    else if bytes_eqb u kw_PUTSCRIPT then parse_putscript r
    else if bytes_eqb u kw_LISTSCRIPTS then ends r CListScripts
    else if bytes_eqb u kw_SETACTIVE then
      parse_name_cmd true (fun n => CSetActive (match n with [] => None | _ => Some n end)) r
    else if bytes_eqb u kw_GETSCRIPT then parse_name_cmd false CGetScript r
    else if bytes_eqb u kw_DELETESCRIPT then parse_name_cmd false CDeleteScript r
    else if bytes_eqb u kw_RENAMESCRIPT then parse_rename r
    else if bytes_eqb u kw_CHECKSCRIPT then parse_checkscript r
    else NotParseable
  | _ => NotParseable
  end.
