(* Sieve/SieveExamples.v — the hypotheses of the C19 theorems are satisfiable
   by non-trivial values, and the model does something: a concrete session
   evaluated by vm_compute. *)
From PV Require Import Base.Prelude Sieve.PyDict Sieve.PyDictProofs Sieve.FilterSet
  Sieve.SieveWire Sieve.Sieve Sieve.SieveProofs Sieve.SieveCheck.
From Coq Require Import Permutation.

Definition ex_cfg : config := mk_config (Some 24%N) false.
Definition ex_u1 : user := [117;49]%N.
Definition ex_u2 : user := [117;50]%N.
(* AUTHENTICATE "PLAIN" "u1" / "u2" stand for successful exchanges *)
Definition ex_sasl (m : bytes) (i : option bytes) (cs : list bytes) : auth_outcome :=
  match i with
  | Some u => if bytes_eqb u ex_u1 || bytes_eqb u ex_u2 then AuthOk u None else AuthFail
  | None => AuthFail
  end.
Definition ex_compiles (d : bytes) : bool := bytes_eqb d [107;101;101;112;59]%N.   (* keep; *)

(* bytes of an ASCII command line, CRLF appended *)
Definition line (s : list N) : bytes := s ++ [13;10]%N.

(* PUTSCRIPT "a" "keep;" *)
Definition l_put_a := line [80;85;84;83;67;82;73;80;84;32;34;97;34;32;34;107;101;101;112;59;34]%N.
(* LISTSCRIPTS *)
Definition l_list := line [76;73;83;84;83;67;82;73;80;84;83]%N.
(* SETACTIVE "a" *)
Definition l_act_a := line [83;69;84;65;67;84;73;86;69;32;34;97;34]%N.
(* DELETESCRIPT "a" *)
Definition l_del_a := line [68;69;76;69;84;69;83;67;82;73;80;84;32;34;97;34]%N.
(* RENAMESCRIPT "a" {1+}CRLF b *)
Definition l_ren_ab := line ([82;69;78;65;77;69;83;67;82;73;80;84;32;34;97;34;32;123;49;43;125;13;10;98])%N.
(* GETSCRIPT "b" *)
Definition l_get_b := line [71;69;84;83;67;82;73;80;84;32;34;98;34]%N.
(* AUTHENTICATE "PLAIN" "u1" / "u2" *)
Definition l_auth (u : bytes) :=
  line ([65;85;84;72;69;78;84;73;67;65;84;69;32;34;80;76;65;73;78;34;32;34]%N ++ u ++ [34]%N).

Definition ex_prog : list (nat * input) :=
  map (fun p => (fst p, input_of_bytes (snd p) []))
    [ (0, l_put_a)            (* not authenticated: refused *)
    ; (0, l_list)             (* refused *)
    ; (0, l_auth ex_u1)
    ; (0, l_put_a)
    ; (0, l_act_a)
    ; (0, l_del_a)            (* active: refused *)
    ; (0, l_ren_ab)
    ; (1, l_auth ex_u2)
    ; (1, l_list)             (* u2 sees nothing *)
    ; (0, l_list)             (* u1 sees b, active *)
    ; (0, l_get_b) ]%nat.

Definition ex_world : world fstate :=
  mk_world fstate [] [conn_init ex_cfg; conn_init ex_cfg].

Definition keep : bytes := [107;101;101;112;59]%N.
Definition ok_with (p : payload) := Some (mk_resp OK RcNone TxNone p).

Example ex_session :
  fst (run ex_sasl fstate (fstate_run ex_cfg ex_compiles) fs_init ex_world ex_prog)
  = [ Some r_bad_command; Some r_bad_command; Some r_ok; Some r_ok; Some r_ok;
      Some (r_no RcActive TxNone); Some r_ok; Some r_ok;
      ok_with (PList []); ok_with (PList [([98]%N, true)]); ok_with (PScript keep) ].
Proof. vm_compute. reflexivity. Qed.

(* a non-trivial well-formed store, represented by a specification map that
   lists the scripts in another order *)
Definition ex_store : fstate :=
  mk_fstate [([97]%N, keep); ([98]%N, [120]%N)] (Some [98]%N).
Definition ex_spec : sspec := ([([98]%N, [120]%N); ([97]%N, keep)], Some [98]%N).

Example ex_wf : wf_fstate ex_store.
Proof.
  repeat split; cbn.
  - repeat constructor; cbn; intuition discriminate.
  - intuition discriminate.
  - intros a H. injection H as <-. right. left. reflexivity.
Qed.

Example ex_refines : refines_state ex_store ex_spec.
Proof.
  split; [exact ex_wf|]. split; [|split; [|reflexivity]].
  - cbn. repeat constructor; cbn; intuition discriminate.
  - intro k. unfold ex_store, ex_spec. cbn [fs_filters fst dict_get]. destruct (bytes_eqb [97]%N k) eqn:E1, (bytes_eqb [98]%N k) eqn:E2; try reflexivity.
    apply bytes_eqb_eq in E1. apply bytes_eqb_eq in E2. congruence.
Qed.

(* the gate and isolation hypotheses hold at concrete transitions of the
   session above: its first two events act on an unauthenticated connection,
   and connection 1 never acts as u1 *)
Example ex_gate_hyp :
  actor fstate ex_world 0 = Some (conn_init ex_cfg) /\ c_auth (conn_init ex_cfg) = None.
Proof. split; reflexivity. Qed.

Example ex_isolation_hyp :
  Forall (not_acting_as fstate ex_u2)
    (run_tr ex_sasl fstate (fstate_run ex_cfg ex_compiles) fs_init ex_world (firstn 7 ex_prog)).
Proof. vm_compute. repeat constructor; discriminate. Qed.
