(* Sieve/SieveCheck.v — boolean case checkers for the correspondence run of
   harness/props/C19.py.  Every case carries what was observed on the
   implementation; the model recomputes it under vm_compute. *)
From PV Require Import Base.Prelude Sieve.PyDict Sieve.FilterSet Sieve.FilterSetGen
  Sieve.SieveWire Sieve.Sieve.

Definition optbytes_eqb : option bytes -> option bytes -> bool := option_eqb bytes_eqb.

(* ------------------------------------------------------------- 1. the parser *)
Definition cmd_eqb (a b : cmd) : bool :=
  match a, b with
  | CNoop t1, CNoop t2 => optbytes_eqb t1 t2
  | CLogout, CLogout | CCapability, CCapability | CStartTLS, CStartTLS
  | CUnauthenticate, CUnauthenticate | CListScripts, CListScripts => true
  | CAuthenticate m1 i1, CAuthenticate m2 i2 => bytes_eqb m1 m2 && optbytes_eqb i1 i2
  | CHaveSpace n1 s1, CHaveSpace n2 s2 => bytes_eqb n1 n2 && (s1 =? s2)%N
  | CPutScript n1 d1, CPutScript n2 d2 => bytes_eqb n1 n2 && bytes_eqb d1 d2
  | CSetActive n1, CSetActive n2 => optbytes_eqb n1 n2
  | CGetScript n1, CGetScript n2 | CDeleteScript n1, CDeleteScript n2 => bytes_eqb n1 n2
  | CRenameScript o1 n1, CRenameScript o2 n2 => bytes_eqb o1 o2 && bytes_eqb n1 n2
  | CCheckScript d1, CCheckScript d2 => bytes_eqb d1 d2
  | _, _ => false
  end.

(* (command buffer, what Command.parse did: a command, NotParseable, or
   Exc 1 = ValueError from int()) *)
Definition chk_parse (c : bytes * result cmd) : bool :=
  match parse_command (fst c), snd c with
  | Ok a, Ok b => cmd_eqb a b
  | NotParseable, NotParseable => true
  | Exc j, Exc k => (j =? k)%N
  | _, _ => false
  end.

(* --------------------------------------------------- 2. the FilterSet object *)
Inductive fsop :=
| OpPut (n : key) (v : bytes) | OpDelete (n : key) | OpRename (a b : key)
| OpClear | OpSetActive (n : key) | OpGet (n : key) | OpGetActive | OpGetAll.

Definition dict_eqb (a b : pydict) : bool :=
  eqb_list (fun x y => bytes_eqb (fst x) (fst y) && bytes_eqb (snd x) (snd y)) a b.
Definition fstate_eqb (a b : fstate) : bool :=
  dict_eqb (fs_filters a) (fs_filters b) && optbytes_eqb (fs_active a) (fs_active b).
Definition exn_eqb (a b : exn) : bool :=
  match a, b with
  | KeyError x, KeyError y | ValueError x, ValueError y => optbytes_eqb x y
  | _, _ => false
  end.
Definition pyval_eqb (a b : pyval) : bool :=
  match a, b with
  | VNone, VNone => true
  | VBytes x, VBytes y => bytes_eqb x y
  | VAll a1 n1, VAll a2 n2 => optbytes_eqb a1 a2 && eqb_list bytes_eqb n1 n2
  | _, _ => false
  end.
Definition outcome_eqb (a b : outcome) : bool :=
  match a, b with
  | Ret s1 v1, Ret s2 v2 => fstate_eqb s1 s2 && pyval_eqb v1 v2
  | Raise s1 e1, Raise s2 e2 => fstate_eqb s1 s2 && exn_eqb e1 e2
  | _, _ => false
  end.

Definition hand_op (s : fstate) (o : fsop) : outcome :=
  match o with
  | OpPut n v => fs_put s n v | OpDelete n => fs_delete s n | OpRename a b => fs_rename s a b
  | OpClear => fs_clear_active s | OpSetActive n => fs_set_active s n | OpGet n => fs_get s n
  | OpGetActive => fs_get_active s | OpGetAll => fs_get_all s
  end.
Definition gen_op (s : fstate) (o : fsop) : outcome :=
  match o with
  | OpPut n v => gen_put s n v | OpDelete n => gen_delete s n | OpRename a b => gen_rename s a b
  | OpClear => gen_clear_active s | OpSetActive n => gen_set_active s n | OpGet n => gen_get s n
  | OpGetActive => gen_get_active s | OpGetAll => gen_get_all s
  end.
Definition outcome_state (o : outcome) : fstate :=
  match o with Ret s _ => s | Raise s _ => s end.

(* a sequence of method calls on one fresh FilterSet(); each element is the
   call and the observed outcome (result or exception, with the object's
   _filters / _active afterwards).  Both the hand model and the generated
   model must reproduce every outcome. *)
Fixpoint chk_ops_from (s : fstate) (l : list (fsop * outcome)) : bool :=
  match l with
  | [] => true
  | (o, obs) :: r =>
    outcome_eqb (hand_op s o) obs && outcome_eqb (gen_op s o) obs
    && chk_ops_from (outcome_state obs) r
  end.
Definition chk_ops (l : list (fsop * outcome)) : bool :=
  fstate_eqb gen_init fs_init && chk_ops_from fs_init l.

(* ------------------------------------------------------- 3. whole programs *)
Definition rcode_eqb (a b : rcode) : bool :=
  match a, b with
  | RcNone, RcNone | RcNonexistent, RcNonexistent | RcActive, RcActive
  | RcAlreadyExists, RcAlreadyExists | RcQuota, RcQuota => true
  | RcTag x, RcTag y | RcSasl x, RcSasl y | RcOther x, RcOther y => bytes_eqb x y
  | _, _ => false
  end.
Definition rtext_eqb (a b : rtext) : bool :=
  match a, b with
  | TxNone, TxNone | TxBadCommand, TxBadCommand | TxParse, TxParse
  | TxServerError, TxServerError | TxAuth, TxAuth | TxCompile, TxCompile
  | TxNotSupported, TxNotSupported | TxOther, TxOther => true
  | _, _ => false
  end.
Definition cond_eqb (a b : cond) : bool :=
  match a, b with OK, OK | NO, NO | BYE, BYE => true | _, _ => false end.
Definition caps_eqb (a b : caps) : bool :=
  option_eqb Bool.eqb (cap_sasl a) (cap_sasl b)
  && Bool.eqb (cap_starttls a) (cap_starttls b)
  && optbytes_eqb (cap_owner a) (cap_owner b).
Definition payload_eqb (a b : payload) : bool :=
  match a, b with
  | PNone, PNone => true
  | PScript x, PScript y => bytes_eqb x y
  | PList x, PList y =>
    eqb_list (fun p q => bytes_eqb (fst p) (fst q) && Bool.eqb (snd p) (snd q)) x y
  | PCaps x, PCaps y | PTlsCaps x, PTlsCaps y => caps_eqb x y
  | _, _ => false
  end.
Definition resp_eqb (a b : resp) : bool :=
  cond_eqb (r_cond a) (r_cond b) && rcode_eqb (r_code a) (r_code b)
  && rtext_eqb (r_text a) (r_text b) && payload_eqb (r_payload a) (r_payload b).

(* the oracles of a case are finite tables filled in by the harness: the SASL
   outcome it intends for each exchange it performs (from its own user
   table), and the compiler's verdict measured on pymap.sieve.SieveCompiler *)
Definition sasl_table := list (bytes * option bytes * list bytes * auth_outcome).
Fixpoint sasl_of (t : sasl_table) (m : bytes) (i : option bytes) (cs : list bytes)
  : auth_outcome :=
  match t with
  | [] => AuthFail
  | (m', i', cs', o) :: r =>
    if bytes_eqb m m' && optbytes_eqb i i' && eqb_list bytes_eqb cs cs' then o
    else sasl_of r m i cs
  end.
Fixpoint compiles_of (t : list (bytes * bool)) (d : bytes) : bool :=
  match t with
  | [] => false
  | (d', b) :: r => if bytes_eqb d d' then b else compiles_of r d
  end.

Record prog_case := mk_case {
  pc_cfg : config;
  pc_stores : list (user * fstate);              (* stores before the program *)
  pc_sasl : sasl_table;
  pc_compiles : list (bytes * bool);
  pc_conns : nat;                                (* connections opened (all greet) *)
  pc_greeting : resp;                            (* observed greeting of each *)
  pc_events : list (nat * bytes * list bytes);   (* connection, command buffer, lines sent to challenges *)
  pc_expect : list (option resp * list (user * fstate)) }.
                 (* answer, and the stores that differ from the step before *)

(* the observed stores are kept as an association list updated by each step's
   changes; model and observation must agree on every user of the case *)
Definition obs_update (cur : stores fstate) (delta : list (user * fstate)) : stores fstate :=
  fold_left (fun acc p => set_store fstate acc (fst p) (snd p)) delta cur.
Definition stores_match (users : list user) (st obs : stores fstate) : bool :=
  forallb (fun u => fstate_eqb (get_store fstate fs_init st u) (get_store fstate fs_init obs u))
          users.

Fixpoint chk_steps (frun : fstate -> cmd -> resp * fstate)
         (sasl : bytes -> option bytes -> list bytes -> auth_outcome)
         (users : list user) (obs : stores fstate)
         (w : world fstate) (evs : list (nat * bytes * list bytes))
         (exp : list (option resp * list (user * fstate))) : bool :=
  match evs, exp with
  | [], [] => true
  | (k, buf, conts) :: evs', (o, delta) :: exp' =>
    let '(o', w') := step sasl fstate frun fs_init w (k, input_of_bytes buf conts) in
    let obs' := obs_update obs delta in
    option_eqb resp_eqb o' o && stores_match users (w_stores fstate w') obs'
    && chk_steps frun sasl users obs' w' evs' exp'
  | _, _ => false
  end.

Definition chk_prog (c : prog_case) : bool :=
  let cfg := pc_cfg c in
  resp_eqb (caps_resp (conn_init cfg)) (pc_greeting c)
  && chk_steps (fstate_run cfg (compiles_of (pc_compiles c))) (sasl_of (pc_sasl c))
       (map fst (pc_stores c)) (pc_stores c)
       (mk_world fstate (pc_stores c) (repeat (conn_init cfg) (pc_conns c)))
       (pc_events c) (pc_expect c).

(* diagnosis of a disagreeing case: index of the first step where model and
   implementation differ, the model's answer and the model's stores there
   (None: the greeting or the lengths differ) *)
Fixpoint diag_steps (frun : fstate -> cmd -> resp * fstate)
         (sasl : bytes -> option bytes -> list bytes -> auth_outcome)
         (users : list user) (obs : stores fstate)
         (w : world fstate) (i : nat) (evs : list (nat * bytes * list bytes))
         (exp : list (option resp * list (user * fstate)))
  : option (nat * option resp * list (user * fstate)) :=
  match evs, exp with
  | (k, buf, conts) :: evs', (o, delta) :: exp' =>
    let '(o', w') := step sasl fstate frun fs_init w (k, input_of_bytes buf conts) in
    let obs' := obs_update obs delta in
    if option_eqb resp_eqb o' o && stores_match users (w_stores fstate w') obs'
    then diag_steps frun sasl users obs' w' (S i) evs' exp'
    else Some (i, o', map (fun u => (u, get_store fstate fs_init (w_stores fstate w') u)) users)
  | _, _ => None
  end.

Definition diag_prog (c : prog_case) :=
  let cfg := pc_cfg c in
  diag_steps (fstate_run cfg (compiles_of (pc_compiles c))) (sasl_of (pc_sasl c))
    (map fst (pc_stores c)) (pc_stores c)
    (mk_world fstate (pc_stores c) (repeat (conn_init cfg) (pc_conns c))) 0
    (pc_events c) (pc_expect c).

(* compact spellings of swept inputs (the case files stay small): one byte of
   a base buffer replaced, one byte inserted, a name wrapped in
   GETSCRIPT {n+} CRLF name CRLF *)
Fixpoint rep (b : bytes) (k : nat) (c : N) : bytes :=
  match b, k with
  | [], _ => []
  | _ :: r, O => c :: r
  | x :: r, S k' => x :: rep r k' c
  end.
Fixpoint ins (b : bytes) (k : nat) (c : N) : bytes :=
  match k, b with
  | O, _ => c :: b
  | S k', x :: r => x :: ins r k' c
  | S _, [] => [c]
  end.
Definition getscript_lit (name : bytes) : bytes :=
  ([71;69;84;83;67;82;73;80;84;32;123]%N ++ Decimal.dec_of_N (N.of_nat (length name))
   ++ [43;125;13;10]%N ++ name ++ [13;10]%N).

(* ------------------------------- 4. whole programs on the maildir backend *)
(* same shape as prog_case; a store is the content of dovecot.sieve, None
   when the file does not exist *)
Definition mstate_eqb : mstate -> mstate -> bool := option_eqb bytes_eqb.

Record mprog_case := mk_mcase {
  mc_cfg : config;
  mc_stores : list (user * mstate);
  mc_sasl : sasl_table;
  mc_compiles : list (bytes * bool);
  mc_conns : nat;
  mc_greeting : resp;
  mc_events : list (nat * bytes * list bytes);
  mc_expect : list (option resp * list (user * mstate)) }.

Definition mobs_update (cur : stores mstate) (delta : list (user * mstate)) : stores mstate :=
  fold_left (fun acc p => set_store mstate acc (fst p) (snd p)) delta cur.
Definition mstores_match (users : list user) (st obs : stores mstate) : bool :=
  forallb (fun u => mstate_eqb (get_store mstate m_init st u) (get_store mstate m_init obs u))
          users.

Fixpoint diag_msteps (mrun : mstate -> cmd -> resp * mstate)
         (sasl : bytes -> option bytes -> list bytes -> auth_outcome)
         (users : list user) (obs : stores mstate)
         (w : world mstate) (i : nat) (evs : list (nat * bytes * list bytes))
         (exp : list (option resp * list (user * mstate)))
  : option (nat * option resp * list (user * mstate)) :=
  match evs, exp with
  | [], [] => None
  | (k, buf, conts) :: evs', (o, delta) :: exp' =>
    let '(o', w') := step sasl mstate mrun m_init w (k, input_of_bytes buf conts) in
    let obs' := mobs_update obs delta in
    if option_eqb resp_eqb o' o && mstores_match users (w_stores mstate w') obs'
    then diag_msteps mrun sasl users obs' w' (S i) evs' exp'
    else Some (i, o', map (fun u => (u, get_store mstate m_init (w_stores mstate w') u)) users)
  | _, _ => Some (i, None, [])
  end.

Definition diag_mprog (c : mprog_case) :=
  let cfg := mc_cfg c in
  diag_msteps (mstate_run cfg (compiles_of (mc_compiles c))) (sasl_of (mc_sasl c))
    (map fst (mc_stores c)) (mc_stores c)
    (mk_world mstate (mc_stores c) (repeat (conn_init cfg) (mc_conns c))) 0
    (mc_events c) (mc_expect c).

Definition chk_mprog (c : mprog_case) : bool :=
  resp_eqb (caps_resp (conn_init (mc_cfg c))) (mc_greeting c)
  && match diag_mprog c with None => true | Some _ => false end.
