(* Sieve/SieveProofs.v — proofs for property C19 (statements are collected in
   Props/C19.v). *)
From PV Require Import Base.Prelude Base.Decimal Sieve.PyDict Sieve.PyDictProofs
  Sieve.FilterSet Sieve.SieveWire Sieve.Sieve.
From Coq Require Import Permutation.

(* ===================================================== 1. the store machine *)
Definition wf_fstate (s : fstate) : Prop :=
  NoDup (dict_keys (fs_filters s))
  /\ ~ In [] (dict_keys (fs_filters s))
  /\ (forall a, fs_active s = Some a -> In a (dict_keys (fs_filters s))).

Lemma wf_init : wf_fstate fs_init.
Proof. repeat split; cbn; try constructor; try tauto. discriminate. Qed.

Lemma nonempty_ne k : nonempty k = true -> k <> [].
Proof. destruct k; [discriminate|discriminate]. Qed.

Lemma in_keys_set d k v x :
  In x (dict_keys (dict_set d k v)) <-> x = k \/ In x (dict_keys d).
Proof.
  destruct (dict_in d k) eqn:E.
  - rewrite dict_keys_set_in by exact E. apply dict_in_iff in E.
    split; [tauto|]. intros [->|H]; assumption.
  - rewrite dict_keys_set_notin by exact E. rewrite in_app_iff. cbn [In].
    split; [intros [H|[H|[]]]; auto|intros [H|H]; auto].
Qed.

Lemma in_keys_del d k x : NoDup (dict_keys d) ->
  In x (dict_keys (dict_del d k)) <-> x <> k /\ In x (dict_keys d).
Proof.
  intro ND. split.
  - intro H. split; [|eapply dict_keys_del_incl; exact H].
    intros ->. apply dict_in_iff in H. unfold dict_in in H.
    rewrite dict_get_del_same in H by exact ND. discriminate.
  - intros [N H]. apply dict_in_iff. apply dict_in_iff in H. unfold dict_in in *.
    rewrite dict_get_del_other by congruence. exact H.
Qed.

Ltac fs_simpl :=
  unfold fs_put, fs_delete, fs_rename, fs_clear_active, fs_set_active, fs_get,
    fs_get_active, fs_get_all, set_filters, set_active in *;
  cbn [fs_filters fs_active snd fst] in *.

Ltac split_ifs :=
  repeat match goal with |- context [if ?c then _ else _] => destruct c end.

Section Store.
Variable cfg : config.
Variable compiles : bytes -> bool.
Notation frun := (fstate_run cfg compiles).

(* every command keeps the store well formed *)
Lemma fstate_run_wf s c :
  wf_fstate s -> cmd_wf c = true -> wf_fstate (snd (frun s c)).
Proof.
  intros (ND & NE & AC) W. destruct s as [d a]. cbn [fs_filters fs_active] in *.
  unfold wf_fstate.
  destruct c; cbn [fstate_run]; try (repeat split; assumption).
  - (* HAVESPACE *) destruct (fits cfg size); repeat split; assumption.
  - (* PUTSCRIPT *)
    destruct (fits cfg _); [|repeat split; assumption].
    fs_simpl. repeat split.
    + apply nodup_set. exact ND.
    + rewrite in_keys_set. intros [H|H]; [|contradiction].
      cbn [cmd_wf] in W. apply nonempty_ne in W. congruence.
    + intros x Hx. apply in_keys_set. right. apply AC. exact Hx.
  - (* SETACTIVE *)
    destruct name as [n|].
    + fs_simpl.
      destruct (dict_in d n) eqn:E; fs_simpl; repeat split; try assumption.
      intros x Hx. injection Hx as <-. apply dict_in_iff. exact E.
    + fs_simpl. repeat split; try assumption.
      discriminate.
  - (* GETSCRIPT *)
    fs_simpl. destruct (dict_get d name); cbn [snd]; repeat split; assumption.
  - (* DELETESCRIPT *)
    fs_simpl.
    destruct (negb (dict_in d name)) eqn:E1; [repeat split; assumption|].
    destruct (optkey_eqb (Some name) a) eqn:E2; [repeat split; assumption|].
    fs_simpl. repeat split.
    + apply nodup_del. exact ND.
    + intro H. apply NE. eapply dict_keys_del_incl. exact H.
    + intros x Hx. apply in_keys_del; [exact ND|]. split; [|apply AC; exact Hx].
      intros ->. subst a. cbn in E2. rewrite bytes_eqb_refl in E2. discriminate.
  - (* RENAMESCRIPT *)
    fs_simpl.
    destruct (dict_get d old) as [v|] eqn:E1;
      [|split_ifs; cbn [snd fs_filters fs_active]; repeat split; assumption].
    destruct (dict_in d new) eqn:E2.
    { split_ifs; cbn [snd fs_filters fs_active]; repeat split; assumption. }
    cbn [snd fs_filters fs_active].
    cbn [cmd_wf] in W. apply andb_true_iff in W as [W1 W2].
    assert (NDs : NoDup (dict_keys (dict_set d new v))) by (apply nodup_set; exact ND).
    repeat split.
    + apply nodup_del. exact NDs.
    + intro H. apply in_keys_del in H; [|exact NDs]. destruct H as [_ H].
      apply in_keys_set in H. destruct H as [H|H]; [|contradiction].
      apply nonempty_ne in W2. congruence.
    + intros x Hx. apply in_keys_del; [exact NDs|]. rewrite in_keys_set.
      destruct (optkey_eqb a (Some old)) eqn:E3.
      * injection Hx as <-. split; [|left; reflexivity].
        intros ->. unfold dict_in in E2. rewrite E1 in E2. discriminate.
      * split; [|right; apply AC; exact Hx].
        intros ->. subst a. cbn in E3. rewrite bytes_eqb_refl in E3. discriminate.
  - (* CHECKSCRIPT *) destruct (compiles data); repeat split; assumption.
Qed.


(* ---- the clauses of the statement, on the store machine *)

(* errors change nothing: a response other than OK leaves the store as it was *)
Lemma fstate_run_error_same s c r s' :
  frun s c = (r, s') -> r_cond r <> OK -> s' = s.
Proof.
  destruct s as [d a]. destruct c; cbn [fstate_run]; fs_simpl; intros H N;
    repeat match type of H with
    | context [if ?c then _ else _] => destruct c
    | context [match dict_get ?d ?k with _ => _ end] => destruct (dict_get d k)
    | context [match ?n with Some _ => _ | None => _ end] => destruct n
    end; fs_simpl; try (injection H as <- <-; cbn in N; try congruence; reflexivity).
Qed.

(* PUTSCRIPT then GETSCRIPT returns the same bytes; nothing else moves *)
Lemma put_then_get s n v :
  fits cfg (N.of_nat (length v)) = true ->
  exists s1, frun s (CPutScript n v) = (r_ok, s1)
    /\ frun s1 (CGetScript n) = (mk_resp OK RcNone TxNone (PScript v), s1)
    /\ fs_active s1 = fs_active s
    /\ (forall m, m <> n -> dict_get (fs_filters s1) m = dict_get (fs_filters s) m).
Proof.
  intro F. cbn [fstate_run]. rewrite F. fs_simpl. eexists. split; [reflexivity|].
  cbn [fstate_run]. fs_simpl. rewrite dict_get_set_same. repeat split.
  intros m Hm. apply dict_get_set_other. intros ->. apply Hm. reflexivity.
Qed.

Lemma put_over_quota s n v :
  fits cfg (N.of_nat (length v)) = false -> frun s (CPutScript n v) = (r_no RcQuota TxNone, s).
Proof. intro F. cbn [fstate_run]. rewrite F. reflexivity. Qed.

Lemma get_script_spec s n :
  frun s (CGetScript n) =
  match dict_get (fs_filters s) n with
  | Some v => (mk_resp OK RcNone TxNone (PScript v), s)
  | None => (r_no RcNonexistent TxNone, s)
  end.
Proof. cbn [fstate_run]. fs_simpl. destruct (dict_get _ n); reflexivity. Qed.

Lemma active_mark_iff a n : a <> Some [] -> active_mark a n = true <-> a = Some n.
Proof.
  intro NE. unfold active_mark. destruct a as [a|]; [|split; discriminate].
  destruct (bytes_eqb a []) eqn:E.
  - apply bytes_eqb_eq in E. subst. exfalso. apply NE. reflexivity.
  - cbn [negb andb]. rewrite bytes_eqb_eq.
    split; [intros ->; reflexivity|intro H; injection H as ->; reflexivity].
Qed.

Lemma wf_active_nonempty s : wf_fstate s -> fs_active s <> Some [].
Proof. intros (_ & NE & AC) H. apply NE. apply AC. exact H. Qed.

(* LISTSCRIPTS lists exactly the stored names, once each, and marks exactly
   the active one *)
Lemma list_exact s : wf_fstate s ->
  exists l, frun s CListScripts = (mk_resp OK RcNone TxNone (PList l), s)
    /\ NoDup (map fst l)
    /\ (forall n, In n (map fst l) <-> dict_get (fs_filters s) n <> None)
    /\ (forall n b, In (n, b) l -> (b = true <-> fs_active s = Some n))
    /\ (forall a, fs_active s = Some a -> In (a, true) l).
Proof.
  intros W. pose proof (wf_active_nonempty s W) as NA. destruct W as (ND & NE & AC).
  cbn [fstate_run]. fs_simpl. eexists. split; [reflexivity|].
  rewrite map_map. cbn [fst]. rewrite map_id. repeat split.
  - exact ND.
  - intro H. apply dict_in_iff in H. unfold dict_in in H. destruct (dict_get _ n); congruence.
  - intro H. apply dict_in_iff. unfold dict_in. destruct (dict_get _ n); congruence.
  - apply in_map_iff in H. destruct H as (x & E & _). injection E as <- <-.
    intro H. apply active_mark_iff in H; assumption.
  - apply in_map_iff in H. destruct H as (x & E & _). injection E as <- <-.
    intro H. apply active_mark_iff; assumption.
  - intros a Ha. apply in_map_iff. exists a. split; [|apply AC; exact Ha].
    f_equal. apply active_mark_iff; assumption.
Qed.

(* the active script cannot be deleted *)
Lemma delete_active_refused s n : wf_fstate s -> fs_active s = Some n ->
  frun s (CDeleteScript n) = (r_no RcActive TxNone, s).
Proof.
  intros (ND & NE & AC) Ha. cbn [fstate_run]. fs_simpl.
  assert (E : dict_in (fs_filters s) n = true) by (apply dict_in_iff; apply AC; exact Ha).
  rewrite E, Ha. cbn. rewrite bytes_eqb_refl. reflexivity.
Qed.

Lemma delete_spec s n : wf_fstate s ->
  match dict_get (fs_filters s) n with
  | None => frun s (CDeleteScript n) = (r_no RcNonexistent TxNone, s)
  | Some _ =>
    if optkey_eqb (Some n) (fs_active s)
    then frun s (CDeleteScript n) = (r_no RcActive TxNone, s)
    else exists s', frun s (CDeleteScript n) = (r_ok, s')
         /\ dict_get (fs_filters s') n = None
         /\ (forall m, m <> n -> dict_get (fs_filters s') m = dict_get (fs_filters s) m)
         /\ fs_active s' = fs_active s
  end.
Proof.
  intros (ND & NE & AC). cbn [fstate_run]. fs_simpl. unfold dict_in.
  destruct (dict_get (fs_filters s) n) eqn:E; cbn [negb]; [|reflexivity].
  destruct (optkey_eqb (Some n) (fs_active s)); [reflexivity|].
  eexists. split; [reflexivity|]. fs_simpl. repeat split.
  - apply dict_get_del_same. exact ND.
  - intros m Hm. apply dict_get_del_other. congruence.
Qed.

(* RENAMESCRIPT keeps the content and the active status, and refuses an
   existing target (and a missing source) without changing anything *)
Lemma rename_spec s o n : wf_fstate s ->
  match dict_get (fs_filters s) o, dict_get (fs_filters s) n with
  | None, _ => frun s (CRenameScript o n) = (r_no RcNonexistent TxNone, s)
  | Some _, Some _ => exists r, frun s (CRenameScript o n) = (r, s) /\ r_cond r = NO
  | Some v, None =>
    exists s', frun s (CRenameScript o n) = (r_ok, s')
      /\ dict_get (fs_filters s') n = Some v
      /\ dict_get (fs_filters s') o = None
      /\ (forall m, m <> o -> m <> n -> dict_get (fs_filters s') m = dict_get (fs_filters s) m)
      /\ fs_active s' = (if optkey_eqb (fs_active s) (Some o) then Some n else fs_active s)
  end.
Proof.
  intros (ND & NE & AC). cbn [fstate_run]. fs_simpl. unfold dict_in.
  destruct (dict_get (fs_filters s) o) as [v|] eqn:Eo.
  2:{ cbn. rewrite bytes_eqb_refl. reflexivity. }
  destruct (dict_get (fs_filters s) n) as [v2|] eqn:En.
  - split_ifs; eexists; split; reflexivity.
  - assert (Hne : n <> o) by congruence.
    eexists. split; [reflexivity|]. fs_simpl.
    assert (NDs : NoDup (dict_keys (dict_set (fs_filters s) n v))) by (apply nodup_set; exact ND).
    repeat split.
    + rewrite dict_get_del_other by congruence. apply dict_get_set_same.
    + apply dict_get_del_same. exact NDs.
    + intros m H1 H2. rewrite dict_get_del_other by congruence.
      apply dict_get_set_other. congruence.
Qed.

(* SETACTIVE "" deactivates; SETACTIVE of a stored name activates it *)
Lemma setactive_empty s :
  frun s (CSetActive None) = (r_ok, mk_fstate (fs_filters s) None).
Proof. reflexivity. Qed.

Lemma setactive_spec s n :
  frun s (CSetActive (Some n)) =
  match dict_get (fs_filters s) n with
  | Some _ => (r_ok, mk_fstate (fs_filters s) (Some n))
  | None => (r_no RcNonexistent TxNone, s)
  end.
Proof. cbn [fstate_run]. fs_simpl. unfold dict_in. destruct (dict_get _ n); reflexivity. Qed.

End Store.

(* ============================== 2. refinement of the map specification *)
Lemma get_remove_same k m : dict_get (remove_key k m) k = None.
Proof.
  induction m as [|[k' v] r IH]; cbn [remove_key filter dict_get fst]; [reflexivity|].
  destruct (bytes_eqb k' k) eqn:E; cbn [negb]; [exact IH|].
  cbn [dict_get]. rewrite E. exact IH.
Qed.

Lemma get_remove_other k m k2 : k <> k2 -> dict_get (remove_key k m) k2 = dict_get m k2.
Proof.
  intro N. induction m as [|[k' v] r IH]; cbn [remove_key filter dict_get fst]; [reflexivity|].
  destruct (bytes_eqb k' k) eqn:E; cbn [negb].
  - apply bytes_eqb_eq in E. subst k'. rewrite (bytes_eqb_neq _ _ N). exact IH.
  - cbn [dict_get]. destruct (bytes_eqb k' k2); [reflexivity|exact IH].
Qed.

Lemma keys_remove_incl k m x : In x (dict_keys (remove_key k m)) -> In x (dict_keys m) /\ x <> k.
Proof.
  unfold dict_keys, remove_key. rewrite in_map_iff. intros ((k', v) & <- & H).
  apply filter_In in H. destruct H as [H1 H2]. cbn [fst] in *. split.
  - apply in_map_iff. exists (k', v). split; [reflexivity|exact H1].
  - apply bytes_eqb_false. destruct (bytes_eqb k' k); [discriminate|reflexivity].
Qed.

Lemma nodup_remove k m : NoDup (dict_keys m) -> NoDup (dict_keys (remove_key k m)).
Proof.
  induction m as [|[k' v] r IH]; cbn [remove_key filter dict_keys map fst]; intro ND; [exact ND|].
  inversion ND as [|? ? Hn ND']; subst.
  destruct (bytes_eqb k' k); cbn [negb]; [apply IH; exact ND'|].
  cbn [map fst]. constructor; [|apply IH; exact ND'].
  intro H. apply Hn. apply (keys_remove_incl k r k'). exact H.
Qed.

(* abstraction relation: same finite map, same active name *)
Definition refines_state (s : fstate) (sp : sspec) : Prop :=
  wf_fstate s
  /\ NoDup (dict_keys (fst sp))
  /\ (forall k, dict_get (fs_filters s) k = dict_get (fst sp) k)
  /\ fs_active s = snd sp.

(* responses agree; the LISTSCRIPTS lines agree as a set (the specification
   has no notion of order) *)
Definition resp_equiv (r1 r2 : resp) : Prop :=
  r_cond r1 = r_cond r2 /\ r_code r1 = r_code r2 /\ r_text r1 = r_text r2
  /\ match r_payload r1, r_payload r2 with
     | PList l1, PList l2 => Permutation l1 l2
     | p1, p2 => p1 = p2
     end.

Lemma resp_equiv_refl r : resp_equiv r r.
Proof. repeat split. destruct (r_payload r); reflexivity. Qed.

Lemma refines_init : refines_state fs_init spec_init.
Proof. split; [exact wf_init|]. repeat split. constructor. Qed.

Lemma same_map_same_keys (d m : pydict) :
  NoDup (dict_keys d) -> NoDup (dict_keys m) ->
  (forall k, dict_get d k = dict_get m k) -> Permutation (dict_keys d) (dict_keys m).
Proof.
  intros N1 N2 H. apply NoDup_Permutation; [exact N1|exact N2|].
  intro x. rewrite <- !dict_in_iff. unfold dict_in. rewrite H. tauto.
Qed.

Ltac same_state :=
  cbn [fst snd] in *;
  split; [apply resp_equiv_refl
         |split; [assumption
                 |split; [assumption|split; [assumption|first [assumption|reflexivity]]]]].

Section Refinement.
Variable cfg : config.
Variable compiles : bytes -> bool.
Notation frun := (fstate_run cfg compiles).
Notation srun := (spec_run cfg compiles).

Theorem store_refines s sp c :
  refines_state s sp -> cmd_wf c = true ->
  resp_equiv (fst (frun s c)) (fst (srun sp c))
  /\ refines_state (snd (frun s c)) (snd (srun sp c)).
Proof.
  intros RS W.
  assert (WF' : wf_fstate (snd (frun s c))).
  { apply fstate_run_wf; [apply RS|exact W]. }
  destruct RS as (WF & NDm & GET & ACT).
  pose proof (wf_active_nonempty s WF) as NA.
  destruct sp as [m a]. cbn [fst snd] in *.
  unfold refines_state. revert WF'.
  destruct c; cbn [fstate_run spec_run]; fs_simpl; intro WF'; cbn [fst snd] in *.
  1-6: same_state.
  - (* HAVESPACE *) destruct (fits cfg size); cbn [fst snd];
      same_state.
  - (* PUTSCRIPT *)
    destruct (fits cfg _); cbn [fst snd] in *.
    2:{ same_state. }
    split; [apply resp_equiv_refl|].
    split; [exact WF'|]. cbn [fst snd fs_filters fs_active]. repeat split.
    + cbn [dict_keys map fst]. constructor.
      * intro H. apply keys_remove_incl in H. destruct H as [_ H]. apply H. reflexivity.
      * apply nodup_remove. exact NDm.
    + intro k. cbn [dict_get]. destruct (bytes_eqb name k) eqn:E.
      * apply bytes_eqb_eq in E. subst. apply dict_get_set_same.
      * apply bytes_eqb_false in E. rewrite dict_get_set_other by exact E.
        rewrite get_remove_other by exact E. apply GET.
    + exact ACT.
  - (* LISTSCRIPTS *)
    split; [|split; [assumption|split; [assumption|split; [assumption|assumption]]]].
    repeat split. cbn [r_payload].
    replace (map (fun p : key * bytes => (fst p, optkey_eqb (Some (fst p)) a)) m)
      with (map (fun n => (n, optkey_eqb (Some n) a)) (dict_keys m))
      by (unfold dict_keys; rewrite map_map; reflexivity).
    eapply Permutation_trans.
    2:{ apply Permutation_map. apply same_map_same_keys; [apply WF|exact NDm|exact GET]. }
    replace (map (fun n : key => (n, active_mark (fs_active s) n)) (dict_keys (fs_filters s)))
      with (map (fun n : key => (n, optkey_eqb (Some n) a)) (dict_keys (fs_filters s)));
      [apply Permutation_refl|].
    apply map_ext. intro n. f_equal. rewrite <- ACT.
    destruct (active_mark (fs_active s) n) eqn:E.
    + apply active_mark_iff in E; [|exact NA]. rewrite E. cbn. apply bytes_eqb_refl.
    + destruct (optkey_eqb (Some n) (fs_active s)) eqn:E2; [|reflexivity].
      apply optkey_eqb_eq in E2. symmetry in E2. apply active_mark_iff in E2; [|exact NA].
      congruence.
  - (* SETACTIVE *)
    destruct name as [n|]; fs_simpl.
    + unfold dict_in in *. rewrite GET in *. destruct (dict_get m n); same_state.
    + cbn [fst snd] in *. same_state.
  - (* GETSCRIPT *)
    rewrite GET. destruct (dict_get m name); cbn [fst snd];
      same_state.
  - (* DELETESCRIPT *)
    unfold dict_in in *. rewrite GET in *. destruct (dict_get m name) eqn:E; cbn [negb fst snd] in *.
    2:{ same_state. }
    rewrite optkey_eqb_sym, ACT in *. destruct (optkey_eqb a (Some name)) eqn:E2; cbn [fst snd] in *.
    { same_state. }
    split; [apply resp_equiv_refl|]. split; [exact WF'|].
    cbn [fst snd fs_filters fs_active]. repeat split.
    + apply nodup_remove. exact NDm.
    + intro k. destruct (bytes_eq_dec name k) as [<-|N].
      * rewrite get_remove_same. apply dict_get_del_same. apply WF.
      * rewrite get_remove_other by exact N. rewrite dict_get_del_other by exact N. apply GET.
  - (* RENAMESCRIPT *)
    unfold dict_in in *. rewrite !GET in *. destruct (dict_get m old) as [v|] eqn:Eo.
    2:{ cbn [optkey_eqb option_eqb] in *. rewrite bytes_eqb_refl in *. cbn [fst snd] in *.
        same_state. }
    destruct (dict_get m new) as [v2|] eqn:En.
    { cbn [optkey_eqb option_eqb] in *. rewrite (bytes_eqb_sym new old) in *.
      destruct (bytes_eqb old new) eqn:E3; cbn [fst snd] in *.
      - same_state.
      - rewrite bytes_eqb_refl in *. cbn [fst snd] in *.
        same_state. }
    cbn [fst snd] in *. split; [apply resp_equiv_refl|]. split; [exact WF'|].
    cbn [fst snd fs_filters fs_active].
    assert (Hne : new <> old) by congruence.
    assert (NDs : NoDup (dict_keys (dict_set (fs_filters s) new v)))
      by (apply nodup_set; apply WF).
    repeat split.
    + cbn [dict_keys map fst]. constructor.
      * intro H. apply keys_remove_incl in H. destruct H as [H _].
        apply dict_in_iff in H. unfold dict_in in H. rewrite En in H. discriminate.
      * apply nodup_remove. exact NDm.
    + intro k. cbn [dict_get]. destruct (bytes_eqb new k) eqn:E.
      * apply bytes_eqb_eq in E. subst k. rewrite dict_get_del_other by congruence.
        apply dict_get_set_same.
      * apply bytes_eqb_false in E. destruct (bytes_eq_dec old k) as [<-|N].
        -- rewrite get_remove_same. apply dict_get_del_same. exact NDs.
        -- rewrite get_remove_other by exact N. rewrite dict_get_del_other by exact N.
           rewrite dict_get_set_other by exact E. apply GET.
    + rewrite ACT. reflexivity.
  - (* CHECKSCRIPT *) destruct (compiles data); cbn [fst snd];
      same_state.
Qed.

End Refinement.

(* ============================================= 3. connections and worlds *)
Lemma script_cmd_not_unauth c conts :
  is_script_cmd c = true -> acts_unauthenticated (InCmd c conts) = false.
Proof. destruct c; cbn; congruence. Qed.

Section World.
Variable cfg : config.
Variable sasl : bytes -> option bytes -> list bytes -> auth_outcome.
Variable St : Type.
Variable srun : St -> cmd -> resp * St.
Variable sinit : St.

Notation cstep := (conn_step sasl St srun sinit).
Notation wstep := (step sasl St srun sinit).
Notation wrun := (run sasl St srun sinit).
Notation wtr := (run_tr sasl St srun sinit).
Notation gets := (get_store St sinit).
Notation sets := (set_store St).

Lemma get_set_same st u s : gets (sets st u s) u = s.
Proof.
  induction st as [|[u' s'] r IH]; cbn [set_store get_store].
  - rewrite bytes_eqb_refl. reflexivity.
  - destruct (bytes_eqb u' u) eqn:E; cbn [get_store]; rewrite E; [reflexivity|exact IH].
Qed.

Lemma get_set_other st u s u2 : u <> u2 -> gets (sets st u s) u2 = gets st u2.
Proof.
  intro N. induction st as [|[u' s'] r IH]; cbn [set_store get_store].
  - rewrite (bytes_eqb_neq _ _ N). reflexivity.
  - destruct (bytes_eqb u' u) eqn:E; cbn [get_store].
    + apply bytes_eqb_eq in E. subst u'. rewrite (bytes_eqb_neq _ _ N). reflexivity.
    + destruct (bytes_eqb u' u2); [reflexivity|exact IH].
Qed.

(* ---- the gate *)
(* before authentication, anything but NOOP / LOGOUT / CAPABILITY / STARTTLS /
   AUTHENTICATE is answered NO and changes neither a store nor the connection *)
Lemma gate_step st c i :
  c_auth c = None -> acts_unauthenticated i = false ->
  exists t, cstep st c i = (r_no RcNone t, st, c).
Proof.
  intros A N. destruct i as [k conts|]; [|eexists; reflexivity].
  destruct k; cbn in N; try discriminate; cbn [conn_step]; rewrite A; eexists; reflexivity.
Qed.

(* before authentication no command at all touches a store *)
Lemma unauth_step_stores st c i :
  c_auth c = None -> snd (fst (cstep st c i)) = st.
Proof.
  intro A. destruct i as [k conts|]; [|reflexivity].
  destruct k; cbn [conn_step]; rewrite ?A; try reflexivity.
  - destruct (c_offer_tls c); reflexivity.
  - destruct (mechs_available c); [|reflexivity]. destruct (sasl mech initial conts); reflexivity.
Qed.

(* the only ways an unauthenticated connection changes its own state *)
Lemma unauth_step_conn st c i r st' c' :
  c_auth c = None -> cstep st c i = (r, st', c') ->
  c' = c
  \/ (exists conts, i = InCmd CLogout conts /\ c' = mk_conn None (c_offer_tls c) true)
  \/ (exists conts, i = InCmd CStartTLS conts /\ c_offer_tls c = true
                    /\ c' = mk_conn None false false)
  \/ (exists m ini conts u f, i = InCmd (CAuthenticate m ini) conts
        /\ sasl m ini conts = AuthOk u f /\ c' = mk_conn (Some u) (c_offer_tls c) false).
Proof.
  intros A H. destruct i as [k conts|]; [|injection H as <- <- <-; left; reflexivity].
  destruct k; cbn [conn_step] in H; rewrite ?A in H;
    try (injection H as <- <- <-; left; reflexivity).
  - injection H as <- <- <-. right. left. exists conts. split; reflexivity.
  - destruct (c_offer_tls c) eqn:E.
    + injection H as <- <- <-. right. right. left. exists conts. repeat split.
    + injection H as <- <- <-. left. reflexivity.
  - destruct (mechs_available c); [|injection H as <- <- <-; left; reflexivity].
    destruct (sasl mech initial conts) as [u f|] eqn:E.
    + injection H as <- <- <-. right. right. right. exists mech, initial, conts, u, f.
      repeat split. exact E.
    + injection H as <- <- <-. left. reflexivity.
Qed.

(* ---- after authentication: the command runs on the user's own store *)
Definition store_cmd (k : cmd) : bool :=
  match k with
  | CNoop _ | CLogout | CCapability | CUnauthenticate => false
  | _ => true
  end.

Lemma auth_step st c u k conts :
  c_auth c = Some u -> store_cmd k = true ->
  cstep st c (InCmd k conts) =
  (fst (srun (gets st u) k), sets st u (snd (srun (gets st u) k)), c).
Proof.
  intros A K. destruct k; cbn in K; try discriminate; cbn [conn_step]; rewrite A;
    destruct (srun (gets st u) _); reflexivity.
Qed.

Lemma auth_step_other st c k conts :
  store_cmd k = false -> snd (fst (cstep st c (InCmd k conts))) = st.
Proof.
  intro K. destruct k; cbn in K; try discriminate; cbn [conn_step]; try reflexivity.
  destruct (c_auth c); reflexivity.
Qed.

(* ---- isolation: a step changes at most the store of the user the acting
   connection is authenticated as *)
Lemma step_isolation st c i u2 :
  c_auth c <> Some u2 -> gets (snd (fst (cstep st c i))) u2 = gets st u2.
Proof.
  intro A. destruct (c_auth c) as [u|] eqn:E.
  2:{ rewrite unauth_step_stores by exact E. reflexivity. }
  destruct i as [k conts|]; [|reflexivity].
  destruct (store_cmd k) eqn:K.
  - rewrite (auth_step st c u k conts E K). cbn [fst snd].
    apply get_set_other. congruence.
  - rewrite auth_step_other by exact K. reflexivity.
Qed.

(* what a connection is answered depends on the stores only through the
   store of the user it is authenticated as *)
Lemma step_observes_own_store st1 st2 c i :
  (forall u, c_auth c = Some u -> gets st1 u = gets st2 u) ->
  fst (fst (cstep st1 c i)) = fst (fst (cstep st2 c i))
  /\ snd (cstep st1 c i) = snd (cstep st2 c i).
Proof.
  intro H. destruct i as [k conts|]; [|split; reflexivity].
  destruct (c_auth c) as [u|] eqn:E.
  - specialize (H u eq_refl). destruct (store_cmd k) eqn:K.
    + rewrite !(auth_step _ c u k conts E K). cbn [fst snd]. rewrite H. split; reflexivity.
    + destruct k; cbn in K; try discriminate; cbn [conn_step]; rewrite ?E; split; reflexivity.
  - destruct k; cbn [conn_step]; rewrite ?E; try (split; reflexivity).
    + destruct (c_offer_tls c); split; reflexivity.
    + destruct (mechs_available c); [|split; reflexivity].
      destruct (sasl mech initial conts); split; reflexivity.
Qed.

(* ---- worlds: a property of every step from a state satisfying an invariant
   holds at every transition of every program *)
Lemma run_tr_forall (Inv : world St -> Prop) (P : trans St -> Prop) :
  (forall w ev, Inv w -> P (w, ev, fst (wstep w ev), snd (wstep w ev))
                         /\ Inv (snd (wstep w ev))) ->
  forall evs w, Inv w -> Forall P (wtr w evs).
Proof.
  intros H evs. induction evs as [|ev r IH]; intros w I; cbn [run_tr]; [constructor|].
  destruct (H w ev I) as [HP HI]. destruct (wstep w ev) as [o w1]. cbn [fst snd] in *.
  constructor; [exact HP|apply IH; exact HI].
Qed.

Lemma step_actor w k i :
  match actor St w k with
  | Some c =>
    nth_error (w_conns St w) k = Some c /\ c_closed c = false /\
    wstep w (k, i) =
    (Some (fst (fst (cstep (w_stores St w) c i))),
     mk_world St (snd (fst (cstep (w_stores St w) c i)))
                 (set_nth (w_conns St w) k (snd (cstep (w_stores St w) c i))))
  | None => wstep w (k, i) = (None, w)
  end.
Proof.
  unfold actor, step. destruct (nth_error (w_conns St w) k) as [c|]; [|reflexivity].
  destruct (c_closed c) eqn:E; [reflexivity|].
  destruct (cstep (w_stores St w) c i) as [[r st'] c']. repeat split. exact E.
Qed.

(* the gate, at every transition of every program *)
Definition gate_ok (t : trans St) : Prop :=
  let '(wb, (k, i), o, wa) := t in
  forall c, actor St wb k = Some c -> c_auth c = None ->
    w_stores St wa = w_stores St wb
    /\ (acts_unauthenticated i = false ->
        wa = wb /\ exists tx, o = Some (r_no RcNone tx)).

Lemma set_nth_same {A} (l : list A) k x : nth_error l k = Some x -> set_nth l k x = l.
Proof.
  revert k. induction l as [|y r IH]; intros [|k]; cbn; try discriminate.
  - intro H. injection H as ->. reflexivity.
  - intro H. f_equal. apply IH. exact H.
Qed.

Theorem gate_all_programs w evs : Forall gate_ok (wtr w evs).
Proof.
  apply (run_tr_forall (fun _ => True)); [|exact I].
  intros w0 [k i] _. split; [|exact I]. unfold gate_ok. intros c AC A.
  pose proof (step_actor w0 k i) as H. rewrite AC in H. destruct H as (N & _ & H).
  rewrite H. cbn [fst snd w_stores]. split.
  - apply unauth_step_stores. exact A.
  - intro NA. destruct (gate_step (w_stores St w0) c i A NA) as [tx E]. rewrite E.
    cbn [fst snd]. split; [|exists tx; reflexivity].
    rewrite set_nth_same by exact N. destruct w0; reflexivity.
Qed.

(* isolation at every transition of every program *)
Definition isolation_ok (u2 : user) (t : trans St) : Prop :=
  let '(wb, (k, i), o, wa) := t in
  match actor St wb k with
  | Some c => c_auth c <> Some u2 -> gets (w_stores St wa) u2 = gets (w_stores St wb) u2
  | None => wa = wb
  end.

Theorem isolation_all_programs u2 w evs : Forall (isolation_ok u2) (wtr w evs).
Proof.
  apply (run_tr_forall (fun _ => True)); [|exact I].
  intros w0 [k i] _. split; [|exact I]. unfold isolation_ok.
  pose proof (step_actor w0 k i) as H. destruct (actor St w0 k) as [c|].
  - destruct H as (_ & _ & H). rewrite H. cbn [fst snd w_stores].
    intro A. apply step_isolation. exact A.
  - rewrite H. reflexivity.
Qed.

(* aggregated form: a program in which no acting connection is authenticated
   as u2 at the time it acts leaves u2's store exactly as it was *)
Definition not_acting_as (u2 : user) (t : trans St) : Prop :=
  let '(wb, (k, _), _, _) := t in
  match actor St wb k with Some c => c_auth c <> Some u2 | None => True end.

Lemma run_tr_final w evs :
  snd (wrun w evs) = fold_left (fun _ (t : trans St) => snd t) (wtr w evs) w.
Proof.
  revert w. induction evs as [|ev r IH]; intro w; cbn [run run_tr]; [reflexivity|].
  destruct (wstep w ev) as [o w1]. specialize (IH w1).
  destruct (wrun w1 r) as [os w2]. cbn [snd fold_left] in *. exact IH.
Qed.

Theorem isolation_program u2 evs : forall w,
  Forall (not_acting_as u2) (wtr w evs) ->
  gets (w_stores St (snd (wrun w evs))) u2 = gets (w_stores St w) u2.
Proof.
  induction evs as [|[k i] r IH]; intros w F; cbn [run run_tr] in *; [reflexivity|].
  pose proof (step_actor w k i) as H.
  destruct (wstep w (k, i)) as [o w1] eqn:E1. specialize (IH w1).
  destruct (wrun w1 r) as [os w2]. cbn [snd] in *.
  inversion F as [|? ? F1 F2]; subst. rewrite IH by exact F2.
  unfold not_acting_as in F1. destruct (actor St w k) as [c|].
  - destruct H as (_ & _ & H). injection H as _ ->. cbn [w_stores].
    apply step_isolation. exact F1.
  - injection H as _ ->. reflexivity.
Qed.

(* aggregated gate: a program all of whose acting connections are
   unauthenticated when they act changes no store at all *)
Definition acting_unauth (t : trans St) : Prop :=
  let '(wb, (k, _), _, _) := t in
  match actor St wb k with Some c => c_auth c = None | None => True end.

Theorem gate_program evs : forall w,
  Forall acting_unauth (wtr w evs) ->
  w_stores St (snd (wrun w evs)) = w_stores St w.
Proof.
  induction evs as [|[k i] r IH]; intros w F; cbn [run run_tr] in *; [reflexivity|].
  pose proof (step_actor w k i) as H.
  destruct (wstep w (k, i)) as [o w1] eqn:E1. specialize (IH w1).
  destruct (wrun w1 r) as [os w2]. cbn [snd] in *.
  inversion F as [|? ? F1 F2]; subst. rewrite IH by exact F2.
  unfold acting_unauth in F1. destruct (actor St w k) as [c|].
  - destruct H as (_ & _ & H). injection H as _ ->. cbn [w_stores].
    apply unauth_step_stores. exact F1.
  - injection H as _ ->. reflexivity.
Qed.

End World.

(* ============================ 4. the implementation's world vs the spec's *)
Definition wf_stores (st : stores fstate) : Prop :=
  forall u, wf_fstate (get_store fstate fs_init st u).

Definition stores_rel (st : stores fstate) (sp : stores sspec) : Prop :=
  forall u, refines_state (get_store fstate fs_init st u) (get_store sspec spec_init sp u).

Definition out_equiv (o1 o2 : option resp) : Prop :=
  match o1, o2 with
  | Some r1, Some r2 => resp_equiv r1 r2
  | None, None => True
  | _, _ => False
  end.

Section Impl.
Variable cfg : config.
Variable compiles : bytes -> bool.
Variable sasl : bytes -> option bytes -> list bytes -> auth_outcome.

Notation frun := (fstate_run cfg compiles).
Notation srun := (spec_run cfg compiles).
Notation istep := (conn_step sasl fstate frun fs_init).
Notation sstep := (conn_step sasl sspec srun spec_init).
Notation irun := (run sasl fstate frun fs_init).
Notation sprun := (run sasl sspec srun spec_init).
Notation itr := (run_tr sasl fstate frun fs_init).
Notation igets := (get_store fstate fs_init).

Lemma stores_rel_set st sp u s s' :
  stores_rel st sp -> refines_state s s' ->
  stores_rel (set_store fstate st u s) (set_store sspec sp u s').
Proof.
  intros H R u2. destruct (bytes_eq_dec u u2) as [<-|N].
  - rewrite !get_set_same. exact R.
  - rewrite !get_set_other by exact N. apply H.
Qed.

Lemma conn_step_refines st sp c i :
  stores_rel st sp -> input_wf i = true ->
  resp_equiv (fst (fst (istep st c i))) (fst (fst (sstep sp c i)))
  /\ stores_rel (snd (fst (istep st c i))) (snd (fst (sstep sp c i)))
  /\ snd (istep st c i) = snd (sstep sp c i).
Proof.
  intros H W. destruct i as [k conts|].
  2:{ cbn. split; [apply resp_equiv_refl|split; [exact H|reflexivity]]. }
  cbn [input_wf] in W.
  destruct (c_auth c) as [u|] eqn:A.
  - destruct (store_cmd k) eqn:K.
    + rewrite (auth_step sasl fstate frun fs_init st c u k conts A K).
      rewrite (auth_step sasl sspec srun spec_init sp c u k conts A K). cbn [fst snd].
      destruct (store_refines cfg compiles _ _ k (H u) W) as [R1 R2].
      split; [exact R1|split; [|reflexivity]].
      apply stores_rel_set; assumption.
    + destruct k; cbn in K; try discriminate; cbn [conn_step]; rewrite ?A; cbn [fst snd];
        (split; [apply resp_equiv_refl|split; [exact H|reflexivity]]).
  - destruct k; cbn [conn_step]; rewrite ?A; cbn [fst snd];
      try (split; [apply resp_equiv_refl|split; [exact H|reflexivity]]).
    + destruct (c_offer_tls c); cbn [fst snd];
        (split; [apply resp_equiv_refl|split; [exact H|reflexivity]]).
    + destruct (mechs_available c); [destruct (sasl mech initial conts)|]; cbn [fst snd];
        (split; [apply resp_equiv_refl|split; [exact H|reflexivity]]).
Qed.

(* sieve_refines: every program, over any number of connections and users,
   is answered by the implementation as the map specification answers it *)
Theorem world_refines evs : forall st sp cs,
  stores_rel st sp -> Forall (fun ev => input_wf (snd ev) = true) evs ->
  Forall2 out_equiv (fst (irun (mk_world fstate st cs) evs))
                    (fst (sprun (mk_world sspec sp cs) evs))
  /\ stores_rel (w_stores fstate (snd (irun (mk_world fstate st cs) evs)))
                (w_stores sspec (snd (sprun (mk_world sspec sp cs) evs)))
  /\ w_conns fstate (snd (irun (mk_world fstate st cs) evs))
     = w_conns sspec (snd (sprun (mk_world sspec sp cs) evs)).
Proof.
  induction evs as [|[k i] r IH]; intros st sp cs H F; cbn [run].
  - cbn. split; [constructor|split; [exact H|reflexivity]].
  - inversion F as [|? ? W F2]; subst. cbn [snd] in W.
    unfold step. cbn [w_conns w_stores].
    destruct (nth_error cs k) as [c|].
    2:{ specialize (IH st sp cs H F2).
        destruct (irun _ r) as [o1 w1]. destruct (sprun _ r) as [o2 w2]. cbn [fst snd] in *.
        destruct IH as (I1 & I2 & I3). split; [constructor; [exact I|exact I1]|split; assumption]. }
    destruct (c_closed c).
    { specialize (IH st sp cs H F2).
      destruct (irun _ r) as [o1 w1]. destruct (sprun _ r) as [o2 w2]. cbn [fst snd] in *.
      destruct IH as (I1 & I2 & I3). split; [constructor; [exact I|exact I1]|split; assumption]. }
    destruct (conn_step_refines st sp c i H W) as (R1 & R2 & R3).
    destruct (istep st c i) as [[r1 st1] c1]. destruct (sstep sp c i) as [[r2 sp2] c2].
    cbn [fst snd] in *. subst c2.
    specialize (IH st1 sp2 (set_nth cs k c1) R2 F2).
    destruct (irun _ r) as [o1 w1]. destruct (sprun _ r) as [o2 w2]. cbn [fst snd] in *.
    destruct IH as (I1 & I2 & I3). split; [constructor; [exact R1|exact I1]|split; assumption].
Qed.

(* the invariant behind the clauses: in every reachable world every user's
   store has distinct, non-empty names and an active name that is stored *)
Lemma conn_step_wf st c i :
  wf_stores st -> input_wf i = true -> wf_stores (snd (fst (istep st c i))).
Proof.
  intros H W. destruct (c_auth c) as [u|] eqn:A.
  2:{ rewrite unauth_step_stores by exact A. exact H. }
  destruct i as [k conts|]; [|exact H]. destruct (store_cmd k) eqn:K.
  - rewrite (auth_step sasl fstate frun fs_init st c u k conts A K). cbn [fst snd].
    intro u2. destruct (bytes_eq_dec u u2) as [<-|N].
    + rewrite get_set_same. apply fstate_run_wf; [apply H|exact W].
    + rewrite get_set_other by exact N. apply H.
  - rewrite auth_step_other by exact K. exact H.
Qed.

Theorem wf_all_programs evs : forall w,
  wf_stores (w_stores fstate w) -> Forall (fun ev => input_wf (snd ev) = true) evs ->
  wf_stores (w_stores fstate (snd (irun w evs))).
Proof.
  induction evs as [|[k i] r IH]; intros w H F; cbn [run]; [exact H|].
  inversion F as [|? ? W F2]; subst. cbn [snd] in W.
  pose proof (step_actor sasl fstate frun fs_init w k i) as S.
  destruct (step sasl fstate frun fs_init w (k, i)) as [o w1]. specialize (IH w1).
  destruct (irun w1 r) as [os w2]. cbn [snd] in *. apply IH; [|exact F2].
  destruct (actor fstate w k) as [c|].
  - destruct S as (_ & _ & S). injection S as _ ->. cbn [w_stores].
    apply conn_step_wf; assumption.
  - injection S as _ ->. exact H.
Qed.

(* errors change nothing: whatever is answered NO or BYE left every store as
   it was *)
Lemma conn_step_error_same st c i :
  r_cond (fst (fst (istep st c i))) <> OK ->
  forall u, igets (snd (fst (istep st c i))) u = igets st u.
Proof.
  intros N u2. destruct (c_auth c) as [u|] eqn:A.
  2:{ rewrite unauth_step_stores by exact A. reflexivity. }
  destruct i as [k conts|]; [|reflexivity]. destruct (store_cmd k) eqn:K.
  - rewrite (auth_step sasl fstate frun fs_init st c u k conts A K) in *. cbn [fst snd] in *.
    destruct (frun (igets st u) k) as [r s'] eqn:E. cbn [fst snd] in *.
    apply fstate_run_error_same in E; [|exact N]. subst s'.
    destruct (bytes_eq_dec u u2) as [<-|N2].
    + apply get_set_same.
    + apply get_set_other. exact N2.
  - rewrite auth_step_other by exact K. reflexivity.
Qed.

(* PUTSCRIPT, then any program in which nobody acts as that user, then
   GETSCRIPT on any connection of that user: the same bytes come back *)
Theorem put_get_interleaved st c1 c2 u n v conts1 conts2 evs cs :
  c_auth c1 = Some u -> c_auth c2 = Some u ->
  fits cfg (N.of_nat (length v)) = true ->
  let st1 := snd (fst (istep st c1 (InCmd (CPutScript n v) conts1))) in
  let w2 := snd (irun (mk_world fstate st1 cs) evs) in
  Forall (not_acting_as fstate u) (itr (mk_world fstate st1 cs) evs) ->
  fst (fst (istep st c1 (InCmd (CPutScript n v) conts1))) = r_ok
  /\ fst (fst (istep (w_stores fstate w2) c2 (InCmd (CGetScript n) conts2)))
     = mk_resp OK RcNone TxNone (PScript v).
Proof.
  intros A1 A2 F st1 w2 NA.
  pose proof (isolation_program sasl fstate frun fs_init u evs _ NA) as ISO.
  fold w2 in ISO. cbn [w_stores] in ISO.
  destruct (put_then_get cfg compiles (igets st u) n v F) as (s1 & P1 & P2 & _).
  assert (E1 : istep st c1 (InCmd (CPutScript n v) conts1)
               = (r_ok, set_store fstate st u s1, c1)).
  { rewrite (auth_step sasl fstate frun fs_init st c1 u (CPutScript n v) conts1 A1 eq_refl). rewrite P1.
    reflexivity. }
  subst st1. rewrite E1 in *. cbn [fst snd] in *. split; [reflexivity|].
  rewrite (auth_step sasl fstate frun fs_init _ c2 u (CGetScript n) conts2 A2 eq_refl). cbn [fst].
  rewrite ISO, get_set_same, P2. reflexivity.
Qed.

End Impl.

(* ============================== 5. what the parser lets through is well formed *)
Lemma parse_script_name_nonempty b n r :
  parse_script_name false b = Ok (n, r) -> nonempty n = true.
Proof.
  unfold parse_script_name. destruct (parse_string b) as [[v r']| | |]; try discriminate.
  destruct v; [discriminate|]. destruct (utf8_valid _); [|discriminate].
  intro H. injection H as <- _. reflexivity.
Qed.

Lemma ends_ok b c c' : ends b c = Ok c' -> c' = c.
Proof.
  unfold ends, bind. destruct (parse_endline b); try discriminate. intro H. injection H as <-.
  reflexivity.
Qed.

Lemma bind_ok {A B} (r : result A) (f : A -> result B) y :
  bind r f = Ok y -> exists x, r = Ok x /\ f x = Ok y.
Proof. destruct r; cbn; try discriminate. intro H. eexists. split; [reflexivity|exact H]. Qed.

Theorem parse_command_wf b c : parse_command b = Ok c -> cmd_wf c = true.
Proof.
  unfold parse_command. destruct (parse_atom b) as [[a r]| | |]; try discriminate.
  repeat match goal with
  | |- context [if ?x then _ else _] => destruct x
  end; try discriminate.
  - unfold parse_noop. intro H.
    repeat match type of H with
    | context [match ?x with _ => _ end] => destruct x
    | context [if ?x then _ else _] => destruct x
    end; try discriminate; apply ends_ok in H; subst; reflexivity.
  - intro H. apply ends_ok in H. subst. reflexivity.
  - intro H. apply ends_ok in H. subst. reflexivity.
  - unfold parse_authenticate. intro H. apply bind_ok in H. destruct H as ([m r1] & _ & H).
    destruct (parse_string r1) as [[d r2]| | |]; try discriminate; injection H as <-; reflexivity.
  - intro H. apply ends_ok in H. subst. reflexivity.
  - intro H. apply ends_ok in H. subst. reflexivity.
  - unfold parse_havespace. intro H.
    apply bind_ok in H. destruct H as ([n r1] & E & H).
    apply bind_ok in H. destruct H as ([sz r2] & _ & H).
    apply ends_ok in H. subst. cbn. eapply parse_script_name_nonempty. exact E.
  - unfold parse_putscript. intro H.
    apply bind_ok in H. destruct H as ([n r1] & E & H).
    apply bind_ok in H. destruct H as ([d r2] & _ & H).
    apply ends_ok in H. subst. cbn. eapply parse_script_name_nonempty. exact E.
  - intro H. apply ends_ok in H. subst. reflexivity.
  - unfold parse_name_cmd. intro H. apply bind_ok in H. destruct H as ([n r1] & _ & H).
    apply ends_ok in H. subst. destruct n; reflexivity.
  - unfold parse_name_cmd. intro H. apply bind_ok in H. destruct H as ([n r1] & E & H).
    apply ends_ok in H. subst. cbn. eapply parse_script_name_nonempty. exact E.
  - unfold parse_name_cmd. intro H. apply bind_ok in H. destruct H as ([n r1] & E & H).
    apply ends_ok in H. subst. cbn. eapply parse_script_name_nonempty. exact E.
  - unfold parse_rename. intro H.
    apply bind_ok in H. destruct H as ([o r1] & E & H).
    apply bind_ok in H. destruct H as ([n r2] & E2 & H).
    apply ends_ok in H. subst. cbn. apply andb_true_iff.
    split; eapply parse_script_name_nonempty; eassumption.
  - unfold parse_checkscript. intro H. apply bind_ok in H. destruct H as ([d r1] & _ & H).
    apply ends_ok in H. subst. reflexivity.
Qed.

Corollary input_of_bytes_wf b conts : input_wf (input_of_bytes b conts) = true.
Proof.
  unfold input_of_bytes. destruct (parse_command b) eqn:E; try reflexivity.
  cbn. eapply parse_command_wf. exact E.
Qed.

(* ================= 6. refinement of worlds, for any two related store machines *)
Section GenericRefinement.
Variable sasl : bytes -> option bytes -> list bytes -> auth_outcome.
Variables (S1 S2 : Type).
Variable run1 : S1 -> cmd -> resp * S1.
Variable run2 : S2 -> cmd -> resp * S2.
Variables (init1 : S1) (init2 : S2).
Variable R : S1 -> S2 -> Prop.
Hypothesis R_step : forall s1 s2 c, R s1 s2 -> cmd_wf c = true ->
  resp_equiv (fst (run1 s1 c)) (fst (run2 s2 c)) /\ R (snd (run1 s1 c)) (snd (run2 s2 c)).

Definition gstores_rel (st1 : stores S1) (st2 : stores S2) : Prop :=
  forall u, R (get_store S1 init1 st1 u) (get_store S2 init2 st2 u).

Notation step1 := (conn_step sasl S1 run1 init1).
Notation step2 := (conn_step sasl S2 run2 init2).

Lemma gstores_rel_set st1 st2 u s1 s2 :
  gstores_rel st1 st2 -> R s1 s2 ->
  gstores_rel (set_store S1 st1 u s1) (set_store S2 st2 u s2).
Proof.
  intros H HR u2. destruct (bytes_eq_dec u u2) as [<-|N].
  - rewrite !get_set_same. exact HR.
  - rewrite !get_set_other by exact N. apply H.
Qed.

Lemma gconn_step_refines st1 st2 c i :
  gstores_rel st1 st2 -> input_wf i = true ->
  resp_equiv (fst (fst (step1 st1 c i))) (fst (fst (step2 st2 c i)))
  /\ gstores_rel (snd (fst (step1 st1 c i))) (snd (fst (step2 st2 c i)))
  /\ snd (step1 st1 c i) = snd (step2 st2 c i).
Proof.
  intros H W. destruct i as [k conts|].
  2:{ cbn. split; [apply resp_equiv_refl|split; [exact H|reflexivity]]. }
  cbn [input_wf] in W.
  destruct (c_auth c) as [u|] eqn:A.
  - destruct (store_cmd k) eqn:K.
    + rewrite (auth_step sasl S1 run1 init1 st1 c u k conts A K).
      rewrite (auth_step sasl S2 run2 init2 st2 c u k conts A K). cbn [fst snd].
      destruct (R_step _ _ k (H u) W) as [R1 R2].
      split; [exact R1|split; [|reflexivity]].
      apply gstores_rel_set; assumption.
    + destruct k; cbn in K; try discriminate; cbn [conn_step]; rewrite ?A; cbn [fst snd];
        (split; [apply resp_equiv_refl|split; [exact H|reflexivity]]).
  - destruct k; cbn [conn_step]; rewrite ?A; cbn [fst snd];
      try (split; [apply resp_equiv_refl|split; [exact H|reflexivity]]).
    + destruct (c_offer_tls c); cbn [fst snd];
        (split; [apply resp_equiv_refl|split; [exact H|reflexivity]]).
    + destruct (mechs_available c); [destruct (sasl mech initial conts)|]; cbn [fst snd];
        (split; [apply resp_equiv_refl|split; [exact H|reflexivity]]).
Qed.

Theorem gworld_refines evs : forall st1 st2 cs,
  gstores_rel st1 st2 -> Forall (fun ev => input_wf (snd ev) = true) evs ->
  Forall2 out_equiv (fst (run sasl S1 run1 init1 (mk_world S1 st1 cs) evs))
                    (fst (run sasl S2 run2 init2 (mk_world S2 st2 cs) evs))
  /\ gstores_rel (w_stores S1 (snd (run sasl S1 run1 init1 (mk_world S1 st1 cs) evs)))
                 (w_stores S2 (snd (run sasl S2 run2 init2 (mk_world S2 st2 cs) evs)))
  /\ w_conns S1 (snd (run sasl S1 run1 init1 (mk_world S1 st1 cs) evs))
     = w_conns S2 (snd (run sasl S2 run2 init2 (mk_world S2 st2 cs) evs)).
Proof.
  induction evs as [|[k i] r IH]; intros st1 st2 cs H F; cbn [run].
  - cbn. split; [constructor|split; [exact H|reflexivity]].
  - inversion F as [|? ? W F2]; subst. cbn [snd] in W.
    unfold step. cbn [w_conns w_stores].
    destruct (nth_error cs k) as [c|].
    2:{ specialize (IH st1 st2 cs H F2).
        destruct (run sasl S1 run1 init1 _ r) as [o1 w1].
        destruct (run sasl S2 run2 init2 _ r) as [o2 w2]. cbn [fst snd] in *.
        destruct IH as (I1 & I2 & I3). split; [constructor; [exact I|exact I1]|split; assumption]. }
    destruct (c_closed c).
    { specialize (IH st1 st2 cs H F2).
      destruct (run sasl S1 run1 init1 _ r) as [o1 w1].
      destruct (run sasl S2 run2 init2 _ r) as [o2 w2]. cbn [fst snd] in *.
      destruct IH as (I1 & I2 & I3). split; [constructor; [exact I|exact I1]|split; assumption]. }
    destruct (gconn_step_refines st1 st2 c i H W) as (R1 & R2 & R3).
    destruct (step1 st1 c i) as [[r1 st1'] c1]. destruct (step2 st2 c i) as [[r2 st2'] c2].
    cbn [fst snd] in *. subst c2.
    specialize (IH st1' st2' (set_nth cs k c1) R2 F2).
    destruct (run sasl S1 run1 init1 _ r) as [o1 w1].
    destruct (run sasl S2 run2 init2 _ r) as [o2 w2]. cbn [fst snd] in *.
    destruct IH as (I1 & I2 & I3). split; [constructor; [exact R1|exact I1]|split; assumption].
Qed.

End GenericRefinement.

(* ============================== 7. the maildir backend's one-script store *)
(* abstraction: the file's content is the binding of "active", which is then
   also the active name; no other name is bound *)
Definition m_refines (s : mstate) (sp : sspec) : Prop :=
  NoDup (dict_keys (fst sp))
  /\ (forall k, dict_get (fst sp) k = if bytes_eqb k kw_active then s else None)
  /\ snd sp = match s with Some _ => Some kw_active | None => None end.

Lemma m_refines_init : m_refines m_init spec_init.
Proof.
  repeat split; cbn; [constructor|]. intro k. destruct (bytes_eqb k kw_active); reflexivity.
Qed.

Section Maildir.
Variable cfg : config.
Variable compiles : bytes -> bool.
Notation mrun := (mstate_run cfg compiles).
Notation s1run := (spec1_run cfg compiles).

Lemma m_same s sp r : m_refines s sp -> resp_equiv r r /\ m_refines s sp.
Proof. intro H. split; [apply resp_equiv_refl|exact H]. Qed.

Theorem mstore_refines s sp c :
  m_refines s sp -> cmd_wf c = true ->
  resp_equiv (fst (mrun s c)) (fst (s1run sp c))
  /\ m_refines (snd (mrun s c)) (snd (s1run sp c)).
Proof.
  intros RS _. pose proof RS as (ND & GET & ACT). destruct sp as [m a]. cbn [fst snd] in *.
  destruct c; cbn [mstate_run spec1_run spec_run]; try (apply m_same; exact RS).
  - (* HAVESPACE *) destruct (fits cfg size); apply m_same; exact RS.
  - (* PUTSCRIPT *)
    destruct (fits cfg _); [|apply m_same; exact RS].
    destruct (bytes_eqb name kw_active) eqn:E; [|apply m_same; exact RS].
    apply bytes_eqb_eq in E. subst name. cbn [fst snd].
    split; [apply resp_equiv_refl|]. repeat split; cbn [fst snd].
    + cbn [dict_keys map fst]. constructor.
      * intro H. apply keys_remove_incl in H. destruct H as [_ H]. apply H. reflexivity.
      * apply nodup_remove. exact ND.
    + intro k. cbn [dict_get]. rewrite (bytes_eqb_sym kw_active k).
      destruct (bytes_eqb k kw_active) eqn:E; [reflexivity|].
      apply bytes_eqb_false in E. rewrite get_remove_other by (intro X; apply E; symmetry; exact X).
      rewrite GET. rewrite (bytes_eqb_neq _ _ E). reflexivity.
  - (* LISTSCRIPTS *)
    cbn [fst snd]. split; [|exact RS]. repeat split. cbn [r_payload].
    assert (K : Permutation (dict_keys m)
                  (match s with Some _ => [kw_active] | None => [] end)).
    { apply NoDup_Permutation; [exact ND| |].
      - destruct s; repeat constructor; cbn; tauto.
      - intro x. rewrite <- dict_in_iff. unfold dict_in. rewrite GET.
        destruct (bytes_eqb x kw_active) eqn:E.
        + apply bytes_eqb_eq in E. subst x. destruct s; cbn; intuition discriminate.
        + apply bytes_eqb_false in E. destruct s; cbn; intuition; try discriminate. }
    replace (map (fun p : key * bytes => (fst p, optkey_eqb (Some (fst p)) a)) m)
      with (map (fun n => (n, optkey_eqb (Some n) a)) (dict_keys m))
      by (unfold dict_keys; rewrite map_map; reflexivity).
    apply Permutation_sym. eapply Permutation_trans; [apply Permutation_map; exact K|].
    rewrite ACT. destruct s; [|reflexivity]. cbn [map]. unfold optkey_eqb, option_eqb.
    rewrite bytes_eqb_refl. reflexivity.
  - (* SETACTIVE *)
    destruct name as [n|]; [|apply m_same; exact RS].
    destruct (bytes_eqb n kw_active); apply m_same; exact RS.
  - (* GETSCRIPT *)
    rewrite GET. destruct (bytes_eqb name kw_active); [destruct s|]; apply m_same; exact RS.
  - (* DELETESCRIPT *)
    destruct (bytes_eqb name kw_active) eqn:E; [|apply m_same; exact RS].
    apply bytes_eqb_eq in E. subst name. cbn [fst snd].
    split; [apply resp_equiv_refl|]. repeat split; cbn [fst snd].
    + apply nodup_remove. exact ND.
    + intro k. destruct (bytes_eqb k kw_active) eqn:E.
      * apply bytes_eqb_eq in E. subst k. apply get_remove_same.
      * apply bytes_eqb_false in E.
        rewrite get_remove_other by (intro X; apply E; symmetry; exact X).
        rewrite GET. rewrite (bytes_eqb_neq _ _ E). reflexivity.
  - (* CHECKSCRIPT *) destruct (compiles data); apply m_same; exact RS.
Qed.

(* PUTSCRIPT "active" then GETSCRIPT "active" returns the same bytes — for
   every script, the empty one included: an empty script is a script *)
Lemma m_put_then_get s v :
  fits cfg (N.of_nat (length v)) = true ->
  mrun s (CPutScript kw_active v) = (r_ok, Some v)
  /\ mrun (Some v) (CGetScript kw_active) = (mk_resp OK RcNone TxNone (PScript v), Some v)
  /\ mrun (Some v) CListScripts
     = (mk_resp OK RcNone TxNone (PList [(kw_active, true)]), Some v).
Proof. intro F. cbn [mstate_run]. rewrite F. repeat split. Qed.

(* what is not stored is not acknowledged: PUTSCRIPT under any other name is refused *)
Lemma m_put_other_refused s n v :
  n <> kw_active -> r_cond (fst (mrun s (CPutScript n v))) = NO /\ snd (mrun s (CPutScript n v)) = s.
Proof.
  intro N. cbn [mstate_run]. destruct (fits cfg _); [|split; reflexivity].
  rewrite (bytes_eqb_neq _ _ N). split; reflexivity.
Qed.

(* errors change nothing *)
Lemma mstate_run_error_same s c :
  r_cond (fst (mrun s c)) <> OK -> snd (mrun s c) = s.
Proof.
  destruct c; cbn [mstate_run]; intro N;
    repeat match goal with
    | |- context [if ?x then _ else _] => destruct x
    | |- context [match ?x with Some _ => _ | None => _ end] => destruct x
    end; cbn in *; try reflexivity; exfalso; apply N; reflexivity.
Qed.

(* REFUTED clause on this backend: the one script is the active one (LISTSCRIPTS
   marks it) and DELETESCRIPT deletes it *)
Lemma m_delete_active_refuted :
  exists s, r_payload (fst (mrun s CListScripts)) = PList [(kw_active, true)]
    /\ mrun s (CDeleteScript kw_active) = (r_ok, None).
Proof. exists (Some [107;101;101;112;59]%N). repeat split. Qed.

End Maildir.

Definition mstores_rel (st : stores mstate) (sp : stores sspec) : Prop :=
  gstores_rel mstate sspec m_init spec_init m_refines st sp.

Theorem mworld_refines cfg compiles sasl evs : forall st sp cs,
  mstores_rel st sp -> Forall (fun ev => input_wf (snd ev) = true) evs ->
  Forall2 out_equiv
    (fst (run sasl mstate (mstate_run cfg compiles) m_init (mk_world mstate st cs) evs))
    (fst (run sasl sspec (spec1_run cfg compiles) spec_init (mk_world sspec sp cs) evs))
  /\ mstores_rel
       (w_stores mstate (snd (run sasl mstate (mstate_run cfg compiles) m_init (mk_world mstate st cs) evs)))
       (w_stores sspec (snd (run sasl sspec (spec1_run cfg compiles) spec_init (mk_world sspec sp cs) evs)))
  /\ w_conns mstate (snd (run sasl mstate (mstate_run cfg compiles) m_init (mk_world mstate st cs) evs))
     = w_conns sspec (snd (run sasl sspec (spec1_run cfg compiles) spec_init (mk_world sspec sp cs) evs)).
Proof.
  intros st sp cs. apply gworld_refines. intros s1 s2 c. apply mstore_refines.
Qed.
