(* Sieve/PyDict.v — the few Python run-time notions that
   pymap/backend/dict/filter.py uses, as computable Gallina:
   an insertion-ordered dict[str, bytes] (association list, first binding of a
   key is the binding; [dict_set] on a present key keeps its position, as
   CPython does), the object state of a FilterSet, exceptions with their
   argument, and the outcome of a method call (the object state travels with
   a raised exception, because mutations made before a raise persist).
   Script names (Python str) are represented by their UTF-8 bytes: the
   ManageSieve parser only lets strictly valid UTF-8 through, on which
   str equality and byte equality coincide.  Definitions only. *)
From PV Require Import Base.Prelude.

Definition key := bytes.
Definition pydict := list (key * bytes).

Fixpoint dict_get (d : pydict) (k : key) : option bytes :=
  match d with
  | [] => None
  | (k', v) :: r => if bytes_eqb k' k then Some v else dict_get r k
  end.

(*  k in d  *)
Definition dict_in (d : pydict) (k : key) : bool :=
  match dict_get d k with Some _ => true | None => false end.

(*  d[k] = v  *)
Fixpoint dict_set (d : pydict) (k : key) (v : bytes) : pydict :=
  match d with
  | [] => [(k, v)]
  | (k', v') :: r => if bytes_eqb k' k then (k', v) :: r else (k', v') :: dict_set r k v
  end.

(*  del d[k]  (the caller has checked  k in d) *)
Fixpoint dict_del (d : pydict) (k : key) : pydict :=
  match d with
  | [] => []
  | (k', v') :: r => if bytes_eqb k' k then r else (k', v') :: dict_del r k
  end.

(*  list(d.keys())  *)
Definition dict_keys (d : pydict) : list key := map fst d.

(* a subscript whose key expression has type  str | None :
   None is never a key of a dict[str, bytes] *)
Definition dict_get_opt (d : pydict) (k : option key) : option bytes :=
  match k with Some k => dict_get d k | None => None end.

(*  a == b  on  str | None  *)
Definition optkey_eqb (a b : option key) : bool := option_eqb bytes_eqb a b.

Definition is_none {A} (a : option A) : bool :=
  match a with None => true | Some _ => false end.

(* the FilterSet object:  self._filters, self._active *)
Record fstate := mk_fstate { fs_filters : pydict; fs_active : option key }.

Definition set_filters (s : fstate) (d : pydict) : fstate :=
  mk_fstate d (fs_active s).
Definition set_active (s : fstate) (a : option key) : fstate :=
  mk_fstate (fs_filters s) a.

(* exceptions raised by filter.py, with  exc.args[0]  *)
Inductive exn :=
| KeyError (arg : option key)
| ValueError (arg : option key).

(* values returned by the methods *)
Inductive pyval :=
| VNone
| VBytes (b : bytes)
| VAll (active : option key) (names : list key).   (* get_all's tuple *)

Inductive outcome :=
| Ret (s : fstate) (v : pyval)
| Raise (s : fstate) (e : exn).
