(* Sieve/Sieve.v — ManageSieve: FilterState.run (pymap/sieve/manage/state.py),
   the per-connection dispatch of ManageSieveConnection.run
   (pymap/sieve/manage/__init__.py) and a world of several connections over the
   per-user script stores of the dict backend (config.set_cache: one FilterSet
   per user name, created empty at the first login).
   External to the model (section variables, never axioms):
     compiles  — does SieveCompiler.compile accept these bytes (CHECKSCRIPT);
     sasl      — outcome of one AUTHENTICATE exchange (mechanism name, initial
                 response, the lines the client sends to the challenges).
   Definitions only. *)
From PV Require Import Base.Prelude Sieve.PyDict Sieve.FilterSet Sieve.SieveWire.

Definition user := bytes.

(* ---------------------------------------------------------------- responses *)
Inductive cond := OK | NO | BYE.

Inductive rcode :=
| RcNone
| RcNonexistent | RcActive | RcAlreadyExists | RcQuota
| RcTag (t : bytes)                   (* NOOP's  (TAG "...")  *)
| RcSasl (final : bytes)              (* (SASL "...") after AUTHENTICATE *)
| RcOther (raw : bytes).              (* never produced by the model *)

Inductive rtext :=
| TxNone
| TxBadCommand       (* "Bad command."   : a command not allowed in this state *)
| TxParse            (* "Bad command: …" : the command buffer did not parse *)
| TxServerError      (* "Server error."  : an exception escaped the handler *)
| TxAuth             (* no such mechanism / authentication failed / cancelled / broke *)
| TxCompile          (* CHECKSCRIPT: the compiler's message *)
| TxNotSupported     (* "Action not supported." : the store raised NotImplementedError *)
| TxOther.           (* never produced by the model *)

(* what CAPABILITY / the greeting shows that depends on the state *)
Record caps := mk_caps {
  cap_sasl : option bool;      (* "SASL" line present (unauthenticated only); true = mechanisms listed *)
  cap_starttls : bool;
  cap_owner : option user }.

Inductive payload :=
| PNone
| PScript (data : bytes)                    (* GETSCRIPT literal *)
| PList (names : list (key * bool))         (* LISTSCRIPTS lines, in order, with ACTIVE mark *)
| PCaps (c : caps)
| PTlsCaps (c : caps).                      (* STARTTLS: OK, handshake, capabilities, OK *)

Record resp := mk_resp { r_cond : cond; r_code : rcode; r_text : rtext; r_payload : payload }.

Definition r_ok : resp := mk_resp OK RcNone TxNone PNone.
Definition r_no (c : rcode) (t : rtext) : resp := mk_resp NO c t PNone.
Definition r_bad_command : resp := r_no RcNone TxBadCommand.
Definition r_server_error : resp := r_no RcNone TxServerError.

(* ------------------------------------------------------------ configuration *)
Record config := mk_config {
  cfg_max_len : option N;        (* config.max_filter_len *)
  cfg_tls : bool }.              (* STARTTLS offered; no SASL mechanism before it *)

Inductive auth_outcome :=
| AuthOk (u : user) (final : option bytes)
| AuthFail           (* NO with the mechanism's / login's message, or "Server error." *)
.

Section StoreMachine.
Variable cfg : config.
Variable compiles : bytes -> bool.

(* ------------------------------------------------- FilterState (state.py) *)
Definition fits (n : N) : bool :=
  match cfg_max_len cfg with None => true | Some m => (n <=? m)%N end.

(* ListScriptsResponse.write:  if self.active and name == self.active *)
Definition active_mark (active : option key) (name : key) : bool :=
  match active with
  | Some a => negb (bytes_eqb a []) && bytes_eqb name a
  | None => false
  end.

Definition fstate_run (s : fstate) (c : cmd) : resp * fstate :=
  match c with
  | CHaveSpace _ size =>
    if fits size then (r_ok, s) else (r_no RcQuota TxNone, s)
  | CPutScript name data =>
    if fits (N.of_nat (length data)) then
      match fs_put s name data with
      | Ret s' _ => (r_ok, s')
      | Raise s' _ => (r_server_error, s')
      end
    else (r_no RcQuota TxNone, s)
  | CListScripts =>
    match fs_get_all s with
    | Ret s' (VAll active names) =>
      (mk_resp OK RcNone TxNone (PList (map (fun n => (n, active_mark active n)) names)), s')
    | Ret s' _ => (r_server_error, s')
    | Raise s' _ => (r_server_error, s')
    end
  | CSetActive None =>
    match fs_clear_active s with
    | Ret s' _ => (r_ok, s')
    | Raise s' _ => (r_server_error, s')
    end
  | CSetActive (Some name) =>
    match fs_set_active s name with
    | Ret s' _ => (r_ok, s')
    | Raise s' (KeyError _) => (r_no RcNonexistent TxNone, s')
    | Raise s' _ => (r_server_error, s')
    end
  | CGetScript name =>
    match fs_get s name with
    | Ret s' (VBytes data) => (mk_resp OK RcNone TxNone (PScript data), s')
    | Ret s' _ => (r_server_error, s')
    | Raise s' (KeyError _) => (r_no RcNonexistent TxNone, s')
    | Raise s' _ => (r_server_error, s')
    end
  | CDeleteScript name =>
    match fs_delete s name with
    | Ret s' _ => (r_ok, s')
    | Raise s' (KeyError _) => (r_no RcNonexistent TxNone, s')
    | Raise s' (ValueError _) => (r_no RcActive TxNone, s')
    end
  | CRenameScript old new =>
    match fs_rename s old new with
    | Ret s' _ => (r_ok, s')
    | Raise s' (KeyError a) =>
      (* exc.args == (old,) is tested first: renaming a script to itself
         reports NONEXISTENT although the script exists *)
      if optkey_eqb a (Some old) then (r_no RcNonexistent TxNone, s')
      else if optkey_eqb a (Some new) then (r_no RcAlreadyExists TxNone, s')
      else (r_no RcNone TxNone, s')
    | Raise s' _ => (r_server_error, s')
    end
  | CCheckScript data =>
    if compiles data then (r_ok, s) else (r_no RcNone TxCompile, s)
  | _ => (r_bad_command, s)
  end.

(* ---------------------------------- the maildir backend's store (one script) *)
(* pymap/backend/maildir FilterSet = pymap.filter.SingleFilterSet over the file
   <user dir>/dovecot.sieve: the state is the file's content, [None] when the
   file does not exist ([Some []] is an existing empty script).  The only
   name is "active" and a stored script is always the active one.
   FilterState.run over SingleFilterSet:
     put       other names raise NotImplementedError (fix: they used to be
               dropped with OK);
     delete    "active" unlinks the file (also when there is none), others KeyError;
     rename, clear_active  NotImplementedError;
     set_active  "active" -> nothing to do (also when there is no script);
     get       "active" and the file exists, else KeyError;
     get_all   ("active", ["active"]) when the file exists, else (None, []). *)
Definition mstate := option bytes.
Definition m_init : mstate := None.
Definition kw_active : key := [97;99;116;105;118;101]%N.
Definition r_not_supported : resp := r_no RcNone TxNotSupported.

Definition mstate_run (s : mstate) (c : cmd) : resp * mstate :=
  match c with
  | CHaveSpace _ size =>
    if fits size then (r_ok, s) else (r_no RcQuota TxNone, s)
  | CPutScript name data =>
    if fits (N.of_nat (length data)) then
      if bytes_eqb name kw_active then (r_ok, Some data) else (r_not_supported, s)
    else (r_no RcQuota TxNone, s)
  | CListScripts =>
    (mk_resp OK RcNone TxNone
       (PList (match s with Some _ => [(kw_active, true)] | None => [] end)), s)
  | CSetActive None => (r_not_supported, s)
  | CSetActive (Some name) =>
    if bytes_eqb name kw_active then (r_ok, s) else (r_no RcNonexistent TxNone, s)
  | CGetScript name =>
    if bytes_eqb name kw_active then
      match s with
      | Some data => (mk_resp OK RcNone TxNone (PScript data), s)
      | None => (r_no RcNonexistent TxNone, s)
      end
    else (r_no RcNonexistent TxNone, s)
  | CDeleteScript name =>
    if bytes_eqb name kw_active then (r_ok, None) else (r_no RcNonexistent TxNone, s)
  | CRenameScript _ _ => (r_not_supported, s)
  | CCheckScript data =>
    if compiles data then (r_ok, s) else (r_no RcNone TxCompile, s)
  | _ => (r_bad_command, s)
  end.

End StoreMachine.

(* ------------------------------------------------------------- connections *)
(* The connection layer is written over an arbitrary store machine
   (St, srun, sinit) so that the same definitions give the implementation
   ([fstate], [fstate_run], [fs_init]) and the specification
   ([sspec], [spec_run], [spec_init]) their multi-connection semantics. *)
Record conn := mk_conn {
  c_auth : option user;       (* _state is None  <->  None *)
  c_offer_tls : bool;         (* _offer_starttls *)
  c_closed : bool }.          (* after BYE *)

Fixpoint set_nth {A} (l : list A) (k : nat) (x : A) : list A :=
  match l, k with
  | [], _ => []
  | _ :: r, O => x :: r
  | y :: r, S k' => y :: set_nth r k' x
  end.

Section Model.
Variable cfg : config.
Variable sasl : bytes -> option bytes -> list bytes -> auth_outcome.
Variable St : Type.
Variable srun : St -> cmd -> resp * St.
Variable sinit : St.

Definition conn_init : conn := mk_conn None (cfg_tls cfg) false.

(* no mechanism is available while STARTTLS is still on offer *)
Definition mechs_available (c : conn) : bool := negb (c_offer_tls c).

Definition conn_caps (c : conn) : caps :=
  match c_auth c with
  | None => mk_caps (Some (mechs_available c)) (c_offer_tls c) None
  | Some u => mk_caps None false (Some u)
  end.

Definition caps_resp (c : conn) : resp := mk_resp OK RcNone TxNone (PCaps (conn_caps c)).

(* the per-user stores; a user without an entry has the empty store *)
Definition stores := list (user * St).

Fixpoint get_store (st : stores) (u : user) : St :=
  match st with
  | [] => sinit
  | (u', s) :: r => if bytes_eqb u' u then s else get_store r u
  end.

Fixpoint set_store (st : stores) (u : user) (s : St) : stores :=
  match st with
  | [] => [(u, s)]
  | (u', s') :: r => if bytes_eqb u' u then (u', s) :: r else (u', s') :: set_store r u s
  end.

(* what one connection reads: a command buffer that parsed, or one that did
   not; [conts] are the following lines, which only an AUTHENTICATE exchange
   consumes *)
Inductive input :=
| InCmd (c : cmd) (conts : list bytes)
| InBad.

Definition input_of_bytes (buf : bytes) (conts : list bytes) : input :=
  match parse_command buf with
  | Ok c => InCmd c conts
  | _ => InBad
  end.

(* ManageSieveConnection.run, one iteration, on an open connection *)
Definition conn_step (st : stores) (c : conn) (i : input) : resp * stores * conn :=
  match i with
  | InBad => (r_no RcNone TxParse, st, c)
  | InCmd (CNoop tag) _ =>
    (mk_resp OK (match tag with Some t => RcTag t | None => RcNone end) TxNone PNone, st, c)
  | InCmd CLogout _ =>
    (mk_resp BYE RcNone TxNone PNone, st, mk_conn (c_auth c) (c_offer_tls c) true)
  | InCmd CCapability _ => (caps_resp c, st, c)
  | InCmd k conts =>
    match c_auth c with
    | None =>
      match k with
      | CAuthenticate mech initial =>
        if mechs_available c then
          match sasl mech initial conts with
          | AuthOk u final =>
            (mk_resp OK (match final with Some f => RcSasl f | None => RcNone end) TxNone PNone,
             st, mk_conn (Some u) (c_offer_tls c) false)
          | AuthFail => (r_no RcNone TxAuth, st, c)
          end
        else (r_no RcNone TxAuth, st, c)
      | CStartTLS =>
        if c_offer_tls c then
          let c' := mk_conn None false false in
          (mk_resp OK RcNone TxNone (PTlsCaps (conn_caps c')), st, c')
        else (r_bad_command, st, c)
      | _ => (r_bad_command, st, c)
      end
    | Some u =>
      match k with
      | CUnauthenticate => (r_ok, st, mk_conn None (c_offer_tls c) false)
      | _ =>
        let '(r, s') := srun (get_store st u) k in
        (r, set_store st u s', c)
      end
    end
  end.

(* ------------------------------------------------------------------ worlds *)
Record world := mk_world { w_stores : stores; w_conns : list conn }.

(* an event: connection number [k] receives input [i].  On a closed or
   non-existent connection nothing happens and nothing is answered. *)
Definition step (w : world) (ev : nat * input) : option resp * world :=
  let '(k, i) := ev in
  match nth_error (w_conns w) k with
  | Some c =>
    if c_closed c then (None, w)
    else
      let '(r, st', c') := conn_step (w_stores w) c i in
      (Some r, mk_world st' (set_nth (w_conns w) k c'))
  | None => (None, w)
  end.

Fixpoint run (w : world) (evs : list (nat * input)) : list (option resp) * world :=
  match evs with
  | [] => ([], w)
  | ev :: r =>
    let '(o, w1) := step w ev in
    let '(os, w2) := run w1 r in
    (o :: os, w2)
  end.

(* the transitions of a run: (world before, event, answer, world after) *)
Definition trans := (world * (nat * input) * option resp * world)%type.

Fixpoint run_tr (w : world) (evs : list (nat * input)) : list trans :=
  match evs with
  | [] => []
  | ev :: r => let '(o, w1) := step w ev in (w, ev, o, w1) :: run_tr w1 r
  end.

(* the open connection that acts in a transition, if any *)
Definition actor (w : world) (k : nat) : option conn :=
  match nth_error (w_conns w) k with
  | Some c => if c_closed c then None else Some c
  | None => None
  end.

End Model.

(* the script commands of the property statement *)
Definition is_script_cmd (c : cmd) : bool :=
  match c with
  | CHaveSpace _ _ | CPutScript _ _ | CListScripts | CSetActive _ | CGetScript _
  | CDeleteScript _ | CRenameScript _ _ | CCheckScript _ => true
  | _ => false
  end.

(* the commands that may act before authentication *)
Definition acts_unauthenticated (i : input) : bool :=
  match i with
  | InCmd (CNoop _) _ | InCmd CLogout _ | InCmd CCapability _
  | InCmd CStartTLS _ | InCmd (CAuthenticate _ _) _ => true
  | _ => false
  end.

(* ------------------------------------------------------------ specification *)
(* The script store the property statement describes: a finite map from names
   to bytes with at most one active name.  Operations are written in the most
   direct way (new bindings are put in front after removing the old one; no
   notion of order is intended — responses are compared up to permutation of
   the LISTSCRIPTS lines). *)
Definition sspec := (list (key * bytes) * option key)%type.
Definition spec_init : sspec := ([], None).

Definition remove_key (k : key) (m : list (key * bytes)) : list (key * bytes) :=
  filter (fun p => negb (bytes_eqb (fst p) k)) m.

Section Spec.
Variable cfg : config.
Variable compiles : bytes -> bool.

Definition spec_run (sp : sspec) (c : cmd) : resp * sspec :=
  let '(m, a) := sp in
  match c with
  | CHaveSpace _ size => if fits cfg size then (r_ok, sp) else (r_no RcQuota TxNone, sp)
  | CPutScript n v =>
    if fits cfg (N.of_nat (length v)) then (r_ok, ((n, v) :: remove_key n m, a))
    else (r_no RcQuota TxNone, sp)
  | CListScripts =>
    (mk_resp OK RcNone TxNone
       (PList (map (fun p => (fst p, optkey_eqb (Some (fst p)) a)) m)), sp)
  | CSetActive None => (r_ok, (m, None))
  | CSetActive (Some n) =>
    match dict_get m n with
    | Some _ => (r_ok, (m, Some n))
    | None => (r_no RcNonexistent TxNone, sp)
    end
  | CGetScript n =>
    match dict_get m n with
    | Some v => (mk_resp OK RcNone TxNone (PScript v), sp)
    | None => (r_no RcNonexistent TxNone, sp)
    end
  | CDeleteScript n =>
    match dict_get m n with
    | None => (r_no RcNonexistent TxNone, sp)
    | Some _ =>
      if optkey_eqb a (Some n) then (r_no RcActive TxNone, sp)
      else (r_ok, (remove_key n m, a))
    end
  | CRenameScript o n =>
    match dict_get m o with
    | None => (r_no RcNonexistent TxNone, sp)
    | Some v =>
      match dict_get m n with
      | Some _ =>
        (* the implementation's choice of code when old = new is part of the
           specification of the *current* tree; either way nothing changes *)
        (r_no (if bytes_eqb o n then RcNonexistent else RcAlreadyExists) TxNone, sp)
      | None =>
        (r_ok, ((n, v) :: remove_key o m,
                if optkey_eqb a (Some o) then Some n else a))
      end
    end
  | CCheckScript d => if compiles d then (r_ok, sp) else (r_no RcNone TxCompile, sp)
  | _ => (r_bad_command, sp)
  end.
(* The same map restricted to what a one-script store offers: the only name
   that can be bound is "active", a bound script is the active one, and
   renaming / deactivating are not offered.  (Deleting the script — which is
   the active one — is possible: see the refuted clause in Props/C19.v.) *)
Definition spec1_run (sp : sspec) (c : cmd) : resp * sspec :=
  let '(m, a) := sp in
  match c with
  | CPutScript n v =>
    if fits cfg (N.of_nat (length v)) then
      if bytes_eqb n kw_active then (r_ok, ((n, v) :: remove_key n m, Some n))
      else (r_not_supported, sp)
    else (r_no RcQuota TxNone, sp)
  | CSetActive None => (r_not_supported, sp)
  | CSetActive (Some n) =>
    if bytes_eqb n kw_active then (r_ok, sp) else (r_no RcNonexistent TxNone, sp)
  | CDeleteScript n =>
    if bytes_eqb n kw_active then (r_ok, (remove_key n m, None))
    else (r_no RcNonexistent TxNone, sp)
  | CRenameScript _ _ => (r_not_supported, sp)
  | _ => spec_run sp c       (* HAVESPACE, LISTSCRIPTS, GETSCRIPT, CHECKSCRIPT: as the map *)
  end.
End Spec.

(* well-formed commands: script names are never empty (what the parser
   guarantees, see SieveProofs.parse_command_wf) *)
Definition nonempty (k : key) : bool := match k with [] => false | _ => true end.
Definition cmd_wf (c : cmd) : bool :=
  match c with
  | CHaveSpace n _ | CPutScript n _ | CGetScript n | CDeleteScript n => nonempty n
  | CSetActive (Some n) => nonempty n
  | CRenameScript o n => nonempty o && nonempty n
  | _ => true
  end.
Definition input_wf (i : input) : bool :=
  match i with InCmd c _ => cmd_wf c | InBad => true end.
