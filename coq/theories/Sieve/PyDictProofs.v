(* Sieve/PyDictProofs.v — laws of the insertion-ordered dictionary of
   Sieve/PyDict.v (lookup after set/del, key list, NoDup preservation). *)
From PV Require Import Base.Prelude Sieve.PyDict.

Lemma bytes_eqb_refl a : bytes_eqb a a = true.
Proof. apply bytes_eqb_eq. reflexivity. Qed.

Lemma bytes_eqb_neq a b : a <> b -> bytes_eqb a b = false.
Proof.
  intro H. destruct (bytes_eqb a b) eqn:E; [|reflexivity].
  apply bytes_eqb_eq in E. contradiction.
Qed.

Lemma bytes_eqb_false a b : bytes_eqb a b = false -> a <> b.
Proof. intros E ->. rewrite bytes_eqb_refl in E. discriminate. Qed.

Lemma bytes_eqb_sym a b : bytes_eqb a b = bytes_eqb b a.
Proof.
  destruct (bytes_eqb a b) eqn:E.
  - apply bytes_eqb_eq in E. subst. symmetry. apply bytes_eqb_refl.
  - symmetry. apply bytes_eqb_neq. intros ->. rewrite bytes_eqb_refl in E. discriminate.
Qed.

Lemma bytes_eq_dec (a b : bytes) : {a = b} + {a <> b}.
Proof.
  destruct (bytes_eqb a b) eqn:E.
  - left. apply bytes_eqb_eq. exact E.
  - right. apply bytes_eqb_false. exact E.
Qed.

Lemma dict_get_set_same d k v : dict_get (dict_set d k v) k = Some v.
Proof.
  induction d as [|[k' v'] r IH]; cbn [dict_set dict_get].
  - rewrite bytes_eqb_refl. reflexivity.
  - destruct (bytes_eqb k' k) eqn:E; cbn [dict_get]; rewrite E; [reflexivity|exact IH].
Qed.

Lemma dict_get_set_other d k v k2 : k <> k2 ->
  dict_get (dict_set d k v) k2 = dict_get d k2.
Proof.
  intro N. induction d as [|[k' v'] r IH]; cbn [dict_set dict_get].
  - rewrite (bytes_eqb_neq _ _ N). reflexivity.
  - destruct (bytes_eqb k' k) eqn:E; cbn [dict_get].
    + apply bytes_eqb_eq in E. subst k'. rewrite (bytes_eqb_neq _ _ N). reflexivity.
    + destruct (bytes_eqb k' k2); [reflexivity|exact IH].
Qed.

Lemma dict_in_set d k v k2 :
  dict_in (dict_set d k v) k2 = bytes_eqb k k2 || dict_in d k2.
Proof.
  unfold dict_in. destruct (bytes_eqb k k2) eqn:E.
  - apply bytes_eqb_eq in E. subst. rewrite dict_get_set_same. reflexivity.
  - rewrite dict_get_set_other by (apply bytes_eqb_false; exact E). reflexivity.
Qed.

Lemma dict_get_del_other d k k2 : k <> k2 ->
  dict_get (dict_del d k) k2 = dict_get d k2.
Proof.
  intro N. induction d as [|[k' v'] r IH]; cbn [dict_del dict_get]; [reflexivity|].
  destruct (bytes_eqb k' k) eqn:E; cbn [dict_get].
  - apply bytes_eqb_eq in E. subst k'. rewrite (bytes_eqb_neq _ _ N). reflexivity.
  - destruct (bytes_eqb k' k2); [reflexivity|exact IH].
Qed.

Lemma dict_get_none_notin d k : dict_get d k = None <-> ~ In k (dict_keys d).
Proof.
  induction d as [|[k' v'] r IH]; cbn [dict_get dict_keys map fst In].
  - split; [intros _ []|reflexivity].
  - destruct (bytes_eqb k' k) eqn:E.
    + apply bytes_eqb_eq in E. subst. split; [discriminate|]. intro H. exfalso. apply H. left. reflexivity.
    + apply bytes_eqb_false in E. rewrite IH. unfold dict_keys. tauto.
Qed.

Lemma dict_in_iff d k : dict_in d k = true <-> In k (dict_keys d).
Proof.
  unfold dict_in. destruct (dict_get d k) eqn:E.
  - split; [intros _|reflexivity].
    destruct (in_dec bytes_eq_dec k (dict_keys d)) as [H|H]; [exact H|].
    apply dict_get_none_notin in H. congruence.
  - split; [discriminate|]. intro H. apply dict_get_none_notin in E. contradiction.
Qed.

Lemma dict_get_del_same d k : NoDup (dict_keys d) -> dict_get (dict_del d k) k = None.
Proof.
  induction d as [|[k' v'] r IH]; cbn [dict_del dict_get dict_keys map fst]; intro ND;
    [reflexivity|].
  inversion ND as [|? ? Hn ND']; subst.
  destruct (bytes_eqb k' k) eqn:E.
  - apply bytes_eqb_eq in E. subst. apply dict_get_none_notin. exact Hn.
  - cbn [dict_get]. rewrite E. apply IH. exact ND'.
Qed.

Lemma dict_keys_set_in d k v : dict_in d k = true -> dict_keys (dict_set d k v) = dict_keys d.
Proof.
  unfold dict_in. induction d as [|[k' v'] r IH]; cbn [dict_get dict_set dict_keys map fst];
    [discriminate|].
  destruct (bytes_eqb k' k) eqn:E; cbn [map fst]; [reflexivity|].
  intro H. f_equal. apply IH. exact H.
Qed.

Lemma dict_keys_set_notin d k v : dict_in d k = false ->
  dict_keys (dict_set d k v) = dict_keys d ++ [k].
Proof.
  unfold dict_in. induction d as [|[k' v'] r IH]; cbn [dict_get dict_set dict_keys map fst app];
    [reflexivity|].
  destruct (bytes_eqb k' k) eqn:E; cbn [map fst]; [discriminate|].
  intro H. f_equal. apply IH. exact H.
Qed.

Lemma dict_keys_del_incl d k x : In x (dict_keys (dict_del d k)) -> In x (dict_keys d).
Proof.
  induction d as [|[k' v'] r IH]; cbn [dict_del dict_keys map fst In]; [tauto|].
  destruct (bytes_eqb k' k); cbn [map fst In]; [tauto|].
  intros [H|H]; [left; exact H|right; apply IH; exact H].
Qed.

Lemma nodup_set d k v : NoDup (dict_keys d) -> NoDup (dict_keys (dict_set d k v)).
Proof.
  intro ND. destruct (dict_in d k) eqn:E.
  - rewrite dict_keys_set_in by exact E. exact ND.
  - rewrite dict_keys_set_notin by exact E.
    assert (Hn : ~ In k (dict_keys d)).
    { intro H. apply dict_in_iff in H. congruence. }
    clear E. induction (dict_keys d) as [|x xs IH]; cbn [app].
    + constructor; [intros []|constructor].
    + inversion ND; subst. constructor.
      * rewrite in_app_iff. cbn [In]. intros [H|[H|[]]]; [contradiction|].
        apply Hn. left. symmetry. exact H.
      * apply IH; [assumption|]. intro H. apply Hn. right. exact H.
Qed.

Lemma nodup_del d k : NoDup (dict_keys d) -> NoDup (dict_keys (dict_del d k)).
Proof.
  induction d as [|[k' v'] r IH]; cbn [dict_del dict_keys map fst]; intro ND; [exact ND|].
  inversion ND as [|? ? Hn ND']; subst.
  destruct (bytes_eqb k' k); [exact ND'|].
  cbn [map fst]. constructor.
  - intro H. apply Hn. eapply dict_keys_del_incl. exact H.
  - apply IH. exact ND'.
Qed.

Lemma optkey_eqb_eq a b : optkey_eqb a b = true <-> a = b.
Proof.
  destruct a as [a|], b as [b|]; cbn; try (split; congruence).
  rewrite bytes_eqb_eq. split; congruence.
Qed.

Lemma optkey_eqb_sym a b : optkey_eqb a b = optkey_eqb b a.
Proof. destruct a, b; cbn; try reflexivity. apply bytes_eqb_sym. Qed.
