(* MaildirFS/UidListProofs.v — what the backend writes into dovecot-uidlist
   and subscriptions it reads back unchanged. *)
From PV Require Import Base.Prelude Base.Decimal MaildirFS.UidList.
Local Open Scope N_scope.

(* ------------------------------------------------------------ characters *)
Definition no_crlf (l : bytes) : Prop := forall c, In c l -> c <> 13 /\ c <> 10.
Definition no_space (l : bytes) : Prop := forall c, In c l -> is_space c = false.

Lemma name_char_range c : name_char c = true -> 33 <= c <= 126.
Proof. unfold name_char. intro H. apply andb_true_iff in H as [H1 H2].
  apply N.leb_le in H1. apply N.leb_le in H2. lia. Qed.

Lemma name_char_not_space c : name_char c = true -> is_space c = false.
Proof. intro H. apply name_char_range in H. unfold is_space.
  destruct (9 <=? c) eqn:A, (c <=? 13) eqn:B, (28 <=? c) eqn:C, (c <=? 32) eqn:D;
    cbn; try reflexivity;
    repeat match goal with
           | H : (_ <=? _) = true |- _ => apply N.leb_le in H
           | H : (_ <=? _) = false |- _ => apply N.leb_gt in H
           end; lia. Qed.

Lemma is_digit_name_char c : is_digit c = true -> name_char c = true.
Proof. intro H. apply is_digit_cases in H. unfold name_char.
  apply andb_true_iff. split; apply N.leb_le; lia. Qed.

Lemma forallb_In {A} (f : A -> bool) l : forallb f l = true -> forall x, In x l -> f x = true.
Proof. intro H. apply forallb_forall. exact H. Qed.

Lemma names_no_crlf l : forallb name_char l = true -> no_crlf l.
Proof. intros H c Hc. apply (forallb_In _ _ H) in Hc. apply name_char_range in Hc. lia. Qed.

Lemma names_no_space l : forallb name_char l = true -> no_space l.
Proof. intros H c Hc. apply name_char_not_space. exact (forallb_In _ _ H c Hc). Qed.

Lemma dec_name_chars n : forallb name_char (dec_of_N n) = true.
Proof. apply forallb_forall. intros c Hc. apply is_digit_name_char.
  exact (forallb_In _ _ (dec_of_N_digits n) c Hc). Qed.

Lemma no_crlf_app a b : no_crlf a -> no_crlf b -> no_crlf (a ++ b).
Proof. intros Ha Hb c Hc. apply in_app_or in Hc as [Hc|Hc]; auto. Qed.
Lemma no_space_app a b : no_space a -> no_space b -> no_space (a ++ b).
Proof. intros Ha Hb c Hc. apply in_app_or in Hc as [Hc|Hc]; auto. Qed.
Lemma no_crlf_cons c l : c <> 13 -> c <> 10 -> no_crlf l -> no_crlf (c :: l).
Proof. intros H1 H2 Hl d [<-|Hd]; auto. Qed.
Lemma no_crlf_nil : no_crlf []. Proof. intros c []. Qed.

(* --------------------------------------------------- newlines and lines *)
Lemma unl_line l rest : no_crlf l -> unl (l ++ 13 :: 10 :: rest) = l ++ 10 :: unl rest.
Proof.
  induction l as [|c l IH]; intro H.
  - reflexivity.
  - cbn [app unl]. destruct (H c (or_introl eq_refl)) as [H13 _].
    destruct (N.eqb_spec c 13) as [E|_]; [contradiction|].
    rewrite IH; [reflexivity|]. intros d Hd. apply H. right. exact Hd.
Qed.

Lemma lines_acc_line cur l rest : no_crlf l ->
  lines_acc cur (l ++ 10 :: rest) = (rev cur ++ l ++ [10]) :: lines_acc [] rest.
Proof.
  revert cur. induction l as [|c l IH]; intros cur H.
  - cbn [app lines_acc]. rewrite N.eqb_refl. cbn [rev]. reflexivity.
  - cbn [app lines_acc]. destruct (H c (or_introl eq_refl)) as [_ H10].
    destruct (N.eqb_spec c 10) as [E|_]; [contradiction|].
    rewrite IH by (intros d Hd; apply H; right; exact Hd).
    cbn [rev]. rewrite <- app_assoc. reflexivity.
Qed.

Lemma lines_unl_flat {A} (pr : A -> bytes) (xs : list A) :
  (forall x, In x xs -> no_crlf (pr x)) ->
  lines_acc [] (unl (flat_map (fun x => pr x ++ [13; 10]) xs))
  = map (fun x => pr x ++ [10]) xs.
Proof.
  induction xs as [|x xs IH]; intro H.
  - reflexivity.
  - cbn [flat_map map]. rewrite <- app_assoc. cbn [app].
    rewrite unl_line by (apply H; left; reflexivity).
    rewrite lines_acc_line by (apply H; left; reflexivity).
    cbn [rev app]. f_equal. apply IH. intros y Hy. apply H. right. exact Hy.
Qed.

(* ------------------------------------------------------------- words *)
Lemma words_acc_word cur w c rest : no_space w -> is_space c = true ->
  rev cur ++ w <> [] ->
  words_acc cur (w ++ c :: rest) = (rev cur ++ w) :: words_acc [] rest.
Proof.
  revert cur. induction w as [|d w IH]; intros cur Hw Hc Hne.
  - cbn [app words_acc]. rewrite Hc. rewrite app_nil_r in *.
    destruct cur; [cbn in Hne; congruence|reflexivity].
  - cbn [app words_acc]. rewrite (Hw d (or_introl eq_refl)).
    rewrite IH.
    + cbn [rev]. rewrite <- app_assoc. reflexivity.
    + intros e He. apply Hw. right. exact He.
    + exact Hc.
    + cbn [rev]. rewrite <- app_assoc. cbn. destruct (rev cur); discriminate.
Qed.

(* ------------------------------------------------------------- numbers *)
Lemma py_int_dec n : py_int (dec_of_N n) = Some n.
Proof. unfold py_int. rewrite <- (app_nil_r (dec_of_N n)).
  rewrite parse_number_print by reflexivity. reflexivity. Qed.

(* ------------------------------------------------------------- header *)
Lemma parse_header_print u :
  forallb name_char (u_guid u) = true ->
  parse_header (firstn (length (print_header u) - 2) (print_header u) ++ [10])
  = Ok (u_val u, u_next u, u_guid u).
Proof.
  intro Hg. unfold print_header.
  set (V := dec_of_N (u_val u)). set (Nx := dec_of_N (u_next u)). set (G := u_guid u).
  assert (E : firstn (length ([51; 32; 86] ++ V ++ [32; 78] ++ Nx ++ [32; 71] ++ G ++ [13; 10]) - 2)
                     ([51; 32; 86] ++ V ++ [32; 78] ++ Nx ++ [32; 71] ++ G ++ [13; 10])
              = [51; 32; 86] ++ V ++ [32; 78] ++ Nx ++ [32; 71] ++ G).
  { replace ([51; 32; 86] ++ V ++ [32; 78] ++ Nx ++ [32; 71] ++ G ++ [13; 10])
      with (([51; 32; 86] ++ V ++ [32; 78] ++ Nx ++ [32; 71] ++ G) ++ [13; 10])
      by (repeat rewrite <- app_assoc; reflexivity).
    rewrite app_length. cbn [length]. rewrite Nat.add_sub.
    rewrite firstn_app, firstn_all, Nat.sub_diag. cbn [firstn]. apply app_nil_r. }
  rewrite E. clear E. unfold parse_header.
  assert (W : words (([51; 32; 86] ++ V ++ [32; 78] ++ Nx ++ [32; 71] ++ G) ++ [10])
              = [[51]; 86 :: V; 78 :: Nx; 71 :: G]).
  { unfold words.
    assert (HV : no_space (86 :: V)).
    { intros c [<-|Hc]; [reflexivity|apply (names_no_space _ (dec_name_chars (u_val u))); exact Hc]. }
    assert (HN : no_space (78 :: Nx)).
    { intros c [<-|Hc]; [reflexivity|apply (names_no_space _ (dec_name_chars (u_next u))); exact Hc]. }
    assert (HG : no_space (71 :: G)).
    { intros c [<-|Hc]; [reflexivity|apply (names_no_space _ Hg); exact Hc]. }
    assert (H3 : no_space [51]) by (intros c [<-|[]]; reflexivity).
    pose proof (words_acc_word [] [51] 32
                  ((86 :: V) ++ 32 :: ((78 :: Nx) ++ 32 :: ((71 :: G) ++ 10 :: [])))
                  H3 eq_refl) as W1.
    pose proof (words_acc_word [] (86 :: V) 32 ((78 :: Nx) ++ 32 :: ((71 :: G) ++ 10 :: []))
                  HV eq_refl) as W2.
    pose proof (words_acc_word [] (78 :: Nx) 32 ((71 :: G) ++ 10 :: []) HN eq_refl) as W3.
    pose proof (words_acc_word [] (71 :: G) 10 [] HG eq_refl) as W4.
    cbn [rev app] in W1, W2, W3, W4.
    replace (([51; 32; 86] ++ V ++ [32; 78] ++ Nx ++ [32; 71] ++ G) ++ [10])
      with (51 :: 32 :: 86 :: V ++ 32 :: 78 :: Nx ++ 32 :: 71 :: G ++ [10])
      by (repeat first [rewrite <- app_assoc | progress cbn [app]]; reflexivity).
    rewrite W1, W2, W3, W4 by discriminate. reflexivity. }
  rewrite W. cbn [bytes_eqb eqb_list N.eqb Pos.eqb andb].
  cbn [header_fields N.eqb Pos.eqb]. unfold V, Nx. rewrite !py_int_dec.
  cbn [header_fields N.eqb Pos.eqb]. reflexivity.
Qed.

(* ------------------------------------------------------------- records *)
Lemma split_colon_first a rest : (forall c, In c a -> c <> 58) ->
  split_colon (a ++ 58 :: rest) = Some (a, rest).
Proof.
  induction a as [|c a IH]; intro H.
  - reflexivity.
  - cbn [app split_colon]. destruct (N.eqb_spec c 58) as [E|_].
    + exfalso. exact (H c (or_introl eq_refl) E).
    + rewrite IH by (intros d Hd; apply H; right; exact Hd). reflexivity.
Qed.

Lemma split_sp_acc_word cur w rest : (forall c, In c w -> c <> 32) ->
  split_sp_acc cur (w ++ 32 :: rest) = (rev cur ++ w) :: split_sp_acc [] rest.
Proof.
  revert cur. induction w as [|c w IH]; intros cur H.
  - cbn. rewrite app_nil_r. reflexivity.
  - cbn [app split_sp_acc]. destruct (N.eqb_spec c 32) as [E|_].
    + exfalso. exact (H c (or_introl eq_refl) E).
    + rewrite IH by (intros d Hd; apply H; right; exact Hd).
      cbn [rev]. rewrite <- app_assoc. reflexivity.
Qed.

Lemma value_char_props c : value_char c = true -> c <> 32 /\ c <> 58 /\ name_char c = true.
Proof. unfold value_char. intro H. apply andb_true_iff in H as [H1 H2].
  pose proof (name_char_range c H1). apply negb_true_iff in H2. apply N.eqb_neq in H2.
  repeat split; try lia; assumption. Qed.

(* the text of the fields, split at the spaces again *)
Lemma split_fields w fs_ tail :
  (forall c, In c w -> c <> 32) ->
  forallb wf_field fs_ = true ->
  split_sp_acc [] (w ++ flat_map print_field fs_ ++ 32 :: tail)
  = w :: map (fun f => fst f :: snd f) fs_ ++ split_sp_acc [] tail.
Proof.
  revert w. induction fs_ as [|f fs_ IH]; intros w Hw H.
  - cbn [flat_map app map]. rewrite split_sp_acc_word by exact Hw. reflexivity.
  - cbn [forallb] in H. apply andb_true_iff in H as [Hf Hrest].
    unfold wf_field in Hf. apply andb_true_iff in Hf as [Hk Hv].
    cbn [flat_map map]. unfold print_field at 1.
    assert (E : w ++ ((32 :: fst f :: snd f) ++ flat_map print_field fs_) ++ 32 :: tail
                = w ++ 32 :: ((fst f :: snd f) ++ flat_map print_field fs_ ++ 32 :: tail))
      by (repeat first [rewrite <- app_assoc | progress cbn [app]]; reflexivity).
    rewrite E. rewrite split_sp_acc_word by exact Hw. cbn [rev]. rewrite app_nil_l. f_equal.
    apply (IH (fst f :: snd f)); [|exact Hrest].
    intros c [<-|Hc]; [apply value_char_props; exact Hk|].
    apply value_char_props. exact (forallb_In _ _ Hv c Hc).
Qed.

Lemma set_field_fresh k v l : ~ In k (map fst l) -> set_field k v l = l ++ [(k, v)].
Proof.
  induction l as [|[k' v'] l IH]; intro H.
  - reflexivity.
  - cbn [set_field app]. destruct (N.eqb_spec k' k) as [E|_].
    + exfalso. apply H. left. exact E.
    + rewrite IH; [reflexivity|]. intro Hin. apply H. right. exact Hin.
Qed.

Lemma keys_sorted_head_lt f l : keys_sorted (f :: l) = true ->
  forall g, In g l -> fst f < fst g.
Proof.
  revert f. induction l as [|h l IH]; intros f H g Hg.
  - destruct Hg.
  - cbn [keys_sorted] in H. apply andb_true_iff in H as [H1 H2].
    apply N.ltb_lt in H1. destruct Hg as [<-|Hg]; [exact H1|].
    specialize (IH h H2 g Hg). lia.
Qed.

Lemma keys_sorted_tail f l : keys_sorted (f :: l) = true -> keys_sorted l = true.
Proof. cbn [keys_sorted]. intro H. apply andb_true_iff in H as [_ H]. exact H. Qed.

Lemma cols_fields_fold acc l :
  keys_sorted l = true ->
  (forall k, In k (map fst acc) -> forall g, In g l -> k < fst g) ->
  fold_left (fun a col => match col with [] => a | k :: v => set_field k v a end)
            (map (fun f => fst f :: snd f) l) acc = acc ++ l.
Proof.
  revert acc. induction l as [|f l IH]; intros acc Hs Hacc.
  - cbn. rewrite app_nil_r. reflexivity.
  - cbn [map fold_left]. rewrite set_field_fresh.
    + rewrite IH.
      * rewrite <- app_assoc. destruct f. reflexivity.
      * exact (keys_sorted_tail _ _ Hs).
      * intros k Hk g Hg. rewrite map_app in Hk. apply in_app_or in Hk as [Hk|Hk].
        -- apply (Hacc k Hk). right. exact Hg.
        -- destruct Hk as [<-|[]]. exact (keys_sorted_head_lt _ _ Hs g Hg).
    + intro Hin. specialize (Hacc _ Hin f (or_introl eq_refl)). exact (N.lt_irrefl _ Hacc).
Qed.

Lemma insert_field_head f l : (forall g, In g l -> fst f < fst g) -> insert_field f l = f :: l.
Proof. destruct l as [|g l]; [reflexivity|]. intro H. cbn [insert_field].
  specialize (H g (or_introl eq_refl)). destruct (N.leb_spec (fst f) (fst g)); [reflexivity|lia]. Qed.

Lemma sort_sorted l : keys_sorted l = true -> sort_fields l = l.
Proof.
  induction l as [|f l IH]; intro H; [reflexivity|].
  unfold sort_fields in *. cbn [fold_right]. rewrite IH by exact (keys_sorted_tail _ _ H).
  apply insert_field_head. exact (keys_sorted_head_lt _ _ H).
Qed.

Lemma rstrip_names l : forallb name_char l = true -> rstrip (l ++ [10]) = l.
Proof.
  induction l as [|c l IH]; intro H.
  - reflexivity.
  - cbn [forallb] in H. apply andb_true_iff in H as [Hc Hl].
    cbn [app]. unfold rstrip in *. cbn [fold_right]. rewrite (IH Hl).
    destruct l; [|reflexivity]. rewrite (name_char_not_space _ Hc). reflexivity.
Qed.

Lemma parse_line_print r : wf_rec r = true ->
  parse_line (firstn (length (print_rec r) - 2) (print_rec r) ++ [10]) = Ok r.
Proof.
  intro H. unfold wf_rec in H. apply andb_true_iff in H as [H Hn].
  apply andb_true_iff in H as [Hf Hs].
  unfold print_rec. rewrite (sort_sorted _ Hs).
  set (D := dec_of_N (r_uid r)). set (F := flat_map print_field (r_fields r)).
  assert (E : firstn (length (D ++ F ++ [32; 58] ++ r_fname r ++ [13; 10]) - 2)
                     (D ++ F ++ [32; 58] ++ r_fname r ++ [13; 10])
              = D ++ F ++ [32; 58] ++ r_fname r).
  { replace (D ++ F ++ [32; 58] ++ r_fname r ++ [13; 10])
      with ((D ++ F ++ [32; 58] ++ r_fname r) ++ [13; 10])
      by (repeat rewrite <- app_assoc; reflexivity).
    rewrite app_length. cbn [length]. rewrite Nat.add_sub.
    rewrite firstn_app, firstn_all, Nat.sub_diag. cbn [firstn]. apply app_nil_r. }
  rewrite E. clear E. unfold parse_line.
  replace ((D ++ F ++ [32; 58] ++ r_fname r) ++ [10])
    with ((D ++ F ++ [32]) ++ 58 :: (r_fname r ++ [10]))
    by (repeat rewrite <- app_assoc; reflexivity).
  rewrite split_colon_first.
  2:{ intros c Hc. apply in_app_or in Hc as [Hc|Hc].
      - pose proof (forallb_In _ _ (dec_of_N_digits (r_uid r)) c Hc) as Hd.
        apply is_digit_cases in Hd. lia.
      - apply in_app_or in Hc as [Hc|[<-|[]]]; [|lia].
        unfold F in Hc. apply in_flat_map in Hc as [f [Hfin Hc]].
        pose proof (forallb_In _ _ Hf f Hfin) as Hwf. unfold wf_field in Hwf.
        apply andb_true_iff in Hwf as [Hk Hv].
        destruct Hc as [<-|[<-|Hc]]; [lia|apply value_char_props; exact Hk|].
        apply value_char_props. exact (forallb_In _ _ Hv c Hc). }
  unfold split_sp. unfold F.
  rewrite split_fields; [|intros c Hc;
    pose proof (forallb_In _ _ (dec_of_N_digits (r_uid r)) c Hc) as Hd;
    apply is_digit_cases in Hd; lia|exact Hf].
  unfold D. rewrite py_int_dec. cbn [split_sp_acc rev].
  unfold cols_fields. rewrite fold_left_app.
  rewrite (cols_fields_fold [] (r_fields r) Hs) by (intros k []).
  cbn [fold_left app]. rewrite (rstrip_names _ Hn).
  destruct r; reflexivity.
Qed.

(* --------------------------------------------------------- whole file *)
Lemma set_rec_fresh r l : existsb (fun x => r_uid x =? r_uid r) l = false ->
  set_rec r l = l ++ [r].
Proof.
  induction l as [|x l IH]; intro H; [reflexivity|].
  cbn [existsb] in H. apply orb_false_iff in H as [H1 H2].
  cbn [set_rec app]. rewrite H1, (IH H2). reflexivity.
Qed.

Lemma nodup_uids_snoc_ok acc r t :
  nodup_uids (acc ++ r :: t) = true -> existsb (fun x => r_uid x =? r_uid r) acc = false.
Proof.
  induction acc as [|a acc IH]; intro H; [reflexivity|].
  cbn [app nodup_uids] in H. apply andb_true_iff in H as [H1 H2].
  cbn [existsb]. rewrite (IH H2), orb_false_r.
  apply negb_true_iff in H1. rewrite existsb_app in H1. apply orb_false_iff in H1 as [_ H1].
  cbn [existsb] in H1. apply orb_false_iff in H1 as [H1 _].
  rewrite N.eqb_sym. exact H1.
Qed.

Lemma parse_recs_print acc recs :
  forallb wf_rec recs = true -> nodup_uids (acc ++ recs) = true ->
  parse_recs (map (fun r => firstn (length (print_rec r) - 2) (print_rec r) ++ [10]) recs) acc
  = Ok (acc ++ recs).
Proof.
  revert acc. induction recs as [|r recs IH]; intros acc Hwf Hnd.
  - cbn. rewrite app_nil_r. reflexivity.
  - cbn [forallb] in Hwf. apply andb_true_iff in Hwf as [Hr Hrest].
    cbn [map parse_recs]. rewrite (parse_line_print r Hr).
    rewrite (set_rec_fresh r acc (nodup_uids_snoc_ok _ _ _ Hnd)).
    rewrite IH; [rewrite <- app_assoc; reflexivity|exact Hrest|].
    rewrite <- app_assoc. exact Hnd.
Qed.

Lemma print_rec_shape r : exists body, print_rec r = body ++ [13; 10].
Proof. unfold print_rec. eexists. repeat rewrite app_assoc. reflexivity. Qed.

Lemma body_of_line body : firstn (length (body ++ [13; 10]) - 2) (body ++ [13; 10]) = body.
Proof. rewrite app_length. cbn [length]. rewrite Nat.add_sub.
  rewrite firstn_app, firstn_all, Nat.sub_diag. cbn [firstn]. apply app_nil_r. Qed.

Lemma print_rec_body_no_crlf r : wf_rec r = true ->
  no_crlf (firstn (length (print_rec r) - 2) (print_rec r)).
Proof.
  intro H. unfold wf_rec in H. apply andb_true_iff in H as [H Hn].
  apply andb_true_iff in H as [Hf Hs]. unfold print_rec.
  replace (dec_of_N (r_uid r) ++ flat_map print_field (sort_fields (r_fields r))
           ++ [32; 58] ++ r_fname r ++ [13; 10])
    with ((dec_of_N (r_uid r) ++ flat_map print_field (sort_fields (r_fields r))
           ++ [32; 58] ++ r_fname r) ++ [13; 10])
    by (repeat rewrite <- app_assoc; reflexivity).
  rewrite body_of_line. rewrite (sort_sorted _ Hs).
  apply no_crlf_app; [apply names_no_crlf, dec_name_chars|].
  apply no_crlf_app.
  - intros c Hc. apply in_flat_map in Hc as [f [Hfin Hc]].
    pose proof (forallb_In _ _ Hf f Hfin) as Hwf. unfold wf_field in Hwf.
    apply andb_true_iff in Hwf as [Hk Hv].
    destruct Hc as [<-|[<-|Hc]]; [lia| |].
    + apply value_char_props in Hk as [_ [_ Hk]]. apply name_char_range in Hk. lia.
    + pose proof (forallb_In _ _ Hv c Hc) as Hc'.
      apply value_char_props in Hc' as [_ [_ Hc']]. apply name_char_range in Hc'. lia.
  - apply no_crlf_cons; [lia|lia|]. apply no_crlf_cons; [lia|lia|].
    apply names_no_crlf. exact Hn.
Qed.

Lemma print_header_shape u : exists body, print_header u = body ++ [13; 10]
  /\ (forallb name_char (u_guid u) = true -> no_crlf body).
Proof.
  unfold print_header.
  exists ([51; 32; 86] ++ dec_of_N (u_val u) ++ [32; 78] ++ dec_of_N (u_next u)
          ++ [32; 71] ++ u_guid u).
  split; [repeat rewrite <- app_assoc; reflexivity|]. intro Hg.
  repeat (apply no_crlf_cons; [lia|lia|]). cbn [app].
  apply no_crlf_app; [apply names_no_crlf, dec_name_chars|].
  repeat (apply no_crlf_cons; [lia|lia|]).
  apply no_crlf_app; [apply names_no_crlf, dec_name_chars|].
  repeat (apply no_crlf_cons; [lia|lia|]). apply names_no_crlf. exact Hg.
Qed.

Theorem uidl_roundtrip u : wf_uidl u = true -> parse_uidl (print_uidl u) = Ok u.
Proof.
  intro H. unfold wf_uidl in H.
  apply andb_true_iff in H as [H Hnd]. apply andb_true_iff in H as [H Hrecs].
  apply andb_true_iff in H as [_ Hg].
  unfold parse_uidl, print_uidl, lines.
  destruct (print_header_shape u) as [hb [Eh Hh]]. specialize (Hh Hg).
  assert (ER : flat_map print_rec (u_recs u)
               = flat_map (fun r => firstn (length (print_rec r) - 2) (print_rec r) ++ [13; 10])
                          (u_recs u)).
  { apply flat_map_ext. intro r. destruct (print_rec_shape r) as [b Eb].
    rewrite Eb, body_of_line. reflexivity. }
  rewrite ER, Eh. rewrite <- app_assoc. cbn [app].
  rewrite unl_line by exact Hh. rewrite lines_acc_line by exact Hh. cbn [rev app].
  rewrite (lines_unl_flat (fun r => firstn (length (print_rec r) - 2) (print_rec r))).
  2:{ intros r Hr. apply print_rec_body_no_crlf. exact (forallb_In _ _ Hrecs r Hr). }
  pose proof (parse_header_print u Hg) as PH. rewrite Eh, body_of_line in PH. rewrite PH.
  rewrite (parse_recs_print [] (u_recs u) Hrecs Hnd). cbn [app].
  destruct u; reflexivity.
Qed.

(* an example: the hypotheses are satisfiable by a non-trivial value *)
Example uidl_roundtrip_example :
  let u := {| u_val := 1448388045; u_next := 3; u_guid := [97; 54];
              u_recs := [ {| r_uid := 1; r_fields := [(69, [77; 49]); (84, [84; 50])];
                             r_fname := [107; 46; 104; 58; 50; 44; 83] |};
                          {| r_uid := 2; r_fields := []; r_fname := [107; 50] |} ] |} in
  wf_uidl u = true /\ parse_uidl (print_uidl u) = Ok u.
Proof. split; vm_compute; reflexivity. Qed.

(* ---------------------------------------------------------- subscriptions *)
Lemma rstrip_nl_names l : forallb name_char l = true -> rstrip_nl (l ++ [10]) = l.
Proof.
  induction l as [|c l IH]; intro H.
  - reflexivity.
  - cbn [forallb] in H. apply andb_true_iff in H as [Hc Hl].
    cbn [app]. unfold rstrip_nl in *. cbn [fold_right]. rewrite (IH Hl).
    destruct l; [|reflexivity]. apply name_char_range in Hc.
    destruct (N.eqb_spec c 13); [lia|]. destruct (N.eqb_spec c 10); [lia|]. reflexivity.
Qed.

Lemma add_name_fresh n l : existsb (bytes_eqb n) l = false -> add_name n l = l ++ [n].
Proof.
  induction l as [|x l IH]; intro H; [reflexivity|].
  cbn [existsb] in H. apply orb_false_iff in H as [H1 H2].
  cbn [add_name app]. 
  assert (E : bytes_eqb x n = false).
  { destruct (bytes_eqb x n) eqn:E; [|reflexivity]. apply bytes_eqb_eq in E. subst.
    assert (bytes_eqb n n = true) by (apply bytes_eqb_eq; reflexivity). congruence. }
  rewrite E, (IH H2). reflexivity.
Qed.

Lemma nodup_names_snoc acc n t :
  nodup_names (acc ++ n :: t) = true -> existsb (bytes_eqb n) acc = false.
Proof.
  induction acc as [|a acc IH]; intro H; [reflexivity|].
  cbn [app nodup_names] in H. apply andb_true_iff in H as [H1 H2].
  cbn [existsb]. rewrite (IH H2), orb_false_r.
  apply negb_true_iff in H1. rewrite existsb_app in H1. apply orb_false_iff in H1 as [_ H1].
  cbn [existsb] in H1. apply orb_false_iff in H1 as [H1 _].
  destruct (bytes_eqb n a) eqn:E; [|reflexivity].
  apply bytes_eqb_eq in E. subst.
  assert (bytes_eqb a a = true) by (apply bytes_eqb_eq; reflexivity). congruence.
Qed.

Theorem subs_roundtrip names : wf_subs names = true -> parse_subs (print_subs names) = names.
Proof.
  intro H. unfold wf_subs in H. apply andb_true_iff in H as [Hc Hnd].
  unfold parse_subs, print_subs, lines.
  rewrite (lines_unl_flat (fun n => n)).
  2:{ intros n Hn. apply names_no_crlf. exact (forallb_In _ _ Hc n Hn). }
  assert (G : forall acc, nodup_names (acc ++ names) = true ->
     fold_left (fun a l => add_name (rstrip_nl l) a) (map (fun n => n ++ [10]) names) acc
     = acc ++ names).
  { clear Hnd. induction names as [|n ns IH]; intros acc Hn.
    - cbn. rewrite app_nil_r. reflexivity.
    - cbn [forallb] in Hc. apply andb_true_iff in Hc as [Hn1 Hns].
      cbn [map fold_left]. rewrite (rstrip_nl_names _ Hn1).
      rewrite (add_name_fresh n acc (nodup_names_snoc _ _ _ Hn)).
      rewrite (IH Hns); [rewrite <- app_assoc; reflexivity|].
      rewrite <- app_assoc. exact Hn. }
  exact (G [] Hnd).
Qed.
