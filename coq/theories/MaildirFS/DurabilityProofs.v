(* MaildirFS/DurabilityProofs.v — what survives a kill at any point of any
   sequence of legal maildir operations. *)
From PV Require Import Base.Prelude Base.Decimal MaildirFS.FS MaildirFS.UidList MaildirFS.Ops
  MaildirFS.Spec MaildirFS.FSProofs MaildirFS.UidListProofs.
Local Open Scope N_scope.

(* ---------------------------------------------------- path bookkeeping *)
Lemma live_not_junk f s k i : live s = true -> junk (PMsg f s k i) = false.
Proof. cbn [junk]. intros ->. reflexivity. Qed.

Ltac diff_path :=
  let E := fresh "E" in
  intro E; inversion E; subst;
  try match goal with
      | Hj : junk (PMsg _ ?s _ _) = true, Hs : live ?s = true |- _ =>
          rewrite (live_not_junk _ _ _ _ Hs) in Hj
      end;
  cbn [junk is_dir_path] in *; solve [discriminate | congruence].

Ltac frame_by A :=
  apply (apply_op_frame _ _ _ _ _ A); cbn [mentions];
  first [ intros [?E|?E]; [revert E; diff_path|revert E; diff_path] | diff_path ].

Lemma move_path_entry lay a b p : move_path lay a b p = move_entry lay a b p.
Proof. reflexivity. Qed.

Lemma apply_renamedir lay m a b m' :
  apply_op lay m (ORenameDir a b) = Some m' ->
  m' = map (fun e => (move_path lay a b (fst e), snd e)) m.
Proof.
  cbn [apply_op]. destruct (lookup m (PDir a)) as [[|c]|]; try discriminate.
  destruct (exists_ m (PDir b)); [discriminate|]. intro H. injection H as <-.
  apply rename_dir_map.
Qed.

(* a present entry travels with its folder *)
Lemma renamedir_forward lay m a b m' p n :
  rename_ok lay m a b -> apply_op lay m (ORenameDir a b) = Some m' ->
  lookup m p = Some n -> lookup m' (move_path lay a b p) = Some n.
Proof.
  intros R A H. rewrite (apply_renamedir _ _ _ _ _ A).
  rewrite (lookup_map_inj (move_path lay a b) m p); [exact H|].
  intros q Hq E. apply R; [exact Hq| |exact E].
  apply in_map_iff. exists (p, n). split; [reflexivity|exact (lookup_In _ _ _ H)].
Qed.

(* every entry after the rename is one from before, moved *)
Lemma renamedir_backward lay m a b m' q n :
  NoDup (map fst m) -> apply_op lay m (ORenameDir a b) = Some m' ->
  lookup m' q = Some n -> exists p, lookup m p = Some n /\ move_path lay a b p = q.
Proof.
  intros Hnd A H. rewrite (apply_renamedir _ _ _ _ _ A) in H.
  destruct (lookup_map_some _ _ _ _ H) as [p [Hin Hp]].
  exists p. split; [exact (In_lookup _ _ _ Hnd Hin)|exact Hp].
Qed.

Lemma move_path_uidl lay a b f :
  move_path lay a b (PCtl f CUidl) = PCtl (moved_name lay (ORenameDir a b) f) CUidl.
Proof. unfold move_path, moved_name. cbn [folder_of].
  destruct (moved_folder lay a b f); reflexivity. Qed.

Lemma move_path_msg lay a b f s k i :
  move_path lay a b (PMsg f s k i) = PMsg (moved_name lay (ORenameDir a b) f) s k i.
Proof. unfold move_path, moved_name. cbn [folder_of].
  destruct (moved_folder lay a b f); reflexivity. Qed.

Lemma move_path_is_uidl lay a b p g :
  move_path lay a b p = PCtl g CUidl -> exists f, p = PCtl f CUidl.
Proof.
  unfold move_path. destruct (moved_folder lay a b (folder_of p)); destruct p; cbn [with_folder];
    intro E; inversion E; subst; eexists; reflexivity.
Qed.

Lemma move_path_is_msg lay a b p g s k i :
  move_path lay a b p = PMsg g s k i -> exists f, p = PMsg f s k i.
Proof.
  unfold move_path. destruct (moved_folder lay a b (folder_of p)); destruct p; cbn [with_folder];
    intro E; inversion E; subst; eexists; reflexivity.
Qed.

Definition is_renamedir (o : fsop) : Prop := exists a b, o = ORenameDir a b.

(* what a legal operation can do to a uid-list path *)
Lemma legal_uidl_path lay m o m' f :
  legal lay m o -> apply_op lay m o = Some m' ->
  ((forall a b, o <> ORenameDir a b) /\ lookup m' (PCtl f CUidl) = lookup m (PCtl f CUidl))
  \/ (exists n u', o = ORename (PTmp f n) (PCtl f CUidl)
       /\ lookup m (PTmp f n) = Some (File (Text (print_uidl u')))
       /\ lookup m' (PCtl f CUidl) = Some (File (Text (print_uidl u')))
       /\ wf_uidl u' = true /\ uids_ok u'
       /\ (forall u, uidl_at m f u -> extends (has_file m f) u u'))
  \/ (exists a b, o = ORenameDir a b /\ rename_ok lay m a b).
Proof.
  intros L A.
  destruct L as [p Hj|p c Hj|p Hj|p|p|g|g s k i c Hs Hk Hwk Hwi Hsrc|g s s' k i i' Hs Hs' Hwi
                |g h s s' k i Hs Hs'|g s k i Hs|g n u' Ht Hw Hu He|n| |a b R];
    try (left; split; [intros ? ? E; discriminate E|]; frame_by A).
  - (* utime *) left. split; [intros ? ? E; discriminate E|].
    cbn [apply_op] in A. destruct (exists_ m p); [|discriminate A].
    injection A as <-. reflexivity.
  - (* install *)
    destruct (fname_eqb g f) eqn:Eg.
    + apply fname_eqb_eq in Eg. subst g. right. left. exists n, u'.
      destruct (apply_rename _ _ _ _ _ A) as [c [Hc Hl]].
      rewrite Ht in Hc. injection Hc as <-.
      split; [reflexivity|]. split; [exact Ht|].
      split; [rewrite Hl, path_eqb_refl; reflexivity|].
      split; [exact Hw|]. split; [exact Hu|exact He].
    + left. split; [intros ? ? E; discriminate E|].
      apply (apply_op_frame _ _ _ _ _ A). cbn [mentions].
      intros [E|E]; inversion E; subst.
      assert (fname_eqb f f = true) by (apply fname_eqb_eq; reflexivity). congruence.
  - right. right. exists a, b. split; [reflexivity|exact R].
Qed.

Definition live_path (q : path) : Prop :=
  exists f s k i, q = PMsg f s k i /\ live s = true.
Definition key_of (q : path) : bytes :=
  match q with PMsg _ _ k _ => k | _ => [] end.

(* ... and to the delivered message files *)
Lemma legal_live lay m o m' :
  legal lay m o -> apply_op lay m o = Some m' ->
  ((forall a b, o <> ORenameDir a b) /\ forall q, live_path q -> lookup m' q = lookup m q)
  \/ (exists src dst c, o = OLink src dst /\ live_path dst /\ key_unused m (key_of dst)
        /\ lookup m src = Some (File (Opaque c))
        /\ (exists f s k i, dst = PMsg f s k i /\ wf_key k = true /\ wf_info i = true)
        /\ forall r, lookup m' r = if path_eqb dst r then Some (File (Opaque c)) else lookup m r)
  \/ (exists src dst c, o = ORename src dst /\ live_path src /\ live_path dst
        /\ key_of src = key_of dst /\ lookup m src = Some (File c)
        /\ (exists f s k i g s' i', src = PMsg f s k i /\ dst = PMsg g s' k i'
                                    /\ (i' = i \/ wf_info i' = true))
        /\ forall r, lookup m' r = if path_eqb dst r then Some (File c)
                                   else if path_eqb src r then None else lookup m r)
  \/ (exists p, o = OUnlink p /\ live_path p
        /\ forall r, lookup m' r = if path_eqb p r then None else lookup m r)
  \/ (exists a b, o = ORenameDir a b /\ rename_ok lay m a b).
Proof.
  intros L A.
  destruct L as [p Hj|p c Hj|p Hj|p|p|g|g s k i c Hs Hk Hwk Hwi Hsrc|g s s' k i i' Hs Hs' Hwi
                |g h s s' k i Hs Hs'|g s k i Hs|g n u' Ht Hw Hu He|n| |a b R];
    try (left; split; [intros ? ? E; discriminate E|];
         intros q [f0 [s0 [k0 [i0 [-> Hl0]]]]]; frame_by A).
  - (* utime *) left. split; [intros ? ? E; discriminate E|].
    intros q _. cbn [apply_op] in A. destruct (exists_ m p); [|discriminate A].
    injection A as <-. reflexivity.
  - (* link *) right. left.
    destruct (apply_link _ _ _ _ _ A) as [c0 [Hc [_ Hl]]]. rewrite Hsrc in Hc. injection Hc as <-.
    exists (PMsg g STmp k []), (PMsg g s k i), c.
    split; [reflexivity|]. split; [exists g, s, k, i; split; [reflexivity|exact Hs]|].
    split; [exact Hk|]. split; [exact Hsrc|].
    split; [exists g, s, k, i; repeat split; assumption|exact Hl].
  - (* flags *) right. right. left.
    destruct (apply_rename _ _ _ _ _ A) as [c [Hc Hl]].
    exists (PMsg g s k i), (PMsg g s' k i'), c.
    split; [reflexivity|]. split; [exists g, s, k, i; split; [reflexivity|exact Hs]|].
    split; [exists g, s', k, i'; split; [reflexivity|exact Hs']|].
    split; [reflexivity|]. split; [exact Hc|].
    split; [exists g, s, k, i, g, s', i'; repeat split; right; exact Hwi|exact Hl].
  - (* move *) right. right. left.
    destruct (apply_rename _ _ _ _ _ A) as [c [Hc Hl]].
    exists (PMsg g s k i), (PMsg h s' k i), c.
    split; [reflexivity|]. split; [exists g, s, k, i; split; [reflexivity|exact Hs]|].
    split; [exists h, s', k, i; split; [reflexivity|exact Hs']|].
    split; [reflexivity|]. split; [exact Hc|].
    split; [exists g, s, k, i, h, s', i; repeat split; left; reflexivity|exact Hl].
  - (* expunge *) right. right. right. left.
    exists (PMsg g s k i). split; [reflexivity|].
    split; [exists g, s, k, i; split; [reflexivity|exact Hs]|exact (apply_unlink _ _ _ _ A)].
  - right. right. right. right. exists a, b. split; [reflexivity|exact R].
Qed.

Lemma legal_msg_path lay m o m' f s k i :
  legal lay m o -> apply_op lay m o = Some m' -> live s = true -> ~ touches o k ->
  lookup m (PMsg f s k i) <> None ->
  lookup m' (PMsg (moved_name lay o f) s k i) = lookup m (PMsg f s k i).
Proof.
  intros L A Hs Ht Hex.
  assert (LP : live_path (PMsg f s k i)) by (exists f, s, k, i; split; [reflexivity|exact Hs]).
  destruct (legal_live _ _ _ _ L A) as [F|[HL|[HR|[HU|HD]]]];
    [|destruct HL as (src & dst & c & -> & (g & t & k0 & j & -> & Ht0) & Hk & _ & _ & Hl)
     |destruct HR as (src & dst & c & -> & (g & t & k0 & j & -> & Ht0)
                      & (g' & t' & k1 & j' & -> & Ht1) & Hkk & Hc & _ & Hl)
     |destruct HU as (p & -> & (g & t & k0 & j & -> & Ht0) & Hl)
     |destruct HD as (a & b & -> & R)].
  - destruct F as [Hnr F]. assert (E : moved_name lay o f = f).
    { destruct o; try reflexivity. exfalso. exact (Hnr _ _ eq_refl). }
    rewrite E. exact (F _ LP).
  - cbn [moved_name]. rewrite Hl.
    destruct (path_eqb (PMsg g t k0 j) (PMsg f s k i)) eqn:E; [|reflexivity].
    apply path_eqb_eq in E. inversion E; subst. exfalso. apply Hex. apply Hk. exact Hs.
  - cbn [touches key_of moved_name] in *. subst k1. rewrite Hl.
    destruct (path_eqb (PMsg g' t' k0 j') (PMsg f s k i)) eqn:E.
    { apply path_eqb_eq in E. inversion E; subst. exfalso. apply Ht. reflexivity. }
    destruct (path_eqb (PMsg g t k0 j) (PMsg f s k i)) eqn:E2; [|reflexivity].
    apply path_eqb_eq in E2. inversion E2; subst. exfalso. apply Ht. reflexivity.
  - cbn [touches moved_name] in *. rewrite Hl.
    destruct (path_eqb (PMsg g t k0 j) (PMsg f s k i)) eqn:E; [|reflexivity].
    apply path_eqb_eq in E. inversion E; subst. exfalso. apply Ht. reflexivity.
  - destruct (lookup m (PMsg f s k i)) as [n|] eqn:El; [|exfalso; exact (Hex eq_refl)].
    rewrite <- move_path_msg. exact (renamedir_forward _ _ _ _ _ _ _ R A El).
Qed.

(* ------------------------------------------------- serving is preserved *)
Lemma uidl_at_text m f u :
  lookup m (PCtl f CUidl) = Some (File (Text (print_uidl u))) -> wf_uidl u = true -> uidl_at m f u.
Proof. intros H Hw. exists (print_uidl u). split; [exact H|exact (uidl_roundtrip _ Hw)]. Qed.

Lemma legal_step_uidl lay m o m' f u :
  legal lay m o -> apply_op lay m o = Some m' -> uidl_at m f u ->
  exists u', uidl_at m' (moved_name lay o f) u' /\ u_val u' = u_val u /\ u_next u <= u_next u'
    /\ (forall uid k, recorded u' uid k -> uid < u_next u -> recorded u uid k)
    /\ (forall uid k, recorded u uid k -> has_file m f k -> recorded u' uid k).
Proof.
  intros L A [t [Hl Hp]].
  destruct (legal_uidl_path _ _ _ _ f L A)
    as [[Hnr E]|[[n [u' [Eo [_ [Hl' [Hw [_ He]]]]]]]|[a [b [-> R]]]]].
  - assert (Em : moved_name lay o f = f).
    { destruct o; try reflexivity. exfalso. exact (Hnr _ _ eq_refl). }
    rewrite Em. exists u. split; [exists t; rewrite E; split; assumption|].
    split; [reflexivity|]. split; [apply N.le_refl|]. split; intros; assumption.
  - subst o. cbn [moved_name].
    specialize (He u (ex_intro _ t (conj Hl Hp))). destruct He as [Hv [Hn [Ho Hk]]].
    exists u'. split; [exact (uidl_at_text _ _ _ Hl' Hw)|]. repeat split; assumption.
  - exists u. split.
    + exists t. split; [|exact Hp]. rewrite <- move_path_uidl.
      exact (renamedir_forward _ _ _ _ _ _ _ R A Hl).
    + split; [reflexivity|]. split; [apply N.le_refl|]. split; intros; assumption.
Qed.

Lemma file_at_step lay m o m' f k i c :
  legal lay m o -> apply_op lay m o = Some m' -> ~ touches o k ->
  file_at m f k i c -> file_at m' (moved_name lay o f) k i c.
Proof.
  intros L A Ht [s [Hs Hl]]. exists s. split; [exact Hs|].
  rewrite (legal_msg_path _ _ _ _ _ _ _ _ L A Hs Ht); [exact Hl|]. rewrite Hl. discriminate.
Qed.

Theorem legal_step_serves lay m o m' f v uid k fl c :
  legal lay m o -> apply_op lay m o = Some m' -> ~ touches o k ->
  serves m f v uid k fl c -> serves m' (moved_name lay o f) v uid k fl c.
Proof.
  intros L A Ht [u [i [Hu [Hv [Hr [Hf Hfl]]]]]].
  destruct (legal_step_uidl _ _ _ _ _ _ L A Hu) as [u' [Hu' [Hv' [_ [_ Hk]]]]].
  exists u', i. repeat split.
  - exact Hu'.
  - congruence.
  - apply Hk; [exact Hr|]. exists i, c. exact Hf.
  - exact (file_at_step _ _ _ _ _ _ _ _ L A Ht Hf).
  - exact Hfl.
Qed.

(* ------------------------------------------------------ the invariant *)
Lemma apply_op_nodup lay m o m' :
  NoDup (map fst m) -> (forall a b, o = ORenameDir a b -> rename_ok lay m a b) ->
  apply_op lay m o = Some m' -> NoDup (map fst m').
Proof.
  intros Hnd Hr A. destruct o; cbn [apply_op] in A.
  - destruct (is_dir_path p && negb (exists_ m p) && parent_ok m p); [|discriminate].
    injection A as <-. exact (nodup_add _ _ _ Hnd).
  - destruct (lookup m p) as [[|c]|]; try discriminate.
    destruct (existsb _ m); [discriminate|]. injection A as <-. exact (nodup_remove _ _ Hnd).
  - destruct (negb (is_dir_path p) && negb (exists_ m p) && parent_ok m p); [|discriminate].
    injection A as <-. exact (nodup_add _ _ _ Hnd).
  - destruct (lookup m p) as [[|c']|]; try discriminate. injection A as <-.
    rewrite keys_replace. exact Hnd.
  - destruct (lookup m p) as [[|c]|]; try discriminate.
    destruct (negb (is_dir_path q) && parent_ok m q); [|discriminate].
    destruct (path_eqb p q); injection A as <-; [exact Hnd|].
    apply nodup_add. exact (nodup_remove _ _ Hnd).
  - destruct (lookup m (PDir a)) as [[|c]|]; try discriminate.
    destruct (exists_ m (PDir b)); [discriminate|]. injection A as <-.
    rewrite rename_dir_map. apply nodup_map_inj; [exact Hnd|]. exact (Hr a b eq_refl).
  - destruct (lookup m p) as [[|c]|]; try discriminate.
    destruct (negb (is_dir_path q) && negb (exists_ m q) && parent_ok m q); [|discriminate].
    injection A as <-. exact (nodup_add _ _ _ Hnd).
  - destruct (lookup m p) as [[|c]|]; try discriminate. injection A as <-.
    exact (nodup_remove _ _ Hnd).
  - destruct (exists_ m p); [|discriminate]. injection A as <-. exact Hnd.
Qed.

Lemma legal_renamedir_ok lay m a b : legal lay m (ORenameDir a b) -> rename_ok lay m a b.
Proof. intro L. inversion L. assumption. Qed.

Lemma legal_step_inv lay m o m' :
  Inv m -> legal lay m o -> apply_op lay m o = Some m' -> Inv m'.
Proof.
  intros [I1 I2 I3 I4] L A. split.
  - (* uid lists *)
    intros f n Hn.
    destruct (legal_uidl_path _ _ _ _ f L A)
      as [[_ E]|[[n0 [u' [_ [_ [Hl [Hw [Hu _]]]]]]]|[a [b [-> R]]]]].
    + rewrite E in Hn. exact (I1 f n Hn).
    + rewrite Hl in Hn. injection Hn as <-. exists u'.
      split; [reflexivity|]. split; [exact Hw|exact Hu].
    + destruct (renamedir_backward _ _ _ _ _ _ _ I4 A Hn) as [p [Hp Ep]].
      destruct (move_path_is_uidl _ _ _ _ _ Ep) as [f0 ->]. exact (I1 f0 n Hp).
  - (* keys *)
    intros f s i n f' s' i' n' k Hs Hs' H1 H2.
    assert (LP1 : live_path (PMsg f s k i)) by (exists f, s, k, i; split; [reflexivity|exact Hs]).
    assert (LP2 : live_path (PMsg f' s' k i')) by (exists f', s', k, i'; split; [reflexivity|exact Hs']).
    destruct (legal_live _ _ _ _ L A) as [[_ F]|[HL|[HR|[HU|HD]]]];
      [|destruct HL as (src & dst & c & -> & (g & t & k0 & j & -> & Ht0) & Hk & _ & _ & Hl)
       |destruct HR as (src & dst & c & -> & (g & t & k0 & j & -> & Ht0)
                        & (g' & t' & k1 & j' & -> & Ht1) & Hkk & Hc & _ & Hl)
       |destruct HU as (p & -> & (g & t & k0 & j & -> & Ht0) & Hl)
       |destruct HD as (a & b & -> & R)].
    + rewrite (F _ LP1) in H1. rewrite (F _ LP2) in H2. exact (I2 _ _ _ _ _ _ _ _ _ Hs Hs' H1 H2).
    + cbn [key_of] in Hk. rewrite Hl in H1, H2.
      destruct (path_eqb (PMsg g t k0 j) (PMsg f s k i)) eqn:E1;
        destruct (path_eqb (PMsg g t k0 j) (PMsg f' s' k i')) eqn:E2.
      * apply path_eqb_eq in E1. apply path_eqb_eq in E2. inversion E1; inversion E2; subst.
        repeat split; reflexivity.
      * apply path_eqb_eq in E1. inversion E1; subst. rewrite (Hk _ _ _ Hs') in H2. discriminate.
      * apply path_eqb_eq in E2. inversion E2; subst. rewrite (Hk _ _ _ Hs) in H1. discriminate.
      * exact (I2 _ _ _ _ _ _ _ _ _ Hs Hs' H1 H2).
    + cbn [key_of] in Hkk. subst k1. rewrite Hl in H1, H2.
      destruct (path_eqb (PMsg g' t' k0 j') (PMsg f s k i)) eqn:E1;
        destruct (path_eqb (PMsg g' t' k0 j') (PMsg f' s' k i')) eqn:E2.
      * apply path_eqb_eq in E1. apply path_eqb_eq in E2. inversion E1; inversion E2; subst.
        repeat split; reflexivity.
      * apply path_eqb_eq in E1. inversion E1; subst.
        destruct (path_eqb (PMsg g t k j) (PMsg f' s' k i')) eqn:E3; [discriminate|].
        destruct (I2 _ _ _ _ _ _ _ _ _ Ht0 Hs' Hc H2) as [-> [-> ->]].
        rewrite path_eqb_refl in E3. discriminate.
      * apply path_eqb_eq in E2. inversion E2; subst.
        destruct (path_eqb (PMsg g t k j) (PMsg f s k i)) eqn:E3; [discriminate|].
        destruct (I2 _ _ _ _ _ _ _ _ _ Ht0 Hs Hc H1) as [-> [-> ->]].
        rewrite path_eqb_refl in E3. discriminate.
      * destruct (path_eqb (PMsg g t k0 j) (PMsg f s k i)); [discriminate|].
        destruct (path_eqb (PMsg g t k0 j) (PMsg f' s' k i')); [discriminate|].
        exact (I2 _ _ _ _ _ _ _ _ _ Hs Hs' H1 H2).
    + rewrite Hl in H1, H2.
      destruct (path_eqb (PMsg g t k0 j) (PMsg f s k i)); [discriminate|].
      destruct (path_eqb (PMsg g t k0 j) (PMsg f' s' k i')); [discriminate|].
      exact (I2 _ _ _ _ _ _ _ _ _ Hs Hs' H1 H2).
    + destruct (renamedir_backward _ _ _ _ _ _ _ I4 A H1) as [p1 [Hp1 Ep1]].
      destruct (renamedir_backward _ _ _ _ _ _ _ I4 A H2) as [p2 [Hp2 Ep2]].
      destruct (move_path_is_msg _ _ _ _ _ _ _ _ Ep1) as [f1 ->].
      destruct (move_path_is_msg _ _ _ _ _ _ _ _ Ep2) as [f2 ->].
      destruct (I2 _ _ _ _ _ _ _ _ _ Hs Hs' Hp1 Hp2) as [-> [-> ->]].
      rewrite Ep1 in Ep2. inversion Ep2; subst. repeat split; reflexivity.
  - (* names *)
    intros f s k i n Hs H.
    assert (LP : live_path (PMsg f s k i)) by (exists f, s, k, i; split; [reflexivity|exact Hs]).
    destruct (legal_live _ _ _ _ L A) as [[_ F]|[HL|[HR|[HU|HD]]]];
      [|destruct HL as (src & dst & c & -> & _ & _ & _ & (g & t & k0 & j & -> & Hwk & Hwi) & Hl)
       |destruct HR as (src & dst & c & -> & (g0 & t0 & k2 & j0 & Es & Ht0) & _ & _ & Hc
                        & (g & t & k0 & j & g' & t' & j' & -> & -> & Hj) & Hl)
       |destruct HU as (p & -> & _ & Hl)
       |destruct HD as (a & b & -> & R)].
    + rewrite (F _ LP) in H. exact (I3 _ _ _ _ _ Hs H).
    + rewrite Hl in H. destruct (path_eqb (PMsg g t k0 j) (PMsg f s k i)) eqn:E.
      * apply path_eqb_eq in E. inversion E; subst. injection H as <-.
        repeat split; try assumption. exists c. reflexivity.
      * exact (I3 _ _ _ _ _ Hs H).
    + inversion Es; subst g0 t0 k2 j0. destruct (I3 _ _ _ _ _ Ht0 Hc) as [Hwk [Hwi [c0 Ec]]].
      rewrite Hl in H. destruct (path_eqb (PMsg g' t' k0 j') (PMsg f s k i)) eqn:E.
      * apply path_eqb_eq in E. inversion E; subst. injection H as <-.
        split; [exact Hwk|]. split; [destruct Hj as [->|Hj]; assumption|].
        exists c0. injection Ec as ->. reflexivity.
      * destruct (path_eqb (PMsg g t k0 j) (PMsg f s k i)); [discriminate|].
        exact (I3 _ _ _ _ _ Hs H).
    + rewrite Hl in H. destruct (path_eqb p (PMsg f s k i)); [discriminate|].
      exact (I3 _ _ _ _ _ Hs H).
    + destruct (renamedir_backward _ _ _ _ _ _ _ I4 A H) as [p [Hp Ep]].
      destruct (move_path_is_msg _ _ _ _ _ _ _ _ Ep) as [f1 ->]. exact (I3 _ _ _ _ _ Hs Hp).
  - (* one entry per path *)
    apply (apply_op_nodup lay m o m' I4); [|exact A].
    intros a b ->. exact (legal_renamedir_ok _ _ _ _ L).
Qed.

(* a message file is never rewritten: as long as its key exists it names the
   same content *)
Lemma legal_step_content lay m o m' f k i c f' i' c' :
  Inv m -> legal lay m o -> apply_op lay m o = Some m' ->
  file_at m f k i c -> file_at m' f' k i' c' -> c = c'.
Proof.
  intros [I1 I2 I3 I4] L A [s [Hs H1]] [s' [Hs' H2]].
  assert (LP2 : live_path (PMsg f' s' k i')) by (exists f', s', k, i'; split; [reflexivity|exact Hs']).
  destruct (legal_live _ _ _ _ L A) as [[_ F]|[HL|[HR|[HU|HD]]]];
    [|destruct HL as (src & dst & c0 & -> & (g & t & k0 & j & -> & Ht0) & Hk & _ & _ & Hl)
     |destruct HR as (src & dst & c0 & -> & (g & t & k0 & j & -> & Ht0)
                      & (g' & t' & k1 & j' & -> & Ht1) & Hkk & Hc & _ & Hl)
     |destruct HU as (p & -> & (g & t & k0 & j & -> & Ht0) & Hl)
     |destruct HD as (a & b & -> & R)].
  - rewrite (F _ LP2) in H2.
    destruct (I2 _ _ _ _ _ _ _ _ _ Hs Hs' H1 H2) as [-> [-> ->]]. congruence.
  - cbn [key_of] in Hk. rewrite Hl in H2.
    destruct (path_eqb (PMsg g t k0 j) (PMsg f' s' k i')) eqn:E.
    + apply path_eqb_eq in E. inversion E; subst. rewrite (Hk _ _ _ Hs) in H1. discriminate.
    + destruct (I2 _ _ _ _ _ _ _ _ _ Hs Hs' H1 H2) as [-> [-> ->]]. congruence.
  - cbn [key_of] in Hkk. subst k1. rewrite Hl in H2.
    destruct (path_eqb (PMsg g' t' k0 j') (PMsg f' s' k i')) eqn:E.
    + apply path_eqb_eq in E. inversion E; subst.
      destruct (I2 _ _ _ _ _ _ _ _ _ Hs Ht0 H1 Hc) as [-> [-> ->]]. congruence.
    + destruct (path_eqb (PMsg g t k0 j) (PMsg f' s' k i')); [discriminate|].
      destruct (I2 _ _ _ _ _ _ _ _ _ Hs Hs' H1 H2) as [-> [-> ->]]. congruence.
  - rewrite Hl in H2. destruct (path_eqb (PMsg g t k0 j) (PMsg f' s' k i')); [discriminate|].
    destruct (I2 _ _ _ _ _ _ _ _ _ Hs Hs' H1 H2) as [-> [-> ->]]. congruence.
  - destruct (renamedir_backward _ _ _ _ _ _ _ I4 A H2) as [p [Hp Ep]].
    destruct (move_path_is_msg _ _ _ _ _ _ _ _ Ep) as [f1 ->].
    destruct (I2 _ _ _ _ _ _ _ _ _ Hs Hs' H1 Hp) as [-> [-> ->]]. congruence.
Qed.

(* ------------------------------------------------ runs and their prefixes *)
Lemma legal_run_apply lay m l m' : legal_run lay m l m' -> apply_ops lay m l = (m', true).
Proof. induction 1 as [|m o m1 l m2 L A R IH]; cbn [apply_ops]; [reflexivity|].
  rewrite A. exact IH. Qed.

Lemma legal_run_app lay m l1 m1 l2 m2 :
  legal_run lay m l1 m1 -> legal_run lay m1 l2 m2 -> legal_run lay m (l1 ++ l2) m2.
Proof. induction 1; cbn [app]; intro R2; [exact R2|]. econstructor; eauto. Qed.

Theorem run_inv lay m l m' : Inv m -> legal_run lay m l m' -> Inv m'.
Proof. intros I R. induction R as [|m o m1 l m2 L A R IH]; [exact I|].
  apply IH. exact (legal_step_inv _ _ _ _ I L A). Qed.

Theorem run_serves lay m l m' f v uid k fl c :
  legal_run lay m l m' -> ~ touched l k ->
  serves m f v uid k fl c -> serves m' (moved_names lay l f) v uid k fl c.
Proof.
  intros R. revert f. induction R as [|m o m1 l m2 L A R IH]; intros f Ht S; [exact S|].
  cbn [moved_names fold_left]. apply IH.
  - intro T. apply Ht. apply Exists_cons_tl. exact T.
  - apply (legal_step_serves _ _ _ _ _ _ _ _ _ _ L A); [|exact S].
    intro T. apply Ht. apply Exists_cons_hd. exact T.
Qed.

Lemma uid_stable_refl m : uid_stable_via (fun f => f) m m.
Proof. intros f u Hu. exists u. split; [exact Hu|]. split; [reflexivity|].
  split; [apply N.le_refl|]. intros; assumption. Qed.

Lemma uid_stable_trans p1 p2 m1 m2 m3 :
  uid_stable_via p1 m1 m2 -> uid_stable_via p2 m2 m3 ->
  uid_stable_via (fun f => p2 (p1 f)) m1 m3.
Proof.
  intros H12 H23 f u1 Hu1.
  destruct (H12 f u1 Hu1) as [u2 [Hu2 [Hv2 [Hn2 Ho2]]]].
  destruct (H23 _ u2 Hu2) as [u3 [Hu3 [Hv3 [Hn3 Ho3]]]].
  exists u3. split; [exact Hu3|]. split; [congruence|]. split; [lia|].
  intros uid k Hr Hlt. apply Ho2; [|exact Hlt]. apply Ho3; [exact Hr|lia].
Qed.

Theorem run_uid_stable lay m l m' :
  legal_run lay m l m' -> uid_stable_via (moved_names lay l) m m'.
Proof.
  induction 1 as [|m o m1 l m2 L A R IH]; [apply uid_stable_refl|].
  assert (S1 : uid_stable_via (moved_name lay o) m m1).
  { intros f u Hu. destruct (legal_step_uidl _ _ _ _ _ _ L A Hu) as [u' [Hu' [Hv [Hn [Ho _]]]]].
    exists u'. repeat split; assumption. }
  exact (uid_stable_trans _ _ _ _ _ S1 IH).
Qed.
