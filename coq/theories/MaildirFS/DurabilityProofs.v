(* MaildirFS/DurabilityProofs.v — what survives a kill at any point of any
   sequence of legal maildir operations. *)
From PV Require Import Base.Prelude Base.Decimal MaildirFS.FS MaildirFS.UidList MaildirFS.Ops
  MaildirFS.Spec MaildirFS.FSProofs MaildirFS.UidListProofs.
Local Open Scope N_scope.

(* ---------------------------------------------------- path bookkeeping *)
Lemma live_not_junk f s k i : live s = true -> junk (PMsg f s k i) = false.
Proof. cbn [junk]. intros ->. reflexivity. Qed.

(* closes goals of the form  p = q -> False  for syntactically different
   paths, or paths distinguished by a junk/live hypothesis *)
Ltac diff_path :=
  let E := fresh "E" in
  intro E; inversion E; subst;
  try match goal with
      | Hj : junk (PMsg _ ?s _ _) = true, Hs : live ?s = true |- _ =>
          rewrite (live_not_junk _ _ _ _ Hs) in Hj
      end;
  cbn [junk is_dir_path] in *; solve [discriminate | congruence].

Ltac frame_by A :=
  apply (apply_op_frame _ _ _ _ _ A); cbn [mentions];
  first [ intros [?E|?E]; [revert E; diff_path|revert E; diff_path] | diff_path ].

(* what a legal operation can do to a uid-list path *)
Lemma legal_uidl_path lay m o m' f :
  legal m o -> apply_op lay m o = Some m' ->
  lookup m' (PCtl f CUidl) = lookup m (PCtl f CUidl)
  \/ exists n t u', o = ORename (PTmp f n) (PCtl f CUidl)
       /\ lookup m (PTmp f n) = Some (File (Text t))
       /\ lookup m' (PCtl f CUidl) = Some (File (Text t))
       /\ parse_uidl t = Ok u' /\ uids_ok u'
       /\ (forall u, uidl_at m f u -> extends (has_file m f) u u').
Proof.
  intros L A.
  destruct L as [p Hj|p c Hj|p Hj|p|p|g|g s k i Hs Hk|g s s' k i i' Hs Hs'
                |g h s s' k i Hs Hs'|g s k i Hs|g n t u' Ht Hp Hu He|n|];
    try (left; frame_by A).
  - (* utime *) left. cbn [apply_op] in A. destruct (exists_ m p); [|discriminate A].
    injection A as <-. reflexivity.
  - (* install *)
    destruct (fname_eqb g f) eqn:Eg.
    + apply fname_eqb_eq in Eg. subst g. right. exists n, t, u'.
      destruct (apply_rename _ _ _ _ _ A) as [c [Hc Hl]].
      rewrite Ht in Hc. injection Hc as <-.
      split; [reflexivity|]. split; [exact Ht|].
      split; [rewrite Hl, path_eqb_refl; reflexivity|].
      split; [exact Hp|]. split; [exact Hu|exact He].
    + left. apply (apply_op_frame _ _ _ _ _ A). cbn [mentions].
      intros [E|E]; inversion E; subst.
      assert (fname_eqb f f = true) by (apply fname_eqb_eq; reflexivity). congruence.
Qed.

Definition live_path (q : path) : Prop :=
  exists f s k i, q = PMsg f s k i /\ live s = true.
Definition key_of (q : path) : bytes :=
  match q with PMsg _ _ k _ => k | _ => [] end.

(* ... and to the delivered message files *)
Lemma legal_live lay m o m' :
  legal m o -> apply_op lay m o = Some m' ->
  (forall q, live_path q -> lookup m' q = lookup m q)
  \/ (exists src dst c, o = OLink src dst /\ live_path dst /\ key_unused m (key_of dst)
        /\ forall r, lookup m' r = if path_eqb dst r then Some (File c) else lookup m r)
  \/ (exists src dst c, o = ORename src dst /\ live_path src /\ live_path dst
        /\ key_of src = key_of dst /\ lookup m src = Some (File c)
        /\ forall r, lookup m' r = if path_eqb dst r then Some (File c)
                                   else if path_eqb src r then None else lookup m r)
  \/ (exists p, o = OUnlink p /\ live_path p
        /\ forall r, lookup m' r = if path_eqb p r then None else lookup m r).
Proof.
  intros L A.
  destruct L as [p Hj|p c Hj|p Hj|p|p|g|g s k i Hs Hk|g s s' k i i' Hs Hs'
                |g h s s' k i Hs Hs'|g s k i Hs|g n t u' Ht Hp Hu He|n|];
    try (left; intros q [f0 [s0 [k0 [i0 [-> Hl0]]]]]; frame_by A).
  - (* utime *) left. intros q _. cbn [apply_op] in A. destruct (exists_ m p); [|discriminate A].
    injection A as <-. reflexivity.
  - (* link *) right. left.
    destruct (apply_link _ _ _ _ _ A) as [c [_ [_ Hl]]].
    exists (PMsg g STmp k []), (PMsg g s k i), c. repeat split; try assumption.
    exists g, s, k, i. split; [reflexivity|exact Hs].
  - (* flags *) right. right. left.
    destruct (apply_rename _ _ _ _ _ A) as [c [Hc Hl]].
    exists (PMsg g s k i), (PMsg g s' k i'), c. repeat split; try assumption.
    + exists g, s, k, i. split; [reflexivity|exact Hs].
    + exists g, s', k, i'. split; [reflexivity|exact Hs'].
  - (* move *) right. right. left.
    destruct (apply_rename _ _ _ _ _ A) as [c [Hc Hl]].
    exists (PMsg g s k i), (PMsg h s' k i), c. repeat split; try assumption.
    + exists g, s, k, i. split; [reflexivity|exact Hs].
    + exists h, s', k, i. split; [reflexivity|exact Hs'].
  - (* expunge *) right. right. right.
    exists (PMsg g s k i). repeat split.
    + exists g, s, k, i. split; [reflexivity|exact Hs].
    + exact (apply_unlink _ _ _ _ A).
Qed.

Lemma legal_msg_path lay m o m' f s k i :
  legal m o -> apply_op lay m o = Some m' -> live s = true -> ~ touches o k ->
  lookup m (PMsg f s k i) <> None ->
  lookup m' (PMsg f s k i) = lookup m (PMsg f s k i).
Proof.
  intros L A Hs Ht Hex.
  assert (LP : live_path (PMsg f s k i)) by (exists f, s, k, i; split; [reflexivity|exact Hs]).
  destruct (legal_live _ _ _ _ L A) as [F|[HL|[HR|HU]]];
    [|destruct HL as (src & dst & c & -> & (g & t & k0 & j & -> & Ht0) & Hk & Hl)
     |destruct HR as (src & dst & c & -> & (g & t & k0 & j & -> & Ht0)
                      & (g' & t' & k1 & j' & -> & Ht1) & Hkk & Hc & Hl)
     |destruct HU as (p & -> & (g & t & k0 & j & -> & Ht0) & Hl)].
  - exact (F _ LP).
  - rewrite Hl. destruct (path_eqb (PMsg g t k0 j) (PMsg f s k i)) eqn:E; [|reflexivity].
    apply path_eqb_eq in E. inversion E; subst. exfalso. apply Hex. apply Hk. exact Hs.
  - cbn [touches key_of] in *. subst k1. rewrite Hl.
    destruct (path_eqb (PMsg g' t' k0 j') (PMsg f s k i)) eqn:E.
    { apply path_eqb_eq in E. inversion E; subst. exfalso. apply Ht. reflexivity. }
    destruct (path_eqb (PMsg g t k0 j) (PMsg f s k i)) eqn:E2; [|reflexivity].
    apply path_eqb_eq in E2. inversion E2; subst. exfalso. apply Ht. reflexivity.
  - cbn [touches] in Ht. rewrite Hl.
    destruct (path_eqb (PMsg g t k0 j) (PMsg f s k i)) eqn:E; [|reflexivity].
    apply path_eqb_eq in E. inversion E; subst. exfalso. apply Ht. reflexivity.
Qed.

(* ------------------------------------------------- serving is preserved *)
Lemma legal_step_uidl lay m o m' f u :
  legal m o -> apply_op lay m o = Some m' -> uidl_at m f u ->
  exists u', uidl_at m' f u' /\ u_val u' = u_val u /\ u_next u <= u_next u'
    /\ (forall uid k, recorded u' uid k -> uid < u_next u -> recorded u uid k)
    /\ (forall uid k, recorded u uid k -> has_file m f k -> recorded u' uid k).
Proof.
  intros L A [t [Hl Hp]].
  destruct (legal_uidl_path _ _ _ _ f L A) as [E|[n [t' [u' [_ [_ [Hl' [Hp' [_ He]]]]]]]]].
  - exists u. split; [exists t; rewrite E; split; assumption|].
    repeat split; try reflexivity; try (intros; assumption); try apply N.le_refl.
  - specialize (He u (ex_intro _ t (conj Hl Hp))). destruct He as [Hv [Hn [Ho Hk]]].
    exists u'. split; [exists t'; split; assumption|].
    repeat split; assumption.
Qed.

Lemma file_at_step lay m o m' f k i c :
  legal m o -> apply_op lay m o = Some m' -> ~ touches o k ->
  file_at m f k i c -> file_at m' f k i c.
Proof.
  intros L A Ht [s [Hs Hl]]. exists s. split; [exact Hs|].
  rewrite (legal_msg_path _ _ _ _ _ _ _ _ L A Hs Ht); [exact Hl|]. rewrite Hl. discriminate.
Qed.

Theorem legal_step_serves lay m o m' f v uid k fl c :
  legal m o -> apply_op lay m o = Some m' -> ~ touches o k ->
  serves m f v uid k fl c -> serves m' f v uid k fl c.
Proof.
  intros L A Ht [u [i [Hu [Hv [Hr [Hf Hfl]]]]]].
  destruct (legal_step_uidl _ _ _ _ _ _ L A Hu) as [u' [Hu' [Hv' [_ [_ Hk]]]]].
  exists u', i. repeat split.
  - exact Hu'.
  - congruence.
  - apply Hk; [exact Hr|]. exists i, c. exact Hf.
  - exact (file_at_step _ _ _ _ _ _ _ _ L A Ht Hf).
  - exact Hfl.
Qed.

(* ------------------------------------------------------ the invariant *)
Lemma legal_step_inv lay m o m' :
  Inv m -> legal m o -> apply_op lay m o = Some m' -> Inv m'.
Proof.
  intros [I1 I2] L A. split.
  - intros f n Hn.
    destruct (legal_uidl_path _ _ _ _ f L A) as [E|[n0 [t [u' [_ [_ [Hl [Hp [Hu _]]]]]]]]].
    + rewrite E in Hn. exact (I1 f n Hn).
    + rewrite Hl in Hn. injection Hn as <-. exists t, u'.
      split; [reflexivity|]. split; [exact Hp|exact Hu].
  - intros f s i n f' s' i' n' k Hs Hs' H1 H2.
    assert (LP1 : live_path (PMsg f s k i)) by (exists f, s, k, i; split; [reflexivity|exact Hs]).
    assert (LP2 : live_path (PMsg f' s' k i')) by (exists f', s', k, i'; split; [reflexivity|exact Hs']).
    destruct (legal_live _ _ _ _ L A) as [F|[HL|[HR|HU]]];
    [|destruct HL as (src & dst & c & -> & (g & t & k0 & j & -> & Ht0) & Hk & Hl)
     |destruct HR as (src & dst & c & -> & (g & t & k0 & j & -> & Ht0)
                      & (g' & t' & k1 & j' & -> & Ht1) & Hkk & Hc & Hl)
     |destruct HU as (p & -> & (g & t & k0 & j & -> & Ht0) & Hl)].
    + rewrite (F _ LP1) in H1. rewrite (F _ LP2) in H2. exact (I2 _ _ _ _ _ _ _ _ _ Hs Hs' H1 H2).
    + (* link: the new file is the only one with its key *)
      cbn [key_of] in Hk. rewrite Hl in H1, H2.
      destruct (path_eqb (PMsg g t k0 j) (PMsg f s k i)) eqn:E1;
        destruct (path_eqb (PMsg g t k0 j) (PMsg f' s' k i')) eqn:E2.
      * apply path_eqb_eq in E1. apply path_eqb_eq in E2. inversion E1; inversion E2; subst.
        repeat split; reflexivity.
      * apply path_eqb_eq in E1. inversion E1; subst. rewrite (Hk _ _ _ Hs') in H2. discriminate.
      * apply path_eqb_eq in E2. inversion E2; subst. rewrite (Hk _ _ _ Hs) in H1. discriminate.
      * exact (I2 _ _ _ _ _ _ _ _ _ Hs Hs' H1 H2).
    + (* rename: the file keeps its key; the old name is gone *)
      cbn [key_of] in Hkk. subst k1. rewrite Hl in H1, H2.
      destruct (path_eqb (PMsg g' t' k0 j') (PMsg f s k i)) eqn:E1;
        destruct (path_eqb (PMsg g' t' k0 j') (PMsg f' s' k i')) eqn:E2.
      * apply path_eqb_eq in E1. apply path_eqb_eq in E2. inversion E1; inversion E2; subst.
        repeat split; reflexivity.
      * apply path_eqb_eq in E1. inversion E1; subst.
        destruct (path_eqb (PMsg g t k j) (PMsg f' s' k i')) eqn:E3; [discriminate|].
        destruct (I2 _ _ _ _ _ _ _ _ _ Ht0 Hs' Hc H2) as [-> [-> ->]].
        rewrite path_eqb_refl in E3. discriminate.
      * apply path_eqb_eq in E2. inversion E2; subst.
        destruct (path_eqb (PMsg g t k j) (PMsg f s k i)) eqn:E3; [discriminate|].
        destruct (I2 _ _ _ _ _ _ _ _ _ Ht0 Hs Hc H1) as [-> [-> ->]].
        rewrite path_eqb_refl in E3. discriminate.
      * destruct (path_eqb (PMsg g t k0 j) (PMsg f s k i)); [discriminate|].
        destruct (path_eqb (PMsg g t k0 j) (PMsg f' s' k i')); [discriminate|].
        exact (I2 _ _ _ _ _ _ _ _ _ Hs Hs' H1 H2).
    + rewrite Hl in H1, H2.
      destruct (path_eqb (PMsg g t k0 j) (PMsg f s k i)); [discriminate|].
      destruct (path_eqb (PMsg g t k0 j) (PMsg f' s' k i')); [discriminate|].
      exact (I2 _ _ _ _ _ _ _ _ _ Hs Hs' H1 H2).
Qed.

(* a message file is never rewritten: as long as its key exists it names the
   same content *)
Lemma legal_step_content lay m o m' f k i c f' i' c' :
  Inv m -> legal m o -> apply_op lay m o = Some m' ->
  file_at m f k i c -> file_at m' f' k i' c' -> c = c'.
Proof.
  intros [I1 I2] L A [s [Hs H1]] [s' [Hs' H2]].
  assert (LP2 : live_path (PMsg f' s' k i')) by (exists f', s', k, i'; split; [reflexivity|exact Hs']).
  destruct (legal_live _ _ _ _ L A) as [F|[HL|[HR|HU]]];
    [|destruct HL as (src & dst & c0 & -> & (g & t & k0 & j & -> & Ht0) & Hk & Hl)
     |destruct HR as (src & dst & c0 & -> & (g & t & k0 & j & -> & Ht0)
                      & (g' & t' & k1 & j' & -> & Ht1) & Hkk & Hc & Hl)
     |destruct HU as (p & -> & (g & t & k0 & j & -> & Ht0) & Hl)].
  - rewrite (F _ LP2) in H2.
    destruct (I2 _ _ _ _ _ _ _ _ _ Hs Hs' H1 H2) as [-> [-> ->]]. congruence.
  - cbn [key_of] in Hk. rewrite Hl in H2.
    destruct (path_eqb (PMsg g t k0 j) (PMsg f' s' k i')) eqn:E.
    + apply path_eqb_eq in E. inversion E; subst. rewrite (Hk _ _ _ Hs) in H1. discriminate.
    + destruct (I2 _ _ _ _ _ _ _ _ _ Hs Hs' H1 H2) as [-> [-> ->]]. congruence.
  - cbn [key_of] in Hkk. subst k1. rewrite Hl in H2.
    destruct (path_eqb (PMsg g' t' k0 j') (PMsg f' s' k i')) eqn:E.
    + apply path_eqb_eq in E. inversion E; subst.
      destruct (I2 _ _ _ _ _ _ _ _ _ Hs Ht0 H1 Hc) as [-> [-> ->]]. congruence.
    + destruct (path_eqb (PMsg g t k0 j) (PMsg f' s' k i')); [discriminate|].
      destruct (I2 _ _ _ _ _ _ _ _ _ Hs Hs' H1 H2) as [-> [-> ->]]. congruence.
  - rewrite Hl in H2. destruct (path_eqb (PMsg g t k0 j) (PMsg f' s' k i')); [discriminate|].
    destruct (I2 _ _ _ _ _ _ _ _ _ Hs Hs' H1 H2) as [-> [-> ->]]. congruence.
Qed.

(* ------------------------------------------------ runs and their prefixes *)
Lemma legal_run_apply lay m l m' : legal_run lay m l m' -> apply_ops lay m l = (m', true).
Proof. induction 1 as [|m o m1 l m2 L A R IH]; cbn [apply_ops]; [reflexivity|].
  rewrite A. exact IH. Qed.

Lemma legal_run_prefix lay m l m' k :
  legal_run lay m l m' -> exists mk, legal_run lay m (crash k l) mk.
Proof.
  intro R. revert k. induction R as [|m o m1 l m2 L A R IH]; intro k.
  - exists m. unfold crash. rewrite firstn_nil. constructor.
  - destruct k as [|k].
    + exists m. constructor.
    + destruct (IH k) as [mk Rk]. exists mk. unfold crash in *. cbn [firstn].
      econstructor; eassumption.
Qed.

Lemma legal_run_app lay m l1 m1 l2 m2 :
  legal_run lay m l1 m1 -> legal_run lay m1 l2 m2 -> legal_run lay m (l1 ++ l2) m2.
Proof. induction 1; cbn [app]; intro R2; [exact R2|]. econstructor; eauto. Qed.

Theorem run_inv lay m l m' : Inv m -> legal_run lay m l m' -> Inv m'.
Proof. intros I R. induction R as [|m o m1 l m2 L A R IH]; [exact I|].
  apply IH. exact (legal_step_inv _ _ _ _ I L A). Qed.

Theorem run_serves lay m l m' f v uid k fl c :
  legal_run lay m l m' -> ~ touched l k ->
  serves m f v uid k fl c -> serves m' f v uid k fl c.
Proof.
  intros R. induction R as [|m o m1 l m2 L A R IH]; intros Ht S; [exact S|].
  apply IH.
  - intro T. apply Ht. apply Exists_cons_tl. exact T.
  - apply (legal_step_serves _ _ _ _ _ _ _ _ _ _ L A); [|exact S].
    intro T. apply Ht. apply Exists_cons_hd. exact T.
Qed.

Lemma uid_stable_refl m : uid_stable m m.
Proof. intros f u Hu. exists u. split; [exact Hu|]. split; [reflexivity|].
  split; [apply N.le_refl|]. intros; assumption. Qed.

Lemma uid_stable_trans m1 m2 m3 : uid_stable m1 m2 -> uid_stable m2 m3 -> uid_stable m1 m3.
Proof.
  intros H12 H23 f u1 Hu1.
  destruct (H12 f u1 Hu1) as [u2 [Hu2 [Hv2 [Hn2 Ho2]]]].
  destruct (H23 f u2 Hu2) as [u3 [Hu3 [Hv3 [Hn3 Ho3]]]].
  exists u3. split; [exact Hu3|]. split; [congruence|]. split; [lia|].
  intros uid k Hr Hlt. apply Ho2; [|exact Hlt]. apply Ho3; [exact Hr|lia].
Qed.

Theorem run_uid_stable lay m l m' : legal_run lay m l m' -> uid_stable m m'.
Proof.
  induction 1 as [|m o m1 l m2 L A R IH]; [apply uid_stable_refl|].
  apply (uid_stable_trans _ m1); [|exact IH].
  intros f u Hu. destruct (legal_step_uidl _ _ _ _ _ _ L A Hu) as [u' [Hu' [Hv [Hn [Ho _]]]]].
  exists u'. repeat split; assumption.
Qed.

(* uid lists read back in any state of a run: a uid names one key for ever *)
Theorem uid_names_one_key lay m l m' f u u' uid k k' :
  Inv m -> legal_run lay m l m' ->
  uidl_at m f u -> uidl_at m' f u' ->
  recorded u uid k -> recorded u' uid k' -> k = k'.
Proof.
  intros I R Hu Hu' Hr Hr'.
  destruct (run_uid_stable _ _ _ _ R f u Hu) as [u2 [Hu2 [_ [_ Ho]]]].
  assert (u2 = u').
  { destruct Hu2 as [t [H1 H2]]. destruct Hu' as [t' [H1' H2']]. congruence. }
  subst u2.
  destruct I as [I1 _]. destruct Hu as [t [Hl Hp]].
  destruct (I1 f _ Hl) as [t0 [u0 [Et [Hp0 [Hnd Hlt]]]]].
  injection Et as <-. rewrite Hp in Hp0. injection Hp0 as <-.
  assert (Hlt' : uid < u_next u).
  { destruct Hr as [r [Hin [<- _]]]. exact (Hlt r Hin). }
  specialize (Ho uid k' Hr' Hlt').
  destruct Hr as [r [Hin [Hu1 Hk1]]]. destruct Ho as [r' [Hin' [Hu1' Hk1']]].
  assert (r = r').
  { clear - Hnd Hin Hin' Hu1 Hu1'. revert Hnd Hin Hin'. generalize (u_recs u).
    induction l as [|x l IH]; cbn [map In]; intros Hnd Hin Hin'; [contradiction|].
    inversion Hnd as [|? ? Hx Hl]; subst.
    destruct Hin as [->|Hin], Hin' as [->|Hin'].
    - reflexivity.
    - exfalso. apply Hx. apply in_map_iff. exists r'. split; [congruence|exact Hin'].
    - exfalso. apply Hx. apply in_map_iff. exists r. split; [congruence|exact Hin].
    - exact (IH Hl Hin Hin'). }
  subst r'. congruence.
Qed.
