(* MaildirFS/Examples.v — a small concrete store and history used by the
   witnesses ([_refuted] theorems, non-vacuity examples). Definitions only. *)
From PV Require Import Base.Prelude Base.Decimal MaildirFS.FS MaildirFS.UidList MaildirFS.Ops.
Local Open Scope N_scope.

Definition ex_uidl0 : uidl :=
  {| u_val := 7; u_next := 1; u_guid := [97; 98]; u_recs := [] |}.

(* a freshly provisioned INBOX: its directories and an empty uid list *)
Definition ex_fs0 : fs :=
  [ (PDir [], Dir); (PSub [] STmp, Dir); (PSub [] SNew, Dir); (PSub [] SCur, Dir);
    (PCtl [] CUidl, File (Text (print_uidl ex_uidl0))) ].

Definition ex_msg (n : N) (fl : bytes) : amsg :=
  {| a_flags := fl; a_cid := n; a_key := [107; 48 + n]; a_tmp := [116; 48 + n];
     a_e := [101; 48 + n]; a_t := [120; 48 + n] |}.

(* APPEND INBOX (\Seen) m1 ; APPEND INBOX m2 m3 (a two-message APPEND) *)
Definition ex_hist : list cmd :=
  [ CAppend [] [ex_msg 1 [83]]; CAppend [] [ex_msg 2 []; ex_msg 3 [70]] ].

Definition ex_ops : list fsop := hist_ops LPlus ex_fs0 None ex_hist.

Definition ex_state (k : nat) : fs := fst (apply_ops LPlus ex_fs0 (crash k ex_ops)).

(* number of operations of the first command (it is acknowledged once they
   are all done) *)
Definition ex_first_len : nat :=
  length (o_ops (run_cmd LPlus ex_fs0 None (CAppend [] [ex_msg 1 [83]]))).

Definition served_cids (v : fview) : list N :=
  match v with VServed _ _ ms => map s_cid ms | _ => [] end.

(* SELECT INBOX ; APPEND f ; MOVE of the message into another folder *)
Definition ex_fs1 : fs :=
  ex_fs0 ++
  [ (PDir [[102]], Dir); (PSub [[102]] STmp, Dir); (PSub [[102]] SNew, Dir);
    (PSub [[102]] SCur, Dir); (PCtl [[102]] CMdf, File (Text []));
    (PCtl [[102]] CUidl, File (Text (print_uidl {| u_val := 9; u_next := 1;
                                                    u_guid := [99]; u_recs := [] |}))) ].

Definition ex_move_hist : list cmd :=
  [ CAppend [] [ex_msg 1 [83]]; CSelect [] false [[107; 49]];
    CMove [1] [[102]] [[116; 53]; [116; 54]] ].
Definition ex_move_ops : list fsop := hist_ops LPlus ex_fs1 None ex_move_hist.
Definition ex_move_state (k : nat) : fs :=
  fst (apply_ops LPlus ex_fs1 (crash k ex_move_ops)).
