(* MaildirFS/DeleteProofs.v — DELETE, external delivery and adoption in the
   history / crash theorems (definitions in Delete.v). *)
From PV Require Import Base.Prelude Base.Decimal MaildirFS.FS MaildirFS.UidList MaildirFS.Ops
  MaildirFS.Spec MaildirFS.FSProofs MaildirFS.UidListProofs MaildirFS.DurabilityProofs
  MaildirFS.Legal MaildirFS.LegalProofs MaildirFS.CrashProofs MaildirFS.CommandProofs
  MaildirFS.RecoverProofs MaildirFS.Delete.
Local Open Scope N_scope.

(* ------------------------------------------------ removing an entry *)
Lemma inv_remove m p : Inv m -> Inv (remove m p).
Proof.
  intros [Iu Ik Inm Id]. constructor.
  - intros f n H. rewrite lookup_remove in H.
    destruct (path_eqb p (PCtl f CUidl)); [discriminate|]. exact (Iu f n H).
  - intros f s i n f' s' i' n' k Hs Hs' H H'. rewrite lookup_remove in H, H'.
    destruct (path_eqb p (PMsg f s k i)); [discriminate|].
    destruct (path_eqb p (PMsg f' s' k i')); [discriminate|].
    exact (Ik _ _ _ _ _ _ _ _ _ Hs Hs' H H').
  - intros f s k i n Hs H. rewrite lookup_remove in H.
    destruct (path_eqb p (PMsg f s k i)); [discriminate|]. exact (Inm _ _ _ _ _ Hs H).
  - exact (nodup_remove _ _ Id).
Qed.

Lemma removal_apply lay m o m' f :
  removes_in f o = true -> apply_op lay m o = Some m' ->
  exists p, m' = remove m p /\ folder_of p = f.
Proof.
  destruct o as [p|p|p|p c|p q|a b|p q|p|p]; cbn [removes_in]; intro H; try discriminate;
    intro A; cbn [apply_op] in A; apply fname_eqb_eq in H.
  - destruct (lookup m p) as [[|c]|]; try discriminate.
    destruct (existsb (fun e => is_child p (fst e)) m); [discriminate|].
    injection A as <-. exists p. split; [reflexivity|exact H].
  - destruct (lookup m p) as [[|c]|]; try discriminate.
    injection A as <-. exists p. split; [reflexivity|exact H].
Qed.

Lemma del_kind_removes o : del_kind o = true -> exists f, removes_in f o = true.
Proof.
  destruct o as [p|p|p|p c|p q|a b|p q|p|p]; cbn [del_kind]; intro H; try discriminate.
  - exists (folder_of p). cbn [removes_in]. apply fname_eqb_refl.
  - exists (folder_of p). cbn [removes_in]. apply fname_eqb_refl.
Qed.

Lemma xlegal_b_sound lay m o : xlegal_b lay m o = true -> xlegal lay m o.
Proof.
  unfold xlegal_b, xlegal. intro H. apply orb_true_iff in H as [H|H];
    [left; exact (legal_b_sound _ _ _ H)|right; exact H].
Qed.

Lemma xstep_inv lay m o m' :
  Inv m -> xlegal lay m o -> apply_op lay m o = Some m' -> Inv m'.
Proof.
  intros I [L|D] A; [exact (legal_step_inv _ _ _ _ I L A)|].
  destruct (del_kind_removes _ D) as [f R].
  destruct (removal_apply _ _ _ _ _ R A) as [p [-> _]]. exact (inv_remove _ _ I).
Qed.

Lemma xapply_ops_inv lay l : forall m,
  Inv m -> xlegal_ops_b lay m l = true -> Inv (fst (apply_ops lay m l)).
Proof.
  induction l as [|o l IH]; intros m I H; cbn [apply_ops]; [exact I|].
  cbn [xlegal_ops_b] in H. apply andb_true_iff in H as [H1 H2].
  destruct (apply_op lay m o) as [m1|] eqn:A; [|exact I].
  apply IH; [exact (xstep_inv _ _ _ _ I (xlegal_b_sound _ _ _ H1) A)|exact H2].
Qed.

Lemma xlegal_ops_b_crash lay l : forall m k,
  xlegal_ops_b lay m l = true -> xlegal_ops_b lay m (crash k l) = true.
Proof.
  unfold crash. induction l as [|o l IH]; intros m k H; destruct k as [|k]; cbn [firstn];
    try reflexivity.
  cbn [xlegal_ops_b] in *. apply andb_true_iff in H as [H1 H2]. rewrite H1. cbn [andb].
  destruct (apply_op lay m o) as [m1|]; [exact (IH m1 k H2)|reflexivity].
Qed.

Theorem xcrash_inv lay m l k :
  Inv m -> xlegal_ops_b lay m l = true -> Inv (after_crash lay m l k).
Proof. intros I H. exact (xapply_ops_inv _ _ _ I (xlegal_ops_b_crash _ _ _ k H)). Qed.

Lemma legal_ops_x lay l : forall m, legal_ops_b lay m l = true -> xlegal_ops_b lay m l = true.
Proof.
  induction l as [|o l IH]; intros m H; [reflexivity|].
  cbn [legal_ops_b xlegal_ops_b] in *. apply andb_true_iff in H as [H1 H2].
  unfold xlegal_b. rewrite H1. cbn [orb andb].
  destruct (apply_op lay m o) as [m1|]; [exact (IH m1 H2)|reflexivity].
Qed.

Lemma xlegal_ops_b_app lay l1 : forall m l2,
  xlegal_ops_b lay m l1 = true ->
  (snd (apply_ops lay m l1) = true -> xlegal_ops_b lay (fst (apply_ops lay m l1)) l2 = true) ->
  xlegal_ops_b lay m (l1 ++ l2) = true.
Proof.
  induction l1 as [|o l1 IH]; intros m l2 H K; cbn [app]; [exact (K eq_refl)|].
  cbn [xlegal_ops_b apply_ops] in *. apply andb_true_iff in H as [H1 H2]. rewrite H1. cbn [andb].
  destruct (apply_op lay m o) as [m1|]; [|reflexivity]. exact (IH m1 l2 H2 K).
Qed.

(* operations legal whatever the state *)
Definition xstatic (lay : layout) (o : fsop) : bool := static lay o || del_kind o.

Lemma xstatic_ops_legal lay l : forallb (xstatic lay) l = true ->
  forall m, xlegal_ops_b lay m l = true.
Proof.
  induction l as [|o l IH]; intros H m; [reflexivity|].
  cbn [forallb] in H. apply andb_true_iff in H as [Ho Hl]. cbn [xlegal_ops_b].
  assert (X : xlegal_b lay m o = true).
  { unfold xlegal_b, xstatic in *. apply orb_true_iff in Ho as [Ho|Ho];
      [rewrite (static_legal_b _ m _ Ho); reflexivity|rewrite Ho; apply orb_true_r]. }
  rewrite X. cbn [andb]. destruct (apply_op lay m o) as [m1|]; [exact (IH Hl m1)|reflexivity].
Qed.

Lemma static_xstatic lay l : forallb (static lay) l = true -> forallb (xstatic lay) l = true.
Proof.
  intro H. apply forallb_forall. intros o Ho. unfold xstatic.
  rewrite (proj1 (forallb_forall _ _) H o Ho). reflexivity.
Qed.

(* ------------------------------------------------ DELETE is legal *)
Lemma remove_op_xstatic lay f p :
  is_root f = false -> own_entry f p = true -> xstatic lay (remove_op p) = true.
Proof.
  intros Hf H. unfold own_entry in H. apply andb_true_iff in H as [H1 H2].
  apply fname_eqb_eq in H1. unfold xstatic.
  destruct p as [g|g s|g s k i|g c|g n]; cbn [folder_of] in H1; subst g;
    cbn [remove_op del_kind folder_of static legal_b junk].
  - discriminate.
  - rewrite Hf. apply orb_true_r.
  - destruct s; reflexivity.
  - rewrite Hf. apply orb_true_r.
  - reflexivity.
Qed.

Lemma delete_ops_xstatic lay f order :
  is_root f = false -> forallb (own_entry f) order = true ->
  forallb (xstatic lay) (delete_ops f order) = true.
Proof.
  intros Hf H. unfold delete_ops. rewrite forallb_app. apply andb_true_iff. split.
  - apply forallb_forall. intros o Ho. apply in_map_iff in Ho as [p [<- Hp]].
    exact (remove_op_xstatic lay f p Hf (proj1 (forallb_forall _ _) H p Hp)).
  - cbn [forallb]. unfold xstatic. cbn [del_kind folder_of]. rewrite Hf. cbn [negb].
    rewrite orb_true_r. reflexivity.
Qed.

Theorem delete_legal lay m sel f order :
  xlegal_ops_b lay m (o_ops (run_xcmd lay m sel (XDelete f order))) = true.
Proof.
  cbn [run_xcmd]. destruct (is_root f) eqn:Hf; [reflexivity|].
  destruct (selects sel f); [reflexivity|].
  destruct (negb (exists_ m (PDir f))).
  { destruct lay; cbn [o_ops]; [|reflexivity]. apply xstatic_ops_legal. cbn [forallb].
    unfold xstatic. cbn [del_kind folder_of]. rewrite Hf. cbn [negb]. rewrite orb_true_r.
    reflexivity. }
  destruct (match lay with LFs => has_child m f | LPlus => false end); [reflexivity|].
  destruct (perm_of path_eqb order (entries_of m f) && forallb (own_entry f) order
            && class_sorted order) eqn:G; [|reflexivity].
  cbn [o_ops]. apply andb_true_iff in G as [G _]. apply andb_true_iff in G as [_ G].
  apply xstatic_ops_legal. rewrite forallb_app. apply andb_true_iff. split.
  - exact (delete_ops_xstatic lay f order Hf G).
  - exact (static_xstatic lay _ (tail_ops_static lay sel None)).
Qed.

(* ------------------------------------------------ delivery is legal *)
Theorem deliver_legal lay m sel f s key info cid :
  Inv m -> legal_ops_b lay m (o_ops (run_xcmd lay m sel (XDeliver f s key info cid))) = true.
Proof.
  intro I. cbn [run_xcmd].
  destruct (live s && folder_ok m f && key_fresh m key && wf_key key && wf_info info) eqn:G;
    [|reflexivity].
  apply andb_true_iff in G as [G Hi]. apply andb_true_iff in G as [G Hk].
  apply andb_true_iff in G as [G Hfr]. apply andb_true_iff in G as [Hs _].
  cbn [o_ops]. rewrite <- (app_nil_r (add_ops f s key info cid)).
  apply add_k; [exact I|exact Hs|exact (key_fresh_unused _ _ Hfr)|exact Hk|exact Hi|].
  intros m1 _ _. reflexivity.
Qed.

(* ------------------------------------------------ adoption *)
Lemma extends_trans (P : bytes -> Prop) u1 u2 u3 :
  extends P u1 u2 -> extends P u2 u3 -> extends P u1 u3.
Proof.
  intros [V1 [N1 [O1 K1]]] [V2 [N2 [O2 K2]]]. split; [congruence|]. split; [lia|]. split.
  - intros uid k R Hl. apply O1; [|exact Hl]. apply O2; [exact R|lia].
  - intros uid k R Hp. apply K2; [|exact Hp]. exact (K1 _ _ R Hp).
Qed.

Lemma extends_refl (P : bytes -> Prop) u : extends P u u.
Proof. split; [reflexivity|]. split; [lia|]. split; intros; assumption. Qed.

Lemma adopt_with_ok (P : bytes -> Prop) : forall fl ets u,
  wf_uidl u = true -> uids_ok u -> files_ok fl -> forallb wf_et ets = true ->
  wf_uidl (adopt_with u fl ets) = true /\ uids_ok (adopt_with u fl ets)
  /\ extends P u (adopt_with u fl ets).
Proof.
  induction fl as [|x fl IH]; intros ets u Hw Hok Hfl Het; cbn [adopt_with].
  - split; [exact Hw|]. split; [exact Hok|apply extends_refl].
  - destruct ets as [|[e t] ets].
    + split; [exact Hw|]. split; [exact Hok|apply extends_refl].
    + cbn [forallb] in Het. apply andb_true_iff in Het as [Het1 Het].
      unfold wf_et in Het1. cbn [fst snd] in Het1. apply andb_true_iff in Het1 as [He Ht].
      destruct (Hfl x (or_introl eq_refl)) as [_ [Hk Hi]].
      set (u' := with_rec u [(69, e); (84, t)] (m_key x ++ 58 :: m_info x)).
      assert (Hw' : wf_uidl u' = true).
      { apply with_rec_wf; try assumption; [|reflexivity].
        cbn [forallb]. unfold wf_field. cbn [fst snd]. rewrite He, Ht. reflexivity. }
      assert (Hok' : uids_ok u') by exact (with_rec_uids_ok _ _ _ Hok).
      destruct (IH ets u' Hw' Hok' (fun y Hy => Hfl y (or_intror Hy)) Het) as [A [B C]].
      split; [exact A|]. split; [exact B|].
      exact (extends_trans P _ _ _ (with_rec_extends P _ _ _ Hok) C).
Qed.

Lemma read_uidl_at m f u : read_uidl m f = Some (Ok u) -> uidl_at m f u.
Proof.
  unfold read_uidl. destruct (lookup m (PCtl f CUidl)) as [[|[c|t]]|] eqn:E; try discriminate.
  intro H. injection H as H. exists t. split; [exact E|exact H].
Qed.

Lemma files_ok_filter (p : mfile -> bool) fl : files_ok fl -> files_ok (filter p fl).
Proof. intros H x Hx. apply filter_In in Hx as [Hx _]. exact (H x Hx). Qed.

Theorem scan_legal lay m sel f tmp ets :
  Inv m -> legal_ops_b lay m (o_ops (run_xcmd lay m sel (XScan f tmp ets))) = true.
Proof.
  intro I. cbn [run_xcmd]. destruct (negb (folder_ok m f)); [reflexivity|].
  destruct (read_uidl m f) as [[u| | |]|] eqn:R; try reflexivity.
  destruct (unknown_files u (files_of m f)) as [|x unk] eqn:U; [reflexivity|].
  destruct (Nat.eqb (length ets) (length (x :: unk)) && forallb wf_et ets) eqn:G; [|reflexivity].
  apply andb_true_iff in G as [_ Het]. cbn [o_ops].
  pose proof (read_uidl_at _ _ _ R) as Hu.
  destruct (inv_uidl_text _ _ _ I Hu) as [_ [Hw Hok]].
  assert (Hfl : files_ok (x :: unk)).
  { rewrite <- U. unfold unknown_files. apply files_ok_filter. exact (files_of_ok _ _ I). }
  destruct (adopt_with_ok (has_file m f) (x :: unk) ets u Hw Hok Hfl Het) as [A [B C]].
  rewrite <- (app_nil_r (locked_rewrite _ _ _)).
  apply rewrite_k; [exact I|exact A|exact B| |].
  - intros u0 Hu0. rewrite <- (uidl_at_fun _ _ _ _ Hu Hu0). exact C.
  - intros m1 _ _. reflexivity.
Qed.

(* ------------------------------------------------ every extended command *)
Theorem run_xcmd_legal lay m sel x :
  Inv m -> xlegal_ops_b lay m (o_ops (run_xcmd lay m sel x)) = true.
Proof.
  intro I. destruct x as [c|f order|f s key info cid|f tmp ets].
  - apply legal_ops_x. exact (run_cmd_legal lay m sel c I).
  - apply delete_legal.
  - apply legal_ops_x. exact (deliver_legal lay m sel f s key info cid I).
  - apply legal_ops_x. exact (scan_legal lay m sel f tmp ets I).
Qed.

Theorem xhist_ops_legal lay h : forall m sel,
  Inv m -> xlegal_ops_b lay m (xhist_ops lay m sel h) = true.
Proof.
  induction h as [|c r IH]; intros m sel I; [reflexivity|]. cbn [xhist_ops].
  pose proof (run_xcmd_legal lay m sel c I) as Hc.
  apply xlegal_ops_b_app; [exact Hc|]. intros _. apply IH. exact (xapply_ops_inv _ _ _ I Hc).
Qed.

Theorem xhist_crash_inv lay m sel h k :
  Inv m -> Inv (after_crash lay m (xhist_ops lay m sel h) k).
Proof. intro I. exact (xcrash_inv _ _ _ _ I (xhist_ops_legal lay h m sel I)). Qed.

(* a history without DELETE is a history of legal operations in the sense of
   the C15 theorems: all of them apply to it as they stand *)
Definition no_delete (x : xcmd) : bool := match x with XDelete _ _ => false | _ => true end.

Theorem xhist_no_delete_legal lay h : forall m sel,
  Inv m -> forallb no_delete h = true -> legal_ops_b lay m (xhist_ops lay m sel h) = true.
Proof.
  induction h as [|c r IH]; intros m sel I H; [reflexivity|]. cbn [xhist_ops].
  cbn [forallb] in H. apply andb_true_iff in H as [Hc Hr].
  assert (L : legal_ops_b lay m (o_ops (run_xcmd lay m sel c)) = true).
  { destruct c as [c|f order|f s key info cid|f tmp ets]; [|discriminate| |].
    - exact (run_cmd_legal lay m sel c I).
    - exact (deliver_legal lay m sel f s key info cid I).
    - exact (scan_legal lay m sel f tmp ets I). }
  apply legal_ops_b_app; [exact L|]. intros _. apply IH; [|exact Hr].
  exact (apply_ops_inv _ _ _ I L).
Qed.

(* ------------------------------------------------ isolation of DELETE *)
(* removals inside folder f and scratch operations: what a DELETE consists of *)
Definition del_or_scratch (f : fname) (o : fsop) : bool := removes_in f o || scratch o.

(* m1 is m with some entries of folder f removed (as far as a restarted
   server looks) *)
Definition shrunk_in (f : fname) (m m1 : fs) : Prop :=
  forall q, junk q = false ->
    lookup m1 q = lookup m q \/ (lookup m1 q = None /\ folder_of q = f).

Lemma shrunk_refl f m : shrunk_in f m m.
Proof. intros q _. left. reflexivity. Qed.

Lemma shrunk_step lay f m m1 o m2 :
  shrunk_in f m m1 -> del_or_scratch f o = true -> apply_op lay m1 o = Some m2 ->
  shrunk_in f m m2.
Proof.
  intros S D A q Hq. unfold del_or_scratch in D. apply orb_true_iff in D as [D|D].
  - destruct (removal_apply _ _ _ _ _ D A) as [p [-> Hp]]. rewrite lookup_remove.
    destruct (path_eqb p q) eqn:E.
    + apply path_eqb_eq in E. subst q. right. split; [reflexivity|exact Hp].
    + exact (S q Hq).
  - rewrite (scratch_view _ _ _ _ A D q Hq). exact (S q Hq).
Qed.

Lemma shrunk_ops lay f l : forallb (del_or_scratch f) l = true -> forall m m1,
  shrunk_in f m m1 -> shrunk_in f m (fst (apply_ops lay m1 l)).
Proof.
  induction l as [|o l IH]; intros H m m1 S; cbn [apply_ops]; [exact S|].
  cbn [forallb] in H. apply andb_true_iff in H as [Ho Hl].
  destruct (apply_op lay m1 o) as [m2|] eqn:A; [|exact S].
  exact (IH Hl m m2 (shrunk_step _ _ _ _ _ _ S Ho A)).
Qed.

Lemma forallb_firstn {A} (p : A -> bool) (l : list A) k :
  forallb p l = true -> forallb p (firstn k l) = true.
Proof.
  revert k. induction l as [|x l IH]; intros k H; destruct k; cbn [firstn forallb]; try reflexivity.
  cbn [forallb] in H. apply andb_true_iff in H as [H1 H2]. rewrite H1. exact (IH k H2).
Qed.

Lemma remove_op_in f p : own_entry f p = true -> removes_in f (remove_op p) = true.
Proof.
  unfold own_entry. intro H. apply andb_true_iff in H as [H _].
  destruct p; cbn [remove_op removes_in]; exact H.
Qed.

Lemma delete_cmd_shape lay m sel f order :
  forallb (del_or_scratch f) (o_ops (run_xcmd lay m sel (XDelete f order))) = true.
Proof.
  cbn [run_xcmd]. destruct (is_root f); [reflexivity|].
  destruct (selects sel f); [reflexivity|].
  destruct (negb (exists_ m (PDir f))).
  { destruct lay; cbn [o_ops forallb]; [|reflexivity]. unfold del_or_scratch.
    cbn [removes_in folder_of]. rewrite fname_eqb_refl. reflexivity. }
  destruct (match lay with LFs => has_child m f | LPlus => false end); [reflexivity|].
  destruct (perm_of path_eqb order (entries_of m f) && forallb (own_entry f) order
            && class_sorted order) eqn:G; [|reflexivity].
  cbn [o_ops]. apply andb_true_iff in G as [G _]. apply andb_true_iff in G as [_ G].
  unfold delete_ops. rewrite !forallb_app. apply andb_true_iff. split; [apply andb_true_iff; split|].
  - apply forallb_forall. intros o Ho. apply in_map_iff in Ho as [p [<- Hp]].
    unfold del_or_scratch.
    rewrite (remove_op_in f p (proj1 (forallb_forall _ _) G p Hp)). reflexivity.
  - cbn [forallb]. unfold del_or_scratch. cbn [removes_in folder_of]. rewrite fname_eqb_refl.
    reflexivity.
  - unfold tail_ops. destruct sel as [[s ro]|]; [|reflexivity].
    unfold reset_ops, lock_op, unlock_op, del_or_scratch. cbn [forallb scratch junk].
    rewrite !orb_true_r. reflexivity.
Qed.

(* whatever the kill point of a DELETE: everything a restarted server looks
   at outside the deleted folder is as before, and inside the folder entries
   have only disappeared *)
Theorem delete_crash_shrunk lay m sel f order k :
  shrunk_in f m (after_crash lay m (o_ops (run_xcmd lay m sel (XDelete f order))) k).
Proof.
  unfold after_crash, crash. apply shrunk_ops; [|apply shrunk_refl].
  apply forallb_firstn. apply delete_cmd_shape.
Qed.

Theorem delete_crash_isolated lay m sel f order k q :
  junk q = false -> folder_of q <> f ->
  lookup (after_crash lay m (o_ops (run_xcmd lay m sel (XDelete f order))) k) q = lookup m q.
Proof.
  intros Hq Hf. destruct (delete_crash_shrunk lay m sel f order k q Hq) as [E|[_ E]];
    [exact E|contradiction].
Qed.

Lemma shrunk_file_at f m m1 g k i c :
  shrunk_in f m m1 -> file_at m1 g k i c -> file_at m g k i c.
Proof.
  intros S [s [Hs L]]. exists s. split; [exact Hs|].
  destruct (S (PMsg g s k i) (live_not_junk _ _ _ _ Hs)) as [E|[E _]]; congruence.
Qed.

Lemma shrunk_uidl_at f m m1 g u : shrunk_in f m m1 -> uidl_at m1 g u -> uidl_at m g u.
Proof.
  intros S [t [L P]]. exists t. split; [|exact P].
  destruct (S (PCtl g CUidl) eq_refl) as [E|[E _]]; congruence.
Qed.

(* the half-deleted folder is served consistently: whatever a restarted
   server still serves from it (or from any folder) was served before, under
   the same UIDVALIDITY and uid, with the same flags and content *)
Theorem delete_crash_serves_back lay m sel f order k g v uid key fl c :
  serves (after_crash lay m (o_ops (run_xcmd lay m sel (XDelete f order))) k) g v uid key fl c ->
  serves m g v uid key fl c.
Proof.
  pose proof (delete_crash_shrunk lay m sel f order k) as S.
  intros [u [i [Hu [Hv [Hr [Hf Hfl]]]]]]. exists u, i.
  split; [exact (shrunk_uidl_at _ _ _ _ _ S Hu)|]. split; [exact Hv|]. split; [exact Hr|].
  split; [exact (shrunk_file_at _ _ _ _ _ _ _ S Hf)|exact Hfl].
Qed.

(* the other folders and the INBOX serve exactly what they served *)
Theorem delete_crash_serves_other lay m sel f order k g v uid key fl c :
  g <> f -> serves m g v uid key fl c ->
  serves (after_crash lay m (o_ops (run_xcmd lay m sel (XDelete f order))) k) g v uid key fl c.
Proof.
  intros Hg [u [i [[t [Lu Pu]] [Hv [Hr [[s [Hs Lf]] Hfl]]]]]]. exists u, i.
  split.
  { exists t. split; [|exact Pu].
    rewrite (delete_crash_isolated lay m sel f order k (PCtl g CUidl) eq_refl Hg). exact Lu. }
  split; [exact Hv|]. split; [exact Hr|]. split; [|exact Hfl].
  exists s. split; [exact Hs|].
  rewrite (delete_crash_isolated lay m sel f order k (PMsg g s key i)
             (live_not_junk _ _ _ _ Hs) Hg). exact Lf.
Qed.

(* the subscriptions file is untouched (f is not the INBOX) *)
Theorem delete_crash_subs lay m sel f order k :
  is_root f = false ->
  recover_subs (after_crash lay m (o_ops (run_xcmd lay m sel (XDelete f order))) k)
  = recover_subs m.
Proof.
  intro Hf. unfold recover_subs.
  rewrite (delete_crash_isolated lay m sel f order k (PCtl [] CSubs) eq_refl); [reflexivity|].
  cbn [folder_of]. intro E. subst f. discriminate.
Qed.

(* ------------------------------------------------ DELETE then CREATE *)
(* a completed DELETE leaves no entry of the folder *)
Lemma perm_of_in {A} (eqb : A -> A -> bool) (l l' : list A) x :
  (forall a b, eqb a b = true -> a = b) ->
  perm_of eqb l l' = true -> In x l' -> In x l.
Proof.
  intros Heq H Hx. unfold perm_of in H. apply andb_true_iff in H as [_ H].
  pose proof (proj1 (forallb_forall _ _) H x Hx) as E. apply existsb_exists in E as [y [Hy E]].
  apply Heq in E. subst y. exact Hy.
Qed.

(* entries only disappear under removals, and a removed path is gone *)
Lemma removal_gone lay f l : forallb (del_or_scratch f) l = true ->
  forall m m', apply_ops lay m l = (m', true) ->
  forall p, In (remove_op p) l -> junk p = false -> lookup m' p = None.
Proof.
  induction l as [|o l IH]; intros H m m' A p Hin Hj; [destruct Hin|].
  cbn [forallb] in H. apply andb_true_iff in H as [Ho Hl]. cbn [apply_ops] in A.
  destruct (apply_op lay m o) as [m1|] eqn:A1; [|discriminate].
  destruct Hin as [E|Hin]; [|exact (IH Hl m1 m' A p Hin Hj)].
  subst o.
  assert (G : lookup m1 p = None).
  { destruct p as [g|g s|g s k i|g c|g n]; cbn [remove_op apply_op] in A1.
    - destruct (lookup m (PDir g)) as [[|c]|]; try discriminate.
      destruct (existsb _ m); [discriminate|]. injection A1 as <-.
      rewrite lookup_remove, path_eqb_refl. reflexivity.
    - destruct (lookup m (PSub g s)) as [[|c]|]; try discriminate.
      destruct (existsb _ m); [discriminate|]. injection A1 as <-.
      rewrite lookup_remove, path_eqb_refl. reflexivity.
    - destruct (lookup m (PMsg g s k i)) as [[|c]|]; try discriminate. injection A1 as <-.
      rewrite lookup_remove, path_eqb_refl. reflexivity.
    - destruct (lookup m (PCtl g c)) as [[|c0]|]; try discriminate. injection A1 as <-.
      rewrite lookup_remove, path_eqb_refl. reflexivity.
    - discriminate. }
  pose proof (shrunk_ops lay f l Hl m1 m1 (shrunk_refl f m1)) as S. rewrite A in S. cbn [fst] in S.
  destruct (S p Hj) as [E|[E _]]; congruence.
Qed.

Lemma In_entries m f p n : lookup m p = Some n -> folder_of p = f ->
  (forall g, p <> PDir g) -> In p (entries_of m f).
Proof.
  intros L Hf Hd. unfold entries_of. apply filter_In. split.
  - apply lookup_In in L. apply in_map_iff. exists (p, n). split; [reflexivity|exact L].
  - unfold own_entry. rewrite Hf, fname_eqb_refl. destruct p; try reflexivity.
    exfalso. exact (Hd _ eq_refl).
Qed.

(* after an acknowledged DELETE nothing a server looks at is left of the
   folder: no uid list, no message file, no directory *)
Theorem delete_acked_gone lay m sel f order m' :
  let o := run_xcmd lay m sel (XDelete f order) in
  o_ack o = AOk -> apply_ops lay m (o_ops o) = (m', true) ->
  forall p, junk p = false -> folder_of p = f -> lookup m' p = None.
Proof.
  cbn zeta. intros Hack A p Hj Hf.
  pose proof (delete_cmd_shape lay m sel f order) as Sh.
  revert Hack A Sh. cbn [run_xcmd]. destruct (is_root f); [discriminate|].
  destruct (selects sel f); [discriminate|].
  destruct (negb (exists_ m (PDir f))); [discriminate|].
  destruct (match lay with LFs => has_child m f | LPlus => false end); [discriminate|].
  destruct (perm_of path_eqb order (entries_of m f) && forallb (own_entry f) order
            && class_sorted order) eqn:G; [|discriminate].
  cbn [o_ack o_ops]. intros _ A Sh.
  apply andb_true_iff in G as [G _]. apply andb_true_iff in G as [Gp _].
  destruct (lookup m p) as [n|] eqn:L.
  - (* p existed: it is in the order (or is the folder directory), so it was removed *)
    apply (removal_gone lay f _ Sh m m' A p); [|exact Hj].
    apply in_or_app. left. unfold delete_ops. apply in_or_app.
    destruct p as [g|g s|g s k i|g c|g n0]; cbn [folder_of] in Hf; subst g.
    + right. left. reflexivity.
    + left. apply in_map. apply (perm_of_in path_eqb _ _ _ (fun a b => proj1 (path_eqb_eq a b)) Gp).
      apply (In_entries m f _ n L eq_refl). intros g; discriminate.
    + left. apply in_map. apply (perm_of_in path_eqb _ _ _ (fun a b => proj1 (path_eqb_eq a b)) Gp).
      apply (In_entries m f _ n L eq_refl). intros g; discriminate.
    + left. apply in_map. apply (perm_of_in path_eqb _ _ _ (fun a b => proj1 (path_eqb_eq a b)) Gp).
      apply (In_entries m f _ n L eq_refl). intros g; discriminate.
    + left. apply in_map. apply (perm_of_in path_eqb _ _ _ (fun a b => proj1 (path_eqb_eq a b)) Gp).
      apply (In_entries m f _ n L eq_refl). intros g; discriminate.
  - pose proof (shrunk_ops lay f _ Sh m m (shrunk_refl f m)) as S. rewrite A in S. cbn [fst] in S.
    destruct (S p Hj) as [E|[E _]]; congruence.
Qed.

(* DELETE f; CREATE f: the new folder starts from an empty uid list with the
   freshly drawn validity; nothing of the old folder is left to be served or
   adopted, so no uid of the deleted mailbox can come back *)
Theorem delete_then_create_fresh lay m sel f order m1 val guid tmp m2 :
  let o1 := run_xcmd lay m sel (XDelete f order) in
  o_ack o1 = AOk -> apply_ops lay m (o_ops o1) = (m1, true) ->
  let o2 := run_cmd lay m1 (o_sel o1) (CCreate f val guid tmp) in
  o_ack o2 = AOk -> apply_ops lay m1 (o_ops o2) = (m2, true) ->
  files_of m1 f = [] /\ read_uidl m1 f = None
  /\ uidl_at m2 f {| u_val := val; u_next := 1; u_guid := guid; u_recs := [] |}
  /\ (forall u, uidl_at m2 f u -> u_val u = val /\ u_recs u = [])
  /\ (forall v uid key fl c, ~ serves m2 f v uid key fl c).
Proof.
  cbn zeta. intros Hack1 A1 Hack2 A2.
  pose proof (delete_acked_gone lay m sel f order m1 Hack1 A1) as Gone.
  destruct (cmd_create_acked lay m1 _ f val guid tmp m2 Hack2 A2) as [_ Hu2].
  split; [|split; [|split; [exact Hu2|split]]].
  - unfold files_of. destruct (flat_map _ m1) as [|x r] eqn:E; [reflexivity|exfalso].
    assert (Hx : In x (flat_map (fun e : path * node =>
      match e with
      | (PMsg g s k i, File (Opaque c)) =>
          if fname_eqb f g && negb (sub_eqb s STmp)
          then [{| m_sub := s; m_key := k; m_info := i; m_cid := c |}] else []
      | _ => []
      end) m1)) by (rewrite E; left; reflexivity).
    apply in_flat_map in Hx as [[p n] [Hin Hx]].
    destruct p as [| |g s k i| |]; try destruct Hx.
    destruct n as [|[c|t]]; try destruct Hx.
    destruct (fname_eqb f g && negb (sub_eqb s STmp)) eqn:B; [|destruct Hx].
    apply andb_true_iff in B as [B1 B2]. apply fname_eqb_eq in B1. subst g.
    assert (Hl : exists n', lookup m1 (PMsg f s k i) = Some n').
    { apply In_keys_lookup. apply in_map_iff. exists (PMsg f s k i, File (Opaque c)).
      split; [reflexivity|exact Hin]. }
    destruct Hl as [n' Hl].
    rewrite (Gone (PMsg f s k i)) in Hl; [discriminate| |reflexivity].
    cbn [junk]. unfold live. rewrite B2. reflexivity.
  - unfold read_uidl. rewrite (Gone (PCtl f CUidl) eq_refl eq_refl). reflexivity.
  - intros u Hu. rewrite (uidl_at_fun _ _ _ _ Hu Hu2). split; reflexivity.
  - intros v uid key fl c [u [i [Hu [_ [[r [Hr _]] _]]]]].
    rewrite (uidl_at_fun _ _ _ _ Hu Hu2) in Hr. destruct Hr.
Qed.

(* ------------------------------------------------ adoption is fresh *)
Lemma nodup_app2 {A} (l1 l2 : list A) :
  NoDup l1 -> NoDup l2 -> (forall x, In x l1 -> In x l2 -> False) -> NoDup (l1 ++ l2).
Proof.
  induction l1 as [|a l1 IH]; intros H1 H2 Hd; cbn [app]; [exact H2|].
  inversion H1 as [|? ? Hn H1']; subst. constructor.
  - intro Hin. apply in_app_or in Hin as [Hin|Hin]; [exact (Hn Hin)|].
    exact (Hd a (or_introl eq_refl) Hin).
  - apply IH; [exact H1'|exact H2|]. intros x Hx. exact (Hd x (or_intror Hx)).
Qed.

Lemma nodup_map_inj2 {A B} (g : A -> B) (l : list A) :
  (forall a b, g a = g b -> a = b) -> NoDup l -> NoDup (map g l).
Proof.
  intros Hg H. induction H as [|x l Hn H IH]; cbn [map]; constructor; [|exact IH].
  intro Hin. apply in_map_iff in Hin as [y [E Hy]]. apply Hg in E. subst y. exact (Hn Hy).
Qed.

Lemma adopt_next u l : u_next (adopt u l) = u_next u + N.of_nat (length l).
Proof.
  revert u. induction l as [|x l IH]; intro u; cbn [adopt length]; [lia|].
  rewrite IH. cbn [u_next]. lia.
Qed.

Lemma adopt_extra : forall l u, exists extra,
  u_recs (adopt u l) = u_recs u ++ extra
  /\ map r_uid extra = map (fun j => u_next u + N.of_nat j) (seq 0 (length l))
  /\ map r_fname extra = map (fun x => m_key x ++ 58 :: m_info x) l.
Proof.
  induction l as [|x l IH]; intro u; cbn [adopt].
  - exists []. rewrite app_nil_r. repeat split.
  - destruct (IH {| u_val := u_val u; u_next := u_next u + 1; u_guid := u_guid u;
                    u_recs := u_recs u ++ [{| r_uid := u_next u; r_fields := [];
                                              r_fname := m_key x ++ 58 :: m_info x |}] |})
      as [extra [E1 [E2 E3]]].
    cbn [u_recs u_next] in *.
    exists ({| r_uid := u_next u; r_fields := []; r_fname := m_key x ++ 58 :: m_info x |} :: extra).
    split; [rewrite E1, <- app_assoc; reflexivity|]. split.
    + cbn [map length seq r_uid]. f_equal; [lia|]. rewrite E2, <- seq_shift, map_map.
      apply map_ext. intro j. lia.
    + cbn [map r_fname]. f_equal. exact E3.
Qed.

(* the scan of a restarted (or running) server gives every file without a
   record a uid at or above the list's counter — never a uid the list records,
   since those are all below the counter — leaves every existing record as it
   is, keeps the validity, and moves the counter past every uid handed out *)
Theorem adoption_fresh u l :
  uids_ok u ->
  let u' := adopt u l in
  u_val u' = u_val u /\ uids_ok u'
  /\ exists extra, u_recs u' = u_recs u ++ extra
     /\ length extra = length l
     /\ (forall r, In r extra -> u_next u <= r_uid r < u_next u'
                                 /\ ~ In (r_uid r) (map r_uid (u_recs u))).
Proof.
  cbn zeta. intros [Hnd Hlt]. split; [apply adopt_val|].
  destruct (adopt_extra l u) as [extra [E1 [E2 E3]]].
  assert (Hlen : length extra = length l).
  { rewrite <- (map_length r_uid extra), E2, map_length, seq_length. reflexivity. }
  assert (Hr : forall r, In r extra -> u_next u <= r_uid r < u_next (adopt u l)).
  { intros r Hr. rewrite adopt_next.
    assert (Hin : In (r_uid r) (map r_uid extra)) by (apply in_map; exact Hr).
    rewrite E2 in Hin. apply in_map_iff in Hin as [j [Ej Hj]]. apply in_seq in Hj. lia. }
  split.
  - split.
    + rewrite E1, map_app. apply nodup_app2; [exact Hnd| |].
      * rewrite E2. apply nodup_map_inj2; [|apply seq_NoDup].
        intros a b Hab. lia.
      * intros x Hx Hx'. apply in_map_iff in Hx as [r [Er Hin]]. specialize (Hlt r Hin).
        apply in_map_iff in Hx' as [r' [Er' Hin']]. specialize (Hr r' Hin'). lia.
    + intros r Hin. rewrite E1 in Hin. apply in_app_or in Hin as [Hin|Hin].
      * specialize (Hlt r Hin). rewrite adopt_next. lia.
      * exact (proj2 (Hr r Hin)).
  - exists extra. split; [exact E1|]. split; [exact Hlen|].
    intros r Hin. split; [exact (Hr r Hin)|].
    intro Hx. apply in_map_iff in Hx as [r0 [Er0 Hin0]]. specialize (Hlt r0 Hin0).
    specialize (Hr r Hin). lia.
Qed.

(* ... in the restart view: with a readable uid list u, the folder is served
   under u's validity, with the counter moved past the adopted files *)
Theorem recover_adopts m f u :
  folder_ok m f = true -> exists_ m (PCtl f CUidlLock) = false -> uidl_at m f u ->
  let unk := unknown_files u (files_of m f) in
  recover_folder m f
  = VServed (Some (u_val u)) (u_next u + N.of_nat (length unk))
            (serve (adopt u unk) (files_of m f)).
Proof.
  cbn zeta. intros Hok Hl Hu. unfold recover_folder. rewrite Hok, Hl. cbn [negb].
  rewrite (uidl_at_read _ _ _ Hu). rewrite adopt_val, adopt_next. reflexivity.
Qed.
