(* MaildirFS/LegalProofs.v — the decision procedure of Legal.v is sound. *)
From PV Require Import Base.Prelude Base.Decimal MaildirFS.FS MaildirFS.UidList MaildirFS.Ops
  MaildirFS.Spec MaildirFS.FSProofs MaildirFS.Legal.
Local Open Scope N_scope.

Lemma lookup_In m p n : lookup m p = Some n -> In (p, n) m.
Proof.
  induction m as [|[q x] m IH]; cbn [lookup]; intro H; [discriminate|].
  destruct (path_eqb q p) eqn:E.
  - apply path_eqb_eq in E. subst. injection H as <-. left. reflexivity.
  - right. exact (IH H).
Qed.

Lemma bytes_eqb_refl b : bytes_eqb b b = true.
Proof. apply bytes_eqb_eq. reflexivity. Qed.
Lemma fname_eqb_refl f : fname_eqb f f = true.
Proof. apply fname_eqb_eq. reflexivity. Qed.

Lemma key_unused_b_sound m k : key_unused_b m k = true -> key_unused m k.
Proof.
  intros H f s i Hs. destruct (lookup m (PMsg f s k i)) eqn:E; [|reflexivity].
  apply lookup_In in E. unfold key_unused_b in H. rewrite forallb_forall in H.
  specialize (H _ E). cbn [fst] in H. rewrite Hs, bytes_eqb_refl in H. discriminate.
Qed.

Lemma has_file_b_complete m f k : has_file m f k -> has_file_b m f k = true.
Proof.
  intros [i [c [s [Hs Hl]]]]. apply lookup_In in Hl. unfold has_file_b.
  apply existsb_exists. exists (PMsg f s k i, File (Opaque c)). split; [exact Hl|].
  rewrite fname_eqb_refl, Hs, bytes_eqb_refl. reflexivity.
Qed.

Lemma recorded_b_sound u uid k : recorded_b u uid k = true -> recorded u uid k.
Proof.
  unfold recorded_b. intro H. apply existsb_exists in H as [r [Hin H]].
  apply andb_true_iff in H as [H1 H2]. apply N.eqb_eq in H1. apply bytes_eqb_eq in H2.
  exists r. repeat split; assumption.
Qed.

Lemma recorded_in r u : In r (u_recs u) -> recorded u (r_uid r) (r_key r).
Proof. intro H. exists r. repeat split. exact H. Qed.

Lemma nodup_uids_sound l : nodup_uids l = true -> NoDup (map r_uid l).
Proof.
  induction l as [|r l IH]; cbn [nodup_uids map]; intro H; [constructor|].
  apply andb_true_iff in H as [H1 H2]. constructor; [|exact (IH H2)].
  intro Hin. apply in_map_iff in Hin as [x [Hx Hin]].
  apply negb_true_iff in H1. assert (E : existsb (fun x => r_uid x =? r_uid r) l = true).
  { apply existsb_exists. exists x. split; [exact Hin|]. apply N.eqb_eq. exact Hx. }
  congruence.
Qed.

Lemma uids_ok_b_sound u : uids_ok_b u = true -> uids_ok u.
Proof.
  unfold uids_ok_b. intro H. apply andb_true_iff in H as [H1 H2]. split.
  - exact (nodup_uids_sound _ H1).
  - intros r Hr. rewrite forallb_forall in H2. apply N.ltb_lt. exact (H2 r Hr).
Qed.

Lemma extends_b_sound m f u u' : extends_b m f u u' = true -> extends (has_file m f) u u'.
Proof.
  unfold extends_b. intro H.
  apply andb_true_iff in H as [H H4]. apply andb_true_iff in H as [H H3].
  apply andb_true_iff in H as [H1 H2].
  apply N.eqb_eq in H1. apply N.leb_le in H2.
  rewrite forallb_forall in H3, H4.
  split; [exact H1|]. split; [exact H2|]. split.
  - intros uid k [r [Hin [<- <-]]] Hlt. specialize (H3 r Hin).
    apply N.ltb_lt in Hlt. rewrite Hlt in H3. exact (recorded_b_sound _ _ _ H3).
  - intros uid k [r [Hin [<- <-]]] Hf. specialize (H4 r Hin).
    rewrite (has_file_b_complete _ _ _ Hf) in H4. exact (recorded_b_sound _ _ _ H4).
Qed.

Lemma install_ok_sound m f n : install_ok m f n = true ->
  exists t u', lookup m (PTmp f n) = Some (File (Text t)) /\ parse_uidl t = Ok u'
    /\ uids_ok u' /\ (forall u, uidl_at m f u -> extends (has_file m f) u u').
Proof.
  unfold install_ok.
  destruct (lookup m (PTmp f n)) as [[|[id|t]]|] eqn:E; try discriminate.
  destruct (parse_uidl t) as [u'| | |] eqn:P; try discriminate.
  intro H. apply andb_true_iff in H as [H1 H2].
  exists t, u'. split; [reflexivity|]. split; [exact P|]. split; [exact (uids_ok_b_sound _ H1)|].
  intros u [t0 [Hl0 Hp0]]. rewrite Hl0, Hp0 in H2. exact (extends_b_sound _ _ _ _ H2).
Qed.

Theorem legal_b_sound m o : legal_b m o = true -> legal m o.
Proof.
  destruct o as [p|p|p|p c|p q|a b|p q|p|p]; cbn [legal_b]; intro H; try discriminate.
  - apply L_mkdir.
  - apply orb_true_iff in H as [H|H]; [apply L_creat; exact H|].
    destruct p as [| | |f c|]; try discriminate. destruct c; try discriminate. apply L_mdf.
  - apply L_write. exact H.
  - destruct p as [| |f s k i|f c|f n]; try discriminate.
    + destruct q as [| |g s' k' i'| |]; try discriminate.
      apply andb_true_iff in H as [H H4]. apply andb_true_iff in H as [H H3].
      apply andb_true_iff in H as [H1 H2]. apply bytes_eqb_eq in H3. subst k'.
      apply orb_true_iff in H4 as [H4|H4].
      * apply fname_eqb_eq in H4. subst g. apply L_flags; assumption.
      * apply bytes_eqb_eq in H4. subst i'. apply L_move; assumption.
    + destruct q as [| | |g c|]; try (destruct f; discriminate).
      destruct c; try (destruct f, g; discriminate).
      * assert (H' : fname_eqb f g && install_ok m f n = true) by (destruct f, g; exact H).
        clear H. apply andb_true_iff in H' as [H1 H2]. apply fname_eqb_eq in H1. subst g.
        destruct (install_ok_sound _ _ _ H2) as [t [u' [Hl [Hp [Hu He]]]]].
        eapply L_install; eassumption.
      * destruct f; [|discriminate]. destruct g; [|discriminate]. apply L_subs.
  - destruct p as [| |f s k i| |]; try discriminate.
    destruct s; try discriminate. destruct i; try discriminate.
    destruct q as [| |g s' k' i'| |]; try discriminate.
    apply andb_true_iff in H as [H H4]. apply andb_true_iff in H as [H H3].
    apply andb_true_iff in H as [H1 H2].
    apply fname_eqb_eq in H1. apply bytes_eqb_eq in H2. subst g k'.
    apply L_link; [exact H3|exact (key_unused_b_sound _ _ H4)].
  - apply orb_true_iff in H as [H|H]; [apply L_unlink_junk; exact H|].
    destruct p as [| |f s k i|f c|]; try discriminate.
    + apply L_expunge. exact H.
    + destruct f; [|discriminate]. destruct c; try discriminate. apply L_unsubs.
  - apply L_utime.
Qed.

Theorem legal_ops_b_run lay m l m' :
  legal_ops_b lay m l = true -> apply_ops lay m l = (m', true) -> legal_run lay m l m'.
Proof.
  revert m. induction l as [|o l IH]; intros m H A; cbn [legal_ops_b apply_ops] in *.
  - injection A as <-. constructor.
  - apply andb_true_iff in H as [H1 H2].
    destruct (apply_op lay m o) as [m1|] eqn:E; [|discriminate].
    econstructor; [exact (legal_b_sound _ _ H1)|exact E|exact (IH _ H2 A)].
Qed.

(* the part of an operation list that is executed (up to the first failing
   operation) is a legal run, for every crash point *)
Lemma legal_ops_b_crash lay m l k :
  legal_ops_b lay m l = true ->
  exists l', legal_run lay m l' (fst (apply_ops lay m (crash k l)))
             /\ (forall key, touched l' key -> touched (crash k l) key)
             /\ exists rest, crash k l = l' ++ rest.
Proof.
  revert m k. induction l as [|o l IH]; intros m k H.
  - exists []. unfold crash. rewrite firstn_nil. cbn. split; [constructor|].
    split; [intros ? T; exact T|exists []; reflexivity].
  - destruct k as [|k].
    + exists []. cbn. split; [constructor|]. split; [intros ? T; exact T|exists []; reflexivity].
    + cbn [legal_ops_b] in H. apply andb_true_iff in H as [H1 H2].
      unfold crash in *. cbn [firstn apply_ops].
      destruct (apply_op lay m o) as [m1|] eqn:E.
      * destruct (IH m1 k H2) as [l' [R [T [rest Er]]]].
        exists (o :: l'). split; [econstructor; [exact (legal_b_sound _ _ H1)|exact E|exact R]|].
        split.
        -- intros key Hk. inversion Hk; subst; [apply Exists_cons_hd; assumption|].
           apply Exists_cons_tl. apply T. assumption.
        -- exists rest. cbn [app]. rewrite Er. reflexivity.
      * exists []. cbn. split; [constructor|].
        split; [intros ? T; inversion T|exists (o :: firstn k l); reflexivity].
Qed.
